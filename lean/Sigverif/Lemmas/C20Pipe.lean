/-
  Lemmas/C20Pipe.lean — the string layer of `support`, part 3: from what `read_sig` hands over under
  `use_modifiers_kwoargs` to the parameters of `s(text, …)`: the generated `def` is compiled (`parseDef`), then
  `modifiers.kwoargs(*kwoarg_n)` moves the named parameters behind the star (`prepare`, specification `pokSpec`).
-/
import Sigverif.Lemmas.C20Mod
import Sigverif.Props.C12
import Sigverif.Props.C18
namespace SV
set_option linter.unusedSimpArgs false
set_option linter.unusedVariables false

/-- the parameter a `def` item of `read_sig` denotes (kind given by its position in the `def`) -/
def mkP (ua : Bool) (k : Kind) (p : Param) : Param := ⟨p.name, k, p.dflt, if ua then none else p.ann, .empty⟩

@[simp] theorem mkP_name (ua : Bool) (k : Kind) (p : Param) : (mkP ua k p).name = p.name := rfl
@[simp] theorem mkP_kind (ua : Bool) (k : Kind) (p : Param) : (mkP ua k p).kind = k := rfl
@[simp] theorem mkP_dflt (ua : Bool) (k : Kind) (p : Param) : (mkP ua k p).dflt = p.dflt := rfl

/-- the `def` that `read_sig` writes under `use_modifiers_kwoargs` -/
def defOf (ua : Bool) (R D : List Param) (va vk : Option Param) : List Param :=
  R.map (mkP ua .pk) ++ D.map (mkP ua .pk) ++ (va.map (mkP ua .vp)).toList ++ (vk.map (mkP ua .vk)).toList

theorem pairwise_VR_defOf (ua : Bool) (R D : List Param) (va vk : Option Param)
    (hR : ∀ p ∈ R, p.dflt = none) (hD : ∀ p ∈ D, p.dflt.isSome = true)
    (hn : ((R ++ D ++ va.toList ++ vk.toList).map (·.name)).Pairwise (· ≠ ·)) :
    (defOf ua R D va vk).Pairwise VR := by
  have hall : ∀ (l : List Param) (f : Param → Param) (hf : ∀ p, (f p).name = p.name),
      (l.map f).map (·.name) = l.map (·.name) := by
    intro l f hf; simp [Function.comp_def, hf]
  -- names are pairwise different in defOf too
  have hn' : ((defOf ua R D va vk).map (·.name)).Pairwise (· ≠ ·) := by
    have : (defOf ua R D va vk).map (·.name) = (R ++ D ++ va.toList ++ vk.toList).map (·.name) := by
      cases va <;> cases vk <;> simp [defOf, Function.comp_def]
    rw [this]; exact hn
  rw [List.pairwise_map] at hn'
  -- the other two clauses of VR hold by position
  have hpos : (defOf ua R D va vk).Pairwise (fun p q => p.kind.rank ≤ q.kind.rank ∧
      (isPositional p = true → p.dflt.isSome = true → isPositional q = true → q.dflt.isSome = true)) := by
    unfold defOf
    rw [List.pairwise_append, List.pairwise_append, List.pairwise_append]
    refine ⟨⟨⟨?_, ?_, ?_⟩, ?_, ?_⟩, ?_, ?_⟩
    · rw [List.pairwise_map]
      exact (List.pairwise_of_forall (R := fun (_ _ : Param) => True) (fun _ _ => trivial)).imp_of_mem (by
          intro p q hp hq _
          refine ⟨by simp [Kind.rank], ?_⟩
          intro _ h; simp [hR p hp] at h)
    · rw [List.pairwise_map]
      exact (List.pairwise_of_forall (R := fun (_ _ : Param) => True) (fun _ _ => trivial)).imp_of_mem (by
          intro p q hp hq _
          exact ⟨by simp [Kind.rank], fun _ _ _ => by simpa using hD q hq⟩)
    · intro a ha b hb
      simp only [List.mem_map] at ha hb
      obtain ⟨p, hp, rfl⟩ := ha
      obtain ⟨q, hq, rfl⟩ := hb
      exact ⟨by simp [Kind.rank], fun _ _ _ => by simpa using hD q hq⟩
    · cases va <;> simp
    · intro a ha b hb
      cases va with
      | none => simp at hb
      | some v =>
        simp only [Option.map_some, Option.toList_some, List.mem_singleton] at hb
        subst hb
        simp only [List.mem_append, List.mem_map] at ha
        rcases ha with ⟨p, _, rfl⟩ | ⟨p, _, rfl⟩ <;>
          exact ⟨by simp [Kind.rank], fun _ _ h => by simp [isPositional] at h⟩
    · cases vk <;> simp
    · intro a ha b hb
      cases vk with
      | none => simp at hb
      | some w =>
        simp only [Option.map_some, Option.toList_some, List.mem_singleton] at hb
        subst hb
        refine ⟨?_, fun _ _ h => by simp [isPositional] at h⟩
        simp only [List.mem_append, List.mem_map] at ha
        rcases ha with (⟨p, _, rfl⟩ | ⟨p, _, rfl⟩) | ha
        · simp [Kind.rank]
        · simp [Kind.rank]
        · cases va with
          | none => simp at ha
          | some v => simp at ha; subst ha; simp [Kind.rank]
  exact (hpos.and hn').imp (fun h => ⟨h.1.1, h.1.2, h.2⟩)


theorem defOf_bare (ua : Bool) (R D : List Param) (va vk : Option Param) :
    (defOf ua R D va vk).map Param.bare = defOf ua R D va vk := by
  have : ∀ k (p : Param), (mkP ua k p).bare = mkP ua k p := fun _ _ => rfl
  cases va <;> cases vk <;> simp [defOf, this, Function.comp_def]

theorem defOf_counts (ua : Bool) (R D : List Param) (va vk : Option Param) :
    ((defOf ua R D va vk).filter (fun p => p.kind = .vp)).length ≤ 1 ∧
    ((defOf ua R D va vk).filter (fun p => p.kind = .vk)).length ≤ 1 := by
  have h1 : ∀ (L : List Param) (k : Kind), k ≠ .pk → (L.map (mkP ua .pk)).filter (fun p => p.kind = k) = [] := by
    intro L k hk
    rw [List.filter_eq_nil_iff]
    intro p hp
    simp only [List.mem_map] at hp
    obtain ⟨q, _, rfl⟩ := hp
    have : (mkP ua .pk q).kind ≠ k := fun h => hk h.symm
    simp only [decide_eq_true_eq]
    exact this
  cases va <;> cases vk <;> simp [defOf, List.filter_append, h1, List.filter_cons]

/-- CPython reads the `def` that `read_sig` writes under `use_modifiers_kwoargs` as `defOf` -/
theorem parseDef_defOf (ua : Bool) (R D : List Param) (va vk : Option Param)
    (hR : ∀ p ∈ R, p.dflt = none) (hD : ∀ p ∈ D, p.dflt.isSome = true)
    (hvad : ∀ v ∈ va, v.dflt = none) (hvkd : ∀ v ∈ vk, v.dflt = none)
    (hn : ((R ++ D ++ va.toList ++ vk.toList).map (·.name)).Pairwise (· ≠ ·)) :
    parseDef (R.map (itemU ua 0) ++ D.map (itemU ua 0) ++ va.toList.map (itemU ua 1) ++ vk.toList.map (itemU ua 2))
      = .ok (defOf ua R D va vk) := by
  have hpw := pairwise_VR_defOf ua R D va vk hR hD hn
  have hc := defOf_counts ua R D va vk
  have hstar : ∀ p ∈ defOf ua R D va vk, (p.kind = .vp ∨ p.kind = .vk) → p.dflt = none := by
    intro p hp hk
    simp only [defOf, List.mem_append, List.mem_map, Option.mem_toList, Option.map_eq_some_iff] at hp
    rcases hp with ((⟨q, _, rfl⟩ | ⟨q, _, rfl⟩) | ⟨q, hq, rfl⟩) | ⟨q, hq, rfl⟩
    · simp at hk
    · simp at hk
    · simpa using hvad q hq
    · simpa using hvkd q hq
  have key := parseDef_pieces' (defOf ua R D va vk) hpw hc.1 hc.2 hstar
  rw [defOf_bare] at key
  rw [← key]
  congr 1
  have e : defOf ua R D va vk =
      (R ++ D).map (mkP ua .pk) ++ (va.map (mkP ua .vp)).toList ++ [] ++ (vk.map (mkP ua .vk)).toList := by
    simp [defOf]
  rw [e, pieces_buckets ((R ++ D).map (mkP ua .pk)) [] (va.map (mkP ua .vp)) (vk.map (mkP ua .vk))
    (by intro p hp; simp only [List.mem_map] at hp; obtain ⟨q, _, rfl⟩ := hp; rfl)
    (by simp)
    (by intro p hp; simp only [Option.mem_def, Option.map_eq_some_iff] at hp; obtain ⟨q, _, rfl⟩ := hp; rfl)
    (by intro p hp; simp only [Option.mem_def, Option.map_eq_some_iff] at hp; obtain ⟨q, _, rfl⟩ := hp; rfl)]
  cases va <;> cases vk <;>
    simp [midPieces, vkPieces, plainP, Piece.toItem, itemU, mkP, Function.comp_def] <;> rfl


theorem filter_map_all (L : List Param) (g : Param → Param) (f : Param → Bool) (h : ∀ p ∈ L, f (g p) = true) :
    (L.map g).filter f = L.map g := by
  rw [List.filter_eq_self]
  intro a ha
  simp only [List.mem_map] at ha
  obtain ⟨p, hp, rfl⟩ := ha
  exact h p hp

theorem filter_map_none (L : List Param) (g : Param → Param) (f : Param → Bool) (h : ∀ p ∈ L, f (g p) = false) :
    (L.map g).filter f = [] := by
  rw [List.filter_eq_nil_iff]
  intro a ha
  simp only [List.mem_map] at ha
  obtain ⟨p, hp, rfl⟩ := ha
  simp [h p hp]

theorem mem_reqs_or_dfls (L : List Param) (p : Param) (h : p ∈ L) : p ∈ reqs L ∨ p ∈ dfls L := by
  cases hd : p.dflt with
  | none => left; simp [reqs, h, hd]
  | some d => right; simp [dfls, h, hd]


theorem rearranged_perm (pk ko : List Param) (va vk : Option Param) :
    ((reqs pk ++ reqs ko) ++ (dfls pk ++ dfls ko) ++ va.toList ++ vk.toList).Perm (pk ++ ko ++ va.toList ++ vk.toList) := by
  refine List.Perm.append_right _ (List.Perm.append_right _ ?_)
  have h1 : (reqs pk ++ dfls pk).Perm pk := by
    unfold reqs dfls
    have := List.filter_append_perm (fun p : Param => p.dflt.isNone) pk
    simpa [Option.not_isNone] using this
  have h2 : (reqs ko ++ dfls ko).Perm ko := by
    unfold reqs dfls
    have := List.filter_append_perm (fun p : Param => p.dflt.isNone) ko
    simpa [Option.not_isNone] using this
  calc (reqs pk ++ reqs ko) ++ (dfls pk ++ dfls ko)
      _ = reqs pk ++ (reqs ko ++ dfls pk) ++ dfls ko := by simp
      _ |>.Perm (reqs pk ++ (dfls pk ++ reqs ko) ++ dfls ko) :=
          List.Perm.append_right _ (List.Perm.append_left _ List.perm_append_comm)
      _ = (reqs pk ++ dfls pk) ++ (reqs ko ++ dfls ko) := by simp
      _ |>.Perm (pk ++ ko) := List.Perm.append h1 h2

theorem rearranged_names (pk ko : List Param) (va vk : Option Param)
    (hn : ((pk ++ ko ++ va.toList ++ vk.toList).map (·.name)).Pairwise (· ≠ ·)) :
    (((reqs pk ++ reqs ko) ++ (dfls pk ++ dfls ko) ++ va.toList ++ vk.toList).map (·.name)).Pairwise (· ≠ ·) := by
  have := ((rearranged_perm pk ko va vk).map (·.name)).nodup_iff.2 (List.nodup_iff_pairwise_ne.2 hn)
  exact List.nodup_iff_pairwise_ne.1 this

theorem reqs_dflt (pk ko : List Param) : ∀ p ∈ reqs pk ++ reqs ko, p.dflt = none := by
  intro p hp
  simp only [reqs, List.mem_append, List.mem_filter] at hp
  rcases hp with ⟨_, h⟩ | ⟨_, h⟩ <;> simpa using h

theorem dfls_dflt (pk ko : List Param) : ∀ p ∈ dfls pk ++ dfls ko, p.dflt.isSome = true := by
  intro p hp
  simp only [dfls, List.mem_append, List.mem_filter] at hp
  rcases hp with ⟨_, h⟩ | ⟨_, h⟩ <;> exact h

theorem fold_annUpd_false (L : List Param) (a : List (Nat × Nat)) : L.foldl (annUpd false) a = a := by
  induction L generalizing a with
  | nil => rfl
  | cons p L ih => simp only [List.foldl_cons]; rw [ih]; unfold annUpd; split <;> simp

/-- what `modifiers.kwoargs(*kwoarg_n)` makes of the generated `def` -/
theorem prepare_defOf (ua : Bool) (pk ko : List Param) (va vk : Option Param)
    (hsorted : pk = reqs pk ++ dfls pk)
    (hvad : ∀ v ∈ va, v.dflt = none) (hvkd : ∀ v ∈ vk, v.dflt = none)
    (hn : ((pk ++ ko ++ va.toList ++ vk.toList).map (·.name)).Pairwise (· ≠ ·)) :
    ∃ kp, prepare (defOf ua (reqs pk ++ reqs ko) (dfls pk ++ dfls ko) va vk) [] (ko.map (·.name)) =
      .ok (pk.map (mkP ua .pk) ++ (va.map (mkP ua .vp)).toList ++ (reqs ko ++ dfls ko).map (mkP ua .ko)
            ++ (vk.map (mkP ua .vk)).toList, kp) := by
  -- names: the generated def is a rearrangement of pk ++ ko ++ va ++ vk
  have hperm : ((reqs pk ++ reqs ko) ++ (dfls pk ++ dfls ko) ++ va.toList ++ vk.toList).Perm (pk ++ ko ++ va.toList ++ vk.toList) := by
    refine List.Perm.append_right _ (List.Perm.append_right _ ?_)
    have h1 : (reqs pk ++ dfls pk).Perm pk := by
      unfold reqs dfls
      have := List.filter_append_perm (fun p : Param => p.dflt.isNone) pk
      simpa [Option.not_isNone] using this
    have h2 : (reqs ko ++ dfls ko).Perm ko := by
      unfold reqs dfls
      have := List.filter_append_perm (fun p : Param => p.dflt.isNone) ko
      simpa [Option.not_isNone] using this
    calc (reqs pk ++ reqs ko) ++ (dfls pk ++ dfls ko)
        _ = reqs pk ++ (reqs ko ++ dfls pk) ++ dfls ko := by simp
        _ |>.Perm (reqs pk ++ (dfls pk ++ reqs ko) ++ dfls ko) :=
            List.Perm.append_right _ (List.Perm.append_left _ List.perm_append_comm)
        _ = (reqs pk ++ dfls pk) ++ (reqs ko ++ dfls ko) := by simp
        _ |>.Perm (pk ++ ko) := List.Perm.append h1 h2
  have hn2 : (((reqs pk ++ reqs ko) ++ (dfls pk ++ dfls ko) ++ va.toList ++ vk.toList).map (·.name)).Pairwise (· ≠ ·) := by
    have := (hperm.map (·.name)).nodup_iff.2 (List.nodup_iff_pairwise_ne.2 hn)
    exact List.nodup_iff_pairwise_ne.1 this
  have hR : ∀ p ∈ reqs pk ++ reqs ko, p.dflt = none := by
    intro p hp
    simp only [reqs, List.mem_append, List.mem_filter] at hp
    rcases hp with ⟨_, h⟩ | ⟨_, h⟩ <;> simpa using h
  have hD : ∀ p ∈ dfls pk ++ dfls ko, p.dflt.isSome = true := by
    intro p hp
    simp only [dfls, List.mem_append, List.mem_filter] at hp
    rcases hp with ⟨_, h⟩ | ⟨_, h⟩ <;> exact h
  have hpw := pairwise_VR_defOf ua _ _ va vk hR hD hn2
  have hc := defOf_counts ua (reqs pk ++ reqs ko) (dfls pk ++ dfls ko) va vk
  have hwf : WF (defOf ua (reqs pk ++ reqs ko) (dfls pk ++ dfls ko) va vk) := ⟨(validOk_iff _).2 hpw, hc.1, hc.2⟩
  -- the names of pk and ko are apart
  have hnodup : ((pk ++ ko ++ va.toList ++ vk.toList).map (·.name)).Nodup := List.nodup_iff_pairwise_ne.2 hn
  have hpkW : ∀ p ∈ pk, (ko.map (·.name)).contains p.name = false := by
    intro p hp
    cases hcn : (ko.map (·.name)).contains p.name with
    | false => rfl
    | true =>
      exfalso
      have hmem : p.name ∈ ko.map (·.name) := by simpa using hcn
      simp only [List.map_append, List.append_assoc] at hnodup
      have := (List.nodup_append.1 hnodup).2.2 p.name (List.mem_map_of_mem hp) p.name
        (List.mem_append_left _ hmem)
      exact this rfl
  have hkoW : ∀ p ∈ ko, (ko.map (·.name)).contains p.name = true := by
    intro p hp; simpa using List.mem_map_of_mem (f := (·.name)) hp
  have hsub1 : ∀ p ∈ reqs pk, p ∈ pk := fun p hp => (List.mem_filter.1 hp).1
  have hsub2 : ∀ p ∈ dfls pk, p ∈ pk := fun p hp => (List.mem_filter.1 hp).1
  have hsub3 : ∀ p ∈ reqs ko, p ∈ ko := fun p hp => (List.mem_filter.1 hp).1
  have hsub4 : ∀ p ∈ dfls ko, p ∈ ko := fun p hp => (List.mem_filter.1 hp).1
  -- admissible, hence prepare answers with pokSpec
  have hadm : admissible (defOf ua (reqs pk ++ reqs ko) (dfls pk ++ dfls ko) va vk) [] (ko.map (·.name)) := by
    refine ⟨by simp, by simp, ?_, by simp⟩
    intro x hx
    simp only [List.mem_map] at hx
    obtain ⟨k, hk, rfl⟩ := hx
    refine ⟨mkP ua .pk k, ?_, rfl, Or.inl rfl⟩
    rcases mem_reqs_or_dfls ko k hk with h | h
    · simp only [defOf, List.mem_append, List.mem_map, List.map_append]
      exact Or.inl (Or.inl (Or.inl (Or.inr ⟨k, h, rfl⟩)))
    · simp only [defOf, List.mem_append, List.mem_map, List.map_append]
      exact Or.inl (Or.inl (Or.inr (Or.inr ⟨k, h, rfl⟩)))
  obtain ⟨⟨A, kp⟩, hprep⟩ := (prepare_ok_iff _ _ _ hwf).2 hadm
  have hA := prepare_spec _ A [] _ kp hwf hprep
  refine ⟨kp, ?_⟩
  rw [hprep, hA]
  congr 2
  -- compute pokSpec bucket by bucket
  unfold pokSpec defOf
  simp only [List.map_append, List.filter_append]
  have f1 : ∀ L : List Param, (∀ p ∈ L, p ∈ pk) →
      (L.map (mkP ua .pk)).filter (fun p => (p.kind = .po || p.kind = .pk) && !(ko.map (·.name)).contains p.name)
        = L.map (mkP ua .pk) := fun L hL => filter_map_all L _ _ (by intro p hp; have := hpkW p (hL p hp); simp only [mkP_kind, mkP_name, this]; rfl)
  have f2 : ∀ L : List Param, (∀ p ∈ L, p ∈ ko) →
      (L.map (mkP ua .pk)).filter (fun p => (p.kind = .po || p.kind = .pk) && !(ko.map (·.name)).contains p.name)
        = [] := fun L hL => filter_map_none L _ _ (by intro p hp; have := hkoW p (hL p hp); simp only [mkP_kind, mkP_name, this]; rfl)
  have f3 : ∀ L : List Param, (∀ p ∈ L, p ∈ pk) →
      (L.map (mkP ua .pk)).filter (fun p => p.kind = .pk && (ko.map (·.name)).contains p.name) = [] :=
    fun L hL => filter_map_none L _ _ (by intro p hp; have := hpkW p (hL p hp); simp only [mkP_kind, mkP_name, this]; rfl)
  have f4 : ∀ L : List Param, (∀ p ∈ L, p ∈ ko) →
      (L.map (mkP ua .pk)).filter (fun p => p.kind = .pk && (ko.map (·.name)).contains p.name) = L.map (mkP ua .pk) :=
    fun L hL => filter_map_all L _ _ (by intro p hp; have := hkoW p (hL p hp); simp only [mkP_kind, mkP_name, this]; rfl)
  have g1 : ∀ (L : List Param) (k : Kind), k ≠ .pk → (L.map (mkP ua .pk)).filter (fun p => p.kind = k) = [] :=
    fun L k hk => filter_map_none L _ _ (by intro p _; simp only [mkP_kind]; exact decide_eq_false (fun h => hk h.symm))
  rw [f1 _ hsub1, f2 _ hsub3, f1 _ hsub2, f2 _ hsub4, f3 _ hsub1, f4 _ hsub3, f3 _ hsub2, f4 _ hsub4,
    g1 _ .vp (by simp), g1 _ .vp (by simp), g1 _ .vp (by simp), g1 _ .vp (by simp),
    g1 _ .ko (by simp), g1 _ .ko (by simp), g1 _ .ko (by simp), g1 _ .ko (by simp),
    g1 _ .vk (by simp), g1 _ .vk (by simp), g1 _ .vk (by simp), g1 _ .vk (by simp)]
  have hpkmap : pk.map (mkP ua .pk) = (reqs pk).map (mkP ua .pk) ++ (dfls pk).map (mkP ua .pk) := by
    rw [← List.map_append, ← hsorted]
  have hwk : ∀ L : List Param, (L.map (mkP ua .pk)).map (·.withKind .ko) = L.map (mkP ua .ko) := by
    intro L; simp [Function.comp_def, mkP, Param.withKind]
  cases va <;> cases vk <;>
    simp [hpkmap, hwk, List.filter_cons, mkP, Function.comp_def, Param.withKind] <;> rfl


theorem mkP_false_eq (k : Kind) (p : Param) (h : p.kind = k) : mkP false k p = p.bare := by
  cases p; simp_all [mkP, Param.bare]

theorem map_mkP_false (k : Kind) (L : List Param) (h : ∀ p ∈ L, p.kind = k) : L.map (mkP false k) = L.map Param.bare :=
  List.map_congr_left (fun p hp => mkP_false_eq k p (h p hp))

theorem bare_bare (p : Param) : p.bare.bare = p.bare := rfl

/-- the whole of `s(text, use_modifiers_kwoargs=True)` (annotations written natively): the `def` is compiled and
    `kwoargs` applied; the result has the parameters of the signature, the keyword-only ones in the order
    required-then-defaulted -/
theorem sParams_kwo (upo : Bool) (pk ko : List Param) (va vk : Option Param)
    (hpk : ∀ p ∈ pk, p.kind = .pk) (hko : ∀ p ∈ ko, p.kind = .ko)
    (hva : ∀ p ∈ va, p.kind = .vp) (hvk : ∀ p ∈ vk, p.kind = .vk)
    (hsorted : pk = reqs pk ++ dfls pk) (hvad : ∀ v ∈ va, v.dflt = none) (hvkd : ∀ v ∈ vk, v.dflt = none)
    (hn : ((pk ++ ko ++ va.toList ++ vk.toList).map (·.name)).Pairwise (· ≠ ·)) :
    sParams false upo true (pieces (pk ++ va.toList ++ ko ++ vk.toList)) =
      .ok ((pk ++ va.toList ++ (reqs ko ++ dfls ko) ++ vk.toList).map Param.bare) := by
  rw [pieces_buckets pk ko va vk hpk hko hva hvk]
  simp only [List.append_assoc]
  obtain ⟨h1, h2, h3, h4⟩ := readSig_kwo false upo pk ko va vk hsorted hvad hvkd
  have hparse := parseDef_defOf false (reqs pk ++ reqs ko) (dfls pk ++ dfls ko) va vk (reqs_dflt pk ko) (dfls_dflt pk ko)
    hvad hvkd (rearranged_names pk ko va vk hn)
  simp only [List.map_append] at hparse h1
  simp only [List.append_assoc] at hparse h1
  unfold sParams
  simp only [h1, h2, h3, h4, fold_annUpd_false, hparse, bind, Except.bind, List.isEmpty_nil, if_true, pure, Except.pure]
  have hvaK : (va.map (mkP false .vp)).toList = va.toList.map Param.bare := by
    cases va with
    | none => rfl
    | some v => simp [mkP_false_eq .vp v (hva v rfl)]
  have hvkK : (vk.map (mkP false .vk)).toList = vk.toList.map Param.bare := by
    cases vk with
    | none => rfl
    | some v => simp [mkP_false_eq .vk v (hvk v rfl)]
  by_cases hke : ko = []
  · subst hke
    simp only [List.map_nil, List.isEmpty_nil, if_true]
    have hsub1 : ∀ p ∈ reqs pk, p.kind = .pk := fun p hp => hpk p (List.mem_filter.1 hp).1
    have hsub2 : ∀ p ∈ dfls pk, p.kind = .pk := fun p hp => hpk p (List.mem_filter.1 hp).1
    simp only [defOf, reqs, dfls, List.filter_nil, List.append_nil, List.map_append, hvaK, hvkK, List.nil_append]
    have : (List.filter (fun p => p.dflt.isNone) pk).map (mkP false .pk) ++ (List.filter (fun p => p.dflt.isSome) pk).map (mkP false .pk)
        = pk.map Param.bare := by
      rw [← List.map_append]
      have e : List.filter (fun p => p.dflt.isNone) pk ++ List.filter (fun p => p.dflt.isSome) pk = pk := hsorted.symm
      rw [e, map_mkP_false .pk pk hpk]
    rw [← List.append_assoc, this]
  · have hne : (ko.map (·.name)).isEmpty = false := by
      cases ko with
      | nil => exact absurd rfl hke
      | cons _ _ => rfl
    simp only [hne, Bool.false_eq_true, if_false]
    obtain ⟨kp, hprep⟩ := prepare_defOf false pk ko va vk hsorted hvad hvkd hn
    simp only [hprep, liftV, bind, Except.bind, pure, Except.pure]
    have hsub3 : ∀ p ∈ reqs ko ++ dfls ko, p.kind = .ko := by
      intro p hp
      simp only [reqs, dfls, List.mem_append, List.mem_filter] at hp
      rcases hp with ⟨h, _⟩ | ⟨h, _⟩ <;> exact hko p h
    rw [map_mkP_false .pk pk hpk, map_mkP_false .ko _ hsub3, hvaK, hvkK]
    simp

end SV
