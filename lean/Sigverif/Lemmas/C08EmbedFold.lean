/-
  Lemmas/C08EmbedFold.lean — provenance of `embed` on two signatures (what `forwards` uses)
  and the depth bookkeeping.
-/
import Sigverif.Lemmas.C08Embed
import Sigverif.Lemmas.C08Fold
namespace SV
set_option linter.unusedSimpArgs false
set_option linter.unusedVariables false

theorem starsApart_of_nodup (s : Sorted) (h : (names s.all).Nodup) : StarsApart s := by
  unfold Sorted.all at h
  simp only [names_append] at h
  rw [List.nodup_append] at h
  obtain ⟨h1, h2, h3⟩ := h           -- (pos++pok++va++kwo) vs vk
  rw [List.nodup_append] at h1
  obtain ⟨h4, h5, h6⟩ := h1          -- (pos++pok++va) vs kwo
  rw [List.nodup_append] at h4
  obtain ⟨h7, h8, h9⟩ := h4          -- (pos++pok) vs va
  refine ⟨?_, ?_, ?_⟩
  · intro a ha
    have hmem : a.name ∈ names s.va.toList := by rw [ha]; simp [names]
    refine ⟨?_, ?_, ?_⟩
    · intro hn; exact h9 a.name (by simp [hn]) a.name hmem rfl
    · intro hn; exact h9 a.name (by simp [hn]) a.name hmem rfl
    · intro hn; exact h6 a.name (by simp [hmem]) a.name hn rfl
  · intro b hb
    have hmem : b.name ∈ names s.vk.toList := by rw [hb]; simp [names]
    refine ⟨?_, ?_, ?_⟩
    · intro hn; exact h3 b.name (by simp [hn]) b.name hmem rfl
    · intro hn; exact h3 b.name (by simp [hn]) b.name hmem rfl
    · intro hn; exact h3 b.name (by simp [hn]) b.name hmem rfl
  · intro a b ha hb e
    have hm1 : a.name ∈ names s.va.toList := by rw [ha]; simp [names]
    have hm2 : b.name ∈ names s.vk.toList := by rw [hb]; simp [names]
    exact h3 a.name (by simp [hm1]) b.name hm2 e

theorem WF_names_nodup (ps : List Param) (h : WF ps) : (names ps).Nodup := (WF_inv ps h).2.1

/-- provenance well-formedness of a signature, including the uniqueness of keys -/
structure ProvWF1 (u : USig) : Prop extends ProvWF u where
  nd : KeysND u.src

theorem mergeStep_depths (l r s : Sorted) (h : mergeStep l r = .ok s) :
    s.depths = mergeDepths l.depths r.depths := by
  obtain ⟨st1, st2, st3, st4, il, ir, h1, h2, h3, h4, rfl⟩ := mergeStep_ok l r s h
  rfl

theorem mergeDepths_nil (l : Depths) : mergeDepths l [] = l := rfl

/-- `embed` of two signatures: provenance stays well-formed, truthful, and every callable
    listed has a depth. -/
theorem embed2_provWF (o i R : USig) (uva uvk : Bool)
    (ho : WF o.params) (hi : WF i.params) (po : ProvWF1 o) (pi : ProvWF i) (hid : KeysND i.depths)
    (h : embed uva uvk [o, i] = .ok R) :
    ProvWF1 R ∧ (∀ k f, f ∈ sget R.src k → f ∈ sget o.src k ∨ f ∈ sget i.src k) ∧
      (∀ f, dget R.depths f = minDepth (dget o.depths f) ((dget i.depths f).map (· + 1))) := by
  simp only [embed, embedFold, bind, Except.bind] at h
  split at h
  · cases h
  · rename_i r hfold
    split at hfold
    · rename_i acc hstep
      simp only [Except.ok.injEq] at hfold
      subst hfold
      obtain ⟨e1, e2, e3⟩ := applyParams_ok_C08 h
      obtain ⟨_, _, _, _, _, osrc, odep⟩ := sortParams_fields o ho
      obtain ⟨_, _, _, _, _, isrc, idep⟩ := sortParams_fields i hi
      have oall := sortParams_all_Laws o ho
      have iall := sortParams_all_Laws i hi
      have hOs : StarsApart (sortParams o) := starsApart_of_nodup _ (by rw [oall]; exact WF_names_nodup _ ho)
      have hI : Sourced (sortParams i).src (sortParams i).all := by
        intro p hp
        rw [isrc]
        rw [iall] at hp
        exact pi.ne _ (mem_names_of_mem_C08 hp)
      obtain ⟨k1, k2, k3, k4⟩ := embedStep_src (sortParams o) (sortParams i) acc uva uvk 1
        (by intro k; rw [osrc, oall]; exact po.keys k)
        (by intro k hk; rw [osrc]; rw [oall] at hk; exact po.ne k hk)
        (by rw [osrc]; exact po.nd) hOs hI hstep
      obtain ⟨ii, hii, hacc⟩ := embedStep_ok _ _ _ _ _ _ hstep
      have hdep : acc.depths = mergeDepths o.depths (copyDepths i.depths 1) := by
        rw [hacc]
        show mergeDepths (sortParams o).depths (copyDepths ii.depths 1) = _
        rw [mergeStep_depths _ _ _ hii, mergeDepths_nil, odep, idep]
      have mem : ∀ k f, f ∈ sget R.src k → f ∈ sget o.src k ∨ f ∈ sget i.src k := by
        intro k f hf
        rw [e2] at hf
        have := k3 k f hf
        rw [osrc, isrc] at this
        exact this
      refine ⟨⟨⟨?_, ?_, ?_⟩, ?_⟩, mem, ?_⟩
      · intro k; rw [e1, e2]; exact k1 k
      · intro k hk; rw [e2]; rw [e1] at hk; exact k2 k hk
      · intro k f hf
        rw [e3, hdep, dhas_mergeDepths, dhas_copyDepths]
        rcases mem k f hf with h' | h'
        · simp [po.dep k f h']
        · simp [pi.dep k f h']
      · rw [e2]; exact k4
      · intro f
        rw [e3, hdep, dget_mergeDepths]
        -- fold over the copied inner depths
        have : ∀ (r : Depths) (acc0 : Option Nat), KeysND r →
            r.foldl (fun acc e => if e.1 = f then minDepth acc (some e.2) else acc) acc0 =
              minDepth acc0 (dget r f) := by
          intro r
          induction r with
          | nil => intro acc0 _; cases acc0 <;> rfl
          | cons e t ih =>
            intro acc0 hnd
            have hndt : KeysND t := by
              unfold KeysND dkeys at *
              simp only [List.map_cons, List.nodup_cons] at hnd; exact hnd.2
            have hx : e.1 ∉ dkeys t := by
              unfold KeysND dkeys at *
              simp only [List.map_cons, List.nodup_cons] at hnd; exact hnd.1
            simp only [List.foldl_cons, dget]
            by_cases he : e.1 = f
            · subst he
              simp only [if_true]
              rw [ih _ hndt]
              have : dget t e.1 = none := by
                cases hd : dget t e.1 with
                | none => rfl
                | some v => exfalso; apply hx; rw [mem_dkeys_iff]; simp [dhas, hd]
              rw [this]
              cases acc0 <;> simp [minDepth]
            · simp only [he, if_false]
              exact ih _ hndt
        have hndc : KeysND (copyDepths i.depths 1) := by
          unfold KeysND dkeys copyDepths at *
          simpa [List.map_map, Function.comp_def] using hid
        rw [this _ _ hndc, dget_copyDepths]
    · cases hfold

end SV
