/-
  Lemmas/C01Step.lean — everything the soundness proofs need to know about one `mergeStep`.
-/
import Sigverif.Lemmas.C01KU
namespace SV
variable {l r m : Sorted}

theorem mergeStep_inv (h : mergeStep l r = .ok m) :
    ∃ st1 il ir st2 st3 st4,
      phaseP l r l.pos r.pos l.pok r.pok (stK l r) = .ok (st1, il, ir) ∧
      phaseQ l r il ir st1 = .ok st2 ∧
      mergeUnmatched .L l r st2 = .ok st3 ∧
      mergeUnmatched .R l r st3 = .ok st4 ∧
      m.pos = st4.pos ∧ m.pok = st4.pok ∧ m.kwo = st4.kwo ∧
      m.va = (addStarargs l r st4.vaL st4.vaR l.va r.va st4.src).1 ∧
      m.vk = (addStarargs l r st4.vkL st4.vkR l.vk r.vk
        (addStarargs l r st4.vaL st4.vaR l.va r.va st4.src).2).1 := by
  unfold mergeStep at h
  obtain ⟨⟨st1, il, ir⟩, h1, h⟩ := bind_eq_ok h
  obtain ⟨st2, h2, h⟩ := bind_eq_ok h
  obtain ⟨st3, h3, h⟩ := bind_eq_ok h
  obtain ⟨st4, h4, h⟩ := bind_eq_ok h
  refine ⟨st1, il, ir, st2, st3, st4, h1, h2, h3, h4, ?_⟩
  simp only [pure, Except.pure, Except.ok.injEq] at h
  subst h
  exact ⟨rfl, rfl, rfl, rfl, rfl⟩

/-- keyword-passable names are unique -/
def KwInv (B : Sorted) : Prop := (names (B.pok ++ B.kwo)).Nodup

structure StepFacts (l r m : Sorted) : Prop where
  va : m.va.isSome = (l.va.isSome && r.va.isSome)
  vk : m.vk.isSome = (l.vk.isSome && r.vk.isSome)
  wl : reqCount (l.pos ++ l.pok) ≤ reqCount (m.pos ++ m.pok) + reqCount m.kwo
  wr : reqCount (r.pos ++ r.pok) ≤ reqCount (m.pos ++ m.pok) + reqCount m.kwo
  lenl : m.pos.length + m.pok.length ≤ l.pos.length + l.pok.length ∨ l.va.isSome = true
  lenr : m.pos.length + m.pok.length ≤ r.pos.length + r.pok.length ∨ r.va.isSome = true
  kwo : ∀ x, hasReq l.kwo x ∨ hasReq r.kwo x → hasReq m.kwo x
  pos : anyReq l.pos ∨ anyReq r.pos → anyReq m.pos
  pok : ∀ x, hasReq l.pok x ∨ hasReq r.pok x → anyReq m.pos ∨ hasReq m.pok x ∨ hasReq m.kwo x
  orig : ∀ p, p ∈ m.pok ∨ p ∈ m.kwo → OKn l r p.name
  bk : BucketKinds m
  nd : KwInv m

theorem NInv_of_suffix {cl cr il ir : List Param} {st st1 : MState}
    (h : NInv (cl ++ il) (cr ++ ir) st)
    (h2 : st1.pok = st.pok) (h3 : st1.kwo = st.kwo) (h4 : st1.lUn = st.lUn) (h5 : st1.rUn = st.rUn) :
    NInv il ir st1 := by
  obtain ⟨nl, nr, nu⟩ := h
  constructor
  · rw [h2, h3, h4]; simp [List.nodup_append] at nl ⊢; grind
  · rw [h2, h3, h5]; simp [List.nodup_append] at nr ⊢; grind
  · rw [h4, h5]; exact nu

theorem mergeStep_facts (bl : BucketKinds l) (br : BucketKinds r) (hl : KwInv l) (hr : KwInv r)
    (h : mergeStep l r = .ok m) : StepFacts l r m := by
  obtain ⟨st1, il, ir, st2, st3, st4, h1, h2, h3, h4, e1, e2, e3, e4, e5⟩ := mergeStep_inv h
  have hlk : (names l.kwo).Nodup := by
    unfold KwInv at hl; simp only [names_append_C01, List.nodup_append] at hl; exact hl.2.1
  have hrk : (names r.kwo).Nodup := by
    unfold KwInv at hr; simp only [names_append_C01, List.nodup_append] at hr; exact hr.2.1
  have P := phaseP_spec _ _ _ _ _ _ _ _ h1
  obtain ⟨cl, hcl⟩ := P.sufl
  obtain ⟨cr, hcr⟩ := P.sufr
  have N0 : NInv (cl ++ il) (cr ++ ir) (stK l r) := hcl ▸ hcr ▸ stK_N hl hr
  have N1 : NInv il ir st1 := NInv_of_suffix N0 P.pok P.kwo P.lun P.run
  obtain ⟨N2, Q, QS⟩ := phaseQ_spec bl br il ir st1 st2 h2 N1
  obtain ⟨k1, k2, k3, k4, k5⟩ := stK_upd (l := l) (r := r) hlk hrk
  have S0 := stK_S (r := r) bl hlk hrk
  have S1 : SInv l r il ir st1 := by
    refine ⟨?_, ?_, ?_, ?_, ?_, ?_, ?_⟩
    · intro p hp; rw [hcl]; exact List.mem_append_right _ hp
    · intro p hp; rw [hcr]; exact List.mem_append_right _ hp
    · rw [P.lun]; exact S0.lun_sub
    · rw [P.run]; exact S0.run_sub
    · apply P.kind
      · intro p hp
        rcases List.mem_append.1 hp with hp | hp
        · exact bl.pos p hp
        · exact br.pos p hp
      · exact S0.kpos
    · rw [P.pok]; exact S0.kpok
    · rw [P.kwo]; exact S0.kkwo
  have S2 := QS S1
  obtain ⟨A, B, ⟨u1, u2, u3, u4, u5⟩, hA, hB⟩ := unmatched_spec N2 h3 h4
  have M := P.mono.trans Q
  have hreq : ∀ p : Param, p.dflt.isSome = true → p.required = false := by
    intro p hp; have := required_iff p; cases hq : p.required <;> simp_all
  have hAreq : ∀ x, hasReq st2.lUn x → hasReq A x := by
    rintro x ⟨p, hp, hx, hpr⟩
    rcases hA with ⟨rfl, -⟩ | ⟨-, ho⟩
    · exact ⟨p, hp, hx, hpr⟩
    · have := hreq p (ho p hp); simp_all
  have hBreq : ∀ x, hasReq st2.rUn x → hasReq B x := by
    rintro x ⟨p, hp, hx, hpr⟩
    rcases hB with ⟨rfl, -⟩ | ⟨-, ho⟩
    · exact ⟨p, hp, hx, hpr⟩
    · have := hreq p (ho p hp); simp_all
  have hAsub : ∀ p ∈ A, p ∈ st2.lUn ∧ r.vk.isSome = true := by
    intro p hp
    rcases hA with ⟨rfl, he | hv⟩ | ⟨rfl, -⟩
    · rw [he] at hp; simp at hp
    · exact ⟨hp, hv⟩
    · simp at hp
  have hBsub : ∀ p ∈ B, p ∈ st2.rUn ∧ l.vk.isSome = true := by
    intro p hp
    rcases hB with ⟨rfl, he | hv⟩ | ⟨rfl, -⟩
    · rw [he] at hp; simp at hp
    · exact ⟨hp, hv⟩
    · simp at hp
  have mpos : m.pos = st2.pos := e1.trans u1
  have mpok : m.pok = st2.pok := e2.trans u2
  have mkwo : m.kwo = st2.kwo ++ A ++ B := e3.trans u3
  refine ⟨?_, ?_, ?_, ?_, ?_, ?_, ?_, ?_, ?_, ?_, ?_, ?_⟩
  · rw [e4, addStarargs_isSome]
  · rw [e5, addStarargs_isSome]
  · have := M.wl
    simp only [wgt, k1, k2, reqCount_nil, reqCount_append] at this
    simp only [mpos, mpok, mkwo, reqCount_append]; omega
  · have := M.wr
    simp only [wgt, k1, k2, reqCount_nil, reqCount_append] at this
    simp only [mpos, mpok, mkwo, reqCount_append]; omega
  · have := M.lenl
    simp only [mlen, k1, k2, List.length_nil, List.length_append] at this
    simp only [mpos, mpok]
    rcases this with h | h
    · exact Or.inl (by omega)
    · exact Or.inr h
  · have := M.lenr
    simp only [mlen, k1, k2, List.length_nil, List.length_append] at this
    simp only [mpos, mpok]
    rcases this with h | h
    · exact Or.inl (by omega)
    · exact Or.inr h
  · intro x hx
    have := M.witK x (stK_W hlk hrk x hx)
    simp only [mkwo, hasReq_append]
    rcases this with h | h | h
    · exact Or.inl (Or.inl h)
    · exact Or.inl (Or.inr (hAreq x h))
    · exact Or.inr (hBreq x h)
  · intro hx
    rw [mpos]
    exact Q.pr (P.preq hx)
  · intro x hx
    have := M.wit x (by
      unfold Wit
      simp only [hasReq_append]
      rcases hx with hx | hx
      · exact Or.inr (Or.inr (Or.inr (Or.inl (Or.inr hx))))
      · exact Or.inr (Or.inr (Or.inr (Or.inr (Or.inr hx)))))
    simp only [Wit, hasReq_nil, or_false] at this
    simp only [mpos, mpok, mkwo, hasReq_append]
    rcases this with h | h | h
    · exact Or.inl h
    · exact Or.inr (Or.inl h)
    · exact Or.inr (Or.inr (Or.inl (Or.inl h)))
  · intro p hp
    simp only [mpok, mkwo, List.mem_append] at hp
    rcases hp with hp | (hp | hp) | hp
    · exact (S2.kpok p hp).2
    · exact (S2.kkwo p hp).2
    · obtain ⟨h1, h2⟩ := hAsub p hp
      exact ⟨Or.inr (Or.inl (mem_names_of_mem_C01 (S2.lun_sub p h1))), Or.inr (Or.inr h2)⟩
    · obtain ⟨h1, h2⟩ := hBsub p hp
      exact ⟨Or.inr (Or.inr h2), Or.inr (Or.inl (mem_names_of_mem_C01 (S2.run_sub p h1)))⟩
  · constructor
    · rw [mpos]; exact S2.kpos
    · rw [mpok]; exact fun p hp => (S2.kpok p hp).1
    · rw [e4]; exact addStarargs_kind_C01 _ _ _ _ _ _ _ _ bl.va br.va
    · rw [mkwo]; intro p hp
      simp only [List.mem_append] at hp
      rcases hp with (hp | hp) | hp
      · exact (S2.kkwo p hp).1
      · exact bl.kwo p (S2.lun_sub p (hAsub p hp).1)
      · exact br.kwo p (S2.run_sub p (hBsub p hp).1)
    · rw [e5]; exact addStarargs_kind_C01 _ _ _ _ _ _ _ _ bl.vk br.vk
  · unfold KwInv
    obtain ⟨nl, nr, nu⟩ := N2
    rw [mpok, mkwo]
    rcases hA with ⟨rfl, -⟩ | ⟨rfl, -⟩ <;> rcases hB with ⟨rfl, -⟩ | ⟨rfl, -⟩ <;>
      (simp [List.nodup_append] at nl nr ⊢; grind)

end SV
