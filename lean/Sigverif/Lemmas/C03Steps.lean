/-
  Lemmas/C03Steps.lean — the combinatorial core of C03: what one step of `_mask`
  (consuming positionals, naming a positional-or-keyword parameter, naming a keyword-only
  parameter, naming something that goes to **kwargs) does to the set of accepted calls, and
  that each step preserves well-formedness.  Everything is stated on bucketed signatures.
-/
import Sigverif.Lemmas.C03Accepts
namespace SV


@[simp] theorem withKind_name (p : Param) (k : Kind) : (p.withKind k).name = p.name := rfl
@[simp] theorem withKind_required (p : Param) (k : Kind) : (p.withKind k).required = p.required := rfl
@[simp] theorem withKind_kind (p : Param) (k : Kind) : (p.withKind k).kind = k := rfl
@[simp] theorem withKind_dflt (p : Param) (k : Kind) : (p.withKind k).dflt = p.dflt := rfl
@[simp] theorem withKind_ann (p : Param) (k : Kind) : (p.withKind k).ann = p.ann := rfl



theorem step_vk {s : Sorted} {x : Nat} (m : Nat) (K : List Nat)
    (h1 : x ∉ names s.pok) (h2 : x ∉ names s.kwo) (hv : s.vk.isSome = true) :
    AccP s m K ↔ AccP s m (x :: K) := by
  unfold AccP
  grind

theorem step_err {s : Sorted} {x : Nat} (m : Nat) (K : List Nat)
    (h1 : x ∉ names s.pok) (h2 : x ∉ names s.kwo) (hv : s.vk = none) :
    ¬ AccP s m (x :: K) := by
  unfold AccP
  grind



theorem mem_ppop {l : List Param} {x : Nat} {p : Param} : p ∈ ppop l x ↔ p ∈ l ∧ p.name ≠ x := by
  simp [ppop]

theorem step_kwo {pos pok kwo : List Param} {va vk : Option Param} {x : Nat} (m : Nat) (K : List Nat)
    (hx : x ∉ names (pos ++ pok)) (hK : x ∉ K) (hk : x ∈ names kwo) :
    AccP {pos := pos, pok := pok, va := va, kwo := ppop kwo x, vk := vk} m K ↔
    AccP {pos := pos, pok := pok, va := va, kwo := kwo, vk := vk} m (x :: K) := by
  have hT : x ∉ names ((pos ++ pok).take m) := by
    intro h; apply hx
    rw [names_take] at h
    exact List.mem_of_mem_take h
  have hx2 : x ∉ names pok := by
    intro h; apply hx; simp [h]
  have hx3 : ∀ p ∈ pos, p.name ≠ x := by
    intro p hp e; apply hx; rw [← e]; exact mem_names_of_mem (by simp [hp])
  have hx4 : ∀ p ∈ pok, p.name ≠ x := by
    intro p hp e; apply hx; rw [← e]; exact mem_names_of_mem (by simp [hp])
  unfold AccP
  simp only [mem_names_ppop, mem_ppop]
  grind

theorem mem_take_split {A C : List Param} {b : Param} (m : Nat)
    (hnd : (names (A ++ b :: C)).Nodup) :
    (b.name ∈ names ((A ++ b :: C).take m) ↔ A.length < m) ∧
    (m ≤ A.length → (A ++ b :: C).take m = A.take m) := by
  constructor
  · constructor
    · intro h
      apply Nat.lt_of_not_le
      intro hle
      rw [List.take_append_of_le_length hle] at h
      simp only [names_append, names_cons] at hnd
      have := (List.nodup_append.1 hnd).2.2 b.name (by
        rw [names_take] at h; exact List.mem_of_mem_take h) b.name (by simp)
      exact this rfl
    · intro h
      rw [List.take_append]
      have : m - A.length = (m - A.length - 1) + 1 := by omega
      rw [this]
      simp
  · intro h; exact List.take_append_of_le_length h

theorem nodup_names_split {A C : List Param} {b : Param} (h : (names (A ++ b :: C)).Nodup) :
    (∀ p ∈ A, p.name ≠ b.name) ∧ (∀ p ∈ C, p.name ≠ b.name) := by
  simp only [names_append, names_cons, List.nodup_append, List.nodup_cons, List.mem_cons] at h
  obtain ⟨-, ⟨h2, -⟩, h3⟩ := h
  constructor
  · intro p hp e
    exact h3 _ (mem_names_of_mem hp) _ (Or.inl rfl) e
  · intro p hp e
    exact h2 (e ▸ mem_names_of_mem hp)

theorem step_hit {pos before conv kwo : List Param} {bp : Param} {va vk : Option Param}
    (m : Nat) (K : List Nat)
    (hnd : (names (Sorted.all {pos := pos, pok := before ++ bp :: conv, va := va, kwo := kwo, vk := vk})).Nodup)
    (hK : bp.name ∉ K) :
    AccP {pos := pos, pok := before, va := none, kwo := kwo ++ conv.map (·.withKind .ko), vk := vk} m K ↔
    AccP {pos := pos, pok := before ++ bp :: conv, va := va, kwo := kwo, vk := vk} m (bp.name :: K) := by
  have e : pos ++ (before ++ bp :: conv) = (pos ++ before) ++ bp :: conv := by simp
  have hnd' : (names ((pos ++ before) ++ bp :: conv)).Nodup := by
    simp only [Sorted.all, names_append] at hnd ⊢
    simp only [List.append_assoc] at hnd ⊢
    have := hnd.sublist (l₁ := names pos ++ (names before ++ names (bp :: conv))) (by
      apply List.Sublist.append_left
      apply List.Sublist.append_left
      exact List.sublist_append_left _ _)
    exact this
  obtain ⟨h1, h2⟩ := mem_take_split (A := pos ++ before) (C := conv) (b := bp) m hnd'
  have e2 : Sorted.all {pos := pos, pok := before ++ bp :: conv, va := va, kwo := kwo, vk := vk} =
      (pos ++ before) ++ bp :: (conv ++ va.toList ++ kwo ++ vk.toList) := by simp [Sorted.all]
  rw [e2] at hnd
  obtain ⟨ua, uc⟩ := nodup_names_split hnd
  have u1 : ∀ p ∈ pos, p.name ≠ bp.name := fun p hp => ua p (by simp [hp])
  have u2 : ∀ p ∈ before, p.name ≠ bp.name := fun p hp => ua p (by simp [hp])
  have u3 : ∀ p ∈ conv, p.name ≠ bp.name := fun p hp => uc p (by simp [hp])
  have u4 : ∀ p ∈ kwo, p.name ≠ bp.name := fun p hp => uc p (by simp [hp])
  clear hnd hnd' e2 ua uc
  have n3 : ∀ p ∈ conv, p.name ∈ names conv := fun p hp => mem_names_of_mem hp
  have nb : bp.name ∉ names before := fun h => by
    obtain ⟨q, hq, e⟩ := mem_names.1 h; exact u2 q hq e
  have nc : bp.name ∉ names conv := fun h => by
    obtain ⟨q, hq, e⟩ := mem_names.1 h; exact u3 q hq e
  have nk : bp.name ∉ names kwo := fun h => by
    obtain ⟨q, hq, e⟩ := mem_names.1 h; exact u4 q hq e
  unfold AccP
  simp only [e] at *
  simp only [names_append, names_map_withKind, List.mem_append, List.mem_map, names_cons, List.mem_cons,
    Option.isSome_none, Bool.false_eq_true, or_false]
  constructor
  · rintro ⟨c1, c2, c3⟩
    have hT := h2 c1
    rw [hT]
    have hx : bp.name ∉ names (List.take m (pos ++ before)) := by
      rw [← hT, h1]; omega
    refine ⟨Or.inl (by simp at c1 ⊢; omega), ?_, ?_⟩
    · rintro k (rfl | hk)
      · exact ⟨fun _ => hx, fun h => absurd (Or.inl (Or.inr (Or.inl rfl))) h⟩
      · have := c2 k hk
        have hne : k ≠ bp.name := fun e => hK (e ▸ hk)
        grind
    · rintro p hp hr
      by_cases hpx : p = bp
      · left; subst hpx; simp
      · rcases hp with hp | (hp | hp | hp) | hp
        · have := c3 p (Or.inl hp) hr; grind
        · have := c3 p (Or.inr (Or.inl hp)) hr; grind
        · exact absurd hp hpx
        · have := c3 (p.withKind .ko) (Or.inr (Or.inr (Or.inr ⟨p, hp, rfl⟩))) hr
          simp only [withKind_name] at this
          grind
        · have := c3 p (Or.inr (Or.inr (Or.inl hp))) hr; grind
  · rintro ⟨c1, c2, c3⟩
    have hx := (c2 bp.name (Or.inl rfl)).1 (Or.inl (Or.inr (Or.inl rfl)))
    rw [h1] at hx
    have c1' : m ≤ (pos ++ before).length := by omega
    have hT := h2 c1'
    rw [hT] at c2 c3
    refine ⟨c1', ?_, ?_⟩
    · intro k hk
      have := c2 k (Or.inr hk)
      have hne : k ≠ bp.name := fun e => hK (e ▸ hk)
      grind
    · rintro p hp hr
      rcases hp with hp | hp | hp | ⟨q, hq, rfl⟩
      · have := c3 p (Or.inl hp) hr; grind
      · have := c3 p (Or.inr (Or.inl (Or.inl hp))) hr; grind
      · have := c3 p (Or.inr (Or.inr hp)) hr; grind
      · have := c3 q (Or.inr (Or.inl (Or.inr (Or.inr hq)))) hr
        simp only [withKind_name]
        grind



theorem mem_take_or_drop {α : Type} (l : List α) (n : Nat) (a : α) :
    a ∈ l ↔ a ∈ l.take n ∨ a ∈ l.drop n := by
  rw [← List.mem_append, List.take_append_drop]

theorem step_pop {pos pok kwo : List Param} {va vk : Option Param} (n m : Nat) (K : List Nat)
    (hnd : (names (pos ++ pok)).Nodup)
    (hkd : ∀ p ∈ kwo, p.name ∉ names (pos ++ pok))
    (hn : n ≤ (pos ++ pok).length ∨ va.isSome = true) :
    ((∀ k ∈ K, k ∉ names ((pos ++ pok).take n)) →
      AccP {pos := pos.drop n, pok := pok.drop (n - pos.length), va := va, kwo := kwo, vk := vk} m K →
      AccP {pos := pos, pok := pok, va := va, kwo := kwo, vk := vk} (n + m) K) ∧
    (AccP {pos := pos, pok := pok, va := va, kwo := kwo, vk := vk} (n + m) K →
      AccP {pos := pos.drop n, pok := pok.drop (n - pos.length), va := va, kwo := kwo, vk := vk} m K) := by
  have eD : pos.drop n ++ pok.drop (n - pos.length) = (pos ++ pok).drop n := by
    rw [List.drop_append]
  have eT : (pos ++ pok).take n = pos.take n ++ pok.take (n - pos.length) := by
    rw [List.take_append]
  have hT : ∀ x, x ∈ names ((pos ++ pok).take (n + m)) ↔
      x ∈ names ((pos ++ pok).take n) ∨ x ∈ names (((pos ++ pok).drop n).take m) := by
    intro x; rw [List.take_add]; simp
  have hdisj : ∀ x, x ∈ names ((pos ++ pok).take n) → x ∉ names ((pos ++ pok).drop n) := by
    intro x h1 h2
    rw [← List.take_append_drop n (pos ++ pok), names_append] at hnd
    exact (List.nodup_append.1 hnd).2.2 x h1 x h2 rfl
  have hpok : ∀ x, x ∈ names pok ↔ x ∈ names (pok.take (n - pos.length)) ∨ x ∈ names (pok.drop (n - pos.length)) := by
    intro x
    rw [← List.mem_append, ← names_append, List.take_append_drop]
  have hsub1 : ∀ x, x ∈ names (pok.take (n - pos.length)) → x ∈ names ((pos ++ pok).take n) := by
    intro x hx; rw [eT]; simp [hx]
  have hsub2 : ∀ x, x ∈ names (pos.take n) → x ∈ names ((pos ++ pok).take n) := by
    intro x hx; rw [eT]; simp [hx]
  have hd1 : ∀ x, x ∈ names (pos.drop n) → x ∈ names ((pos ++ pok).drop n) := by
    intro x hx; rw [← eD]; simp [hx]
  have hd2 : ∀ x, x ∈ names (pok.drop (n - pos.length)) → x ∈ names ((pos ++ pok).drop n) := by
    intro x hx; rw [← eD]; simp [hx]
  have hk0 : ∀ p ∈ kwo, p.name ∉ names ((pos ++ pok).take n) := by
    intro p hp h; apply hkd p hp
    rw [names_take] at h; exact List.mem_of_mem_take h
  have hm1 := fun p => mem_take_or_drop pos n p
  have hm2 := fun p => mem_take_or_drop pok (n - pos.length) p
  have hlen : ((pos ++ pok).drop n).length = (pos ++ pok).length - n := by simp
  -- keyword membership is the same for keywords outside the consumed prefix
  have hkw : ∀ k, k ∉ names ((pos ++ pok).take n) →
      (k ∈ names pok ↔ k ∈ names (pok.drop (n - pos.length))) := by
    intro k hk; rw [hpok]
    constructor
    · rintro (h | h)
      · exact absurd (hsub1 _ h) hk
      · exact h
    · exact Or.inr
  have hT' : ∀ x, x ∉ names ((pos ++ pok).take n) →
      (x ∈ names ((pos ++ pok).take (n + m)) ↔ x ∈ names (((pos ++ pok).drop n).take m)) := by
    intro x hx; rw [hT]
    constructor
    · rintro (h | h)
      · exact absurd h hx
      · exact h
    · exact Or.inr
  unfold AccP
  simp only [eD]
  clear hnd hkd eT hm1 hm2
  have hnot : ∀ x, x ∈ names ((pos ++ pok).drop n) → x ∉ names ((pos ++ pok).take n) :=
    fun x h2 h1 => hdisj x h1 h2
  constructor
  · intro hK
    rintro ⟨c1, c2, c3⟩
    refine ⟨?_, ?_, ?_⟩
    · rcases c1 with c1 | c1
      · rcases hn with hn | hn
        · left; omega
        · exact Or.inr hn
      · exact Or.inr c1
    · intro k hk
      have := c2 k hk
      have h0 := hK k hk
      rw [hT' k h0, hkw k h0]; exact this
    · intro p hp hr
      rcases hp with hp | hp | hp
      · rcases (mem_take_or_drop pos n p).1 hp with h | h
        · right; rw [hT]; left; exact hsub2 _ (mem_names_of_mem h)
        · have := c3 p (Or.inl h) hr
          have h0 := hnot _ (hd1 _ (mem_names_of_mem h))
          rw [hT' _ h0, hkw _ h0]; exact this
      · rcases (mem_take_or_drop pok (n - pos.length) p).1 hp with h | h
        · right; rw [hT]; left; exact hsub1 _ (mem_names_of_mem h)
        · have := c3 p (Or.inr (Or.inl h)) hr
          have h0 := hnot _ (hd2 _ (mem_names_of_mem h))
          rw [hT' _ h0, hkw _ h0]; exact this
      · have := c3 p (Or.inr (Or.inr hp)) hr
        have h0 := hk0 p hp
        rw [hT' _ h0, hkw _ h0]; exact this
  · rintro ⟨c1, c2, c3⟩
    refine ⟨?_, ?_, ?_⟩
    · rcases c1 with c1 | c1
      · left; omega
      · exact Or.inr c1
    · intro k hk
      obtain ⟨d1, d2⟩ := c2 k hk
      constructor
      · rintro (h | h)
        · have hk1 : k ∈ names pok := (hpok k).2 (Or.inr h)
          intro h1; exact d1 (Or.inl hk1) ((hT k).2 (Or.inr h1))
        · intro h1; exact d1 (Or.inr h) ((hT k).2 (Or.inr h1))
      · intro hneg
        apply d2
        rintro (h | h)
        · rcases (hpok k).1 h with h' | h'
          · exact d1 (Or.inl h) ((hT k).2 (Or.inl (hsub1 _ h')))
          · exact hneg (Or.inl h')
        · exact hneg (Or.inr h)
    · intro p hp hr
      rcases hp with hp | hp | hp
      · have := c3 p (Or.inl (List.mem_of_mem_drop hp)) hr
        have h0 := hnot _ (hd1 _ (mem_names_of_mem hp))
        rw [hT' _ h0, hkw _ h0] at this; exact this
      · have := c3 p (Or.inr (Or.inl (List.mem_of_mem_drop hp))) hr
        have h0 := hnot _ (hd2 _ (mem_names_of_mem hp))
        rw [hT' _ h0, hkw _ h0] at this; exact this
      · have := c3 p (Or.inr (Or.inr hp)) hr
        have h0 := hk0 p hp
        rw [hT' _ h0, hkw _ h0] at this; exact this



theorem swf_hit {pos before conv kwo : List Param} {bp : Param} {va vk : Option Param}
    (h : SWF {pos := pos, pok := before ++ bp :: conv, va := va, kwo := kwo, vk := vk}) :
    SWF {pos := pos, pok := before, va := none, kwo := kwo ++ conv.map (·.withKind .ko), vk := vk} := by
  obtain ⟨bk, nd, df⟩ := h
  refine ⟨⟨bk.pos, ?_, ?_, ?_, bk.vk⟩, ?_, ?_⟩
  · intro p hp; exact bk.pok p (by simp [hp])
  · intro p hp; cases hp
  · intro p hp
    simp only [List.mem_append, List.mem_map] at hp
    rcases hp with hp | ⟨q, -, rfl⟩
    · exact bk.kwo p hp
    · rfl
  · simp only [Sorted.all, names_append, names_cons, names_map_withKind, names_toList_none] at nd ⊢
    simp only [List.nodup_append, List.nodup_cons, List.mem_append, List.mem_cons] at nd ⊢
    grind
  · simp only at df ⊢
    rw [← List.append_assoc] at df
    exact (List.pairwise_append.1 df).1

theorem swf_kwo {pos pok kwo : List Param} {va vk : Option Param} (x : Nat)
    (h : SWF {pos := pos, pok := pok, va := va, kwo := kwo, vk := vk}) :
    SWF {pos := pos, pok := pok, va := va, kwo := ppop kwo x, vk := vk} := by
  obtain ⟨bk, nd, df⟩ := h
  refine ⟨⟨bk.pos, bk.pok, bk.va, ?_, bk.vk⟩, ?_, df⟩
  · intro p hp; exact bk.kwo p ((List.mem_filter.1 hp).1)
  · refine nd.sublist ?_
    simp only [Sorted.all, names_append]
    unfold names ppop
    refine List.Sublist.append (List.Sublist.append (List.Sublist.refl _) ?_) (List.Sublist.refl _)
    exact List.Sublist.map _ List.filter_sublist


theorem swf_sub {s s' : Sorted} (h : SWF s)
    (hpp : (s'.pos ++ s'.pok).Sublist (s.pos ++ s.pok))
    (hpos : ∀ p ∈ s'.pos, p ∈ s.pos) (hpok : ∀ p ∈ s'.pok, p ∈ s.pok)
    (hva : s'.va = none ∨ s'.va = s.va) (hkwo : s'.kwo.Sublist s.kwo)
    (hvk : s'.vk = none ∨ s'.vk = s.vk) : SWF s' := by
  obtain ⟨bk, nd, df⟩ := h
  have sva : s'.va.toList.Sublist s.va.toList := by
    rcases hva with e | e <;> rw [e]
    · simp
    · exact List.Sublist.refl _
  have svk : s'.vk.toList.Sublist s.vk.toList := by
    rcases hvk with e | e <;> rw [e]
    · simp
    · exact List.Sublist.refl _
  refine ⟨⟨fun p hp => bk.pos p (hpos p hp), fun p hp => bk.pok p (hpok p hp), ?_,
    fun p hp => bk.kwo p (hkwo.subset hp), ?_⟩, ?_, df.sublist hpp⟩
  · intro p hp
    rcases hva with e | e
    · rw [e] at hp; cases hp
    · rw [e] at hp; exact bk.va p hp
  · intro p hp
    rcases hvk with e | e
    · rw [e] at hp; cases hp
    · rw [e] at hp; exact bk.vk p hp
  · refine nd.sublist ?_
    unfold names
    apply List.Sublist.map
    unfold Sorted.all
    exact ((hpp.append sva).append hkwo).append svk

end SV
