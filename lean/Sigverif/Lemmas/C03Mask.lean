/-
  Lemmas/C03Mask.lean — structure of `mask`: the three phases (consume positionals, loop over
  the names, rebuild), closed form of `popChain`, classification of one `maskName` step, the loop
  invariant and the exactness of the loop with respect to `accepts`.
-/
import Sigverif.Lemmas.C03Steps
namespace SV


/-- the first phase of `_mask`: which positionals are consumed -/
def prelude (s : Sorted) (n : Nat) (h : HideFlags) : Except Err (List Nat × List Param × List Param) :=
  if h.args then pure (names s.pos ++ names s.pok, [], [])
  else if n ≠ 0 then
    let (c, pos, pok, exhausted) := popChain n s.pos s.pok []
    if exhausted && s.va.isNone then .error .valueError else pure (c, pos, pok)
  else pure ([], s.pos, s.pok)

def srcVa (va : Option Param) (src : Srcs) : Srcs :=
  match va with | some a => dpop src a.name | none => src

/-- the state handed to the loop over the names -/
def initState (s : Sorted) (h : HideFlags) (c : List Nat) (pok : List Param) : KState :=
  let src := removeFromSrc s.src c
  let src1 := if h.args || h.varargs then srcVa s.va src else src
  { pok := if h.kwargs then [] else pok,
    va := if h.args || h.varargs then none else s.va,
    kwo := if h.kwargs then [] else s.kwo,
    src := if h.kwargs then removeFromSrc (removeFromSrc src1 (names pok)) (names s.kwo) else src1,
    consumed := c, byName := s.pok }

def finalVk (s : Sorted) (h : HideFlags) : Option Param :=
  if h.kwargs || h.varkwargs then none else s.vk

def finalSrc (s : Sorted) (h : HideFlags) (st : KState) : Srcs :=
  if h.kwargs || h.varkwargs then srcVa s.vk st.src else st.src

def plainNames (xs : List Nat) : List (Nat × Option (Nat × Nat)) := xs.map (fun x => (x, none))

theorem mask_eq (sig : USig) (n : Nat) (nms : List Nat) (h : HideFlags) :
    mask sig n nms h =
      match prelude (sortParams sig) n h with
      | .error e => .error e
      | .ok (c, pos, pok) =>
        match maskNames (sortParams sig).vk (initState (sortParams sig) h c pok)
            (plainNames (if h.kwargs then [] else nms)) with
        | .error e => .error e
        | .ok st =>
          applyParams sig { pos := pos, pok := st.pok, va := st.va, kwo := st.kwo,
                            vk := finalVk (sortParams sig) h,
                            src := finalSrc (sortParams sig) h st, depths := (sortParams sig).depths } := by
  unfold mask maskCore
  have e : (List.map (fun nv : Nat × Nat => (nv.1, Option.map (fun o => (nv.2, o)) (none : Option Nat)))
      (List.map (fun x => (x, 0)) nms)) = plainNames nms := by
    simp [plainNames, List.map_map, Function.comp_def]
  obtain ⟨a, k, va, vk⟩ := h
  cases a <;> cases k <;> cases va <;> cases vk
  all_goals (
    change (prelude (sortParams sig) n _ >>= _) = _
    cases prelude (sortParams sig) n _ with
    | error e => rfl
    | ok t =>
      obtain ⟨c, pos, pok⟩ := t
      simp only [bind, Except.bind, e, initState, finalVk, finalSrc, srcVa, Bool.or_self, Bool.or_true,
        Bool.or_false, Bool.false_eq_true, if_true, if_false, plainNames, List.map_nil]
      first
      | rfl
      | (cases maskNames _ _ _ <;> rfl))


/-! ### popChain / prelude in closed form -/

theorem popChain_eq (n : Nat) (pos pok : List Param) (acc : List Nat) :
    popChain n pos pok acc =
      (acc ++ names ((pos ++ pok).take n), pos.drop n, pok.drop (n - pos.length),
        decide (pos.length + pok.length < n)) := by
  induction n generalizing pos pok acc with
  | zero => simp [popChain]
  | succ n ih =>
    cases pos with
    | cons p pos =>
      unfold popChain
      by_cases hn : n = 0
      · subst hn; simp
      · rw [if_neg hn, ih]
        simp
        omega
    | nil =>
      cases pok with
      | cons p pok =>
        unfold popChain
        by_cases hn : n = 0
        · subst hn; simp
        · rw [if_neg hn, ih]
          simp
      | nil => simp [popChain]

theorem prelude_eq (s : Sorted) (n : Nat) (h : HideFlags) :
    prelude s n h =
      if h.args then .ok (names s.pos ++ names s.pok, [], [])
      else if s.pos.length + s.pok.length < n ∧ s.va = none then .error .valueError
      else .ok (names ((s.pos ++ s.pok).take n), s.pos.drop n, s.pok.drop (n - s.pos.length)) := by
  unfold prelude
  by_cases ha : h.args = true
  · simp [ha, pure, Except.pure]
  · simp only [ha, Bool.false_eq_true, if_false]
    by_cases hn : n = 0
    · subst hn; simp [pure, Except.pure]
    · rw [if_pos hn, popChain_eq]
      simp only [List.nil_append, pure, Except.pure, Bool.and_eq_true, decide_eq_true_eq,
        Option.isNone_iff_eq_none]


/-! ### one step of the loop over the names -/


theorem maskName_plain (vk : Option Param) (st : KState) (x : Nat) :
    maskName vk st x none =
      if st.consumed.contains x then .error .valueError else
      match pget st.byName x with
      | some bp =>
        match indexOf? st.pok bp with
        | none => .error .valueError
        | some i =>
          .ok { pok := st.pok.take i, va := none,
                kwo := pupdate st.kwo ((st.pok.drop (i + 1)).map (·.withKind .ko)),
                src := srcVa st.va (dpop st.src x),
                consumed := st.consumed ++ [x], byName := st.pok.take i }
      | none =>
        match pget st.kwo x with
        | some _ => .ok { st with src := dpop st.src x, kwo := ppop st.kwo x,
                                  consumed := st.consumed ++ [x] }
        | none => if vk.isNone then .error .valueError
                  else .ok { st with consumed := st.consumed ++ [x] } := by
  unfold maskName
  by_cases hc : st.consumed.contains x = true
  · simp only [hc, if_true]
  · simp only [hc, Bool.false_eq_true, if_false]
    cases pget st.byName x with
    | some bp =>
      simp only
      cases indexOf? st.pok bp with
      | none => rfl
      | some i => rfl
    | none =>
      simp only
      cases pget st.kwo x <;> rfl

def sOf (pos : List Param) (vk : Option Param) (st : KState) : Sorted :=
  { pos := pos, pok := st.pok, va := st.va, kwo := st.kwo, vk := vk }

structure Inv (pos : List Param) (vk : Option Param) (st : KState) : Prop where
  swf : SWF (sOf pos vk st)
  byn : ∃ pre, st.byName = pre ++ st.pok ∧ ∀ x ∈ names pre, x ∈ st.consumed

theorem SWF.parts {s : Sorted} (h : SWF s) :
    (names s.pos).Nodup ∧ (names s.pok).Nodup ∧ (names s.kwo).Nodup ∧
    (∀ x ∈ names s.pos, x ∉ names s.pok) ∧ (∀ x ∈ names s.pos, x ∉ names s.kwo) ∧
    (∀ x ∈ names s.pok, x ∉ names s.kwo) := by
  have nd := h.nd
  simp only [Sorted.all, names_append, List.nodup_append, List.mem_append] at nd
  grind

/-- the four things one iteration of the loop over the names can do -/
inductive StepKind (vk : Option Param) (st : KState) (x : Nat) : Except Err KState → Prop
  | isConsumed (e : Err) : x ∈ st.consumed → StepKind vk st x (.error e)
  | hitPok (before conv : List Param) (bp : Param) :
      x ∉ st.consumed → st.pok = before ++ bp :: conv → bp.name = x →
      StepKind vk st x (.ok { pok := before, va := none,
                              kwo := st.kwo ++ conv.map (·.withKind .ko),
                              src := srcVa st.va (dpop st.src x),
                              consumed := st.consumed ++ [x], byName := before })
  | hitKwo : x ∉ st.consumed → x ∉ names st.pok → x ∈ names st.kwo →
      StepKind vk st x (.ok { st with src := dpop st.src x, kwo := ppop st.kwo x,
                                      consumed := st.consumed ++ [x] })
  | toVk : x ∉ st.consumed → x ∉ names st.pok → x ∉ names st.kwo → vk.isSome = true →
      StepKind vk st x (.ok { st with consumed := st.consumed ++ [x] })
  | noVk : x ∉ st.consumed → x ∉ names st.pok → x ∉ names st.kwo → vk = none →
      StepKind vk st x (.error .valueError)

theorem maskName_kind {pos : List Param} {vk : Option Param} {st : KState} (inv : Inv pos vk st)
    (x : Nat) : StepKind vk st x (maskName vk st x none) := by
  rw [maskName_plain]
  by_cases hc : x ∈ st.consumed
  · rw [if_pos (by simpa using hc)]
    exact .isConsumed _ hc
  · rw [if_neg (by simpa using hc)]
    obtain ⟨pre, hpre, hcons⟩ := inv.byn
    have hxpre : x ∉ names pre := fun h => hc (hcons x h)
    have hg : pget st.byName x = pget st.pok x := by
      rw [hpre]; exact pget_append_of_not_mem hxpre
    rw [hg]
    cases hp : pget st.pok x with
    | some bp =>
      obtain ⟨i, h1, h2, h3, h4⟩ := pget_split hp
      simp only [h1]
      have hnd := inv.swf.nd
      have hkw : pupdate st.kwo ((st.pok.drop (i + 1)).map (·.withKind .ko)) =
          st.kwo ++ (st.pok.drop (i + 1)).map (·.withKind .ko) := by
        obtain ⟨-, p2, -, -, -, p6⟩ := inv.swf.parts
        simp only [sOf] at p2 p6
        apply pupdate_of_disjoint
        · intro y hy
          rw [names_map_withKind, names_drop] at hy
          exact p6 y (List.mem_of_mem_drop hy)
        · rw [names_map_withKind, names_drop]
          exact p2.sublist (List.drop_sublist _ _)
      rw [hkw]
      exact .hitPok _ _ bp hc h2 h4
    | none =>
      have hxp : x ∉ names st.pok := pget_eq_none.1 hp
      simp only
      cases hk : pget st.kwo x with
      | some q =>
        simp only
        refine .hitKwo hc hxp ?_
        have := pget_some hk
        exact mem_names.2 ⟨q, this.1, this.2⟩
      | none =>
        have hxk : x ∉ names st.kwo := pget_eq_none.1 hk
        simp only
        cases hv : vk with
        | none => simp only [Option.isNone_none, if_true]; exact .noVk hc hxp hxk rfl
        | some v => simp only [Option.isNone_some, Bool.false_eq_true, if_false]; exact .toVk hc hxp hxk rfl


theorem step_inv {pos : List Param} {vk : Option Param} {st st' : KState} {x : Nat}
    (inv : Inv pos vk st) (hk : StepKind vk st x (.ok st')) :
    Inv pos vk st' ∧ st'.consumed = st.consumed ++ [x] ∧
    (∀ y, (y ∈ names st'.pok ∨ y ∈ names st'.kwo) →
      (y ∈ names st.pok ∨ y ∈ names st.kwo) ∧ y ≠ x) := by
  obtain ⟨swf, pre, hpre, hcons⟩ := inv
  cases hk with
  | hitPok before conv bp hc hpok hx =>
    unfold sOf at swf
    rw [hpok] at swf
    refine ⟨⟨swf_hit swf, [], by simp, by simp⟩, rfl, ?_⟩
    obtain ⟨-, p2, -, -, -, p6⟩ := swf.parts
    simp only [names_append, names_cons, names_map_withKind, List.mem_append, List.mem_cons, hpok] at p2 p6 ⊢
    simp only [List.nodup_append, List.nodup_cons, List.mem_cons] at p2
    grind
  | hitKwo hc hp hkw =>
    refine ⟨⟨swf_kwo x swf, pre, hpre, ?_⟩, rfl, ?_⟩
    · intro y hy; simp [hcons y hy]
    · intro y hy
      simp only [mem_names_ppop] at hy
      grind
  | toVk hc hp hkw hv =>
    refine ⟨⟨swf, pre, hpre, ?_⟩, rfl, ?_⟩
    · intro y hy; simp [hcons y hy]
    · intro y hy
      simp only at hy
      grind

theorem step_acc {pos : List Param} {vk : Option Param} {st st' : KState} {x : Nat}
    (inv : Inv pos vk st) (hk : StepKind vk st x (.ok st')) (m : Nat) (K : List Nat) (hK : x ∉ K) :
    AccP (sOf pos vk st') m K ↔ AccP (sOf pos vk st) m (x :: K) := by
  obtain ⟨swf, -⟩ := inv
  cases hk with
  | hitPok before conv bp hc hpok hx =>
    subst hx
    unfold sOf at swf ⊢
    rw [hpok] at swf ⊢
    exact step_hit m K swf.nd hK
  | hitKwo hc hp hkw =>
    unfold sOf at swf ⊢
    obtain ⟨-, -, -, -, p5, p6⟩ := swf.parts
    refine step_kwo m K ?_ hK hkw
    simp only [names_append, List.mem_append]
    grind
  | toVk hc hp hkw hv =>
    exact step_vk m K hp hkw hv

theorem step_novk {pos : List Param} {vk : Option Param} {st : KState} {x : Nat} {e : Err}
    (hk : StepKind vk st x (.error e)) (hc : x ∉ st.consumed) (m : Nat) (K : List Nat) :
    e = .valueError ∧ ¬ AccP (sOf pos vk st) m (x :: K) := by
  cases hk with
  | isConsumed _ h => exact absurd h hc
  | noVk hc hp hkw hv => exact ⟨rfl, step_err m K hp hkw hv⟩

theorem maskNames_cons (vk : Option Param) (st : KState) (x : Nat) (xs : List Nat) :
    maskNames vk st (plainNames (x :: xs)) =
      match maskName vk st x none with
      | .error e => .error e
      | .ok st' => maskNames vk st' (plainNames xs) := by
  simp only [plainNames, List.map_cons, maskNames, bind, Except.bind]
  cases maskName vk st x none <;> rfl

theorem maskNames_spec {pos : List Param} {vk : Option Param} (xs : List Nat) {st : KState}
    (inv : Inv pos vk st) (m : Nat) (K : List Nat) (hnd : (xs ++ K).Nodup)
    (hc : ∀ x ∈ xs, x ∉ st.consumed) :
    match maskNames vk st (plainNames xs) with
    | .ok st' => Inv pos vk st' ∧
        (AccP (sOf pos vk st') m K ↔ AccP (sOf pos vk st) m (xs ++ K)) ∧
        (∀ y, (y ∈ names st'.pok ∨ y ∈ names st'.kwo) →
          (y ∈ names st.pok ∨ y ∈ names st.kwo) ∧ y ∉ xs)
    | .error e => e = .valueError ∧ ¬ AccP (sOf pos vk st) m (xs ++ K) := by
  induction xs generalizing st with
  | nil => simp [plainNames, maskNames, inv]
  | cons x rest ih =>
    rw [maskNames_cons]
    have hk := maskName_kind inv x
    have hxc : x ∉ st.consumed := hc x (by simp)
    simp only [List.cons_append, List.nodup_cons] at hnd
    cases hr : maskName vk st x none with
    | error e =>
      rw [hr] at hk
      exact step_novk hk hxc m (rest ++ K)
    | ok st1 =>
      rw [hr] at hk
      obtain ⟨inv1, hcons1, hsub1⟩ := step_inv inv hk
      have hacc1 := step_acc inv hk m (rest ++ K) hnd.1
      have hc1 : ∀ y ∈ rest, y ∉ st1.consumed := by
        intro y hy
        rw [hcons1]
        simp only [List.mem_append, List.mem_singleton, not_or]
        refine ⟨hc y (by simp [hy]), ?_⟩
        rintro rfl
        exact hnd.1 (by simp [hy])
      have := ih inv1 hnd.2 hc1
      simp only
      cases hr2 : maskNames vk st1 (plainNames rest) with
      | error e =>
        rw [hr2] at this
        simp only at this ⊢
        rw [List.cons_append, ← hacc1]
        exact this
      | ok st' =>
        rw [hr2] at this
        simp only at this ⊢
        obtain ⟨i1, i2, i3⟩ := this
        refine ⟨i1, ?_, ?_⟩
        · rw [List.cons_append, ← hacc1]; exact i2
        · intro y hy
          have a := i3 y hy
          have b := hsub1 y a.1
          simp only [List.mem_cons, not_or]
          exact ⟨b.1, b.2, a.2⟩

theorem maskName_err (vk : Option Param) (st : KState) (x : Nat) (pv : Option (Nat × Nat)) (e : Err)
    (h : maskName vk st x pv = .error e) : e = .valueError := by
  unfold maskName at h
  repeat' split at h
  all_goals first | (cases h; rfl) | cases h

theorem maskNames_err (vk : Option Param) (st : KState) (l : List (Nat × Option (Nat × Nat))) (e : Err)
    (h : maskNames vk st l = .error e) : e = .valueError := by
  induction l generalizing st with
  | nil => cases h
  | cons a t ih =>
    obtain ⟨x, pv⟩ := a
    simp only [maskNames, bind, Except.bind] at h
    cases hr : maskName vk st x pv with
    | error e' => rw [hr] at h; cases h; exact maskName_err _ _ _ _ _ hr
    | ok st' => rw [hr] at h; exact ih _ h


theorem maskName_ok_consumed {vk : Option Param} {st st' : KState} {x : Nat}
    (h : maskName vk st x none = .ok st') : x ∉ st.consumed ∧ st'.consumed = st.consumed ++ [x] := by
  rw [maskName_plain] at h
  by_cases hc : st.consumed.contains x = true
  · rw [if_pos hc] at h; cases h
  · rw [if_neg hc] at h
    refine ⟨by simpa using hc, ?_⟩
    repeat' split at h
    all_goals first | (cases h; rfl) | cases h

theorem maskNames_ok_consumed {vk : Option Param} (xs : List Nat) {st st' : KState}
    (h : maskNames vk st (plainNames xs) = .ok st') : ∀ x ∈ xs, x ∉ st.consumed := by
  induction xs generalizing st with
  | nil => simp
  | cons x rest ih =>
    rw [maskNames_cons] at h
    cases hr : maskName vk st x none with
    | error e => rw [hr] at h; cases h
    | ok st1 =>
      rw [hr] at h
      obtain ⟨h1, h2⟩ := maskName_ok_consumed hr
      intro y hy
      simp only [List.mem_cons] at hy
      rcases hy with rfl | hy
      · exact h1
      · have := ih h y hy
        rw [h2] at this
        intro hc; apply this; simp [hc]

end SV
