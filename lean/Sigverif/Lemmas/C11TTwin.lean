/-
  Lemmas/C11TTwin.lean — the two metadata maps of interest: `twin env` (eager compilation of
  postponed annotations, Props/C11.lean) and `erase` (a plain `inspect.Signature`: no upgraded
  annotation), and the witnesses of what fails without the added hypotheses.
-/
import Sigverif.Lemmas.C11TRet
import Sigverif.Props.C11
namespace SV
set_option linter.unusedSimpArgs false
set_option linter.unusedVariables false

/-! ### erase: a plain `inspect.Parameter` has no upgraded annotation -/

/-- the plain parameter underlying an upgraded one -/
def erase (p : Param) : Param := { p with uann := .empty }

theorem erase_metaMap : MetaMap erase where
  name _ := rfl
  kind _ := rfl
  dflt _ := rfl
  withKind _ _ := rfl
  withDflt _ _ := rfl

theorem erase_fresh : FreshFix erase := fun _ _ => rfl

theorem true_closed : ClosedP (fun _ : Param => True) := ⟨fun _ _ _ _ => trivial, fun _ _ _ => trivial, fun _ _ _ => trivial⟩

theorem x11_param_ext {p q : Param} (h1 : p.name = q.name) (h2 : p.kind = q.kind) (h3 : p.dflt = q.dflt)
    (h4 : p.ann = q.ann) (h5 : p.uann = q.uann) : p = q := by
  cases p; cases q; simp only [Param.mk.injEq]; exact ⟨h1, h2, h3, h4, h5⟩

theorem x11_concile_dflt (l r l' r' : Param) (hl : l'.dflt = l.dflt) (hr : r'.dflt = r.dflt) :
    (concile l' r').dflt = (concile l r).dflt := by
  unfold concile
  simp only [hl, hr]

theorem erase_concComm : ConcComm erase (fun _ => True) := by
  intro a b _ _
  apply x11_param_ext
  · rfl
  · rfl
  · exact (x11_concile_dflt a b (erase a) (erase b) rfl rfl).symm
  · show (concile a b).ann = (concile (erase a) (erase b)).ann
    rw [concile_annotation, concile_annotation]; rfl
  · show UAnn.empty = (concile (erase a) (erase b)).uann
    rw [concile_uann]
    show _ = match a.ann, b.ann with | some x, some y => _ | some x, none => _ | none, some y => _ | none, none => _
    cases a.ann <;> cases b.ann <;> simp only [erase] <;> (try split) <;> rfl

theorem allTrue (ps : List Param) : AllP (fun _ : Param => True) ps := fun _ _ => trivial

/-! ### twin -/

theorem twin_metaMap (env : Nat → Nat → Nat) : MetaMap (twin env) where
  name p := by unfold twin; split <;> rfl
  kind p := by unfold twin; split <;> rfl
  dflt p := by unfold twin; split <;> rfl
  withKind p k := by
    unfold twin
    show (match sourceValue env p.uann with | some v => _ | none => _) = _
    cases sourceValue env p.uann <;> rfl
  withDflt p d := by
    unfold twin
    show (match sourceValue env p.uann with | some v => _ | none => _) = _
    cases sourceValue env p.uann <;> rfl

theorem twin_fresh (env : Nat → Nat → Nat) : FreshFix (twin env) := fun _ _ => rfl

/-- pairwise faithfulness of a set of parameters -/
def FaithfulSet (env : Nat → Nat → Nat) (ps : List Param) : Prop := ∀ l ∈ ps, ∀ r ∈ ps, Faithful env l r

theorem faithful_of_annFrom (env : Nat → Nat → Nat) (ins : List Param) (h : FaithfulSet env ins)
    (a b : Param) (ha : AnnFrom ins a) (hb : AnnFrom ins b) : Faithful env a b := by
  have one : ∀ p, AnnFrom ins p → p.ann.isSome = (sourceValue env p.uann).isSome := by
    intro p hp
    rcases hp with ⟨h1, h2⟩ | ⟨q, hq, h1, h2⟩
    · rw [h1, h2]; rfl
    · rw [h1, h2]; exact (h q hq q hq).1
  refine ⟨one a ha, one b hb, ?_⟩
  intro x y hx hy
  rcases ha with ⟨h1, _⟩ | ⟨q, hq, h1, h2⟩
  · rw [h1] at hx; cases hx
  · rcases hb with ⟨k1, _⟩ | ⟨q', hq', k1, k2⟩
    · rw [k1] at hy; cases hy
    · rw [h2, k2]
      exact (h q hq q' hq').2.2 x y (by rw [← h1]; exact hx) (by rw [← k1]; exact hy)

theorem sourceValue_empty (env : Nat → Nat → Nat) : sourceValue env .empty = none := rfl

theorem twin_uann (env : Nat → Nat → Nat) (p : Param) :
    (twin env p).uann = match sourceValue env p.uann with | some v => .pre v | none => .empty := by
  unfold twin; cases sourceValue env p.uann <;> rfl

theorem twin_of_uann (env : Nat → Nat → Nat) (p : Param) :
    twin env p = { p with ann := sourceValue env p.uann,
                          uann := match sourceValue env p.uann with | some v => .pre v | none => .empty } := by
  unfold twin; cases sourceValue env p.uann <;> rfl

/-- **one conciliation commutes with eager compilation** (equality of parameters, not only of
    their `evaluated` values) when spellings are faithful -/
theorem twin_concile (env : Nat → Nat → Nat) (l r : Param) (hf : Faithful env l r) :
    twin env (concile l r) = concile (twin env l) (twin env r) := by
  have hm := twin_metaMap env
  obtain ⟨h1, h2, h3⟩ := hf
  apply x11_param_ext
  · rw [hm.name]; simp only [concile_name]; rw [hm.name]
  · rw [hm.kind]; simp only [concile_kind]; rw [hm.kind]
  · rw [hm.dflt]; exact (x11_concile_dflt l r _ _ (hm.dflt l) (hm.dflt r)).symm
  · rw [twin_ann, concile_uann, concile_annotation, twin_ann, twin_ann]
    cases hla : l.ann <;> cases hra : r.ann <;>
      cases hlu : sourceValue env l.uann <;> cases hru : sourceValue env r.uann <;>
      simp only [hla, hra, hlu, hru, Option.isSome_none, Option.isSome_some] at h1 h2 <;>
      (try (cases h1; done)) <;> (try (cases h2; done)) <;> simp only [sourceValue_empty, hlu, hru]
    rename_i a b u v
    have := h3 a b hla hra
    rw [hlu, hru] at this
    by_cases hab : a = b
    · have huv : u = v := by simpa using this.1 hab
      simp only [hab, huv, if_true, hlu]
    · have huv : ¬ u = v := fun e => hab (this.2 (by rw [e]))
      simp only [hab, huv, if_false, sourceValue_empty]
  · rw [twin_uann, concile_uann, concile_uann, twin_ann, twin_ann, twin_uann, twin_uann]
    cases hla : l.ann <;> cases hra : r.ann <;>
      cases hlu : sourceValue env l.uann <;> cases hru : sourceValue env r.uann <;>
      simp only [hla, hra, hlu, hru, Option.isSome_none, Option.isSome_some] at h1 h2 <;>
      (try (cases h1; done)) <;> (try (cases h2; done)) <;> simp only [sourceValue_empty, hlu, hru]
    rename_i a b u v
    have := h3 a b hla hra
    rw [hlu, hru] at this
    by_cases hab : a = b
    · have huv : u = v := by simpa using this.1 hab
      simp only [hab, huv, if_true, hlu]
    · have huv : ¬ u = v := fun e => hab (this.2 (by rw [e]))
      simp only [hab, huv, if_false, sourceValue_empty]

theorem twin_concComm (env : Nat → Nat → Nat) (ins : List Param) (h : FaithfulSet env ins) :
    ConcComm (twin env) (AnnFrom ins) :=
  fun a b ha hb => twin_concile env a b (faithful_of_annFrom env ins h a b ha hb)

end SV

namespace SV

/-! ### signature level: the twin / the plain version of a whole signature -/

/-- eager compilation of the return annotation -/
def twinRet (env : Nat → Nat → Nat) : RetMap := fun ru =>
  match sourceValue env ru.2 with
  | some v => (some v, .pre v)
  | none => (none, .empty)

/-- the eagerly compiled twin of a signature: every parameter and the return annotation -/
def twinSig (env : Nat → Nat → Nat) (s : USig) : USig := mapRet (twinRet env) (mapSig (twin env) s)

/-- a plain signature has no upgraded return annotation -/
def eraseRet : RetMap := fun ru => (ru.1, .empty)

/-- the plain `inspect.Signature` underlying an upgraded one -/
def eraseSig (s : USig) : USig := mapRet eraseRet (mapSig erase s)

theorem x11_map_comp {f : Param → Param} {g : RetMap} (ss : List USig) :
    ss.map (fun s => mapRet g (mapSig f s)) = (ss.map (mapSig f)).map (mapRet g) := by
  simp only [List.map_map, Function.comp_def]

theorem x11_exmap_comp {f : Param → Param} {g : RetMap} (r : Except Err USig) :
    (r.map (mapSig f)).map (mapRet g) = r.map (fun s => mapRet g (mapSig f s)) := by
  cases r <;> rfl

/-- generic: parameters mapped with `f`, return annotation with `g` -/
theorem x11_merge_both {f : Param → Param} {P : Param → Prop} (g : RetMap) (hf : MetaMap f) (hc : ClosedP P)
    (hcomm : ConcComm f P) (ss : List USig) (hss : ∀ s ∈ ss, AllP P s.params) :
    merge (ss.map (fun s => mapRet g (mapSig f s))) = (merge ss).map (fun s => mapRet g (mapSig f s)) := by
  rw [x11_map_comp, x11_merge_ret, x11_merge_map hf hc hcomm ss hss, x11_exmap_comp]

theorem x11_embed_both {f : Param → Param} {P : Param → Prop} (g : RetMap) (hf : MetaMap f) (hc : ClosedP P)
    (hcomm : ConcComm f P) (uva uvk : Bool) (ss : List USig) (hss : ∀ s ∈ ss, AllP P s.params) :
    embed uva uvk (ss.map (fun s => mapRet g (mapSig f s))) =
      (embed uva uvk ss).map (fun s => mapRet g (mapSig f s)) := by
  rw [x11_map_comp, x11_embed_ret, x11_embed_map hf hc hcomm uva uvk ss hss, x11_exmap_comp]

theorem x11_mask_both {f : Param → Param} (g : RetMap) (hf : MetaMap f) (sig : USig) (n : Nat)
    (nms : List Nat) (h : HideFlags) :
    mask (mapRet g (mapSig f sig)) n nms h = (mask sig n nms h).map (fun s => mapRet g (mapSig f s)) := by
  rw [x11_mask_ret, x11_mask_map hf, x11_exmap_comp]

theorem x11_maskPartial_both {f : Param → Param} (g : RetMap) (hf : MetaMap f) (hfresh : FreshFix f)
    (sig : USig) (n : Nat) (kw : List (Nat × Nat)) (pobj : Nat) :
    maskPartial (mapRet g (mapSig f sig)) n kw pobj =
      (maskPartial sig n kw pobj).map (fun s => mapRet g (mapSig f s)) := by
  rw [x11_maskPartial_ret, x11_maskPartial_map hf hfresh, x11_exmap_comp]

theorem x11_forwards_both {f : Param → Param} {P : Param → Prop} (g : RetMap) (hf : MetaMap f) (hc : ClosedP P)
    (hcomm : ConcComm f P) (outer inner : USig) (n : Nat) (nms : List Nat) (ha hk uva uvk part : Bool)
    (ho : AllP P outer.params) (hi : AllP P inner.params) :
    forwards (mapRet g (mapSig f outer)) (mapRet g (mapSig f inner)) n nms ha hk uva uvk part =
      (forwards outer inner n nms ha hk uva uvk part).map (fun s => mapRet g (mapSig f s)) := by
  rw [x11_forwards_ret, x11_forwards_map hf hc hcomm outer inner n nms ha hk uva uvk part ho hi, x11_exmap_comp]

theorem annFrom_allParams (ss : List USig) : ∀ s ∈ ss, AllP (AnnFrom (allParams ss)) s.params :=
  inputs_annFrom ss

/-- `evaluated()` of a twin is `evaluated()` of the original -/
theorem evaluated_twin (env : Nat → Nat → Nat) (p : Param) : evaluated env (twin env p) = evaluated env p :=
  twin_value env p

theorem evaluated_twinSig (env : Nat → Nat → Nat) (s : USig) :
    (twinSig env s).params.map (evaluated env) = s.params.map (evaluated env) := by
  show (s.params.map (twin env)).map (evaluated env) = _
  rw [List.map_map]
  apply List.map_congr_left
  intro p _
  exact evaluated_twin env p

end SV
