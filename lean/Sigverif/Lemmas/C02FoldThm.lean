import Sigverif.Lemmas.C02Fold
namespace SV

theorem names_kwo_sublist (s : Sorted) : (names s.kwo).Sublist (names s.all) := by
  unfold Sorted.all names
  apply List.Sublist.map
  refine List.Sublist.trans ?_ (List.sublist_append_left _ _)
  exact List.sublist_append_right _ _

theorem embed_fold_params_aux (a b M : USig) (rest : List USig) (uva uvk : Bool)
    (ha : WF a.params) (hb : WF b.params) (hM : embed uva uvk [a, b] = .ok M) :
    (embed uva uvk (a :: b :: rest)).map (·.params) = (embed uva uvk (M :: rest)).map (·.params) := by
  unfold embed at hM
  simp only [embedFold, bind, Except.bind] at hM
  cases hs : embedStep (sortParams a) (sortParams b) uva uvk 1 with
  | error e => rw [hs] at hM; cases hM
  | ok acc =>
    rw [hs] at hM
    simp only [applyParams, bind, Except.bind] at hM
    cases hv : validate acc.all with
    | error e => rw [hv] at hM; cases hM
    | ok u =>
      rw [hv] at hM
      simp only [pure, Except.pure, Except.ok.injEq] at hM
      have hk : BucketKinds acc :=
        embedStep_kinds (sortParams_WF a ha).2.1 (sortParams_WF b hb).2.1 hs
      have hn : (names acc.kwo).Nodup := (names_kwo_sublist acc).nodup (validate_nodup hv)
      have hsort : eraseMeta (sortParams M) = eraseMeta acc := by
        subst hM
        unfold sortParams
        simp only
        rw [sortGo_all_C02 acc hk hn]
        rfl
      have hf := embedFold_erase uva uvk rest acc (sortParams M) 2 1 hsort.symm
      unfold embed
      simp only [embedFold, hs, bind, Except.bind]
      cases h1 : embedFold uva uvk acc 2 rest with
      | error e =>
        cases h2 : embedFold uva uvk (sortParams M) 1 rest with
        | error e' =>
          rw [h1, h2] at hf
          simp only [Except.map, Except.error.injEq] at hf
          subst hf
          rfl
        | ok r' => rw [h1, h2] at hf; cases hf
      | ok r =>
        cases h2 : embedFold uva uvk (sortParams M) 1 rest with
        | error e' => rw [h1, h2] at hf; cases hf
        | ok r' =>
          rw [h1, h2] at hf
          simp only [Except.map, Except.ok.injEq] at hf
          exact applyParams_params_erase a M r r' hf

end SV
