/-
  Lemmas/C05Flat.lean — the visitor on the top-level (un-nested) part of the forwarding grammar:
  states with one namespace, no pending deferred call.
-/
import Sigverif.Model.Grammar
namespace SV
namespace Flat
variable {kids : List NS} {rev : List (Tree × Nat)}

/-- a visitor state positioned in the main function's namespace (index 0); `kids` are the namespaces of
    the nested functions seen so far, `rev` the calls deferred so far -/
def mk (kids : List NS) (rev : List (Tree × Nat)) (names : List (Nat × Entry)) (imm : List Nat) (calls : List CallRec) : VState :=
  { nss := { parent := none, names := names, nonlocals := [], imm := imm } :: kids, cur := 0, calls := calls,
    revisit := rev, hasVa := true, hasVk := true }

theorem lookup_mk (n : List (Nat × Entry)) (i : List Nat) (c : List CallRec) (x : Nat) :
    (mk kids rev n i c).lookup x = (dget n x).map (fun e => (0, e)) := by
  simp only [VState.lookup, mk, List.length_cons, List.length_nil, nsLookup, VState.ns, List.getD_cons_zero, dget,
    Option.getD_none]
  cases dget n x <;> rfl

theorem assign_mk (n : List (Nat × Entry)) (i : List Nat) (c : List CallRec) (x : Nat) (e : Entry) :
    (mk kids rev n i c).assign x e = mk kids rev (dset n x e) (i.filter (· ≠ x)) c := by
  simp [VState.assign, mk, VState.ns, VState.setNs, dget]

theorem isImm_mk (n : List (Nat × Entry)) (i : List Nat) (c : List CallRec) (x : Nat) :
    (mk kids rev n i c).isImm x = i.contains x := by
  simp [VState.isImm, mk, VState.ns, dget]

theorem visitName_mk (n : List (Nat × Entry)) (i : List Nat) (c : List CallRec) (x : Nat) (ctx : Ctx) :
    visitName (mk kids rev n i c) x ctx =
      if i.contains x && ctx = .load then mk kids rev n i c else mk kids rev (dset n x { m := .unknown }) (i.filter (· ≠ x)) c := by
  simp only [visitName, isImm_mk, assign_mk]

theorem taint_mk (n : List (Nat × Entry)) (i : List Nat) (c : List CallRec) (x : Nat) :
    (mk kids rev n i c).taint x = match dget n x with
      | some e => mk kids rev (dset n x { e with tainted := true }) i c
      | none => mk kids rev n i c := by
  simp only [VState.taint, lookup_mk]
  cases h : dget n x with
  | none => rfl
  | some e => simp [mk, VState.ns, VState.setNs]

end Flat
end SV

namespace SV
namespace Flat
variable {kids : List NS} {rev : List (Tree × Nat)}

theorem visit_const (force : Bool) (st : VState) : visit force constT st = st := by
  simp [constT, visit, visitList]

theorem resolveCore_const (t : Bool) (st : VState) : resolveCore constT t st = ((.unknown, false), st) := by
  simp [constT, resolveCore]

theorem resolveArgs_plainConsts (n : Nat) (rest : ArgList) (st : VState) :
    resolveArgs (plainConsts n rest) st =
      ((List.replicate n RM.unknown) ++ (resolveArgs rest st).1, (resolveArgs rest st).2) := by
  induction n generalizing st with
  | zero => simp [plainConsts]
  | succ k ih =>
    simp only [plainConsts, resolveArgs, resolveCore_const, visit_const, untaint, Bool.false_eq_true, if_false]
    rw [ih]
    simp [List.replicate_succ]

theorem resolveKws_kwConsts (ks : List Nat) (rest : KwList) (st : VState) :
    resolveKws (kwConsts ks rest) st =
      (ks.map (fun k => (k, RM.unknown)) ++ (resolveKws rest st).1, (resolveKws rest st).2) := by
  induction ks generalizing st with
  | nil => simp [kwConsts]
  | cons k ks ih =>
    simp only [kwConsts, resolveKws, resolveCore_const, visit_const, untaint, Bool.false_eq_true, if_false]
    rw [ih]
    simp

theorem starCount_plainConsts (n : Nat) (rest : ArgList) : (plainConsts n rest).starCount = rest.starCount := by
  induction n with
  | zero => rfl
  | succ k ih => simp [plainConsts, ArgList.starCount, ih]

theorem dstarCount_kwConsts (ks : List Nat) (rest : KwList) : (kwConsts ks rest).dstarCount = rest.dstarCount := by
  induction ks with
  | nil => rfl
  | cons k ks ih => simp [kwConsts, KwList.dstarCount, ih]

theorem resolveOnlyStar_plainConsts (n : Nat) (rest : ArgList) (st : VState) :
    resolveOnlyStar (plainConsts n rest) st = resolveOnlyStar rest st := by
  induction n with
  | zero => rfl
  | succ k ih => simp [plainConsts, resolveOnlyStar, ih]

theorem resolveOnlyDstar_kwConsts (ks : List Nat) (rest : KwList) (st : VState) :
    resolveOnlyDstar (kwConsts ks rest) st = resolveOnlyDstar rest st := by
  induction ks with
  | nil => rfl
  | cons k ks ih => simp [kwConsts, resolveOnlyDstar, ih]

/-- resolving a callee expression (a Name or an Attribute chain on one) does not change the state -/
theorem resolveCore_callee : (t : Tree) → isCalleeTree t = true → (tainted : Bool) → (st : VState) →
    (resolveCore t tainted st).2 = st
  | .name id ctx, _, _, st => by simp only [resolveCore]; split <;> rfl
  | .attr v a, ht, tainted, st => by
    have hv : isCalleeTree v = true := by
      cases v <;> simp_all [isCalleeTree]
    have ih := resolveCore_callee v hv tainted st
    simp only [resolveCore]
    split
    · simp only [ih]
    · cases v with
      | name _ _ => simp [isNameNode] at *
      | attr v' a' => simp only [visit, ih]
      | _ => simp [isCalleeTree] at hv
  | .call _ _ _, ht, _, _ => by simp [isCalleeTree] at ht
  | .fdef _ _ _ _ _ _, ht, _, _ => by simp [isCalleeTree] at ht
  | .nonloc _, ht, _, _ => by simp [isCalleeTree] at ht
  | .other _, ht, _, _ => by simp [isCalleeTree] at ht

end Flat
end SV

namespace SV
namespace Flat
variable {kids : List NS} {rev : List (Tree × Nat)}

/-- the marker a callee expression resolves to in a flat state -/
def markerIn (n : List (Nat × Entry)) : Tree → RM
  | .name id _ => match dget n id with
    | some e => e.m
    | none => .nm id
  | .attr v a => .attr (markerIn n v) a
  | _ => .unknown

theorem resolveCore_marker (n : List (Nat × Entry)) (i : List Nat) (c : List CallRec) :
    (t : Tree) → isCalleeTree t = true → (resolveCore t true (mk kids rev n i c)).1.1 = markerIn n t
  | .name id ctx, _ => by
    simp only [resolveCore, lookup_mk, markerIn]
    cases dget n id <;> rfl
  | .attr v a, ht => by
    have hv : isCalleeTree v = true := by
      cases v <;> simp_all [isCalleeTree]
    have ih := resolveCore_marker n i c v hv
    simp only [resolveCore, markerIn, if_true]
    rw [← ih]
  | .call _ _ _, ht => by simp [isCalleeTree] at ht
  | .fdef _ _ _ _ _ _, ht => by simp [isCalleeTree] at ht
  | .nonloc _, ht => by simp [isCalleeTree] at ht
  | .other _, ht => by simp [isCalleeTree] at ht

/-- visiting a callee expression that is not a bare Name (an Attribute chain) changes nothing -/
theorem visit_callee_attr (t : Tree) (ht : isCalleeTree t = true) (hn : isNameNode t = false) (st : VState) :
    visit false t st = st := by
  cases t with
  | attr v a => simp [visit]
  | name _ _ => simp [isNameNode] at hn
  | _ => simp [isCalleeTree] at ht

/-- the star marker found in a call: what `resolve_name(value, ro=True).get_untainted()` gives -/
def starFound (n : List (Nat × Entry)) (x : Nat) : RM :=
  match dget n x with
  | some e => if e.tainted then .unknown else e.m
  | none => .nm x

theorem resolveOnlyStar_name (n : List (Nat × Entry)) (i : List Nat) (c : List CallRec) (x : Nat) :
    resolveOnlyStar (.starred (.name x .load) .nil) (mk kids rev n i c) = (some (starFound n x), mk kids rev n i c) := by
  simp only [resolveOnlyStar, resolveCore, lookup_mk, isNameNode, if_true, starFound, untaint]
  cases dget n x with
  | none => simp
  | some e => simp

theorem resolveOnlyDstar_name (n : List (Nat × Entry)) (i : List Nat) (c : List CallRec) (x : Nat) :
    resolveOnlyDstar (.dstar (.name x .load) .nil) (mk kids rev n i c) = (some (starFound n x), mk kids rev n i c) := by
  simp only [resolveOnlyDstar, resolveCore, lookup_mk, isNameNode, if_true, starFound, untaint]
  cases dget n x with
  | none => simp
  | some e => simp

/-- the namespace after `self.namespace[instance.name].tainted = node` for the marker of a callee -/
def taintCallee (n : List (Nat × Entry)) (w : RM) : List (Nat × Entry) :=
  match w with
  | .attr _ _ => (match w.instance with
    | .arg x _ => (match dget n x with
      | some e => dset n x { e with tainted := true }
      | none => n)
    | _ => n)
  | _ => n

/-- **a forwarding-call statement's Call node in a flat state**: one record is appended, the only
    change to the namespace is the `tainted` flag of the callee's root when it is a parameter -/
theorem visit_callTree (va vk : Nat) (callee : Tree) (hc : isCalleeTree callee = true) (npos : Nat)
    (kws : List Nat) (uva uvk : Bool) (n : List (Nat × Entry)) (i : List Nat) (c : List CallRec) :
    visit false (callTree va vk callee npos kws uva uvk) (mk kids rev n i c) =
      let n' := taintCallee n (markerIn n callee)
      let fa := if uva then some (starFound n' va) else none
      let fk := if uvk then some (starFound n' vk) else none
      mk kids rev n' i (c ++ [{ wrapped := markerIn n callee,
                                args := List.replicate npos .unknown,
                                kwargs := kws.map (fun k => (k, RM.unknown)),
                                varargs := fa, varkwargs := fk,
                                useVa := (hasHide fa true .va).1, useVk := (hasHide fk true .vk).1,
                                hideA := (hasHide fa true .va).2, hideK := (hasHide fk true .vk).2 }]) := by
  have hpar : ((mk kids rev n i c).ns (mk kids rev n i c).cur).parent.isSome = false := by simp [mk, VState.ns]
  have hres2 := resolveCore_callee callee hc true (mk kids rev n i c)
  have hres1 := resolveCore_marker (kids := kids) (rev := rev) n i c callee hc
  have hvis : (if isNameNode callee = true then mk kids rev n i c else visit false callee (mk kids rev n i c)) = mk kids rev n i c := by
    split
    · rfl
    · rename_i hn
      exact visit_callee_attr callee hc (by simpa using hn) _
  have htaint : (match markerIn n callee with
      | .attr _ _ => (match (markerIn n callee).instance with
        | .arg x _ => (mk kids rev n i c).taint x
        | _ => mk kids rev n i c)
      | _ => mk kids rev n i c) = mk kids rev (taintCallee n (markerIn n callee)) i c := by
    unfold taintCallee
    cases hm : markerIn n callee with
    | attr v a =>
      simp only
      cases hi : (RM.attr v a).instance with
      | arg x t =>
        simp only [taint_mk]
        cases dget n x <;> rfl
      | _ => rfl
    | _ => rfl
  unfold callTree
  simp only [visit, hpar, Bool.and_false, Bool.false_eq_true, if_false]
  rcases hr : resolveCore callee true (mk kids rev n i c) with ⟨⟨w, tw⟩, st1⟩
  rw [hr] at hres1 hres2
  simp only at hres1 hres2
  subst hres1 hres2
  simp only [hvis]
  unfold taintCallee
  cases hm : markerIn n callee with
  | attr v a =>
    simp only []
    cases hi : (RM.attr v a).instance with
    | arg x t =>
      simp only [taint_mk]
      cases hd : dget n x <;>
      · simp only [resolveArgs_plainConsts, resolveKws_kwConsts, starCount_plainConsts, dstarCount_kwConsts,
          resolveOnlyStar_plainConsts, resolveOnlyDstar_kwConsts]
        cases uva <;> cases uvk <;>
          simp [resolveArgs, resolveKws, ArgList.starCount, KwList.dstarCount, resolveOnlyStar_name,
            resolveOnlyDstar_name] <;>
          simp [mk, hasHide]
    | _ =>
      simp only [resolveArgs_plainConsts, resolveKws_kwConsts, starCount_plainConsts, dstarCount_kwConsts,
        resolveOnlyStar_plainConsts, resolveOnlyDstar_kwConsts]
      cases uva <;> cases uvk <;>
        simp [resolveArgs, resolveKws, ArgList.starCount, KwList.dstarCount, resolveOnlyStar_name,
          resolveOnlyDstar_name] <;>
        simp [mk, hasHide]
  | _ =>
    simp only [resolveArgs_plainConsts, resolveKws_kwConsts, starCount_plainConsts, dstarCount_kwConsts,
      resolveOnlyStar_plainConsts, resolveOnlyDstar_kwConsts]
    cases uva <;> cases uvk <;>
      simp [resolveArgs, resolveKws, ArgList.starCount, KwList.dstarCount, resolveOnlyStar_name,
        resolveOnlyDstar_name] <;>
      simp [mk, hasHide]

end Flat
end SV
