/-
  Lemmas/LawsEval.lean — evaluating closed model terms by rewriting (phaseP / phaseQ are
  defined by well-founded recursion, so `decide` / `rfl` do not reduce them).
-/
import Sigverif.Props.Defs
namespace SV

/-- unfold every model definition and compute -/
macro "sv_eval" : tactic =>
  `(tactic| simp [merge, mergeFold, mergeStep, sortParams, sortGo, phaseK1, phaseK2, phaseP, phaseQ,
      unbalancedPos, unbalancedPok, mergeUnmatched, addStarargs, applyParams, validate, validateGo,
      concile, pset, pget, phas, ppop, pupdate, addSources, addAllSources, dset, dget, sget, dpop,
      dupdate, mergeDepths, copyDepths, Sorted.all, Kind.rank, Param.withKind, Param.withDflt,
      embed, embedFold, embedStep, checkNoDupes, clearDefaults, names,
      mask, maskCore, maskNames, maskName, popChain, removeFromSrc, indexOf?, forwards,
      bind, Except.bind, pure, Except.pure])

end SV
