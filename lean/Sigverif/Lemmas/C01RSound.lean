/-
  Lemmas/C01RSound.lean — bucket-level acceptance of arbitrary call shapes and its soundness
  through one `mergeStep` on records satisfying the role invariant.
-/
import Sigverif.Lemmas.C01RStep
namespace SV
variable {ρ : Roles} {IsIn : Nat → Prop}

/-- bucket-level acceptance of the call shape `(n, K)`; the clause "a keyword that names a
    keyword-passable parameter is not also bound positionally" is not part of it: it follows from
    the global condition `GCond` and the role invariant -/
def accB (M : Sorted) (n : Nat) (K : List Nat) : Prop :=
  (n ≤ M.pos.length + M.pok.length ∨ M.va.isSome = true) ∧
  (∀ k ∈ K, k ∈ names M.pok ∨ k ∈ names M.kwo ∨ M.vk.isSome = true) ∧
  (∀ i p, (M.pos ++ M.pok)[i]? = some p → p.required = true →
    i < n ∨ (p ∈ M.pok ∧ p.name ∈ K)) ∧
  (∀ p ∈ M.kwo, p.required = true → p.name ∈ K)

theorem step_accB {l r m : Sorted} (hl : RI ρ IsIn l) (hr : RI ρ IsIn r)
    (F : StepFacts l r m) (G : RStepFacts ρ IsIn l r m) {n : Nat} {K : List Nat}
    (h : accB m n K) : accB l n K ∧ accB r n K := by
  obtain ⟨a1, a2, a3, a4⟩ := h
  have va := F.va
  have vk := F.vk
  have hnm : ∀ k ∈ K, OKn l r k ∨ (l.vk.isSome = true ∧ r.vk.isSome = true) := by
    intro k hk
    rcases a2 k hk with h | h | h
    · obtain ⟨p, hp, rfl⟩ := mem_names_C01.1 h; exact Or.inl (F.orig p (Or.inl hp))
    · obtain ⟨p, hp, rfl⟩ := mem_names_C01.1 h; exact Or.inl (F.orig p (Or.inr hp))
    · rw [vk] at h; simp only [Bool.and_eq_true] at h; exact Or.inr h
  -- a required positional parameter with a known fate is bound
  have key : ∀ (own : List Param) (p : Param) (j : Nat), ρ.ι p.name = j →
      Fate ρ m.pos m.pok m.kwo own p → j < n ∨ (p ∈ own ∧ p.name ∈ K) := by
    intro own p j hj hf
    rcases hf with ⟨c, hc, hcr, hci⟩ | ⟨⟨c, hc, hcn, hcr⟩ | ⟨c, hc, hcn, hcr⟩, ho⟩
    · have hc' : c ∈ m.pos ++ m.pok := List.mem_append_left _ hc
      obtain ⟨i, hi⟩ := List.getElem?_of_mem hc'
      have := IdxOK_getElem ρ G.ri.idx i c hi
      rcases a3 i c hi hcr with h | ⟨h, _⟩
      · left; omega
      · have k1 := F.bk.pos c hc; have k2 := F.bk.pok c h; rw [k1] at k2; cases k2
    · have hc' : c ∈ m.pos ++ m.pok := List.mem_append_right _ hc
      obtain ⟨i, hi⟩ := List.getElem?_of_mem hc'
      have := IdxOK_getElem ρ G.ri.idx i c hi
      rcases a3 i c hi hcr with h | ⟨_, h⟩
      · left; rw [hcn] at this; omega
      · exact Or.inr ⟨ho, hcn ▸ h⟩
    · exact Or.inr ⟨ho, hcn ▸ a4 c hc hcr⟩
  refine ⟨⟨?_, ?_, ?_, ?_⟩, ⟨?_, ?_, ?_, ?_⟩⟩
  · rcases a1 with h | h
    · rcases F.lenl with h' | h'
      · exact Or.inl (by omega)
      · exact Or.inr h'
    · rw [va] at h; simp only [Bool.and_eq_true] at h; exact Or.inr h.1
  · intro k hk
    rcases hnm k hk with h | h
    · exact h.1
    · exact Or.inr (Or.inr h.1)
  · intro j p hj hr'
    have hp : p ∈ l.pos ∨ p ∈ l.pok := List.mem_append.1 (List.mem_of_getElem? hj)
    have hi := IdxOK_getElem ρ hl.idx j p hj
    exact key l.pok p j (by omega) (G.fl p hp hr')
  · intro p hp hr'
    obtain ⟨c, hc, hcn, hcr⟩ := F.kwo p.name (Or.inl ⟨p, hp, rfl, hr'⟩)
    exact hcn ▸ a4 c hc hcr
  · rcases a1 with h | h
    · rcases F.lenr with h' | h'
      · exact Or.inl (by omega)
      · exact Or.inr h'
    · rw [va] at h; simp only [Bool.and_eq_true] at h; exact Or.inr h.2
  · intro k hk
    rcases hnm k hk with h | h
    · exact h.2
    · exact Or.inr (Or.inr h.2)
  · intro j p hj hr'
    have hp : p ∈ r.pos ∨ p ∈ r.pok := List.mem_append.1 (List.mem_of_getElem? hj)
    have hi := IdxOK_getElem ρ hr.idx j p hj
    exact key r.pok p j (by omega) (G.fr p hp hr')
  · intro p hp hr'
    obtain ⟨c, hc, hcn, hcr⟩ := F.kwo p.name (Or.inr ⟨p, hp, rfl, hr'⟩)
    exact hcn ▸ a4 c hc hcr

/-- the fold -/
theorem mergeFold_accB (ss : List USig) (acc res : Sorted) (hacc : RI ρ IsIn acc)
    (hss : ∀ s ∈ ss, RI ρ IsIn (sortParams s)) (h : mergeFold acc ss = .ok res) :
    RI ρ IsIn res ∧
    (∀ n K, accB res n K → accB acc n K ∧ ∀ s ∈ ss, accB (sortParams s) n K) := by
  induction ss generalizing acc with
  | nil =>
    simp only [mergeFold, Except.ok.injEq] at h
    subst h
    exact ⟨hacc, fun n K h => ⟨h, by simp⟩⟩
  | cons s ss ih =>
    simp only [mergeFold] at h
    cases hm : mergeStep acc (sortParams s) with
    | error e => simp [hm] at h
    | ok acc' =>
      simp only [hm] at h
      have hs := hss s List.mem_cons_self
      have F := mergeStep_facts hacc.bk hs.bk hacc.kw hs.kw hm
      have G := mergeStep_rfacts hacc hs hm
      obtain ⟨i1, i2⟩ := ih acc' G.ri (fun t ht => hss t (List.mem_cons_of_mem _ ht)) h
      refine ⟨i1, ?_⟩
      intro n K hn
      obtain ⟨j1, j2⟩ := i2 n K hn
      obtain ⟨k1, k2⟩ := step_accB hacc hs F G j1
      refine ⟨k1, ?_⟩
      intro t ht
      rcases List.mem_cons.1 ht with rfl | ht
      · exact k2
      · exact j2 t ht

end SV
