/-
  Lemmas/C03Hide.lean — helpers for the hide_* flags: monotonicity of acceptance in the star
  parameters, and a uniform description of the first phase of `_mask`.
-/
import Sigverif.Lemmas.C03Closed
namespace SV


/-- adding `*args` / `**kwargs` to a signature only makes it accept more -/
theorem accP_mono {s : Sorted} {m : Nat} {K : List Nat} (h : AccP s m K) (s' : Sorted)
    (hpos : s'.pos = s.pos) (hpok : s'.pok = s.pok)
    (hkwo : s'.kwo = s.kwo) (hva : s.va.isSome = true → s'.va.isSome = true)
    (hvk : s.vk.isSome = true → s'.vk.isSome = true) : AccP s' m K := by
  unfold AccP at h ⊢
  rw [hpos, hpok, hkwo]
  obtain ⟨c1, c2, c3⟩ := h
  refine ⟨?_, ?_, c3⟩
  · rcases c1 with c | c
    · exact Or.inl c
    · exact Or.inr (hva c)
  · intro k hk
    exact ⟨(c2 k hk).1, fun hn => hvk ((c2 k hk).2 hn)⟩

/-- the first phase, uniformly: with hide_args everything positional is consumed -/
theorem prelude_ok' {s : Sorted} {n : Nat} {h : HideFlags} {c : List Nat} {pos pok : List Param}
    (hp : prelude s n h = .ok (c, pos, pok)) :
    ∃ n', (h.args = false → n' = n) ∧ (n' ≤ (s.pos ++ s.pok).length ∨ s.va.isSome = true) ∧
      c = names ((s.pos ++ s.pok).take n') ∧ pos = s.pos.drop n' ∧
      pok = s.pok.drop (n' - s.pos.length) := by
  rcases prelude_ok hp with ⟨ha, rfl, rfl, rfl⟩ | ⟨ha, h1, rfl, rfl, rfl⟩
  · refine ⟨(s.pos ++ s.pok).length, (fun hf => by rw [ha] at hf; cases hf), Or.inl (Nat.le_refl _),
      ?_, ?_, ?_⟩
    · rw [List.take_length, names_append]
    · simp
    · simp
  · exact ⟨n, fun _ => rfl, h1, rfl, rfl, rfl⟩


end SV
