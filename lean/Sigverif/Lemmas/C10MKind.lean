/-
  Lemmas/C10MKind.lean — a refinement of the generic invariant of Lemmas/Forall.lean for `merge`:
  the predicate only has to survive the kind changes merge really makes (a positional-or-keyword
  parameter becoming positional-only or keyword-only), not arbitrary `withKind`.

  Used for C10 on the result of `merge`: every parameter of the result comes from an input
  parameter of the same name whose kind it only x10_restricts.
-/
import Sigverif.Lemmas.Forall
import Sigverif.Lemmas.LawsKinds
namespace SV
set_option linter.unusedSimpArgs false
set_option linter.unusedVariables false

/-- the only kind changes the property allows: none, or positional-or-keyword to positional-only /
    keyword-only -/
def x10_restricts (k k' : Kind) : Prop := k' = k ∨ (k = .pk ∧ (k' = .po ∨ k' = .ko))

instance (k k' : Kind) : Decidable (x10_restricts k k') := by unfold x10_restricts; exact inferInstance

theorem x10_restricts_refl (k : Kind) : x10_restricts k k := .inl rfl

theorem x10_restricts_trans {a b c : Kind} (h1 : x10_restricts a b) (h2 : x10_restricts b c) : x10_restricts a c := by
  unfold x10_restricts at *
  rcases h1 with rfl | ⟨rfl, rfl | rfl⟩ <;> rcases h2 with rfl | ⟨h, _⟩ <;> simp_all

section
variable (P : Param → Prop)

/-- `P` only looks at name and kind, and survives pk → po / pk → ko -/
structure ClosedK : Prop where
  congr : ∀ a b : Param, a.name = b.name → a.kind = b.kind → P a → P b
  restr : ∀ (a : Param) (k : Kind), a.kind = .pk → (k = .po ∨ k = .ko) → P a → P (a.withKind k)

variable {P}

theorem ClosedK.concile (hc : ClosedK P) (a b : Param) (h : P a) : P (concile a b) :=
  hc.congr a _ rfl rfl h

theorem x10_phaseK1_all (hc : ClosedK P) (l r : Sorted) (ps : List Param) (st : MState)
    (hps : AllP P ps) (hst : StAll P st) : StAll P (phaseK1 l r ps st) := by
  induction ps generalizing st with
  | nil => exact hst
  | cons p ps ih =>
    simp only [phaseK1]
    split
    · rename_i q hq
      apply ih _ hps.tail
      exact { hst with kwo := hst.kwo.pset (hc.concile _ _ hps.head) }
    · apply ih _ hps.tail
      exact { hst with lUn := hst.lUn.pset hps.head }

theorem x10_unbalancedPos_all (hc : ClosedK P) (side : Side) (l r : Sorted) (ex : Param) (cf : List Param)
    (st st' : MState) (cf' : List Param) (hex : P ex) (hcf : AllP P cf) (hst : StAll P st)
    (h : unbalancedPos side l r ex cf st = .ok (st', cf')) : StAll P st' ∧ AllP P cf' := by
  cases cf with
  | cons o rest =>
    simp only [unbalancedPos, Except.ok.injEq, Prod.mk.injEq] at h
    obtain ⟨rfl, rfl⟩ := h
    exact ⟨{ hst with pos := hst.pos.append (AllP.one (hc.concile _ _ hex)) }, hcf.tail⟩
  | nil =>
    cases side <;> simp only [unbalancedPos] at h <;> (repeat' split at h) <;>
      first
      | (cases h; done)
      | (simp only [Except.ok.injEq, Prod.mk.injEq] at h
         obtain ⟨rfl, rfl⟩ := h
         first
         | exact ⟨hst, hcf⟩
         | exact ⟨{ hst with pos := hst.pos.append (AllP.one hex) }, hcf⟩)

theorem x10_phaseP_all (hc : ClosedK P) (l r : Sorted) (ls rs il ir : List Param) (st st' : MState)
    (il' ir' : List Param)
    (hls : AllP P ls) (hrs : AllP P rs) (hil : AllP P il) (hir : AllP P ir)
    (hst : StAll P st) (h : phaseP l r ls rs il ir st = .ok (st', il', ir')) :
    StAll P st' ∧ AllP P il' ∧ AllP P ir' := by
  induction ls, rs, il, ir, st using phaseP.induct l r with
  | case1 il ir st =>
    simp only [phaseP, Except.ok.injEq, Prod.mk.injEq] at h
    obtain ⟨rfl, rfl, rfl⟩ := h
    exact ⟨hst, hil, hir⟩
  | case2 lp ls rp rs il ir st st1 ih =>
    simp only [phaseP] at h
    apply ih hls.tail hrs.tail hil hir _ h
    exact { hst with pos := hst.pos.append (AllP.one (hc.concile _ _ hls.head)) }
  | case3 lp ls il ir st ih =>
    simp only [phaseP, bind, Except.bind] at h
    split at h
    · cases h
    · rename_i v hv
      obtain ⟨st1, ir1⟩ := v
      obtain ⟨k1, k2⟩ := x10_unbalancedPos_all hc _ _ _ _ _ _ _ _ hls.head hir hst hv
      exact ih _ _ hls.tail hrs hil k2 k1 h
  | case4 rp rs il ir st ih =>
    simp only [phaseP, bind, Except.bind] at h
    split at h
    · cases h
    · rename_i v hv
      obtain ⟨st1, il1⟩ := v
      obtain ⟨k1, k2⟩ := x10_unbalancedPos_all hc _ _ _ _ _ _ _ _ hrs.head hil hst hv
      exact ih _ _ hls hrs.tail k2 hir k1 h

theorem x10_flush (hc : ClosedK P) {ps qs : List Param} {p : Param} (h : AllP P ps) (hq : AllP P qs)
    (hqk : ∀ q ∈ qs, q.kind = .pk) (hp : P p) (hpk : p.kind = .pk) :
    AllP P (ps ++ qs.map (·.withKind .po) ++ [p.withKind .po]) := by
  refine (h.append ?_).append (AllP.one (hc.restr _ _ hpk (.inl rfl) hp))
  intro q hq'
  obtain ⟨x, hx, rfl⟩ := List.mem_map.1 hq'
  exact hc.restr x _ (hqk x hx) (.inl rfl) (hq x hx)

theorem x10_unbalancedPok_all (hc : ClosedK P) (side : Side) (l r : Sorted) (ex : Param) (st st' : MState)
    (hex : P ex) (hexk : ex.kind = .pk) (hst : StAll P st) (hk : StKinds st)
    (h : unbalancedPok side l r ex st = .ok st') : StAll P st' := by
  have hko : ∀ q, P ((SV.concile ex q).withKind .ko) := fun q =>
    hc.restr _ _ hexk (.inr rfl) (hc.concile _ _ hex)
  have hko' : P (ex.withKind .ko) := hc.restr _ _ hexk (.inr rfl) hex
  have hfl := x10_flush hc hst.pos hst.pok hk.pok hex hexk
  cases side
  · simp only [unbalancedPok] at h
    split at h
    · rename_i q hq
      simp only [Except.ok.injEq] at h
      subst h
      exact { hst with kwo := hst.kwo.pset (hko q), rUn := hst.rUn.ppop _ }
    · (repeat' split at h) <;>
      first
      | (cases h; done)
      | (simp only [Except.ok.injEq] at h
         subst h
         first
         | exact hst
         | exact { hst with pok := hst.pok.append (AllP.one hex) }
         | exact { hst with kwo := hst.kwo.pset hko' }
         | exact { hst with pos := hfl, pok := AllP.nil })
  · simp only [unbalancedPok] at h
    split at h
    · rename_i q hq
      simp only [Except.ok.injEq] at h
      subst h
      exact { hst with kwo := hst.kwo.pset (hko q), lUn := hst.lUn.ppop _ }
    · (repeat' split at h) <;>
      first
      | (cases h; done)
      | (simp only [Except.ok.injEq] at h
         subst h
         first
         | exact hst
         | exact { hst with pok := hst.pok.append (AllP.one hex) }
         | exact { hst with kwo := hst.kwo.pset hko' }
         | exact { hst with pos := hfl, pok := AllP.nil })

theorem x10_phaseQ_all (hc : ClosedK P) (l r : Sorted) (il ir : List Param) (st st' : MState)
    (hil : AllP P il) (hir : AllP P ir) (kil : AllKind .pk il) (kir : AllKind .pk ir)
    (hst : StAll P st) (hk : StKinds st) (h : phaseQ l r il ir st = .ok st') : StAll P st' := by
  induction il, ir, st using phaseQ_ind l r with
  | h1 st =>
    simp only [phaseQ, Except.ok.injEq] at h
    subst h; exact hst
  | h2 lp ls rp rs st hn ih =>
    rw [phaseQ, if_pos hn] at h
    apply ih hil.tail hir.tail kil.tail kir.tail _ _ h
    · exact { hst with pok := hst.pok.append (AllP.one (hc.concile _ _ hil.head)) }
    · exact { hk with pok := AllKind.append_one hk.pok kil.head }
  | h3 lp ls rp rs st hn ih =>
    rw [phaseQ, if_neg hn] at h
    apply ih hil.tail hir.tail kil.tail kir.tail _ _ h
    · exact { hst with pos := x10_flush hc hst.pos hst.pok hk.pok (hc.concile _ _ hil.head) kil.head,
                       pok := AllP.nil }
    · exact { hk with pos := AllKind.flush hk.pos, pok := by intro p hp; cases hp }
  | h4 lp ls st ih =>
    simp only [phaseQ, bind, Except.bind] at h
    split at h
    · cases h
    · rename_i v hv
      exact ih _ hil.tail hir kil.tail kir
        (x10_unbalancedPok_all hc _ _ _ _ _ _ hil.head kil.head hst hk hv)
        (unbalancedPok_kinds _ _ _ _ _ _ kil.head hk hv) h
  | h5 rp rs st ih =>
    simp only [phaseQ, bind, Except.bind] at h
    split at h
    · cases h
    · rename_i v hv
      exact ih _ hil hir.tail kil kir.tail
        (x10_unbalancedPok_all hc _ _ _ _ _ _ hir.head kir.head hst hk hv)
        (unbalancedPok_kinds _ _ _ _ _ _ kir.head hk hv) h

theorem x10_addStarargs_all (hc : ClosedK P) (l r : Sorted) (wL wR : Bool) (left right : Option Param) (src : Srcs)
    (hl : ∀ p, left = some p → P p) (hr : ∀ p, right = some p → P p) :
    ∀ p, (addStarargs l r wL wR left right src).1 = some p → P p := by
  intro p hp
  unfold addStarargs at hp
  split at hp
  · rename_i lp rp
    (repeat' split at hp) <;> simp only [Option.some.injEq] at hp <;> subst hp
    · exact hc.concile _ _ (hl _ rfl)
    · exact hc.concile _ _ (hl _ rfl)
    · exact hl _ rfl
    · exact hr _ rfl
  · cases hp

/-- **one merge step** under the bucket-kind invariant -/
theorem x10_mergeStep_all (hc : ClosedK P) (l r s : Sorted) (bl : BucketKinds l) (br : BucketKinds r)
    (hl : AllP P l.all) (hr : AllP P r.all)
    (h : mergeStep l r = .ok s) : AllP P s.all := by
  obtain ⟨l1, l2, l3, l4, l5⟩ := (allP_all_iff l).1 hl
  obtain ⟨r1, r2, r3, r4, r5⟩ := (allP_all_iff r).1 hr
  obtain ⟨st1, st2, st3, st4, il, ir, h1, h2, h3, h4, rfl⟩ := mergeStep_ok l r s h
  have k0 : StAll P ({ vaL := l.va.isSome, vaR := r.va.isSome, vkL := l.vk.isSome,
                       vkR := r.vk.isSome } : MState) :=
    ⟨AllP.nil, AllP.nil, AllP.nil, AllP.nil, AllP.nil⟩
  have c0 : StKinds ({ vaL := l.va.isSome, vaR := r.va.isSome, vkL := l.vk.isSome,
                       vkR := r.vk.isSome } : MState) := by
    constructor <;> simp
  have kK1 := x10_phaseK1_all hc l r l.kwo _ l4 k0
  have kK2 := phaseK2_allP l r.kwo _ r4 kK1
  have cK1 := phaseK1_kinds l r l.kwo _ bl.kwo c0
  have cK2 := phaseK2_kinds l r.kwo _ br.kwo cK1
  obtain ⟨k1, kil, kir⟩ := x10_phaseP_all hc l r _ _ _ _ _ _ _ _ l1 r1 l2 r2 kK2 h1
  obtain ⟨c1, cil, cir⟩ := phaseP_kinds l r _ _ _ _ _ _ _ _ bl.pos br.pos bl.pok br.pok cK2 h1
  have k2 := x10_phaseQ_all hc l r _ _ _ _ kil kir cil cir k1 c1 h2
  have k3 := mergeUnmatched_all _ _ _ _ _ k2 h3
  have k4 := mergeUnmatched_all _ _ _ _ _ k3 h4
  exact (allP_all_iff _).2 ⟨k4.pos, k4.pok, x10_addStarargs_all hc _ _ _ _ _ _ _ l3 r3, k4.kwo,
    x10_addStarargs_all hc _ _ _ _ _ _ _ l5 r5⟩

theorem x10_mergeFold_all (hc : ClosedK P) (acc r : Sorted) (ss : List USig) (bacc : BucketKinds acc)
    (hacc : AllP P acc.all)
    (hss : ∀ s ∈ ss, AllP P s.params) (h : mergeFold acc ss = .ok r) : AllP P r.all := by
  induction ss generalizing acc with
  | nil => simp only [mergeFold, Except.ok.injEq] at h; subst h; exact hacc
  | cons s ss ih =>
    simp only [mergeFold] at h
    split at h
    · rename_i acc' hstep
      exact ih acc' (mergeStep_bucketKinds' _ _ _ bacc (sortParams_bucketKinds s) hstep)
        (x10_mergeStep_all hc _ _ _ bacc (sortParams_bucketKinds s) hacc
          (sortParams_allP s (hss s (by simp))) hstep)
        (fun t ht => hss t (by simp [ht])) h
    · cases h

/-- any number of inputs: a name-and-kind predicate that survives pk → po and pk → ko and holds of
    every input parameter holds of every parameter of the result -/
theorem x10_merge_all (hc : ClosedK P) (ss : List USig) (R : USig) (hss : ∀ s ∈ ss, AllP P s.params)
    (h : merge ss = .ok R) : AllP P R.params := by
  cases ss with
  | nil => simp [merge] at h
  | cons s ss =>
    simp only [merge, bind, Except.bind] at h
    split at h
    · cases h
    · rename_i r hfold
      have := x10_mergeFold_all hc _ _ _ (sortParams_bucketKinds s)
        (sortParams_allP s (hss s (by simp))) (fun t ht => hss t (by simp [ht])) hfold
      rw [(applyParams_ok_C08 h).1]
      exact this

end

/-! ### the kind rule of C10 on the result of `merge` -/

/-- `p` comes from an input parameter of the same name whose kind it only x10_restricts -/
def FromInput (ss : List USig) (p : Param) : Prop :=
  ∃ s ∈ ss, ∃ q ∈ s.params, q.name = p.name ∧ x10_restricts q.kind p.kind

theorem fromInput_closed (ss : List USig) : ClosedK (FromInput ss) := by
  constructor
  · rintro a b hn hk ⟨s, hs, q, hq, e, hr⟩
    exact ⟨s, hs, q, hq, e.trans hn, hk ▸ hr⟩
  · rintro a k hak hk ⟨s, hs, q, hq, e, hr⟩
    refine ⟨s, hs, q, hq, e, x10_restricts_trans hr ?_⟩
    rw [hak]
    exact .inr ⟨rfl, hk⟩

theorem merge_kind_only_restricts' (ss : List USig) (R : USig) (hR : merge ss = .ok R) :
    ∀ p ∈ R.params, ∃ s ∈ ss, ∃ q ∈ s.params, q.name = p.name ∧ x10_restricts q.kind p.kind :=
  x10_merge_all (fromInput_closed ss) ss R
    (fun s hs p hp => ⟨s, hs, p, hp, rfl, x10_restricts_refl _⟩) hR

end SV
