/-
  Lemmas/C12Main.lean — instantiating the comparison for `prepare`'s output.
-/
import Sigverif.Lemmas.C12Call
namespace SV
set_option linter.unusedSimpArgs false

theorem mem_pokSpec' (F : List Param) (P W : List Nat) (q : Param) :
    q ∈ pokSpec' F P W ↔
      (∃ p ∈ F, (p.kind = .po ∨ p.kind = .pk) ∧ p.name ∉ W ∧
        (if P.contains p.name then p.withKind .po else p) = q) ∨
      (q ∈ F ∧ q.kind = .vp) ∨ (q ∈ F ∧ q.kind = .ko) ∨
      (∃ p ∈ F, p.kind = .pk ∧ p.name ∈ W ∧ p.withKind .ko = q) ∨ (q ∈ F ∧ q.kind = .vk) := by
  simp only [pokSpec', List.mem_append, List.mem_map, List.mem_filter, Bool.and_eq_true,
    Bool.or_eq_true, decide_eq_true_eq, Bool.not_eq_true', List.contains_eq_mem,
    decide_eq_false_iff_not, or_assoc, and_assoc]

def g1 (P : List Nat) (p : Param) : Param := if P.contains p.name then p.withKind .po else p

theorem g1_name (P : List Nat) (p : Param) : (g1 P p).name = p.name := by
  unfold g1; split <;> simp [Param.withKind]
theorem g1_dflt (P : List Nat) (p : Param) : (g1 P p).dflt = p.dflt := by
  unfold g1; split <;> simp [Param.withKind]
theorem g1_kind (P : List Nat) (p : Param) (h : p.kind = .po ∨ p.kind = .pk) :
    ((g1 P p).kind = .po ∧ (p.kind = .po ∨ p.name ∈ P)) ∨ ((g1 P p).kind = .pk ∧ p.kind = .pk ∧ p.name ∉ P) := by
  unfold g1
  by_cases hP : p.name ∈ P
  · simp [hP, Param.withKind]
  · simp [hP]; rcases h with h | h <;> simp [h]

theorem mem_pokSpec'' (F : List Param) (P W : List Nat) (q : Param) :
    q ∈ pokSpec' F P W ↔
      (∃ p ∈ F, (p.kind = .po ∨ p.kind = .pk) ∧ p.name ∉ W ∧ g1 P p = q) ∨
      (q ∈ F ∧ q.kind = .vp) ∨ (q ∈ F ∧ q.kind = .ko) ∨
      (∃ p ∈ F, p.kind = .pk ∧ p.name ∈ W ∧ p.withKind .ko = q) ∨ (q ∈ F ∧ q.kind = .vk) :=
  mem_pokSpec' F P W q

theorem hasVa_pokSpec' (F : List Param) (P W : List Nat) : hasVa (pokSpec' F P W) = hasVa F := by
  rw [Bool.eq_iff_iff]
  simp only [hasVa, List.any_eq_true, decide_eq_true_eq]
  constructor
  · rintro ⟨q, hq, hk⟩
    rcases (mem_pokSpec'' F P W q).1 hq with ⟨p, hp, hpk, -, rfl⟩ | ⟨h1, h2⟩ | ⟨h1, h2⟩ | ⟨p, hp, -, -, rfl⟩ | ⟨h1, h2⟩
    · rcases g1_kind P p hpk with h | h <;> rw [h.1] at hk <;> cases hk
    · exact ⟨q, h1, h2⟩
    · rw [h2] at hk; cases hk
    · simp [Param.withKind] at hk
    · rw [h2] at hk; cases hk
  · rintro ⟨p, hp, hk⟩
    exact ⟨p, (mem_pokSpec'' F P W p).2 (Or.inr (Or.inl ⟨hp, hk⟩)), hk⟩

theorem hasVk_pokSpec' (F : List Param) (P W : List Nat) : hasVk (pokSpec' F P W) = hasVk F := by
  rw [Bool.eq_iff_iff]
  simp only [hasVk, List.any_eq_true, decide_eq_true_eq]
  constructor
  · rintro ⟨q, hq, hk⟩
    rcases (mem_pokSpec'' F P W q).1 hq with ⟨p, hp, hpk, -, rfl⟩ | ⟨h1, h2⟩ | ⟨h1, h2⟩ | ⟨p, hp, -, -, rfl⟩ | ⟨h1, h2⟩
    · rcases g1_kind P p hpk with h | h <;> rw [h.1] at hk <;> cases hk
    · rw [h2] at hk; cases hk
    · rw [h2] at hk; cases hk
    · simp [Param.withKind] at hk
    · exact ⟨q, h1, h2⟩
  · rintro ⟨p, hp, hk⟩
    exact ⟨p, (mem_pokSpec'' F P W p).2 (Or.inr (Or.inr (Or.inr (Or.inr ⟨hp, hk⟩)))), hk⟩

theorem mem_kwNames_C12 (s : List Param) (x : Nat) :
    x ∈ kwNames s ↔ ∃ p ∈ s, (p.kind = .pk ∨ p.kind = .ko) ∧ p.name = x := by
  simp [kwNames, kwPassable, and_assoc]

theorem admissible'_no_ko_P {F : List Param} {P W : List Nat} (hn : NamesDistinct F)
    (h : admissible' F P W) : ∀ p ∈ F, p.kind = .ko → p.name ∉ P := by
  intro p hp hk hP
  obtain ⟨q, hq, hqn, hqk⟩ := h.2.1 _ hP
  have := hn.eq_of_name hq hp hqn
  subst this
  rw [hk] at hqk
  rcases hqk with h | h <;> cases h

theorem kwNames_pokSpec' (F : List Param) (P W : List Nat) (hn : NamesDistinct F)
    (h : admissible' F P W) (x : Nat) :
    x ∈ kwNames (pokSpec' F P W) ↔ x ∈ kwNames F ∧ x ∉ P := by
  rw [mem_kwNames_C12, mem_kwNames_C12]
  constructor
  · rintro ⟨q, hq, hk, rfl⟩
    rcases (mem_pokSpec'' F P W q).1 hq with ⟨p, hp, hpk, -, rfl⟩ | ⟨h1, h2⟩ | ⟨h1, h2⟩ | ⟨p, hp, hpk, hw, rfl⟩ | ⟨h1, h2⟩
    · rcases g1_kind P p hpk with h' | h'
      · rw [h'.1] at hk; rcases hk with hk | hk <;> cases hk
      · rw [g1_name]; exact ⟨⟨p, hp, Or.inl h'.2.1, rfl⟩, h'.2.2⟩
    · rw [h2] at hk; rcases hk with hk | hk <;> cases hk
    · exact ⟨⟨q, h1, Or.inr h2, rfl⟩, admissible'_no_ko_P hn h q h1 h2⟩
    · simp only [Param.withKind]
      exact ⟨⟨p, hp, Or.inl hpk, rfl⟩, fun hP => h.1 _ hP hw⟩
    · rw [h2] at hk; rcases hk with hk | hk <;> cases hk
  · rintro ⟨⟨p, hp, hk, rfl⟩, hP⟩
    rcases hk with hk | hk
    · by_cases hw : p.name ∈ W
      · exact ⟨p.withKind .ko, (mem_pokSpec'' F P W _).2
          (Or.inr (Or.inr (Or.inr (Or.inl ⟨p, hp, hk, hw, rfl⟩)))), by simp [Param.withKind]⟩
      · refine ⟨g1 P p, (mem_pokSpec'' F P W _).2 (Or.inl ⟨p, hp, Or.inr hk, hw, rfl⟩), ?_, g1_name P p⟩
        simp [g1, hP, hk]
    · exact ⟨p, (mem_pokSpec'' F P W _).2 (Or.inr (Or.inr (Or.inl ⟨hp, hk⟩))), Or.inr hk, rfl⟩

theorem isNamed_iff (p : Param) : isNamed p = true ↔ p.kind = .po ∨ p.kind = .pk ∨ p.kind = .ko := by
  simp [isNamed, or_assoc]

theorem named_pokSpec' (F : List Param) (P W : List Nat) (hn : NamesDistinct F)
    (h : admissible' F P W) (x : Nat) (d : Option Nat) :
    (∃ p ∈ pokSpec' F P W, isNamed p = true ∧ p.name = x ∧ p.dflt = d) ↔
    (∃ p ∈ F, isNamed p = true ∧ p.name = x ∧ p.dflt = d) := by
  constructor
  · rintro ⟨q, hq, hk, rfl, rfl⟩
    rw [isNamed_iff] at hk
    rcases (mem_pokSpec'' F P W q).1 hq with ⟨p, hp, hpk, -, rfl⟩ | ⟨h1, h2⟩ | ⟨h1, h2⟩ | ⟨p, hp, hpk, hw, rfl⟩ | ⟨h1, h2⟩
    · refine ⟨p, hp, ?_, (g1_name P p).symm, (g1_dflt P p).symm⟩
      rw [isNamed_iff]; rcases hpk with h' | h' <;> simp [h']
    · rw [h2] at hk; rcases hk with hk | hk | hk <;> cases hk
    · exact ⟨q, h1, by rw [isNamed_iff]; simp [h2], rfl, rfl⟩
    · exact ⟨p, hp, by rw [isNamed_iff]; simp [hpk], rfl, rfl⟩
    · rw [h2] at hk; rcases hk with hk | hk | hk <;> cases hk
  · rintro ⟨p, hp, hk, rfl, rfl⟩
    rw [isNamed_iff] at hk
    rcases hk with hk | hk | hk
    · have hw := admissible'_no_po_W hn h p hp hk
      refine ⟨g1 P p, (mem_pokSpec'' F P W _).2 (Or.inl ⟨p, hp, Or.inl hk, hw, rfl⟩), ?_, g1_name P p, g1_dflt P p⟩
      rw [isNamed_iff]
      rcases g1_kind P p (Or.inl hk) with h' | h' <;> simp [h'.1]
    · by_cases hw : p.name ∈ W
      · exact ⟨p.withKind .ko, (mem_pokSpec'' F P W _).2
          (Or.inr (Or.inr (Or.inr (Or.inl ⟨p, hp, hk, hw, rfl⟩)))), by simp [isNamed, Param.withKind],
          by simp [Param.withKind], by simp [Param.withKind]⟩
      · refine ⟨g1 P p, (mem_pokSpec'' F P W _).2 (Or.inl ⟨p, hp, Or.inr hk, hw, rfl⟩), ?_, g1_name P p, g1_dflt P p⟩
        rw [isNamed_iff]
        rcases g1_kind P p (Or.inr hk) with h' | h' <;> simp [h'.1]
    · exact ⟨p, (mem_pokSpec'' F P W _).2 (Or.inr (Or.inr (Or.inl ⟨hp, hk⟩))),
        by rw [isNamed_iff]; simp [hk], rfl, rfl⟩

theorem positionals_filter_W (F : List Param) (P W : List Nat) (hn : NamesDistinct F)
    (h : admissible' F P W) :
    (positionals F).filter (fun p => !W.contains p.name) =
      (positionals F).filter (fun p => !isKwo P W p) := by
  apply List.filter_congr
  intro p hp
  obtain ⟨hp1, hp2⟩ := List.mem_filter.1 hp
  by_cases hw : p.name ∈ W
  · have hP : p.name ∉ P := fun hP => h.1 _ hP hw
    have hk : p.kind = .pk := by
      simp only [isPositional, Bool.or_eq_true, decide_eq_true_eq] at hp2
      rcases hp2 with hk | hk
      · exact absurd hw (admissible'_no_po_W hn h p hp1 hk)
      · exact hk
    simp [isKwo, hw, hP, hk]
  · simp [isKwo, hw]

theorem posNamed_map_g1 (P : List Nat) (l : List Param) (args : List Nat) :
    posNamed (l.map (fun p => if P.contains p.name then p.withKind .po else p)) args = posNamed l args := by
  unfold posNamed
  rw [List.map_map]
  congr 1
  apply List.map_congr_left
  intro p _
  exact g1_name P p

theorem callRel_pokSpec' (F : List Param) (P W : List Nat) (hwf : WF F) (h : admissible' F P W) :
    CallRel F (pokSpec' F P W) P (isKwo P W) := by
  obtain ⟨hs, hn, hdf⟩ := validOk_iff_C12.1 hwf.1
  have hspec := ((admissible_iff F hn h.1).2 h).1
  have hwfA := (pokSpec'_valid F P W hwf hspec.2.1).2
  obtain ⟨-, hnA, -⟩ := validOk_iff_C12.1 hwfA.1
  refine ⟨hn, hnA, hasVa_pokSpec' F P W, hasVk_pokSpec' F P W, kwNames_pokSpec' F P W hn h,
    named_pokSpec' F P W hn h, fun args => ?_, ?_, fun f hf hw => ?_⟩
  · rw [positionals_pokSpec', S1_eq, posNamed_map_g1, positionals_filter_W F P W hn h]
  · rw [positionals_pokSpec', S1_eq, List.length_map, positionals_filter_W F P W hn h]
  · rw [kwNames_pokSpec' F P W hn h, mem_kwNames_C12]
    simp only [isKwo, Bool.and_eq_true, decide_eq_true_eq, Bool.not_eq_true', List.contains_eq_mem,
      decide_eq_false_iff_not] at hw
    exact ⟨⟨f, (List.mem_filter.1 hf).1, Or.inl hw.1.1, rfl⟩, hw.1.2⟩

theorem kwPosFrom_nil_of_not_pk (P W : List Nat) (i : Nat) (l : List Param)
    (h : ∀ p ∈ l, p.kind ≠ .pk) : kwPosFrom P W i l = [] := by
  induction l generalizing i with
  | nil => rfl
  | cons a l ih =>
    have : isKwo P W a = false := by simp [isKwo, h a (by simp)]
    simp only [kwPosFrom, this, Bool.false_eq_true, ↓reduceIte]
    exact ih _ (fun p hp => h p (by simp [hp]))

theorem kwPosFrom_positionals (P W : List Nat) (F : List Param) (hs : RankSorted_C12 F) :
    kwPosFrom P W 0 F = kwPosFrom P W 0 (positionals F) := by
  have h := rankSorted_split_C12 1 F hs
  have e1 : (fun p : Param => decide (p.kind.rank ≤ 1)) = isPositional := by
    funext p; cases hk : p.kind <;> simp [Kind.rank, isPositional, hk]
  rw [e1] at h
  conv => lhs; rw [← h]
  rw [kwPosFrom_append, kwPosFrom_nil_of_not_pk P W _ (F.filter (fun p => 1 < p.kind.rank))]
  · simp [positionals]
  · intro p hp hk
    have := (List.mem_filter.1 hp).2
    simp [hk, Kind.rank] at this

theorem bindCall_none_of_not_callOK (s : List Param) (args : List Nat) (kwargs : List (Nat × Nat))
    (hn : NamesDistinct s) (hk : (kwargs.map (·.1)).Nodup) (h : ¬ callOK s args kwargs) :
    bindCall s args kwargs = none := by
  have := bindCall_isSome_iff s args kwargs hn hk
  cases hb : bindCall s args kwargs with
  | none => rfl
  | some b => rw [hb] at this; exact absurd (this.1 rfl) h

theorem call_exact_main (F : List Param) (P W : List Nat) (args : List Nat)
    (kwargs : List (Nat × Nat)) (hwf : WF F) (hadm : admissible' F P W)
    (hk : (kwargs.map (·.1)).Nodup)
    (hvd : ¬ (hasVk (pokSpec' F P W) = true ∧
      ∃ kv ∈ kwargs, ∃ p ∈ pokSpec' F P W, p.kind = .po ∧ p.name = kv.1)) :
    match decoratedCall F P (kwPosFrom P W 0 F) args kwargs, bindCall (pokSpec' F P W) args kwargs with
    | some b1, some b2 => b1.equiv b2
    | none, none => True
    | _, _ => False := by
  obtain ⟨hs, hn, hdf⟩ := validOk_iff_C12.1 hwf.1
  have R := callRel_pokSpec' F P W hwf hadm
  rw [kwPosFrom_positionals P W F hs]
  by_cases hany : kwargs.any (fun kv => P.contains kv.1) = true
  · -- a keyword names a parameter made positional-only
    have hdec : decoratedCall F P (kwPosFrom P W 0 (positionals F)) args kwargs = none := by
      unfold decoratedCall translateCall
      rw [if_pos hany]
    rw [hdec]
    obtain ⟨kv, hkv, hkvP⟩ := List.any_eq_true.1 hany
    have hkvP : kv.1 ∈ P := by simpa using hkvP
    have hnotok : ¬ callOK (pokSpec' F P W) args kwargs := by
      rintro ⟨-, h2, -⟩
      have hnk : (kwNames (pokSpec' F P W)).contains kv.1 = false := by
        cases hc : (kwNames (pokSpec' F P W)).contains kv.1 with
        | false => rfl
        | true =>
          have := (R.hkw kv.1).1 (by simpa using hc)
          exact absurd hkvP this.2
      have hvk := (h2 kv hkv).2 hnk
      apply hvd
      refine ⟨hvk, kv, hkv, ?_⟩
      obtain ⟨p, hp, hpn, hpk⟩ := hadm.2.1 _ hkvP
      have hw : p.name ∉ W := by rw [hpn]; exact hadm.1 _ hkvP
      refine ⟨g1 P p, (mem_pokSpec'' F P W _).2 (Or.inl ⟨p, hp, hpk, hw, rfl⟩), ?_, ?_⟩
      · simp [g1, hpn, hkvP, Param.withKind]
      · rw [g1_name, hpn]
    rw [bindCall_none_of_not_callOK _ _ _ R.hnA hk hnotok]
    trivial
  · have hnoP : ∀ kv ∈ kwargs, kv.1 ∉ P := by
      intro kv hkv hP
      exact hany (List.any_eq_true.2 ⟨kv, hkv, by simpa using hP⟩)
    by_cases hval : ∀ f ∈ positionals F, isKwo P W f = true →
        ((dget kwargs f.name).or f.dflt).isSome = true
    · have htl := translateLoop_eq (P := P) (W := W) (positionals F) 0 [] args kwargs rfl
        (hn.filter isPositional) hval
      have hdec : decoratedCall F P (kwPosFrom P W 0 (positionals F)) args kwargs =
          bindCall F (trArgs F (isKwo P W) args kwargs) (trKw F (isKwo P W) args kwargs) := by
        unfold decoratedCall translateCall
        rw [if_neg hany]
        simp only [List.nil_append] at htl
        rw [htl]
        simp [trArgs, trKw]
      rw [hdec]
      exact R.compare args kwargs hnoP hval hk
    · have hex : ∃ f ∈ positionals F, isKwo P W f = true ∧ dget kwargs f.name = none ∧ f.dflt = none := by
        apply Classical.byContradiction
        intro hne
        apply hval
        intro f hf hw
        cases h1 : dget kwargs f.name with
        | some v => simp
        | none =>
          cases h2 : f.dflt with
          | some d => simp
          | none => exact absurd ⟨f, hf, hw, h1, h2⟩ hne
      have hmiss := translateLoop_missing (P := P) (W := W) (positionals F) 0 args kwargs [] hex
      have hdec : decoratedCall F P (kwPosFrom P W 0 (positionals F)) args kwargs = none := by
        unfold decoratedCall translateCall
        rw [if_neg hany]
        have : (translateLoop (kwPosFrom P W 0 (positionals F)) args kwargs []).2.2.isEmpty = false := by
          cases h : (translateLoop (kwPosFrom P W 0 (positionals F)) args kwargs []).2.2 with
          | nil => exact absurd h hmiss
          | cons a l => rfl
        simp [this]
      rw [hdec]
      obtain ⟨f, hf, hw, h1, h2⟩ := hex
      have hnotok : ¬ callOK (pokSpec' F P W) args kwargs := by
        rintro ⟨-, -, h3⟩
        have hfw := hw
        simp only [isKwo, Bool.and_eq_true, decide_eq_true_eq, Bool.not_eq_true', List.contains_eq_mem,
          decide_eq_false_iff_not] at hfw
        have hq : f.withKind .ko ∈ (pokSpec' F P W).filter isNamed := by
          refine List.mem_filter.2 ⟨(mem_pokSpec'' F P W _).2
            (Or.inr (Or.inr (Or.inr (Or.inl ⟨f, (List.mem_filter.1 hf).1, hfw.1.1, hfw.2, rfl⟩)))), ?_⟩
          simp [isNamed, Param.withKind]
        have := h3 _ hq
        simp only [Param.withKind, dhas, dget_append, R.posA_none args hf hw, kwPart,
          dget_filter_key _ (fun k => (kwNames (pokSpec' F P W)).contains k), h1, h2] at this
        simp at this
      rw [bindCall_none_of_not_callOK _ _ _ R.hnA hk hnotok]
      trivial

end SV
