/-
  Lemmas/C12Bind.lean — semantic characterisation of `bindCall` (value-level CPython binding).
-/
import Sigverif.Lemmas.C12Valid
namespace SV
set_option linter.unusedSimpArgs false

/-! ### association lists as maps -/

theorem dget_append {α : Type} (a b : List (Nat × α)) (x : Nat) :
    dget (a ++ b) x = (dget a x).or (dget b x) := by
  induction a with
  | nil => simp [dget]
  | cons h t ih =>
    obtain ⟨k, v⟩ := h
    simp only [List.cons_append, dget]
    split <;> simp [ih]

theorem dget_filter_key {α : Type} (d : List (Nat × α)) (c : Nat → Bool) (x : Nat) :
    dget (d.filter (fun kv => c kv.1)) x = if c x then dget d x else none := by
  induction d with
  | nil => simp [dget]
  | cons h t ih =>
    obtain ⟨k, v⟩ := h
    simp only [List.filter_cons]
    by_cases hk : k = x
    · subst hk
      by_cases hc : c k = true
      · simp [hc, dget]
      · simp [hc, dget, ih]
    · by_cases hc : c k = true
      · simp [hc, dget, hk, ih]
      · simp [hc, dget, hk, ih]

theorem dget_isSome_iff {α : Type} (d : List (Nat × α)) (x : Nat) :
    (dget d x).isSome = true ↔ x ∈ d.map (·.1) := by
  induction d with
  | nil => simp [dget]
  | cons h t ih =>
    obtain ⟨k, v⟩ := h
    simp only [dget, List.map_cons, List.mem_cons]
    by_cases hk : k = x
    · simp [hk]
    · simp [hk, ih]; exact fun h => absurd h.symm hk

theorem dget_eq_none_iff {α : Type} (d : List (Nat × α)) (x : Nat) :
    dget d x = none ↔ x ∉ d.map (·.1) := by
  rw [← dget_isSome_iff]; cases dget d x <;> simp

theorem dget_mem {α : Type} (d : List (Nat × α)) (x : Nat) (v : α) (h : dget d x = some v) :
    (x, v) ∈ d := by
  induction d with
  | nil => simp [dget] at h
  | cons hd t ih =>
    obtain ⟨k, w⟩ := hd
    simp only [dget] at h
    split at h
    · cases h; subst_vars; simp
    · simp [ih h]

/-! ### positional phase -/

def posNamed (ps : List Param) (args : List Nat) : List (Nat × Nat) := (ps.map (·.name)).zip args

theorem bindPos_eq (ps : List Param) (args : List Nat) (acc : List (Nat × Nat)) :
    bindPos ps args acc = (acc ++ posNamed ps args, args.drop ps.length) := by
  induction ps generalizing args acc with
  | nil => simp [bindPos, posNamed]
  | cons p ps ih =>
    cases args with
    | nil => simp [bindPos, posNamed]
    | cons a as => simp [bindPos, posNamed, ih]

/-! ### keyword phase -/

theorem dhas_append_single (named : List (Nat × Nat)) (k v x : Nat) (h : k ≠ x) :
    dhas (named ++ [(k, v)]) x = dhas named x := by
  simp [dhas, dget_append, dget, h]

theorem bindKws_some_iff (s : List Param) (vk : Bool) (kws named extra : List (Nat × Nat))
    (hnd : (kws.map (·.1)).Nodup) (r : List (Nat × Nat) × List (Nat × Nat)) :
    bindKws s vk kws named extra = some r ↔
      (∀ kv ∈ kws, ((kwNames s).contains kv.1 = true → dhas named kv.1 = false) ∧
                   ((kwNames s).contains kv.1 = false → vk = true)) ∧
      r = (named ++ kws.filter (fun kv => (kwNames s).contains kv.1),
           extra ++ kws.filter (fun kv => !(kwNames s).contains kv.1)) := by
  induction kws generalizing named extra with
  | nil =>
    simp only [bindKws, List.not_mem_nil, false_implies, implies_true, List.filter_nil,
      List.append_nil, true_and, Option.some.injEq]
    exact eq_comm
  | cons h t ih =>
    obtain ⟨k, v⟩ := h
    simp only [List.map_cons, List.nodup_cons] at hnd
    simp only [bindKws, List.forall_mem_cons, List.filter_cons]
    by_cases hc : (kwNames s).contains k = true
    · simp only [hc, ↓reduceIte, true_implies, Bool.true_eq_false, false_implies, and_true,
        Bool.not_true, Bool.false_eq_true]
      by_cases hd : dhas named k = true
      · simp [hd]
      · simp only [hd, Bool.false_eq_true, ↓reduceIte]
        rw [ih _ _ hnd.2]
        have : ∀ kv ∈ t, dhas (named ++ [(k, v)]) kv.1 = dhas named kv.1 := by
          intro kv hkv
          apply dhas_append_single
          rintro rfl
          exact hnd.1 (List.mem_map.2 ⟨kv, hkv, rfl⟩)
        simp only [List.append_assoc, List.singleton_append]
        constructor
        · rintro ⟨h1, h2⟩
          exact ⟨⟨trivial, fun kv hkv => by rw [← this kv hkv]; exact h1 kv hkv⟩, h2⟩
        · rintro ⟨⟨-, h1⟩, h2⟩
          exact ⟨fun kv hkv => by rw [this kv hkv]; exact h1 kv hkv, h2⟩
    · simp only [hc, Bool.false_eq_true, ↓reduceIte, false_implies, true_implies, true_and,
        Bool.not_false]
      by_cases hv : vk = true
      · subst hv
        simp only [↓reduceIte, true_and]
        rw [ih _ _ hnd.2]
        simp
      · simp [hv]

/-! ### defaults phase -/

def dfltOf (ps : List Param) (x : Nat) : Option Nat := (ps.find? (fun p => p.name = x)).bind (·.dflt)

theorem fillDefaults_dget (ps : List Param) (named r : List (Nat × Nat))
    (h : fillDefaults ps named = some r) (x : Nat) :
    dget r x = (dget named x).or (dfltOf ps x) := by
  induction ps generalizing named with
  | nil => simp [fillDefaults] at h; subst h; simp [dfltOf]
  | cons p ps ih =>
    simp only [fillDefaults] at h
    by_cases hd : dhas named p.name = true
    · simp only [hd, ↓reduceIte] at h
      rw [ih _ h]
      by_cases hx : p.name = x
      · subst hx
        simp only [dhas] at hd
        cases hg : dget named p.name with
        | none => simp [hg] at hd
        | some v => simp
      · simp [dfltOf, List.find?_cons, hx]
    · simp only [hd, Bool.false_eq_true, ↓reduceIte] at h
      cases hdf : p.dflt with
      | none => simp [hdf] at h
      | some d =>
        simp only [hdf] at h
        rw [ih _ h, dget_append]
        have hn : dget named p.name = none := by
          simp only [dhas] at hd; cases hg : dget named p.name <;> simp_all
        by_cases hx : p.name = x
        · subst hx
          simp [hn, dget, dfltOf, hdf]
        · simp [dget, hx, dfltOf, List.find?_cons]

theorem fillDefaults_isSome_iff (ps : List Param) (named : List (Nat × Nat)) (hn : NamesDistinct ps) :
    (fillDefaults ps named).isSome = true ↔
      ∀ p ∈ ps, dhas named p.name = true ∨ p.dflt.isSome = true := by
  induction ps generalizing named with
  | nil => simp [fillDefaults]
  | cons p ps ih =>
    simp only [NamesDistinct, List.pairwise_cons] at hn
    simp only [fillDefaults, List.forall_mem_cons]
    by_cases hd : dhas named p.name = true
    · simp [hd, ih _ hn.2]
    · simp only [hd, Bool.false_eq_true, ↓reduceIte, false_or]
      cases hdf : p.dflt with
      | none => simp
      | some d =>
        simp only [Option.isSome_some, true_and]
        rw [ih _ hn.2]
        have : ∀ q ∈ ps, dhas (named ++ [(p.name, d)]) q.name = dhas named q.name := by
          intro q hq; exact dhas_append_single _ _ _ _ (hn.1 q hq)
        constructor
        · intro h q hq; rw [← this q hq]; exact h q hq
        · intro h q hq; rw [this q hq]; exact h q hq

/-! ### the whole call -/

def kwPart (s : List Param) (kwargs : List (Nat × Nat)) : List (Nat × Nat) :=
  kwargs.filter (fun kv => (kwNames s).contains kv.1)
def extraPart (s : List Param) (kwargs : List (Nat × Nat)) : List (Nat × Nat) :=
  kwargs.filter (fun kv => !(kwNames s).contains kv.1)

def callOK (s : List Param) (args : List Nat) (kwargs : List (Nat × Nat)) : Prop :=
  (args.length ≤ (positionals s).length ∨ hasVa s = true) ∧
  (∀ kv ∈ kwargs,
    ((kwNames s).contains kv.1 = true → dhas (posNamed (positionals s) args) kv.1 = false) ∧
    ((kwNames s).contains kv.1 = false → hasVk s = true)) ∧
  (∀ p ∈ s.filter isNamed,
    dhas (posNamed (positionals s) args ++ kwPart s kwargs) p.name = true ∨ p.dflt.isSome = true)

def callMap (s : List Param) (args : List Nat) (kwargs : List (Nat × Nat)) (x : Nat) : Option Nat :=
  (dget (posNamed (positionals s) args ++ kwPart s kwargs) x).or (dfltOf (s.filter isNamed) x)

theorem bindCall_eq (s : List Param) (args : List Nat) (kwargs : List (Nat × Nat)) :
    bindCall s args kwargs =
      if (!(args.drop (positionals s).length).isEmpty && !hasVa s) = true then none else
      match bindKws s (hasVk s) kwargs (posNamed (positionals s) args) [] with
      | none => none
      | some (named, extra) =>
        match fillDefaults (s.filter isNamed) named with
        | none => none
        | some named =>
          some { named := named,
                 va := if hasVa s then some (args.drop (positionals s).length) else none,
                 vk := if hasVk s then some extra else none } := by
  simp only [bindCall, bindPos_eq, List.nil_append]
  rfl

theorem NamesDistinct.filter {l : List Param} (h : NamesDistinct l) (c : Param → Bool) :
    NamesDistinct (l.filter c) := List.Pairwise.filter c h

theorem surplus_cond (s : List Param) (args : List Nat) :
    (!(args.drop (positionals s).length).isEmpty && !hasVa s) = true ↔
      ¬ (args.length ≤ (positionals s).length ∨ hasVa s = true) := by
  simp [List.isEmpty_iff, List.drop_eq_nil_iff]

theorem bindCall_isSome_iff (s : List Param) (args : List Nat) (kwargs : List (Nat × Nat))
    (hn : NamesDistinct s) (hk : (kwargs.map (·.1)).Nodup) :
    (bindCall s args kwargs).isSome = true ↔ callOK s args kwargs := by
  rw [bindCall_eq]
  unfold callOK
  by_cases h1 : (args.length ≤ (positionals s).length ∨ hasVa s = true)
  · have h1' : ¬ (!(args.drop (positionals s).length).isEmpty && !hasVa s) = true := by
      rw [surplus_cond]; exact fun h => h h1
    rw [if_neg h1']
    cases hb : bindKws s (hasVk s) kwargs (posNamed (positionals s) args) [] with
    | none =>
      simp only [Option.isSome_none, Bool.false_eq_true, false_iff]
      rintro ⟨-, h2, -⟩
      have := (bindKws_some_iff s (hasVk s) kwargs (posNamed (positionals s) args) [] hk _).2 ⟨h2, rfl⟩
      rw [hb] at this; cases this
    | some r =>
      obtain ⟨h2, rfl⟩ := (bindKws_some_iff s (hasVk s) kwargs _ [] hk r).1 hb
      have := fillDefaults_isSome_iff (s.filter isNamed)
        (posNamed (positionals s) args ++ kwPart s kwargs) (hn.filter _)
      simp only
      constructor
      · intro h
        refine ⟨h1, h2, this.1 ?_⟩
        revert h
        simp only [kwPart]
        cases fillDefaults (s.filter isNamed) (posNamed (positionals s) args ++
          kwargs.filter (fun kv => (kwNames s).contains kv.1)) <;> simp
      · rintro ⟨-, -, h3⟩
        have h4 := this.2 h3
        revert h4
        simp only [kwPart]
        cases fillDefaults (s.filter isNamed) (posNamed (positionals s) args ++
          kwargs.filter (fun kv => (kwNames s).contains kv.1)) <;> simp
  · have h1' : (!(args.drop (positionals s).length).isEmpty && !hasVa s) = true := by
      rw [surplus_cond]; exact h1
    simp [h1', h1]

theorem bindCall_some_spec (s : List Param) (args : List Nat) (kwargs : List (Nat × Nat))
    (hk : (kwargs.map (·.1)).Nodup) (b : Bound) (h : bindCall s args kwargs = some b) :
    (∀ x, dget b.named x = callMap s args kwargs x) ∧
    b.va = (if hasVa s then some (args.drop (positionals s).length) else none) ∧
    b.vk = (if hasVk s then some (extraPart s kwargs) else none) := by
  rw [bindCall_eq] at h
  split at h
  · cases h
  · cases hb : bindKws s (hasVk s) kwargs (posNamed (positionals s) args) [] with
    | none => rw [hb] at h; cases h
    | some r =>
      obtain ⟨h2, rfl⟩ := (bindKws_some_iff s (hasVk s) kwargs _ [] hk r).1 hb
      rw [hb] at h
      simp only at h
      cases hf : fillDefaults (s.filter isNamed) (posNamed (positionals s) args ++
        kwargs.filter (fun kv => (kwNames s).contains kv.1)) with
      | none => rw [hf] at h; cases h
      | some nm =>
        rw [hf] at h
        simp only [Option.some.injEq] at h
        subst h
        refine ⟨fun x => ?_, rfl, by simp [extraPart]⟩
        simp only [callMap, kwPart]
        exact fillDefaults_dget _ _ _ hf x

end SV
