/-
  Lemmas/C05FlatSim.lean — the visitor simulates the ground truth on flat bodies (no nested
  function, no `nonlocal`): statement by statement, the namespace of the main function tracks
  exactly the taint flags of `truthS`, and the forwarding records are the ground-truth calls.
-/
import Sigverif.Lemmas.C05Flat
import Sigverif.Lemmas.SrcDict
namespace SV
namespace Flat
variable {kids : List NS} {rev : List (Tree × Nat)}
set_option linter.unusedSimpArgs false
set_option linter.unusedVariables false

mutual
  /-- names a statement assigns to (assignment targets, `x = const`) -/
  def assignedS : Stmt → List Nat
    | .fwd _ _ _ _ _ target => target.toList
    | .unrelated x => [x]
    | .block body => assignedSL body
    | _ => []
  def assignedSL : StmtList → List Nat
    | .nil => []
    | .cons s rest => assignedS s ++ assignedSL rest
end

mutual
  /-- root names of the callee expressions of the forwarding calls -/
  def rootsS : Stmt → List Nat
    | .fwd callee _ _ _ _ _ => (calleeRoot callee).toList
    | .block body => rootsSL body
    | _ => []
  def rootsSL : StmtList → List Nat
    | .nil => []
    | .cons s rest => rootsS s ++ rootsSL rest
end

mutual
  /-- no nested function definition, no `nonlocal` -/
  def flatS : Stmt → Bool
    | .nested _ => false
    | .nonlocalRebind _ => false
    | .block body => flatSL body
    | _ => true
  def flatSL : StmtList → Bool
    | .nil => true
    | .cons s rest => flatS s && flatSL rest
end

/-- the namespace of the main function agrees with the taint flags of the ground truth -/
structure FInv (p : Prog) (roots : List Nat) (tA tK : Bool) (n : List (Nat × Entry)) (i : List Nat) : Prop where
  vaP : tA = false → dget n p.va = some { m := .arg p.va (some .va), tainted := false } ∧ i.contains p.va = true
  vaT : tA = true → ∃ e, dget n p.va = some e ∧ ((e.tainted = true ∧ e.m = .arg p.va (some .va)) ∨ e.m = .unknown)
  vkP : tK = false → dget n p.vk = some { m := .arg p.vk (some .vk), tainted := false }
  vkT : tK = true → ∃ e, dget n p.vk = some e ∧ ((e.tainted = true ∧ e.m = .arg p.vk (some .vk)) ∨ e.m = .unknown)
  par : ∀ x ∈ p.params, ∃ e, dget n x = some e ∧ e.m = .arg x none
  glob : ∀ r ∈ roots, r ∉ p.params → dget n r = none
  /-- no namespace entry is an Attribute marker (entries are written by `visit_Name` / `process_parameters` only) -/
  flatm : ∀ x e, dget n x = some e → ∀ v a, e.m ≠ .attr v a
  /-- only `*args` is ever immutable -/
  immOnly : ∀ x, i.contains x = true → x = p.va

/-- the static conditions on a program: star names apart from everything, assigned names apart
    from callee roots and parameters -/
structure Clean (p : Prog) (roots assigned : List Nat) : Prop where
  ne : p.va ≠ p.vk
  vaPar : p.va ∉ p.params
  vkPar : p.vk ∉ p.params
  vaRoot : p.va ∉ roots
  vkRoot : p.vk ∉ roots
  asg : ∀ x ∈ assigned, x ≠ p.va ∧ x ≠ p.vk ∧ x ∉ p.params ∧ x ∉ roots

theorem starFound_pristine {n : List (Nat × Entry)} {x : Nat} {m : RM}
    (h : dget n x = some { m := m, tainted := false }) : starFound n x = m := by
  simp [starFound, h]

theorem starFound_tainted {n : List (Nat × Entry)} {x : Nat} {e : Entry} {mm : RM}
    (h : dget n x = some e) (ht : (e.tainted = true ∧ e.m = mm) ∨ e.m = .unknown) : starFound n x = .unknown := by
  simp only [starFound, h]
  rcases ht with ⟨ht, _⟩ | ht
  · simp [ht]
  · split
    · rfl
    · exact ht

/-- assigning `unknown` to a name other than the stars, the parameters and the roots keeps the invariant -/
theorem FInv.assign_other {p : Prog} {roots : List Nat} {tA tK : Bool} {n : List (Nat × Entry)} {i : List Nat}
    (h : FInv p roots tA tK n i) (x : Nat) (hva : x ≠ p.va) (hvk : x ≠ p.vk) (hpar : x ∉ p.params)
    (hroot : x ∉ roots) (e : Entry) (hem : e.m = .unknown) :
    FInv p roots tA tK (dset n x e) (i.filter (· ≠ x)) := by
  have dne : ∀ y, y ≠ x → dget (dset n x e) y = dget n y := by
    intro y hy; rw [dget_dset]; simp [hy]
  have hfl : e.m = .unknown := hem
  refine ⟨?_, ?_, ?_, ?_, ?_, ?_, ?_, ?_⟩
  rotate_left 6
  · intro y e' hy v a
    rw [dget_dset] at hy
    split at hy
    · cases hy; rw [hfl]; intro hh; cases hh
    · exact h.flatm y e' hy v a
  · intro y hy
    simp only [List.contains_iff_mem, List.mem_filter] at hy
    exact h.immOnly y (by simpa using hy.1)
  · intro ht
    obtain ⟨a, b⟩ := h.vaP ht
    refine ⟨by rw [dne _ (Ne.symm hva)]; exact a, ?_⟩
    simp only [List.contains_iff_mem, List.mem_filter, ne_eq, decide_eq_true_eq] at b ⊢
    exact ⟨b, fun e => hva e.symm⟩
  · intro ht
    obtain ⟨e', a, b⟩ := h.vaT ht
    exact ⟨e', by rw [dne _ (Ne.symm hva)]; exact a, b⟩
  · intro ht; rw [dne _ (Ne.symm hvk)]; exact h.vkP ht
  · intro ht
    obtain ⟨e', a, b⟩ := h.vkT ht
    exact ⟨e', by rw [dne _ (Ne.symm hvk)]; exact a, b⟩
  · intro y hy
    obtain ⟨e', a, b⟩ := h.par y hy
    have : y ≠ x := fun e => hpar (e ▸ hy)
    exact ⟨e', by rw [dne _ this]; exact a, b⟩
  · intro r hr hrp
    have : r ≠ x := fun e => hroot (e ▸ hr)
    rw [dne _ this]; exact h.glob r hr hrp

/-- tainting star `A` (rebinding / deleting it: the entry becomes `unknown`) -/
theorem FInv.kill_va {p : Prog} {roots : List Nat} {tA tK : Bool} {n : List (Nat × Entry)} {i : List Nat}
    {A : List Nat} (h : FInv p roots tA tK n i) (c : Clean p roots A) :
    FInv p roots true tK (dset n p.va { m := .unknown }) (i.filter (· ≠ p.va)) := by
  have dne : ∀ y, y ≠ p.va → dget (dset n p.va { m := RM.unknown }) y = dget n y := by
    intro y hy; rw [dget_dset]; simp [hy]
  refine ⟨(by intro ht; cases ht), ?_, ?_, ?_, ?_, ?_, ?_, ?_⟩
  rotate_left 5
  · intro y e' hy v a
    rw [dget_dset] at hy
    split at hy
    · cases hy; intro hh; cases hh
    · exact h.flatm y e' hy v a
  · intro y hy
    simp only [List.contains_iff_mem, List.mem_filter] at hy
    exact h.immOnly y (by simpa using hy.1)
  · intro _; exact ⟨{ m := .unknown }, by rw [dget_dset]; simp, .inr rfl⟩
  · intro ht; rw [dne _ (Ne.symm c.ne)]; exact h.vkP ht
  · intro ht
    obtain ⟨e', a, b⟩ := h.vkT ht
    exact ⟨e', by rw [dne _ (Ne.symm c.ne)]; exact a, b⟩
  · intro y hy
    obtain ⟨e', a, b⟩ := h.par y hy
    have : y ≠ p.va := fun e => c.vaPar (e ▸ hy)
    exact ⟨e', by rw [dne _ this]; exact a, b⟩
  · intro r hr hrp
    have : r ≠ p.va := fun e => c.vaRoot (e ▸ hr)
    rw [dne _ this]; exact h.glob r hr hrp

theorem FInv.kill_vk {p : Prog} {roots : List Nat} {tA tK : Bool} {n : List (Nat × Entry)} {i : List Nat}
    {A : List Nat} (h : FInv p roots tA tK n i) (c : Clean p roots A) :
    FInv p roots tA true (dset n p.vk { m := .unknown }) (i.filter (· ≠ p.vk)) := by
  have dne : ∀ y, y ≠ p.vk → dget (dset n p.vk { m := RM.unknown }) y = dget n y := by
    intro y hy; rw [dget_dset]; simp [hy]
  refine ⟨?_, ?_, (by intro ht; cases ht), ?_, ?_, ?_, ?_, ?_⟩
  rotate_left 5
  · intro y e' hy v a
    rw [dget_dset] at hy
    split at hy
    · cases hy; intro hh; cases hh
    · exact h.flatm y e' hy v a
  · intro y hy
    simp only [List.contains_iff_mem, List.mem_filter] at hy
    exact h.immOnly y (by simpa using hy.1)
  · intro ht
    obtain ⟨a, b⟩ := h.vaP ht
    refine ⟨by rw [dne _ c.ne]; exact a, ?_⟩
    simp only [List.contains_iff_mem, List.mem_filter, ne_eq, decide_eq_true_eq] at b ⊢
    exact ⟨b, c.ne⟩
  · intro ht
    obtain ⟨e', a, b⟩ := h.vaT ht
    exact ⟨e', by rw [dne _ c.ne]; exact a, b⟩
  · intro _; exact ⟨{ m := .unknown }, by rw [dget_dset]; simp, .inr rfl⟩
  · intro y hy
    obtain ⟨e', a, b⟩ := h.par y hy
    have : y ≠ p.vk := fun e => c.vkPar (e ▸ hy)
    exact ⟨e', by rw [dne _ this]; exact a, b⟩
  · intro r hr hrp
    have : r ≠ p.vk := fun e => c.vkRoot (e ▸ hr)
    rw [dne _ this]; exact h.glob r hr hrp

/-- setting the `tainted` flag of the entry of a name keeps every `m` and only taints that name -/
theorem dget_taintEntry (n : List (Nat × Entry)) (x : Nat) (e : Entry) (y : Nat) (he : dget n x = some e) :
    dget (dset n x { e with tainted := true }) y =
      if y = x then some { e with tainted := true } else dget n y := by
  rw [dget_dset]

end Flat
end SV

namespace SV
namespace Flat
variable {kids : List NS} {rev : List (Tree × Nat)}
set_option linter.unusedSimpArgs false
set_option linter.unusedVariables false

/-- setting the `tainted` flag of one entry whose name is neither star keeps the invariant
    (a parameter used as callee through an attribute: `cb.method(*args)`) -/
theorem FInv.taint_other {p : Prog} {roots : List Nat} {tA tK : Bool} {n : List (Nat × Entry)} {i : List Nat}
    (h : FInv p roots tA tK n i) (x : Nat) (e : Entry) (he : dget n x = some e)
    (hva : x ≠ p.va) (hvk : x ≠ p.vk) :
    FInv p roots tA tK (dset n x { e with tainted := true }) i := by
  have dne : ∀ y, y ≠ x → dget (dset n x { e with tainted := true }) y = dget n y := by
    intro y hy; rw [dget_dset]; simp [hy]
  refine ⟨?_, ?_, ?_, ?_, ?_, ?_, ?_, h.immOnly⟩
  · intro ht
    obtain ⟨a, b⟩ := h.vaP ht
    exact ⟨by rw [dne _ (Ne.symm hva)]; exact a, b⟩
  · intro ht
    obtain ⟨e', a, b⟩ := h.vaT ht
    exact ⟨e', by rw [dne _ (Ne.symm hva)]; exact a, b⟩
  · intro ht; rw [dne _ (Ne.symm hvk)]; exact h.vkP ht
  · intro ht
    obtain ⟨e', a, b⟩ := h.vkT ht
    exact ⟨e', by rw [dne _ (Ne.symm hvk)]; exact a, b⟩
  · intro y hy
    by_cases hyx : y = x
    · subst hyx
      obtain ⟨e', a, b⟩ := h.par y hy
      rw [he] at a; cases a
      exact ⟨{ e with tainted := true }, by rw [dget_dset]; simp, b⟩
    · obtain ⟨e', a, b⟩ := h.par y hy
      exact ⟨e', by rw [dne _ hyx]; exact a, b⟩
  · intro r hr hrp
    by_cases hrx : r = x
    · subst hrx
      rw [h.glob r hr hrp] at he; cases he
    · rw [dne _ hrx]; exact h.glob r hr hrp
  · intro y e' hy v a
    rw [dget_dset] at hy
    split at hy
    · cases hy; exact h.flatm x e he v a
    · exact h.flatm y e' hy v a

/-- tainting a star through its own entry (`args.count(..)`, `kwargs.pop(..)`) -/
theorem FInv.taint_va {p : Prog} {roots A : List Nat} {tA tK : Bool} {n : List (Nat × Entry)} {i : List Nat}
    (h : FInv p roots tA tK n i) (c : Clean p roots A) (e : Entry) (he : dget n p.va = some e)
    (hem : e.m = .arg p.va (some .va)) :
    FInv p roots true tK (dset n p.va { e with tainted := true }) i := by
  have dne : ∀ y, y ≠ p.va → dget (dset n p.va { e with tainted := true }) y = dget n y := by
    intro y hy; rw [dget_dset]; simp [hy]
  refine ⟨(by intro ht; cases ht), ?_, ?_, ?_, ?_, ?_, ?_, h.immOnly⟩
  · intro _; exact ⟨{ e with tainted := true }, by rw [dget_dset]; simp, .inl ⟨rfl, hem⟩⟩
  · intro ht; rw [dne _ (Ne.symm c.ne)]; exact h.vkP ht
  · intro ht
    obtain ⟨e', a, b⟩ := h.vkT ht
    exact ⟨e', by rw [dne _ (Ne.symm c.ne)]; exact a, b⟩
  · intro y hy
    obtain ⟨e', a, b⟩ := h.par y hy
    have : y ≠ p.va := fun e => c.vaPar (e ▸ hy)
    exact ⟨e', by rw [dne _ this]; exact a, b⟩
  · intro r hr hrp
    have : r ≠ p.va := fun e => c.vaRoot (e ▸ hr)
    rw [dne _ this]; exact h.glob r hr hrp
  · intro y e' hy v a
    rw [dget_dset] at hy
    split at hy
    · cases hy; exact h.flatm p.va e he v a
    · exact h.flatm y e' hy v a

theorem FInv.taint_vk {p : Prog} {roots A : List Nat} {tA tK : Bool} {n : List (Nat × Entry)} {i : List Nat}
    (h : FInv p roots tA tK n i) (c : Clean p roots A) (e : Entry) (he : dget n p.vk = some e)
    (hem : e.m = .arg p.vk (some .vk)) :
    FInv p roots tA true (dset n p.vk { e with tainted := true }) i := by
  have dne : ∀ y, y ≠ p.vk → dget (dset n p.vk { e with tainted := true }) y = dget n y := by
    intro y hy; rw [dget_dset]; simp [hy]
  refine ⟨?_, ?_, (by intro ht; cases ht), ?_, ?_, ?_, ?_, h.immOnly⟩
  · intro ht
    obtain ⟨a, b⟩ := h.vaP ht
    exact ⟨by rw [dne _ c.ne]; exact a, b⟩
  · intro ht
    obtain ⟨e', a, b⟩ := h.vaT ht
    exact ⟨e', by rw [dne _ c.ne]; exact a, b⟩
  · intro _; exact ⟨{ e with tainted := true }, by rw [dget_dset]; simp, .inl ⟨rfl, hem⟩⟩
  · intro y hy
    obtain ⟨e', a, b⟩ := h.par y hy
    have : y ≠ p.vk := fun e => c.vkPar (e ▸ hy)
    exact ⟨e', by rw [dne _ this]; exact a, b⟩
  · intro r hr hrp
    have : r ≠ p.vk := fun e => c.vkRoot (e ▸ hr)
    rw [dne _ this]; exact h.glob r hr hrp
  · intro y e' hy v a
    rw [dget_dset] at hy
    split at hy
    · cases hy; exact h.flatm p.vk e he v a
    · exact h.flatm y e' hy v a

/-- weakening the flags: a tainted star stays described when the flag was already set -/
theorem FInv.flags_eq {p : Prog} {roots : List Nat} {tA tK tA' tK' : Bool} {n : List (Nat × Entry)} {i : List Nat}
    (h : FInv p roots tA tK n i) (ha : tA' = tA) (hk : tK' = tK) : FInv p roots tA' tK' n i := by
  subst ha hk; exact h

/-! ### markers of callee expressions -/

theorem instance_attr (v : RM) (a : Nat) : (RM.attr v a).instance = v.instance := rfl

/-- the innermost marker of a callee expression is the marker of its root name -/
theorem markerIn_instance (n : List (Nat × Entry)) :
    (t : Tree) → isCalleeTree t = true → ∀ r, calleeRoot t = some r →
      (∀ e, dget n r = some e → ∀ v a, e.m ≠ .attr v a) →
      (markerIn n t).instance = (match dget n r with | some e => e.m | none => .nm r)
  | .name id ctx, _, r, hr, hf => by
    simp only [calleeRoot, Option.some.injEq] at hr
    subst hr
    simp only [markerIn]
    cases hd : dget n id with
    | none => rfl
    | some e =>
      simp only
      have := hf e hd
      cases hm : e.m with
      | attr v a => exact absurd hm (this v a)
      | _ => rfl
  | .attr v a, ht, r, hr, hf => by
    have hv : isCalleeTree v = true := by cases v <;> simp_all [isCalleeTree]
    simp only [calleeRoot] at hr
    simp only [markerIn, instance_attr]
    exact markerIn_instance n v hv r hr hf
  | .call _ _ _, ht, _, _, _ => by simp [isCalleeTree] at ht
  | .fdef _ _ _ _ _ _, ht, _, _, _ => by simp [isCalleeTree] at ht
  | .nonloc _, ht, _, _, _ => by simp [isCalleeTree] at ht
  | .other _, ht, _, _, _ => by simp [isCalleeTree] at ht

theorem calleeRoot_some : (t : Tree) → isCalleeTree t = true → ∃ r, calleeRoot t = some r
  | .name id ctx, _ => ⟨id, rfl⟩
  | .attr v a, ht => by
    have hv : isCalleeTree v = true := by cases v <;> simp_all [isCalleeTree]
    obtain ⟨r, hr⟩ := calleeRoot_some v hv
    exact ⟨r, by simp [calleeRoot, hr]⟩
  | .call _ _ _, ht => by simp [isCalleeTree] at ht
  | .fdef _ _ _ _ _ _, ht => by simp [isCalleeTree] at ht
  | .nonloc _, ht => by simp [isCalleeTree] at ht
  | .other _, ht => by simp [isCalleeTree] at ht

/-- in a state satisfying the invariant a callee expression resolves to the marker the ground truth expects -/
theorem markerIn_eq_calleeMarker {p : Prog} {roots : List Nat} {tA tK : Bool} {n : List (Nat × Entry)} {i : List Nat}
    (h : FInv p roots tA tK n i) :
    (t : Tree) → isCalleeTree t = true → (∀ r, calleeRoot t = some r → r ∈ roots) →
      markerIn n t = calleeMarker p.params t
  | .name id ctx, _, hr => by
    simp only [markerIn, calleeMarker]
    by_cases hp : id ∈ p.params
    · obtain ⟨e, he, hm⟩ := h.par id hp
      simp [he, hm, hp]
    · have := h.glob id (hr id rfl) hp
      simp [this, hp]
  | .attr v a, ht, hr => by
    have hv : isCalleeTree v = true := by cases v <;> simp_all [isCalleeTree]
    simp only [markerIn, calleeMarker]
    rw [markerIn_eq_calleeMarker h v hv (fun r hrv => hr r (by simpa [calleeRoot] using hrv))]
  | .call _ _ _, ht, _ => by simp [isCalleeTree] at ht
  | .fdef _ _ _ _ _ _, ht, _ => by simp [isCalleeTree] at ht
  | .nonloc _, ht, _ => by simp [isCalleeTree] at ht
  | .other _, ht, _ => by simp [isCalleeTree] at ht

/-- the `tainted` bookkeeping of a call on a callee whose root is not a star keeps the invariant -/
theorem FInv.taintCallee_other {p : Prog} {roots A : List Nat} {tA tK : Bool} {n : List (Nat × Entry)} {i : List Nat}
    (h : FInv p roots tA tK n i) (c : Clean p roots A) (t : Tree) (ht : isCalleeTree t = true)
    (hr : ∀ r, calleeRoot t = some r → r ∈ roots) :
    FInv p roots tA tK (taintCallee n (markerIn n t)) i ∧
      dget (taintCallee n (markerIn n t)) p.va = dget n p.va ∧
      dget (taintCallee n (markerIn n t)) p.vk = dget n p.vk := by
  obtain ⟨r, hroot⟩ := calleeRoot_some t ht
  have hrr := hr r hroot
  have hrva : r ≠ p.va := fun e => c.vaRoot (e ▸ hrr)
  have hrvk : r ≠ p.vk := fun e => c.vkRoot (e ▸ hrr)
  have hinst := markerIn_instance n t ht r hroot (fun e he => h.flatm r e he)
  unfold taintCallee
  cases hm : markerIn n t with
  | attr v a =>
    simp only
    rw [hm] at hinst
    by_cases hp : r ∈ p.params
    · obtain ⟨e, he, hem⟩ := h.par r hp
      rw [he] at hinst
      simp only at hinst
      rw [hinst, hem]
      simp only [he]
      refine ⟨h.taint_other r e he hrva hrvk, ?_, ?_⟩
      · rw [dget_dset]; simp [Ne.symm hrva]
      · rw [dget_dset]; simp [Ne.symm hrvk]
    · have hg := h.glob r hrr hp
      rw [hg] at hinst
      simp only at hinst
      rw [hinst]
      exact ⟨h, rfl, rfl⟩
  | _ => exact ⟨h, rfl, rfl⟩

end Flat
end SV

namespace SV
namespace Flat
variable {kids : List NS} {rev : List (Tree × Nat)}
set_option linter.unusedSimpArgs false
set_option linter.unusedVariables false

theorem visit_other_one (t : Tree) (st : VState) : visit false (.other (.cons t .nil)) st = visit false t st := by
  simp [visit, visitList]

theorem visit_other_two (t u : Tree) (st : VState) :
    visit false (.other (.cons t (.cons u .nil))) st = visit false u (visit false t st) := by
  simp [visit, visitList]

theorem visit_name_mk (x : Nat) (ctx : Ctx) (n : List (Nat × Entry)) (i : List Nat) (c : List CallRec) :
    visit false (.name x ctx) (mk kids rev n i c) = visitName (mk kids rev n i c) x ctx := by
  simp [visit]

/-- what the star marker reads as, under the invariant -/
theorem starFound_va {p : Prog} {roots : List Nat} {tA tK : Bool} {n : List (Nat × Entry)} {i : List Nat}
    (h : FInv p roots tA tK n i) :
    starFound n p.va = if tA then .unknown else .arg p.va (some .va) := by
  cases tA with
  | false => exact starFound_pristine (h.vaP rfl).1
  | true =>
    obtain ⟨e, he, ht⟩ := h.vaT rfl
    exact starFound_tainted he ht

theorem starFound_vk {p : Prog} {roots : List Nat} {tA tK : Bool} {n : List (Nat × Entry)} {i : List Nat}
    (h : FInv p roots tA tK n i) :
    starFound n p.vk = if tK then .unknown else .arg p.vk (some .vk) := by
  cases tK with
  | false => exact starFound_pristine (h.vkP rfl)
  | true =>
    obtain ⟨e, he, ht⟩ := h.vkT rfl
    exact starFound_tainted he ht

/-- **a forwarding-call statement**: the namespace keeps describing the same taint flags, and the
    record appended is the ground-truth call when it forwards a pristine star (and is not a
    forwarding record otherwise) -/
theorem sim_fwd (p : Prog) (roots A : List Nat) (c : Clean p roots A)
    (callee : Tree) (npos : Nat) (kws : List Nat) (uva uvk : Bool) (target : Option Nat)
    (hc : isCalleeTree callee = true) (hroot : ∀ r, calleeRoot callee = some r → r ∈ roots)
    (htgt : ∀ x, target = some x → x ∈ A)
    (tA tK : Bool) (n : List (Nat × Entry)) (i : List Nat) (cs : List CallRec) (h : FInv p roots tA tK n i) :
    ∃ n' i' recs, visit false (renderS p.va p.vk (.fwd callee npos kws uva uvk target)) (mk kids rev n i cs) =
        mk kids rev n' i' (cs ++ recs) ∧ FInv p roots tA tK n' i' ∧
      forwarding recs = (mkFwd callee npos kws uva uvk tA tK).map (FwdCall.toRec p) := by
  -- the assignment target (if any) is visited first
  have step1 : ∃ n1 i1, FInv p roots tA tK n1 i1 ∧
      visit false (renderS p.va p.vk (.fwd callee npos kws uva uvk target)) (mk kids rev n i cs) =
        visit false (callTree p.va p.vk callee npos kws uva uvk) (mk kids rev n1 i1 cs) := by
    cases target with
    | none =>
      exact ⟨n, i, h, by simp only [renderS, stmtOf, visit_other_one]⟩
    | some x =>
      obtain ⟨x1, x2, x3, x4⟩ := c.asg x (htgt x rfl)
      refine ⟨dset n x { m := .unknown }, i.filter (· ≠ x), h.assign_other x x1 x2 x3 x4 _ rfl, ?_⟩
      simp only [renderS, stmtOf, visit_other_two, visit_name_mk, visitName_mk]
      have : (i.contains x && decide (Ctx.store = Ctx.load)) = false := by simp
      simp only [this, Bool.false_eq_true, if_false]
  obtain ⟨n1, i1, h1, e1⟩ := step1
  rw [e1, visit_callTree p.va p.vk callee hc npos kws uva uvk n1 i1 cs]
  obtain ⟨h2, eva, evk⟩ := h1.taintCallee_other c callee hc hroot
  refine ⟨_, _, _, rfl, h2, ?_⟩
  have hm := markerIn_eq_calleeMarker h1 callee hc hroot
  have sva := starFound_va h2
  have svk := starFound_vk h2
  rw [hm] at sva svk
  simp only [hm, sva, svk]
  cases uva <;> cases uvk <;> cases tA <;> cases tK <;>
    simp [forwarding, mkFwd, FwdCall.toRec, hasHide]

end Flat
end SV

namespace SV
namespace Flat
variable {kids : List NS} {rev : List (Tree × Nat)}
set_option linter.unusedSimpArgs false
set_option linter.unusedVariables false

/-- the shape every statement-level simulation result has -/
def SimRes (kids : List NS) (rev : List (Tree × Nat)) (p : Prog) (roots : List Nat) (t : Tree) (n : List (Nat × Entry)) (i : List Nat) (cs : List CallRec)
    (calls : List FwdCall) (tA' tK' : Bool) : Prop :=
  ∃ n' i' recs, visit false t (mk kids rev n i cs) = mk kids rev n' i' (cs ++ recs) ∧ FInv p roots tA' tK' n' i' ∧
    forwarding recs = calls.map (FwdCall.toRec p)

/-- `s = const` / `del s` on a star: the entry becomes `unknown` -/
theorem sim_killA (p : Prog) (roots A : List Nat) (c : Clean p roots A) (ctx : Ctx) (hctx : ctx ≠ .load)
    (tA tK : Bool) (n : List (Nat × Entry)) (i : List Nat) (cs : List CallRec) (h : FInv p roots tA tK n i) :
    visit false (.name p.va ctx) (mk kids rev n i cs) = mk kids rev (dset n p.va { m := .unknown }) (i.filter (· ≠ p.va)) cs ∧
      FInv p roots true tK (dset n p.va { m := .unknown }) (i.filter (· ≠ p.va)) := by
  refine ⟨?_, h.kill_va c⟩
  simp only [visit_name_mk, visitName_mk]
  have : (i.contains p.va && decide (ctx = Ctx.load)) = false := by simp [hctx]
  simp only [this, Bool.false_eq_true, if_false]

theorem sim_killK (p : Prog) (roots A : List Nat) (c : Clean p roots A) (ctx : Ctx)
    (tA tK : Bool) (n : List (Nat × Entry)) (i : List Nat) (cs : List CallRec) (h : FInv p roots tA tK n i) :
    visit false (.name p.vk ctx) (mk kids rev n i cs) = mk kids rev (dset n p.vk { m := .unknown }) (i.filter (· ≠ p.vk)) cs ∧
      FInv p roots tA true (dset n p.vk { m := .unknown }) (i.filter (· ≠ p.vk)) := by
  refine ⟨?_, h.kill_vk c⟩
  simp only [visit_name_mk, visitName_mk]
  have : i.contains p.vk = false := by
    cases hc : i.contains p.vk with
    | false => rfl
    | true => exact absurd (h.immOnly p.vk hc) (Ne.symm c.ne)
  simp only [this, Bool.false_and, Bool.false_eq_true, if_false]

/-- `s.method()` : a call on an attribute of the star taints it -/
theorem sim_mutateA (p : Prog) (roots A : List Nat) (c : Clean p roots A) (m : Nat)
    (tA tK : Bool) (n : List (Nat × Entry)) (i : List Nat) (cs : List CallRec) (h : FInv p roots tA tK n i) :
    SimRes kids rev p roots (renderS p.va p.vk (.mutate .A m)) n i cs [] true tK := by
  have hct : isCalleeTree (.attr (.name p.va .load) m) = true := rfl
  have hshape : renderS p.va p.vk (.mutate .A m) =
      .other (.cons (callTree p.va p.vk (.attr (.name p.va .load) m) 0 [] false false) .nil) := by
    simp [renderS, stmtOf, callTree, plainConsts, kwConsts]
  unfold SimRes
  rw [hshape, visit_other_one, visit_callTree _ _ _ hct]
  refine ⟨_, _, _, rfl, ?_, by simp [forwarding, hasHide]⟩
  simp only [markerIn, taintCallee, instance_attr]
  cases tA with
  | false =>
    obtain ⟨he, _⟩ := h.vaP rfl
    simp only [he, RM.instance]
    exact h.taint_va c _ he rfl
  | true =>
    obtain ⟨e, he, ht⟩ := h.vaT rfl
    simp only [he]
    rcases ht with ⟨ht, hm⟩ | hm
    · rw [hm]
      simp only [RM.instance, he]
      exact h.taint_va c _ he hm
    · rw [hm]
      simp only [RM.instance]
      exact h

theorem sim_mutateK (p : Prog) (roots A : List Nat) (c : Clean p roots A) (m : Nat)
    (tA tK : Bool) (n : List (Nat × Entry)) (i : List Nat) (cs : List CallRec) (h : FInv p roots tA tK n i) :
    SimRes kids rev p roots (renderS p.va p.vk (.mutate .K m)) n i cs [] tA true := by
  have hct : isCalleeTree (.attr (.name p.vk .load) m) = true := rfl
  have hshape : renderS p.va p.vk (.mutate .K m) =
      .other (.cons (callTree p.va p.vk (.attr (.name p.vk .load) m) 0 [] false false) .nil) := by
    simp [renderS, stmtOf, callTree, plainConsts, kwConsts]
  unfold SimRes
  rw [hshape, visit_other_one, visit_callTree _ _ _ hct]
  refine ⟨_, _, _, rfl, ?_, by simp [forwarding, hasHide]⟩
  simp only [markerIn, taintCallee, instance_attr]
  cases tK with
  | false =>
    have he := h.vkP rfl
    simp only [he, RM.instance]
    exact h.taint_vk c _ he rfl
  | true =>
    obtain ⟨e, he, ht⟩ := h.vkT rfl
    simp only [he]
    rcases ht with ⟨ht, hm⟩ | hm
    · rw [hm]
      simp only [RM.instance, he]
      exact h.taint_vk c _ he hm
    · rw [hm]
      simp only [RM.instance]
      exact h

end Flat
end SV

namespace SV
namespace Flat
variable {kids : List NS} {rev : List (Tree × Nat)}
set_option linter.unusedSimpArgs false
set_option linter.unusedVariables false

theorem resolveCore_name_mk (x : Nat) (ctx : Ctx) (t : Bool) (n : List (Nat × Entry)) (i : List Nat) (cs : List CallRec) :
    resolveCore (.name x ctx) t (mk kids rev n i cs) =
      ((match dget n x with | some e => (e.m, e.tainted) | none => (.nm x, false)), mk kids rev n i cs) := by
  simp only [resolveCore, lookup_mk]
  cases dget n x <;> rfl

/-- `h(s)`: the star object itself is handed to other code as a positional argument -/
theorem visit_handOver (hn x : Nat) (n : List (Nat × Entry)) (i : List Nat) (cs : List CallRec)
    (hflat : ∀ e, dget n hn = some e → ∀ v a, e.m ≠ .attr v a) :
    ∃ r : CallRec, r.useVa = false ∧ r.useVk = false ∧ ∀ n1 i1, visitName (mk kids rev n i cs) x .load = mk kids rev n1 i1 cs →
      visit false (.call (.name hn .load) (.plain (.name x .load) .nil) .nil) (mk kids rev n i cs) = mk kids rev n1 i1 (cs ++ [r]) := by
  have hpar : ((mk kids rev n i cs).ns (mk kids rev n i cs).cur).parent.isSome = false := by simp [mk, VState.ns]
  refine ⟨{ wrapped := markerIn n (.name hn .load), args := [starFound n x], kwargs := [], varargs := none,
            varkwargs := none, useVa := false, useVk := false, hideA := false, hideK := false }, rfl, rfl, ?_⟩
  intro n1 i1 hv
  have hw : ∀ v a, (match dget n hn with | some e => (e.m, e.tainted) | none => (RM.nm hn, false)).1 ≠ .attr v a := by
    intro v a
    cases hd : dget n hn with
    | none => simp
    | some e => simpa using hflat e hd v a
  simp only [visit, hpar, Bool.and_false, Bool.false_eq_true, if_false, resolveCore_name_mk, isNameNode, if_true,
    resolveArgs, resolveKws, ArgList.starCount, KwList.dstarCount]
  generalize hgw : (match dget n hn with | some e => (e.m, e.tainted) | none => (RM.nm hn, false)) = w at hw
  have hmk : markerIn n (.name hn .load) = w.1 := by
    rw [← hgw]; simp only [markerIn]; cases dget n hn <;> rfl
  have hsf : starFound n x = untaint (match dget n x with | some e => (e.m, e.tainted) | none => (RM.nm x, false)) := by
    simp only [starFound, untaint]; cases dget n x <;> rfl
  rw [hmk, hsf]
  cases hw1 : w.1 with
  | attr v a => exact absurd hw1 (hw v a)
  | arg y t => simp only [hv]; simp [hasHide, mk]
  | nm y => simp only [hv]; simp [hasHide, mk]
  | unknown => simp only [hv]; simp [hasHide, mk]

end Flat
end SV

namespace SV
namespace Flat
variable {kids : List NS} {rev : List (Tree × Nat)}
set_option linter.unusedSimpArgs false
set_option linter.unusedVariables false

theorem taintCallee_name (n : List (Nat × Entry)) (x : Nat) (hflat : ∀ e, dget n x = some e → ∀ v a, e.m ≠ .attr v a) :
    taintCallee n (markerIn n (.name x .load)) = n := by
  unfold taintCallee
  simp only [markerIn]
  cases hd : dget n x with
  | none => rfl
  | some e =>
    simp only
    cases hm : e.m with
    | attr v a => exact absurd hm (hflat e hd v a)
    | _ => rfl

theorem visitList_cons (t : Tree) (ts : TreeList) (st : VState) :
    visitList (.cons t ts) st = visitList ts (visit false t st) := by
  simp [visitList]

theorem forwarding_append (a b : List CallRec) : forwarding (a ++ b) = forwarding a ++ forwarding b := by
  simp [forwarding]

/-- the shape of a list-level simulation result -/
def SimResL (kids : List NS) (rev : List (Tree × Nat)) (p : Prog) (roots : List Nat) (ts : TreeList) (n : List (Nat × Entry)) (i : List Nat) (cs : List CallRec)
    (calls : List FwdCall) (tA' tK' : Bool) : Prop :=
  ∃ n' i' recs, visitList ts (mk kids rev n i cs) = mk kids rev n' i' (cs ++ recs) ∧ FInv p roots tA' tK' n' i' ∧
    forwarding recs = calls.map (FwdCall.toRec p)

mutual
  /-- **the visitor simulates the ground truth, statement by statement** (flat bodies) -/
  theorem simS (p : Prog) (roots A : List Nat) (c : Clean p roots A) :
      (s : Stmt) → flatS s = true → okS [p.va, p.vk] s = true →
      (∀ x ∈ assignedS s, x ∈ A) → (∀ r ∈ rootsS s, r ∈ roots) →
      ∀ (tA tK : Bool) (n : List (Nat × Entry)) (i : List Nat) (cs : List CallRec), FInv p roots tA tK n i →
      SimRes kids rev p roots (renderS p.va p.vk s) n i cs (truthS s (tA, tK)).1 (truthS s (tA, tK)).2.1 (truthS s (tA, tK)).2.2
    | .fwd callee npos kws uva uvk target, _, hok, hA, hR, tA, tK, n, i, cs, h => by
      simp only [okS, Bool.and_eq_true] at hok
      have hc := hok.1.1
      simp only [truthS]
      exact sim_fwd p roots A c callee npos kws uva uvk target hc
        (fun r hr => hR r (by simp [rootsS, hr])) (fun x hx => hA x (by simp [assignedS, hx])) tA tK n i cs h
    | .rebind .A, _, _, _, _, tA, tK, n, i, cs, h => by
      have ht : truthS (.rebind .A) (tA, tK) = ([], (true, tK)) := by simp [truthS, taintsNow]
      rw [ht]
      obtain ⟨e, hf⟩ := sim_killA (kids := kids) (rev := rev) p roots A c .store (by decide) tA tK n i cs h
      refine ⟨_, _, [], ?_, hf, by simp [forwarding]⟩
      simp only [renderS, stmtOf, visit_other_two, e, visit_const, List.append_nil]
    | .rebind .K, _, _, _, _, tA, tK, n, i, cs, h => by
      have ht : truthS (.rebind .K) (tA, tK) = ([], (tA, true)) := by simp [truthS, taintsNow]
      rw [ht]
      obtain ⟨e, hf⟩ := sim_killK (kids := kids) (rev := rev) p roots A c .store tA tK n i cs h
      refine ⟨_, _, [], ?_, hf, by simp [forwarding]⟩
      simp only [renderS, stmtOf, visit_other_two, e, visit_const, List.append_nil]
    | .delete .A, _, _, _, _, tA, tK, n, i, cs, h => by
      have ht : truthS (.delete .A) (tA, tK) = ([], (true, tK)) := by simp [truthS, taintsNow]
      rw [ht]
      obtain ⟨e, hf⟩ := sim_killA (kids := kids) (rev := rev) p roots A c .del (by decide) tA tK n i cs h
      refine ⟨_, _, [], ?_, hf, by simp [forwarding]⟩
      simp only [renderS, visit_other_one, e, List.append_nil]
    | .delete .K, _, _, _, _, tA, tK, n, i, cs, h => by
      have ht : truthS (.delete .K) (tA, tK) = ([], (tA, true)) := by simp [truthS, taintsNow]
      rw [ht]
      obtain ⟨e, hf⟩ := sim_killK (kids := kids) (rev := rev) p roots A c .del tA tK n i cs h
      refine ⟨_, _, [], ?_, hf, by simp [forwarding]⟩
      simp only [renderS, visit_other_one, e, List.append_nil]
    | .mutate .A m, _, _, _, _, tA, tK, n, i, cs, h => by
      have ht : truthS (.mutate .A m) (tA, tK) = ([], (true, tK)) := by simp [truthS, taintsNow]
      rw [ht]
      exact sim_mutateA p roots A c m tA tK n i cs h
    | .mutate .K m, _, _, _, _, tA, tK, n, i, cs, h => by
      have ht : truthS (.mutate .K m) (tA, tK) = ([], (tA, true)) := by simp [truthS, taintsNow]
      rw [ht]
      exact sim_mutateK p roots A c m tA tK n i cs h
    | .handOver .A hn, _, _, _, _, tA, tK, n, i, cs, h => by
      obtain ⟨r, r1, r2, hv⟩ := visit_handOver hn p.va n i cs (fun e he => h.flatm hn e he)
      have ht : truthS (.handOver .A hn) (tA, tK) = ([], (tA, tK)) := by simp [truthS, taintsNow]
      rw [ht]
      by_cases hi : i.contains p.va = true
      · have hvn : visitName (mk kids rev n i cs) p.va .load = mk kids rev n i cs := by
          have hc : (i.contains p.va && decide (Ctx.load = Ctx.load)) = true := by rw [hi]; rfl
          rw [visitName_mk, if_pos hc]
        refine ⟨n, i, [r], ?_, h, by simp [forwarding, r1, r2]⟩
        simp only [renderS, stmtOf, visit_other_one]
        exact hv n i hvn
      · have hvn : visitName (mk kids rev n i cs) p.va .load = mk kids rev (dset n p.va { m := .unknown }) (i.filter (· ≠ p.va)) cs := by
          have hi' : i.contains p.va = false := Bool.eq_false_iff.2 hi
          rw [visitName_mk, hi']
          simp only [Bool.false_and, Bool.false_eq_true, if_false]
        have htA : tA = true := by
          cases tA with
          | true => rfl
          | false => exact absurd (h.vaP rfl).2 hi
        refine ⟨dset n p.va { m := .unknown }, i.filter (· ≠ p.va), [r], ?_, ?_, by simp [forwarding, r1, r2]⟩
        · simp only [renderS, stmtOf, visit_other_one]
          exact hv _ _ hvn
        · subst htA; exact h.kill_va c
    | .handOver .K hn, _, _, _, _, tA, tK, n, i, cs, h => by
      obtain ⟨r, r1, r2, hv⟩ := visit_handOver hn p.vk n i cs (fun e he => h.flatm hn e he)
      have ht : truthS (.handOver .K hn) (tA, tK) = ([], (tA, true)) := by simp [truthS, taintsNow]
      rw [ht]
      have hi : i.contains p.vk = false := by
        cases hc : i.contains p.vk with
        | false => rfl
        | true => exact absurd (h.immOnly p.vk hc) (Ne.symm c.ne)
      have hvn : visitName (mk kids rev n i cs) p.vk .load = mk kids rev (dset n p.vk { m := .unknown }) (i.filter (· ≠ p.vk)) cs := by
        rw [visitName_mk, hi]
        simp only [Bool.false_and, Bool.false_eq_true, if_false]
      refine ⟨dset n p.vk { m := .unknown }, i.filter (· ≠ p.vk), [r], ?_, h.kill_vk c, by simp [forwarding, r1, r2]⟩
      simp only [renderS, stmtOf, visit_other_one]
      exact hv _ _ hvn
    | .decoy hn k, _, _, _, _, tA, tK, n, i, cs, h => by
      have hct : isCalleeTree (.name hn .load) = true := rfl
      have hshape : renderS p.va p.vk (.decoy hn k) =
          .other (.cons (callTree p.va p.vk (.name hn .load) k [] false false) .nil) := by
        simp [renderS, stmtOf, callTree, kwConsts]
      have ht : truthS (.decoy hn k) (tA, tK) = ([], (tA, tK)) := by simp [truthS, taintsNow]
      rw [ht]
      unfold SimRes
      rw [hshape, visit_other_one, visit_callTree _ _ _ hct, taintCallee_name n hn (fun e he => h.flatm hn e he)]
      exact ⟨_, _, _, rfl, h, by simp [forwarding, hasHide]⟩
    | .unrelated x, _, _, hA, _, tA, tK, n, i, cs, h => by
      obtain ⟨x1, x2, x3, x4⟩ := c.asg x (hA x (by simp [assignedS]))
      have ht : truthS (.unrelated x) (tA, tK) = ([], (tA, tK)) := by simp [truthS, taintsNow]
      rw [ht]
      refine ⟨dset n x { m := .unknown }, i.filter (· ≠ x), [], ?_,
        h.assign_other x x1 x2 x3 x4 _ rfl, by simp [forwarding]⟩
      simp only [renderS, stmtOf, visit_other_two, visit_name_mk, visitName_mk, visit_const, List.append_nil]
      have : (i.contains x && decide (Ctx.store = Ctx.load)) = false := by simp
      simp only [this, Bool.false_eq_true, if_false]
    | .block body, hfl, hok, hA, hR, tA, tK, n, i, cs, h => by
      have := simSL p roots A c body (by simpa [flatS] using hfl) (by simpa [okS] using hok)
        (fun x hx => hA x (by simpa [assignedS] using hx)) (fun r hr => hR r (by simpa [rootsS] using hr)) tA tK n i cs h
      obtain ⟨n', i', recs, e, hf, hr⟩ := this
      refine ⟨n', i', recs, ?_, by simpa [truthS] using hf, by simpa [truthS] using hr⟩
      simp only [renderS, visit, visitList_cons, visit_const]
      exact e
    | .nested _, hfl, _, _, _, _, _, _, _, _, _ => by simp [flatS] at hfl
    | .nonlocalRebind _, hfl, _, _, _, _, _, _, _, _, _ => by simp [flatS] at hfl

  theorem simSL (p : Prog) (roots A : List Nat) (c : Clean p roots A) :
      (l : StmtList) → flatSL l = true → okSL [p.va, p.vk] l = true →
      (∀ x ∈ assignedSL l, x ∈ A) → (∀ r ∈ rootsSL l, r ∈ roots) →
      ∀ (tA tK : Bool) (n : List (Nat × Entry)) (i : List Nat) (cs : List CallRec), FInv p roots tA tK n i →
      SimResL kids rev p roots (renderSL p.va p.vk l) n i cs (truthSL l (tA, tK)).1 (truthSL l (tA, tK)).2.1 (truthSL l (tA, tK)).2.2
    | .nil, _, _, _, _, tA, tK, n, i, cs, h => by
      exact ⟨n, i, [], by simp [renderSL, visitList], by simpa [truthSL] using h, by simp [truthSL, forwarding]⟩
    | .cons s rest, hfl, hok, hA, hR, tA, tK, n, i, cs, h => by
      simp only [flatSL, Bool.and_eq_true] at hfl
      simp only [okSL, Bool.and_eq_true] at hok
      obtain ⟨n1, i1, r1, e1, h1, f1⟩ := simS p roots A c s hfl.1 hok.1
        (fun x hx => hA x (by simp [assignedSL, hx])) (fun r hr => hR r (by simp [rootsSL, hr])) tA tK n i cs h
      obtain ⟨n2, i2, r2, e2, h2, f2⟩ := simSL p roots A c rest hfl.2 hok.2
        (fun x hx => hA x (by simp [assignedSL, hx])) (fun r hr => hR r (by simp [rootsSL, hr]))
        (truthS s (tA, tK)).2.1 (truthS s (tA, tK)).2.2 n1 i1 (cs ++ r1) h1
      refine ⟨n2, i2, r1 ++ r2, ?_, ?_, ?_⟩
      · simp only [renderSL, visitList_cons, e1, e2, List.append_assoc]
      · simpa [truthSL] using h2
      · rw [forwarding_append, f1, f2]
        simp [truthSL]
end

end Flat
end SV
