/-
  Lemmas/C02Main.lean — assembling the facts about `embed uva uvk [o, i]`; soundness, exactness.
-/
import Sigverif.Lemmas.C02TailFacts
import Sigverif.Lemmas.C02Abstract
namespace SV

/-! copies of the specification definitions of `Props/C02.lean` (which imports this file);
    the property theorems there are stated with the originals, which unfold to these. -/
def compositeD (o i : List Param) (uva uvk : Bool) (n : Nat) (K : List Nat) : Bool :=
  accepts o n K &&
  accepts i (if uva then n - (positionals o).length else 0)
            (if uvk then K.filter (fun k => !(kwNames o).contains k) else [])

def dobiD (o i R : List Param) : Prop :=
  (∃ p ∈ positionals o, p.dflt.isSome) ∧
  (∃ p ∈ positionals R, p.name ∈ names (i.filter isNamed) ∧ p.name ∉ names (o.filter isNamed))

def sharedNamedD (o i : List Param) : Prop :=
  ∃ x, x ∈ names (o.filter isNamed) ∧ x ∈ names (i.filter isNamed)

theorem named_sublist_all (S : Sorted) : (S.pos ++ S.pok ++ S.kwo).Sublist S.all := by
  unfold Sorted.all
  refine List.Sublist.trans ?_ (List.sublist_append_left _ _)
  exact List.Sublist.append (List.sublist_append_left _ _) (List.Sublist.refl _)

theorem named_nodup {S : Sorted} (h : (names S.all).Nodup) :
    (names (S.pos ++ S.pok ++ S.kwo)).Nodup := by
  have : (names (S.pos ++ S.pok ++ S.kwo)).Sublist (names S.all) := by
    unfold names; exact List.Sublist.map _ (named_sublist_all S)
  exact this.nodup h

theorem names_named_subset_all {S : Sorted} {x : Nat} (h : x ∈ names (S.pos ++ S.pok ++ S.kwo)) :
    x ∈ names S.all := by
  have : (names (S.pos ++ S.pok ++ S.kwo)).Sublist (names S.all) := by
    unfold names; exact List.Sublist.map _ (named_sublist_all S)
  exact this.subset h

/-- the (outer-defaulted, inner positional present) situation at the level of buckets -/
def dobiB (O i' : Sorted) : Prop :=
  (∃ p ∈ O.pos ++ O.pok, p.dflt.isSome = true) ∧ names (i'.pos ++ i'.pok) ≠ []

theorem embedFacts_of {O I i' r : Sorted} {uva uvk : Bool}
    (M : MergeFacts I i' (uva && O.va.isSome) (uvk && O.vk.isSome))
    (T : TailFacts O i' r uva uvk) :
    EmbedFacts (sview O) (sview I) (sview r) (names (O.pos ++ O.pok ++ O.kwo))
      (names O.all) (names I.all) uva uvk (dobiB O i') := by
  refine ⟨?_, ?_, ?_, ?_, ?_, ?_, ?_, ?_, ?_, ?_, ?_, ?_, ?_, ?_, ?_⟩
  · -- hP
    show names (r.pos ++ r.pok) = names (O.pos ++ O.pok) ++ _
    rw [T.t1, M.m1]; rfl
  · -- hva
    show r.va.isSome = _
    rw [T.t5]
    simp only [sview]
    cases uva
    · simp
    · rw [if_pos rfl, M.m5]
      rcases Bool.eq_false_or_eq_true O.va.isSome with h | h <;> simp [h]
  · show r.vk.isSome = _
    rw [T.t6]
    simp only [sview]
    cases uvk
    · simp
    · rw [if_pos rfl, M.m6]
      rcases Bool.eq_false_or_eq_true O.vk.isSome with h | h <;> simp [h]
  · -- hkw
    intro x hx
    rcases T.t2 x hx with h | h
    · exact .inl h
    · exact .inr (M.m2 x h)
  · -- hPi
    intro x hx hs hin
    apply T.t3 x hx
    have : x ∈ names (i'.pos ++ i'.pok) := by
      have hs' : (uva && O.va.isSome) = true := hs
      rw [M.m1, if_pos hs']; exact hin
    simp only [names_append_C02, List.mem_append] at this ⊢
    exact .inl this
  · -- hkwNo
    intro x hx hno
    rcases T.t2 x hx with h | h
    · exact h
    · exfalso
      apply T.t3 x hno
      simp only [names_append_C02, List.mem_append] at h ⊢
      rcases h with h | h
      · exact .inl (.inr h)
      · exact .inr h
  · -- hreqiNo
    intro x hx hno
    exact T.t3 x hno (rq_subset_names ((M.m4 x).1 hx))
  · exact T.t4a
  · intro x hx; exact T.t4b x ((M.m4 x).1 hx)
  · intro x hx
    rcases T.t4c x hx with h | h | h
    · exact .inl h
    · exact .inr (.inl ((M.m4 x).2 h))
    · exact .inr (.inr h)
  · -- hkwo
    intro x hx
    simp only [sview, names_append_C02, List.mem_append] at hx ⊢
    rcases hx with h | h
    · exact .inl (.inr h)
    · exact .inr h
  · intro x hx
    simp only [sview, names_append_C02, List.mem_append] at hx ⊢
    exact .inl hx
  · intro x hx; exact rq_subset_names hx
  · intro x hx; exact names_named_subset_all hx
  · intro x hx
    apply names_named_subset_all (S := I)
    simp only [sview, names_append_C02, List.mem_append] at hx ⊢
    rcases hx with h | h
    · exact .inl (.inr h)
    · exact .inr h

/-- everything known about a successful two-signature embed of valid signatures -/
theorem embed_facts {o i R : USig} {uva uvk : Bool} (ho : WF o.params) (hi : WF i.params)
    (hR : embed uva uvk [o, i] = .ok R) :
    ∃ i' r : Sorted, R.params = r.all ∧ BucketKinds r ∧
      MergeFacts (sortParams i) i' (uva && (sortParams o).va.isSome) (uvk && (sortParams o).vk.isSome) ∧
      TailFacts (sortParams o) i' r uva uvk := by
  obtain ⟨i', r, h1, h2, h3, _⟩ := embed_two_ok hR
  obtain ⟨hallO, hkO, _, _⟩ := sortParams_WF o ho
  obtain ⟨hallI, hkI, _, _⟩ := sortParams_WF i hi
  have hnO : (names (sortParams o).all).Nodup := by rw [hallO]; exact validate_nodup ho.validate
  have hnI : (names (sortParams i).all).Nodup := by rw [hallI]; exact validate_nodup hi.validate
  have M := mergeStars_facts (named_nodup hnI) h1
  have e1 : (if uva = true then (sortParams o).va else none).isSome = (uva && (sortParams o).va.isSome) := by
    cases uva <;> simp
  have e2 : (if uvk = true then (sortParams o).vk else none).isSome = (uvk && (sortParams o).vk.isSome) := by
    cases uvk <;> simp
  rw [e1, e2] at M
  have T := embedTailC_facts (named_nodup hnO) M.m7 h2
  exact ⟨i', r, h3, embedTailC_kinds hkO (mergeStars_kinds hkI h1) h2, M, T⟩

theorem dobiB_imp {o i R : USig} {i' r : Sorted} {uva uvk : Bool}
    (ho : WF o.params) (hi : WF i.params) (hRr : R.params = r.all) (hkr : BucketKinds r)
    (M : MergeFacts (sortParams i) i' (uva && (sortParams o).va.isSome) (uvk && (sortParams o).vk.isSome))
    (T : TailFacts (sortParams o) i' r uva uvk)
    (h : dobiB (sortParams o) i') : dobiD o.params i.params R.params := by
  obtain ⟨hallO, hkO, _, _⟩ := sortParams_WF o ho
  obtain ⟨hallI, hkI, _, _⟩ := sortParams_WF i hi
  obtain ⟨⟨p, hp, hpd⟩, hne⟩ := h
  refine ⟨⟨p, ?_, hpd⟩, ?_⟩
  · rw [← hallO, positionals_all_C02 _ hkO]; exact hp
  · -- a positional of the result that comes from the inner signature
    cases hl : names (i'.pos ++ i'.pok) with
    | nil => exact absurd hl hne
    | cons x t =>
      have hx : x ∈ names (i'.pos ++ i'.pok) := by rw [hl]; simp
      have hxR : x ∈ names (r.pos ++ r.pok) := by
        rw [T.t1]; exact List.mem_append_right _ hx
      obtain ⟨q, hq, rfl⟩ := mem_names_C02.1 hxR
      refine ⟨q, ?_, ?_, ?_⟩
      · rw [hRr, positionals_all_C02 _ hkr]; exact hq
      · rw [← hallI, named_all _ hkI]
        apply M.m3
        simp only [names_append_C02, List.mem_append] at hx ⊢
        exact .inl hx
      · rw [← hallO, named_all _ hkO]
        intro hno
        apply T.t3 _ hno
        simp only [names_append_C02, List.mem_append] at hx ⊢
        exact .inl hx

theorem composite_iff {o i : USig} {uva uvk : Bool} (ho : WF o.params) (hi : WF i.params)
    (n : Nat) (K : List Nat) (hK : K.Nodup) :
    compositeD o.params i.params uva uvk n K = true ↔
      compositeV (sview (sortParams o)) (sview (sortParams i)) uva uvk n K := by
  obtain ⟨hallO, hkO, _, _⟩ := sortParams_WF o ho
  obtain ⟨hallI, hkI, _, _⟩ := sortParams_WF i hi
  have hK' : (if uvk = true then K.filter (fun k => !(kwNames o.params).contains k) else []).Nodup := by
    split
    · exact hK.sublist List.filter_sublist
    · exact List.nodup_nil
  unfold compositeD compositeV
  rw [Bool.and_eq_true, ← hallO, ← hallI, accepts_all_iff _ hkO _ _ hK]
  rw [← hallO] at hK'
  rw [accepts_all_iff _ hkI _ _ hK']
  have e1 : (positionals (sortParams o).all).length = (sview (sortParams o)).P.length := by
    rw [positionals_all_C02 _ hkO]; simp [sview]
  have e2 : kwNames (sortParams o).all = (sview (sortParams o)).kw := by
    unfold kwNames; rw [kwPassable_all _ hkO]; rfl
  rw [e1, e2]

theorem nonColl_view {o i R : USig} {r : Sorted} {K : List Nat}
    (ho : WF o.params) (hi : WF i.params) (hRr : R.params = r.all) (hkr : BucketKinds r)
    (hnc : nonColl R.params [o.params, i.params] K) :
    ∀ k ∈ K, k ∈ (sview r).kw ∨ (k ∉ names (sortParams o).all ∧ k ∉ names (sortParams i).all) := by
  obtain ⟨hallO, _, _, _⟩ := sortParams_WF o ho
  obtain ⟨hallI, _, _, _⟩ := sortParams_WF i hi
  intro k hk
  rcases hnc k hk with h | h
  · left
    rw [hRr] at h
    unfold kwNames at h
    rw [kwPassable_all _ hkr] at h
    exact h
  · right
    rw [hallO, hallI]
    exact ⟨h _ (by simp), h _ (by simp)⟩

theorem embed_sound_aux (o i R : USig) (uva uvk : Bool) (n : Nat) (K : List Nat)
    (ho : WF o.params) (hi : WF i.params) (hK : K.Nodup)
    (hR : embed uva uvk [o, i] = .ok R)
    (hnc : nonColl R.params [o.params, i.params] K)
    (hacc : accepts R.params n K = true) :
    compositeD o.params i.params uva uvk n K = true := by
  obtain ⟨i', r, hRr, hkr, M, T⟩ := embed_facts ho hi hR
  rw [composite_iff ho hi n K hK]
  rw [hRr, accepts_all_iff _ hkr _ _ hK] at hacc
  exact abstract_sound (embedFacts_of M T) n K (nonColl_view ho hi hRr hkr hnc) hacc

theorem embed_exact_aux (o i R : USig) (uva uvk : Bool) (n : Nat) (K : List Nat)
    (ho : WF o.params) (hi : WF i.params) (hK : K.Nodup)
    (hR : embed uva uvk [o, i] = .ok R)
    (hnc : nonColl R.params [o.params, i.params] K)
    (hex : ¬ dobiD o.params i.params R.params) :
    accepts R.params n K = compositeD o.params i.params uva uvk n K := by
  obtain ⟨i', r, hRr, hkr, M, T⟩ := embed_facts ho hi hR
  have hnd : ¬ dobiB (sortParams o) i' := fun h => hex (dobiB_imp ho hi hRr hkr M T h)
  have hiff : accepts R.params n K = true ↔ compositeD o.params i.params uva uvk n K = true := by
    rw [composite_iff ho hi n K hK, hRr, accepts_all_iff _ hkr _ _ hK]
    constructor
    · exact abstract_sound (embedFacts_of M T) n K (nonColl_view ho hi hRr hkr hnc)
    · exact abstract_complete (embedFacts_of M T) hnd n K (nonColl_view ho hi hRr hkr hnc)
  cases h1 : accepts R.params n K <;> cases h2 : compositeD o.params i.params uva uvk n K <;>
    simp_all

end SV
