/-
  Lemmas/C18GFresh.lean — wrapper identities are never reused; after the wrapper was dropped and
  collected a lookup creates a new one; reachability of instances (retention / reclamation).
-/
import Sigverif.Lemmas.C18GStable
namespace SV

theorem nextWid_keepSt (s : IState) (keep : Option Nat) (w : Nat) :
    (keepSt s keep w).nextWid = s.nextWid := by cases keep <;> rfl

theorem nextWid_descGet_mono (m : KeyMode) (s : IState) (k : Inst) (keep : Option Nat) :
    s.nextWid ≤ (descGet m s (some k) 0 keep).1.nextWid := by
  cases hf : s.find m k with
  | some e => rw [descGet_hit _ _ hf, nextWid_keepSt]; exact Nat.le_refl _
  | none => rw [descGet_miss _ _ hf, nextWid_keepSt]; simp [insSt]

theorem nextWid_step_mono (m : KeyMode) (s : IState) (op : IOp) :
    s.nextWid ≤ (istep m s op).1.nextWid := by
  cases op with
  | get i => simp only [istep]; split; exact Nat.le_refl _; exact nextWid_descGet_mono _ _ _ _
  | call i => simp only [istep]; split; exact Nat.le_refl _; exact nextWid_descGet_mono _ _ _ _
  | cls => exact Nat.le_refl _
  | dropWrapper i => exact Nat.le_refl _
  | dropInst i => exact Nat.le_refl _
  | newInst i c => exact Nat.le_refl _
  | gc => exact Nat.le_refl _

theorem nextWid_runFrom_mono (m : KeyMode) (s : IState) (ops : List IOp) :
    s.nextWid ≤ (irunFrom m s ops).1.nextWid := by
  induction ops generalizing s with
  | nil => exact Nat.le_refl _
  | cons op ops ih =>
    rw [irunFrom_cons]
    exact Nat.le_trans (nextWid_step_mono m s op) (ih _)

theorem descGet_wid_lt (m : KeyMode) (s : IState) (hs : IInv m s) (k : Inst) (keep : Option Nat)
    (w b : Nat) (h : (descGet m s (some k) 0 keep).2 = .wrapper w b) :
    w < (descGet m s (some k) 0 keep).1.nextWid := by
  cases hf : s.find m k with
  | some e =>
    rw [descGet_hit _ _ hf] at h ⊢
    simp only [IAns.wrapper.injEq] at h
    rw [nextWid_keepSt, ← h.1]
    exact hs.widE e (find_some hf).1
  | none =>
    rw [descGet_miss _ _ hf] at h ⊢
    simp only [IAns.wrapper.injEq] at h
    rw [nextWid_keepSt, ← h.1]
    simp [insSt]

theorem step_wid_lt (m : KeyMode) (s : IState) (hs : IInv m s) (op : IOp) (w b : Nat)
    (h : (istep m s op).2 = some (.wrapper w b)) : w < (istep m s op).1.nextWid := by
  cases op with
  | get i =>
    simp only [istep] at h ⊢
    split at h
    · cases h
    · rename_i k hk
      exact descGet_wid_lt m s hs k _ w b (by simpa using h)
  | call i =>
    simp only [istep] at h ⊢
    split at h
    · cases h
    · rename_i k hk
      exact descGet_wid_lt m s hs k _ w b (by simpa using h)
  | cls => simp [istep, descGet] at h
  | dropWrapper i => cases h
  | dropInst i => cases h
  | newInst i c => cases h
  | gc => cases h

/-- every wrapper answered during a run has an identity below the final counter -/
theorem trace_wid_lt (m : KeyMode) (s : IState) (hs : IInv m s) (ops : List IOp) :
    ∀ p ∈ (irunFrom m s ops).2, ∀ w b, p.2 = .wrapper w b → w < (irunFrom m s ops).1.nextWid := by
  induction ops generalizing s with
  | nil => intro p hp; cases hp
  | cons op ops ih =>
    intro p hp w b hpw
    rw [irunFrom_cons] at hp ⊢
    simp only [List.mem_append] at hp
    rcases hp with hp | hp
    · cases ha : (istep m s op).2 with
      | none => rw [ha] at hp; cases hp
      | some a =>
        rw [ha] at hp
        simp only [List.mem_singleton] at hp
        subst hp
        simp only at hpw
        subst hpw
        exact Nat.lt_of_lt_of_le (step_wid_lt m s hs op w b ha) (nextWid_runFrom_mono m _ ops)
    · exact ih _ (IInv_step m s op hs) p hp w b hpw

/-- identity keys: once the caller dropped the wrappers it got through i and the collector ran, no
    entry is keyed by i -/
theorem no_entry_after_drop_gc (s : IState) (hs : IInv .identity s) (i : Nat) :
    ∀ e ∈ (irunFrom .identity s [.dropWrapper i, .gc]).1.entries, e.key.id ≠ i := by
  intro e he hid
  simp only [irunFrom_cons, irunFrom_nil, istep, IState.collect, List.mem_filter, List.any_eq_true,
    beq_iff_eq, decide_eq_true_eq] at he
  obtain ⟨he, h, ⟨hh, hne⟩, hw⟩ := he
  have := hs.slot rfl h hh e he hw.symm
  exact hne (this.symm.trans hid)

theorem fresh_after_drop_gc (s : IState) (hs : IInv .identity s) (hk : IKnown s) (i : Nat)
    (hi : i ∈ s.heldInst) :
    (istep .identity (irunFrom .identity s [.dropWrapper i, .gc]).1 (.get i)).2 =
      some (.wrapper (irunFrom .identity s [.dropWrapper i, .gc]).1.nextWid i) := by
  have hne := no_entry_after_drop_gc s hs i
  obtain ⟨k, hk', hid⟩ := heldInstOf_of_held hk hi
  have hk2 : (irunFrom .identity s [.dropWrapper i, .gc]).1.heldInstOf i = some k := hk'
  rw [get_answer, hk2]
  simp only [lookup_answer]
  split
  · rename_i e he
    obtain ⟨hmem, hm⟩ := find_some he
    rw [matches_identity] at hm
    exact absurd (hm.trans hid) (hne e hmem)
  · rw [hid]

/-! ### reachability -/

/-- identity keys: an instance the caller neither holds nor holds a wrapper of is unreachable after
    collection -/
theorem not_alive_after_collect (s : IState) (hs : IInv .identity s) (i : Nat)
    (h1 : i ∉ s.heldInst) (h2 : ∀ w, (i, w) ∉ s.heldWrap) : i ∉ s.collect.alive := by
  have key : ∀ e ∈ s.collect.entries, e.key.id ≠ i := by
    intro e he hid
    simp only [IState.collect, List.mem_filter, List.any_eq_true, beq_iff_eq] at he
    obtain ⟨he, h, hh, hw⟩ := he
    have := hs.slot rfl h hh e he hw.symm
    exact h2 h.2 (by rw [← hid, this]; exact hh)
  have hb := (IInv_collect hs).bound rfl
  simp only [IState.alive, List.mem_append, List.mem_map, not_or, not_exists, not_and]
  refine ⟨⟨h1, fun e he => key e he⟩, fun e he => ?_⟩
  rw [hb e he]
  exact key e he

/-- an instance the caller holds, or whose wrapper (obtained through it) the caller holds, stays
    reachable through a collection -/
theorem alive_of_held (m : KeyMode) (s : IState) (hs : IInv m s) (i : Nat)
    (h : i ∈ s.heldInst ∨ (m = .identity ∧ ∃ w, (i, w) ∈ s.heldWrap)) : i ∈ s.collect.alive := by
  simp only [IState.alive, List.mem_append, List.mem_map]
  rcases h with h | ⟨hm, w, hw⟩
  · exact Or.inl (Or.inl h)
  · obtain ⟨e, he, hew⟩ := hs.hasE _ hw
    refine Or.inl (Or.inr ⟨e, ?_, hs.slot hm _ hw e he hew⟩)
    simp only [IState.collect, List.mem_filter, List.any_eq_true, beq_iff_eq]
    exact ⟨he, _, hw, hew.symm⟩

/-! ### access through the class is transparent -/

def IState.noSelf (s : IState) : IState := { s with selfEntry := false }

theorem step_noSelf (m : KeyMode) (s : IState) (op : IOp) :
    (istep m s.noSelf op).1.noSelf = (istep m s op).1.noSelf ∧
    (istep m s.noSelf op).2 = (istep m s op).2 := by
  cases op with
  | get i =>
    simp only [istep]
    have : s.noSelf.heldInstOf i = s.heldInstOf i := rfl
    rw [this]
    cases s.heldInstOf i with
    | none => exact ⟨rfl, rfl⟩
    | some k =>
      have hf : s.noSelf.find m k = s.find m k := rfl
      dsimp only
      cases h : s.find m k with
      | some e => rw [descGet_hit _ _ h, descGet_hit _ _ (hf.trans h)]; exact ⟨rfl, rfl⟩
      | none => rw [descGet_miss _ _ h, descGet_miss _ _ (hf.trans h)]; exact ⟨rfl, rfl⟩
  | call i =>
    simp only [istep]
    have : s.noSelf.heldInstOf i = s.heldInstOf i := rfl
    rw [this]
    cases s.heldInstOf i with
    | none => exact ⟨rfl, rfl⟩
    | some k =>
      have hf : s.noSelf.find m k = s.find m k := rfl
      dsimp only
      cases h : s.find m k with
      | some e => rw [descGet_hit _ _ h, descGet_hit _ _ (hf.trans h)]; exact ⟨rfl, rfl⟩
      | none => rw [descGet_miss _ _ h, descGet_miss _ _ (hf.trans h)]; exact ⟨rfl, rfl⟩
  | cls => exact ⟨rfl, rfl⟩
  | dropWrapper i => exact ⟨rfl, rfl⟩
  | dropInst i => exact ⟨rfl, rfl⟩
  | newInst i c => exact ⟨rfl, rfl⟩
  | gc => exact ⟨rfl, rfl⟩

theorem runFrom_noSelf (m : KeyMode) (s t : IState) (h : s.noSelf = t.noSelf) (ops : List IOp) :
    (irunFrom m s ops).1.noSelf = (irunFrom m t ops).1.noSelf ∧
    (irunFrom m s ops).2 = (irunFrom m t ops).2 := by
  induction ops generalizing s t with
  | nil => exact ⟨h, rfl⟩
  | cons op ops ih =>
    have e1 := step_noSelf m s op
    have e2 := step_noSelf m t op
    rw [h] at e1
    have hs : (istep m s op).1.noSelf = (istep m t op).1.noSelf := e1.1.symm.trans e2.1
    have ha : (istep m s op).2 = (istep m t op).2 := e1.2.symm.trans e2.2
    obtain ⟨i1, i2⟩ := ih _ _ hs
    simp only [irunFrom_cons]
    exact ⟨i1, by rw [ha, i2]⟩

/-- a class access answers the descriptor and changes no later answer -/
theorem cls_transparent (m : KeyMode) (pre post : List IOp) :
    itrace m (pre ++ .cls :: post) =
      itrace m pre ++ (.cls, .desc) :: (irunFrom m (irun m pre) post).2 := by
  rw [itrace_append, irunFrom_cons]
  have : (istep m (irun m pre) .cls).2 = some .desc := rfl
  rw [this]
  have h := (runFrom_noSelf m (istep m (irun m pre) .cls).1 (irun m pre) rfl post).2
  simp only [h, List.singleton_append]

end SV
