/-
  Lemmas/C02Eval.lean — an evaluable (structurally recursive) closed form of the parameters of
  `embed uva uvk [o, i]`, used for the closed non-vacuity examples (`phaseP`/`phaseQ` are defined
  by well-founded recursion and do not reduce by `rfl`/`decide`).
-/
import Sigverif.Lemmas.C02Inv
namespace SV

def embedParamsC (o i : USig) (uva uvk : Bool) : Except Err (List Param) :=
  match embedStepC (sortParams o) (sortParams i) uva uvk with
  | .ok r => (match validate r.all with | .ok _ => .ok r.all | .error e => .error e)
  | .error _ => .error .incompatible

theorem embed_two_params (o i : USig) (uva uvk : Bool) :
    (embed uva uvk [o, i]).map (·.params) = embedParamsC o i uva uvk := by
  unfold embed embedParamsC
  simp only [embedFold, bind, Except.bind]
  have e := embedStep_erase (sortParams o) (sortParams i) uva uvk 1
  cases hs : embedStep (sortParams o) (sortParams i) uva uvk 1 with
  | error err =>
    rw [hs] at e
    rw [← e]
    rfl
  | ok acc =>
    rw [hs] at e
    rw [← e]
    simp only [Except.map, eraseMeta_all, applyParams, bind, Except.bind]
    cases validate acc.all <;> rfl

theorem exists_of_map_ok {e : Except Err USig} {ps : List Param}
    (h : e.map (·.params) = .ok ps) : ∃ R, e = .ok R ∧ R.params = ps := by
  cases e with
  | error err => cases h
  | ok R =>
    simp only [Except.map, Except.ok.injEq] at h
    exact ⟨R, rfl, h⟩

theorem embed_two_ok_of {o i : USig} {uva uvk : Bool} {ps : List Param}
    (h : embedParamsC o i uva uvk = .ok ps) : ∃ R, embed uva uvk [o, i] = .ok R ∧ R.params = ps :=
  exists_of_map_ok (by rw [embed_two_params]; exact h)

theorem embed_two_incompatible_of {o i : USig} {uva uvk : Bool}
    (h : embedParamsC o i uva uvk = .error .incompatible) :
    embed uva uvk [o, i] = .error .incompatible := by
  have := embed_two_params o i uva uvk
  rw [h] at this
  cases he : embed uva uvk [o, i] with
  | ok R => rw [he] at this; cases this
  | error e =>
    rw [he] at this
    simp only [Except.map, Except.error.injEq] at this
    rw [this]

end SV
