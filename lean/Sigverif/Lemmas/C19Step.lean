/-
  Lemmas/C19Step.lean — one iteration of the loop of `_mask` in partial mode (keyword bindings
  name=value): classification, the (weaker) loop invariant, and what the step does to the set of
  accepted calls.
-/
import Sigverif.Lemmas.C03Hide
namespace SV

/-- `step_hit` under the weaker hypothesis that only the names of the positional and keyword
    parameters are distinct (the names of the star parameters do not matter for acceptance) -/
theorem step_hit_w {pos before conv kwo : List Param} {bp : Param} {va vk : Option Param}
    (m : Nat) (K : List Nat)
    (hnd : (names (pos ++ (before ++ bp :: conv) ++ kwo)).Nodup)
    (hK : bp.name ∉ K) :
    AccP {pos := pos, pok := before, va := none, kwo := kwo ++ conv.map (·.withKind .ko), vk := vk} m K ↔
    AccP {pos := pos, pok := before ++ bp :: conv, va := va, kwo := kwo, vk := vk} m (bp.name :: K) := by
  have e : pos ++ (before ++ bp :: conv) = (pos ++ before) ++ bp :: conv := by simp
  have e2 : pos ++ (before ++ bp :: conv) ++ kwo = (pos ++ before) ++ bp :: (conv ++ kwo) := by simp
  rw [e2] at hnd
  have hnd' : (names ((pos ++ before) ++ bp :: conv)).Nodup := by
    refine hnd.sublist ?_
    unfold names
    apply List.Sublist.map
    apply List.Sublist.append_left
    exact List.Sublist.cons_cons _ (List.sublist_append_left _ _)
  obtain ⟨h1, h2⟩ := mem_take_split (A := pos ++ before) (C := conv) (b := bp) m hnd'
  obtain ⟨ua, uc⟩ := nodup_names_split hnd
  have u1 : ∀ p ∈ pos, p.name ≠ bp.name := fun p hp => ua p (by simp [hp])
  have u2 : ∀ p ∈ before, p.name ≠ bp.name := fun p hp => ua p (by simp [hp])
  have u3 : ∀ p ∈ conv, p.name ≠ bp.name := fun p hp => uc p (by simp [hp])
  have u4 : ∀ p ∈ kwo, p.name ≠ bp.name := fun p hp => uc p (by simp [hp])
  clear hnd hnd' e2 ua uc
  have n3 : ∀ p ∈ conv, p.name ∈ names conv := fun p hp => mem_names_of_mem hp
  have nb : bp.name ∉ names before := fun h => by
    obtain ⟨q, hq, e⟩ := mem_names.1 h; exact u2 q hq e
  have nc : bp.name ∉ names conv := fun h => by
    obtain ⟨q, hq, e⟩ := mem_names.1 h; exact u3 q hq e
  have nk : bp.name ∉ names kwo := fun h => by
    obtain ⟨q, hq, e⟩ := mem_names.1 h; exact u4 q hq e
  unfold AccP
  simp only [e] at *
  simp only [names_append, names_map_withKind, List.mem_append, List.mem_map, names_cons, List.mem_cons,
    Option.isSome_none, Bool.false_eq_true, or_false]
  constructor
  · rintro ⟨c1, c2, c3⟩
    have hT := h2 c1
    rw [hT]
    have hx : bp.name ∉ names (List.take m (pos ++ before)) := by
      rw [← hT, h1]; omega
    refine ⟨Or.inl (by simp at c1 ⊢; omega), ?_, ?_⟩
    · rintro k (rfl | hk)
      · exact ⟨fun _ => hx, fun h => absurd (Or.inl (Or.inr (Or.inl rfl))) h⟩
      · have := c2 k hk
        have hne : k ≠ bp.name := fun e => hK (e ▸ hk)
        grind
    · rintro p hp hr
      by_cases hpx : p = bp
      · left; subst hpx; simp
      · rcases hp with hp | (hp | hp | hp) | hp
        · have := c3 p (Or.inl hp) hr; grind
        · have := c3 p (Or.inr (Or.inl hp)) hr; grind
        · exact absurd hp hpx
        · have := c3 (p.withKind .ko) (Or.inr (Or.inr (Or.inr ⟨p, hp, rfl⟩))) hr
          simp only [withKind_name] at this
          grind
        · have := c3 p (Or.inr (Or.inr (Or.inl hp))) hr; grind
  · rintro ⟨c1, c2, c3⟩
    have hx := (c2 bp.name (Or.inl rfl)).1 (Or.inl (Or.inr (Or.inl rfl)))
    rw [h1] at hx
    have c1' : m ≤ (pos ++ before).length := by omega
    have hT := h2 c1'
    rw [hT] at c2 c3
    refine ⟨c1', ?_, ?_⟩
    · intro k hk
      have := c2 k (Or.inr hk)
      have hne : k ≠ bp.name := fun e => hK (e ▸ hk)
      grind
    · rintro p hp hr
      rcases hp with hp | hp | hp | ⟨q, hq, rfl⟩
      · have := c3 p (Or.inl hp) hr; grind
      · have := c3 p (Or.inr (Or.inl (Or.inl hp))) hr; grind
      · have := c3 p (Or.inr (Or.inr hp)) hr; grind
      · have := c3 q (Or.inr (Or.inl (Or.inr (Or.inr hq)))) hr
        simp only [withKind_name]
        grind






def partNames (kw : List (Nat × Nat)) (o : Nat) : List (Nat × Option (Nat × Nat)) :=
  kw.map (fun nv => (nv.1, some (nv.2, o)))

theorem partial_eq (sig : USig) (n : Nat) (kw : List (Nat × Nat)) (o : Nat) :
    maskPartial sig n kw o =
      match prelude (sortParams sig) n {} with
      | .error e => .error e
      | .ok (c, pos, pok) =>
        match maskNames (sortParams sig).vk (initState (sortParams sig) {} c pok) (partNames kw o) with
        | .error e => .error e
        | .ok st =>
          applyParams sig { pos := pos, pok := st.pok, va := st.va, kwo := st.kwo,
                            vk := (sortParams sig).vk, src := st.src,
                            depths := dset (copyDepths (sortParams sig).depths 1) o 0 } := by
  unfold maskPartial maskCore
  change (prelude (sortParams sig) n _ >>= _) = _
  cases prelude (sortParams sig) n _ with
  | error e => rfl
  | ok t =>
    obtain ⟨c, pos, pok⟩ := t
    simp only [bind, Except.bind, initState, Bool.or_self, Bool.false_eq_true, if_false, partNames,
      Option.map_some]
    cases maskNames _ _ _ <;> rfl

/-- the keyword-only parameter a binding `x = v` leaves behind -/
def boundParam (p : Param) (v : Nat) : Param := (p.withKind .ko).withDflt (some v)

theorem maskName_part (vk : Option Param) (st : KState) (x v o : Nat) :
    maskName vk st x (some (v, o)) =
      if st.consumed.contains x then .error .valueError else
      match pget st.byName x with
      | some bp =>
        match indexOf? st.pok bp with
        | none => .error .valueError
        | some i =>
          .ok { pok := st.pok.take i, va := none,
                kwo := pset (pupdate st.kwo ((st.pok.drop (i + 1)).map (·.withKind .ko)))
                         (boundParam (st.pok.getD i bp) v),
                src := srcVa st.va st.src,
                consumed := st.consumed ++ [x], byName := st.pok.take i }
      | none =>
        match pget st.kwo x with
        | some param => .ok { st with kwo := pset st.kwo (boundParam param v),
                                      consumed := st.consumed ++ [x] }
        | none => if vk.isNone then .error .valueError
                  else if starNamed st.va vk x then .ok { st with consumed := st.consumed ++ [x] }
                  else .ok { st with kwo := pset st.kwo { name := x, kind := .ko, dflt := some v },
                                     src := dset st.src x [o],
                                     consumed := st.consumed ++ [x] } := by
  unfold maskName
  by_cases hc : st.consumed.contains x = true
  · simp only [hc, if_true]
  · simp only [hc, Bool.false_eq_true, if_false]
    cases pget st.byName x with
    | some bp =>
      simp only
      cases indexOf? st.pok bp with
      | none => rfl
      | some i => rfl
    | none =>
      simp only
      cases pget st.kwo x <;> rfl


theorem getD_of_indexOf {l : List Param} {bp d : Param} {i : Nat} (h : indexOf? l bp = some i) :
    l.getD i d = bp := by
  induction l generalizing i with
  | nil => simp [indexOf?] at h
  | cons q t ih =>
    unfold indexOf? at h
    by_cases hq : q = bp
    · simp only [hq, if_true, Option.some.injEq] at h
      subst h; simp [hq]
    · simp only [hq, if_false, Option.map_eq_some_iff] at h
      obtain ⟨j, hj, rfl⟩ := h
      simpa using ih hj

theorem names_pset_of_mem {d : List Param} {p : Param} (h : p.name ∈ names d) :
    names (pset d p) = names d := by
  induction d with
  | nil => simp at h
  | cons q t ih =>
    unfold pset
    by_cases hq : q.name = p.name
    · simp [hq]
    · simp only [hq, if_false, names_cons]
      simp only [names_cons, List.mem_cons] at h
      rcases h with h | h
      · exact absurd h.symm hq
      · rw [ih h]

theorem mem_pset_iff {d : List Param} {p q : Param} (hnd : (names d).Nodup) (h : p.name ∈ names d) :
    q ∈ pset d p ↔ (q ∈ d ∧ q.name ≠ p.name) ∨ q = p := by
  induction d with
  | nil => simp at h
  | cons a t ih =>
    simp only [names_cons, List.nodup_cons] at hnd
    unfold pset
    by_cases ha : a.name = p.name
    · simp only [ha, if_true, List.mem_cons]
      have hnt : ∀ r ∈ t, r.name ≠ p.name := by
        intro r hr e; apply hnd.1; rw [ha, ← e]; exact mem_names_of_mem hr
      constructor
      · rintro (rfl | hq)
        · exact Or.inr rfl
        · exact Or.inl ⟨Or.inr hq, hnt q hq⟩
      · rintro (⟨rfl | hq, hne⟩ | rfl)
        · exact absurd ha hne
        · exact Or.inr hq
        · exact Or.inl rfl
    · simp only [ha, if_false, List.mem_cons]
      simp only [names_cons, List.mem_cons] at h
      have h' : p.name ∈ names t := by
        rcases h with h | h
        · exact absurd h.symm ha
        · exact h
      rw [ih hnd.2 h']
      constructor
      · rintro (rfl | ⟨hq, hne⟩ | rfl)
        · exact Or.inl ⟨Or.inl rfl, ha⟩
        · exact Or.inl ⟨Or.inr hq, hne⟩
        · exact Or.inr rfl
      · rintro (⟨rfl | hq, hne⟩ | rfl)
        · exact Or.inl rfl
        · exact Or.inr (Or.inl ⟨hq, hne⟩)
        · exact Or.inr (Or.inr rfl)

@[simp] theorem boundParam_name (p : Param) (v : Nat) : (boundParam p v).name = p.name := rfl
@[simp] theorem boundParam_kind (p : Param) (v : Nat) : (boundParam p v).kind = .ko := rfl
@[simp] theorem boundParam_dflt (p : Param) (v : Nat) : (boundParam p v).dflt = some v := rfl
@[simp] theorem boundParam_required (p : Param) (v : Nat) : (boundParam p v).required = false := rfl

/-- the absorbed keyword as a new keyword-only parameter -/
def newParam (x v : Nat) : Param := { name := x, kind := .ko, dflt := some v }

/-- the weaker loop invariant of partial mode: the names of `*args`/`**kwargs` and of the
    positional-only parameters may clash with an absorbed keyword until the final validation -/
structure WInv_C19 (pos : List Param) (vk : Option Param) (st : KState) : Prop where
  bk : BucketKinds (sOf pos vk st)
  ndk : (names (st.pok ++ st.kwo)).Nodup
  df : (pos ++ st.pok).Pairwise DF
  byn : ∃ pre, st.byName = pre ++ st.pok ∧ ∀ x ∈ names pre, x ∈ st.consumed

inductive StepKindP (vk : Option Param) (st : KState) (x v o : Nat) : Except Err KState → Prop
  | isConsumed (e : Err) : x ∈ st.consumed → StepKindP vk st x v o (.error e)
  | hitPok (before conv : List Param) (bp : Param) :
      x ∉ st.consumed → st.pok = before ++ bp :: conv → bp.name = x →
      StepKindP vk st x v o
        (.ok { pok := before, va := none,
               kwo := st.kwo ++ conv.map (·.withKind .ko) ++ [boundParam bp v],
               src := srcVa st.va st.src,
               consumed := st.consumed ++ [x], byName := before })
  | hitKwo (param : Param) : x ∉ st.consumed → x ∉ names st.pok → param ∈ st.kwo → param.name = x →
      StepKindP vk st x v o
        (.ok { st with kwo := pset st.kwo (boundParam param v), consumed := st.consumed ++ [x] })
  | toVk : x ∉ st.consumed → x ∉ names st.pok → x ∉ names st.kwo → vk.isSome = true →
      starNamed st.va vk x = false →
      StepKindP vk st x v o
        (.ok { st with kwo := st.kwo ++ [newParam x v], src := dset st.src x [o], consumed := st.consumed ++ [x] })
  | toStar : x ∉ st.consumed → x ∉ names st.pok → x ∉ names st.kwo → vk.isSome = true →
      starNamed st.va vk x = true →
      StepKindP vk st x v o (.ok { st with consumed := st.consumed ++ [x] })
  | noVk : x ∉ st.consumed → x ∉ names st.pok → x ∉ names st.kwo → vk = none →
      StepKindP vk st x v o (.error .valueError)

theorem WInv_C19.parts {pos : List Param} {vk : Option Param} {st : KState} (inv : WInv_C19 pos vk st) :
    (names st.pok).Nodup ∧ (names st.kwo).Nodup ∧ (∀ y ∈ names st.pok, y ∉ names st.kwo) := by
  have := inv.ndk
  rw [names_append, List.nodup_append] at this
  exact ⟨this.1, this.2.1, fun y hy hy' => this.2.2 y hy y hy' rfl⟩

theorem maskNameP_kind {pos : List Param} {vk : Option Param} {st : KState} (inv : WInv_C19 pos vk st)
    (x v o : Nat) : StepKindP vk st x v o (maskName vk st x (some (v, o))) := by
  rw [maskName_part]
  by_cases hc : x ∈ st.consumed
  · rw [if_pos (by simpa using hc)]
    exact .isConsumed _ hc
  · rw [if_neg (by simpa using hc)]
    obtain ⟨pre, hpre, hcons⟩ := inv.byn
    have hxpre : x ∉ names pre := fun h => hc (hcons x h)
    have hg : pget st.byName x = pget st.pok x := by
      rw [hpre]; exact pget_append_of_not_mem hxpre
    rw [hg]
    obtain ⟨p2, p3, p6⟩ := inv.parts
    cases hp : pget st.pok x with
    | some bp =>
      obtain ⟨i, h1, h2, h3, h4⟩ := pget_split hp
      simp only [h1]
      have hkw : pupdate st.kwo ((st.pok.drop (i + 1)).map (·.withKind .ko)) =
          st.kwo ++ (st.pok.drop (i + 1)).map (·.withKind .ko) := by
        apply pupdate_of_disjoint
        · intro y hy
          rw [names_map_withKind, names_drop] at hy
          exact p6 y (List.mem_of_mem_drop hy)
        · rw [names_map_withKind, names_drop]
          exact p2.sublist (List.drop_sublist _ _)
      rw [hkw, getD_of_indexOf h1]
      have hps : pset (st.kwo ++ (st.pok.drop (i + 1)).map (·.withKind .ko)) (boundParam bp v) =
          st.kwo ++ (st.pok.drop (i + 1)).map (·.withKind .ko) ++ [boundParam bp v] := by
        apply pset_of_not_mem
        rw [boundParam_name, h4, names_append, names_map_withKind, List.mem_append, not_or]
        have hxp : x ∈ names st.pok := by rw [← h4]; exact mem_names_of_mem (pget_some hp).1
        refine ⟨p6 x hxp, ?_⟩
        rw [h2, names_append, names_cons, h4] at p2
        have := (List.nodup_append.1 p2).2.1
        rw [List.nodup_cons] at this
        exact this.1
      rw [hps]
      exact .hitPok _ _ bp hc h2 h4
    | none =>
      have hxp : x ∉ names st.pok := pget_eq_none.1 hp
      simp only
      cases hk : pget st.kwo x with
      | some q =>
        simp only
        have := pget_some hk
        exact .hitKwo q hc hxp this.1 this.2
      | none =>
        have hxk : x ∉ names st.kwo := pget_eq_none.1 hk
        simp only
        have hps : pset st.kwo { name := x, kind := .ko, dflt := some v } = st.kwo ++ [newParam x v] :=
          pset_of_not_mem hxk
        rw [hps]
        cases hv : vk with
        | none => simp only [Option.isNone_none, if_true]; exact .noVk hc hxp hxk rfl
        | some w =>
          simp only [Option.isNone_some, Bool.false_eq_true, if_false]
          by_cases hs : starNamed st.va (some w) x = true
          · rw [if_pos hs]; exact .toStar hc hxp hxk rfl hs
          · rw [if_neg hs]; exact .toVk hc hxp hxk rfl (by simpa using hs)



/-- adding an optional keyword-only parameter `x`: a call may now pass `x`, and nothing else
    changes -/
theorem accP_addopt {s s' : Sorted} {px : Param} (hpos : s'.pos = s.pos) (hpok : s'.pok = s.pok)
    (hva : s'.va = s.va) (hvk : s'.vk = s.vk)
    (hkwo : ∀ p, p ∈ s'.kwo ↔ p ∈ s.kwo ∨ p = px) (hreq : px.required = false)
    (hx1 : px.name ∉ names (s.pos ++ s.pok)) (hx2 : px.name ∉ names s.kwo) (m : Nat) (K : List Nat) :
    AccP s' m K ↔ AccP s m (K.filter (fun k => decide (k ≠ px.name))) := by
  have hnk : ∀ y, y ∈ names s'.kwo ↔ y ∈ names s.kwo ∨ y = px.name := by
    intro y
    simp only [mem_names, hkwo]
    constructor
    · rintro ⟨p, hp | rfl, rfl⟩
      · exact Or.inl ⟨p, hp, rfl⟩
      · exact Or.inr rfl
    · rintro (⟨p, hp, rfl⟩ | rfl)
      · exact ⟨p, Or.inl hp, rfl⟩
      · exact ⟨px, Or.inr rfl, rfl⟩
  have hT : px.name ∉ names ((s.pos ++ s.pok).take m) := by
    intro h; apply hx1; rw [names_take] at h; exact List.mem_of_mem_take h
  have hxpok : px.name ∉ names s.pok := fun h => hx1 (by simp [h])
  have hp1 : ∀ p ∈ s.pos, p.name ≠ px.name := fun p hp e =>
    hx1 (e ▸ mem_names_of_mem (by simp [hp]))
  have hp2 : ∀ p ∈ s.pok, p.name ≠ px.name := fun p hp e =>
    hx1 (e ▸ mem_names_of_mem (by simp [hp]))
  have hp3 : ∀ p ∈ s.kwo, p.name ≠ px.name := fun p hp e => hx2 (e ▸ mem_names_of_mem hp)
  unfold AccP
  rw [hpos, hpok, hva, hvk]
  simp only [hnk, hkwo, List.mem_filter, decide_eq_true_eq]
  constructor
  · rintro ⟨c1, c2, c3⟩
    refine ⟨c1, ?_, ?_⟩
    · rintro k ⟨hk, hne⟩
      have := c2 k hk
      grind
    · intro p hp hr
      have := c3 p (by grind) hr
      grind
  · rintro ⟨c1, c2, c3⟩
    refine ⟨c1, ?_, ?_⟩
    · intro k hk
      by_cases hkx : k = px.name
      · subst hkx
        exact ⟨fun _ => hT, fun h => absurd (Or.inr (Or.inr rfl)) h⟩
      · have := c2 k ⟨hk, hkx⟩
        grind
    · intro p hp hr
      by_cases hpx : p = px
      · subst hpx; rw [hreq] at hr; cases hr
      · have := c3 p (by grind) hr
        grind




theorem dget_dpop_ne_C19 {α : Type} (d : List (Nat × α)) {k y : Nat} (h : k ≠ y) :
    dget (dpop d k) y = dget d y := by
  induction d with
  | nil => rfl
  | cons e t ih =>
    obtain ⟨k', v⟩ := e
    unfold dpop at ih ⊢
    by_cases hk : k' = k
    · subst hk
      have e1 : List.filter (fun e : Nat × α => decide (e.1 ≠ k')) ((k', v) :: t) =
          List.filter (fun e : Nat × α => decide (e.1 ≠ k')) t := by
        simp
      rw [e1, ih]
      simp only [dget, h, if_false]
    · have e1 : List.filter (fun e : Nat × α => decide (e.1 ≠ k)) ((k', v) :: t) =
          (k', v) :: List.filter (fun e : Nat × α => decide (e.1 ≠ k)) t := by
        simp [hk]
      rw [e1]
      simp only [dget, ih]

theorem dget_dset_ne {α : Type} (d : List (Nat × α)) {k y : Nat} (v : α) (h : k ≠ y) :
    dget (dset d k v) y = dget d y := by
  induction d with
  | nil => simp [dset, dget, h]
  | cons e t ih =>
    obtain ⟨k', v'⟩ := e
    unfold dset
    by_cases hk : k' = k
    · subst hk
      simp only [if_true, dget, h, if_false]
    · simp only [hk, if_false, dget, ih]

theorem dget_dset_self {α : Type} (d : List (Nat × α)) (k : Nat) (v : α) :
    dget (dset d k v) k = some v := by
  induction d with
  | nil => simp [dset, dget]
  | cons e t ih =>
    obtain ⟨k', v'⟩ := e
    unfold dset
    by_cases hk : k' = k
    · simp [hk, dget]
    · simp only [hk, if_false, dget, ih]


theorem stepP_inv {pos : List Param} {vk : Option Param} {st st' : KState} {x v o : Nat}
    (inv : WInv_C19 pos vk st) (hk : StepKindP vk st x v o (.ok st')) :
    WInv_C19 pos vk st' ∧ st'.consumed = st.consumed ++ [x] ∧
    (∀ y, (y ∈ names st'.pok ∨ y ∈ names st'.kwo) →
      (y ∈ names st.pok ∨ y ∈ names st.kwo ∨ y = x)) ∧
    (st'.va = none ∨ st'.va = st.va) ∧ st'.pok <+: st.pok ∧ x ∉ names st'.pok ∧
    (x ∈ names st.pok → st'.va = none) ∧
    (∀ p ∈ st.kwo, p.name ≠ x → p ∈ st'.kwo) ∧
    (¬ (x ∉ names st.pok ∧ x ∉ names st.kwo ∧ starNamed st.va vk x = true) →
      ∃ p ∈ st'.kwo, p.name = x ∧ p.kind = .ko ∧ p.dflt = some v) := by
  obtain ⟨bk, ndk, df, pre, hpre, hcons⟩ := inv
  cases hk with
  | hitPok before conv bp hc hpok hx =>
    subst hx
    simp only [sOf] at bk
    refine ⟨⟨⟨bk.pos, ?_, ?_, ?_, bk.vk⟩, ?_, ?_, [], by simp, by simp⟩, rfl, ?_, Or.inl rfl, ?_, ?_,
      fun _ => rfl, ?_, ?_⟩
    · intro p hp; simp only [sOf] at hp; exact bk.pok p (by simp [hpok, hp])
    · intro p hp; cases hp
    · intro p hp
      simp only [sOf, List.mem_append, List.mem_map, List.mem_singleton] at hp
      rcases hp with (hp | ⟨q, -, rfl⟩) | rfl
      · exact bk.kwo p hp
      · rfl
      · rfl
    · simp only [hpok, names_append, names_cons, names_map_withKind, names_nil, boundParam_name,
        List.nodup_append, List.nodup_cons, List.mem_append, List.mem_cons] at ndk ⊢
      grind
    · simp only [hpok] at df ⊢
      rw [← List.append_assoc] at df
      exact (List.pairwise_append.1 df).1
    · intro y hy
      simp only [hpok, names_append, names_cons, names_map_withKind, names_nil, boundParam_name,
        List.mem_append, List.mem_cons] at hy ⊢
      grind
    · rw [hpok]; exact List.prefix_append _ _
    · simp only [hpok, names_append, names_cons, List.nodup_append, List.nodup_cons,
        List.mem_append, List.mem_cons] at ndk
      grind
    · intro p hp _; simp [hp]
    · exact fun _ => ⟨boundParam bp v, by simp, rfl, rfl, rfl⟩
  | hitKwo param hc hp hmem hname =>
    subst hname
    have hnm : (boundParam param v).name ∈ names st.kwo := mem_names_of_mem hmem (p := param)
    simp only [sOf] at bk
    have hndk : (names st.kwo).Nodup := by
      rw [names_append] at ndk; exact (List.nodup_append.1 ndk).2.1
    refine ⟨⟨⟨bk.pos, bk.pok, bk.va, ?_, bk.vk⟩, ?_, df, pre, hpre, ?_⟩, rfl, ?_, Or.inr rfl,
      List.prefix_refl _, hp, fun h => absurd h hp, ?_, ?_⟩
    · intro p hp'
      simp only [sOf] at hp'
      rcases mem_pset hp' with h | rfl
      · exact bk.kwo p h
      · rfl
    · simp only [names_append] at ndk ⊢
      rw [names_pset_of_mem hnm]; exact ndk
    · intro y hy; simp [hcons y hy]
    · intro y hy
      simp only at hy
      rw [names_pset_of_mem hnm] at hy
      rcases hy with h | h
      · exact Or.inl h
      · exact Or.inr (Or.inl h)
    · intro p hp' hne
      exact (mem_pset_iff hndk hnm).2 (Or.inl ⟨hp', hne⟩)
    · exact fun _ => ⟨boundParam param v, (mem_pset_iff hndk hnm).2 (Or.inr rfl), rfl, rfl, rfl⟩
  | toVk hc hp hkw hv hns =>
    simp only [sOf] at bk
    refine ⟨⟨⟨bk.pos, bk.pok, bk.va, ?_, bk.vk⟩, ?_, df, pre, hpre, ?_⟩, rfl, ?_, Or.inr rfl,
      List.prefix_refl _, hp, fun h => absurd h hp, ?_, ?_⟩
    · intro p hp'
      simp only [sOf, List.mem_append, List.mem_singleton] at hp'
      rcases hp' with h | rfl
      · exact bk.kwo p h
      · rfl
    · simp only [names_append, names_cons, names_nil, newParam, List.nodup_append, List.nodup_cons,
        List.mem_append, List.mem_cons] at ndk ⊢
      grind
    · intro y hy; simp [hcons y hy]
    · intro y hy
      simp only [names_append, names_cons, names_nil, newParam, List.mem_append,
        List.mem_singleton] at hy
      grind
    · intro p hp' _; simp [hp']
    · exact fun _ => ⟨newParam x v, by simp, rfl, rfl, rfl⟩
  | toStar hc hp hkw hv hs =>
    refine ⟨⟨bk, ndk, df, pre, hpre, ?_⟩, rfl, ?_, Or.inr rfl,
      List.prefix_refl _, hp, fun h => absurd h hp, fun p hp' _ => hp', fun h => absurd ⟨hp, hkw, hs⟩ h⟩
    · intro y hy; simp [hcons y hy]
    · intro y hy
      rcases hy with h | h
      · exact Or.inl h
      · exact Or.inr (Or.inl h)

theorem stepP_src {vk : Option Param} {st st' : KState} {x v o : Nat}
    (hk : StepKindP vk st x v o (.ok st')) :
    (∀ y, y ≠ x → (∀ a, st.va = some a → a.name ≠ y) → dget st'.src y = dget st.src y) ∧
    (x ∉ names st.pok → x ∉ names st.kwo → starNamed st.va vk x = false → dget st'.src x = some [o]) := by
  cases hk with
  | hitPok before conv bp hc hpok hx =>
    constructor
    · intro y _ hva
      simp only [srcVa]
      cases h : st.va with
      | none => rfl
      | some a => exact dget_dpop_ne_C19 _ (hva a h)
    · intro h; exfalso; apply h; rw [hpok, ← hx]; simp
  | hitKwo param hc hp hmem hname =>
    exact ⟨fun _ _ _ => rfl, fun _ h => absurd (hname ▸ mem_names_of_mem hmem) h⟩
  | toVk hc hp hkw hv hns =>
    exact ⟨fun y hy _ => dget_dset_ne _ _ (Ne.symm hy), fun _ _ _ => dget_dset_self _ _ _⟩
  | toStar hc hp hkw hv hs =>
    exact ⟨fun _ _ _ => rfl, fun _ _ h => by rw [hs] at h; cases h⟩


theorem stepP_acc {pos : List Param} {vk : Option Param} {st st' : KState} {x v o : Nat}
    (hnd : (names (pos ++ st.pok ++ st.kwo)).Nodup) (hxp : x ∉ names pos)
    (hk : StepKindP vk st x v o (.ok st')) (m : Nat) (K : List Nat) :
    (names (pos ++ st'.pok ++ st'.kwo)).Nodup ∧
    (AccP (sOf pos vk st') m K ↔
      AccP (sOf pos vk st) m (x :: K.filter (fun k => decide (k ≠ x)))) := by
  have hKx : x ∉ K.filter (fun k => decide (k ≠ x)) := by simp
  cases hk with
  | hitPok before conv bp hc hpok hx =>
    subst hx
    rw [hpok] at hnd
    have hnd2 := hnd
    simp only [names_append, names_cons, List.nodup_append, List.nodup_cons, List.mem_append,
      List.mem_cons] at hnd2
    constructor
    · simp only [names_append, names_cons, names_map_withKind, names_nil, boundParam_name,
        List.nodup_append, List.nodup_cons, List.mem_append, List.mem_cons]
      grind
    · refine Iff.trans (accP_addopt
        (s := { pos := pos, pok := before, va := none, kwo := st.kwo ++ conv.map (·.withKind .ko), vk := vk })
        (px := boundParam bp v) ?_ ?_ ?_ ?_ ?_ ?_ ?_ ?_ m K) ?_
      · rfl
      · rfl
      · rfl
      · rfl
      · intro p; simp [sOf, or_assoc]
      · rfl
      · simp only [boundParam_name, names_append, List.mem_append]
        grind
      · simp only [boundParam_name, names_append, names_map_withKind, List.mem_append]
        grind
      · have e3 : sOf pos vk st =
            { pos := pos, pok := before ++ bp :: conv, va := st.va, kwo := st.kwo, vk := vk } := by
          simp [sOf, hpok]
        rw [e3]
        exact step_hit_w (va := st.va) (vk := vk) m (K.filter (fun k => decide (k ≠ bp.name))) hnd hKx
  | hitKwo param hc hp hmem hname =>
    subst hname
    have hnm : (boundParam param v).name ∈ names st.kwo := mem_names_of_mem hmem (p := param)
    have hndk : (names st.kwo).Nodup := by
      rw [names_append] at hnd; exact (List.nodup_append.1 hnd).2.1
    constructor
    · simp only [names_append] at hnd ⊢
      rw [names_pset_of_mem hnm]; exact hnd
    · have hx1 : param.name ∉ names (pos ++ st.pok) := by
        simp only [names_append, List.mem_append, not_or]; exact ⟨hxp, hp⟩
      refine Iff.trans (accP_addopt
        (s := { pos := pos, pok := st.pok, va := st.va, kwo := ppop st.kwo param.name, vk := vk })
        (px := boundParam param v) ?_ ?_ ?_ ?_ ?_ ?_ hx1 ?_ m K) ?_
      · rfl
      · rfl
      · rfl
      · rfl
      · intro p
        simp only [sOf]
        rw [mem_pset_iff hndk hnm, mem_ppop, boundParam_name]
      · rfl
      · rw [boundParam_name, mem_names_ppop]; simp
      · exact step_kwo (va := st.va) (vk := vk) m _ hx1 hKx hnm
  | toStar hc hp hkw hv hs =>
    refine ⟨hnd, ?_⟩
    have hp1 : ∀ p ∈ pos, p.name ≠ x := fun p h e => hxp (e ▸ mem_names_of_mem h)
    have hp2 : ∀ p ∈ st.pok, p.name ≠ x := fun p h e => hp (e ▸ mem_names_of_mem h)
    have hp3 : ∀ p ∈ st.kwo, p.name ≠ x := fun p h e => hkw (e ▸ mem_names_of_mem h)
    unfold AccP
    simp only [sOf, List.mem_cons, List.mem_filter, decide_eq_true_eq]
    grind
  | toVk hc hp hkw hv hns =>
    constructor
    · simp only [names_append, names_cons, names_nil, newParam, List.nodup_append, List.nodup_cons,
        List.mem_append, List.mem_cons] at hnd ⊢
      grind
    · refine Iff.trans (accP_addopt (s := sOf pos vk st) (px := newParam x v) ?_ ?_ ?_ ?_ ?_ ?_
        ?_ ?_ m K) ?_
      · rfl
      · rfl
      · rfl
      · rfl
      · intro p; simp [sOf]
      · rfl
      · simp only [newParam, sOf, names_append, List.mem_append, not_or]; exact ⟨hxp, hp⟩
      · simpa [newParam, sOf] using hkw
      · exact step_vk m _ hp hkw hv


end SV

