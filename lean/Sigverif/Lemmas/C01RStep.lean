/-
  Lemmas/C01RStep.lean — one `mergeStep` preserves the role invariant `RI`, and the fate of the
  required positional parameters of both operands.
-/
import Sigverif.Lemmas.C01RJQ
namespace SV
variable {ρ : Roles} {IsIn : Nat → Prop} {l r m : Sorted}

structure RStepFacts (ρ : Roles) (IsIn : Nat → Prop) (l r m : Sorted) : Prop where
  ri : RI ρ IsIn m
  fl : ∀ p, (p ∈ l.pos ∨ p ∈ l.pok) → p.required = true → Fate ρ m.pos m.pok m.kwo l.pok p
  fr : ∀ p, (p ∈ r.pos ∨ p ∈ r.pok) → p.required = true → Fate ρ m.pos m.pok m.kwo r.pok p

theorem RJ_init (hl : RI ρ IsIn l) (hr : RI ρ IsIn r) :
    RJ ρ l r (l.pos ++ l.pok) (r.pos ++ r.pok) (stK l r) := by
  have hlk : (names l.kwo).Nodup := by
    have := hl.kw; unfold KwInv at this
    simp only [names_append_C01, List.nodup_append] at this; exact this.2.1
  have hrk : (names r.kwo).Nodup := by
    have := hr.kw; unfold KwInv at this
    simp only [names_append_C01, List.nodup_append] at this; exact this.2.1
  obtain ⟨k1, k2, k3, k4, k5⟩ := stK_upd (l := l) (r := r) hlk hrk
  have ml : mlen (stK l r) = 0 := by simp [mlen, k1, k2]
  refine ⟨fun p hp => List.mem_append.1 hp, fun p hp => List.mem_append.1 hp, ?_, ?_, ?_, ?_, ?_,
    ?_, ?_, ?_, ?_, ?_, ?_, ?_, ?_⟩
  · rw [k4]; exact fun p hp => (mem_lUnK.1 hp).1
  · rw [k5]; exact fun p hp => (mem_rUnK.1 hp).1
  · rw [k1, k2]; trivial
  · intro _; rw [ml]; exact hl.idx
  · intro _; rw [ml]; exact hr.idx
  · rw [ml]; exact fun _ _ => Nat.zero_le _
  · rw [ml]; exact fun _ _ => Nat.zero_le _
  · intro p hp _; exact Or.inr (List.mem_append.2 hp)
  · intro p hp _; exact Or.inr (List.mem_append.2 hp)
  · rw [k3]; intro c hc
    exact Or.inl (mem_names_kwoK (mem_names_of_mem_C01 hc)).1
  · rw [k1, k2]; simp
  · rw [k2]; simp
  · rw [k3]; intro c hc
    exact Or.inr (Or.inl (mem_names_kwoK (mem_names_of_mem_C01 hc)).1)

theorem RJ_phaseP {ls rs il ir il' ir' : List Param} {st st' : MState}
    (h : phaseP l r ls rs il ir st = .ok (st', il', ir'))
    (hJ : RJ ρ l r (ls ++ il) (rs ++ ir) st) (hp : st.pok = []) :
    RJ ρ l r il' ir' st' ∧ st'.pok = [] := by
  refine phaseP_inv (l := l) (r := r) (fun A B st => RJ ρ l r A B st ∧ st.pok = [])
    ?_ ?_ ?_ ?_ ?_ h ⟨hJ, hp⟩
  · rintro a b A B st st1 c hc hu ⟨h1, h2⟩
    exact ⟨rj_p_pair hc hu h2 h1, hu.2.1.trans h2⟩
  · rintro x A st st1 hva hu ⟨h1, h2⟩
    exact ⟨rj_p_lva hva hu h2 h1, hu.2.1.trans h2⟩
  · rintro x A st st1 hva hd hu ⟨h1, h2⟩
    exact ⟨rj_ldrop hva hd hu h1, hu.2.1.trans h2⟩
  · rintro x B st st1 hva hu ⟨h1, h2⟩
    exact ⟨rj_p_rva hva hu h2 h1, hu.2.1.trans h2⟩
  · rintro x B st st1 hva hd hu ⟨h1, h2⟩
    exact ⟨rj_rdrop hva hd hu h1, hu.2.1.trans h2⟩

theorem RJ_phaseQ (hl : RI ρ IsIn l) (hr : RI ρ IsIn r) {ls rs : List Param} {st st' : MState}
    (h : phaseQ l r ls rs st = .ok st')
    (hJ : RJ ρ l r ls rs st) (hS : SInv l r ls rs st) (hN : NInv ls rs st) :
    RJ ρ l r [] [] st' := by
  have hrk : ∀ q ∈ r.kwo, ρ.κ q.name = .pk → r.va.isSome = false := by
    intro q hq hk
    rcases hr.kkwo q hq with h' | h'
    · rw [hk] at h'; cases h'
    · exact h'.2.1
  have hlk : ∀ q ∈ l.kwo, ρ.κ q.name = .pk → l.va.isSome = false := by
    intro q hq hk
    rcases hl.kkwo q hq with h' | h'
    · rw [hk] at h'; cases h'
    · exact h'.2.1
  refine (phaseQ_inv (l := l) (r := r)
    (fun A B st => RJ ρ l r A B st ∧ SInv l r A B st ∧ NInv A B st) ?_ ?_ ?_ ?_ h ⟨hJ, hS, hN⟩).1
  · rintro lp rp ls rs st st1 hn hu ⟨h1, h2, h3⟩
    exact ⟨rj_q_match hn hu (h2.ls_sub lp List.mem_cons_self) (h2.rs_sub rp List.mem_cons_self) h1,
      q_match_S hl.bk hr.bk hn hu h2, q_match_N hn hu h3⟩
  · rintro lp rp ls rs st st1 _ hu ⟨h1, h2, h3⟩
    exact ⟨rj_q_mis hu h1, q_mis_S hu h2, q_mis_N hu h3⟩
  · rintro x ls st st1 hq ⟨h1, h2, h3⟩
    have hx := h2.ls_sub x List.mem_cons_self
    have hfresh : x.name ∉ names st.kwo := by
      have := h3.nl; simp [List.nodup_append] at this; grind
    exact ⟨rj_q_left (pokCases_L hq) hx hfresh (hl.kpok x hx) hrk h1, q_left_S hl.bk hq h2,
      q_left_N hq h3⟩
  · rintro x rs st st1 hq ⟨h1, h2, h3⟩
    have hx := h2.rs_sub x List.mem_cons_self
    have hfresh : x.name ∉ names st.kwo := by
      have := h3.nr; simp [List.nodup_append] at this; grind
    exact ⟨rj_q_right (pokCases_R hq) hx hfresh (hr.kpok x hx) hlk h1, q_right_S hr.bk hq h2,
      q_right_N hq h3⟩

theorem name_mem_elim {ps : List Param} {x : Nat} (h : x ∈ names ps) : ∃ p ∈ ps, p.name = x :=
  mem_names_C01.1 h

theorem mergeStep_rfacts (hl : RI ρ IsIn l) (hr : RI ρ IsIn r) (h : mergeStep l r = .ok m) :
    RStepFacts ρ IsIn l r m := by
  have F := mergeStep_facts hl.bk hr.bk hl.kw hr.kw h
  obtain ⟨st1, il, ir, st2, st3, st4, h1, h2, h3, h4, e1, e2, e3, e4, e5⟩ := mergeStep_inv h
  have hlk : (names l.kwo).Nodup := by
    have := hl.kw; unfold KwInv at this
    simp only [names_append_C01, List.nodup_append] at this; exact this.2.1
  have hrk : (names r.kwo).Nodup := by
    have := hr.kw; unfold KwInv at this
    simp only [names_append_C01, List.nodup_append] at this; exact this.2.1
  have P := phaseP_spec _ _ _ _ _ _ _ _ h1
  obtain ⟨cl, hcl⟩ := P.sufl
  obtain ⟨cr, hcr⟩ := P.sufr
  have N0 : NInv (cl ++ il) (cr ++ ir) (stK l r) := hcl ▸ hcr ▸ stK_N hl.kw hr.kw
  have N1 : NInv il ir st1 := NInv_of_suffix N0 P.pok P.kwo P.lun P.run
  obtain ⟨N2, Q, QS⟩ := phaseQ_spec hl.bk hr.bk il ir st1 st2 h2 N1
  obtain ⟨k1, k2, k3, k4, k5⟩ := stK_upd (l := l) (r := r) hlk hrk
  have S0 := stK_S (r := r) hl.bk hlk hrk
  have S1 : SInv l r il ir st1 := by
    refine ⟨?_, ?_, ?_, ?_, ?_, ?_, ?_⟩
    · intro p hp; rw [hcl]; exact List.mem_append_right _ hp
    · intro p hp; rw [hcr]; exact List.mem_append_right _ hp
    · rw [P.lun]; exact S0.lun_sub
    · rw [P.run]; exact S0.run_sub
    · apply P.kind
      · intro p hp
        rcases List.mem_append.1 hp with hp | hp
        · exact hl.bk.pos p hp
        · exact hr.bk.pos p hp
      · exact S0.kpos
    · rw [P.pok]; exact S0.kpok
    · rw [P.kwo]; exact S0.kkwo
  have S2 := QS S1
  obtain ⟨A, B, ⟨u1, u2, u3, u4, u5⟩, hA, hB⟩ := unmatched_spec N2 h3 h4
  obtain ⟨J1, _⟩ := RJ_phaseP h1 (RJ_init hl hr) k2
  have J2 := RJ_phaseQ hl hr h2 J1 S1 N1
  have hAsub : ∀ p ∈ A, p ∈ l.kwo := by
    intro p hp
    rcases hA with ⟨rfl, -⟩ | ⟨rfl, -⟩
    · exact S2.lun_sub p hp
    · simp at hp
  have hBsub : ∀ p ∈ B, p ∈ r.kwo := by
    intro p hp
    rcases hB with ⟨rfl, -⟩ | ⟨rfl, -⟩
    · exact S2.run_sub p hp
    · simp at hp
  have mpos : m.pos = st2.pos := e1.trans u1
  have mpok : m.pok = st2.pok := e2.trans u2
  have mkwo : m.kwo = st2.kwo ++ A ++ B := e3.trans u3
  have mlen2 : m.pos.length + m.pok.length = mlen st2 := by simp [mlen, mpos, mpok]
  have fmono : ∀ own p, Fate ρ st2.pos st2.pok st2.kwo own p → Fate ρ m.pos m.pok m.kwo own p := by
    intro own p hf
    refine Fate_mono hf ?_ ?_ ?_
    · intro c hc; rw [mpos]; exact hc
    · intro x hx; rw [mpok]; exact Or.inl hx
    · intro x hx; rw [mkwo]; simp [hx]
  -- the bound for keyword-only parameters whose name is keyword-only in an operand
  have kkL : ∀ a ∈ l.kwo, ρ.κ a.name = .ko ∨ (ρ.κ a.name = .pk ∧ m.va.isSome = false ∧
      m.pos.length + m.pok.length ≤ ρ.ι a.name) := by
    intro a ha
    rcases hl.kkwo a ha with h' | ⟨h1', h2', h3'⟩
    · exact Or.inl h'
    · refine Or.inr ⟨h1', by rw [F.va, h2']; rfl, ?_⟩
      rcases F.lenl with h' | h'
      · omega
      · rw [h2'] at h'; cases h'
  have kkR : ∀ a ∈ r.kwo, ρ.κ a.name = .ko ∨ (ρ.κ a.name = .pk ∧ m.va.isSome = false ∧
      m.pos.length + m.pok.length ≤ ρ.ι a.name) := by
    intro a ha
    rcases hr.kkwo a ha with h' | ⟨h1', h2', h3'⟩
    · exact Or.inl h'
    · refine Or.inr ⟨h1', by rw [F.va, h2']; simp, ?_⟩
      rcases F.lenr with h' | h'
      · omega
      · rw [h2'] at h'; cases h'
  refine ⟨⟨F.bk, F.nd, ?_, ?_, ?_, ?_, ?_⟩, ?_, ?_⟩
  · -- names come from the operands
    intro p hp
    rw [mpos, mpok, mkwo] at hp
    simp only [List.mem_append] at hp
    have fromL : ∀ x, (x ∈ names l.pos ∨ x ∈ names l.pok ∨ x ∈ names l.kwo) → IsIn x := by
      rintro x (hx | hx | hx) <;> obtain ⟨q, hq, rfl⟩ := name_mem_elim hx
      · exact hl.isin q (Or.inl hq)
      · exact hl.isin q (Or.inr (Or.inl hq))
      · exact hl.isin q (Or.inr (Or.inr hq))
    have fromR : ∀ x, (x ∈ names r.pos ∨ x ∈ names r.pok ∨ x ∈ names r.kwo) → IsIn x := by
      rintro x (hx | hx | hx) <;> obtain ⟨q, hq, rfl⟩ := name_mem_elim hx
      · exact hr.isin q (Or.inl hq)
      · exact hr.isin q (Or.inr (Or.inl hq))
      · exact hr.isin q (Or.inr (Or.inr hq))
    rcases hp with hp | hp | (hp | hp) | hp
    · rcases J2.nmP p (Or.inl hp) with h' | h' | h' | h'
      · exact fromL _ (Or.inl h')
      · exact fromL _ (Or.inr (Or.inl h'))
      · exact fromR _ (Or.inl h')
      · exact fromR _ (Or.inr (Or.inl h'))
    · rcases J2.nmP p (Or.inr hp) with h' | h' | h' | h'
      · exact fromL _ (Or.inl h')
      · exact fromL _ (Or.inr (Or.inl h'))
      · exact fromR _ (Or.inl h')
      · exact fromR _ (Or.inr (Or.inl h'))
    · rcases J2.nmK p hp with h' | h' | h' | h'
      · exact fromL _ (Or.inr (Or.inl h'))
      · exact fromL _ (Or.inr (Or.inr h'))
      · exact fromR _ (Or.inr (Or.inl h'))
      · exact fromR _ (Or.inr (Or.inr h'))
    · exact hl.isin p (Or.inr (Or.inr (hAsub p hp)))
    · exact hr.isin p (Or.inr (Or.inr (hBsub p hp)))
  · rw [mpos, mpok]; exact J2.j1
  · intro p hp
    rw [mpos] at hp
    rcases J2.nmP p (Or.inl hp) with h' | h' | h' | h' <;> obtain ⟨q, hq, hqn⟩ := name_mem_elim h'
    · rw [← hqn]; exact hl.kpos q hq
    · rw [← hqn]; exact Or.inr (hl.kpok q hq)
    · rw [← hqn]; exact hr.kpos q hq
    · rw [← hqn]; exact Or.inr (hr.kpok q hq)
  · intro p hp
    rw [mpok] at hp
    rcases J2.nmQ p hp with h' | h' <;> obtain ⟨q, hq, hqn⟩ := name_mem_elim h'
    · rw [← hqn]; exact hl.kpok q hq
    · rw [← hqn]; exact hr.kpok q hq
  · intro p hp
    rw [mkwo] at hp
    simp only [List.mem_append] at hp
    rcases hp with (hp | hp) | hp
    · rcases J2.kk p hp with h' | h' | ⟨hk, hreg, hm⟩
      · obtain ⟨q, hq, hqn⟩ := name_mem_elim h'
        rw [← hqn]; exact kkL q hq
      · obtain ⟨q, hq, hqn⟩ := name_mem_elim h'
        rw [← hqn]; exact kkR q hq
      · refine Or.inr ⟨hk, ?_, by omega⟩
        rw [F.va]
        rcases hreg with ⟨-, h'⟩ | ⟨-, h'⟩ <;> simp [h']
    · exact kkL p (hAsub p hp)
    · exact kkR p (hBsub p hp)
  · intro p hp hr'
    rcases J2.fl p hp hr' with hf | hf
    · exact fmono _ p hf
    · simp at hf
  · intro p hp hr'
    rcases J2.fr p hp hr' with hf | hf
    · exact fmono _ p hf
    · simp at hf

end SV
