/-
  Lemmas/LawsRoles3.lean — merge_err_roles: assembling the invariants.
-/
import Sigverif.Lemmas.LawsRoles2
namespace SV
set_option linter.unusedSimpArgs false
set_option linter.unusedVariables false

theorem sufD_chain (sig : USig) (hwf : WF sig.params) :
    sufD ((sortParams sig).pos ++ (sortParams sig).pok) := by
  have hv : validate sig.params = .ok () := (validOk_iff_Laws _).1 hwf.1
  obtain ⟨_, _, hdf⟩ := (validate_iff _).1 hv
  have hbk := sortParams_bucketKinds sig
  rw [← sortParams_all_Laws sig hwf] at hdf
  have hsub : ((sortParams sig).pos ++ (sortParams sig).pok).Sublist (sortParams sig).all := by
    have e : (sortParams sig).all = ((sortParams sig).pos ++ (sortParams sig).pok) ++
        ((sortParams sig).va.toList ++ (sortParams sig).kwo ++ (sortParams sig).vk.toList) := by
      unfold Sorted.all; simp only [List.append_assoc]
    rw [e]; exact List.sublist_append_left _ _
  have := List.Pairwise.sublist hsub hdf
  unfold sufD
  refine List.Pairwise.imp_of_mem ?_ this
  intro p q hp hq h
  have kp : isPositional p = true := by
    rw [isPositional_iff]
    rcases List.mem_append.1 hp with hp | hp
    · exact .inl (hbk.pos p hp)
    · exact .inr (hbk.pok p hp)
  have kq : isPositional q = true := by
    rw [isPositional_iff]
    rcases List.mem_append.1 hq with hq | hq
    · exact .inl (hbk.pos q hq)
    · exact .inr (hbk.pok q hq)
  exact h kp kq

end SV

namespace SV
set_option linter.unusedSimpArgs false
set_option linter.unusedVariables false

theorem nodup_chain (sig : USig) (hwf : WF sig.params) :
    (names ((sortParams sig).pos ++ (sortParams sig).pok)).Nodup := by
  obtain ⟨_, hn, _, _⟩ := WF_inv _ hwf
  rw [← sortParams_all_Laws sig hwf] at hn
  have e : (sortParams sig).all = ((sortParams sig).pos ++ (sortParams sig).pok) ++
      ((sortParams sig).va.toList ++ (sortParams sig).kwo ++ (sortParams sig).vk.toList) := by
    unfold Sorted.all; simp only [List.append_assoc]
  rw [e] at hn
  exact List.Nodup.sublist ((List.sublist_append_left _ _).map _) hn

theorem chain_eq_positionals (sig : USig) (hwf : WF sig.params) :
    (sortParams sig).pos ++ (sortParams sig).pok = positionals sig.params := by
  rw [← positionals_all_Laws _ (sortParams_bucketKinds sig), sortParams_all_Laws sig hwf]

theorem mem_names_of_chain (sig : USig) (hwf : WF sig.params) (n : Nat)
    (h : n ∈ names ((sortParams sig).pos ++ (sortParams sig).pok)) : n ∈ allNames sig.params := by
  rw [chain_eq_positionals sig hwf] at h
  unfold allNames names positionals at *
  simp only [List.mem_map, List.mem_filter] at h ⊢
  obtain ⟨p, ⟨hp, _⟩, e⟩ := h
  exact ⟨p, hp, e⟩

theorem mergeStep_valid_of_roles (a b : USig) (ha : WF a.params) (hb : WF b.params)
    (hrc : roleCons [a.params, b.params]) (s : Sorted)
    (hs : mergeStep (sortParams a) (sortParams b) = .ok s) : validate s.all = .ok () := by
  have hbkL := sortParams_bucketKinds a
  have hbkR := sortParams_bucketKinds b
  have hbkS := mergeStep_bucketKinds' _ _ _ hbkL hbkR hs
  obtain ⟨st1, st2, st3, st4, il, ir, h1, h2, h3, h4, hsdef⟩ := mergeStep_ok _ _ _ hs
  generalize hL : sortParams a = L at *
  generalize hR : sortParams b = R at *
  generalize hst0 : ({ vaL := L.va.isSome, vaR := R.va.isSome, vkL := L.vk.isSome,
                       vkR := R.vk.isSome } : MState) = st0 at h1
  have hst0pos : st0.pos = [] := by rw [← hst0]
  have hst0pok : st0.pok = [] := by rw [← hst0]
  have hst0kwo : st0.kwo = [] := by rw [← hst0]
  have hst0lUn : st0.lUn = [] := by rw [← hst0]
  have hst0rUn : st0.rUn = [] := by rw [← hst0]
  generalize hstK : phaseK2 L R.kwo (phaseK1 L R L.kwo st0) = stK at h1
  -- the K phases
  have kpos : stK.pos = [] := by
    rw [← hstK, (phaseK2_cnt L R.kwo _ 0).1, (phaseK1_cnt L R L.kwo st0 0).1, hst0pos]
  have kpok : stK.pok = [] := by
    rw [← hstK, (phaseK2_cnt L R.kwo _ 0).2.1, (phaseK1_cnt L R L.kwo st0 0).2.1, hst0pok]
  have kcnt : ∀ n, cT stK.bk n ≤ cn L.kwo n + cn R.kwo n ∧ (1 ≤ cn L.kwo n → cT stK.bk n ≤ cn L.kwo n) := by
    intro n
    obtain ⟨a1, a2, a3, a4⟩ := phaseK1_cnt L R L.kwo st0 n
    obtain ⟨b1, b2, b3, b4, b5, b6⟩ := phaseK2_cnt L R.kwo (phaseK1 L R L.kwo st0) n
    rw [hstK] at b1 b2 b3 b4 b5 b6
    rw [a3] at b5 b6
    rw [hst0kwo, hst0lUn] at a4
    rw [hst0rUn] at b5 b6
    simp only [cT, MState.bk, kpos, kpok, b3, b4, cn_nil] at *
    omega
  -- the run of the positional phases
  have steps : Steps (L.pos ++ L.pok) (R.pos ++ R.pok) stK.bk [] [] st2.bk :=
    (run_P L R _ _ _ _ _ _ _ _ kpok h1).trans (run_Q L R _ _ _ _ h2)
  -- counts of the inputs
  have wfL : ∀ n, cn L.pos n + cn L.pok n + cn L.va.toList n + cn L.kwo n + cn L.vk.toList n ≤ 1 := by
    intro n
    obtain ⟨_, hn, _, _⟩ := WF_inv _ ha
    rw [← cn_all, ← hL, sortParams_all_Laws a ha]
    exact cn_le_one_of_nodup hn n
  have wfR : ∀ n, cn R.pos n + cn R.pok n + cn R.va.toList n + cn R.kwo n + cn R.vk.toList n ≤ 1 := by
    intro n
    obtain ⟨_, hn, _, _⟩ := WF_inv _ hb
    rw [← cn_all, ← hR, sortParams_all_Laws b hb]
    exact cn_le_one_of_nodup hn n
  have rc : ∀ n,
      (cn L.pos n = cn R.pos n ∧ cn L.pok n = cn R.pok n ∧ cn L.va.toList n = cn R.va.toList n ∧
        cn L.kwo n = cn R.kwo n ∧ cn L.vk.toList n = cn R.vk.toList n) ∨
      (cn L.pos n = 0 ∧ cn L.pok n = 0 ∧ cn L.va.toList n = 0 ∧ cn L.kwo n = 0 ∧ cn L.vk.toList n = 0) ∨
      (cn R.pos n = 0 ∧ cn R.pok n = 0 ∧ cn R.va.toList n = 0 ∧ cn R.kwo n = 0 ∧ cn R.vk.toList n = 0) := by
    intro n
    obtain ⟨p1, p2, p3, p4, p5⟩ := bucket_counts a ha n
    obtain ⟨q1, q2, q3, q4, q5⟩ := bucket_counts b hb n
    rw [hL] at p1 p2 p3 p4 p5
    rw [hR] at q1 q2 q3 q4 q5
    by_cases ma : n ∈ names a.params
    · by_cases mb : n ∈ names b.params
      · left
        have := (hrc a.params (by simp) b.params (by simp) n ma mb).1
        rw [p1, p2, p3, p4, p5, q1, q2, q3, q4, q5, this]
        exact ⟨rfl, rfl, rfl, rfl, rfl⟩
      · right; right
        rw [q1, q2, q3, q4, q5, kindOf_none mb]
        simp
    · right; left
      rw [p1, p2, p3, p4, p5, kindOf_none ma]
      simp
  -- the reserved star names
  have hva : s.va = (addStarargs L R st4.vaL st4.vaR L.va R.va st4.src).1 := by rw [hsdef]
  have hvk : s.vk = (addStarargs L R st4.vkL st4.vkR L.vk R.vk
      (addStarargs L R st4.vaL st4.vaR L.va R.va st4.src).2).1 := by rw [hsdef]
  have zva : ∀ n, cn s.va.toList n ≤ cn L.va.toList n ∨ cn s.va.toList n ≤ cn R.va.toList n := by
    intro n; rw [hva]; exact cn_star_le _ _ _ _ _ _ _ _
  have zvk : ∀ n, cn s.vk.toList n ≤ cn L.vk.toList n ∨ cn s.vk.toList n ≤ cn R.vk.toList n := by
    intro n; rw [hvk]; exact cn_star_le _ _ _ _ _ _ _ _
  -- the counting invariant holds initially …
  have hal : Al (L.pos ++ L.pok) (R.pos ++ R.pok) := by
    have nL := nodup_chain a ha
    have nR := nodup_chain b hb
    rw [hL] at nL
    rw [hR] at nR
    apply Al_of_idx _ _ nL nR
    intro n mL mR
    have mL' := mem_names_of_chain a ha n (by rw [hL]; exact mL)
    have mR' := mem_names_of_chain b hb n (by rw [hR]; exact mR)
    have := (hrc a.params (by simp) b.params (by simp) n mL' mR').2
    unfold posIndex at this
    rw [← chain_eq_positionals a ha, ← chain_eq_positionals b hb, hL, hR] at this
    exact this
  have hI0 : ICnt (fun n => cn s.va.toList n + cn s.vk.toList n) (L.pos ++ L.pok) (R.pos ++ R.pok)
      stK.bk := by
    refine ⟨?_, ?_, hal⟩
    · intro n
      have := kcnt n; have := wfL n; have := wfR n; have := rc n; have := zva n; have := zvk n
      simp only [cn_append]
      omega
    · intro n
      have := kcnt n; have := wfL n; have := wfR n; have := rc n; have := zva n; have := zvk n
      simp only [cn_append]
      omega
  -- … hence at the end
  obtain ⟨hfin, _, _⟩ := ICnt_steps _ steps hI0
  -- defaults
  have hD0 : IDf (L.pos ++ L.pok) (R.pos ++ R.pok) stK.bk := by
    have sL := sufD_chain a ha
    have sR := sufD_chain b hb
    rw [hL] at sL
    rw [hR] at sR
    have hFl : Fl stK.bk = [] := by simp [Fl, MState.bk, kpos, kpok]
    refine ⟨?_, ?_, sL, sR⟩
    · rw [hFl]; exact List.Pairwise.nil
    · rw [hFl]; intro h; cases h
  obtain ⟨hmono, _, _, _⟩ := IDf_steps steps hD0
  -- the unmatched phases
  have u3 := fun n => mergeUnmatched_spec .L L R st2 st3 h3 n
  have u4 := fun n => mergeUnmatched_spec .R L R st3 st4 h4 n
  have spos : s.pos = st2.pos := by rw [hsdef]; exact (u4 0).1.trans (u3 0).1
  have spok : s.pok = st2.pok := by rw [hsdef]; exact (u4 0).2.1.trans (u3 0).2.1
  have skwo : s.kwo = st4.kwo := by rw [hsdef]
  rw [validate_iff]
  refine ⟨rankSorted_all s hbkS, ?_, ?_⟩
  · apply nodup_of_cn
    intro n
    rw [cn_all, spos, spok, skwo]
    obtain ⟨_, _, _, d3, c3⟩ := u3 n
    obtain ⟨_, _, _, _, c4⟩ := u4 n
    have := hfin n
    simp only [cT, MState.bk, cn_nil] at this c3 c4
    rw [d3] at c4
    omega
  · apply dfltOK_all s hbkS
    rw [spos, spok]
    exact hmono

end SV

namespace SV

theorem merge_err_roles' (a b : USig) (e : Err) (ha : WF a.params) (hb : WF b.params)
    (hrc : roleCons [a.params, b.params]) (h : merge [a, b] = .error e) : e = .incompatible := by
  simp only [merge, mergeFold, bind, Except.bind] at h
  cases hs : mergeStep (sortParams a) (sortParams b) with
  | error e' =>
    rw [hs] at h
    simp only at h
    cases h; rfl
  | ok s =>
    rw [hs] at h
    simp only [applyParams, bind, Except.bind,
      mergeStep_valid_of_roles a b ha hb hrc s hs, pure, Except.pure] at h
    cases h

end SV
