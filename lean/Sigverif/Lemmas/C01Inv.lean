/-
  Lemmas/C01Inv.lean — inversion lemmas ("what happened if the call returned ok") for the
  building blocks of `mergeStep`.  Only the five list-valued fields of the merger state matter
  for acceptance; `Upd st' a b c d e` states their new values.
-/
import Sigverif.Lemmas.C01Basic
namespace SV

theorem mem_names_ppop_C01 {d : List Param} {k x : Nat} :
    x ∈ names (ppop d k) ↔ x ∈ names d ∧ x ≠ k := by
  simp only [mem_names_C01, mem_ppop_C01]
  constructor
  · rintro ⟨p, ⟨hp, hk⟩, rfl⟩; exact ⟨⟨p, hp, rfl⟩, hk⟩
  · rintro ⟨⟨p, hp, rfl⟩, hk⟩; exact ⟨p, ⟨hp, hk⟩, rfl⟩

theorem nodup_names_ppop {d : List Param} (k : Nat) (h : (names d).Nodup) :
    (names (ppop d k)).Nodup :=
  h.sublist (names_ppop_sublist d k)

theorem bind_eq_ok {α β : Type} {x : Except Err α} {f : α → Except Err β} {b : β}
    (h : (x >>= f) = .ok b) : ∃ a, x = .ok a ∧ f a = .ok b := by
  cases x with
  | error e => simp [bind, Except.bind] at h
  | ok a => exact ⟨a, rfl, h⟩

/-- the five list-valued fields of `st'` -/
def Upd (st' : MState) (pos pok kwo lUn rUn : List Param) : Prop :=
  st'.pos = pos ∧ st'.pok = pok ∧ st'.kwo = kwo ∧ st'.lUn = lUn ∧ st'.rUn = rUn

/-! ### `_merge_unbalanced_pos` -/

theorem unbalancedPos_L_inv {l r : Sorted} {x : Param} {ir ir' : List Param} {st st' : MState}
    (h : unbalancedPos .L l r x ir st = .ok (st', ir')) :
    (∃ o, ir = o :: ir' ∧ Upd st' (st.pos ++ [concile x o]) st.pok st.kwo st.lUn st.rUn) ∨
    (ir = [] ∧ ir' = [] ∧ r.va.isSome = true ∧ Upd st' (st.pos ++ [x]) st.pok st.kwo st.lUn st.rUn) ∨
    (ir = [] ∧ ir' = [] ∧ r.va.isSome = false ∧ x.dflt.isSome = true ∧
      Upd st' st.pos st.pok st.kwo st.lUn st.rUn) := by
  unfold unbalancedPos at h
  cases ir with
  | cons o rest =>
    simp only [Except.ok.injEq, Prod.mk.injEq] at h
    obtain ⟨h1, h2⟩ := h
    subst h1 h2
    exact Or.inl ⟨o, rfl, rfl, rfl, rfl, rfl, rfl⟩
  | nil =>
    simp only at h
    by_cases hva : r.va.isSome = true
    · simp only [hva, if_true, Except.ok.injEq, Prod.mk.injEq] at h
      obtain ⟨h1, h2⟩ := h
      subst h1 h2
      exact Or.inr (Or.inl ⟨rfl, rfl, hva, rfl, rfl, rfl, rfl, rfl⟩)
    · simp only [hva] at h
      by_cases hd : x.dflt.isNone = true
      · simp [hd] at h
      · simp only [hd, Bool.false_eq_true, if_false, Except.ok.injEq, Prod.mk.injEq] at h
        obtain ⟨h1, h2⟩ := h
        subst h1 h2
        refine Or.inr (Or.inr ⟨rfl, rfl, by simpa using hva, ?_, rfl, rfl, rfl, rfl, rfl⟩)
        cases hx : x.dflt <;> simp_all

theorem unbalancedPos_R_inv {l r : Sorted} {x : Param} {il il' : List Param} {st st' : MState}
    (h : unbalancedPos .R l r x il st = .ok (st', il')) :
    (∃ o, il = o :: il' ∧ Upd st' (st.pos ++ [concile x o]) st.pok st.kwo st.lUn st.rUn) ∨
    (il = [] ∧ il' = [] ∧ l.va.isSome = true ∧ Upd st' (st.pos ++ [x]) st.pok st.kwo st.lUn st.rUn) ∨
    (il = [] ∧ il' = [] ∧ l.va.isSome = false ∧ x.dflt.isSome = true ∧
      Upd st' st.pos st.pok st.kwo st.lUn st.rUn) := by
  unfold unbalancedPos at h
  cases il with
  | cons o rest =>
    simp only [Except.ok.injEq, Prod.mk.injEq] at h
    obtain ⟨h1, h2⟩ := h
    subst h1 h2
    exact Or.inl ⟨o, rfl, rfl, rfl, rfl, rfl, rfl⟩
  | nil =>
    simp only at h
    by_cases hva : l.va.isSome = true
    · simp only [hva, if_true, Except.ok.injEq, Prod.mk.injEq] at h
      obtain ⟨h1, h2⟩ := h
      subst h1 h2
      exact Or.inr (Or.inl ⟨rfl, rfl, hva, rfl, rfl, rfl, rfl, rfl⟩)
    · simp only [hva] at h
      by_cases hd : x.dflt.isNone = true
      · simp [hd] at h
      · simp only [hd, Bool.false_eq_true, if_false, Except.ok.injEq, Prod.mk.injEq] at h
        obtain ⟨h1, h2⟩ := h
        subst h1 h2
        refine Or.inr (Or.inr ⟨rfl, rfl, by simpa using hva, ?_, rfl, rfl, rfl, rfl, rfl⟩)
        cases hx : x.dflt <;> simp_all

/-! ### `_merge_unbalanced_pok` -/

theorem unbalancedPok_L_inv {l r : Sorted} {x : Param} {st st' : MState}
    (h : unbalancedPok .L l r x st = .ok st') :
    (∃ q, pget st.rUn x.name = some q ∧
      Upd st' st.pos st.pok (pset st.kwo ((concile x q).withKind .ko)) st.lUn (ppop st.rUn x.name)) ∨
    (pget st.rUn x.name = none ∧ r.va.isSome = true ∧ r.vk.isSome = true ∧
      Upd st' st.pos (st.pok ++ [x]) st.kwo st.lUn st.rUn) ∨
    (pget st.rUn x.name = none ∧ r.vk.isSome = true ∧
      Upd st' st.pos st.pok (pset st.kwo (x.withKind .ko)) st.lUn st.rUn) ∨
    (pget st.rUn x.name = none ∧ r.va.isSome = true ∧
      Upd st' (st.pos ++ st.pok.map (·.withKind .po) ++ [x.withKind .po]) [] st.kwo st.lUn st.rUn) ∨
    (pget st.rUn x.name = none ∧ r.va.isSome = false ∧ r.vk.isSome = false ∧ x.dflt.isSome = true ∧
      Upd st' st.pos st.pok st.kwo st.lUn st.rUn) := by
  unfold unbalancedPok at h
  simp only at h
  cases hq : pget st.rUn x.name with
  | some q =>
    simp only [hq, Except.ok.injEq] at h
    subst h
    exact Or.inl ⟨q, rfl, rfl, rfl, rfl, rfl, rfl⟩
  | none =>
    simp only [hq] at h
    refine Or.inr ?_
    by_cases hva : r.va.isSome = true <;> by_cases hvk : r.vk.isSome = true
    · simp only [hva, hvk, Bool.and_self, if_true, Except.ok.injEq] at h
      subst h
      exact Or.inl ⟨rfl, hva, hvk, rfl, rfl, rfl, rfl, rfl⟩
    · simp only [hva, hvk, Bool.and_false, Bool.false_eq_true, if_false, if_true,
        Except.ok.injEq] at h
      subst h
      exact Or.inr (Or.inr (Or.inl ⟨rfl, hva, rfl, rfl, rfl, rfl, rfl⟩))
    · simp only [hva, hvk, Bool.false_and, Bool.false_eq_true, if_false, if_true,
        Except.ok.injEq] at h
      subst h
      exact Or.inr (Or.inl ⟨rfl, hvk, rfl, rfl, rfl, rfl, rfl⟩)
    · simp only [hva, hvk, Bool.false_and, Bool.false_eq_true, if_false] at h
      by_cases hd : x.dflt.isNone = true
      · simp [hd] at h
      · simp only [hd, Bool.false_eq_true, if_false, Except.ok.injEq] at h
        subst h
        refine Or.inr (Or.inr (Or.inr ⟨rfl, by simpa using hva, by simpa using hvk, ?_,
          rfl, rfl, rfl, rfl, rfl⟩))
        cases hx : x.dflt <;> simp_all

theorem unbalancedPok_R_inv {l r : Sorted} {x : Param} {st st' : MState}
    (h : unbalancedPok .R l r x st = .ok st') :
    (∃ q, pget st.lUn x.name = some q ∧
      Upd st' st.pos st.pok (pset st.kwo ((concile x q).withKind .ko)) (ppop st.lUn x.name) st.rUn) ∨
    (pget st.lUn x.name = none ∧ l.va.isSome = true ∧ l.vk.isSome = true ∧
      Upd st' st.pos (st.pok ++ [x]) st.kwo st.lUn st.rUn) ∨
    (pget st.lUn x.name = none ∧ l.vk.isSome = true ∧
      Upd st' st.pos st.pok (pset st.kwo (x.withKind .ko)) st.lUn st.rUn) ∨
    (pget st.lUn x.name = none ∧ l.va.isSome = true ∧
      Upd st' (st.pos ++ st.pok.map (·.withKind .po) ++ [x.withKind .po]) [] st.kwo st.lUn st.rUn) ∨
    (pget st.lUn x.name = none ∧ l.va.isSome = false ∧ l.vk.isSome = false ∧ x.dflt.isSome = true ∧
      Upd st' st.pos st.pok st.kwo st.lUn st.rUn) := by
  unfold unbalancedPok at h
  simp only at h
  cases hq : pget st.lUn x.name with
  | some q =>
    simp only [hq, Except.ok.injEq] at h
    subst h
    exact Or.inl ⟨q, rfl, rfl, rfl, rfl, rfl, rfl⟩
  | none =>
    simp only [hq] at h
    refine Or.inr ?_
    by_cases hva : l.va.isSome = true <;> by_cases hvk : l.vk.isSome = true
    · simp only [hva, hvk, Bool.and_self, if_true, Except.ok.injEq] at h
      subst h
      exact Or.inl ⟨rfl, hva, hvk, rfl, rfl, rfl, rfl, rfl⟩
    · simp only [hva, hvk, Bool.and_false, Bool.false_eq_true, if_false, if_true,
        Except.ok.injEq] at h
      subst h
      exact Or.inr (Or.inr (Or.inl ⟨rfl, hva, rfl, rfl, rfl, rfl, rfl⟩))
    · simp only [hva, hvk, Bool.false_and, Bool.false_eq_true, if_false, if_true,
        Except.ok.injEq] at h
      subst h
      exact Or.inr (Or.inl ⟨rfl, hvk, rfl, rfl, rfl, rfl, rfl⟩)
    · simp only [hva, hvk, Bool.false_and, Bool.false_eq_true, if_false] at h
      by_cases hd : x.dflt.isNone = true
      · simp [hd] at h
      · simp only [hd, Bool.false_eq_true, if_false, Except.ok.injEq] at h
        subst h
        refine Or.inr (Or.inr (Or.inr ⟨rfl, by simpa using hva, by simpa using hvk, ?_,
          rfl, rfl, rfl, rfl, rfl⟩))
        cases hx : x.dflt <;> simp_all

/-! ### `_merge_unmatched_kwoargs` -/

theorem mergeUnmatched_L_inv {l r : Sorted} {st st' : MState}
    (h : mergeUnmatched .L l r st = .ok st') :
    (st.lUn = [] ∧ Upd st' st.pos st.pok st.kwo st.lUn st.rUn) ∨
    (r.vk.isSome = true ∧ Upd st' st.pos st.pok (pupdate st.kwo st.lUn) st.lUn st.rUn) ∨
    ((∀ p ∈ st.lUn, p.dflt.isSome = true) ∧ Upd st' st.pos st.pok st.kwo st.lUn st.rUn) := by
  unfold mergeUnmatched at h
  simp only at h
  by_cases he : st.lUn.isEmpty = true
  · simp only [he, if_true, Except.ok.injEq] at h
    subst h
    exact Or.inl ⟨by simpa using he, rfl, rfl, rfl, rfl, rfl⟩
  · simp only [he, Bool.false_eq_true, if_false] at h
    by_cases hvk : r.vk.isSome = true
    · simp only [hvk, if_true, Except.ok.injEq] at h
      subst h
      exact Or.inr (Or.inl ⟨hvk, rfl, rfl, rfl, rfl, rfl⟩)
    · simp only [hvk, Bool.false_eq_true, if_false] at h
      by_cases ha : (st.lUn.any (·.dflt.isNone)) = true
      · simp [ha] at h
      · simp only [ha, Bool.false_eq_true, if_false, Except.ok.injEq] at h
        subst h
        refine Or.inr (Or.inr ⟨?_, rfl, rfl, rfl, rfl, rfl⟩)
        intro p hp
        simp only [List.any_eq_true, not_exists, not_and] at ha
        have := ha p hp
        cases hx : p.dflt <;> simp_all

theorem mergeUnmatched_R_inv {l r : Sorted} {st st' : MState}
    (h : mergeUnmatched .R l r st = .ok st') :
    (st.rUn = [] ∧ Upd st' st.pos st.pok st.kwo st.lUn st.rUn) ∨
    (l.vk.isSome = true ∧ Upd st' st.pos st.pok (pupdate st.kwo st.rUn) st.lUn st.rUn) ∨
    ((∀ p ∈ st.rUn, p.dflt.isSome = true) ∧ Upd st' st.pos st.pok st.kwo st.lUn st.rUn) := by
  unfold mergeUnmatched at h
  simp only at h
  by_cases he : st.rUn.isEmpty = true
  · simp only [he, if_true, Except.ok.injEq] at h
    subst h
    exact Or.inl ⟨by simpa using he, rfl, rfl, rfl, rfl, rfl⟩
  · simp only [he, Bool.false_eq_true, if_false] at h
    by_cases hvk : l.vk.isSome = true
    · simp only [hvk, if_true, Except.ok.injEq] at h
      subst h
      exact Or.inr (Or.inl ⟨hvk, rfl, rfl, rfl, rfl, rfl⟩)
    · simp only [hvk, Bool.false_eq_true, if_false] at h
      by_cases ha : (st.rUn.any (·.dflt.isNone)) = true
      · simp [ha] at h
      · simp only [ha, Bool.false_eq_true, if_false, Except.ok.injEq] at h
        subst h
        refine Or.inr (Or.inr ⟨?_, rfl, rfl, rfl, rfl, rfl⟩)
        intro p hp
        simp only [List.any_eq_true, not_exists, not_and] at ha
        have := ha p hp
        cases hx : p.dflt <;> simp_all

/-! ### `_add_starargs` -/

theorem addStarargs_isSome (l r : Sorted) (wL wR : Bool) (a b : Option Param) (src : Srcs) :
    (addStarargs l r wL wR a b src).1.isSome = (a.isSome && b.isSome) := by
  unfold addStarargs
  cases a <;> cases b <;> simp
  split
  · rfl
  · split <;> rfl

theorem addStarargs_kind_C01 (l r : Sorted) (wL wR : Bool) (a b : Option Param) (src : Srcs) (k : Kind)
    (ha : ∀ p, a = some p → p.kind = k) (hb : ∀ p, b = some p → p.kind = k) :
    ∀ p, (addStarargs l r wL wR a b src).1 = some p → p.kind = k := by
  unfold addStarargs
  intro p
  cases a with
  | none => simp
  | some x =>
    cases b with
    | none => simp
    | some y =>
      simp only
      split
      · simp only [Option.some.injEq]; rintro rfl; simpa using ha x rfl
      · split
        · simp only [Option.some.injEq]; rintro rfl; exact ha _ rfl
        · simp only [Option.some.injEq]; rintro rfl; exact hb _ rfl

end SV
