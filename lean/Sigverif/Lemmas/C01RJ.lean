/-
  Lemmas/C01RJ.lean — the role invariant `RJ` of the merger state through phases P and Q.
-/
import Sigverif.Lemmas.C01Roles
import Sigverif.Lemmas.C01Ind
namespace SV

structure RJ (ρ : Roles) (l r : Sorted) (A B : List Param) (st : MState) : Prop where
  memA : ∀ p ∈ A, p ∈ l.pos ∨ p ∈ l.pok
  memB : ∀ p ∈ B, p ∈ r.pos ∨ p ∈ r.pok
  lun : ∀ p ∈ st.lUn, p ∈ l.kwo
  run : ∀ p ∈ st.rUn, p ∈ r.kwo
  j1 : IdxOK ρ 0 (st.pos ++ st.pok)
  j2 : (B ≠ [] ∨ r.va.isSome = true) → IdxOK ρ (mlen st) A
  j3 : (A ≠ [] ∨ l.va.isSome = true) → IdxOK ρ (mlen st) B
  j2' : ∀ p ∈ A, mlen st ≤ ρ.ι p.name
  j3' : ∀ p ∈ B, mlen st ≤ ρ.ι p.name
  fl : ∀ p, (p ∈ l.pos ∨ p ∈ l.pok) → p.required = true →
    Fate ρ st.pos st.pok st.kwo l.pok p ∨ p ∈ A
  fr : ∀ q, (q ∈ r.pos ∨ q ∈ r.pok) → q.required = true →
    Fate ρ st.pos st.pok st.kwo r.pok q ∨ q ∈ B
  kk : ∀ c ∈ st.kwo, c.name ∈ names l.kwo ∨ c.name ∈ names r.kwo ∨
    (ρ.κ c.name = .pk ∧
      ((B = [] ∧ r.va.isSome = false) ∨ (A = [] ∧ l.va.isSome = false)) ∧
      mlen st ≤ ρ.ι c.name)
  nmP : ∀ c, c ∈ st.pos ∨ c ∈ st.pok →
    c.name ∈ names l.pos ∨ c.name ∈ names l.pok ∨ c.name ∈ names r.pos ∨ c.name ∈ names r.pok
  nmQ : ∀ c ∈ st.pok, c.name ∈ names l.pok ∨ c.name ∈ names r.pok
  nmK : ∀ c ∈ st.kwo,
    c.name ∈ names l.pok ∨ c.name ∈ names l.kwo ∨ c.name ∈ names r.pok ∨ c.name ∈ names r.kwo

variable {ρ : Roles} {l r : Sorted}

theorem Fate_mono {pos pok kwo own pos' pok' kwo' : List Param} {p : Param}
    (h : Fate ρ pos pok kwo own p)
    (h1 : ∀ c ∈ pos, c ∈ pos')
    (h2 : ∀ x, hasReq pok x → hasReq pok' x ∨ ∃ c ∈ pos', c.required = true ∧ c.name = x)
    (h3 : ∀ x, hasReq kwo x → hasReq kwo' x) : Fate ρ pos' pok' kwo' own p := by
  rcases h with ⟨c, hc, hr, hi⟩ | ⟨h | h, ho⟩
  · exact Or.inl ⟨c, h1 c hc, hr, hi⟩
  · rcases h2 _ h with h | ⟨c, hc, hr, hn⟩
    · exact Or.inr ⟨Or.inl h, ho⟩
    · exact Or.inl ⟨c, hc, hr, by rw [hn]⟩
  · exact Or.inr ⟨Or.inr (h3 _ h), ho⟩

/-! ### phase P steps (the `pok` bucket of the state is still empty) -/

section P
variable {a b x c : Param} {A B : List Param} {st st1 : MState}

theorem rj_p_pair (hc : c = concile a b ∨ c = concile b a)
    (hu : Upd st1 (st.pos ++ [c]) st.pok st.kwo st.lUn st.rUn) (hp : st.pok = [])
    (h : RJ ρ l r (a :: A) (b :: B) st) : RJ ρ l r A B st1 := by
  obtain ⟨h1, h2, h3, h4, h5⟩ := hu
  have ml : mlen st1 = mlen st + 1 := by simp [mlen, h1, h2]; omega
  have i2 := h.j2 (Or.inl (by simp))
  have i3 := h.j3 (Or.inl (by simp))
  simp only [IdxOK_cons] at i2 i3
  have hcn : ρ.ι c.name = mlen st := by rcases hc with rfl | rfl <;> simp [i2.1, i3.1]
  have hcr : c.required = (a.required || b.required) := by
    rcases hc with rfl | rfl <;> simp [Bool.or_comm]
  have mono : ∀ own p, Fate ρ st.pos st.pok st.kwo own p → Fate ρ st1.pos st1.pok st1.kwo own p := by
    intro own p hf
    refine Fate_mono hf ?_ ?_ ?_
    · intro c hc; rw [h1]; exact List.mem_append_left _ hc
    · intro x hx; rw [h2]; exact Or.inl hx
    · intro x hx; rw [h3]; exact hx
  refine ⟨fun p hp => h.memA p (List.mem_cons_of_mem _ hp),
    fun p hp => h.memB p (List.mem_cons_of_mem _ hp), h4 ▸ h.lun, h5 ▸ h.run, ?_, ?_, ?_, ?_, ?_,
    ?_, ?_, ?_, ?_, ?_, ?_⟩
  · have := h.j1
    have hm : mlen st = st.pos.length := by simp [mlen, hp]
    rw [h1, h2, hp]
    rw [hp] at this
    simp only [List.append_nil, IdxOK_append, IdxOK_cons, IdxOK_nil, and_true] at this ⊢
    refine ⟨this, ?_⟩
    omega
  · intro _; rw [ml]; exact i2.2
  · intro _; rw [ml]; exact i3.2
  · rw [ml]; exact IdxOK_lb ρ i2.2
  · rw [ml]; exact IdxOK_lb ρ i3.2
  · intro p hp hr
    rcases h.fl p hp hr with hf | hf
    · exact Or.inl (mono _ p hf)
    · rcases List.mem_cons.1 hf with rfl | hf
      · left; left
        exact ⟨c, by rw [h1]; simp, by simp [hcr, hr], by rw [hcn, i2.1]⟩
      · exact Or.inr hf
  · intro p hp hr
    rcases h.fr p hp hr with hf | hf
    · exact Or.inl (mono _ p hf)
    · rcases List.mem_cons.1 hf with rfl | hf
      · left; left
        exact ⟨c, by rw [h1]; simp, by simp [hcr, hr], by rw [hcn, i3.1]⟩
      · exact Or.inr hf
  · intro c' hc'
    rw [h3] at hc'
    rcases h.kk c' hc' with h' | h' | ⟨_, h' | h', _⟩
    · exact Or.inl h'
    · exact Or.inr (Or.inl h')
    · simp at h'
    · simp at h'
  · intro c' hc'
    rw [h1, h2] at hc'
    simp only [List.mem_append, List.mem_singleton] at hc'
    rcases hc' with (hc' | rfl) | hc'
    · exact h.nmP c' (Or.inl hc')
    · have ha := h.memA a List.mem_cons_self
      have hb := h.memB b List.mem_cons_self
      rcases hc with rfl | rfl
      · rcases ha with ha | ha
        · exact Or.inl (by simpa using mem_names_of_mem_C01 ha)
        · exact Or.inr (Or.inl (by simpa using mem_names_of_mem_C01 ha))
      · rcases hb with hb | hb
        · exact Or.inr (Or.inr (Or.inl (by simpa using mem_names_of_mem_C01 hb)))
        · exact Or.inr (Or.inr (Or.inr (by simpa using mem_names_of_mem_C01 hb)))
    · exact h.nmP c' (Or.inr hc')
  · rw [h2]; exact h.nmQ
  · rw [h3]; exact h.nmK

theorem rj_p_lva (hva : r.va.isSome = true)
    (hu : Upd st1 (st.pos ++ [x]) st.pok st.kwo st.lUn st.rUn) (hp : st.pok = [])
    (h : RJ ρ l r (x :: A) [] st) : RJ ρ l r A [] st1 := by
  obtain ⟨h1, h2, h3, h4, h5⟩ := hu
  have ml : mlen st1 = mlen st + 1 := by simp [mlen, h1, h2]; omega
  have i2 := h.j2 (Or.inr hva)
  simp only [IdxOK_cons] at i2
  have mono : ∀ own p, Fate ρ st.pos st.pok st.kwo own p → Fate ρ st1.pos st1.pok st1.kwo own p := by
    intro own p hf
    refine Fate_mono hf ?_ ?_ ?_
    · intro c hc; rw [h1]; exact List.mem_append_left _ hc
    · intro x hx; rw [h2]; exact Or.inl hx
    · intro x hx; rw [h3]; exact hx
  refine ⟨fun p hp => h.memA p (List.mem_cons_of_mem _ hp), by simp, h4 ▸ h.lun, h5 ▸ h.run,
    ?_, ?_, ?_, ?_, ?_, ?_, ?_, ?_, ?_, ?_, ?_⟩
  · have := h.j1
    have hm : mlen st = st.pos.length := by simp [mlen, hp]
    rw [h1, h2, hp]
    rw [hp] at this
    simp only [List.append_nil, IdxOK_append, IdxOK_cons, IdxOK_nil, and_true] at this ⊢
    exact ⟨this, by omega⟩
  · intro _; rw [ml]; exact i2.2
  · intro _; trivial
  · rw [ml]; exact IdxOK_lb ρ i2.2
  · simp
  · intro p hp hr
    rcases h.fl p hp hr with hf | hf
    · exact Or.inl (mono _ p hf)
    · rcases List.mem_cons.1 hf with rfl | hf
      · left; left
        exact ⟨p, by rw [h1]; simp, hr, rfl⟩
      · exact Or.inr hf
  · intro p hp hr
    rcases h.fr p hp hr with hf | hf
    · exact Or.inl (mono _ p hf)
    · simp at hf
  · intro c' hc'
    rw [h3] at hc'
    rcases h.kk c' hc' with h' | h' | ⟨_, h' | h', _⟩
    · exact Or.inl h'
    · exact Or.inr (Or.inl h')
    · simp [hva] at h'
    · simp at h'
  · intro c' hc'
    rw [h1, h2] at hc'
    simp only [List.mem_append, List.mem_singleton] at hc'
    rcases hc' with (hc' | rfl) | hc'
    · exact h.nmP c' (Or.inl hc')
    · rcases h.memA c' List.mem_cons_self with ha | ha
      · exact Or.inl (mem_names_of_mem_C01 ha)
      · exact Or.inr (Or.inl (mem_names_of_mem_C01 ha))
    · exact h.nmP c' (Or.inr hc')
  · rw [h2]; exact h.nmQ
  · rw [h3]; exact h.nmK

/-- nothing is appended: an optional left-over is dropped -/
theorem rj_ldrop (hva : r.va.isSome = false) (hd : x.dflt.isSome = true)
    (hu : Upd st1 st.pos st.pok st.kwo st.lUn st.rUn)
    (h : RJ ρ l r (x :: A) [] st) : RJ ρ l r A [] st1 := by
  obtain ⟨h1, h2, h3, h4, h5⟩ := hu
  have ml : mlen st1 = mlen st := by simp [mlen, h1, h2]
  have hx : x.required = false := by
    have := required_iff x; cases hq : x.required <;> simp_all
  refine ⟨fun p hp => h.memA p (List.mem_cons_of_mem _ hp), by simp, h4 ▸ h.lun, h5 ▸ h.run,
    ?_, ?_, ?_, ?_, ?_, ?_, ?_, ?_, ?_, ?_, ?_⟩
  · rw [h1, h2]; exact h.j1
  · intro hc; simp [hva] at hc
  · intro _; trivial
  · rw [ml]; exact fun p hp => h.j2' p (List.mem_cons_of_mem _ hp)
  · simp
  · intro p hp hr
    rw [h1, h2, h3]
    rcases h.fl p hp hr with hf | hf
    · exact Or.inl hf
    · rcases List.mem_cons.1 hf with rfl | hf
      · simp [hx] at hr
      · exact Or.inr hf
  · intro p hp hr
    rw [h1, h2, h3]
    rcases h.fr p hp hr with hf | hf
    · exact Or.inl hf
    · simp at hf
  · intro c' hc'
    rw [h3] at hc'
    rw [ml]
    rcases h.kk c' hc' with h' | h' | ⟨hk, h' | h', hm⟩
    · exact Or.inl h'
    · exact Or.inr (Or.inl h')
    · exact Or.inr (Or.inr ⟨hk, Or.inl h', hm⟩)
    · simp at h'
  · rw [h1, h2]; exact h.nmP
  · rw [h2]; exact h.nmQ
  · rw [h3]; exact h.nmK

end P

/-! ### left/right symmetry -/

def MState.swap (st : MState) : MState := { st with lUn := st.rUn, rUn := st.lUn }

@[simp] theorem mlen_swap (st : MState) : mlen st.swap = mlen st := rfl

theorem RJ_swap {A B : List Param} {st : MState} (h : RJ ρ l r A B st) : RJ ρ r l B A st.swap := by
  refine ⟨h.memB, h.memA, h.run, h.lun, h.j1, h.j3, h.j2, h.j3', h.j2', h.fr, h.fl, ?_, ?_, ?_, ?_⟩
  · intro c hc
    rcases h.kk c hc with h' | h' | ⟨hk, h' | h', hm⟩
    · exact Or.inr (Or.inl h')
    · exact Or.inl h'
    · exact Or.inr (Or.inr ⟨hk, Or.inr h', hm⟩)
    · exact Or.inr (Or.inr ⟨hk, Or.inl h', hm⟩)
  · intro c hc
    rcases h.nmP c hc with h' | h' | h' | h'
    · exact Or.inr (Or.inr (Or.inl h'))
    · exact Or.inr (Or.inr (Or.inr h'))
    · exact Or.inl h'
    · exact Or.inr (Or.inl h')
  · intro c hc
    rcases h.nmQ c hc with h' | h'
    · exact Or.inr h'
    · exact Or.inl h'
  · intro c hc
    rcases h.nmK c hc with h' | h' | h' | h'
    · exact Or.inr (Or.inr (Or.inl h'))
    · exact Or.inr (Or.inr (Or.inr h'))
    · exact Or.inl h'
    · exact Or.inr (Or.inl h')

theorem Upd_swap {st' : MState} {a b c d e : List Param} (h : Upd st' a b c d e) :
    Upd st'.swap a b c e d := ⟨h.1, h.2.1, h.2.2.1, h.2.2.2.2, h.2.2.2.1⟩

section P
variable {x : Param} {B : List Param} {st st1 : MState}

theorem rj_p_rva (hva : l.va.isSome = true)
    (hu : Upd st1 (st.pos ++ [x]) st.pok st.kwo st.lUn st.rUn) (hp : st.pok = [])
    (h : RJ ρ l r [] (x :: B) st) : RJ ρ l r [] B st1 :=
  RJ_swap (rj_p_lva (st := st.swap) (st1 := st1.swap) hva (Upd_swap hu) hp (RJ_swap h))

theorem rj_rdrop (hva : l.va.isSome = false) (hd : x.dflt.isSome = true)
    (hu : Upd st1 st.pos st.pok st.kwo st.lUn st.rUn)
    (h : RJ ρ l r [] (x :: B) st) : RJ ρ l r [] B st1 :=
  RJ_swap (rj_ldrop (st := st.swap) (st1 := st1.swap) hva hd (Upd_swap hu) (RJ_swap h))

end P
end SV
