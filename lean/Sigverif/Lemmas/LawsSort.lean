/-
  Lemmas/LawsSort.lean — what `validate` guarantees, what `sortGo` computes.
-/
import Sigverif.Lemmas.LawsErr
namespace SV
set_option linter.unusedSimpArgs false
set_option linter.unusedVariables false

/-! ### pset / pget / ppop / phas basics -/

theorem pset_eq_append (d : List Param) (p : Param) (h : p.name ∉ names d) : pset d p = d ++ [p] := by
  induction d with
  | nil => rfl
  | cons q t ih =>
    simp only [names, List.map_cons, List.mem_cons, not_or] at h
    simp only [pset]
    rw [if_neg (fun e => h.1 e.symm)]
    simp only [List.cons_append, List.cons.injEq, true_and]
    exact ih h.2

theorem mem_pset_Laws (d : List Param) (p x : Param) (h : x ∈ pset d p) : x ∈ d ∨ x = p := by
  induction d with
  | nil => simp [pset] at h; exact .inr h
  | cons q t ih =>
    simp only [pset] at h
    split at h
    · simp only [List.mem_cons] at h ⊢
      rcases h with h | h
      · exact .inr h
      · exact .inl (.inr h)
    · simp only [List.mem_cons] at h ⊢
      rcases h with h | h
      · exact .inl (.inl h)
      · rcases ih h with h | h
        · exact .inl (.inr h)
        · exact .inr h

/-! ### inversion of validateGo -/

def rankSorted (ps : List Param) : Prop := ps.Pairwise (fun p q => p.kind.rank ≤ q.kind.rank)

theorem validateGo_ok_Laws (ps : List Param) (top : Nat) (sd : Bool) (seen : List Nat)
    (h : validateGo top sd seen ps = .ok ()) :
    (∀ p ∈ ps, top ≤ p.kind.rank) ∧ rankSorted ps ∧ (names ps).Nodup ∧ (∀ p ∈ ps, p.name ∉ seen) := by
  induction ps generalizing top sd seen with
  | nil => simp [rankSorted, names]
  | cons p ps ih =>
    simp only [validateGo] at h
    split at h
    · cases h
    · rename_i h1
      split at h
      · cases h
      · split at h
        · cases h
        · rename_i h3
          obtain ⟨i1, i2, i3, i4⟩ := ih _ _ _ h
          have hle : ∀ q ∈ ps, p.kind.rank ≤ q.kind.rank ∧ top ≤ q.kind.rank := by
            intro q hq
            have := i1 q hq
            split at this <;> omega
          refine ⟨?_, ?_, ?_, ?_⟩
          · intro q hq
            simp only [List.mem_cons] at hq
            rcases hq with rfl | hq
            · omega
            · exact (hle q hq).2
          · simp only [rankSorted, List.pairwise_cons]
            exact ⟨fun q hq => (hle q hq).1, i2⟩
          · simp only [names, List.map_cons, List.nodup_cons]
            refine ⟨?_, i3⟩
            intro hm
            simp only [List.mem_map] at hm
            obtain ⟨q, hq, hqn⟩ := hm
            have := i4 q hq
            simp [hqn] at this
          · intro q hq
            simp only [List.mem_cons] at hq
            rcases hq with rfl | hq
            · simpa using h3
            · have := i4 q hq
              simp only [List.mem_cons, not_or] at this
              exact this.2

theorem validOk_iff_Laws (ps : List Param) : validOk ps = true ↔ validate ps = .ok () := by
  unfold validOk
  split
  · rename_i u hu; cases u; simp [hu]
  · rename_i e he; simp [he]

/-! ### a rank-sorted list is the concatenation of its five kind classes -/

theorem rankSorted_split (ps : List Param) (h : rankSorted ps) :
    ps = ps.filter (·.kind = .po) ++ ps.filter (·.kind = .pk) ++ ps.filter (·.kind = .vp) ++
         ps.filter (·.kind = .ko) ++ ps.filter (·.kind = .vk) := by
  induction ps with
  | nil => rfl
  | cons p ps ih =>
    simp only [rankSorted, List.pairwise_cons] at h
    obtain ⟨hp, hs⟩ := h
    have ih := ih hs
    cases hk : p.kind
    all_goals
      simp only [hk, Kind.rank] at hp
    · simp only [List.filter_cons, hk, decide_true, if_true, List.cons_append]
      simp only [reduceCtorEq, decide_false, Bool.false_eq_true, if_false]
      rw [← ih]
    · have e1 : ps.filter (·.kind = .po) = [] := by
        simp only [List.filter_eq_nil_iff, decide_eq_true_eq]
        intro q hq hq'; have := hp q hq; simp [hq', Kind.rank] at this
      simp only [List.filter_cons, hk, decide_true, if_true, List.cons_append]
      simp only [reduceCtorEq, decide_false, Bool.false_eq_true, if_false]
      rw [e1] at ih ⊢
      simp only [List.nil_append, List.cons_append] at ih ⊢
      rw [← ih]
    · have e1 : ps.filter (·.kind = .po) = [] := by
        simp only [List.filter_eq_nil_iff, decide_eq_true_eq]
        intro q hq hq'; have := hp q hq; simp [hq', Kind.rank] at this
      have e2 : ps.filter (·.kind = .pk) = [] := by
        simp only [List.filter_eq_nil_iff, decide_eq_true_eq]
        intro q hq hq'; have := hp q hq; simp [hq', Kind.rank] at this
      simp only [List.filter_cons, hk, decide_true, if_true, List.cons_append]
      simp only [reduceCtorEq, decide_false, Bool.false_eq_true, if_false]
      rw [e1, e2] at ih ⊢
      simp only [List.nil_append, List.cons_append] at ih ⊢
      rw [← ih]
    · have e1 : ps.filter (·.kind = .po) = [] := by
        simp only [List.filter_eq_nil_iff, decide_eq_true_eq]
        intro q hq hq'; have := hp q hq; simp [hq', Kind.rank] at this
      have e2 : ps.filter (·.kind = .pk) = [] := by
        simp only [List.filter_eq_nil_iff, decide_eq_true_eq]
        intro q hq hq'; have := hp q hq; simp [hq', Kind.rank] at this
      have e3 : ps.filter (·.kind = .vp) = [] := by
        simp only [List.filter_eq_nil_iff, decide_eq_true_eq]
        intro q hq hq'; have := hp q hq; simp [hq', Kind.rank] at this
      simp only [List.filter_cons, hk, decide_true, if_true, List.cons_append]
      simp only [reduceCtorEq, decide_false, Bool.false_eq_true, if_false]
      rw [e1, e2, e3] at ih ⊢
      simp only [List.nil_append, List.cons_append] at ih ⊢
      rw [← ih]
    · have e1 : ps.filter (·.kind = .po) = [] := by
        simp only [List.filter_eq_nil_iff, decide_eq_true_eq]
        intro q hq hq'; have := hp q hq; simp [hq', Kind.rank] at this
      have e2 : ps.filter (·.kind = .pk) = [] := by
        simp only [List.filter_eq_nil_iff, decide_eq_true_eq]
        intro q hq hq'; have := hp q hq; simp [hq', Kind.rank] at this
      have e3 : ps.filter (·.kind = .vp) = [] := by
        simp only [List.filter_eq_nil_iff, decide_eq_true_eq]
        intro q hq hq'; have := hp q hq; simp [hq', Kind.rank] at this
      have e4 : ps.filter (·.kind = .ko) = [] := by
        simp only [List.filter_eq_nil_iff, decide_eq_true_eq]
        intro q hq hq'; have := hp q hq; simp [hq', Kind.rank] at this
      simp only [List.filter_cons, hk, decide_true, if_true, List.cons_append]
      simp only [reduceCtorEq, decide_false, Bool.false_eq_true, if_false]
      rw [e1, e2, e3, e4] at ih ⊢
      simp only [List.nil_append, List.cons_append] at ih ⊢
      rw [← ih]

/-! ### sortGo computes the five filters -/

theorem sortGo_pos (ps : List Param) (s : Sorted) :
    (sortGo ps s).pos = s.pos ++ ps.filter (·.kind = .po) := by
  induction ps generalizing s with
  | nil => simp [sortGo]
  | cons p ps ih =>
    simp only [sortGo]
    rw [ih]
    cases hk : p.kind <;> simp [hk]

theorem sortGo_pok (ps : List Param) (s : Sorted) :
    (sortGo ps s).pok = s.pok ++ ps.filter (·.kind = .pk) := by
  induction ps generalizing s with
  | nil => simp [sortGo]
  | cons p ps ih =>
    simp only [sortGo]
    rw [ih]
    cases hk : p.kind <;> simp [hk]

theorem sortGo_src_Laws (ps : List Param) (s : Sorted) :
    (sortGo ps s).src = s.src ∧ (sortGo ps s).depths = s.depths := by
  induction ps generalizing s with
  | nil => simp [sortGo]
  | cons p ps ih =>
    simp only [sortGo]
    rw [(ih _).1, (ih _).2]
    cases hk : p.kind <;> simp

theorem sortGo_kwo (ps : List Param) (s : Sorted)
    (hn : (names ps).Nodup) (hd : ∀ p ∈ ps, p.name ∉ names s.kwo) :
    (sortGo ps s).kwo = s.kwo ++ ps.filter (·.kind = .ko) := by
  induction ps generalizing s with
  | nil => simp [sortGo]
  | cons p ps ih =>
    simp only [names, List.map_cons, List.nodup_cons] at hn
    simp only [sortGo]
    have hp := hd p (by simp)
    have hd' : ∀ q ∈ ps, q.name ∉ names s.kwo := fun q hq => hd q (by simp [hq])
    cases hk : p.kind
    case ko =>
      rw [ih _ hn.2]
      · simp only [pset_eq_append _ _ hp]
        simp [hk]
      · intro q hq
        simp only [pset_eq_append _ _ hp, names, List.map_append, List.mem_append, not_or,
          List.map_cons, List.map_nil, List.mem_singleton]
        refine ⟨hd' q hq, ?_⟩
        intro e
        exact hn.1 (by rw [← e]; exact List.mem_map_of_mem hq)
    all_goals
      dsimp only
      rw [ih _ hn.2 (by exact hd')]
      simp [hk]

theorem sortGo_va (ps : List Param) (s : Sorted)
    (h1 : (ps.filter (·.kind = .vp)).length ≤ 1) (h0 : s.va = none) :
    (sortGo ps s).va.toList = ps.filter (·.kind = .vp) := by
  suffices H : ∀ (ps : List Param) (s : Sorted), (ps.filter (·.kind = .vp)).length ≤ 1 →
      (ps.filter (·.kind = .vp) ≠ [] → s.va = none) →
      (sortGo ps s).va.toList = (if ps.filter (·.kind = .vp) = [] then s.va.toList
                                  else ps.filter (·.kind = .vp)) by
    rw [H ps s h1 (fun _ => h0)]
    split
    · rename_i h; simp [h0, h]
    · rfl
  intro ps
  induction ps with
  | nil => intro s _ _; simp [sortGo]
  | cons p ps ih =>
    intro s h1 h0
    simp only [sortGo]
    cases hk : p.kind
    case vp =>
      simp only [List.filter_cons, hk, decide_true, if_true, List.length_cons] at h1
      have hnil : ps.filter (·.kind = .vp) = [] := List.eq_nil_of_length_eq_zero (by omega)
      rw [ih _ (by simp [hnil]) (by simp [hnil])]
      simp [hk, hnil]
    all_goals
      simp only [List.filter_cons, hk, reduceCtorEq, decide_false, Bool.false_eq_true, if_false] at h1 h0 ⊢
      exact ih _ h1 h0

theorem sortGo_vk (ps : List Param) (s : Sorted)
    (h1 : (ps.filter (·.kind = .vk)).length ≤ 1) (h0 : s.vk = none) :
    (sortGo ps s).vk.toList = ps.filter (·.kind = .vk) := by
  suffices H : ∀ (ps : List Param) (s : Sorted), (ps.filter (·.kind = .vk)).length ≤ 1 →
      (ps.filter (·.kind = .vk) ≠ [] → s.vk = none) →
      (sortGo ps s).vk.toList = (if ps.filter (·.kind = .vk) = [] then s.vk.toList
                                  else ps.filter (·.kind = .vk)) by
    rw [H ps s h1 (fun _ => h0)]
    split
    · rename_i h; simp [h0, h]
    · rfl
  intro ps
  induction ps with
  | nil => intro s _ _; simp [sortGo]
  | cons p ps ih =>
    intro s h1 h0
    simp only [sortGo]
    cases hk : p.kind
    case vk =>
      simp only [List.filter_cons, hk, decide_true, if_true, List.length_cons] at h1
      have hnil : ps.filter (·.kind = .vk) = [] := List.eq_nil_of_length_eq_zero (by omega)
      rw [ih _ (by simp [hnil]) (by simp [hnil])]
      simp [hk, hnil]
    all_goals
      simp only [List.filter_cons, hk, reduceCtorEq, decide_false, Bool.false_eq_true, if_false] at h1 h0 ⊢
      exact ih _ h1 h0

/-- the buckets of a well-formed signature -/
theorem WF_inv (ps : List Param) (h : WF ps) :
    rankSorted ps ∧ (names ps).Nodup ∧ (ps.filter (·.kind = .vp)).length ≤ 1 ∧
      (ps.filter (·.kind = .vk)).length ≤ 1 := by
  obtain ⟨h1, h2, h3⟩ := h
  rw [validOk_iff_Laws] at h1
  obtain ⟨_, i2, i3, _⟩ := validateGo_ok_Laws _ _ _ _ h1
  exact ⟨i2, i3, h2, h3⟩

theorem sortParams_fields (sig : USig) (hwf : WF sig.params) :
    (sortParams sig).pos = sig.params.filter (·.kind = .po) ∧
    (sortParams sig).pok = sig.params.filter (·.kind = .pk) ∧
    (sortParams sig).va.toList = sig.params.filter (·.kind = .vp) ∧
    (sortParams sig).kwo = sig.params.filter (·.kind = .ko) ∧
    (sortParams sig).vk.toList = sig.params.filter (·.kind = .vk) ∧
    (sortParams sig).src = sig.src ∧ (sortParams sig).depths = sig.depths := by
  obtain ⟨i1, i2, i3, i4⟩ := WF_inv _ hwf
  unfold sortParams
  refine ⟨?_, ?_, ?_, ?_, ?_, ?_, ?_⟩
  · rw [sortGo_pos]; rfl
  · rw [sortGo_pok]; rfl
  · exact sortGo_va _ _ i3 rfl
  · rw [sortGo_kwo _ _ i2 (by simp [names])]; rfl
  · exact sortGo_vk _ _ i4 rfl
  · rw [(sortGo_src_Laws _ _).1]
  · rw [(sortGo_src_Laws _ _).2]
    simp [copyDepths]

theorem sortParams_all_Laws (sig : USig) (hwf : WF sig.params) : (sortParams sig).all = sig.params := by
  obtain ⟨h1, h2, h3, h4, h5, _, _⟩ := sortParams_fields sig hwf
  obtain ⟨i1, _, _, _⟩ := WF_inv _ hwf
  unfold Sorted.all
  rw [h1, h2, h3, h4, h5]
  exact (rankSorted_split _ i1).symm

theorem sortGo_bucketKinds (ps : List Param) (s : Sorted) (h : BucketKinds s) :
    BucketKinds (sortGo ps s) := by
  induction ps generalizing s with
  | nil => exact h
  | cons p ps ih =>
    simp only [sortGo]
    apply ih
    cases hk : p.kind
    · refine ⟨?_, h.pok, h.va, h.kwo, h.vk⟩
      intro q hq
      simp only [List.mem_append, List.mem_singleton] at hq
      rcases hq with hq | rfl
      · exact h.pos q hq
      · exact hk
    · refine ⟨h.pos, ?_, h.va, h.kwo, h.vk⟩
      intro q hq
      simp only [List.mem_append, List.mem_singleton] at hq
      rcases hq with hq | rfl
      · exact h.pok q hq
      · exact hk
    · refine ⟨h.pos, h.pok, ?_, h.kwo, h.vk⟩
      intro q hq
      simp only [Option.some.injEq] at hq
      subst hq; exact hk
    · refine ⟨h.pos, h.pok, h.va, ?_, h.vk⟩
      intro q hq
      rcases mem_pset_Laws _ _ _ hq with hq | rfl
      · exact h.kwo q hq
      · exact hk
    · refine ⟨h.pos, h.pok, h.va, h.kwo, ?_⟩
      intro q hq
      simp only [Option.some.injEq] at hq
      subst hq; exact hk

theorem sortParams_bucketKinds (sig : USig) : BucketKinds (sortParams sig) := by
  unfold sortParams
  apply sortGo_bucketKinds
  constructor <;> simp

end SV

namespace SV

theorem apply_sort' (sig : USig) (hwf : WF sig.params) :
    applyParams sig (sortParams sig) = .ok sig := by
  have hall := sortParams_all_Laws sig hwf
  obtain ⟨_, _, _, _, _, hs, hd⟩ := sortParams_fields sig hwf
  have hv : validate sig.params = .ok () := (validOk_iff_Laws _).1 hwf.1
  simp only [applyParams, hall, hv, hs, hd, bind, Except.bind, pure, Except.pure]

theorem merge_single' (sig : USig) (hwf : WF sig.params) : merge [sig] = .ok sig := by
  simp only [merge, mergeFold, bind, Except.bind]
  exact apply_sort' sig hwf

end SV
