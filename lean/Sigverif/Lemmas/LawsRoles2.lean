/-
  Lemmas/LawsRoles2.lean — shape lemmas about a bucket record used by merge_err_roles.
-/
import Sigverif.Lemmas.LawsRoles
namespace SV
set_option linter.unusedSimpArgs false
set_option linter.unusedVariables false

theorem pairwise_of_forall_mem {α : Type} {R : α → α → Prop} {l : List α}
    (h : ∀ a ∈ l, ∀ b ∈ l, R a b) : l.Pairwise R := by
  induction l with
  | nil => exact List.Pairwise.nil
  | cons x xs ih =>
    rw [List.pairwise_cons]
    exact ⟨fun b hb => h x (by simp) b (by simp [hb]),
      ih (fun a ha b hb => h a (by simp [ha]) b (by simp [hb]))⟩

theorem mem_all_kind (S : Sorted) (hS : BucketKinds S) (p : Param) (hp : p ∈ S.all) :
    (p ∈ S.pos ∧ p.kind = .po) ∨ (p ∈ S.pok ∧ p.kind = .pk) ∨ (S.va = some p ∧ p.kind = .vp) ∨
    (p ∈ S.kwo ∧ p.kind = .ko) ∨ (S.vk = some p ∧ p.kind = .vk) := by
  rcases (mem_all_iff S p).1 hp with h | h | h | h | h
  · exact .inl ⟨h, hS.pos p h⟩
  · exact .inr (.inl ⟨h, hS.pok p h⟩)
  · exact .inr (.inr (.inl ⟨h, hS.va p h⟩))
  · exact .inr (.inr (.inr (.inl ⟨h, hS.kwo p h⟩)))
  · exact .inr (.inr (.inr (.inr ⟨h, hS.vk p h⟩)))

theorem rankSorted_all (S : Sorted) (hS : BucketKinds S) : rankSorted S.all := by
  have h1 : AllKind .po S.pos := hS.pos
  have h2 : AllKind .pk S.pok := hS.pok
  have h3 : AllKind .vp S.va.toList := allKind_toList hS.va
  have h4 : AllKind .ko S.kwo := hS.kwo
  have h5 : AllKind .vk S.vk.toList := allKind_toList hS.vk
  have same : ∀ {k : Kind} {xs : List Param}, AllKind k xs → rankSorted xs := by
    intro k xs h
    exact pairwise_of_forall_mem (fun a ha b hb => by rw [h a ha, h b hb]; exact Nat.le_refl _)
  unfold Sorted.all rankSorted
  simp only [List.pairwise_append, List.mem_append]
  refine ⟨⟨⟨⟨same h1, same h2, ?_⟩, same h3, ?_⟩, same h4, ?_⟩, same h5, ?_⟩
  · intro a ha b hb; rw [h1 a ha, h2 b hb]; decide
  · intro a ha b hb
    rw [h3 b hb]
    rcases ha with ha | ha
    · rw [h1 a ha]; decide
    · rw [h2 a ha]; decide
  · intro a ha b hb
    rw [h4 b hb]
    rcases ha with (ha | ha) | ha
    · rw [h1 a ha]; decide
    · rw [h2 a ha]; decide
    · rw [h3 a ha]; decide
  · intro a ha b hb
    rw [h5 b hb]
    rcases ha with ((ha | ha) | ha) | ha
    · rw [h1 a ha]; decide
    · rw [h2 a ha]; decide
    · rw [h3 a ha]; decide
    · rw [h4 a ha]; decide

theorem positionals_all_Laws (S : Sorted) (hS : BucketKinds S) : positionals S.all = S.pos ++ S.pok := by
  have h1 : AllKind .po S.pos := hS.pos
  have h2 : AllKind .pk S.pok := hS.pok
  have h3 : AllKind .vp S.va.toList := allKind_toList hS.va
  have h4 : AllKind .ko S.kwo := hS.kwo
  have h5 : AllKind .vk S.vk.toList := allKind_toList hS.vk
  have keep : ∀ {k : Kind} {xs : List Param}, AllKind k xs → (k = .po ∨ k = .pk) →
      xs.filter isPositional = xs := by
    intro k xs h hk
    rw [List.filter_eq_self]
    intro p hp
    rw [isPositional_iff, h p hp]; exact hk
  have drop : ∀ {k : Kind} {xs : List Param}, AllKind k xs → (k ≠ .po ∧ k ≠ .pk) →
      xs.filter isPositional = [] := by
    intro k xs h hk
    rw [List.filter_eq_nil_iff]
    intro p hp
    rw [isPositional_iff, h p hp]
    intro hh; rcases hh with hh | hh
    · exact hk.1 hh
    · exact hk.2 hh
  unfold positionals Sorted.all
  simp only [List.filter_append]
  rw [keep h1 (.inl rfl), keep h2 (.inr rfl), drop h3 (by decide), drop h4 (by decide),
    drop h5 (by decide)]
  simp

theorem dfltOK_all (S : Sorted) (hS : BucketKinds S)
    (hm : mono ((S.pos ++ S.pok).map (·.dflt.isSome))) : dfltOK S.all := by
  have hnp : ∀ q ∈ S.va.toList ++ S.kwo ++ S.vk.toList, isPositional q = false := by
    intro q hq
    have h3 : AllKind .vp S.va.toList := allKind_toList hS.va
    have h4 : AllKind .ko S.kwo := hS.kwo
    have h5 : AllKind .vk S.vk.toList := allKind_toList hS.vk
    simp only [List.mem_append] at hq
    rcases hq with (hq | hq) | hq
    · simp [isPositional, h3 q hq]
    · simp [isPositional, h4 q hq]
    · simp [isPositional, h5 q hq]
  have e : S.all = (S.pos ++ S.pok) ++ (S.va.toList ++ S.kwo ++ S.vk.toList) := by
    unfold Sorted.all; simp only [List.append_assoc]
  unfold dfltOK
  rw [e, List.pairwise_append]
  refine ⟨?_, ?_, ?_⟩
  · unfold mono at hm
    rw [List.pairwise_map] at hm
    exact hm.imp (fun h _ _ => h)
  · exact pairwise_of_forall_mem (fun a _ b hb _ hq => by rw [hnp b hb] at hq; cases hq)
  · intro a _ b hb _ hq
    rw [hnp b hb] at hq; cases hq

/-- the counts of a name in the buckets of a well-formed signature are decided by its kind -/
theorem bucket_counts (sig : USig) (hwf : WF sig.params) (n : Nat) :
    cn (sortParams sig).pos n = (if kindOf sig.params n = some .po then 1 else 0) ∧
    cn (sortParams sig).pok n = (if kindOf sig.params n = some .pk then 1 else 0) ∧
    cn (sortParams sig).va.toList n = (if kindOf sig.params n = some .vp then 1 else 0) ∧
    cn (sortParams sig).kwo n = (if kindOf sig.params n = some .ko then 1 else 0) ∧
    cn (sortParams sig).vk.toList n = (if kindOf sig.params n = some .vk then 1 else 0) := by
  obtain ⟨f1, f2, f3, f4, f5, _, _⟩ := sortParams_fields sig hwf
  obtain ⟨_, hn, _, _⟩ := WF_inv _ hwf
  rw [f1, f2, f3, f4, f5]
  exact ⟨cn_filter_kind _ hn _ _, cn_filter_kind _ hn _ _, cn_filter_kind _ hn _ _,
    cn_filter_kind _ hn _ _, cn_filter_kind _ hn _ _⟩

theorem kindOf_none {ps : List Param} {n : Nat} (h : n ∉ names ps) : kindOf ps n = none := by
  unfold kindOf
  have : ps.find? (fun p => p.name = n) = none := by
    simp only [List.find?_eq_none, decide_eq_true_eq]
    intro p hp e
    exact h (by rw [← e]; exact List.mem_map_of_mem hp)
  rw [this]; rfl

theorem cn_all (S : Sorted) (n : Nat) :
    cn S.all n = cn S.pos n + cn S.pok n + cn S.va.toList n + cn S.kwo n + cn S.vk.toList n := by
  unfold Sorted.all
  simp only [cn_append]

theorem nodup_of_cn {ps : List Param} (h : ∀ n, cn ps n ≤ 1) : (names ps).Nodup :=
  List.nodup_iff_count.2 h

theorem cn_le_one_of_nodup {ps : List Param} (h : (names ps).Nodup) (n : Nat) : cn ps n ≤ 1 :=
  List.nodup_iff_count.1 h n

end SV
