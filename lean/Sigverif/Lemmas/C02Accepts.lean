/-
  Lemmas/C02Accepts.lean — declarative characterisation of `accepts` for duplicate-free keyword
  lists, and its "view" on a well-kinded `Sorted`.
-/
import Sigverif.Lemmas.C02Sort
namespace SV

theorem bindKw_eq_some_iff (kwp : List Nat) (vk : Bool) (K : List Nat) (hK : K.Nodup)
    (bound b : List Nat) :
    bindKw kwp vk bound K = some b ↔
      (∀ k ∈ K, k ∈ kwp → k ∉ bound) ∧ (∀ k ∈ K, k ∉ kwp → vk = true) ∧
      b = (K.filter (fun k => kwp.contains k)).reverse ++ bound := by
  induction K generalizing bound with
  | nil => simp [bindKw, eq_comm]
  | cons k ks ih =>
    rw [List.nodup_cons] at hK
    unfold bindKw
    by_cases hk : kwp.contains k = true
    · have hk' : k ∈ kwp := by simpa using hk
      simp only [hk, if_true]
      by_cases hb : bound.contains k = true
      · have hb' : k ∈ bound := by simpa using hb
        simp only [hb, if_true]
        constructor
        · intro h; cases h
        · intro h; exact absurd hb' (h.1 k (by simp) hk')
      · have hb' : k ∉ bound := by simpa using hb
        simp only [hb, if_false, Bool.false_eq_true]
        rw [ih hK.2]
        simp only [List.mem_cons, List.filter_cons, hk, if_true, List.reverse_cons,
          List.append_assoc, List.singleton_append, forall_eq_or_imp]
        constructor
        · rintro ⟨h1, h2, h3⟩
          refine ⟨⟨fun _ => hb', ?_⟩, ⟨fun h => absurd hk' h, h2⟩, h3⟩
          intro a ha hakw hab
          exact h1 a ha hakw (.inr hab)
        · rintro ⟨⟨_, h1⟩, ⟨_, h2⟩, h3⟩
          refine ⟨?_, h2, h3⟩
          intro a ha hakw hab
          rcases hab with rfl | hab
          · exact hK.1 ha
          · exact h1 a ha hakw hab
    · have hk' : k ∉ kwp := by simpa using hk
      simp only [hk, if_false, Bool.false_eq_true]
      cases vk with
      | true =>
        simp only [if_true]
        rw [ih hK.2]
        simp only [List.mem_cons, List.filter_cons, hk, if_false, Bool.false_eq_true,
          forall_eq_or_imp]
        constructor
        · rintro ⟨h1, h2, h3⟩
          exact ⟨⟨fun h => absurd h hk', h1⟩, ⟨fun _ => trivial, h2⟩, h3⟩
        · rintro ⟨⟨_, h1⟩, ⟨_, h2⟩, h3⟩
          exact ⟨h1, h2, h3⟩
      | false =>
        simp only [Bool.false_eq_true, if_false]
        constructor
        · intro h; cases h
        · intro h; exact absurd (h.2.1 k (by simp) hk') (by simp)

def reqNames (s : List Param) : List Nat := names ((s.filter isNamed).filter (·.required))

/-- what argument binding looks at -/
structure View where
  P : List Nat       -- names of the positional parameters, in order
  va : Bool
  vk : Bool
  kw : List Nat      -- names that can be passed by keyword
  req : List Nat     -- names of the required (non-star) parameters

def View.acc (v : View) (n : Nat) (K : List Nat) : Prop :=
  (n ≤ v.P.length ∨ v.va = true) ∧
  (∀ k ∈ K, k ∈ v.kw → k ∉ v.P.take n) ∧
  (∀ k ∈ K, k ∉ v.kw → v.vk = true) ∧
  (∀ x ∈ v.req, x ∈ v.P.take n ∨ (x ∈ K ∧ x ∈ v.kw))

def viewOf (s : List Param) : View :=
  ⟨names (positionals s), hasVa s, hasVk s, kwNames s, reqNames s⟩

theorem accepts_iff_view (s : List Param) (n : Nat) (K : List Nat) (hK : K.Nodup) :
    accepts s n K = true ↔ (viewOf s).acc n K := by
  unfold accepts View.acc viewOf
  simp only [names_length_C02]
  by_cases h1 : (n > (positionals s).length && !hasVa s) = true
  · simp only [h1, if_true]
    simp only [Bool.and_eq_true, decide_eq_true_eq, Bool.not_eq_true'] at h1
    constructor
    · intro h; cases h
    · rintro ⟨h, _⟩
      rcases h with h | h
      · omega
      · rw [h1.2] at h; cases h
  · simp only [h1, if_false, Bool.false_eq_true]
    have h1' : n ≤ (positionals s).length ∨ hasVa s = true := by
      simp only [Bool.and_eq_true, decide_eq_true_eq, Bool.not_eq_true', not_and,
        Bool.not_eq_false] at h1
      by_cases hn : n ≤ (positionals s).length
      · exact .inl hn
      · exact .inr (h1 (by omega))
    cases hb : bindKw (kwNames s) (hasVk s) (List.map (fun x => x.name) (List.take n (positionals s))) K with
    | none =>
      simp only [Bool.false_eq_true, false_iff]
      rintro ⟨_, h2, h3, _⟩
      have := (bindKw_eq_some_iff (kwNames s) (hasVk s) K hK
        (List.map (fun x => x.name) (List.take n (positionals s))) _).2 ⟨?_, h3, rfl⟩
      · rw [hb] at this; cases this
      · intro k hk hkw
        have := h2 k hk hkw
        rwa [← names_take_C02] at this
    | some b =>
      obtain ⟨h2, h3, hbe⟩ := (bindKw_eq_some_iff (kwNames s) (hasVk s) K hK _ _).1 hb
      simp only [List.all_eq_true, Bool.or_eq_true, Bool.not_eq_true', List.contains_iff_mem]
      have hmem : ∀ x, x ∈ b ↔ (x ∈ (names (positionals s)).take n ∨ (x ∈ K ∧ x ∈ kwNames s)) := by
        intro x
        rw [hbe, ← names_take_C02]
        simp only [List.mem_append, List.mem_reverse, List.mem_filter, List.contains_iff_mem,
          names]
        constructor
        · rintro (h | h)
          · exact .inr ⟨h.1, by simpa using h.2⟩
          · exact .inl h
        · rintro (h | h)
          · exact .inr h
          · exact .inl ⟨h.1, by simpa using h.2⟩
      constructor
      · intro h
        refine ⟨h1', ?_, h3, ?_⟩
        · intro k hk hkw
          have := h2 k hk hkw
          rwa [← names_take_C02]
        · intro x hx
          unfold reqNames at hx
          obtain ⟨p, hp, rfl⟩ := mem_names_C02.1 hx
          rw [List.mem_filter] at hp
          have := h p hp.1
          rcases this with h | h
          · rw [hp.2] at h; cases h
          · exact (hmem _).1 (by simpa using h)
      · rintro ⟨_, _, _, h4⟩ p hp
        by_cases hr : p.required = true
        · right
          have : p.name ∈ reqNames s := by
            unfold reqNames
            exact mem_names_of_mem_C02 (List.mem_filter.2 ⟨hp, hr⟩)
          have := (hmem _).2 (h4 _ this)
          simpa using this
        · left; simpa using hr

end SV
