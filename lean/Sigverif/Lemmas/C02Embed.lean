/-
  Lemmas/C02Embed.lean — `embedStep` = merge with the forwarded stars, then a "tail" that
  concatenates; closed form (buckets only) of the tail and of the whole step.
-/
import Sigverif.Lemmas.C02Merge
namespace SV

/-- the part of `embedStep` after the merge (verbatim) -/
def embedTail (outer i : Sorted) (uva uvk : Bool) (depth : Nat) : Except Err Sorted := do
  let nm : List Nat := []
  let ePos := outer.pos
  let nm ← checkNoDupes nm outer.pos
  let (ePos, ePok, nm) ←
    (match i.pos with
     | ip0 :: _ => do
        let nm ← checkNoDupes nm outer.pok
        let ePos := ePos ++ outer.pok.map (·.withKind .po)
        let ePos := if ip0.dflt.isNone then clearDefaults ePos else ePos
        let nm ← checkNoDupes nm i.pos
        pure (ePos ++ i.pos, ([] : List Param), nm)
     | [] => do
        let nm ← checkNoDupes nm outer.pok
        match i.pok with
        | q0 :: _ =>
          if q0.dflt.isNone then pure (clearDefaults ePos, clearDefaults outer.pok, nm)
          else pure (ePos, outer.pok, nm)
        | [] => pure (ePos, outer.pok, nm) : Except Err (List Param × List Param × List Nat))
  let nm ← checkNoDupes nm i.pok
  let ePok := ePok ++ i.pok
  let nm ← checkNoDupes nm outer.kwo
  let eKwo := pupdate [] outer.kwo
  let nm ← checkNoDupes nm i.kwo
  let eKwo := pupdate eKwo i.kwo
  let eVa := if uva then i.va else outer.va
  let eVk := if uvk then i.vk else outer.vk
  let nm ← checkNoDupes nm eVa.toList
  let _ ← checkNoDupes nm eVk.toList
  let oSrc := outer.src
  let oSrc := match outer.va with | some p => if uva then dpop oSrc p.name else oSrc | none => oSrc
  let oSrc := match outer.vk with | some p => if uvk then dpop oSrc p.name else oSrc | none => oSrc
  let src := dupdate i.src oSrc
  let depths := mergeDepths outer.depths (copyDepths i.depths depth)
  pure { pos := ePos, pok := ePok, va := eVa, kwo := eKwo, vk := eVk, src := src, depths := depths }

theorem embedStep_eq (outer inner : Sorted) (uva uvk : Bool) (depth : Nat) :
    embedStep outer inner uva uvk depth =
      (mergeStep inner { va := if uva then outer.va else none, vk := if uvk then outer.vk else none })
        >>= fun i => embedTail outer i uva uvk depth := rfl

/-- does the first positional parameter contributed by the inner signature lack a default? -/
def innerFirstRequired (i : Sorted) : Bool :=
  match i.pos with
  | ip0 :: _ => ip0.dflt.isNone
  | [] => match i.pok with
    | q0 :: _ => q0.dflt.isNone
    | [] => false

def cdIf (c : Bool) (l : List Param) : List Param := if c then clearDefaults l else l

def ePosC (O i : Sorted) : List Param :=
  if i.pos.isEmpty then cdIf (innerFirstRequired i) O.pos
  else cdIf (innerFirstRequired i) (O.pos ++ O.pok.map (·.withKind .po)) ++ i.pos

def ePokC (O i : Sorted) : List Param :=
  (if i.pos.isEmpty then cdIf (innerFirstRequired i) O.pok else []) ++ i.pok

/-- closed form (buckets only) of `embedTail` -/
def embedTailC (O i : Sorted) (uva uvk : Bool) : Except Err Sorted := do
  let nm ← checkNoDupes [] O.pos
  let nm ← checkNoDupes nm O.pok
  let nm ← checkNoDupes nm i.pos
  let nm ← checkNoDupes nm i.pok
  let nm ← checkNoDupes nm O.kwo
  let nm ← checkNoDupes nm i.kwo
  let nm ← checkNoDupes nm (if uva then i.va else O.va).toList
  let _ ← checkNoDupes nm (if uvk then i.vk else O.vk).toList
  pure { pos := ePosC O i, pok := ePokC O i, va := if uva then i.va else O.va,
         kwo := pupdate (pupdate [] O.kwo) i.kwo, vk := if uvk then i.vk else O.vk }

theorem checkNoDupes_nil (c : List Nat) : checkNoDupes c [] = .ok c := by
  simp [checkNoDupes]

def embedSrc (outer i : Sorted) (uva uvk : Bool) : Srcs :=
  let oSrc := outer.src
  let oSrc := match outer.va with | some p => if uva then dpop oSrc p.name else oSrc | none => oSrc
  let oSrc := match outer.vk with | some p => if uvk then dpop oSrc p.name else oSrc | none => oSrc
  dupdate i.src oSrc

theorem embedTail_eq (O i : Sorted) (uva uvk : Bool) (d : Nat) :
    embedTail O i uva uvk d =
      (embedTailC O i uva uvk).map (fun r =>
        { r with
          src := embedSrc O i uva uvk,
          depths := mergeDepths O.depths (copyDepths i.depths d) }) := by
  unfold embedTail embedTailC
  simp only [bind, Except.bind, pure, Except.pure]
  cases h1 : checkNoDupes [] O.pos with
  | error e => simp [Except.map]
  | ok nm1 =>
    simp only
    cases hp : i.pos with
    | cons ip0 t =>
      simp only
      cases h2 : checkNoDupes nm1 O.pok with
      | error e => simp [Except.map]
      | ok nm2 =>
        simp only
        cases h3 : checkNoDupes nm2 (ip0 :: t) with
        | error e => simp [Except.map]
        | ok nm3 =>
          simp only
          cases h4 : checkNoDupes nm3 i.pok with
          | error e => simp [Except.map]
          | ok nm4 =>
            simp only
            cases h5 : checkNoDupes nm4 O.kwo with
            | error e => simp [Except.map]
            | ok nm5 =>
              simp only
              cases h6 : checkNoDupes nm5 i.kwo with
              | error e => simp [Except.map]
              | ok nm6 =>
                simp only
                cases h7 : checkNoDupes nm6 (if uva = true then i.va else O.va).toList with
                | error e => simp [Except.map]
                | ok nm7 =>
                  simp only
                  cases h8 : checkNoDupes nm7 (if uvk = true then i.vk else O.vk).toList with
                  | error e => simp [Except.map]
                  | ok nm8 =>
                    simp only [Except.map, ePosC, ePokC, hp, innerFirstRequired, cdIf]
                    simp
                    rfl
    | nil =>
      simp only [checkNoDupes_nil]
      cases h2 : checkNoDupes nm1 O.pok with
      | error e => simp [Except.map]
      | ok nm2 =>
        simp only
        cases hq : i.pok with
        | cons q0 t =>
          by_cases hd : q0.dflt.isNone = true
          · simp only [hd, if_true]
            cases h4 : checkNoDupes nm2 (q0 :: t) with
            | error e => simp [Except.map]
            | ok nm4 =>
              simp only
              cases h5 : checkNoDupes nm4 O.kwo with
              | error e => simp [Except.map]
              | ok nm5 =>
                simp only
                cases h6 : checkNoDupes nm5 i.kwo with
                | error e => simp [Except.map]
                | ok nm6 =>
                  simp only
                  cases h7 : checkNoDupes nm6 (if uva = true then i.va else O.va).toList with
                  | error e => simp [Except.map]
                  | ok nm7 =>
                    simp only
                    cases h8 : checkNoDupes nm7 (if uvk = true then i.vk else O.vk).toList with
                    | error e => simp [Except.map]
                    | ok nm8 =>
                      simp only [Except.map, ePosC, ePokC, hp, hq, innerFirstRequired, cdIf]
                      simp [hd]
                      rfl
          · simp only [hd, if_false, Bool.false_eq_true]
            cases h4 : checkNoDupes nm2 (q0 :: t) with
            | error e => simp [Except.map]
            | ok nm4 =>
              simp only
              cases h5 : checkNoDupes nm4 O.kwo with
              | error e => simp [Except.map]
              | ok nm5 =>
                simp only
                cases h6 : checkNoDupes nm5 i.kwo with
                | error e => simp [Except.map]
                | ok nm6 =>
                  simp only
                  cases h7 : checkNoDupes nm6 (if uva = true then i.va else O.va).toList with
                  | error e => simp [Except.map]
                  | ok nm7 =>
                    simp only
                    cases h8 : checkNoDupes nm7 (if uvk = true then i.vk else O.vk).toList with
                    | error e => simp [Except.map]
                    | ok nm8 =>
                      simp only [Except.map, ePosC, ePokC, hp, hq, innerFirstRequired, cdIf]
                      simp [hd]
                      rfl
        | nil =>
          simp only [checkNoDupes_nil]
          cases h5 : checkNoDupes nm2 O.kwo with
          | error e => simp [Except.map]
          | ok nm5 =>
            simp only
            cases h6 : checkNoDupes nm5 i.kwo with
            | error e => simp [Except.map]
            | ok nm6 =>
              simp only
              cases h7 : checkNoDupes nm6 (if uva = true then i.va else O.va).toList with
              | error e => simp [Except.map]
              | ok nm7 =>
                simp only
                cases h8 : checkNoDupes nm7 (if uvk = true then i.vk else O.vk).toList with
                | error e => simp [Except.map]
                | ok nm8 =>
                  simp only [Except.map, ePosC, ePokC, hp, hq, innerFirstRequired, cdIf]
                  simp
                  rfl

end SV
