/-
  Lemmas/LawsSteps.lean — the positional phases (P and Q) of a merge step as an abstract
  transition system on (remaining left chain, remaining right chain, buckets).
-/
import Sigverif.Lemmas.LawsNeutralL
namespace SV
set_option linter.unusedSimpArgs false
set_option linter.unusedVariables false

/-- the five parameter lists of the merger state -/
structure Bk where
  pos : List Param
  pok : List Param
  kwo : List Param
  lUn : List Param
  rUn : List Param

def MState.bk (st : MState) : Bk := ⟨st.pos, st.pok, st.kwo, st.lUn, st.rUn⟩

/-- an entry `e` is added to the buckets -/
inductive Add (e : Param) (b : Bk) : Bk → Prop
  | pos (h : b.pok = []) : Add e b { b with pos := b.pos ++ [e] }
  | pok : Add e b { b with pok := b.pok ++ [e] }
  | kwo : Add e b { b with kwo := pset b.kwo e }
  | flush : Add e b { b with pos := b.pos ++ b.pok.map (·.withKind .po) ++ [e], pok := [] }

inductive Step : List Param → List Param → Bk → List Param → List Param → Bk → Prop
  | both (lp rp e : Param) (xs ys : List Param) (b b' : Bk)
      (hn : e.name = lp.name ∨ e.name = rp.name)
      (hd : e.dflt.isSome = (lp.dflt.isSome && rp.dflt.isSome)) (ha : Add e b b') :
      Step (lp :: xs) (rp :: ys) b xs ys b'
  | left (lp e : Param) (xs : List Param) (b b' : Bk) (hn : e.name = lp.name) (hd : e.dflt = lp.dflt)
      (ha : Add e b b') : Step (lp :: xs) [] b xs [] b'
  | leftDrop (lp : Param) (xs : List Param) (b : Bk) (hd : lp.dflt.isSome = true) :
      Step (lp :: xs) [] b xs [] b
  | leftLimbo (lp q e : Param) (xs : List Param) (b : Bk) (hq : pget b.rUn lp.name = some q)
      (hn : e.name = lp.name) :
      Step (lp :: xs) [] b xs [] { b with kwo := pset b.kwo e, rUn := ppop b.rUn lp.name }
  | right (rp e : Param) (ys : List Param) (b b' : Bk) (hn : e.name = rp.name) (hd : e.dflt = rp.dflt)
      (ha : Add e b b') : Step [] (rp :: ys) b [] ys b'
  | rightDrop (rp : Param) (ys : List Param) (b : Bk) (hd : rp.dflt.isSome = true) :
      Step [] (rp :: ys) b [] ys b
  | rightLimbo (rp q e : Param) (ys : List Param) (b : Bk) (hq : pget b.lUn rp.name = some q)
      (hn : e.name = rp.name) :
      Step [] (rp :: ys) b [] ys { b with kwo := pset b.kwo e, lUn := ppop b.lUn rp.name }

inductive Steps : List Param → List Param → Bk → List Param → List Param → Bk → Prop
  | refl (xs ys : List Param) (b : Bk) : Steps xs ys b xs ys b
  | head {xs ys xs' ys' xs'' ys'' : List Param} {b b' b'' : Bk} :
      Step xs ys b xs' ys' b' → Steps xs' ys' b' xs'' ys'' b'' → Steps xs ys b xs'' ys'' b''

theorem Steps.trans {xs ys xs' ys' xs'' ys'' : List Param} {b b' b'' : Bk}
    (h1 : Steps xs ys b xs' ys' b') (h2 : Steps xs' ys' b' xs'' ys'' b'') :
    Steps xs ys b xs'' ys'' b'' := by
  induction h1 with
  | refl => exact h2
  | head s _ ih => exact Steps.head s (ih h2)

/-- an invariant of single steps is an invariant of runs -/
theorem Steps.inv (I : List Param → List Param → Bk → Prop)
    (hstep : ∀ xs ys b xs' ys' b', Step xs ys b xs' ys' b' → I xs ys b → I xs' ys' b')
    {xs ys xs' ys' : List Param} {b b' : Bk}
    (h : Steps xs ys b xs' ys' b') (h0 : I xs ys b) : I xs' ys' b' := by
  induction h with
  | refl => exact h0
  | head s _ ih => exact ih (hstep _ _ _ _ _ _ s h0)

theorem concile_dflt_isSome (l r : Param) :
    (concile l r).dflt.isSome = (l.dflt.isSome && r.dflt.isSome) := by
  simp only [concile]
  cases l.dflt <;> cases r.dflt <;> simp
  split <;> rfl

/-! ### bridge: the code runs are runs of the transition system -/

theorem unbalancedPos_step (side : Side) (l r : Sorted) (ex : Param) (cf : List Param) (st st' : MState)
    (cf' : List Param) (h : unbalancedPos side l r ex cf st = .ok (st', cf')) :
    (∃ o, cf = o :: cf' ∧ st'.bk = { st.bk with pos := st.pos ++ [concile ex o] }) ∨
    (cf = [] ∧ cf' = [] ∧ st'.bk = { st.bk with pos := st.pos ++ [ex] }) ∨
    (cf = [] ∧ cf' = [] ∧ st'.bk = st.bk ∧ ex.dflt.isSome = true) := by
  cases cf with
  | cons o rest =>
    simp only [unbalancedPos, Except.ok.injEq, Prod.mk.injEq] at h
    obtain ⟨rfl, rfl⟩ := h
    exact .inl ⟨o, rfl, rfl⟩
  | nil =>
    cases side <;> simp only [unbalancedPos] at h <;> (repeat' split at h) <;>
      first
      | (cases h; done)
      | (simp only [Except.ok.injEq, Prod.mk.injEq] at h
         obtain ⟨rfl, rfl⟩ := h
         first
         | exact .inr (.inl ⟨rfl, rfl, rfl⟩)
         | (refine .inr (.inr ⟨rfl, rfl, rfl, ?_⟩)
            rename_i hd _
            cases hd' : ex.dflt <;> simp_all))

theorem run_P (l r : Sorted) (ls rs il ir : List Param) (st st' : MState) (il' ir' : List Param)
    (hpok : st.pok = [])
    (h : phaseP l r ls rs il ir st = .ok (st', il', ir')) :
    Steps (ls ++ il) (rs ++ ir) st.bk il' ir' st'.bk := by
  induction ls, rs, il, ir, st using phaseP.induct l r with
  | case1 il ir st =>
    simp only [phaseP, Except.ok.injEq, Prod.mk.injEq] at h
    obtain ⟨rfl, rfl, rfl⟩ := h
    exact Steps.refl _ _ _
  | case2 lp ls rp rs il ir st st1 ih =>
    simp only [phaseP] at h
    refine Steps.head ?_ (ih hpok h)
    exact Step.both lp rp (concile lp rp) _ _ _ _ (.inl rfl) (concile_dflt_isSome _ _) (Add.pos hpok)
  | case3 lp ls il ir st ih =>
    simp only [phaseP, bind, Except.bind] at h
    split at h
    · cases h
    · rename_i v hv
      obtain ⟨st1, ir1⟩ := v
      have hpok' : st1.pok = [] := by
        rcases unbalancedPos_step _ _ _ _ _ _ _ _ hv with ⟨o, _, hb⟩ | ⟨_, _, hb⟩ | ⟨_, _, hb, _⟩ <;>
          exact (congrArg Bk.pok hb).trans hpok
      refine Steps.head ?_ (ih _ _ hpok' h)
      rcases unbalancedPos_step _ _ _ _ _ _ _ _ hv with ⟨o, rfl, hb⟩ | ⟨rfl, rfl, hb⟩ | ⟨rfl, rfl, hb, hd⟩
      · rw [hb]
        exact Step.both lp o (concile lp o) _ _ _ _ (.inl rfl) (concile_dflt_isSome _ _) (Add.pos hpok)
      · rw [hb]
        exact Step.left lp lp _ _ _ rfl rfl (Add.pos hpok)
      · rw [hb]
        exact Step.leftDrop lp _ _ hd
  | case4 rp rs il ir st ih =>
    simp only [phaseP, bind, Except.bind] at h
    split at h
    · cases h
    · rename_i v hv
      obtain ⟨st1, il1⟩ := v
      have hpok' : st1.pok = [] := by
        rcases unbalancedPos_step _ _ _ _ _ _ _ _ hv with ⟨o, _, hb⟩ | ⟨_, _, hb⟩ | ⟨_, _, hb, _⟩ <;>
          exact (congrArg Bk.pok hb).trans hpok
      refine Steps.head ?_ (ih _ _ hpok' h)
      rcases unbalancedPos_step _ _ _ _ _ _ _ _ hv with ⟨o, rfl, hb⟩ | ⟨rfl, rfl, hb⟩ | ⟨rfl, rfl, hb, hd⟩
      · rw [hb]
        refine Step.both o rp (concile rp o) _ _ _ _ (.inr rfl) ?_ (Add.pos hpok)
        rw [concile_dflt_isSome, Bool.and_comm]
      · rw [hb]
        exact Step.right rp rp _ _ _ rfl rfl (Add.pos hpok)
      · rw [hb]
        exact Step.rightDrop rp _ _ hd

end SV

namespace SV
set_option linter.unusedSimpArgs false
set_option linter.unusedVariables false

theorem unbalancedPok_step_L (l r : Sorted) (ex : Param) (st st' : MState)
    (h : unbalancedPok .L l r ex st = .ok st') :
    (∃ q, pget st.rUn ex.name = some q ∧
        st'.bk = { st.bk with kwo := pset st.kwo ((concile ex q).withKind .ko),
                              rUn := ppop st.rUn ex.name }) ∨
    (∃ e, e.name = ex.name ∧ e.dflt = ex.dflt ∧ Add e st.bk st'.bk) ∨
    (st'.bk = st.bk ∧ ex.dflt.isSome = true) := by
  simp only [unbalancedPok] at h
  split at h
  · rename_i q hq
    simp only [Except.ok.injEq] at h
    subst h
    exact .inl ⟨q, hq, rfl⟩
  · split at h
    · simp only [Except.ok.injEq] at h
      subst h
      exact .inr (.inl ⟨ex, rfl, rfl, Add.pok⟩)
    · split at h
      · simp only [Except.ok.injEq] at h
        subst h
        exact .inr (.inl ⟨ex.withKind .ko, rfl, rfl, Add.kwo⟩)
      · split at h
        · simp only [Except.ok.injEq] at h
          subst h
          exact .inr (.inl ⟨ex.withKind .po, rfl, rfl, Add.flush⟩)
        · split at h
          · cases h
          · rename_i hd
            simp only [Except.ok.injEq] at h
            subst h
            refine .inr (.inr ⟨rfl, ?_⟩)
            cases hd' : ex.dflt <;> simp_all

theorem unbalancedPok_step_R (l r : Sorted) (ex : Param) (st st' : MState)
    (h : unbalancedPok .R l r ex st = .ok st') :
    (∃ q, pget st.lUn ex.name = some q ∧
        st'.bk = { st.bk with kwo := pset st.kwo ((concile ex q).withKind .ko),
                              lUn := ppop st.lUn ex.name }) ∨
    (∃ e, e.name = ex.name ∧ e.dflt = ex.dflt ∧ Add e st.bk st'.bk) ∨
    (st'.bk = st.bk ∧ ex.dflt.isSome = true) := by
  simp only [unbalancedPok] at h
  split at h
  · rename_i q hq
    simp only [Except.ok.injEq] at h
    subst h
    exact .inl ⟨q, hq, rfl⟩
  · split at h
    · simp only [Except.ok.injEq] at h
      subst h
      exact .inr (.inl ⟨ex, rfl, rfl, Add.pok⟩)
    · split at h
      · simp only [Except.ok.injEq] at h
        subst h
        exact .inr (.inl ⟨ex.withKind .ko, rfl, rfl, Add.kwo⟩)
      · split at h
        · simp only [Except.ok.injEq] at h
          subst h
          exact .inr (.inl ⟨ex.withKind .po, rfl, rfl, Add.flush⟩)
        · split at h
          · cases h
          · rename_i hd
            simp only [Except.ok.injEq] at h
            subst h
            refine .inr (.inr ⟨rfl, ?_⟩)
            cases hd' : ex.dflt <;> simp_all

theorem run_Q (l r : Sorted) (il ir : List Param) (st st' : MState)
    (h : phaseQ l r il ir st = .ok st') : Steps il ir st.bk [] [] st'.bk := by
  induction il, ir, st using phaseQ_ind l r with
  | h1 st =>
    simp only [phaseQ, Except.ok.injEq] at h
    subst h
    exact Steps.refl _ _ _
  | h2 lp ls rp rs st hn ih =>
    rw [phaseQ, if_pos hn] at h
    refine Steps.head ?_ (ih h)
    exact Step.both lp rp (concile lp rp) _ _ _ _ (.inl rfl) (concile_dflt_isSome _ _) Add.pok
  | h3 lp ls rp rs st hn ih =>
    rw [phaseQ, if_neg hn] at h
    refine Steps.head ?_ (ih h)
    exact Step.both lp rp ((concile lp rp).withKind .po) _ _ _ _ (.inl rfl) (concile_dflt_isSome _ _)
      Add.flush
  | h4 lp ls st ih =>
    simp only [phaseQ, bind, Except.bind] at h
    split at h
    · cases h
    · rename_i st1 hv
      refine Steps.head ?_ (ih _ h)
      rcases unbalancedPok_step_L _ _ _ _ _ hv with ⟨q, hq, hb⟩ | ⟨e, hn, hd, ha⟩ | ⟨hb, hd⟩
      · rw [hb]
        exact Step.leftLimbo lp q _ _ _ hq rfl
      · exact Step.left lp e _ _ _ hn hd ha
      · rw [hb]
        exact Step.leftDrop lp _ _ hd
  | h5 rp rs st ih =>
    simp only [phaseQ, bind, Except.bind] at h
    split at h
    · cases h
    · rename_i st1 hv
      refine Steps.head ?_ (ih _ h)
      rcases unbalancedPok_step_R _ _ _ _ _ hv with ⟨q, hq, hb⟩ | ⟨e, hn, hd, ha⟩ | ⟨hb, hd⟩
      · rw [hb]
        exact Step.rightLimbo rp q _ _ _ hq rfl
      · exact Step.right rp e _ _ _ hn hd ha
      · rw [hb]
        exact Step.rightDrop rp _ _ hd

end SV
