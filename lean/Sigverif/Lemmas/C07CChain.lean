/-
  Lemmas/C07CChain.lean — case analysis of the fallback chain (Model/Chain.lean) and its link with
  Model/Discovery.lean.
-/
import Sigverif.Model.Chain
import Sigverif.Model.Discovery
namespace SV

section
variable {σ : Type}

/-! ### when a step lets the chain go on, ends it with a signature, ends it with an exception -/

theorem c07c_forgerStep_none (f : Option (COutcome σ)) :
    forgerStep f = none ↔ (f = none ∨ f = some .noOpinion) := by
  rcases f with _ | (_ | _ | _ | _) <;> simp [forgerStep]

theorem c07c_forgerStep_ok (f : Option (COutcome σ)) (s : σ) :
    forgerStep f = some (.ok s) ↔ f = some (.sig s) := by
  rcases f with _ | (_ | _ | _ | _) <;> simp [forgerStep]

theorem c07c_forgerStep_error (f : Option (COutcome σ)) (e : Err) :
    forgerStep f = some (.error e) ↔
      (f = some (.raises e) ∨ (f = some .unknownForwards ∧ e = .unknownForwards)) := by
  rcases f with _ | (_ | _ | _ | _) <;> simp [forgerStep, eq_comm]

theorem c07c_hintStep_none (h : Option (COutcome σ)) :
    hintStep h = none ↔ (h = none ∨ h = some .noOpinion ∨ h = some .unknownForwards) := by
  rcases h with _ | (_ | _ | _ | _) <;> simp [hintStep]

theorem c07c_hintStep_ok (h : Option (COutcome σ)) (s : σ) :
    hintStep h = some (.ok s) ↔ h = some (.sig s) := by
  rcases h with _ | (_ | _ | _ | _) <;> simp [hintStep]

theorem c07c_hintStep_error (h : Option (COutcome σ)) (e : Err) :
    hintStep h = some (.error e) ↔ h = some (.raises e) := by
  rcases h with _ | (_ | _ | _ | _) <;> simp [hintStep]

theorem c07c_autoStep_none (a : COutcome σ) :
    autoStep a = none ↔ (a = .noOpinion ∨ a = .unknownForwards ∨ a = .raises .unknownForwards) := by
  rcases a with _ | _ | _ | e
  · simp [autoStep]
  · simp [autoStep]
  · simp [autoStep]
  · cases e <;> simp [autoStep]

theorem c07c_autoStep_ok (a : COutcome σ) (s : σ) :
    autoStep a = some (.ok s) ↔ a = .sig s := by
  rcases a with _ | _ | _ | e
  · simp [autoStep]
  · simp [autoStep]
  · simp [autoStep]
  · cases e <;> simp [autoStep]

theorem c07c_autoStep_error (a : COutcome σ) (e : Err) :
    autoStep a = some (.error e) ↔ (a = .raises e ∧ e ≠ .unknownForwards) := by
  rcases a with _ | _ | _ | e'
  · simp [autoStep]
  · simp [autoStep]
  · simp [autoStep]
  · cases e' <;> cases e <;> simp [autoStep]

/-! ### the chain, by the first step that ends it -/

/-- the result, whatever it is: the first step that has something to say says it -/
theorem c07c_chain_eq (auto : Bool) (c : ChainInputs σ) (r : Except Err σ) :
    forgedSignature auto c = r ↔
      (forgerStep c.forger = some r
       ∨ (forgerStep c.forger = none ∧ auto = true ∧ hintStep c.hint = some r)
       ∨ (forgerStep c.forger = none ∧ auto = true ∧ hintStep c.hint = none ∧ autoStep c.auto_ = some r)
       ∨ (forgerStep c.forger = none
          ∧ (auto = true → hintStep c.hint = none ∧ autoStep c.auto_ = none) ∧ c.plain = r)) := by
  unfold forgedSignature
  cases hf : forgerStep c.forger with
  | some r' => simp
  | none =>
    cases auto with
    | false => simp
    | true =>
      cases hh : hintStep c.hint with
      | some r' => simp
      | none =>
        cases ha : autoStep c.auto_ with
        | some r' => simp
        | none => simp

theorem c07c_forger_priority (auto : Bool) (c : ChainInputs σ) (s : σ)
    (h : c.forger = some (.sig s)) : forgedSignature auto c = .ok s := by
  simp [forgedSignature, forgerStep, h]

theorem c07c_ok_iff (auto : Bool) (c : ChainInputs σ) (s : σ) :
    forgedSignature auto c = .ok s ↔
      (c.forger = some (.sig s)
       ∨ ((c.forger = none ∨ c.forger = some .noOpinion) ∧ auto = true ∧ c.hint = some (.sig s))
       ∨ ((c.forger = none ∨ c.forger = some .noOpinion) ∧ auto = true
          ∧ (c.hint = none ∨ c.hint = some .noOpinion ∨ c.hint = some .unknownForwards)
          ∧ c.auto_ = .sig s)
       ∨ ((c.forger = none ∨ c.forger = some .noOpinion)
          ∧ (auto = true →
              (c.hint = none ∨ c.hint = some .noOpinion ∨ c.hint = some .unknownForwards)
              ∧ (c.auto_ = .noOpinion ∨ c.auto_ = .unknownForwards ∨ c.auto_ = .raises .unknownForwards))
          ∧ c.plain = .ok s)) := by
  rw [c07c_chain_eq, c07c_forgerStep_ok, c07c_forgerStep_none, c07c_hintStep_ok, c07c_hintStep_none,
    c07c_autoStep_ok, c07c_autoStep_none]

theorem c07c_error_iff (auto : Bool) (c : ChainInputs σ) (e : Err) :
    forgedSignature auto c = .error e ↔
      ((c.forger = some (.raises e) ∨ (c.forger = some .unknownForwards ∧ e = .unknownForwards))
       ∨ ((c.forger = none ∨ c.forger = some .noOpinion) ∧ auto = true ∧ c.hint = some (.raises e))
       ∨ ((c.forger = none ∨ c.forger = some .noOpinion) ∧ auto = true
          ∧ (c.hint = none ∨ c.hint = some .noOpinion ∨ c.hint = some .unknownForwards)
          ∧ (c.auto_ = .raises e ∧ e ≠ .unknownForwards))
       ∨ ((c.forger = none ∨ c.forger = some .noOpinion)
          ∧ (auto = true →
              (c.hint = none ∨ c.hint = some .noOpinion ∨ c.hint = some .unknownForwards)
              ∧ (c.auto_ = .noOpinion ∨ c.auto_ = .unknownForwards ∨ c.auto_ = .raises .unknownForwards))
          ∧ c.plain = .error e)) := by
  rw [c07c_chain_eq, c07c_forgerStep_error, c07c_forgerStep_none, c07c_hintStep_error,
    c07c_hintStep_none, c07c_autoStep_error, c07c_autoStep_none]

/-- `auto = false`: the forger, else the plain signature -/
theorem c07c_no_auto (c : ChainInputs σ) :
    forgedSignature false c = (match forgerStep c.forger with | some r => r | none => c.plain) := by
  unfold forgedSignature
  cases forgerStep c.forger <;> simp

theorem c07c_no_auto_indep (f : Option (COutcome σ)) (h h' : Option (COutcome σ)) (a a' : COutcome σ)
    (p : Except Err σ) :
    forgedSignature false { forger := f, hint := h, auto_ := a, plain := p }
      = forgedSignature false { forger := f, hint := h', auto_ := a', plain := p } := by
  simp [c07c_no_auto]

end

/-! ### the link with Model/Discovery.lean -/

/-- every failure of `forward_signatures` on one call is an UnknownForwards -/
theorem c07c_forwardSig_error (sig : USig) (resolve : RM → RVal) (c : CallRec) (e : Err)
    (h : forwardSig sig resolve c = .error e) : e = .unknownForwards := by
  unfold forwardSig at h
  repeat' split at h
  all_goals first
    | (cases h; done)
    | (simp only [Except.error.injEq] at h; exact h.symm)

theorem c07c_forwardSigs_error (sig : USig) (resolve : RM → RVal) (cs : List CallRec) (e : Err)
    (h : forwardSigs sig resolve cs = .error e) : e = .unknownForwards := by
  induction cs with
  | nil => cases h
  | cons c cs ih =>
    simp only [forwardSigs, bind, Except.bind] at h
    cases hc : forwardSig sig resolve c with
    | error e' =>
      rw [hc] at h
      simp only [Except.error.injEq] at h
      subst h
      exact c07c_forwardSig_error sig resolve c _ hc
    | ok r =>
      rw [hc] at h
      simp only at h
      cases hs : forwardSigs sig resolve cs with
      | error e' =>
        rw [hs] at h
        simp only [Except.error.injEq] at h
        subst h
        exact ih hs
      | ok rs =>
        rw [hs] at h
        cases h

/-- `autoforwards_ast` fails with UnknownForwards only -/
theorem c07c_autoforwardsAst_error (sig : USig) (resolve : RM → RVal) (cs : List CallRec) (e : Err)
    (h : autoforwardsAst sig resolve cs = .error e) : e = .unknownForwards := by
  unfold autoforwardsAst at h
  simp only [bind, Except.bind] at h
  cases hs : forwardSigs sig resolve cs with
  | error e' =>
    rw [hs] at h
    simp only [Except.error.injEq] at h
    subst h
    exact c07c_forwardSigs_error sig resolve cs _ hs
  | ok sigs =>
    rw [hs] at h
    simp only at h
    split at h
    · simp only [Except.error.injEq] at h; exact h.symm
    · split at h
      · cases h
      · simp only [Except.error.injEq] at h; exact h.symm

/-- `autoforwards_function` fails with UnknownForwards only -/
theorem c07c_autoFn_error (own : USig) (resolve : RM → RVal) (calls : Option (List CallRec)) (e : Err)
    (h : autoFn own resolve calls = .error e) : e = .unknownForwards := by
  unfold autoFn at h
  cases calls with
  | none => simp only [Except.error.injEq] at h; exact h.symm
  | some cs => exact c07c_autoforwardsAst_error own resolve cs e h

/-- `discovered` is the chain of an object without forger and without hint whose `autoforwards` is
    `autoforwards_function` -/
theorem c07c_discovered_eq (own : USig) (resolve : RM → RVal) (calls : Option (List CallRec)) :
    discovered own resolve calls
      = forgedSignature true
          { forger := none, hint := none,
            auto_ := COutcome.ofExcept (autoFn own resolve calls), plain := .ok own } := by
  unfold discovered autoFn forgedSignature
  cases calls with
  | none => simp [forgerStep, hintStep, autoStep, COutcome.ofExcept]
  | some cs =>
    simp only [forgerStep, hintStep, if_true]
    cases h : autoforwardsAst own resolve cs with
    | ok s => simp [autoStep, COutcome.ofExcept]
    | error e => cases e <;> simp [autoStep, COutcome.ofExcept]

/-- `autoforwards_method(method, args, kwargs)` on top of `autoforwards_function` -/
def autoMethod (own : USig) (resolve : RM → RVal) (calls : Option (List CallRec)) : Except Err USig :=
  match autoFn own resolve calls with
  | .ok s => (match mask s 1 [] {} with
              | .ok r => .ok r
              | .error _ => .error .unknownForwards)      -- `except ValueError: raise UnknownForwards()`
  | .error e => .error e

theorem c07c_discoveredMethod_eq (own : USig) (resolve : RM → RVal) (calls : Option (List CallRec)) :
    discoveredMethod own resolve calls
      = forgedSignature true
          { forger := none, hint := none,
            auto_ := COutcome.ofExcept (autoMethod own resolve calls), plain := mask own 1 [] {} } := by
  unfold discoveredMethod autoMethod forgedSignature
  simp only [forgerStep, hintStep, if_true]
  cases h : autoFn own resolve calls with
  | ok s =>
    cases hm : mask s 1 [] {} with
    | ok r => simp [hm, autoStep, COutcome.ofExcept]
    | error e => simp [hm, autoStep, COutcome.ofExcept]
  | error e => cases e <;> simp [autoStep, COutcome.ofExcept]

/-- `autoforwards_partial(par, args, kwargs)` on top of `autoforwards_function` -/
def autoPartial (own : USig) (resolve : RM → RVal) (calls : Option (List CallRec))
    (n : Nat) (kw : List (Nat × Nat)) (pobj : Nat) : Except Err USig :=
  match autoFn own resolve calls with
  | .ok s => (match maskPartial s n kw pobj with
              | .ok r => .ok r
              | .error _ => .error .unknownForwards)      -- `except ValueError: raise UnknownForwards()`
  | .error e => .error e

theorem c07c_discoveredPartial_eq (own : USig) (resolve : RM → RVal) (calls : Option (List CallRec))
    (n : Nat) (kw : List (Nat × Nat)) (pobj : Nat) :
    discoveredPartial own resolve calls n kw pobj
      = forgedSignature true
          { forger := none, hint := none,
            auto_ := COutcome.ofExcept (autoPartial own resolve calls n kw pobj),
            plain := maskPartial own n kw pobj } := by
  unfold discoveredPartial autoPartial forgedSignature
  simp only [forgerStep, hintStep, if_true]
  cases h : autoFn own resolve calls with
  | ok s =>
    cases hm : maskPartial s n kw pobj with
    | ok r => simp [hm, autoStep, COutcome.ofExcept]
    | error e => simp [hm, autoStep, COutcome.ofExcept]
  | error e => cases e <;> simp [autoStep, COutcome.ofExcept]

/-- what the hint of `modifiers._PokTranslator` followed by `autoforwards_ast` does on the rewritten
    signature `own'`: no source = the hint returns `None` -/
def hintOutcome (own' : USig) (resolve : RM → RVal) (calls : Option (List CallRec)) : COutcome USig :=
  match calls with
  | none => .noOpinion
  | some cs => COutcome.ofExcept (autoforwardsAst own' resolve cs)

/-- the hint route (`discoveredHint`, once the decoration succeeded): the chain of an object WITH a hint;
    its `autoforwards` is `autoforwards_hint`, which asks the hint again (`autoFn own'` has the same
    three cases: `None` → UnknownForwards, else `autoforwards_ast`) -/
theorem c07c_discoveredHint_eq (own : USig) (P W : List Nat) (resolve : RM → RVal)
    (calls : Option (List CallRec)) (ps : List Param) (x : List (Nat × Param))
    (hp : prepare own.params P W = .ok (ps, x)) :
    discoveredHint own P W resolve calls
      = forgedSignature true
          { forger := none, hint := some (hintOutcome { own with params := ps } resolve calls),
            auto_ := COutcome.ofExcept (autoFn { own with params := ps } resolve calls),
            plain := .ok { own with params := ps } } := by
  unfold discoveredHint
  rw [hp]
  simp only
  unfold discovered hintOutcome autoFn forgedSignature
  cases calls with
  | none => simp [forgerStep, hintStep, autoStep, COutcome.ofExcept]
  | some cs =>
    simp only [forgerStep, if_true]
    cases h : autoforwardsAst { own with params := ps } resolve cs with
    | ok s => simp [hintStep, COutcome.ofExcept]
    | error e => cases e <;> simp [hintStep, autoStep, COutcome.ofExcept]

end SV
