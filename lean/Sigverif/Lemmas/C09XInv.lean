/-
  Lemmas/C09XInv.lean — the "provenance" invariant `CJ9` of the merger state through phases P and Q
  for NAME-ALIGNED operands (completeness direction of C09):

  * every required parameter held by the state has the name of a required parameter of an operand;
  * every positional-or-keyword parameter of the state is positional-or-keyword in an operand;
  * lower bounds on the number of positional parameters that are kept;
  * the two iterators advance in lockstep, so paired parameters sit at the same positional index
    (and therefore carry the same name: `AL9`).
-/
import Sigverif.Lemmas.C01RStep
namespace SV

/-- number of positional parameters of a bucketed signature -/
def lenP9 (s : Sorted) : Nat := s.pos.length + s.pok.length

/-- a required parameter named `x` exists in one of the operands -/
def ReqIn9 (l r : Sorted) (x : Nat) : Prop :=
  ∃ q, q.name = x ∧ q.required = true ∧
    (q ∈ l.pos ∨ q ∈ l.pok ∨ q ∈ l.kwo ∨ q ∈ r.pos ∨ q ∈ r.pok ∨ q ∈ r.kwo)

/-- name alignment of two bucketed signatures: same positional index, same name -/
def AL9 (l r : Sorted) : Prop :=
  ∀ (i : Nat) (a b : Param), (l.pos ++ l.pok)[i]? = some a → (r.pos ++ r.pok)[i]? = some b → a.name = b.name

/-- a positional-or-keyword parameter of `l` that is keyword-only in `r`: `r` has no `*args` -/
def Limbo9 (l r : Sorted) : Prop :=
  ∀ x ∈ l.pok, x.name ∈ names r.kwo → r.va.isSome = false

structure CJ9 (l r : Sorted) (A B : List Param) (st : MState) : Prop where
  memA : ∀ p ∈ A, p ∈ l.pos ∨ p ∈ l.pok
  memB : ∀ p ∈ B, p ∈ r.pos ∨ p ∈ r.pok
  rq : ∀ c, (c ∈ st.pos ∨ c ∈ st.pok ∨ c ∈ st.kwo) → c.required = true → ReqIn9 l r c.name
  nq : ∀ c ∈ st.pok, c.name ∈ names l.pok ∨ c.name ∈ names r.pok
  lw1 : (B ≠ [] ∨ r.va.isSome = true) → lenP9 l ≤ mlen st + A.length
  lw2 : (A ≠ [] ∨ l.va.isSome = true) → lenP9 r ≤ mlen st + B.length
  lw3 : min (lenP9 l) (lenP9 r) ≤ mlen st + min A.length B.length
  sy : A ≠ [] → B ≠ [] → ∃ i, A = (l.pos ++ l.pok).drop i ∧ B = (r.pos ++ r.pok).drop i

variable {l r : Sorted}

theorem ReqIn9_swap {x : Nat} (h : ReqIn9 l r x) : ReqIn9 r l x := by
  obtain ⟨q, h1, h2, h3⟩ := h
  exact ⟨q, h1, h2, by grind⟩

theorem AL9_swap (h : AL9 l r) : AL9 r l := fun i a b ha hb => (h i b a hb ha).symm

theorem CJ9_swap {A B : List Param} {st : MState} (h : CJ9 l r A B st) : CJ9 r l B A st.swap := by
  refine ⟨h.memB, h.memA, fun c hc hr => ReqIn9_swap (h.rq c hc hr), ?_, h.lw2, h.lw1, ?_, ?_⟩
  · intro c hc; exact (h.nq c hc).symm
  · have := h.lw3; simp only [mlen_swap]; omega
  · intro hB hA
    obtain ⟨i, e1, e2⟩ := h.sy hA hB
    exact ⟨i, e2, e1⟩

theorem ReqIn9_of_left {q : Param} (hr : q.required = true)
    (hq : q ∈ l.pos ∨ q ∈ l.pok ∨ q ∈ l.kwo) : ReqIn9 l r q.name :=
  ⟨q, rfl, hr, by grind⟩

theorem ReqIn9_of_right {q : Param} (hr : q.required = true)
    (hq : q ∈ r.pos ∨ q ∈ r.pok ∨ q ∈ r.kwo) : ReqIn9 l r q.name :=
  ⟨q, rfl, hr, by grind⟩

section Steps
variable {a b c x : Param} {A B : List Param} {st st1 : MState}

/-- paired parameters have the same name -/
theorem cj9_pair_name (al : AL9 l r) (h : CJ9 l r (a :: A) (b :: B) st) : a.name = b.name := by
  obtain ⟨i, h1, h2⟩ := h.sy (by simp) (by simp)
  apply al i a b
  · have := congrArg (·[0]?) h1
    simp only [List.getElem?_cons_zero, List.getElem?_drop, Nat.add_zero] at this
    exact this.symm
  · have := congrArg (·[0]?) h2
    simp only [List.getElem?_cons_zero, List.getElem?_drop, Nat.add_zero] at this
    exact this.symm

theorem drop_succ_of_cons9 {α : Type} {L : List α} {a : α} {A : List α} {i : Nat}
    (h : a :: A = L.drop i) : A = L.drop (i + 1) := by
  have := congrArg List.tail h
  simpa [List.tail_drop] using this

/-- one parameter consumed on each side, their conciliation appended to `pos` or `pok` -/
theorem cj9_pair (al : AL9 l r)
    (hcn : c.name = a.name ∨ c.name = b.name) (hcr : c.required = (a.required || b.required))
    (hpos : (st1.pos = st.pos ++ [c] ∧ st1.pok = st.pok) ∨
            (st1.pos = st.pos ∧ st1.pok = st.pok ++ [c] ∧ a ∈ l.pok))
    (hk : st1.kwo = st.kwo)
    (h : CJ9 l r (a :: A) (b :: B) st) : CJ9 l r A B st1 := by
  have hn := cj9_pair_name al h
  have ha := h.memA a List.mem_cons_self
  have hb := h.memB b List.mem_cons_self
  have ml : mlen st1 = mlen st + 1 := by
    rcases hpos with ⟨h1, h2⟩ | ⟨h1, h2, _⟩ <;> simp [mlen, h1, h2] <;> omega
  have hcn' : c.name = a.name := by
    rcases hcn with h' | h'
    · exact h'
    · exact h'.trans hn.symm
  have hc : c.required = true → ReqIn9 l r c.name := by
    intro hr
    rw [hcr, Bool.or_eq_true] at hr
    rcases hr with hr | hr
    · rw [hcn']; exact ReqIn9_of_left hr (by grind)
    · rw [hcn', hn]; exact ReqIn9_of_right hr (by grind)
  refine ⟨fun p hp => h.memA p (List.mem_cons_of_mem _ hp),
    fun p hp => h.memB p (List.mem_cons_of_mem _ hp), ?_, ?_, ?_, ?_, ?_, ?_⟩
  · intro c' hc' hr'
    rw [hk] at hc'
    rcases hpos with ⟨h1, h2⟩ | ⟨h1, h2, _⟩
    · rw [h1, h2] at hc'
      simp only [List.mem_append, List.mem_singleton] at hc'
      rcases hc' with (hc' | rfl) | hc' | hc'
      · exact h.rq c' (Or.inl hc') hr'
      · exact hc hr'
      · exact h.rq c' (Or.inr (Or.inl hc')) hr'
      · exact h.rq c' (Or.inr (Or.inr hc')) hr'
    · rw [h1, h2] at hc'
      simp only [List.mem_append, List.mem_singleton] at hc'
      rcases hc' with hc' | (hc' | rfl) | hc'
      · exact h.rq c' (Or.inl hc') hr'
      · exact h.rq c' (Or.inr (Or.inl hc')) hr'
      · exact hc hr'
      · exact h.rq c' (Or.inr (Or.inr hc')) hr'
  · intro c' hc'
    rcases hpos with ⟨_, h2⟩ | ⟨_, h2, hal⟩
    · rw [h2] at hc'; exact h.nq c' hc'
    · rw [h2] at hc'
      simp only [List.mem_append, List.mem_singleton] at hc'
      rcases hc' with hc' | rfl
      · exact h.nq c' hc'
      · exact Or.inl (hcn' ▸ mem_names_of_mem_C01 hal)
  · intro _
    have := h.lw1 (Or.inl (by simp))
    simp only [List.length_cons] at this
    omega
  · intro _
    have := h.lw2 (Or.inl (by simp))
    simp only [List.length_cons] at this
    omega
  · have := h.lw3
    simp only [List.length_cons] at this
    omega
  · intro _ _
    obtain ⟨i, e1, e2⟩ := h.sy (by simp) (by simp)
    exact ⟨i + 1, drop_succ_of_cons9 e1, drop_succ_of_cons9 e2⟩

/-- a left-over on the left is kept as a positional parameter (the right operand has `*args`) -/
theorem cj9_lkeep (hva : r.va.isSome = true) (hcn : c.name = x.name) (hcr : c.required = x.required)
    (hpos : (st1.pos = st.pos ++ [c] ∧ st1.pok = st.pok) ∨
            (st1.pos = st.pos ∧ st1.pok = st.pok ++ [c] ∧ x ∈ l.pok))
    (hk : st1.kwo = st.kwo)
    (h : CJ9 l r (x :: A) [] st) : CJ9 l r A [] st1 := by
  have hx := h.memA x List.mem_cons_self
  have ml : mlen st1 = mlen st + 1 := by
    rcases hpos with ⟨h1, h2⟩ | ⟨h1, h2, _⟩ <;> simp [mlen, h1, h2] <;> omega
  have hc : c.required = true → ReqIn9 l r c.name := by
    intro hr
    rw [hcr] at hr
    rw [hcn]; exact ReqIn9_of_left hr (by grind)
  refine ⟨fun p hp => h.memA p (List.mem_cons_of_mem _ hp), by simp, ?_, ?_, ?_, ?_, ?_, ?_⟩
  · intro c' hc' hr'
    rw [hk] at hc'
    rcases hpos with ⟨h1, h2⟩ | ⟨h1, h2, _⟩
    · rw [h1, h2] at hc'
      simp only [List.mem_append, List.mem_singleton] at hc'
      rcases hc' with (hc' | rfl) | hc' | hc'
      · exact h.rq c' (Or.inl hc') hr'
      · exact hc hr'
      · exact h.rq c' (Or.inr (Or.inl hc')) hr'
      · exact h.rq c' (Or.inr (Or.inr hc')) hr'
    · rw [h1, h2] at hc'
      simp only [List.mem_append, List.mem_singleton] at hc'
      rcases hc' with hc' | (hc' | rfl) | hc'
      · exact h.rq c' (Or.inl hc') hr'
      · exact h.rq c' (Or.inr (Or.inl hc')) hr'
      · exact hc hr'
      · exact h.rq c' (Or.inr (Or.inr hc')) hr'
  · intro c' hc'
    rcases hpos with ⟨_, h2⟩ | ⟨_, h2, hal⟩
    · rw [h2] at hc'; exact h.nq c' hc'
    · rw [h2] at hc'
      simp only [List.mem_append, List.mem_singleton] at hc'
      rcases hc' with hc' | rfl
      · exact h.nq c' hc'
      · exact Or.inl (hcn ▸ mem_names_of_mem_C01 hal)
  · intro _
    have := h.lw1 (Or.inr hva)
    simp only [List.length_cons] at this
    omega
  · intro _
    have := h.lw2 (Or.inl (by simp))
    simp only [List.length_nil] at this ⊢
    omega
  · have := h.lw3
    simp only [List.length_cons, List.length_nil] at this ⊢
    omega
  · intro _ hB; exact absurd rfl hB

/-- a left-over on the left leaves the positional parameters (dropped, or moved to the
    keyword-only bucket); only when the right operand has no `*args` -/
theorem cj9_lgone (hva : r.va.isSome = false) (h1 : st1.pos = st.pos) (h2 : st1.pok = st.pok)
    (h3 : ∀ c ∈ st1.kwo, c ∈ st.kwo ∨ (c.required = true → ReqIn9 l r c.name))
    (h : CJ9 l r (x :: A) [] st) : CJ9 l r A [] st1 := by
  have ml : mlen st1 = mlen st := by simp [mlen, h1, h2]
  refine ⟨fun p hp => h.memA p (List.mem_cons_of_mem _ hp), by simp, ?_, ?_, ?_, ?_, ?_, ?_⟩
  · intro c' hc' hr'
    rw [h1, h2] at hc'
    rcases hc' with hc' | hc' | hc'
    · exact h.rq c' (Or.inl hc') hr'
    · exact h.rq c' (Or.inr (Or.inl hc')) hr'
    · rcases h3 c' hc' with h' | h'
      · exact h.rq c' (Or.inr (Or.inr h')) hr'
      · exact h' hr'
  · rw [h2]; exact h.nq
  · intro hc; simp [hva] at hc
  · intro _
    have := h.lw2 (Or.inl (by simp))
    simp only [List.length_nil] at this ⊢
    omega
  · have := h.lw3
    simp only [List.length_cons, List.length_nil] at this ⊢
    omega
  · intro _ hB; exact absurd rfl hB

/-- a left-over on the left turns itself and everything before into positional-only parameters -/
theorem cj9_lflush (hva : r.va.isSome = true)
    (h1 : st1.pos = st.pos ++ st.pok.map (·.withKind .po) ++ [x.withKind .po])
    (h2 : st1.pok = []) (h3 : st1.kwo = st.kwo)
    (h : CJ9 l r (x :: A) [] st) : CJ9 l r A [] st1 := by
  have hx := h.memA x List.mem_cons_self
  have ml : mlen st1 = mlen st + 1 := by simp [mlen, h1, h2]; omega
  refine ⟨fun p hp => h.memA p (List.mem_cons_of_mem _ hp), by simp, ?_, ?_, ?_, ?_, ?_, ?_⟩
  · intro c' hc' hr'
    rw [h1, h2, h3] at hc'
    simp only [List.mem_append, List.mem_singleton, List.mem_map, List.not_mem_nil, false_or]
      at hc'
    rcases hc' with ((hc' | ⟨p, hp, rfl⟩) | rfl) | hc'
    · exact h.rq c' (Or.inl hc') hr'
    · exact h.rq p (Or.inr (Or.inl hp)) (by simpa using hr')
    · exact ReqIn9_of_left (q := x) (by simpa using hr') (by grind)
    · exact h.rq c' (Or.inr (Or.inr hc')) hr'
  · rw [h2]; simp
  · intro _
    have := h.lw1 (Or.inr hva)
    simp only [List.length_cons] at this
    omega
  · intro _
    have := h.lw2 (Or.inl (by simp))
    simp only [List.length_nil] at this ⊢
    omega
  · have := h.lw3
    simp only [List.length_cons, List.length_nil] at this ⊢
    omega
  · intro _ hB; exact absurd rfl hB

/-- the five outcomes of `_merge_unbalanced_pok` for a left-over on the left -/
theorem cj9_q_left (hc : PokCases r x st st1 st.lUn st.rUn st1.lUn st1.rUn)
    (hx : x ∈ l.pok) (hrun : ∀ q ∈ st.rUn, q ∈ r.kwo) (hlim : Limbo9 l r)
    (h : CJ9 l r (x :: A) [] st) : CJ9 l r A [] st1 := by
  rcases hc with ⟨q, hq, h1, h2, h3, h4, h5⟩ | ⟨hq, hva, hvk, h1, h2, h3, h4, h5⟩ |
    ⟨hq, hva, hvk, h1, h2, h3, h4, h5⟩ | ⟨hq, hva, hvk, h1, h2, h3, h4, h5⟩ |
    ⟨hq, hva, hvk, hd, h1, h2, h3, h4, h5⟩
  · obtain ⟨hq1, hq2⟩ := pget_some_C01 hq
    have hqk := hrun q hq1
    have hva : r.va.isSome = false := hlim x hx (hq2 ▸ mem_names_of_mem_C01 hqk)
    refine cj9_lgone hva h1 h2 ?_ h
    intro c' hc'
    rw [h3] at hc'
    rcases mem_pset_C01 hc' with hc' | rfl
    · exact Or.inl hc'
    · right
      intro hr
      simp only [withKind_required_C01, concile_required, Bool.or_eq_true] at hr
      simp only [withKind_name_C01, concile_name_C01]
      rcases hr with hr | hr
      · exact ReqIn9_of_left hr (by grind)
      · rw [← hq2]; exact ReqIn9_of_right hr (by grind)
  · exact cj9_lkeep hva rfl rfl (Or.inr ⟨h1, h2, hx⟩) h3 h
  · refine cj9_lgone hva h1 h2 ?_ h
    intro c' hc'
    rw [h3] at hc'
    rcases mem_pset_C01 hc' with hc' | rfl
    · exact Or.inl hc'
    · right
      intro hr
      exact ReqIn9_of_left (q := x) (by simpa using hr) (by grind)
  · exact cj9_lflush hva h1 h2 h3 h
  · exact cj9_lgone hva h1 h2 (by rw [h3]; exact fun c hc => Or.inl hc) h

/-! right versions, by symmetry -/

theorem cj9_rkeep (hva : l.va.isSome = true) (hcn : c.name = x.name) (hcr : c.required = x.required)
    (hpos : (st1.pos = st.pos ++ [c] ∧ st1.pok = st.pok) ∨
            (st1.pos = st.pos ∧ st1.pok = st.pok ++ [c] ∧ x ∈ r.pok))
    (hk : st1.kwo = st.kwo)
    (h : CJ9 l r [] (x :: B) st) : CJ9 l r [] B st1 :=
  CJ9_swap (cj9_lkeep (st := st.swap) (st1 := st1.swap) hva hcn hcr hpos hk (CJ9_swap h))

theorem cj9_rgone (hva : l.va.isSome = false) (h1 : st1.pos = st.pos) (h2 : st1.pok = st.pok)
    (h3 : ∀ c ∈ st1.kwo, c ∈ st.kwo ∨ (c.required = true → ReqIn9 l r c.name))
    (h : CJ9 l r [] (x :: B) st) : CJ9 l r [] B st1 :=
  CJ9_swap (cj9_lgone (st := st.swap) (st1 := st1.swap) hva h1 h2
    (fun c hc => (h3 c hc).imp id (fun h' hr => ReqIn9_swap (h' hr))) (CJ9_swap h))

theorem cj9_q_right (hc : PokCases l x st st1 st.rUn st.lUn st1.rUn st1.lUn)
    (hx : x ∈ r.pok) (hlun : ∀ q ∈ st.lUn, q ∈ l.kwo) (hlim : Limbo9 r l)
    (h : CJ9 l r [] (x :: B) st) : CJ9 l r [] B st1 :=
  CJ9_swap (cj9_q_left (st := st.swap) (st1 := st1.swap) hc hx hlun hlim (CJ9_swap h))

end Steps

/-! ### the two phases -/

theorem CJ9_phaseP (al : AL9 l r) {ls rs il ir il' ir' : List Param} {st st' : MState}
    (h : phaseP l r ls rs il ir st = .ok (st', il', ir'))
    (hJ : CJ9 l r (ls ++ il) (rs ++ ir) st) : CJ9 l r il' ir' st' := by
  refine phaseP_inv (l := l) (r := r) (fun A B st => CJ9 l r A B st) ?_ ?_ ?_ ?_ ?_ h hJ
  · rintro a b A B st st1 c hc hu hI
    refine cj9_pair al ?_ ?_ (Or.inl ⟨hu.1, hu.2.1⟩) hu.2.2.1 hI
    · rcases hc with rfl | rfl <;> simp
    · rcases hc with rfl | rfl <;> simp [Bool.or_comm]
  · rintro x A st st1 hva hu hI
    exact cj9_lkeep hva rfl rfl (Or.inl ⟨hu.1, hu.2.1⟩) hu.2.2.1 hI
  · rintro x A st st1 hva hd hu hI
    exact cj9_lgone hva hu.1 hu.2.1 (by rw [hu.2.2.1]; exact fun c hc => Or.inl hc) hI
  · rintro x B st st1 hva hu hI
    exact cj9_rkeep hva rfl rfl (Or.inl ⟨hu.1, hu.2.1⟩) hu.2.2.1 hI
  · rintro x B st st1 hva hd hu hI
    exact cj9_rgone hva hu.1 hu.2.1 (by rw [hu.2.2.1]; exact fun c hc => Or.inl hc) hI

theorem CJ9_phaseQ (al : AL9 l r) (bl : BucketKinds l) (br : BucketKinds r)
    (hlim : Limbo9 l r) (hlim' : Limbo9 r l) {ls rs : List Param} {st st' : MState}
    (h : phaseQ l r ls rs st = .ok st')
    (hJ : CJ9 l r ls rs st) (hS : SInv l r ls rs st) : CJ9 l r [] [] st' := by
  refine (phaseQ_inv (l := l) (r := r)
    (fun A B st => CJ9 l r A B st ∧ SInv l r A B st) ?_ ?_ ?_ ?_ h ⟨hJ, hS⟩).1
  · rintro lp rp ls rs st st1 hn hu ⟨h1, h2⟩
    exact ⟨cj9_pair (a := lp) (b := rp) (c := concile lp rp) al (Or.inl rfl) (by simp)
      (Or.inr ⟨hu.1, hu.2.1, h2.ls_sub lp List.mem_cons_self⟩) hu.2.2.1 h1,
      q_match_S bl br hn hu h2⟩
  · rintro lp rp ls rs st st1 hn hu ⟨h1, h2⟩
    exact absurd (cj9_pair_name al h1) hn
  · rintro x ls st st1 hq ⟨h1, h2⟩
    exact ⟨cj9_q_left (pokCases_L hq) (h2.ls_sub x List.mem_cons_self) h2.run_sub hlim h1,
      q_left_S bl hq h2⟩
  · rintro x rs st st1 hq ⟨h1, h2⟩
    exact ⟨cj9_q_right (pokCases_R hq) (h2.rs_sub x List.mem_cons_self) h2.lun_sub hlim' h1,
      q_right_S br hq h2⟩

/-! ### one `mergeStep` -/

structure CFacts9 (l r m : Sorted) : Prop where
  rq : ∀ c, (c ∈ m.pos ∨ c ∈ m.pok ∨ c ∈ m.kwo) → c.required = true → ReqIn9 l r c.name
  nq : ∀ c ∈ m.pok, c.name ∈ names l.pok ∨ c.name ∈ names r.pok
  len1 : r.va.isSome = true → lenP9 l ≤ lenP9 m
  len2 : l.va.isSome = true → lenP9 r ≤ lenP9 m
  len3 : min (lenP9 l) (lenP9 r) ≤ lenP9 m

theorem CJ9_init (hlk : (names l.kwo).Nodup) (hrk : (names r.kwo).Nodup) :
    CJ9 l r (l.pos ++ l.pok) (r.pos ++ r.pok) (stK l r) := by
  obtain ⟨k1, k2, k3, k4, k5⟩ := stK_upd (l := l) (r := r) hlk hrk
  have ml : mlen (stK l r) = 0 := by simp [mlen, k1, k2]
  refine ⟨fun p hp => List.mem_append.1 hp, fun p hp => List.mem_append.1 hp, ?_, ?_, ?_, ?_, ?_,
    ?_⟩
  · intro c hc hr
    rw [k1, k2, k3] at hc
    simp only [List.not_mem_nil, false_or] at hc
    obtain ⟨a, ha, q, hq, rfl⟩ := mem_kwoK.1 hc
    obtain ⟨hq1, hq2⟩ := pget_some_C01 hq
    simp only [concile_required, Bool.or_eq_true] at hr
    simp only [concile_name_C01]
    rcases hr with hr | hr
    · exact ReqIn9_of_left hr (by grind)
    · rw [← hq2]; exact ReqIn9_of_right hr (by grind)
  · rw [k2]; simp
  · intro _; simp [ml, lenP9]
  · intro _; simp [ml, lenP9]
  · simp only [ml, lenP9, List.length_append]; omega
  · intro _ _; exact ⟨0, by simp, by simp⟩

theorem mergeStep_cfacts {m : Sorted} (bl : BucketKinds l) (br : BucketKinds r)
    (hl : KwInv l) (hr : KwInv r) (al : AL9 l r) (hlim : Limbo9 l r) (hlim' : Limbo9 r l)
    (h : mergeStep l r = .ok m) : CFacts9 l r m := by
  obtain ⟨st1, il, ir, st2, st3, st4, h1, h2, h3, h4, e1, e2, e3, e4, e5⟩ := mergeStep_inv h
  have hlk : (names l.kwo).Nodup := by
    unfold KwInv at hl; simp only [names_append_C01, List.nodup_append] at hl; exact hl.2.1
  have hrk : (names r.kwo).Nodup := by
    unfold KwInv at hr; simp only [names_append_C01, List.nodup_append] at hr; exact hr.2.1
  have P := phaseP_spec _ _ _ _ _ _ _ _ h1
  obtain ⟨cl, hcl⟩ := P.sufl
  obtain ⟨cr, hcr⟩ := P.sufr
  have N0 : NInv (cl ++ il) (cr ++ ir) (stK l r) := hcl ▸ hcr ▸ stK_N hl hr
  have N1 : NInv il ir st1 := NInv_of_suffix N0 P.pok P.kwo P.lun P.run
  obtain ⟨N2, Q, QS⟩ := phaseQ_spec bl br il ir st1 st2 h2 N1
  obtain ⟨k1, k2, k3, k4, k5⟩ := stK_upd (l := l) (r := r) hlk hrk
  have S0 := stK_S (r := r) bl hlk hrk
  have S1 : SInv l r il ir st1 := by
    refine ⟨?_, ?_, ?_, ?_, ?_, ?_, ?_⟩
    · intro p hp; rw [hcl]; exact List.mem_append_right _ hp
    · intro p hp; rw [hcr]; exact List.mem_append_right _ hp
    · rw [P.lun]; exact S0.lun_sub
    · rw [P.run]; exact S0.run_sub
    · apply P.kind
      · intro p hp
        rcases List.mem_append.1 hp with hp | hp
        · exact bl.pos p hp
        · exact br.pos p hp
      · exact S0.kpos
    · rw [P.pok]; exact S0.kpok
    · rw [P.kwo]; exact S0.kkwo
  have S2 := QS S1
  obtain ⟨A, B, ⟨u1, u2, u3, u4, u5⟩, hA, hB⟩ := unmatched_spec N2 h3 h4
  have J1 := CJ9_phaseP al h1 (CJ9_init hlk hrk)
  have J2 := CJ9_phaseQ al bl br hlim hlim' h2 J1 S1
  have hAsub : ∀ p ∈ A, p ∈ l.kwo := by
    intro p hp
    rcases hA with ⟨rfl, -⟩ | ⟨rfl, -⟩
    · exact S2.lun_sub p hp
    · simp at hp
  have hBsub : ∀ p ∈ B, p ∈ r.kwo := by
    intro p hp
    rcases hB with ⟨rfl, -⟩ | ⟨rfl, -⟩
    · exact S2.run_sub p hp
    · simp at hp
  have mpos : m.pos = st2.pos := e1.trans u1
  have mpok : m.pok = st2.pok := e2.trans u2
  have mkwo : m.kwo = st2.kwo ++ A ++ B := e3.trans u3
  have mlen2 : lenP9 m = mlen st2 := by simp [lenP9, mlen, mpos, mpok]
  refine ⟨?_, ?_, ?_, ?_, ?_⟩
  · intro c hc hr'
    rw [mpos, mpok, mkwo] at hc
    simp only [List.mem_append] at hc
    rcases hc with hc | hc | (hc | hc) | hc
    · exact J2.rq c (Or.inl hc) hr'
    · exact J2.rq c (Or.inr (Or.inl hc)) hr'
    · exact J2.rq c (Or.inr (Or.inr hc)) hr'
    · exact ReqIn9_of_left hr' (Or.inr (Or.inr (hAsub c hc)))
    · exact ReqIn9_of_right hr' (Or.inr (Or.inr (hBsub c hc)))
  · rw [mpok]; exact J2.nq
  · intro hva
    have := J2.lw1 (Or.inr hva)
    simp only [List.length_nil] at this
    omega
  · intro hva
    have := J2.lw2 (Or.inr hva)
    simp only [List.length_nil] at this
    omega
  · have := J2.lw3
    simp only [List.length_nil] at this
    omega

end SV
