/-
  Lemmas/C01RJQ.lean — phase Q steps preserve the role invariant `RJ`.
-/
import Sigverif.Lemmas.C01RJ
namespace SV

/-- the five outcomes of `_merge_unbalanced_pok`, seen from the side of the left-over parameter;
    `o` is the other operand, `oun` its unmatched keyword-only parameters -/
def PokCases (o : Sorted) (x : Param) (st st' : MState)
    (un oun un' oun' : List Param) : Prop :=
  (∃ q, pget oun x.name = some q ∧ st'.pos = st.pos ∧ st'.pok = st.pok ∧
      st'.kwo = pset st.kwo ((concile x q).withKind .ko) ∧ un' = un ∧ oun' = ppop oun x.name) ∨
  (pget oun x.name = none ∧ o.va.isSome = true ∧ o.vk.isSome = true ∧
      st'.pos = st.pos ∧ st'.pok = st.pok ++ [x] ∧ st'.kwo = st.kwo ∧ un' = un ∧ oun' = oun) ∨
  (pget oun x.name = none ∧ o.va.isSome = false ∧ o.vk.isSome = true ∧
      st'.pos = st.pos ∧ st'.pok = st.pok ∧ st'.kwo = pset st.kwo (x.withKind .ko) ∧
      un' = un ∧ oun' = oun) ∨
  (pget oun x.name = none ∧ o.va.isSome = true ∧ o.vk.isSome = false ∧
      st'.pos = st.pos ++ st.pok.map (·.withKind .po) ++ [x.withKind .po] ∧ st'.pok = [] ∧
      st'.kwo = st.kwo ∧ un' = un ∧ oun' = oun) ∨
  (pget oun x.name = none ∧ o.va.isSome = false ∧ o.vk.isSome = false ∧ x.dflt.isSome = true ∧
      st'.pos = st.pos ∧ st'.pok = st.pok ∧ st'.kwo = st.kwo ∧ un' = un ∧ oun' = oun)

theorem pokCases_L {l r : Sorted} {x : Param} {st st' : MState}
    (h : unbalancedPok .L l r x st = .ok st') :
    PokCases r x st st' st.lUn st.rUn st'.lUn st'.rUn := by
  unfold unbalancedPok at h
  simp only at h
  unfold PokCases
  cases hq : pget st.rUn x.name with
  | some q =>
    simp only [hq, Except.ok.injEq] at h
    subst h
    exact Or.inl ⟨q, rfl, rfl, rfl, rfl, rfl, rfl⟩
  | none =>
    simp only [hq] at h
    refine Or.inr ?_
    by_cases hva : r.va.isSome = true <;> by_cases hvk : r.vk.isSome = true
    · simp only [hva, hvk, Bool.and_self, if_true, Except.ok.injEq] at h
      subst h
      exact Or.inl ⟨rfl, hva, hvk, rfl, rfl, rfl, rfl, rfl⟩
    · simp only [hva, hvk, Bool.and_false, Bool.false_eq_true, if_false, if_true,
        Except.ok.injEq] at h
      subst h
      exact Or.inr (Or.inr (Or.inl ⟨rfl, hva, by simpa using hvk, rfl, rfl, rfl, rfl, rfl⟩))
    · simp only [hva, hvk, Bool.false_and, Bool.false_eq_true, if_false, if_true,
        Except.ok.injEq] at h
      subst h
      exact Or.inr (Or.inl ⟨rfl, by simpa using hva, hvk, rfl, rfl, rfl, rfl, rfl⟩)
    · simp only [hva, hvk, Bool.false_and, Bool.false_eq_true, if_false] at h
      by_cases hd : x.dflt.isNone = true
      · simp [hd] at h
      · simp only [hd, Bool.false_eq_true, if_false, Except.ok.injEq] at h
        subst h
        refine Or.inr (Or.inr (Or.inr ⟨rfl, by simpa using hva, by simpa using hvk, ?_,
          rfl, rfl, rfl, rfl, rfl⟩))
        cases hx : x.dflt <;> simp_all

theorem pokCases_R {l r : Sorted} {x : Param} {st st' : MState}
    (h : unbalancedPok .R l r x st = .ok st') :
    PokCases l x st st' st.rUn st.lUn st'.rUn st'.lUn := by
  unfold unbalancedPok at h
  simp only at h
  unfold PokCases
  cases hq : pget st.lUn x.name with
  | some q =>
    simp only [hq, Except.ok.injEq] at h
    subst h
    exact Or.inl ⟨q, rfl, rfl, rfl, rfl, rfl, rfl⟩
  | none =>
    simp only [hq] at h
    refine Or.inr ?_
    by_cases hva : l.va.isSome = true <;> by_cases hvk : l.vk.isSome = true
    · simp only [hva, hvk, Bool.and_self, if_true, Except.ok.injEq] at h
      subst h
      exact Or.inl ⟨rfl, hva, hvk, rfl, rfl, rfl, rfl, rfl⟩
    · simp only [hva, hvk, Bool.and_false, Bool.false_eq_true, if_false, if_true,
        Except.ok.injEq] at h
      subst h
      exact Or.inr (Or.inr (Or.inl ⟨rfl, hva, by simpa using hvk, rfl, rfl, rfl, rfl, rfl⟩))
    · simp only [hva, hvk, Bool.false_and, Bool.false_eq_true, if_false, if_true,
        Except.ok.injEq] at h
      subst h
      exact Or.inr (Or.inl ⟨rfl, by simpa using hva, hvk, rfl, rfl, rfl, rfl, rfl⟩)
    · simp only [hva, hvk, Bool.false_and, Bool.false_eq_true, if_false] at h
      by_cases hd : x.dflt.isNone = true
      · simp [hd] at h
      · simp only [hd, Bool.false_eq_true, if_false, Except.ok.injEq] at h
        subst h
        refine Or.inr (Or.inr (Or.inr ⟨rfl, by simpa using hva, by simpa using hvk, ?_,
          rfl, rfl, rfl, rfl, rfl⟩))
        cases hx : x.dflt <;> simp_all

variable {ρ : Roles} {l r : Sorted}

section Q
variable {a b x : Param} {A B : List Param} {st st1 : MState}

theorem rj_q_match (hn : a.name = b.name)
    (hu : Upd st1 st.pos (st.pok ++ [concile a b]) st.kwo st.lUn st.rUn)
    (ha : a ∈ l.pok) (hb : b ∈ r.pok)
    (h : RJ ρ l r (a :: A) (b :: B) st) : RJ ρ l r A B st1 := by
  obtain ⟨h1, h2, h3, h4, h5⟩ := hu
  have ml : mlen st1 = mlen st + 1 := by simp [mlen, h1, h2]; omega
  have i2 := h.j2 (Or.inl (by simp))
  have i3 := h.j3 (Or.inl (by simp))
  simp only [IdxOK_cons] at i2 i3
  have mono : ∀ own p, Fate ρ st.pos st.pok st.kwo own p → Fate ρ st1.pos st1.pok st1.kwo own p := by
    intro own p hf
    refine Fate_mono hf ?_ ?_ ?_
    · intro c hc; rw [h1]; exact hc
    · intro x hx; rw [h2]; exact Or.inl (by simp [hx])
    · intro x hx; rw [h3]; exact hx
  refine ⟨fun p hp => h.memA p (List.mem_cons_of_mem _ hp),
    fun p hp => h.memB p (List.mem_cons_of_mem _ hp), h4 ▸ h.lun, h5 ▸ h.run, ?_, ?_, ?_, ?_, ?_,
    ?_, ?_, ?_, ?_, ?_, ?_⟩
  · have := h.j1
    rw [h1, h2, ← List.append_assoc, IdxOK_append]
    refine ⟨this, ?_⟩
    simp only [IdxOK_cons, IdxOK_nil, and_true, concile_name_C01, List.length_append]
    simp only [mlen] at i2; omega
  · intro _; rw [ml]; exact i2.2
  · intro _; rw [ml]; exact i3.2
  · rw [ml]; exact IdxOK_lb ρ i2.2
  · rw [ml]; exact IdxOK_lb ρ i3.2
  · intro p hp hr
    rcases h.fl p hp hr with hf | hf
    · exact Or.inl (mono _ p hf)
    · rcases List.mem_cons.1 hf with rfl | hf
      · left; right
        refine ⟨Or.inl ?_, ha⟩
        rw [h2]; simp [hr]
      · exact Or.inr hf
  · intro p hp hr
    rcases h.fr p hp hr with hf | hf
    · exact Or.inl (mono _ p hf)
    · rcases List.mem_cons.1 hf with rfl | hf
      · left; right
        refine ⟨Or.inl ?_, hb⟩
        rw [h2]; simp [hr, hn]
      · exact Or.inr hf
  · intro c' hc'
    rw [h3] at hc'
    rcases h.kk c' hc' with h' | h' | ⟨_, h' | h', _⟩
    · exact Or.inl h'
    · exact Or.inr (Or.inl h')
    · simp at h'
    · simp at h'
  · intro c' hc'
    rw [h1, h2] at hc'
    simp only [List.mem_append, List.mem_singleton] at hc'
    rcases hc' with hc' | hc' | rfl
    · exact h.nmP c' (Or.inl hc')
    · exact h.nmP c' (Or.inr hc')
    · exact Or.inr (Or.inl (by simpa using mem_names_of_mem_C01 ha))
  · intro c' hc'
    rw [h2] at hc'
    simp only [List.mem_append, List.mem_singleton] at hc'
    rcases hc' with hc' | rfl
    · exact h.nmQ c' hc'
    · exact Or.inl (by simpa using mem_names_of_mem_C01 ha)
  · rw [h3]; exact h.nmK

/-- everything so far and `c` (named after `y`, at the current role index) is flushed to `pos` -/
theorem rj_flush_aux {c : Param} {A' B' : List Param}
    (hu : Upd st1 (st.pos ++ st.pok.map (·.withKind .po) ++ [c]) [] st.kwo st.lUn st.rUn)
    (hci : ρ.ι c.name = mlen st) (j1 : IdxOK ρ 0 (st.pos ++ st.pok)) :
    mlen st1 = mlen st + 1 ∧ IdxOK ρ 0 (st1.pos ++ st1.pok) ∧
    (∀ own p, Fate ρ st.pos st.pok st.kwo own p → Fate ρ st1.pos st1.pok st1.kwo own p) := by
  obtain ⟨h1, h2, h3, h4, h5⟩ := hu
  refine ⟨by simp [mlen, h1, h2]; omega, ?_, ?_⟩
  · rw [h1, h2, List.append_nil, IdxOK_append, IdxOK_append, IdxOK_map_withKind]
    rw [IdxOK_append] at j1
    refine ⟨⟨j1.1, j1.2⟩, ?_⟩
    simp only [IdxOK_cons, IdxOK_nil, and_true, List.length_append, List.length_map]
    simp only [mlen] at hci; omega
  · intro own p hf
    refine Fate_mono hf ?_ ?_ ?_
    · intro c' hc'; rw [h1]; simp [hc']
    · rintro y ⟨c', hc', hn, hr⟩
      right
      refine ⟨c'.withKind .po, ?_, by simpa using hr, by simpa using hn⟩
      rw [h1]
      exact List.mem_append_left _ (List.mem_append_right _ (List.mem_map.2 ⟨c', hc', rfl⟩))
    · intro y hy; rw [h3]; exact hy

theorem rj_q_mis
    (hu : Upd st1 (st.pos ++ st.pok.map (·.withKind .po) ++ [(concile a b).withKind .po]) []
      st.kwo st.lUn st.rUn)
    (h : RJ ρ l r (a :: A) (b :: B) st) : RJ ρ l r A B st1 := by
  have i2 := h.j2 (Or.inl (by simp))
  have i3 := h.j3 (Or.inl (by simp))
  simp only [IdxOK_cons] at i2 i3
  obtain ⟨ml, j1', mono⟩ := rj_flush_aux (A' := A) (B' := B) hu (by simpa using i2.1) h.j1
  obtain ⟨h1, h2, h3, h4, h5⟩ := hu
  refine ⟨fun p hp => h.memA p (List.mem_cons_of_mem _ hp),
    fun p hp => h.memB p (List.mem_cons_of_mem _ hp), h4 ▸ h.lun, h5 ▸ h.run, j1', ?_, ?_, ?_, ?_,
    ?_, ?_, ?_, ?_, ?_, ?_⟩
  · intro _; rw [ml]; exact i2.2
  · intro _; rw [ml]; exact i3.2
  · rw [ml]; exact IdxOK_lb ρ i2.2
  · rw [ml]; exact IdxOK_lb ρ i3.2
  · intro p hp hr
    rcases h.fl p hp hr with hf | hf
    · exact Or.inl (mono _ p hf)
    · rcases List.mem_cons.1 hf with rfl | hf
      · left; left
        exact ⟨(concile p b).withKind .po, by rw [h1]; simp, by simp [hr], by simp⟩
      · exact Or.inr hf
  · intro p hp hr
    rcases h.fr p hp hr with hf | hf
    · exact Or.inl (mono _ p hf)
    · rcases List.mem_cons.1 hf with rfl | hf
      · left; left
        exact ⟨(concile a p).withKind .po, by rw [h1]; simp, by simp [hr],
          by simp [i2.1, i3.1]⟩
      · exact Or.inr hf
  · intro c' hc'
    rw [h3] at hc'
    rcases h.kk c' hc' with h' | h' | ⟨_, h' | h', _⟩
    · exact Or.inl h'
    · exact Or.inr (Or.inl h')
    · simp at h'
    · simp at h'
  · intro c' hc'
    rw [h1, h2] at hc'
    simp only [List.mem_append, List.mem_singleton, List.mem_map, List.not_mem_nil, or_false] at hc'
    rcases hc' with (hc' | ⟨c'', hc'', rfl⟩) | rfl
    · exact h.nmP c' (Or.inl hc')
    · simpa using h.nmP c'' (Or.inr hc'')
    · rcases h.memA a List.mem_cons_self with ha | ha
      · exact Or.inl (by simpa using mem_names_of_mem_C01 ha)
      · exact Or.inr (Or.inl (by simpa using mem_names_of_mem_C01 ha))
  · rw [h2]; simp
  · rw [h3]; exact h.nmK

/-- a left-over goes to the keyword-only bucket (`o.va` is absent) -/
theorem rj_tokwo {c : Param} (hva : r.va.isSome = false) (hcn : c.name = x.name)
    (hcr : x.required = true → c.required = true)
    (h1 : st1.pos = st.pos) (h2 : st1.pok = st.pok) (h3 : st1.kwo = st.kwo ++ [c])
    (h4 : st1.lUn = st.lUn) (h5 : ∀ p ∈ st1.rUn, p ∈ st.rUn)
    (hx : x ∈ l.pok)
    (hk : x.name ∈ names r.kwo ∨ ρ.κ x.name = .pk)
    (h : RJ ρ l r (x :: A) [] st) : RJ ρ l r A [] st1 := by
  have ml : mlen st1 = mlen st := by simp [mlen, h1, h2]
  have mono : ∀ own p, Fate ρ st.pos st.pok st.kwo own p → Fate ρ st1.pos st1.pok st1.kwo own p := by
    intro own p hf
    refine Fate_mono hf ?_ ?_ ?_
    · intro c hc; rw [h1]; exact hc
    · intro x hx; rw [h2]; exact Or.inl hx
    · intro x hx; rw [h3]; simp [hx]
  refine ⟨fun p hp => h.memA p (List.mem_cons_of_mem _ hp), by simp, h4 ▸ h.lun,
    fun p hp => h.run p (h5 p hp), ?_, ?_, ?_, ?_, ?_, ?_, ?_, ?_, ?_, ?_, ?_⟩
  · rw [h1, h2]; exact h.j1
  · intro hc; simp [hva] at hc
  · intro _; trivial
  · rw [ml]; exact fun p hp => h.j2' p (List.mem_cons_of_mem _ hp)
  · simp
  · intro p hp hr
    rcases h.fl p hp hr with hf | hf
    · exact Or.inl (mono _ p hf)
    · rcases List.mem_cons.1 hf with rfl | hf
      · left; right
        refine ⟨Or.inr ?_, hx⟩
        rw [h3]; simp [hcn, hcr hr]
      · exact Or.inr hf
  · intro p hp hr
    rcases h.fr p hp hr with hf | hf
    · exact Or.inl (mono _ p hf)
    · simp at hf
  · intro c' hc'
    rw [h3] at hc'
    rw [ml]
    simp only [List.mem_append, List.mem_singleton] at hc'
    rcases hc' with hc' | rfl
    · rcases h.kk c' hc' with h' | h' | ⟨hk', h' | h', hm⟩
      · exact Or.inl h'
      · exact Or.inr (Or.inl h')
      · exact Or.inr (Or.inr ⟨hk', Or.inl h', hm⟩)
      · simp at h'
    · rcases hk with hk | hk
      · exact Or.inr (Or.inl (hcn ▸ hk))
      · exact Or.inr (Or.inr ⟨hcn ▸ hk, Or.inl ⟨rfl, hva⟩, hcn ▸ h.j2' x List.mem_cons_self⟩)
  · rw [h1, h2]; exact h.nmP
  · rw [h2]; exact h.nmQ
  · intro c' hc'
    rw [h3] at hc'
    simp only [List.mem_append, List.mem_singleton] at hc'
    rcases hc' with hc' | rfl
    · exact h.nmK c' hc'
    · exact Or.inl (hcn ▸ mem_names_of_mem_C01 hx)

theorem rj_q_left (hc : PokCases r x st st1 st.lUn st.rUn st1.lUn st1.rUn)
    (hx : x ∈ l.pok) (hfresh : x.name ∉ names st.kwo) (hkx : ρ.κ x.name = .pk)
    (hrk : ∀ q ∈ r.kwo, ρ.κ q.name = .pk → r.va.isSome = false)
    (h : RJ ρ l r (x :: A) [] st) : RJ ρ l r A [] st1 := by
  rcases hc with ⟨q, hq, h1, h2, h3, h4, h5⟩ | ⟨hq, hva, hvk, h1, h2, h3, h4, h5⟩ |
    ⟨hq, hva, hvk, h1, h2, h3, h4, h5⟩ | ⟨hq, hva, hvk, h1, h2, h3, h4, h5⟩ |
    ⟨hq, hva, hvk, hd, h1, h2, h3, h4, h5⟩
  · obtain ⟨hq1, hq2⟩ := pget_some_C01 hq
    have hqk := h.run q hq1
    have hva : r.va.isSome = false := hrk q hqk (hq2 ▸ hkx)
    rw [pset_of_not_mem_C01 (by simpa using hfresh)] at h3
    refine rj_tokwo (c := (concile x q).withKind .ko) hva (by simp) (by intro hr; simp [hr])
      h1 h2 h3 h4 ?_ hx (Or.inl (hq2 ▸ mem_names_of_mem_C01 hqk)) h
    rw [h5]; intro p hp; exact (mem_ppop_C01.1 hp).1
  · -- kept as positional-or-keyword
    have ml : mlen st1 = mlen st + 1 := by simp [mlen, h1, h2]; omega
    have i2 := h.j2 (Or.inr hva)
    simp only [IdxOK_cons] at i2
    have mono : ∀ own p, Fate ρ st.pos st.pok st.kwo own p →
        Fate ρ st1.pos st1.pok st1.kwo own p := by
      intro own p hf
      refine Fate_mono hf ?_ ?_ ?_
      · intro c hc; rw [h1]; exact hc
      · intro x hx; rw [h2]; exact Or.inl (by simp [hx])
      · intro x hx; rw [h3]; exact hx
    refine ⟨fun p hp => h.memA p (List.mem_cons_of_mem _ hp), by simp, h4 ▸ h.lun, h5 ▸ h.run,
      ?_, ?_, ?_, ?_, ?_, ?_, ?_, ?_, ?_, ?_, ?_⟩
    · have := h.j1
      rw [h1, h2, ← List.append_assoc, IdxOK_append]
      refine ⟨this, ?_⟩
      simp only [IdxOK_cons, IdxOK_nil, and_true, List.length_append]
      simp only [mlen] at i2; omega
    · intro _; rw [ml]; exact i2.2
    · intro _; trivial
    · rw [ml]; exact IdxOK_lb ρ i2.2
    · simp
    · intro p hp hr
      rcases h.fl p hp hr with hf | hf
      · exact Or.inl (mono _ p hf)
      · rcases List.mem_cons.1 hf with rfl | hf
        · left; right
          refine ⟨Or.inl ?_, hx⟩
          rw [h2]; simp [hr]
        · exact Or.inr hf
    · intro p hp hr
      rcases h.fr p hp hr with hf | hf
      · exact Or.inl (mono _ p hf)
      · simp at hf
    · intro c' hc'
      rw [h3] at hc'
      rcases h.kk c' hc' with h' | h' | ⟨_, h' | h', _⟩
      · exact Or.inl h'
      · exact Or.inr (Or.inl h')
      · simp [hva] at h'
      · simp at h'
    · intro c' hc'
      rw [h1, h2] at hc'
      simp only [List.mem_append, List.mem_singleton] at hc'
      rcases hc' with hc' | hc' | rfl
      · exact h.nmP c' (Or.inl hc')
      · exact h.nmP c' (Or.inr hc')
      · exact Or.inr (Or.inl (mem_names_of_mem_C01 hx))
    · intro c' hc'
      rw [h2] at hc'
      simp only [List.mem_append, List.mem_singleton] at hc'
      rcases hc' with hc' | rfl
      · exact h.nmQ c' hc'
      · exact Or.inl (mem_names_of_mem_C01 hx)
    · rw [h3]; exact h.nmK
  · rw [pset_of_not_mem_C01 (by simpa using hfresh)] at h3
    exact rj_tokwo (c := x.withKind .ko) hva (by simp) (by intro hr; simpa using hr)
      h1 h2 h3 h4 (by rw [h5]; exact fun p hp => hp) hx (Or.inr hkx) h
  · -- flushed to positional-only
    have i2 := h.j2 (Or.inr hva)
    simp only [IdxOK_cons] at i2
    have hu : Upd st1 (st.pos ++ st.pok.map (·.withKind .po) ++ [x.withKind .po]) []
        st.kwo st.lUn st.rUn := ⟨h1, h2, h3, h4, h5⟩
    obtain ⟨ml, j1', mono⟩ := rj_flush_aux (A' := A) (B' := []) hu (by simpa using i2.1) h.j1
    refine ⟨fun p hp => h.memA p (List.mem_cons_of_mem _ hp), by simp, h4 ▸ h.lun, h5 ▸ h.run,
      j1', ?_, ?_, ?_, ?_, ?_, ?_, ?_, ?_, ?_, ?_⟩
    · intro _; rw [ml]; exact i2.2
    · intro _; trivial
    · rw [ml]; exact IdxOK_lb ρ i2.2
    · simp
    · intro p hp hr
      rcases h.fl p hp hr with hf | hf
      · exact Or.inl (mono _ p hf)
      · rcases List.mem_cons.1 hf with rfl | hf
        · left; left
          exact ⟨p.withKind .po, by rw [h1]; simp, by simpa using hr, by simp⟩
        · exact Or.inr hf
    · intro p hp hr
      rcases h.fr p hp hr with hf | hf
      · exact Or.inl (mono _ p hf)
      · simp at hf
    · intro c' hc'
      rw [h3] at hc'
      rcases h.kk c' hc' with h' | h' | ⟨_, h' | h', _⟩
      · exact Or.inl h'
      · exact Or.inr (Or.inl h')
      · simp [hva] at h'
      · simp at h'
    · intro c' hc'
      rw [h1, h2] at hc'
      simp only [List.mem_append, List.mem_singleton, List.mem_map, List.not_mem_nil,
        or_false] at hc'
      rcases hc' with (hc' | ⟨c'', hc'', rfl⟩) | rfl
      · exact h.nmP c' (Or.inl hc')
      · simpa using h.nmP c'' (Or.inr hc'')
      · exact Or.inr (Or.inl (by simpa using mem_names_of_mem_C01 hx))
    · rw [h2]; simp
    · rw [h3]; exact h.nmK
  · exact rj_ldrop hva hd ⟨h1, h2, h3, h4, h5⟩ h

theorem rj_q_right {B : List Param}
    (hc : PokCases l x st st1 st.rUn st.lUn st1.rUn st1.lUn)
    (hx : x ∈ r.pok) (hfresh : x.name ∉ names st.kwo) (hkx : ρ.κ x.name = .pk)
    (hlk : ∀ q ∈ l.kwo, ρ.κ q.name = .pk → l.va.isSome = false)
    (h : RJ ρ l r [] (x :: B) st) : RJ ρ l r [] B st1 :=
  RJ_swap (rj_q_left (st := st.swap) (st1 := st1.swap) hc hx hfresh hkx hlk (RJ_swap h))

end Q
end SV
