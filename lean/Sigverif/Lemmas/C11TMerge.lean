/-
  Lemmas/C11TMerge.lean — every phase of `_Merger._merge` commutes with a metadata map that
  commutes with `_concile_meta` on the parameters satisfying an invariant `P`.
-/
import Sigverif.Lemmas.C11TBasic
namespace SV
set_option linter.unusedSimpArgs false
set_option linter.unusedVariables false

section
variable {f : Param → Param} {P : Param → Prop}

@[simp] theorem mapSt_pos (st : MState) : (mapSt f st).pos = st.pos.map f := rfl
@[simp] theorem mapSt_pok (st : MState) : (mapSt f st).pok = st.pok.map f := rfl
@[simp] theorem mapSt_kwo (st : MState) : (mapSt f st).kwo = st.kwo.map f := rfl
@[simp] theorem mapSt_lUn (st : MState) : (mapSt f st).lUn = st.lUn.map f := rfl
@[simp] theorem mapSt_rUn (st : MState) : (mapSt f st).rUn = st.rUn.map f := rfl
@[simp] theorem mapSt_src (st : MState) : (mapSt f st).src = st.src := rfl
@[simp] theorem mapSt_vaL (st : MState) : (mapSt f st).vaL = st.vaL := rfl
@[simp] theorem mapSt_vaR (st : MState) : (mapSt f st).vaR = st.vaR := rfl
@[simp] theorem mapSt_vkL (st : MState) : (mapSt f st).vkL = st.vkL := rfl
@[simp] theorem mapSt_vkR (st : MState) : (mapSt f st).vkR = st.vkR := rfl

/-- `f` commutes with `_concile_meta` on `P`-parameters -/
def ConcComm (f : Param → Param) (P : Param → Prop) : Prop :=
  ∀ a b, P a → P b → f (concile a b) = concile (f a) (f b)

theorem x11_mapKind_map (hf : MetaMap f) (ps : List Param) (k : Kind) :
    (ps.map f).map (·.withKind k) = (ps.map (·.withKind k)).map f := by
  simp only [List.map_map]
  apply List.map_congr_left
  intro p _
  exact (hf.withKind p k).symm

theorem x11_phaseK1_map (hf : MetaMap f) (hcomm : ConcComm f P) (l r : Sorted) (hr : AllP P r.kwo)
    (ps : List Param) (st : MState) (hps : AllP P ps) :
    phaseK1 (mapSorted f l) (mapSorted f r) (ps.map f) (mapSt f st) = mapSt f (phaseK1 l r ps st) := by
  induction ps generalizing st with
  | nil => rfl
  | cons p ps ih =>
    simp only [List.map_cons, phaseK1, mapSorted_kwo, x11_pget_map hf, hf.name, mapSorted_src]
    cases hq : pget r.kwo p.name with
    | some q =>
      simp only [Option.map_some]
      rw [← ih _ hps.tail]
      congr 1
      simp only [mapSt, ← hcomm p q hps.head (pget_P hr hq), x11_pset_map hf]
    | none =>
      simp only [Option.map_none]
      rw [← ih _ hps.tail]
      congr 1
      simp only [mapSt, x11_pset_map hf]

theorem x11_phaseK2_map (hf : MetaMap f) (l : Sorted) (ps : List Param) (st : MState) :
    phaseK2 (mapSorted f l) (ps.map f) (mapSt f st) = mapSt f (phaseK2 l ps st) := by
  induction ps generalizing st with
  | nil => rfl
  | cons p ps ih =>
    simp only [List.map_cons, phaseK2, mapSorted_kwo, x11_phas_map hf, hf.name]
    split
    · exact ih _
    · rw [← ih]
      congr 1
      simp only [mapSt, x11_pset_map hf]

/-- the result shape of `unbalancedPos` / `phaseP` mapped -/
def mapStL (f : Param → Param) (x : MState × List Param) : MState × List Param := (mapSt f x.1, x.2.map f)
def mapStLL (f : Param → Param) (x : MState × List Param × List Param) : MState × List Param × List Param :=
  (mapSt f x.1, x.2.1.map f, x.2.2.map f)

theorem x11_unbalancedPos_map (hf : MetaMap f) (hcomm : ConcComm f P) (side : Side) (l r : Sorted)
    (ex : Param) (cf : List Param) (st : MState) (hex : P ex) (hcf : AllP P cf) :
    unbalancedPos side (mapSorted f l) (mapSorted f r) (f ex) (cf.map f) (mapSt f st) =
      (unbalancedPos side l r ex cf st).map (mapStL f) := by
  cases cf with
  | cons o rest =>
    cases side <;>
      simp only [unbalancedPos, List.map_cons, Except.map, mapStL, hf.name, mapSt, mapSorted_src,
        ← hcomm ex o hex hcf.head, List.map_append, List.map_nil]
  | nil =>
    cases side <;>
      simp only [unbalancedPos, List.map_nil, mapSorted_va, mapSorted_src, Option.isSome_map, hf.name, hf.dflt] <;>
      (repeat' split) <;> simp only [Except.map, mapStL, mapSt, List.map_append, List.map_cons, List.map_nil]

theorem x11_phaseP_map (hf : MetaMap f) (hc : ClosedP P) (hcomm : ConcComm f P) (l r : Sorted)
    (ls rs il ir : List Param) (st : MState)
    (hls : AllP P ls) (hrs : AllP P rs) (hil : AllP P il) (hir : AllP P ir) (hst : StAll P st) :
    phaseP (mapSorted f l) (mapSorted f r) (ls.map f) (rs.map f) (il.map f) (ir.map f) (mapSt f st) =
      (phaseP l r ls rs il ir st).map (mapStLL f) := by
  induction ls, rs, il, ir, st using phaseP.induct l r with
  | case1 il ir st => simp only [List.map_nil, phaseP, Except.map, mapStLL]
  | case2 lp ls rp rs il ir st st1 ih =>
    simp only [List.map_cons, phaseP]
    refine Eq.trans ?_ (ih hls.tail hrs.tail hil hir
      { hst with pos := hst.pos.append (AllP.one (hc.concile _ _ hls.head hrs.head)) })
    congr 1
    simp only [st1, dite_eq_ite, mapSt, hf.name, mapSorted_src, ← hcomm lp rp hls.head hrs.head, List.map_append,
      List.map_cons, List.map_nil]
  | case3 lp ls il ir st ih =>
    simp only [List.map_cons, List.map_nil, phaseP, bind, Except.bind]
    have e := x11_unbalancedPos_map hf hcomm .L l r lp ir st hls.head hir
    simp only [List.map_nil] at e ih
    rw [e]
    cases hv : unbalancedPos .L l r lp ir st with
    | error e => rfl
    | ok v =>
      obtain ⟨st1, ir1⟩ := v
      obtain ⟨k1, k2⟩ := unbalancedPos_all hc _ _ _ _ _ _ _ _ hls.head hir hst hv
      simp only [Except.map, mapStL]
      exact ih _ _ hls.tail hrs hil k2 k1
  | case4 rp rs il ir st ih =>
    simp only [List.map_cons, List.map_nil, phaseP, bind, Except.bind]
    have e := x11_unbalancedPos_map hf hcomm .R l r rp il st hrs.head hil
    simp only [List.map_nil] at e ih
    rw [e]
    cases hv : unbalancedPos .R l r rp il st with
    | error e => rfl
    | ok v =>
      obtain ⟨st1, il1⟩ := v
      obtain ⟨k1, k2⟩ := unbalancedPos_all hc _ _ _ _ _ _ _ _ hrs.head hil hst hv
      simp only [Except.map, mapStL]
      exact ih _ _ hls hrs.tail k2 hir k1

theorem x11_unbalancedPok_map (hf : MetaMap f) (hcomm : ConcComm f P) (side : Side) (l r : Sorted)
    (ex : Param) (st : MState) (hex : P ex) (hst : StAll P st) :
    unbalancedPok side (mapSorted f l) (mapSorted f r) (f ex) (mapSt f st) =
      (unbalancedPok side l r ex st).map (mapSt f) := by
  cases side
  · simp only [unbalancedPok, mapSt_rUn, mapSt_lUn, x11_pget_map hf, hf.name, mapSorted_va, mapSorted_vk,
      mapSorted_src, Option.isSome_map, hf.dflt]
    cases hq : pget st.rUn ex.name with
    | some q =>
      simp only [Option.map_some, Except.map, mapSt, ← hcomm ex q hex (pget_P hst.rUn hq), ← hf.withKind,
        x11_pset_map hf, x11_ppop_map hf]
    | none =>
      simp only [Option.map_none]
      (repeat' split) <;>
        simp only [Except.map, mapSt, List.map_append, List.map_cons, List.map_nil, ← hf.withKind,
          x11_pset_map hf, x11_mapKind_map hf]
  · simp only [unbalancedPok, mapSt_rUn, mapSt_lUn, x11_pget_map hf, hf.name, mapSorted_va, mapSorted_vk,
      mapSorted_src, Option.isSome_map, hf.dflt]
    cases hq : pget st.lUn ex.name with
    | some q =>
      simp only [Option.map_some, Except.map, mapSt, ← hcomm ex q hex (pget_P hst.lUn hq), ← hf.withKind,
        x11_pset_map hf, x11_ppop_map hf]
    | none =>
      simp only [Option.map_none]
      (repeat' split) <;>
        simp only [Except.map, mapSt, List.map_append, List.map_cons, List.map_nil, ← hf.withKind,
          x11_pset_map hf, x11_mapKind_map hf]

theorem x11_phaseQ_map (hf : MetaMap f) (hc : ClosedP P) (hcomm : ConcComm f P) (l r : Sorted)
    (il ir : List Param) (st : MState) (hil : AllP P il) (hir : AllP P ir) (hst : StAll P st) :
    phaseQ (mapSorted f l) (mapSorted f r) (il.map f) (ir.map f) (mapSt f st) =
      (phaseQ l r il ir st).map (mapSt f) := by
  induction il, ir, st using phaseQ_ind l r with
  | h1 st => simp only [List.map_nil, phaseQ, Except.map]
  | h2 lp ls rp rs st hn ih =>
    simp only [List.map_cons]
    rw [phaseQ, phaseQ, if_pos hn, if_pos (by rw [hf.name, hf.name]; exact hn)]
    refine Eq.trans ?_ (ih hil.tail hir.tail
      { hst with pok := hst.pok.append (AllP.one (hc.concile _ _ hil.head hir.head)) })
    congr 1
    simp only [mapSt, hf.name, mapSorted_src, ← hcomm lp rp hil.head hir.head, List.map_append,
      List.map_cons, List.map_nil]
  | h3 lp ls rp rs st hn ih =>
    simp only [List.map_cons]
    rw [phaseQ, phaseQ, if_neg hn, if_neg (by rw [hf.name, hf.name]; exact hn)]
    refine Eq.trans ?_ (ih hil.tail hir.tail
      { hst with pos := AllP.flush hc hst.pos hst.pok (hc.concile _ _ hil.head hir.head), pok := AllP.nil })
    congr 1
    simp only [mapSt, hf.name, mapSorted_src, ← hcomm lp rp hil.head hir.head, List.map_append,
      List.map_cons, List.map_nil, ← hf.withKind, x11_mapKind_map hf]
  | h4 lp ls st ih =>
    simp only [List.map_cons, List.map_nil, phaseQ, bind, Except.bind]
    rw [x11_unbalancedPok_map hf hcomm .L l r lp st hil.head hst]
    cases hv : unbalancedPok .L l r lp st with
    | error e => rfl
    | ok st1 =>
      have := ih st1 hil.tail hir (unbalancedPok_all hc _ _ _ _ _ _ hil.head hst hv)
      simp only [List.map_nil] at this
      exact this
  | h5 rp rs st ih =>
    simp only [List.map_cons, List.map_nil, phaseQ, bind, Except.bind]
    rw [x11_unbalancedPok_map hf hcomm .R l r rp st hir.head hst]
    cases hv : unbalancedPok .R l r rp st with
    | error e => rfl
    | ok st1 =>
      have := ih st1 hil hir.tail (unbalancedPok_all hc _ _ _ _ _ _ hir.head hst hv)
      simp only [List.map_nil] at this
      exact this

theorem x11_addAllSources_map (hf : MetaMap f) (ret : Srcs) (ps : List Param) (frm : Srcs) :
    addAllSources ret (ps.map f) frm = addAllSources ret ps frm := by
  unfold addAllSources
  induction ps generalizing ret with
  | nil => rfl
  | cons p ps ih => simp only [List.map_cons, List.foldl_cons, hf.name, ih]

theorem x11_any_dflt_map (hf : MetaMap f) (ps : List Param) :
    (ps.map f).any (·.dflt.isNone) = ps.any (·.dflt.isNone) := by
  induction ps with
  | nil => rfl
  | cons p ps ih => simp only [List.map_cons, List.any_cons, hf.dflt, ih]

theorem x11_mergeUnmatched_map (hf : MetaMap f) (side : Side) (l r : Sorted) (st : MState) :
    mergeUnmatched side (mapSorted f l) (mapSorted f r) (mapSt f st) =
      (mergeUnmatched side l r st).map (mapSt f) := by
  cases side <;>
    simp only [mergeUnmatched, mapSt_lUn, mapSt_rUn, List.isEmpty_map, mapSorted_vk, mapSorted_src,
      Option.isSome_map, x11_any_dflt_map hf, x11_addAllSources_map hf, mapSt_kwo, x11_pupdate_map hf,
      mapSt_src] <;>
    (repeat' split) <;> simp only [Except.map, mapSt]

theorem x11_addStarargs_map (hf : MetaMap f) (hcomm : ConcComm f P) (l r : Sorted) (wL wR : Bool)
    (left right : Option Param) (src : Srcs)
    (hl : ∀ p, left = some p → P p) (hr : ∀ p, right = some p → P p) :
    addStarargs (mapSorted f l) (mapSorted f r) wL wR (left.map f) (right.map f) src =
      ((addStarargs l r wL wR left right src).1.map f, (addStarargs l r wL wR left right src).2) := by
  cases left with
  | none => rfl
  | some lp =>
    cases right with
    | none => rfl
    | some rp =>
      simp only [Option.map_some, addStarargs, mapSorted_src, hf.name, concile_name,
        ← hcomm lp rp (hl _ rfl) (hr _ rfl)]
      (repeat' split) <;> rfl

/-- **one merge step** commutes with the metadata map -/
theorem x11_mergeStep_map (hf : MetaMap f) (hc : ClosedP P) (hcomm : ConcComm f P) (l r : Sorted)
    (hl : AllP P l.all) (hr : AllP P r.all) :
    mergeStep (mapSorted f l) (mapSorted f r) = (mergeStep l r).map (mapSorted f) := by
  obtain ⟨l1, l2, l3, l4, l5⟩ := (allP_all_iff l).1 hl
  obtain ⟨r1, r2, r3, r4, r5⟩ := (allP_all_iff r).1 hr
  have k0 : StAll P ({ vaL := l.va.isSome, vaR := r.va.isSome, vkL := l.vk.isSome,
                       vkR := r.vk.isSome } : MState) :=
    ⟨AllP.nil, AllP.nil, AllP.nil, AllP.nil, AllP.nil⟩
  have kK1 := phaseK1_all hc l r r4 l.kwo _ l4 k0
  have kK2 := phaseK2_allP l r.kwo _ r4 kK1
  have e0 : ({ vaL := (mapSorted f l).va.isSome, vaR := (mapSorted f r).va.isSome,
               vkL := (mapSorted f l).vk.isSome, vkR := (mapSorted f r).vk.isSome } : MState) =
      mapSt f { vaL := l.va.isSome, vaR := r.va.isSome, vkL := l.vk.isSome, vkR := r.vk.isSome } := by
    simp only [mapSt, mapSorted_va, mapSorted_vk, Option.isSome_map, List.map_nil]
  simp only [mergeStep, bind, Except.bind]
  rw [e0]
  simp only [mapSorted_kwo, mapSorted_pos, mapSorted_pok]
  rw [x11_phaseK1_map hf hcomm l r r4 l.kwo _ l4, x11_phaseK2_map hf,
    x11_phaseP_map hf hc hcomm l r _ _ _ _ _ l1 r1 l2 r2 kK2]
  cases h1 : phaseP l r l.pos r.pos l.pok r.pok (phaseK2 l r.kwo (phaseK1 l r l.kwo
      { vaL := l.va.isSome, vaR := r.va.isSome, vkL := l.vk.isSome, vkR := r.vk.isSome })) with
  | error e => rfl
  | ok v =>
    obtain ⟨st1, il, ir⟩ := v
    obtain ⟨k1, kil, kir⟩ := phaseP_all hc l r _ _ _ _ _ _ _ _ l1 r1 l2 r2 kK2 h1
    simp only [Except.map, mapStLL]
    rw [x11_phaseQ_map hf hc hcomm l r il ir st1 kil kir k1]
    cases h2 : phaseQ l r il ir st1 with
    | error e => rfl
    | ok st2 =>
      have k2 := phaseQ_all hc l r _ _ _ _ kil kir k1 h2
      simp only [Except.map]
      rw [x11_mergeUnmatched_map hf]
      cases h3 : mergeUnmatched .L l r st2 with
      | error e => rfl
      | ok st3 =>
        have k3 := mergeUnmatched_all _ _ _ _ _ k2 h3
        simp only [Except.map]
        rw [x11_mergeUnmatched_map hf]
        cases h4 : mergeUnmatched .R l r st3 with
        | error e => rfl
        | ok st4 =>
          simp only [Except.map, pure, Except.pure, mapSt_vaL, mapSt_vaR, mapSt_vkL, mapSt_vkR, mapSt_src,
            mapSorted_va, mapSorted_vk, mapSorted_depths]
          rw [x11_addStarargs_map hf hcomm l r _ _ l.va r.va _ l3 r3]
          simp only []
          rw [x11_addStarargs_map hf hcomm l r _ _ l.vk r.vk _ l5 r5]
          rfl

/-! ### the fold and `merge` -/

theorem x11_mergeFold_map (hf : MetaMap f) (hc : ClosedP P) (hcomm : ConcComm f P) (acc : Sorted)
    (ss : List USig) (hacc : AllP P acc.all) (hss : ∀ s ∈ ss, AllP P s.params) :
    mergeFold (mapSorted f acc) (ss.map (mapSig f)) = (mergeFold acc ss).map (mapSorted f) := by
  induction ss generalizing acc with
  | nil => rfl
  | cons s ss ih =>
    simp only [List.map_cons, mergeFold, x11_sortParams_map hf]
    have hs := sortParams_allP s (hss s (by simp))
    rw [x11_mergeStep_map hf hc hcomm acc (sortParams s) hacc hs]
    cases hstep : mergeStep acc (sortParams s) with
    | error e => rfl
    | ok acc' =>
      simp only [Except.map]
      exact ih acc' (mergeStep_all hc _ _ _ hacc hs hstep) (fun t ht => hss t (by simp [ht]))

theorem x11_merge_map (hf : MetaMap f) (hc : ClosedP P) (hcomm : ConcComm f P) (ss : List USig)
    (hss : ∀ s ∈ ss, AllP P s.params) :
    merge (ss.map (mapSig f)) = (merge ss).map (mapSig f) := by
  cases ss with
  | nil => rfl
  | cons s ss =>
    simp only [List.map_cons, merge, bind, Except.bind, x11_sortParams_map hf]
    rw [x11_mergeFold_map hf hc hcomm _ ss (sortParams_allP s (hss s (by simp)))
      (fun t ht => hss t (by simp [ht]))]
    cases hfold : mergeFold (sortParams s) ss with
    | error e => rfl
    | ok r =>
      simp only [Except.map]
      exact x11_applyParams_map hf s r

end
end SV
