/-
  Lemmas/C08Embed.lean — provenance well-formedness of one `_embed` step.
-/
import Sigverif.Lemmas.C08ND
import Sigverif.Lemmas.C02Fold
namespace SV
set_option linter.unusedSimpArgs false
set_option linter.unusedVariables false

theorem dget_snoc {α : Type} (a : List (Nat × α)) (x : Nat × α) (k : Nat) :
    dget (a ++ [x]) k = match dget a k with
                        | some v => some v
                        | none => if x.1 = k then some x.2 else none := by
  induction a with
  | nil => simp [dget]
  | cons y s ih =>
    simp only [List.cons_append, dget]
    by_cases h : y.1 = k
    · simp [h]
    · simp only [h, if_false]; exact ih

theorem dget_reverse_of_nd {α : Type} (e : List (Nat × α)) (h : KeysND e) (k : Nat) :
    dget e.reverse k = dget e k := by
  induction e with
  | nil => rfl
  | cons x t ih =>
    have hnd : KeysND t := by
      unfold KeysND dkeys at *
      simp only [List.map_cons, List.nodup_cons] at h
      exact h.2
    have hx : x.1 ∉ dkeys t := by
      unfold KeysND dkeys at *
      simp only [List.map_cons, List.nodup_cons] at h
      exact h.1
    simp only [List.reverse_cons]
    rw [dget_snoc, ih hnd]
    simp only [dget]
    by_cases hk : x.1 = k
    · subst hk
      have : dget t x.1 = none := by
        cases hd : dget t x.1 with
        | none => rfl
        | some v =>
          exfalso; apply hx
          rw [mem_dkeys_iff]; simp [dhas, hd]
      simp [this]
    · simp only [hk, if_false]
      cases dget t k <;> rfl

theorem sget_dupdate (d e : Srcs) (he : KeysND e) (k : Nat) :
    sget (dupdate d e) k = if dhas e k = true then sget e k else sget d k := by
  unfold sget dhas
  rw [dget_dupdate, dget_reverse_of_nd e he]
  cases h : dget e k <;> simp

/-! ### star parameters of a merge step -/

theorem mergeStep_va_none (l r s : Sorted) (h : mergeStep l r = .ok s) (hr : r.va = none) : s.va = none := by
  obtain ⟨st1, st2, st3, st4, il, ir, h1, h2, h3, h4, rfl⟩ := mergeStep_ok l r s h
  simp only [hr, addStarargs]
  split <;> simp_all

theorem mergeStep_vk_none (l r s : Sorted) (h : mergeStep l r = .ok s) (hr : r.vk = none) : s.vk = none := by
  obtain ⟨st1, st2, st3, st4, il, ir, h1, h2, h3, h4, rfl⟩ := mergeStep_ok l r s h
  simp only [hr, addStarargs]
  split <;> simp_all

/-- the star parameter a merge step yields carries the name of one of the operands' -/
theorem addStarargs_name_C08 (l r : Sorted) (wL wR : Bool) (left right : Option Param) (src : Srcs) (p : Param)
    (h : (addStarargs l r wL wR left right src).1 = some p) :
    (∃ q, left = some q ∧ p.name = q.name) ∨ (∃ q, right = some q ∧ p.name = q.name) := by
  unfold addStarargs at h
  split at h
  · rename_i lp rp
    (repeat' split at h) <;> simp only [Option.some.injEq] at h <;> subst h
    · exact .inl ⟨lp, rfl, rfl⟩
    · exact .inl ⟨lp, rfl, rfl⟩
    · exact .inl ⟨lp, rfl, rfl⟩
    · exact .inr ⟨rp, rfl, rfl⟩
  · cases h

/-! ### names of the concatenated buckets -/

theorem names_clearDefaults_C08 (l : List Param) : names (clearDefaults l) = names l := by
  simp [names, clearDefaults, Param.withDflt]

theorem names_cdIf_C08 (c : Bool) (l : List Param) : names (cdIf c l) = names l := by
  unfold cdIf; split
  · exact names_clearDefaults_C08 l
  · rfl

theorem mem_names_ePos_ePok (O i : Sorted) (k : Nat) :
    k ∈ names (ePosC O i) ++ names (ePokC O i) ↔
      (k ∈ names O.pos ∨ k ∈ names O.pok) ∨ (k ∈ names i.pos ∨ k ∈ names i.pok) := by
  unfold ePosC ePokC
  cases hp : i.pos with
  | nil =>
    simp only [List.isEmpty_nil, if_true, names_append, names_cdIf_C08, List.mem_append]
    have : names ([] : List Param) = [] := rfl
    simp only [this, List.not_mem_nil, false_or]
    constructor
    · rintro (h | h | h)
      · exact .inl (.inl h)
      · exact .inl (.inr h)
      · exact .inr h
    · rintro ((h | h) | h)
      · exact .inl h
      · exact .inr (.inl h)
      · exact .inr (.inr h)
  | cons a t =>
    simp only [List.isEmpty_cons, Bool.false_eq_true, if_false, names_append, names_cdIf_C08,
      names_map_withKind, List.mem_append, List.nil_append]
    have : names ([] : List Param) = [] := rfl
    constructor
    · rintro (((h | h) | h) | h)
      · exact .inl (.inl h)
      · exact .inl (.inr h)
      · exact .inr (.inl h)
      · exact .inr (.inr h)
    · rintro ((h | h) | (h | h))
      · exact .inl (.inl (.inl h))
      · exact .inl (.inl (.inr h))
      · exact .inl (.inr h)
      · exact .inr h

/-- inversion of `embedStep` -/
theorem embedStep_ok (O I R : Sorted) (uva uvk : Bool) (d : Nat) (h : embedStep O I uva uvk d = .ok R) :
    ∃ i, mergeStep I { va := if uva then O.va else none, vk := if uvk then O.vk else none } = .ok i ∧
      R = { pos := ePosC O i, pok := ePokC O i, va := if uva then i.va else O.va,
            kwo := pupdate (pupdate [] O.kwo) i.kwo, vk := if uvk then i.vk else O.vk,
            src := embedSrc O i uva uvk,
            depths := mergeDepths O.depths (copyDepths i.depths d) } := by
  rw [embedStep_eq] at h
  simp only [bind, Except.bind] at h
  split at h
  · cases h
  · rename_i i hi
    refine ⟨i, hi, ?_⟩
    rw [embedTail_eq] at h
    cases ht : embedTailC O i uva uvk with
    | error e => rw [ht] at h; simp [Except.map] at h
    | ok r =>
      rw [ht] at h
      simp only [Except.map, Except.ok.injEq] at h
      rw [embedTailC_ok ht] at h
      exact h.symm

/-- the outer operand's own provenance after dropping the forwarded star parameters -/
def outerSrc (O : Sorted) (uva uvk : Bool) : Srcs :=
  let oSrc := O.src
  let oSrc := match O.va with | some p => if uva then dpop oSrc p.name else oSrc | none => oSrc
  match O.vk with | some p => if uvk then dpop oSrc p.name else oSrc | none => oSrc

theorem embedSrc_eq (O i : Sorted) (uva uvk : Bool) : embedSrc O i uva uvk = dupdate i.src (outerSrc O uva uvk) := rfl

theorem outerSrc_nd (O : Sorted) (uva uvk : Bool) (h : KeysND O.src) : KeysND (outerSrc O uva uvk) := by
  unfold outerSrc
  (repeat' split) <;> first | exact h | exact h.dpop _ | exact (h.dpop _).dpop _

/-- which keys survive in the outer map -/
theorem dhas_outerSrc (O : Sorted) (uva uvk : Bool) (k : Nat) :
    dhas (outerSrc O uva uvk) k =
      (dhas O.src k && !(uva && (O.va.any (·.name = k))) && !(uvk && (O.vk.any (·.name = k)))) := by
  unfold outerSrc
  cases hva : O.va <;> cases hvk : O.vk <;> cases uva <;> cases uvk <;>
    simp [dhas_dpop, Option.any] <;>
    (try (cases dhas O.src k <;> simp)) <;>
    (try (rename_i a; by_cases h1 : k = a.name <;> simp [h1, eq_comm])) <;>
    (try (rename_i a b; by_cases h1 : k = a.name <;> by_cases h2 : k = b.name <;> simp [h1, h2, eq_comm]))

theorem sget_outerSrc (O : Sorted) (uva uvk : Bool) (k : Nat) (h : dhas (outerSrc O uva uvk) k = true) :
    sget (outerSrc O uva uvk) k = sget O.src k := by
  have hk := h
  rw [dhas_outerSrc] at hk
  simp only [Bool.and_eq_true, Bool.not_eq_true', Bool.and_eq_false_iff] at hk
  obtain ⟨⟨_, h1⟩, h2⟩ := hk
  unfold outerSrc sget
  cases hva : O.va <;> cases hvk : O.vk <;> simp only [hva, hvk, Option.any] at h1 h2 ⊢
  · rename_i b
    split
    · rw [dget_dpop]
      rename_i hu
      simp only [hu, Bool.true_eq_false, false_or, decide_eq_false_iff_not] at h2
      have : ¬ k = b.name := fun e => h2 e.symm
      simp [this]
    · rfl
  · rename_i a
    split
    · rw [dget_dpop]
      rename_i hu
      simp only [hu, Bool.true_eq_false, false_or, decide_eq_false_iff_not] at h1
      have : ¬ k = a.name := fun e => h1 e.symm
      simp [this]
    · rfl
  · rename_i a b
    have e1 : uva = true → ¬ k = a.name := by
      intro hu; simp only [hu, Bool.true_eq_false, false_or, decide_eq_false_iff_not] at h1
      exact fun e => h1 e.symm
    have e2 : uvk = true → ¬ k = b.name := by
      intro hu; simp only [hu, Bool.true_eq_false, false_or, decide_eq_false_iff_not] at h2
      exact fun e => h2 e.symm
    cases uva <;> cases uvk <;> simp only [if_true, if_false, Bool.false_eq_true, dget_dpop]
    · simp [e2 rfl]
    · simp [e1 rfl]
    · simp [e1 rfl, e2 rfl]

end SV

namespace SV
set_option linter.unusedSimpArgs false
set_option linter.unusedVariables false

/-- the star parameters of a classified signature are not named like any other of its parameters -/
structure StarsApart (O : Sorted) : Prop where
  va : ∀ a, O.va = some a → a.name ∉ names O.pos ∧ a.name ∉ names O.pok ∧ a.name ∉ names O.kwo
  vk : ∀ b, O.vk = some b → b.name ∉ names O.pos ∧ b.name ∉ names O.pok ∧ b.name ∉ names O.kwo
  ne : ∀ a b, O.va = some a → O.vk = some b → a.name ≠ b.name

theorem mem_names_all (s : Sorted) (k : Nat) :
    k ∈ names s.all ↔ k ∈ names s.pos ∨ k ∈ names s.pok ∨ k ∈ names s.va.toList ∨ k ∈ names s.kwo ∨
      k ∈ names s.vk.toList := by
  simp only [Sorted.all, names_append, List.mem_append]
  constructor
  · rintro ((((h | h) | h) | h) | h)
    · exact .inl h
    · exact .inr (.inl h)
    · exact .inr (.inr (.inl h))
    · exact .inr (.inr (.inr (.inl h)))
    · exact .inr (.inr (.inr (.inr h)))
  · rintro (h | h | h | h | h)
    · exact .inl (.inl (.inl (.inl h)))
    · exact .inl (.inl (.inl (.inr h)))
    · exact .inl (.inl (.inr h))
    · exact .inl (.inr h)
    · exact .inr h

theorem mem_names_toList (o : Option Param) (k : Nat) : k ∈ names o.toList ↔ ∃ p, o = some p ∧ p.name = k := by
  cases o with
  | none => simp [names]
  | some p => simp [names, eq_comm]

/-- membership of a key in the outer map after the forwarded stars are dropped, spelled out -/
theorem dhas_outerSrc_iff (O : Sorted) (uva uvk : Bool) (k : Nat) :
    dhas (outerSrc O uva uvk) k = true ↔
      dhas O.src k = true ∧ (uva = true → ∀ a, O.va = some a → a.name ≠ k) ∧
        (uvk = true → ∀ b, O.vk = some b → b.name ≠ k) := by
  rw [dhas_outerSrc]
  simp only [Bool.and_eq_true, Bool.not_eq_true', Bool.and_eq_false_iff]
  constructor
  · rintro ⟨⟨h0, h1⟩, h2⟩
    refine ⟨h0, ?_, ?_⟩
    · intro hu a ha
      rcases h1 with h1 | h1
      · rw [hu] at h1; cases h1
      · rw [ha] at h1; simpa [Option.any] using h1
    · intro hu b hb
      rcases h2 with h2 | h2
      · rw [hu] at h2; cases h2
      · rw [hb] at h2; simpa [Option.any] using h2
  · rintro ⟨h0, h1, h2⟩
    refine ⟨⟨h0, ?_⟩, ?_⟩
    · cases hu : uva
      · exact .inl rfl
      · right
        cases ha : O.va with
        | none => rfl
        | some a => simpa [Option.any] using h1 hu a ha
    · cases hu : uvk
      · exact .inl rfl
      · right
        cases hb : O.vk with
        | none => rfl
        | some b => simpa [Option.any] using h2 hu b hb

/-- **one `_embed` step keeps provenance well-formed and truthful**, provided the outer
    operand's star parameters are not named like its other parameters (finding D29 shows
    this is needed: provenance is keyed by name). -/
theorem embedStep_src (O I R : Sorted) (uva uvk : Bool) (d : Nat)
    (hOk : ∀ k, dhas O.src k = true ↔ k ∈ names O.all)
    (hOne : ∀ k, k ∈ names O.all → sget O.src k ≠ [])
    (hOnd : KeysND O.src) (hOs : StarsApart O)
    (hI : Sourced I.src I.all)
    (h : embedStep O I uva uvk d = .ok R) :
    (∀ k, dhas R.src k = true ↔ k ∈ names R.all) ∧
    (∀ k, k ∈ names R.all → sget R.src k ≠ []) ∧
    (∀ k f, f ∈ sget R.src k → f ∈ sget O.src k ∨ f ∈ sget I.src k) ∧
    KeysND R.src := by
  obtain ⟨i, hi, rfl⟩ := embedStep_ok O I R uva uvk d h
  have g := mergeStep_src_gen I _ i hI (.inr ⟨rfl, rfl, rfl⟩) hi
  have ndi := mergeStep_nd _ _ _ hi
  have ndo := outerSrc_nd O uva uvk hOnd
  have hiva : uva = false → i.va = none := by
    intro hu; apply mergeStep_va_none _ _ _ hi; simp [hu]
  have hivk : uvk = false → i.vk = none := by
    intro hu; apply mergeStep_vk_none _ _ _ hi; simp [hu]
  -- keys
  have keys : ∀ k, dhas (embedSrc O i uva uvk) k = true ↔
      (k ∈ names (ePosC O i) ∨ k ∈ names (ePokC O i) ∨ k ∈ names (if uva then i.va else O.va).toList ∨
        k ∈ names (pupdate (pupdate [] O.kwo) i.kwo) ∨ k ∈ names (if uvk then i.vk else O.vk).toList) := by
    intro k
    have hpp := mem_names_ePos_ePok O i k
    simp only [List.mem_append] at hpp
    have hkw : k ∈ names (pupdate (pupdate [] O.kwo) i.kwo) ↔ k ∈ names O.kwo ∨ k ∈ names i.kwo := by
      rw [mem_names_pupdate, mem_names_pupdate]; simp [names]
    rw [embedSrc_eq, dhas_dupdate, Bool.or_eq_true, dhas_outerSrc_iff, hOk, g.keys, mem_names_all, mem_names_all, hkw]
    constructor
    · rintro (⟨h0, h1, h2⟩ | h0)
      · rcases h0 with h0 | h0 | h0 | h0 | h0
        · have := hpp.2 (.inl (.inl h0)); rcases this with t | t
          · exact .inl t
          · exact .inr (.inl t)
        · have := hpp.2 (.inl (.inr h0)); rcases this with t | t
          · exact .inl t
          · exact .inr (.inl t)
        · obtain ⟨a, ha, hak⟩ := (mem_names_toList _ _).1 h0
          cases hu : uva
          · right; right; left
            simp only [Bool.false_eq_true, if_false]; exact h0
          · exact absurd hak (h1 hu a ha)
        · exact .inr (.inr (.inr (.inl (.inl h0))))
        · obtain ⟨b, hb, hbk⟩ := (mem_names_toList _ _).1 h0
          cases hu : uvk
          · right; right; right; right
            simp only [Bool.false_eq_true, if_false]; exact h0
          · exact absurd hbk (h2 hu b hb)
      · rcases h0 with h0 | h0 | h0 | h0 | h0
        · have := hpp.2 (.inr (.inl h0)); rcases this with t | t
          · exact .inl t
          · exact .inr (.inl t)
        · have := hpp.2 (.inr (.inr h0)); rcases this with t | t
          · exact .inl t
          · exact .inr (.inl t)
        · cases hu : uva
          · rw [hiva hu] at h0; simp [names] at h0
          · right; right; left; simp only [if_true]; exact h0
        · exact .inr (.inr (.inr (.inl (.inr h0))))
        · cases hu : uvk
          · rw [hivk hu] at h0; simp [names] at h0
          · right; right; right; right; simp only [if_true]; exact h0
    · intro hk
      -- a named parameter of the outer signature keeps its key: the forwarded stars are named differently
      have outerNamed : (k ∈ names O.pos ∨ k ∈ names O.pok ∨ k ∈ names O.kwo) →
          (k ∈ names O.pos ∨ k ∈ names O.pok ∨ k ∈ names O.va.toList ∨ k ∈ names O.kwo ∨ k ∈ names O.vk.toList) ∧
            (uva = true → ∀ a, O.va = some a → a.name ≠ k) ∧ (uvk = true → ∀ b, O.vk = some b → b.name ≠ k) := by
        intro hn
        refine ⟨?_, ?_, ?_⟩
        · rcases hn with hn | hn | hn
          · exact .inl hn
          · exact .inr (.inl hn)
          · exact .inr (.inr (.inr (.inl hn)))
        · intro _ a ha e
          obtain ⟨n1, n2, n3⟩ := hOs.va a ha
          rw [e] at n1 n2 n3
          rcases hn with hn | hn | hn
          · exact n1 hn
          · exact n2 hn
          · exact n3 hn
        · intro _ b hb e
          obtain ⟨n1, n2, n3⟩ := hOs.vk b hb
          rw [e] at n1 n2 n3
          rcases hn with hn | hn | hn
          · exact n1 hn
          · exact n2 hn
          · exact n3 hn
      rcases hk with hk | hk | hk | hk | hk
      · rcases hpp.1 (.inl hk) with (t | t) | (t | t)
        · exact .inl (outerNamed (.inl t))
        · exact .inl (outerNamed (.inr (.inl t)))
        · exact .inr (.inl t)
        · exact .inr (.inr (.inl t))
      · rcases hpp.1 (.inr hk) with (t | t) | (t | t)
        · exact .inl (outerNamed (.inl t))
        · exact .inl (outerNamed (.inr (.inl t)))
        · exact .inr (.inl t)
        · exact .inr (.inr (.inl t))
      · cases hu : uva
        · simp only [hu, Bool.false_eq_true, if_false] at hk
          obtain ⟨a, ha, hak⟩ := (mem_names_toList _ _).1 hk
          left
          refine ⟨.inr (.inr (.inl hk)), ?_, ?_⟩
          · intro hu'; cases hu'
          · intro _ b hb e
            exact hOs.ne a b ha hb (hak.trans e.symm)
        · simp only [hu, if_true] at hk
          exact .inr (.inr (.inr (.inl hk)))
      · rcases hk with hk | hk
        · exact .inl (outerNamed (.inr (.inr hk)))
        · exact .inr (.inr (.inr (.inr (.inl hk))))
      · cases hu : uvk
        · simp only [hu, Bool.false_eq_true, if_false] at hk
          obtain ⟨b, hb, hbk⟩ := (mem_names_toList _ _).1 hk
          left
          refine ⟨.inr (.inr (.inr (.inr hk))), ?_, ?_⟩
          · intro _ a ha e
            exact hOs.ne a b ha hb (e.trans hbk.symm)
          · intro hu'; cases hu'
        · simp only [hu, if_true] at hk
          exact .inr (.inr (.inr (.inr (.inr hk))))
  -- what an entry of the result is
  have entry : ∀ k, sget (embedSrc O i uva uvk) k =
      if dhas (outerSrc O uva uvk) k = true then sget O.src k else sget i.src k := by
    intro k
    rw [embedSrc_eq, sget_dupdate _ _ ndo]
    split
    · rename_i hk; rw [sget_outerSrc O uva uvk k hk]
    · rfl
  refine ⟨fun k => by rw [mem_names_all]; exact keys k, ?_, ?_, ?_⟩
  · intro k hk
    have hd : dhas (embedSrc O i uva uvk) k = true := (keys k).2 ((mem_names_all _ k).1 hk)
    show sget (embedSrc O i uva uvk) k ≠ []
    rw [entry]
    split
    · rename_i ho
      have := ((dhas_outerSrc_iff O uva uvk k).1 ho).1
      exact hOne k ((hOk k).1 this)
    · rename_i ho
      rw [embedSrc_eq, dhas_dupdate, Bool.or_eq_true] at hd
      rcases hd with hd | hd
      · exact absurd hd ho
      · exact g.ne k ((g.keys k).1 hd)
  · intro k f hf
    have hf : f ∈ sget (embedSrc O i uva uvk) k := hf
    rw [entry] at hf
    split at hf
    · exact .inl hf
    · rcases g.mem k f hf with h' | h'
      · exact .inr h'
      · simp [sget, dget] at h'
  · show KeysND (embedSrc O i uva uvk)
    rw [embedSrc_eq]; exact ndi.dupdate _

end SV
