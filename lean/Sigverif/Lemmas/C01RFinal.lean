/-
  Lemmas/C01RFinal.lean — both ends of `merge` for arbitrary call shapes, and the construction
  of the global role assignment from `roleCons`.
-/
import Sigverif.Lemmas.C01RBind
namespace SV
variable {ρ : Roles} {IsIn : Nat → Prop}

/-- what `nonColl` and acceptance by the result say about the keywords, in terms of roles only -/
def GCond (ρ : Roles) (IsIn : Nat → Prop) (n : Nat) (K : List Nat) : Prop :=
  ∀ k ∈ K, ¬ IsIn k ∨ ((ρ.κ k = .pk ∨ ρ.κ k = .ko) ∧ (ρ.κ k = .pk → n ≤ ρ.ι k))

/-! ### the result -/

theorem result_accB {B : Sorted} (hri : RI ρ IsIn B) (hv : validate B.all = .ok ()) {n : Nat}
    {K : List Nat} (ha : accepts B.all n K = true) :
    accB B n K ∧
    ∀ k ∈ K, (k ∈ names B.pok ∨ k ∈ names B.kwo) →
      (ρ.κ k = .pk ∨ ρ.κ k = .ko) ∧ (ρ.κ k = .pk → n ≤ ρ.ι k) := by
  have bk := hri.bk
  have hn := validate_nodup_C01 hv
  rw [accepts_iff_C01, all_positionals bk, all_hasVa bk, all_kwNames bk, all_hasVk bk] at ha
  obtain ⟨a1, bound, hb, a2⟩ := ha
  obtain ⟨b1, b2, _⟩ := bindKw_some' hb
  simp only [List.mem_append] at b1 b2
  have a1' : n ≤ B.pos.length + B.pok.length ∨ B.va.isSome = true := by simpa using a1
  -- an element of `pos ++ pok` whose name is among the first `n` names sits below `n`
  have below : ∀ i p, (B.pos ++ B.pok)[i]? = some p →
      p.name ∈ names ((B.pos ++ B.pok).take n) → i < n := by
    intro i p hi hm
    obtain ⟨q, hq, hqn⟩ := mem_names_C01.1 hm
    obtain ⟨j, hj⟩ := List.getElem?_of_mem hq
    rw [List.getElem?_take] at hj
    split at hj
    · next hjn =>
      have e1 := IdxOK_getElem ρ hri.idx j q hj
      have e2 := IdxOK_getElem ρ hri.idx i p hi
      rw [hqn] at e1; omega
    · cases hj
  have kindsPP : ∀ p, p ∈ B.pos ++ B.pok → p.kind = .po ∨ p.kind = .pk := by
    intro p hp
    rcases List.mem_append.1 hp with h | h
    · exact Or.inl (bk.pos p h)
    · exact Or.inr (bk.pok p h)
  have memAll : ∀ p, p ∈ B.pos ++ B.pok → p ∈ B.all := by
    intro p hp
    rcases List.mem_append.1 hp with h | h
    · exact mem_all_of_pos h
    · exact mem_all_of_pok h
  refine ⟨⟨a1', ?_, ?_, ?_⟩, ?_⟩
  · intro k hk
    rcases b1 k hk with ⟨h | h, _⟩ | ⟨_, h⟩
    · exact Or.inl h
    · exact Or.inr (Or.inl h)
    · exact Or.inr (Or.inr h)
  · intro i p hi hr
    have hp := List.mem_of_getElem? hi
    have hnm : isNamed p = true := by
      rcases kindsPP p hp with h | h <;> simp [isNamed, h]
    rcases b2 _ (a2 p (memAll p hp) hnm hr) with h | ⟨hK, h⟩
    · exact Or.inl (below i p hi h)
    · right
      refine ⟨?_, hK⟩
      rcases h with h | h
      · obtain ⟨q, hq, hqn⟩ := mem_names_C01.1 h
        have : q = p := eq_of_nodup_names hn (mem_all_of_pok hq) (memAll p hp) hqn
        exact this ▸ hq
      · obtain ⟨q, hq, hqn⟩ := mem_names_C01.1 h
        have : q = p := eq_of_nodup_names hn (mem_all_of_kwo hq) (memAll p hp) hqn
        subst this
        have := bk.kwo q hq
        rcases kindsPP q hp with h' | h' <;> rw [this] at h' <;> cases h'
  · intro p hp hr
    rcases b2 _ (a2 p (mem_all_of_kwo hp) (by simp [isNamed, bk.kwo p hp]) hr) with h | ⟨hK, _⟩
    · obtain ⟨q, hq, hqn⟩ := mem_names_C01.1 h
      have hq' := List.mem_of_mem_take hq
      have : q = p := eq_of_nodup_names hn (memAll q hq') (mem_all_of_kwo hp) hqn
      subst this
      have := bk.kwo q hp
      rcases kindsPP q hq' with h' | h' <;> rw [this] at h' <;> cases h'
    · exact hK
  · intro k hk hkw
    have hnb : k ∉ names ((B.pos ++ B.pok).take n) := by
      rcases b1 k hk with ⟨_, h⟩ | ⟨h, _⟩
      · exact h
      · exact absurd hkw h
    rcases hkw with h | h
    · obtain ⟨c, hc, rfl⟩ := mem_names_C01.1 h
      refine ⟨Or.inl (hri.kpok c hc), fun _ => ?_⟩
      obtain ⟨i, hi⟩ := List.getElem?_of_mem (List.mem_append_right B.pos hc)
      have e := IdxOK_getElem ρ hri.idx i c hi
      apply Nat.le_of_not_lt
      intro hlt
      apply hnb
      refine mem_names_of_mem_C01 (List.mem_iff_getElem?.2 ⟨i, ?_⟩)
      rw [List.getElem?_take, if_pos (by omega)]; exact hi
    · obtain ⟨c, hc, rfl⟩ := mem_names_C01.1 h
      rcases hri.kkwo c hc with h' | ⟨h1, h2, h3⟩
      · exact ⟨Or.inr h', fun hpk => by rw [h'] at hpk; cases hpk⟩
      · refine ⟨Or.inl h1, fun _ => ?_⟩
        rcases a1' with h' | h'
        · omega
        · rw [h2] at h'; cases h'

/-! ### the inputs -/

theorem input_accB (s : USig) (hv : validate s.params = .ok ())
    (hri : RI ρ IsIn (sortParams s)) {n : Nat} {K : List Nat} (hK : K.Nodup)
    (hG : GCond ρ IsIn n K) (ha : accB (sortParams s) n K) : accepts s.params n K = true := by
  have F := sortParams_facts s hv
  have hpp := positionals_sort s hv
  obtain ⟨a1, a2, a3, a4⟩ := ha
  rw [accepts_iff_C01, hpp]
  have hkw : ∀ p ∈ s.params, (p.kind = .pk ∨ p.kind = .ko) → p.name ∈ kwNames s.params := by
    intro p hp hk
    unfold kwNames
    refine List.mem_map.2 ⟨p, List.mem_filter.2 ⟨hp, ?_⟩, rfl⟩
    unfold kwPassable; rcases hk with hk | hk <;> simp [hk]
  have kwIn : ∀ k, (k ∈ names (sortParams s).pok ∨ k ∈ names (sortParams s).kwo) →
      k ∈ kwNames s.params := by
    rintro k (h' | h')
    · rw [F.pok] at h'
      obtain ⟨p, hp, rfl⟩ := mem_names_C01.1 h'
      obtain ⟨hp1, hp2⟩ := List.mem_filter.1 hp
      exact hkw p hp1 (Or.inl (by simpa using hp2))
    · rw [F.kwo] at h'
      obtain ⟨p, hp, rfl⟩ := mem_names_C01.1 h'
      obtain ⟨hp1, hp2⟩ := List.mem_filter.1 hp
      exact hkw p hp1 (Or.inr (by simpa using hp2))
  have kwOut : ∀ k, k ∈ kwNames s.params →
      (k ∈ names (sortParams s).pok ∨ k ∈ names (sortParams s).kwo) := by
    intro k hk
    unfold kwNames at hk
    obtain ⟨p, hp, rfl⟩ := List.mem_map.1 hk
    obtain ⟨hp1, hp2⟩ := List.mem_filter.1 hp
    unfold kwPassable at hp2
    simp only [Bool.or_eq_true, decide_eq_true_eq] at hp2
    rcases hp2 with h' | h'
    · left; rw [F.pok]; exact mem_names_of_mem_C01 (List.mem_filter.2 ⟨hp1, by simpa using h'⟩)
    · right; rw [F.kwo]; exact mem_names_of_mem_C01 (List.mem_filter.2 ⟨hp1, by simpa using h'⟩)
  refine ⟨by rw [List.length_append, ← F.va]; exact a1, ?_⟩
  obtain ⟨bound, hb, hbound⟩ := bindKw_ok' (kwp := kwNames s.params) (vk := hasVk s.params)
    (b0 := names (((sortParams s).pos ++ (sortParams s).pok).take n)) hK (by
      intro k hk
      refine ⟨?_, ?_⟩
      · intro hkn hm
        obtain ⟨q, hq, hqn⟩ := mem_names_C01.1 hm
        obtain ⟨j, hj⟩ := List.getElem?_of_mem hq
        rw [List.getElem?_take] at hj
        split at hj
        · next hjn =>
          have e1 := IdxOK_getElem ρ hri.idx j q hj
          have hq' := List.mem_of_getElem? hj
          have hin : IsIn k := by
            rw [← hqn]
            rcases List.mem_append.1 hq' with h' | h'
            · exact hri.isin q (Or.inl h')
            · exact hri.isin q (Or.inr (Or.inl h'))
          rcases hG k hk with h' | ⟨h1, h2⟩
          · exact h' hin
          · have hpk : ρ.κ k = .pk := by
              rw [← hqn] at h1 ⊢
              rcases List.mem_append.1 hq' with h' | h'
              · rcases hri.kpos q h' with h'' | h''
                · rw [h''] at h1; rcases h1 with h1 | h1 <;> cases h1
                · exact h''
              · exact hri.kpok q h'
            have := h2 hpk
            rw [← hqn] at this; omega
        · cases hj
      · intro hkn
        rcases a2 k hk with h' | h' | h'
        · exact absurd (kwIn k (Or.inl h')) hkn
        · exact absurd (kwIn k (Or.inr h')) hkn
        · exact F.vk ▸ h')
  refine ⟨bound, hb, ?_⟩
  intro p hp hnm hr
  apply hbound
  unfold isNamed at hnm
  have posCase : p ∈ (sortParams s).pos ++ (sortParams s).pok →
      p.name ∈ names (((sortParams s).pos ++ (sortParams s).pok).take n) ∨
        (p.name ∈ K ∧ p.name ∈ kwNames s.params) := by
    intro hpp'
    obtain ⟨i, hi⟩ := List.getElem?_of_mem hpp'
    rcases a3 i p hi hr with h' | ⟨h1, h2⟩
    · left
      refine mem_names_of_mem_C01 (List.mem_iff_getElem?.2 ⟨i, ?_⟩)
      rw [List.getElem?_take, if_pos h']; exact hi
    · exact Or.inr ⟨h2, kwIn _ (Or.inl (mem_names_of_mem_C01 h1))⟩
  cases hk : p.kind
  case po =>
    apply posCase
    rw [F.pos]; exact List.mem_append_left _ (List.mem_filter.2 ⟨hp, by simpa using hk⟩)
  case pk =>
    apply posCase
    rw [F.pok]; exact List.mem_append_right _ (List.mem_filter.2 ⟨hp, by simpa using hk⟩)
  case ko =>
    right
    have : p ∈ (sortParams s).kwo := by
      rw [F.kwo]; exact List.mem_filter.2 ⟨hp, by simpa using hk⟩
    exact ⟨a4 p this hr, hkw p hp (Or.inr hk)⟩
  all_goals simp [hk] at hnm

theorem RI_sort (s : USig) (hv : validate s.params = .ok ())
    (hk : ∀ p ∈ s.params, p.kind = ρ.κ p.name) (hi : IdxOK ρ 0 (positionals s.params))
    (hin : ∀ p ∈ s.params, IsIn p.name) : RI ρ IsIn (sortParams s) := by
  have F := sortParams_facts s hv
  have hpp := positionals_sort s hv
  refine ⟨F.bk, F.nd, ?_, hpp ▸ hi, ?_, ?_, ?_⟩
  · rintro p (hp | hp | hp)
    · rw [F.pos] at hp; exact hin p (List.mem_filter.1 hp).1
    · rw [F.pok] at hp; exact hin p (List.mem_filter.1 hp).1
    · rw [F.kwo] at hp; exact hin p (List.mem_filter.1 hp).1
  · intro p hp
    rw [F.pos] at hp
    obtain ⟨h1, h2⟩ := List.mem_filter.1 hp
    left; rw [← hk p h1]; simpa using h2
  · intro p hp
    rw [F.pok] at hp
    obtain ⟨h1, h2⟩ := List.mem_filter.1 hp
    rw [← hk p h1]; simpa using h2
  · intro p hp
    rw [F.kwo] at hp
    obtain ⟨h1, h2⟩ := List.mem_filter.1 hp
    left; rw [← hk p h1]; simpa using h2

/-! ### the role assignment induced by `roleCons` -/

theorem kindOf_mem {ps : List Param} (hn : (names ps).Nodup) {p : Param} (hp : p ∈ ps) :
    kindOf ps p.name = some p.kind := by
  unfold kindOf
  cases hf : ps.find? (fun q => decide (q.name = p.name)) with
  | none =>
    have := List.find?_eq_none.1 hf p hp
    simp at this
  | some q =>
    have hq := List.mem_of_find?_eq_some hf
    have hqn : q.name = p.name := by simpa using List.find?_some hf
    have : q = p := eq_of_nodup_names hn hq hp hqn
    simp [this]

theorem idxOf?_of_nodup {l : List Nat} {a i : Nat} (hn : l.Nodup) (h : l[i]? = some a) :
    l.idxOf? a = some i := by
  induction l generalizing i with
  | nil => simp at h
  | cons b t ih =>
    simp only [List.nodup_cons] at hn
    rw [List.idxOf?_cons]
    cases i with
    | zero => simp at h; simp [h]
    | succ i =>
      simp at h
      have hm : a ∈ t := List.mem_of_getElem? h
      have : b ≠ a := fun e => hn.1 (e ▸ hm)
      simp [this, ih hn.2 h]

theorem posIndex_getElem {ps : List Param} (hn : (names ps).Nodup) {p : Param} {i : Nat}
    (h : (positionals ps)[i]? = some p) : posIndex ps p.name = some i := by
  unfold posIndex
  apply idxOf?_of_nodup
  · exact nodup_names_filter hn _
  · unfold names; rw [List.getElem?_map, h]; rfl

theorem exists_roles (inputs : List (List Param)) (hnd : ∀ s ∈ inputs, (names s).Nodup)
    (hrc : roleCons inputs) :
    ∃ ρ : Roles, ∀ s ∈ inputs, (∀ p ∈ s, p.kind = ρ.κ p.name) ∧ IdxOK ρ 0 (positionals s) := by
  let rep : Nat → Option (List Param) := fun x => inputs.find? (fun ps => (allNames ps).contains x)
  refine ⟨⟨fun x => ((rep x).bind (fun ps => kindOf ps x)).getD .po,
    fun x => ((rep x).bind (fun ps => posIndex ps x)).getD 0⟩, ?_⟩
  intro s hs
  have hrep : ∀ p ∈ s, ∃ s0 ∈ inputs, rep p.name = some s0 ∧ p.name ∈ allNames s0 := by
    intro p hp
    have hx : p.name ∈ allNames s := mem_names_of_mem_C01 hp
    cases hf : rep p.name with
    | none =>
      have := List.find?_eq_none.1 hf s hs
      simp [hx] at this
    | some s0 =>
      refine ⟨s0, List.mem_of_find?_eq_some hf, rfl, ?_⟩
      simpa using List.find?_some hf
  refine ⟨?_, ?_⟩
  · intro p hp
    obtain ⟨s0, hs0, hr, hx0⟩ := hrep p hp
    have := (hrc s hs s0 hs0 p.name (mem_names_of_mem_C01 hp) hx0).1
    rw [kindOf_mem (hnd s hs) hp] at this
    simp only [hr, Option.bind_some, ← this, Option.getD_some]
  · apply IdxOK_of_getElem
    intro i p hi
    have hp : p ∈ s := (List.mem_filter.1 (List.mem_of_getElem? hi)).1
    obtain ⟨s0, hs0, hr, hx0⟩ := hrep p hp
    have := (hrc s hs s0 hs0 p.name (mem_names_of_mem_C01 hp) hx0).2
    rw [posIndex_getElem (hnd s hs) hi] at this
    simp only [hr, Option.bind_some, ← this, Option.getD_some, Nat.zero_add]

/-- the core of `merge_sound_roles` -/
theorem merge_sound_roles_core (ss : List USig) (R : USig) (n : Nat) (K : List Nat)
    (hv : ∀ s ∈ ss, validate s.params = .ok ()) (hK : K.Nodup)
    (hrc : roleCons (ss.map (·.params)))
    (hR : merge ss = .ok R)
    (hnc : nonColl R.params (ss.map (·.params)) K)
    (hacc : accepts R.params n K = true) :
    ∀ s ∈ ss, accepts s.params n K = true := by
  obtain ⟨ρ, hρ⟩ := exists_roles (ss.map (·.params))
    (by
      intro ps hps
      obtain ⟨s, hs, rfl⟩ := List.mem_map.1 hps
      exact validate_nodup_C01 (hv s hs)) hrc
  let IsIn : Nat → Prop := fun x => ∃ ps ∈ ss.map (·.params), x ∈ allNames ps
  have hri : ∀ s ∈ ss, RI ρ IsIn (sortParams s) := by
    intro s hs
    have hm : s.params ∈ ss.map (·.params) := List.mem_map.2 ⟨s, hs, rfl⟩
    obtain ⟨h1, h2⟩ := hρ s.params hm
    exact RI_sort s (hv s hs) h1 h2 (fun p hp => ⟨s.params, hm, mem_names_of_mem_C01 hp⟩)
  obtain ⟨s0, ss', res, rfl, hf, hvr, hp⟩ := merge_inv hR
  obtain ⟨hres, hstep⟩ := mergeFold_accB ss' _ res (hri s0 List.mem_cons_self)
    (fun t ht => hri t (List.mem_cons_of_mem _ ht)) hf
  rw [hp] at hacc hnc
  obtain ⟨hB, hG0⟩ := result_accB hres hvr hacc
  have hG : GCond ρ IsIn n K := by
    intro k hk
    rcases hnc k hk with h | h
    · rw [all_kwNames hres.bk, List.mem_append] at h
      exact Or.inr (hG0 k hk h)
    · left
      rintro ⟨ps, hps, hx⟩
      exact h ps hps hx
  obtain ⟨h0, hrest⟩ := hstep n K hB
  intro s hs
  rcases List.mem_cons.1 hs with rfl | hs'
  · exact input_accB _ (hv _ hs) (hri _ hs) hK hG h0
  · exact input_accB s (hv s hs) (hri s hs) hK hG (hrest s hs')

end SV
