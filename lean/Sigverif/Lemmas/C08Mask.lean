/-
  Lemmas/C08Mask.lean — provenance through `mask` (plain mode): the sources map of the result is
  the input's map restricted to the parameters that are left.
-/
import Sigverif.Lemmas.C03Closed
import Sigverif.Lemmas.C08EmbedFold
namespace SV
set_option linter.unusedSimpArgs false
set_option linter.unusedVariables false

/-- `src` is `s0` restricted to the names of the parameters of `S` -/
def SrcFor (s0 : Srcs) (S : Sorted) (src : Srcs) : Prop :=
  ∀ k, dget src k = if k ∈ names S.all then dget s0 k else none

theorem dget_removeFromSrc (d : Srcs) (ns : List Nat) (x : Nat) :
    dget (removeFromSrc d ns) x = if x ∈ ns then none else dget d x := by
  unfold removeFromSrc
  induction ns generalizing d with
  | nil => simp
  | cons n t ih =>
    simp only [List.foldl_cons]
    rw [ih, dget_dpop]
    by_cases h1 : x ∈ t
    · simp [h1]
    · by_cases h2 : x = n
      · simp [h1, h2]
      · simp [h1, h2]

theorem dget_srcVa (va : Option Param) (d : Srcs) (x : Nat) :
    dget (srcVa va d) x = if (∃ a, va = some a ∧ a.name = x) then none else dget d x := by
  cases va with
  | none => simp [srcVa]
  | some a =>
    simp only [srcVa, dget_dpop]
    by_cases h : x = a.name
    · subst h; simp
    · have : ¬ a.name = x := fun e => h e.symm
      simp [h, this]

theorem mem_names_sOf {pos : List Param} {vk : Option Param} {st : KState} {k : Nat} :
    k ∈ names (sOf pos vk st).all ↔
      k ∈ names pos ∨ k ∈ names st.pok ∨ (∃ a, st.va = some a ∧ a.name = k) ∨ k ∈ names st.kwo ∨
        (∃ v, vk = some v ∧ v.name = k) := by
  constructor
  · intro h
    obtain ⟨p, hp, rfl⟩ := mem_names.1 h
    rcases mem_sOf_all.1 hp with h | h | h | h | h
    · exact .inl (mem_names.2 ⟨p, h, rfl⟩)
    · exact .inr (.inl (mem_names.2 ⟨p, h, rfl⟩))
    · exact .inr (.inr (.inl ⟨p, h, rfl⟩))
    · exact .inr (.inr (.inr (.inl (mem_names.2 ⟨p, h, rfl⟩))))
    · exact .inr (.inr (.inr (.inr ⟨p, h, rfl⟩)))
  · intro h
    rcases h with h | h | ⟨a, h, rfl⟩ | h | ⟨v, h, rfl⟩
    · obtain ⟨p, hp, rfl⟩ := mem_names.1 h
      exact mem_names.2 ⟨p, mem_sOf_all.2 (.inl hp), rfl⟩
    · obtain ⟨p, hp, rfl⟩ := mem_names.1 h
      exact mem_names.2 ⟨p, mem_sOf_all.2 (.inr (.inl hp)), rfl⟩
    · exact mem_names.2 ⟨a, mem_sOf_all.2 (.inr (.inr (.inl h))), rfl⟩
    · obtain ⟨p, hp, rfl⟩ := mem_names.1 h
      exact mem_names.2 ⟨p, mem_sOf_all.2 (.inr (.inr (.inr (.inl hp)))), rfl⟩
    · exact mem_names.2 ⟨v, mem_sOf_all.2 (.inr (.inr (.inr (.inr h)))), rfl⟩

/-- pairwise distinctness of the buckets' names, in the form the steps need -/
theorem nodup_sOf {pos : List Param} {vk : Option Param} {st : KState} (h : (names (sOf pos vk st).all).Nodup) :
    (names pos ++ (names st.pok ++ (names st.va.toList ++ (names st.kwo ++ names vk.toList)))).Nodup := by
  simpa [sOf, Sorted.all, names_append, List.append_assoc] using h

theorem srcVa_eq (va : Option Param) (d : Srcs) : srcVa va d = removeFromSrc d (names va.toList) := by
  cases va <;> simp [srcVa, removeFromSrc, names]

theorem names_sOf_all (pos : List Param) (vk : Option Param) (st : KState) :
    names (sOf pos vk st).all =
      names pos ++ (names st.pok ++ (names st.va.toList ++ (names st.kwo ++ names vk.toList))) := by
  simp [sOf, Sorted.all, names_append, List.append_assoc]

/-- removing the keys `R` from a map restricted to `L` gives the map restricted to `L \ R` -/
theorem restrict_step (s0 src : Srcs) (L L' R : List Nat)
    (h : ∀ k, dget src k = if k ∈ L then dget s0 k else none)
    (hL : ∀ k, k ∈ L' ↔ k ∈ L ∧ k ∉ R) :
    ∀ k, dget (removeFromSrc src R) k = if k ∈ L' then dget s0 k else none := by
  intro k
  rw [dget_removeFromSrc, h k]
  by_cases h1 : k ∈ R
  · have : k ∉ L' := fun h' => ((hL k).1 h').2 h1
    simp [h1, this]
  · by_cases h2 : k ∈ L
    · have : k ∈ L' := (hL k).2 ⟨h2, h1⟩
      simp [h1, h2, this]
    · have : k ∉ L' := fun h' => h2 ((hL k).1 h').1
      simp [h1, h2, this]

theorem step_src {s0 : Srcs} {pos : List Param} {vk : Option Param} {st st' : KState} {x : Nat}
    (inv : Inv pos vk st) (hk : StepKind vk st x (.ok st'))
    (hs : SrcFor s0 (sOf pos vk st) st.src) : SrcFor s0 (sOf pos vk st') st'.src := by
  have nd := inv.swf.nd
  unfold SrcFor at hs ⊢
  rw [names_sOf_all] at nd hs ⊢
  cases hk with
  | hitPok before conv bp hc hpok hx =>
    have e : srcVa st.va (dpop st.src x) = removeFromSrc st.src ([x] ++ names st.va.toList) := by
      rw [srcVa_eq, ← removeFromSrc_append]; rfl
    simp only [e]
    apply restrict_step s0 st.src _ _ _ hs
    intro k
    rw [hpok] at nd ⊢
    subst hx
    have hnil : names (none : Option Param).toList = [] := rfl
    simp only [names_append, names_cons, names_map_withKind, List.nodup_append, List.nodup_cons, List.mem_append,
      List.mem_cons, hnil, List.not_mem_nil, List.nil_append, List.mem_singleton] at nd ⊢
    grind
  | hitKwo hc hp hkw =>
    have e : dpop st.src x = removeFromSrc st.src [x] := rfl
    simp only [e]
    apply restrict_step s0 st.src _ _ _ hs
    intro k
    simp only [List.mem_append, mem_names_ppop, List.mem_singleton, List.nodup_append] at nd ⊢
    grind
  | toVk hc hp hkw hv => exact hs

theorem mem_names_drop_iff (l : List Param) (n k : Nat) (hnd : (names l).Nodup) :
    k ∈ names (l.drop n) ↔ k ∈ names l ∧ k ∉ names (l.take n) := by
  have e : names l = names (l.take n) ++ names (l.drop n) := by
    rw [← names_append, List.take_append_drop]
  rw [e] at hnd ⊢
  simp only [List.nodup_append, List.mem_append] at hnd ⊢
  grind

theorem init_src {s : Sorted} (hs : SWF s) (hkeys : ∀ k, k ∉ names s.all → dget s.src k = none)
    {n : Nat} {h : HideFlags} {c : List Nat} {pos pok : List Param}
    (hp : prelude s n h = .ok (c, pos, pok)) :
    SrcFor s.src (sOf pos s.vk (initState s h c pok)) (initState s h c pok).src := by
  have nd := hs.nd
  have h0 : ∀ k, dget s.src k = if k ∈ names s.all then dget s.src k else none := by
    intro k
    by_cases hk : k ∈ names s.all
    · simp [hk]
    · simp [hk, hkeys k hk]
  have eall : names s.all = names (s.pos ++ s.pok) ++ (names s.va.toList ++ (names s.kwo ++ names s.vk.toList)) := by
    simp [Sorted.all, names_append, List.append_assoc]
  rw [eall] at nd h0
  have ndpp : (names (s.pos ++ s.pok)).Nodup := (List.nodup_append.1 nd).1
  unfold SrcFor
  rw [names_sOf_all]
  have hsrc : (initState s h c pok).src =
      removeFromSrc s.src (c ++ ((if h.args || h.varargs then names s.va.toList else []) ++
        (if h.kwargs then names pok ++ names s.kwo else []))) := by
    simp only [initState, srcVa_eq]
    cases h.kwargs <;> cases (h.args || h.varargs) <;> simp [removeFromSrc_append, removeFromSrc]
  rw [hsrc]
  apply restrict_step s.src s.src _ _ _ h0
  intro k
  have hdrop : ∀ m, names (s.pos.drop m) ++ names (s.pok.drop (m - s.pos.length)) = names ((s.pos ++ s.pok).drop m) := by
    intro m; rw [List.drop_append, names_append]
  have hn0 : names ([] : List Param) = [] := rfl
  have hnone : (none : Option Param).toList = [] := rfl
  rcases prelude_ok hp with ⟨ha, rfl, rfl, rfl⟩ | ⟨ha, -, rfl, rfl, rfl⟩
  · simp only [initState, ha, Bool.true_or, if_true, names_append, List.nodup_append, List.mem_append] at nd ⊢
    cases hkw : h.kwargs <;> simp only [hkw, if_true, if_false, Bool.false_eq_true] <;>
      simp only [hn0, hnone, List.not_mem_nil, List.append_nil, List.nil_append,
        List.mem_append, false_or, or_false] <;> grind
  · have hd := mem_names_drop_iff (s.pos ++ s.pok) n k ndpp
    have htake : k ∈ names (List.take n (s.pos ++ s.pok)) → k ∈ names s.pos ∨ k ∈ names s.pok := by
      intro hk
      obtain ⟨p, hp', rfl⟩ := mem_names.1 hk
      have := List.mem_of_mem_take hp'
      rcases List.mem_append.1 this with h' | h'
      · exact .inl (mem_names.2 ⟨p, h', rfl⟩)
      · exact .inr (mem_names.2 ⟨p, h', rfl⟩)
    have hdp1 : k ∈ names (List.drop n s.pos) → k ∈ names s.pos := by
      intro hk; rw [names_drop] at hk; exact List.mem_of_mem_drop hk
    have hdp2 : k ∈ names (List.drop (n - s.pos.length) s.pok) → k ∈ names s.pok := by
      intro hk; rw [names_drop] at hk; exact List.mem_of_mem_drop hk
    rw [← hdrop n, names_append] at hd
    simp only [initState, ha, Bool.false_or, names_append, List.nodup_append, List.mem_append] at nd hd ⊢
    cases hkw : h.kwargs <;> cases hva : h.varargs <;>
      simp only [hkw, hva, if_true, if_false, Bool.false_eq_true] <;>
      simp only [hn0, hnone, List.not_mem_nil, List.append_nil, List.nil_append,
        List.mem_append, false_or, or_false] <;> grind

theorem maskNames_src {s0 : Srcs} {pos : List Param} {vk : Option Param} (xs : List Nat) {st st' : KState}
    (inv : Inv pos vk st) (hs : SrcFor s0 (sOf pos vk st) st.src)
    (h : maskNames vk st (plainNames xs) = .ok st') : SrcFor s0 (sOf pos vk st') st'.src := by
  induction xs generalizing st with
  | nil => simp only [plainNames, List.map_nil, maskNames] at h; cases h; exact hs
  | cons x rest ih =>
    rw [maskNames_cons] at h
    have hk := maskName_kind inv x
    cases hr : maskName vk st x none with
    | error e => rw [hr] at h; cases h
    | ok st1 =>
      rw [hr] at h hk
      exact ih (step_inv inv hk).1 (step_src inv hk hs) h

theorem final_src {s0 : Srcs} {s : Sorted} {pos : List Param} {h : HideFlags} {st : KState}
    (swf : SWF (sOf pos s.vk st)) (hs : SrcFor s0 (sOf pos s.vk st) st.src) :
    SrcFor s0 (sOf pos (finalVk s h) st) (finalSrc s h st) := by
  unfold finalVk finalSrc
  by_cases hh : (h.kwargs || h.varkwargs) = true
  · simp only [hh, if_true]
    have nd := swf.nd
    unfold SrcFor at hs ⊢
    rw [names_sOf_all] at nd hs ⊢
    rw [srcVa_eq]
    apply restrict_step s0 st.src _ _ _ hs
    intro k
    have hnone : names (none : Option Param).toList = [] := rfl
    simp only [hnone, List.mem_append, List.nodup_append, List.not_mem_nil, or_false] at nd ⊢
    grind
  · simp only [hh, if_false, Bool.false_eq_true]
    exact hs

/-- **provenance through `mask`**: the sources map of the result is the input's map restricted to
    the names of the result's parameters; depths are unchanged -/
theorem mask_srcFor {sig R : USig} (hwf : WF sig.params) (hkeys : ∀ k, dhas sig.src k = true → k ∈ names sig.params)
    {n : Nat} {nms : List Nat} {h : HideFlags} (hR : mask sig n nms h = .ok R) :
    (∀ k, dget R.src k = if k ∈ names R.params then dget sig.src k else none) ∧ R.depths = sig.depths := by
  obtain ⟨c, pos, pok, st, hpre, hm, swf1, swf2, rfl⟩ := mask_ok hwf hR
  refine ⟨?_, rfl⟩
  have hs := sortParams_swf hwf
  have hall := sortParams_all hwf
  obtain ⟨_, _, _, _, _, hsrc, _⟩ := sortParams_fields sig hwf
  have hk0 : ∀ k, k ∉ names (sortParams sig).all → dget (sortParams sig).src k = none := by
    intro k hk
    rw [hall] at hk
    rw [hsrc]
    cases hd : dget sig.src k with
    | none => rfl
    | some v => exact absurd (hkeys k (by simp [dhas, hd])) hk
  have i0 := init_src hs hk0 hpre
  have hloop : SrcFor (sortParams sig).src (sOf pos (sortParams sig).vk st) st.src := by
    by_cases hk : h.kwargs = true
    · simp only [hk, if_true, plainNames, List.map_nil, maskNames] at hm
      cases hm
      exact i0
    · have hk' : h.kwargs = false := by simpa using hk
      simp only [hk', Bool.false_eq_true, if_false] at hm
      exact maskNames_src nms (init_inv hs hpre hk') i0 hm
  have hf := final_src (h := h) swf1 hloop
  rw [hsrc] at hf
  exact hf

/-! the map of the result is, structurally, the input's map with some keys popped -/

def Popped (s0 src : Srcs) : Prop := ∃ ns, src = removeFromSrc s0 ns

theorem Popped.more {s0 src : Srcs} (h : Popped s0 src) (ns : List Nat) : Popped s0 (removeFromSrc src ns) := by
  obtain ⟨m, rfl⟩ := h
  exact ⟨m ++ ns, removeFromSrc_append _ _ _⟩

theorem step_popped {s0 : Srcs} {vk : Option Param} {st st' : KState} {x : Nat}
    (hk : StepKind vk st x (.ok st')) (hs : Popped s0 st.src) : Popped s0 st'.src := by
  cases hk with
  | hitPok before conv bp hc hpok hx =>
    have e : srcVa st.va (dpop st.src x) = removeFromSrc st.src ([x] ++ names st.va.toList) := by
      rw [srcVa_eq, ← removeFromSrc_append]; rfl
    simp only [e]
    exact hs.more _
  | hitKwo hc hp hkw => exact hs.more [x]
  | toVk hc hp hkw hv => exact hs

theorem maskNames_popped {s0 : Srcs} {pos : List Param} {vk : Option Param} (xs : List Nat) {st st' : KState}
    (inv : Inv pos vk st) (hs : Popped s0 st.src)
    (h : maskNames vk st (plainNames xs) = .ok st') : Popped s0 st'.src := by
  induction xs generalizing st with
  | nil => simp only [plainNames, List.map_nil, maskNames] at h; cases h; exact hs
  | cons x rest ih =>
    rw [maskNames_cons] at h
    have hk := maskName_kind inv x
    cases hr : maskName vk st x none with
    | error e => rw [hr] at h; cases h
    | ok st1 =>
      rw [hr] at h hk
      exact ih (step_inv inv hk).1 (step_popped hk hs) h

theorem mask_popped {sig R : USig} (hwf : WF sig.params)
    {n : Nat} {nms : List Nat} {h : HideFlags} (hR : mask sig n nms h = .ok R) : Popped sig.src R.src := by
  obtain ⟨c, pos, pok, st, hpre, hm, swf1, swf2, rfl⟩ := mask_ok hwf hR
  have hs := sortParams_swf hwf
  obtain ⟨_, _, _, _, _, hsrc, _⟩ := sortParams_fields sig hwf
  have i0 : Popped (sortParams sig).src (initState (sortParams sig) h c pok).src := by
    simp only [initState, srcVa_eq]
    have b : Popped (sortParams sig).src (sortParams sig).src := ⟨[], rfl⟩
    cases h.kwargs <;> cases (h.args || h.varargs) <;> simp only [if_true, if_false, Bool.false_eq_true] <;>
      first | exact b.more _ | exact (b.more _).more _ | exact ((b.more _).more _).more _ | exact (((b.more _).more _).more _).more _
  have hloop : Popped (sortParams sig).src st.src := by
    by_cases hk : h.kwargs = true
    · simp only [hk, if_true, plainNames, List.map_nil, maskNames] at hm
      cases hm
      exact i0
    · have hk' : h.kwargs = false := by simpa using hk
      simp only [hk', Bool.false_eq_true, if_false] at hm
      exact maskNames_popped nms (init_inv hs hpre hk') i0 hm
  rw [hsrc] at hloop
  show Popped sig.src (finalSrc (sortParams sig) h st)
  unfold finalSrc
  split
  · rw [srcVa_eq]; exact hloop.more _
  · exact hloop

theorem KeysND.removeFromSrc {d : Srcs} (h : KeysND d) (ns : List Nat) : KeysND (removeFromSrc d ns) := by
  unfold SV.removeFromSrc
  induction ns generalizing d with
  | nil => exact h
  | cons n t ih => exact ih (h.dpop n)

end SV
