/-
  Props/C10Merge.lean — property C10 on the RESULT of `merge`, tied to the inputs
  (Props/C10.lean has the rules of one conciliation; here they are attached to what `merge` returns).

  Property text (C10): "A parameter of a combined signature is optional only if every input
  parameter it stands for is optional; its default is their common default value, or None when they
  differ; its annotation is the one all annotated contributors agree on, otherwise none.  A
  parameter's kind only ever changes to the more restrictive form required (positional-or-keyword
  to positional-only or keyword-only), positional parameters keep the relative order they have in
  each input, …"

  kinds
  * `merge_kind_only_restricts`       ANY number of inputs, no hypothesis on roles: every parameter of the
                                      result comes from an input parameter of the same name whose kind
                                      it only restricts                                        (theorem)
  * `merge_kind_restricts_all`        any number of role-consistent inputs: EVERY input parameter bearing
                                      the name of a result parameter is only restricted      (theorem)
    `merge_kind_restricts_all_pair`   … its two-input instance
  order
  * `merge_pos_order`                 any number of role-consistent inputs: positional parameters keep
                                      the relative order they have in each input              (theorem)
    `merge_pos_order_pair`            … its two-input instance (proved independently, on the transition
                                      system of Lemmas/LawsSteps.lean)
  * `merge_pos_order_refuted_without_roles`   the order rule is FALSE without role-consistency (witness)
  metadata (two inputs; star parameters excluded — their names need not match)
  * `merge_meta_pair_refuted`         the by-name metadata rule is FALSE for merely role-consistent
                                      inputs: two differently NAMED positional parameters at the same
                                      positional index are conciled with each other             (witness)
  * `merge_meta_pair_partial`         … and TRUE for name-aligned inputs (`aligned`)           (theorem)
  * `merge_meta_pair_shared`          role-consistent inputs: a result parameter whose name occurs in both
                                      inputs is conciled from exactly those two parameters     (theorem)
  * `merge_optional_only_if_pair`     role-consistent inputs: a result parameter is optional only if
                                      every input parameter of that name is optional           (theorem)
-/
import Sigverif.Props.C10
import Sigverif.Lemmas.C10MRoles
import Sigverif.Lemmas.C10MOrder
import Sigverif.Lemmas.C10MOrderN
import Sigverif.Lemmas.C10MPair
import Sigverif.Lemmas.C01Eval
namespace SV
set_option linter.unusedVariables false  -- `merge_kind_only_restricts` keeps a hypothesis it does not need

/-- the only kind changes the property allows: none, or positional-or-keyword to positional-only /
    keyword-only -/
def restricts (k k' : Kind) : Prop := k' = k ∨ (k = .pk ∧ (k' = .po ∨ k' = .ko))

instance (k k' : Kind) : Decidable (restricts k k') := by unfold restricts; exact inferInstance

/-! ## kinds -/

/-- (1) ANY number of inputs, no hypothesis on roles: every parameter of the result comes from an
    input parameter of the same name whose kind it only restricts.
    (`hwf` is not needed by the proof; it is kept so that the statement reads as the property does.) -/
theorem merge_kind_only_restricts (ss : List USig) (R : USig) (hwf : ∀ s ∈ ss, WF s.params)
    (hR : merge ss = .ok R) :
    ∀ p ∈ R.params, ∃ s ∈ ss, ∃ q ∈ s.params, q.name = p.name ∧ restricts q.kind p.kind := by
  exact merge_kind_only_restricts' ss R hR

/-- (2) any number of role-consistent inputs: EVERY input parameter with the name of a result
    parameter is only restricted -/
theorem merge_kind_restricts_all (ss : List USig) (R : USig) (hwf : ∀ s ∈ ss, WF s.params)
    (hrc : roleCons (ss.map (·.params))) (hR : merge ss = .ok R) :
    ∀ p ∈ R.params, ∀ s ∈ ss, ∀ q ∈ s.params, q.name = p.name → restricts q.kind p.kind := by
  exact merge_kind_restricts_all' ss R hwf hrc hR

/-- (2) for two inputs -/
theorem merge_kind_restricts_all_pair (a b R : USig) (ha : WF a.params) (hb : WF b.params)
    (hrc : roleCons [a.params, b.params]) (hR : merge [a, b] = .ok R) :
    ∀ p ∈ R.params, ∀ s ∈ [a, b], ∀ q ∈ s.params, q.name = p.name → restricts q.kind p.kind := by
  exact merge_kind_restricts_all_pair' a b R ha hb hrc hR

/-! ## order -/

/-- (3) any number of role-consistent inputs: positional parameters keep the relative order they
    have in each input — the positional names of the result that are positional names of the input
    `s` form, in the order of the result, a subsequence of the positional names of `s` -/
theorem merge_pos_order (ss : List USig) (R : USig) (hwf : ∀ s ∈ ss, WF s.params)
    (hrc : roleCons (ss.map (·.params))) (hR : merge ss = .ok R) :
    ∀ s ∈ ss,
      ((names (positionals R.params)).filter (fun x => x ∈ names (positionals s.params))).Sublist
        (names (positionals s.params)) := by
  exact merge_pos_order' ss R hwf hrc hR

/-- (3) for two inputs -/
theorem merge_pos_order_pair (a b R : USig) (ha : WF a.params) (hb : WF b.params)
    (hrc : roleCons [a.params, b.params]) (hR : merge [a, b] = .ok R) :
    ∀ s ∈ [a, b],
      ((names (positionals R.params)).filter (fun x => x ∈ names (positionals s.params))).Sublist
        (names (positionals s.params)) := by
  exact merge_pos_order_pair' a b R ha hb hrc hR

/-- (3) is FALSE without role-consistency: merge((a, b, /), (b, a)) = (a, b, /), and `a, b` is not
    a subsequence of `b, a` -/
theorem merge_pos_order_refuted_without_roles :
    ∃ a b R : USig, WF a.params ∧ WF b.params ∧ merge [a, b] = .ok R ∧
      ¬ ∀ s ∈ [a, b],
        ((names (positionals R.params)).filter (fun x => x ∈ names (positionals s.params))).Sublist
          (names (positionals s.params)) := by
  have h : ∃ R, merge [{ params := [{ name := 1, kind := .po }, { name := 2, kind := .po }] },
                       { params := [{ name := 2, kind := .pk }, { name := 1, kind := .pk }] }] = .ok R ∧
      R.params = [{ name := 1, kind := .po }, { name := 2, kind := .po }] := by merge_eval
  obtain ⟨R, hR, hp⟩ := h
  refine ⟨_, _, R, by decide, by decide, hR, ?_⟩
  intro hall
  have := hall _ (List.mem_cons_of_mem _ List.mem_cons_self)
  rw [hp] at this
  revert this
  decide

/-! ## metadata (two inputs) -/

/-- the metadata rule of C10 for a parameter `p` of the combination of `a` and `b`, BY NAME:
    `p` is conciled (`concile`, see Props/C10.lean: optional iff both are, common default or None,
    agreed annotation or none) from the two parameters of its name when both inputs have one, and
    carries the metadata of the only one otherwise -/
def metaRule (a b : List Param) (p : Param) : Prop :=
  match a.find? (fun q => q.name = p.name), b.find? (fun q => q.name = p.name) with
  | some qa, some qb =>
      p.dflt = (concile qa qb).dflt ∧ p.ann = (concile qa qb).ann ∧ p.uann = (concile qa qb).uann
  | some qa, none => p.dflt = qa.dflt ∧ p.ann = qa.ann ∧ p.uann = qa.uann
  | none, some qb => p.dflt = qb.dflt ∧ p.ann = qb.ann ∧ p.uann = qb.uann
  | none, none => False

/-- (4) as first stated — for role-consistent inputs — is FALSE: merge((a=1, /), (b=2)) = (a=None, /).
    `a` and `b` share no name (so the inputs are role-consistent) but sit at the same positional
    index, and `_merge` conciles them; the result `a` has the default None although the only
    input parameter called `a` has the default 1.
    ORIGINAL STATEMENT:
    theorem merge_meta_pair (a b R : USig) (ha : WF a.params) (hb : WF b.params)
        (hrc : roleCons [a.params, b.params]) (hR : merge [a, b] = .ok R) :
        ∀ p ∈ R.params, p.kind ≠ .vp → p.kind ≠ .vk → metaRule a.params b.params p -/
theorem merge_meta_pair_refuted :
    ∃ a b R : USig, WF a.params ∧ WF b.params ∧ roleCons [a.params, b.params] ∧ merge [a, b] = .ok R ∧
      ¬ ∀ p ∈ R.params, p.kind ≠ .vp → p.kind ≠ .vk → metaRule a.params b.params p := by
  have h : ∃ R, merge [{ params := [{ name := 1, kind := .po, dflt := some 1 }] },
                       { params := [{ name := 2, kind := .pk, dflt := some 2 }] }] = .ok R ∧
      R.params = [{ name := 1, kind := .po, dflt := some 0 }] := by merge_eval
  obtain ⟨R, hR, hp⟩ := h
  refine ⟨_, _, R, by decide, by decide, by unfold roleCons; decide, hR, ?_⟩
  intro hall
  have := hall { name := 1, kind := .po, dflt := some 0 } (by rw [hp]; decide) (by decide) (by decide)
  simp [metaRule] at this

/-- (4) two NAME-ALIGNED inputs: the metadata rules, stated on the result of `merge`, by name.
    ADDED HYPOTHESIS `hal : aligned [a.params, b.params]` instead of `roleCons [a.params, b.params]`
    (`aligned` = role-consistent + the positional parameters have the same names position by
    position): see `merge_meta_pair_refuted`.  Star parameters are excluded. -/
theorem merge_meta_pair_partial (a b R : USig) (ha : WF a.params) (hb : WF b.params)
    (hal : aligned [a.params, b.params]) (hR : merge [a, b] = .ok R) :
    ∀ p ∈ R.params, p.kind ≠ .vp → p.kind ≠ .vk → metaRule a.params b.params p := by
  exact merge_meta_pair_aligned' a b R ha hb hal hR

/-- (4) what remains true for merely role-consistent inputs, I: a result parameter whose name occurs
    in BOTH inputs is conciled from exactly these two parameters -/
theorem merge_meta_pair_shared (a b R : USig) (ha : WF a.params) (hb : WF b.params)
    (hrc : roleCons [a.params, b.params]) (hR : merge [a, b] = .ok R) :
    ∀ p ∈ R.params, p.kind ≠ .vp → p.kind ≠ .vk → ∀ qa qb,
      a.params.find? (fun q => q.name = p.name) = some qa →
      b.params.find? (fun q => q.name = p.name) = some qb →
      p.dflt = (concile qa qb).dflt ∧ p.ann = (concile qa qb).ann ∧ p.uann = (concile qa qb).uann := by
  exact merge_meta_pair_shared' a b R ha hb hrc hR

/-- (4) what remains true for merely role-consistent inputs, II (the first sentence of C10): a result
    parameter is optional only if every input parameter of that name is optional -/
theorem merge_optional_only_if_pair (a b R : USig) (ha : WF a.params) (hb : WF b.params)
    (hrc : roleCons [a.params, b.params]) (hR : merge [a, b] = .ok R) :
    ∀ p ∈ R.params, p.kind ≠ .vp → p.kind ≠ .vk → p.dflt.isSome = true →
      ∀ s ∈ [a, b], ∀ q ∈ s.params, q.name = p.name → q.dflt.isSome = true := by
  exact merge_optional_only_if_pair' a b R ha hb hrc hR

/-! ## non-vacuity -/

/-- (x: 3, y=1) -/
def c10A : USig := { params := [{ name := 1, kind := .pk, ann := some 3, uann := .pre 3 },
                                { name := 2, kind := .pk, dflt := some 1 }] }
/-- (x: 4, **kw) -/
def c10B : USig := { params := [{ name := 1, kind := .pk, ann := some 4, uann := .pre 4 },
                                { name := 9, kind := .vk }] }
/-- (x=5, y=1) -/
def c10C : USig := { params := [{ name := 1, kind := .pk, dflt := some 5 },
                                { name := 2, kind := .pk, dflt := some 1 }] }
/-- (x=6, *args) -/
def c10D : USig := { params := [{ name := 1, kind := .pk, dflt := some 6 },
                                { name := 8, kind := .vp }] }

/-- merge((x: 3, y=1), (x: 4, **kw)) = (x, *, y=1): `y` goes from positional-or-keyword to
    keyword-only, the differing annotations of `x` give none -/
theorem c10AB : ∃ R, merge [c10A, c10B] = .ok R ∧
    R.params = [{ name := 1, kind := .pk }, { name := 2, kind := .ko, dflt := some 1 }] := by
  simp only [c10A, c10B]; merge_eval

/-- merge((x=5, y=1), (x=6, *args)) = (x=None, y=1, /): `x`, `y` go from positional-or-keyword to
    positional-only, the differing defaults of `x` give None (token 0) -/
theorem c10CD : ∃ R, merge [c10C, c10D] = .ok R ∧
    R.params = [{ name := 1, kind := .po, dflt := some 0 }, { name := 2, kind := .po, dflt := some 1 }] := by
  simp only [c10C, c10D]; merge_eval

-- the hypotheses of every theorem above are met by both pairs …
example : WF c10A.params ∧ WF c10B.params ∧ WF c10C.params ∧ WF c10D.params := by decide
example : aligned [c10A.params, c10B.params] := by unfold aligned roleCons; decide
example : aligned [c10C.params, c10D.params] := by unfold aligned roleCons; decide
example : roleCons ([c10A, c10B].map (·.params)) := by unfold roleCons; decide
example : roleCons ([c10C, c10D].map (·.params)) := by unfold roleCons; decide

-- three inputs for the n-ary theorems: merge(C, D, C) = (x=None, y=1, /)
example : roleCons ([c10C, c10D, c10C].map (·.params)) := by unfold roleCons; decide
example : ∃ R, merge [c10C, c10D, c10C] = .ok R ∧
    R.params = [{ name := 1, kind := .po, dflt := some 0 }, { name := 2, kind := .po, dflt := some 1 }] := by
  simp only [c10C, c10D]; merge_eval

-- … and the conclusions say something: pk → ko (A, B), pk → po (C, D), and `restricts` forbids
-- e.g. keyword-only → positional-or-keyword
example : restricts .pk .ko ∧ restricts .pk .po ∧ restricts .ko .ko ∧ ¬ restricts .ko .pk ∧
    ¬ restricts .po .pk ∧ ¬ restricts .pk .vp := by decide
example : ∃ R, merge [c10A, c10B] = .ok R ∧ ∃ p ∈ R.params, ∃ q ∈ c10A.params,
    q.name = p.name ∧ q.kind = .pk ∧ p.kind = .ko := by
  obtain ⟨R, hR, hp⟩ := c10AB
  exact ⟨R, hR, by rw [hp]; decide⟩
example : ∃ R, merge [c10C, c10D] = .ok R ∧ ∃ p ∈ R.params, ∃ q ∈ c10C.params,
    q.name = p.name ∧ q.kind = .pk ∧ p.kind = .po := by
  obtain ⟨R, hR, hp⟩ := c10CD
  exact ⟨R, hR, by rw [hp]; decide⟩
-- order: the result of (C, D) has the positional names x, y — those of C in C's order
example : ∃ R, merge [c10C, c10D] = .ok R ∧ names (positionals R.params) = [1, 2] ∧
    names (positionals c10C.params) = [1, 2] ∧ names (positionals c10D.params) = [1] := by
  obtain ⟨R, hR, hp⟩ := c10CD
  exact ⟨R, hR, by rw [hp]; decide⟩
-- metadata: differing annotations → none (A, B); differing defaults → None (C, D); `y` occurs in
-- one input only and keeps its default; all instances of `metaRule` are of the non-trivial kinds
example : ∃ R, merge [c10A, c10B] = .ok R ∧
    (∃ p ∈ R.params, p.name = 1 ∧ p.ann = none ∧ p.uann = .empty ∧
      c10A.params.find? (fun q => q.name = p.name) =
        some { name := 1, kind := .pk, ann := some 3, uann := .pre 3 } ∧
      c10B.params.find? (fun q => q.name = p.name) =
        some { name := 1, kind := .pk, ann := some 4, uann := .pre 4 }) ∧
    (∃ p ∈ R.params, p.name = 2 ∧ p.dflt = some 1 ∧
      c10B.params.find? (fun q => q.name = p.name) = none) := by
  obtain ⟨R, hR, hp⟩ := c10AB
  exact ⟨R, hR, by rw [hp]; decide⟩
example : ∃ R, merge [c10C, c10D] = .ok R ∧
    ∃ p ∈ R.params, p.name = 1 ∧ p.dflt = some 0 ∧ p.kind ≠ .vp ∧ p.kind ≠ .vk ∧
      c10C.params.find? (fun q => q.name = p.name) = some { name := 1, kind := .pk, dflt := some 5 } ∧
      c10D.params.find? (fun q => q.name = p.name) = some { name := 1, kind := .pk, dflt := some 6 } := by
  obtain ⟨R, hR, hp⟩ := c10CD
  exact ⟨R, hR, by rw [hp]; decide⟩
-- `merge_optional_only_if_pair`: the optional `y` of the result of (C, D)
example : ∃ R, merge [c10C, c10D] = .ok R ∧ ∃ p ∈ R.params, p.dflt.isSome = true ∧
    ∃ q ∈ c10C.params, q.name = p.name := by
  obtain ⟨R, hR, hp⟩ := c10CD
  exact ⟨R, hR, by rw [hp]; decide⟩

end SV
