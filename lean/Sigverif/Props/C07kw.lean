/-
  Props/C07kw.lean — C07, narrowing for calls with keywords.

  `discovered_narrows` : when no forwarding call goes through `functools.partial`, the forwarded
  signatures use parameter names in consistent roles (what `merge` requires; finding D23 is the
  counterexample on the real code when they do not) and the call is non-colliding at every level,
  a call accepted by the discovered signature is accepted by the function's own `def`.
-/
import Sigverif.Props.C07
import Sigverif.Lemmas.LawsEval
namespace SV

/-- what a non-`partial` forwarding call record declares narrows the own signature, for every
    non-colliding call -/
theorem declared_narrows (own : USig) (resolve : RM → RVal) (c : CallRec) (s w : USig) (m : Nat) (K : List Nat)
    (ho : WF own.params) (hw : resolve c.wrapped = .fn w) (hwf : WF w.params) (hK : K.Nodup)
    (hd : declared own resolve c = .ok s)
    (hnc : nonColl s.params [own.params, w.params] K)
    (hacc : accepts s.params m K = true) : accepts own.params m K = true := by
  unfold declared at hd
  rw [hw] at hd
  simp only at hd
  split at hd
  · cases hd
  · split at hd
    · rename_i s' hf
      simp only [Except.ok.injEq] at hd
      subst hd
      exact forwards_narrows own w s' _ m _ K _ _ _ _ ho hwf hK hf hnc hacc
    · cases hd

/-- **discovery only narrows**, calls with keywords -/
theorem discovered_narrows (own R : USig) (resolve : RM → RVal) (cs : List CallRec) (ss : List USig) (m : Nat) (K : List Nat)
    (ho : WF own.params) (hres : ∀ r w, resolve r = .fn w → WF w.params) (hK : K.Nodup)
    (hall : declaredAll own resolve (forwarding cs) = .ok ss)
    (hnp : ∀ c ∈ forwarding cs, ∃ w, resolve c.wrapped = .fn w)
    (hrc : roleCons (ss.map (·.params)))
    (hnc1 : nonColl R.params (ss.map (·.params)) K)
    (hnc2 : ∀ c ∈ forwarding cs, ∀ s w, declared own resolve c = .ok s → resolve c.wrapped = .fn w →
              nonColl s.params [own.params, w.params] K)
    (hd : discovered own resolve (some cs) = .ok R) (hacc : accepts R.params m K = true) :
    accepts own.params m K = true := by
  rw [discovered_eq_declared, hall] at hd
  cases ss with
  | nil => simp only [Except.ok.injEq] at hd; subst hd; exact hacc
  | cons s ss =>
    simp only at hd
    cases hm : merge (s :: ss) with
    | error e => rw [hm] at hd; simp only [Except.ok.injEq] at hd; subst hd; exact hacc
    | ok R' =>
      rw [hm] at hd
      simp only [Except.ok.injEq] at hd
      subst hd
      have hmem := declaredAll_mem own resolve _ _ hall
      have hwf : ∀ t ∈ s :: ss, WF t.params := by
        intro t ht
        obtain ⟨c, _, hc⟩ := hmem t ht
        exact declared_wf own resolve c t hres hc
      have hs := merge_sound_roles (s :: ss) R' m K hwf hK hrc hm hnc1 hacc s (by simp)
      obtain ⟨c, hcm, hc⟩ := hmem s (by simp)
      obtain ⟨w, hw⟩ := hnp c hcm
      exact declared_narrows own resolve c s w m K ho hw (hres _ _ hw) hK hc (hnc2 c hcm s w hc hw) hs

/-! ### non-vacuity: `def w(a, *args, **kwargs): return g(*args, **kwargs)` with `def g(x, y=1)` -/

def ownK : USig := { params := [⟨1, .pk, none, none, .empty⟩, ⟨11, .vp, none, none, .empty⟩, ⟨12, .vk, none, none, .empty⟩],
                             src := [(1, [1]), (11, [1]), (12, [1])], depths := [(1, 0)] }
def calleeK : USig := { params := [⟨2, .pk, none, none, .empty⟩, ⟨3, .pk, some 1, none, .empty⟩],
                                src := [(2, [2]), (3, [2])], depths := [(2, 0)] }
def resolveK : RM → RVal
  | .nm 21 => .fn calleeK
  | _ => .unresolvable
def recK : CallRec := { wrapped := .nm 21, args := [], kwargs := [], varargs := some (.arg 11 (some .va)),
                                varkwargs := some (.arg 12 (some .vk)), useVa := true, useVk := true,
                                hideA := false, hideK := false }

/-- the forwarding call is declared, and declares `(a, x, y=1)` -/
example : (match declaredAll ownK resolveK (forwarding [recK]) with
           | .ok l => l.map (fun s => s.params.map (fun p => (p.name, p.kind)))
           | .error _ => []) = [[(1, .pk), (2, .pk), (3, .pk)]] := by
  simp only [forwarding, recK, List.filter, Bool.or_self, declaredAll, declared, resolveK, ownK, calleeK, calleeRetrievable,
    bind, Except.bind, pure, Except.pure, List.length_nil, List.map_nil]
  sv_eval
  simp [hasVa, hasVk]

end SV
