/-
  Props/C10.lean — property C10 (defaults, annotations, kinds of combined parameters).

  One-step rules of `_concile_meta` (theorems), their n-ary lift for defaults (theorem),
  the n-ary annotation rule REFUTED on the code as it stands (finding D14) with the
  `_partial` theorem that states what remains true.
-/
import Sigverif.Props.Defs
namespace SV

/-- a combined parameter is optional only if (in fact: iff) both contributors are -/
theorem concile_optional (l r : Param) :
    (concile l r).dflt.isSome = (l.dflt.isSome && r.dflt.isSome) := by
  unfold concile
  cases l.dflt <;> cases r.dflt <;> simp
  split <;> simp

/-- its default is the common default, or None (token 0) when they differ -/
theorem concile_default (l r : Param) (a b : Nat) (hl : l.dflt = some a) (hr : r.dflt = some b) :
    (concile l r).dflt = some (if a = b then a else 0) := by
  unfold concile
  simp [hl, hr]
  split <;> simp_all

/-- annotation: the one both annotated contributors agree on; the only one; otherwise none -/
theorem concile_annotation (l r : Param) :
    (concile l r).ann =
      match l.ann, r.ann with
      | some a, some b => if a = b then some a else none
      | some a, none => some a
      | none, some b => some b
      | none, none => none := by
  unfold concile
  cases l.ann <;> cases r.ann <;> simp
  split <;> simp

/-- the upgraded annotation travels with the raw one (the left one when both agree) -/
theorem concile_uann (l r : Param) :
    (concile l r).uann =
      match l.ann, r.ann with
      | some a, some b => if a = b then l.uann else .empty
      | some _, none => l.uann
      | none, some _ => r.uann
      | none, none => .empty := by
  unfold concile
  cases l.ann <;> cases r.ann <;> simp
  split <;> simp

/-- name and kind are the left contributor's -/
theorem concile_name_kind (l r : Param) : (concile l r).name = l.name ∧ (concile l r).kind = l.kind := by
  unfold concile; simp

/-! ### n-ary lift for defaults: folding `concile` over any number of contributors -/

def concileAll (p : Param) (qs : List Param) : Param := qs.foldl concile p

/-- optional iff every contributor is optional — for any number of contributors -/
theorem merged_optional_iff_all (p : Param) (qs : List Param) :
    (concileAll p qs).dflt.isSome = (p.dflt.isSome && qs.all (fun q => q.dflt.isSome)) := by
  induction qs generalizing p with
  | nil => simp [concileAll]
  | cons q qs ih =>
    simp only [concileAll, List.foldl_cons] at *
    rw [ih, concile_optional]
    simp [Bool.and_assoc]

/-- the default is the common value when all contributors agree on `v` -/
theorem merged_default_common (p : Param) (qs : List Param) (v : Nat)
    (hp : p.dflt = some v) (hq : ∀ q ∈ qs, q.dflt = some v) :
    (concileAll p qs).dflt = some v := by
  induction qs generalizing p with
  | nil => simpa [concileAll]
  | cons q qs ih =>
    simp only [concileAll, List.foldl_cons]
    apply ih
    · rw [concile_default p q v v hp (hq q (by simp))]; simp
    · intro q' hq'; exact hq q' (by simp [hq'])

/-- … and None (token 0) as soon as two of them differ, whatever comes later
    (all contributors being optional) -/
theorem merged_default_none_of_differ (p q : Param) (qs : List Param) (a b : Nat)
    (hp : p.dflt = some a) (hq : q.dflt = some b) (hab : a ≠ b)
    (hall : ∀ x ∈ qs, x.dflt.isSome) :
    (concileAll p (q :: qs)).dflt = some 0 := by
  have h0 : (concile p q).dflt = some 0 := by
    rw [concile_default p q a b hp hq]; simp [hab]
  simp only [concileAll, List.foldl_cons]
  generalize concile p q = c at h0
  induction qs generalizing c with
  | nil => simpa
  | cons x xs ih =>
    simp only [List.foldl_cons]
    apply ih
    · intro y hy; exact hall y (by simp [hy])
    · obtain ⟨d, hd⟩ := Option.isSome_iff_exists.mp (hall x (by simp))
      rw [concile_default c x 0 d h0 hd]; split <;> simp_all

/-! ### annotations, n-ary: REFUTED as stated (known finding D14) -/

/-- the property's rule for annotations, n-ary -/
def annRule (anns : List (Option Nat)) : Option Nat :=
  match anns.filterMap id with
  | [] => none
  | a :: rest => if rest.all (· = a) then some a else none

/-- D14 witness: contributors annotated 2, 4, 4 — the rule says "none", the fold says 4 -/
theorem concile_annotation_nary_refuted :
    ∃ p q r : Param, (concileAll p [q, r]).ann ≠ annRule [p.ann, q.ann, r.ann] :=
  ⟨{ name := 1, kind := .pk, ann := some 2, uann := .pre 2 },
   { name := 1, kind := .pk, ann := some 4, uann := .pre 4 },
   { name := 1, kind := .pk, ann := some 4, uann := .pre 4 }, by decide⟩

/-- what remains true for any number of contributors: when the annotated ones all agree on `a`
    (or none is annotated), the result carries exactly that -/
theorem merged_annotation_partial (p : Param) (qs : List Param) (a : Nat)
    (hp : p.ann = none ∨ p.ann = some a) (hq : ∀ q ∈ qs, q.ann = none ∨ q.ann = some a) :
    (concileAll p qs).ann = none ∨ (concileAll p qs).ann = some a := by
  induction qs generalizing p with
  | nil => simpa [concileAll]
  | cons q qs ih =>
    simp only [concileAll, List.foldl_cons]
    apply ih
    · rw [concile_annotation]
      rcases hp with hp | hp <;> rcases hq q (by simp) with h | h <;> simp [hp, h]
    · intro q' hq'; exact hq q' (by simp [hq'])

/-- … and it is annotated as soon as one contributor is (under the same agreement) -/
theorem merged_annotation_partial_some (p : Param) (qs : List Param) (a : Nat)
    (hp : p.ann = none ∨ p.ann = some a) (hq : ∀ q ∈ qs, q.ann = none ∨ q.ann = some a)
    (hex : p.ann = some a ∨ ∃ q ∈ qs, q.ann = some a) :
    (concileAll p qs).ann = some a := by
  induction qs generalizing p with
  | nil => rcases hex with h | ⟨q, hq', _⟩ <;> simp_all [concileAll]
  | cons q qs ih =>
    simp only [concileAll, List.foldl_cons]
    have hq0 := hq q (by simp)
    apply ih
    · rw [concile_annotation]
      rcases hp with hp | hp <;> rcases hq0 with h | h <;> simp [hp, h]
    · intro q' hq'; exact hq q' (by simp [hq'])
    · rw [concile_annotation]
      rcases hex with h | ⟨x, hx, hxa⟩
      · left; rcases hq0 with h' | h' <;> simp [h, h']
      · rcases List.mem_cons.mp hx with rfl | hx'
        · left; rcases hp with h' | h' <;> simp [hxa, h']
        · right; exact ⟨x, hx', hxa⟩

/-! non-vacuity -/
example : (concileAll { name := 1, kind := .pk, dflt := some 1 }
    [{ name := 1, kind := .pk, dflt := some 2 }, { name := 1, kind := .pk, dflt := some 1 }]).dflt = some 0 := by decide

end SV
