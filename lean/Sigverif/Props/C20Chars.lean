/-
  Props/C20Chars.lean — C20, the string layer at the level of characters: `sig_str.split(',')` and
  `re_paramname.match(part).groups()` (Model/ReadSigText.lean — the regular expression as the backtracking search Python's
  `re` performs; tied to `re` itself by stream `resplit` on every text up to length 5/6 over a 7-letter alphabet).

  ONLY property theorems + non-vacuity examples; helper lemmas in Sigverif/Lemmas/C20Chars.lean.
-/
import Sigverif.Lemmas.C20Chars
namespace SV

/-- **On every well-formed text** — any number of parts; each part: any white space, an argument token, optionally `:` and an
    annotation token, optionally `=` and a default token; tokens non-empty and free of `,` `:` `=` and white space —
    splitting at the commas and matching the regular expression gives back, part by part, exactly the three tokens.  (This
    is where finding D41 lives: a default whose text contains `, ` is not such a token.) -/
theorem read_sig_text_parts (parts : List Part) (hne : parts ≠ []) (h : ∀ p ∈ parts, p.Simple) :
    splitParams (joinComma (parts.map Part.text)) = parts.map (fun p => some (p.arg, p.ann, p.dflt)) :=
  splitParams_simple parts hne h

/-- one part: the three groups of `re_paramname` -/
theorem re_paramname_groups (ws arg : List Char) (a d : Option (List Char)) (hws : ∀ c ∈ ws, isWs c = true)
    (harg : SimpleTok arg) (ha : ∀ t ∈ a, SimpleTok t) (hd : ∀ t ∈ d, SimpleTok t) :
    matchParam (ws ++ arg ++ annText a ++ dfltText d) = some (arg, a, d) :=
  matchParam_simple ws arg a d hws harg ha hd

/-- `split(',')` undoes `','.join` on comma-free parts -/
theorem split_join (parts : List (List Char)) (hne : parts ≠ []) (h : ∀ p ∈ parts, ∀ c ∈ p, c ≠ ',') :
    splitComma (joinComma parts) = parts :=
  splitComma_join parts hne h

/-! non-vacuity: `a, *args:int=3` -/
example : splitParams "a, *args:int=3".toList =
    [some ("a".toList, none, none), some ("*args".toList, some "int".toList, some "3".toList)] := by decide
example : (⟨" ".toList, "*args".toList, some "int".toList, some "3".toList⟩ : Part).Simple := by
  refine ⟨by decide, ⟨by decide, by decide⟩, ?_, ?_⟩
  · intro t ht; cases ht; exact ⟨by decide, by decide⟩
  · intro t ht; cases ht; exact ⟨by decide, by decide⟩
/-- outside the hypothesis (finding D41): a default containing a comma is split in two, and the second half does not match -/
example : splitParams "a=(1,2)".toList = [some ("a".toList, none, some "(1".toList), some ("2)".toList, none, none)] := by decide
example : matchParam "a=".toList = none := by decide

end SV
