/-
  Props/C20Chars.lean — C20, the string layer at the level of characters: `sig_str.split(',')` and
  `re_paramname.match(part).groups()` (Model/ReadSigText.lean — the regular expression as the backtracking search Python's
  `re` performs; tied to `re` itself by stream `resplit` on every text up to length 5/6 over a 7-letter alphabet).

  ONLY property theorems + non-vacuity examples; helper lemmas in Sigverif/Lemmas/C20Chars.lean.
-/
import Sigverif.Lemmas.C20Chars
import Sigverif.Lemmas.C20Bridge
namespace SV

/-- **On every well-formed text** — any number of parts; each part: any white space, an argument token, optionally `:` and an
    annotation token, optionally `=` and a default token; tokens non-empty and free of `,` `:` `=` and white space —
    splitting at the commas and matching the regular expression gives back, part by part, exactly the three tokens.  (This
    is where finding D41 lives: a default whose text contains `, ` is not such a token.) -/
theorem read_sig_text_parts (parts : List Part) (hne : parts ≠ []) (h : ∀ p ∈ parts, p.Simple) :
    splitParams (joinComma (parts.map Part.text)) = parts.map (fun p => some (p.arg, p.ann, p.dflt)) :=
  splitParams_simple parts hne h

/-- one part: the three groups of `re_paramname` -/
theorem re_paramname_groups (ws arg : List Char) (a d : Option (List Char)) (hws : ∀ c ∈ ws, isWs c = true)
    (harg : SimpleTok arg) (ha : ∀ t ∈ a, SimpleTok t) (hd : ∀ t ∈ d, SimpleTok t) :
    matchParam (ws ++ arg ++ annText a ++ dfltText d) = some (arg, a, d) :=
  matchParam_simple ws arg a d hws harg ha hd

/-- `split(',')` undoes `','.join` on comma-free parts -/
theorem split_join (parts : List (List Char)) (hne : parts ≠ []) (h : ∀ p ∈ parts, ∀ c ∈ p, c ≠ ',') :
    splitComma (joinComma parts) = parts :=
  splitComma_join parts hne h

/-- **`read_sig` from the text is `read_sig` on the pieces**: for every well-formed text whose parts denote pieces (`f`), any
    option combination, any injective-or-not encoding of the tokens -/
theorem read_sig_text (enc : List Char → Nat) (ua upo ukw : Bool) (parts : List Part) (f : Part → Piece)
    (hne : parts ≠ []) (hs : ∀ p ∈ parts, p.Simple)
    (hp : ∀ p ∈ parts, toPiece enc (p.arg, p.ann, p.dflt) = some (f p)) :
    readSigText enc ua upo ukw (joinComma (parts.map Part.text)) = some (readSig ua upo ukw (parts.map f)) :=
  readSigText_parts enc ua upo ukw parts f hne hs hp

/-- what an argument token denotes: a name, `*name`, `**name`, `*`, `/` -/
theorem arg_token_denotes (enc : List Char → Nat) (name : List Char) (a d : Option (List Char))
    (h0 : name ≠ []) (h1 : name.head? ≠ some '*') (h2 : name.head? ≠ some '<') (h3 : name ≠ ['/']) :
    toPiece enc (name, a, d) = some (.plain (enc name) (a.map enc) (d.map enc)) ∧
    toPiece enc ('*' :: name, a, d) = some (.star false (enc name) (a.map enc) (d.map enc)) ∧
    toPiece enc ('*' :: '*' :: name, a, d) = some (.star true (enc name) (a.map enc) (d.map enc)) ∧
    toPiece enc (['*'], none, none) = some .bare ∧ toPiece enc (['/'], none, none) = some .slash :=
  ⟨toPiece_plain enc name a d h1 h2 h3, (toPiece_star enc name a d h0 h1).1, (toPiece_star enc name a d h0 h1).2,
   (toPiece_marks enc).1, (toPiece_marks enc).2⟩

/-! non-vacuity: `a, *args:int=3` -/
example : splitParams "a, *args:int=3".toList =
    [some ("a".toList, none, none), some ("*args".toList, some "int".toList, some "3".toList)] := by decide
example : (⟨" ".toList, "*args".toList, some "int".toList, some "3".toList⟩ : Part).Simple := by
  refine ⟨by decide, ⟨by decide, by decide⟩, ?_, ?_⟩
  · intro t ht; cases ht; exact ⟨by decide, by decide⟩
  · intro t ht; cases ht; exact ⟨by decide, by decide⟩
/-- outside the hypothesis (finding D41): a default containing a comma is split in two, and the second half does not match -/
example : splitParams "a=(1,2)".toList = [some ("a".toList, none, some "(1".toList), some ("2)".toList, none, none)] := by decide
example : matchParam "a=".toList = none := by decide
example : (readSigText encText false false true "a, *, b=3".toList).map (·.kwo) = some [encText "b".toList] := by decide

end SV
