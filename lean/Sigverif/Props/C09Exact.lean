/-
  Props/C09Exact.lean — property C09, first sentence, the "accepts exactly" half:
  ONLY property theorems + non-vacuity examples.

  C09: "When the inputs give the same name to their positional parameters position by position and
  shared names keep their role, merge accepts exactly the non-colliding calls that all inputs
  accept, and raises IncompatibleSignatures exactly when no such call exists."

  `aligned` (Props/Defs.lean) is the hypothesis on the inputs, `nonColl` the restriction on the
  calls.  Soundness (result accepts → every input accepts) is `merge_sound_roles` (Props/C01.lean);
  this file proves COMPLETENESS (every input accepts → result accepts) and combines the two.
  All statements are at full strength (no added hypothesis), for any number of inputs.

  How the proof goes (Lemmas/C09XInv.lean, C09XStep.lean, C09XFold.lean):
  * `CJ9` is an invariant of the merger state through phases P and Q on name-aligned operands:
    every required parameter held by the state carries the name of a required parameter of an
    operand; every positional-or-keyword parameter of the state is positional-or-keyword in an
    operand; lower bounds on the number of positional parameters kept (`≥ min`, and `≥` the length
    of one operand when the other has `*args`); the two iterators advance in lockstep, so paired
    parameters sit at the same positional index and — by alignment — have the same name (the
    name-mismatch branch of phase Q is never taken).
  * THE INVARIANT OF THE FOLD is `accW9 ρ IsIn M n K` (Lemmas/C09XFold.lean), for the call shape
    `(n, K)`, an intermediate record `M`, the global role assignment `ρ` (kind `ρ.κ x` and
    positional index `ρ.ι x` of every name `x`, which exists by `roleCons`) and `IsIn x` = "x is a
    parameter name of some input":
      (1) `n ≤ |M.pos| + |M.pok|` or `M` has `*args`;
      (2) for every keyword `k ∈ K` that is foreign to all inputs, `M` has `**kwargs`;
      (3) every required positional parameter of `M` at index `i` has `i < n` or its name in `K`;
      (4) every required keyword-only parameter of `M` has its name in `K`;
      (5) every keyword `k ∈ K` that names a positional-or-keyword parameter of `M` has `n ≤ ρ.ι k`;
    together with the role invariant `RI ρ IsIn M` of the soundness proof (Lemmas/C01Roles.lean).
    It relates the accumulator (whose kinds have changed, pk → po / ko) to the remaining inputs
    through `ρ` only: `RI` pins every positional parameter of the accumulator to the index `ρ.ι` of
    its name, which by `aligned` is the index of the same name in every input (`AL9_of_RI`).
    `accW9` deliberately does NOT say how a required positional parameter named by a keyword is
    bound and says nothing about non-foreign keywords: `nonColl` speaks about the FINAL result
    only, and is used exactly once, on the final record (`accB_of_accW9`).
    The invariant is exposed below as `mergeFold_accW`.
-/
import Sigverif.Props.Defs
import Sigverif.Props.C01
import Sigverif.Lemmas.C09XFold
namespace SV

/-- completeness for any number of inputs: a non-colliding call that every input accepts is
    accepted by the result -/
theorem merge_complete_aligned (ss : List USig) (R : USig) (n : Nat) (K : List Nat)
    (hwf : ∀ s ∈ ss, WF s.params) (hK : K.Nodup) (hal : aligned (ss.map (·.params)))
    (hR : merge ss = .ok R) (hnc : nonColl R.params (ss.map (·.params)) K)
    (hacc : ∀ s ∈ ss, accepts s.params n K = true) : accepts R.params n K = true :=
  merge_complete_core ss R n K hwf hK hal hR hnc hacc

/-- exactness for any number of inputs: on name-aligned inputs the result accepts exactly the
    non-colliding calls that all inputs accept -/
theorem merge_exact_aligned (ss : List USig) (R : USig) (n : Nat) (K : List Nat)
    (hwf : ∀ s ∈ ss, WF s.params) (hK : K.Nodup) (hal : aligned (ss.map (·.params)))
    (hR : merge ss = .ok R) (hnc : nonColl R.params (ss.map (·.params)) K) :
    accepts R.params n K = true ↔ ∀ s ∈ ss, accepts s.params n K = true :=
  ⟨merge_sound_roles ss R n K hwf hK hal.1 hR hnc,
   merge_complete_core ss R n K hwf hK hal hR hnc⟩

/-- completeness for two inputs -/
theorem merge_complete_aligned_pair (a b R : USig) (n : Nat) (K : List Nat)
    (ha : WF a.params) (hb : WF b.params) (hK : K.Nodup)
    (hal : aligned [a.params, b.params])
    (hR : merge [a, b] = .ok R)
    (hnc : nonColl R.params [a.params, b.params] K)
    (hacc : accepts a.params n K = true ∧ accepts b.params n K = true) :
    accepts R.params n K = true :=
  merge_complete_core [a, b] R n K
    (by intro s hs; simp only [List.mem_cons, List.not_mem_nil, or_false] at hs
        rcases hs with rfl | rfl <;> assumption)
    hK hal hR hnc
    (by intro s hs; simp only [List.mem_cons, List.not_mem_nil, or_false] at hs
        rcases hs with rfl | rfl
        · exact hacc.1
        · exact hacc.2)

/-- exactness for two inputs (combine with merge_sound_roles) -/
theorem merge_exact_aligned_pair (a b R : USig) (n : Nat) (K : List Nat)
    (ha : WF a.params) (hb : WF b.params) (hK : K.Nodup)
    (hal : aligned [a.params, b.params])
    (hR : merge [a, b] = .ok R)
    (hnc : nonColl R.params [a.params, b.params] K) :
    accepts R.params n K = true ↔ (accepts a.params n K = true ∧ accepts b.params n K = true) := by
  have hwf : ∀ s ∈ [a, b], WF s.params := by
    intro s hs; simp only [List.mem_cons, List.not_mem_nil, or_false] at hs
    rcases hs with rfl | rfl <;> assumption
  constructor
  · intro h
    have := merge_sound_roles [a, b] R n K hwf hK hal.1 hR hnc h
    exact ⟨this a (by simp), this b (by simp)⟩
  · exact merge_complete_aligned_pair a b R n K ha hb hK hal hR hnc

/-- THE INVARIANT OF THE FOLD (see the header): `accW9` — together with the role invariant `RI` —
    holds of the accumulator after every step of the fold, given that it holds of the first
    accumulator and of every remaining input, and that every record satisfying `RI` is name-aligned
    (`AL9`: same positional index, same name) with every remaining input.  No `nonColl` here. -/
theorem mergeFold_accW {ρ : Roles} {IsIn : Nat → Prop} (ss : List USig) (acc res : Sorted)
    (hacc : RI ρ IsIn acc) (hss : ∀ s ∈ ss, RI ρ IsIn (sortParams s))
    (hAL : ∀ acc', RI ρ IsIn acc' → ∀ s ∈ ss, AL9 acc' (sortParams s))
    (h : mergeFold acc ss = .ok res) {n : Nat} {K : List Nat}
    (w0 : accW9 ρ IsIn acc n K) (ws : ∀ s ∈ ss, accW9 ρ IsIn (sortParams s) n K) :
    RI ρ IsIn res ∧ accW9 ρ IsIn res n K :=
  mergeFold_complete ss acc res hacc hss hAL h w0 ws

/-! non-vacuity -/

/-- `(p, /, q, *args, k=7, **kw)` -/
def x9a : USig := { params := [⟨1, .po, none, none, .empty⟩, ⟨2, .pk, none, none, .empty⟩,
  ⟨11, .vp, none, none, .empty⟩, ⟨5, .ko, some 7, none, .empty⟩, ⟨12, .vk, none, none, .empty⟩] }
/-- `(p, /, q=4, r=4, *, k)` -/
def x9b : USig := { params := [⟨1, .po, none, none, .empty⟩, ⟨2, .pk, some 4, none, .empty⟩,
  ⟨3, .pk, some 4, none, .empty⟩, ⟨5, .ko, none, none, .empty⟩] }
/-- `(p, /, q, *args, **kw)` -/
def x9c : USig := { params := [⟨1, .po, none, none, .empty⟩, ⟨2, .pk, none, none, .empty⟩,
  ⟨11, .vp, none, none, .empty⟩, ⟨12, .vk, none, none, .empty⟩] }

example : ∀ s ∈ [x9a, x9b, x9c], WF s.params := by decide

/-- the three signatures (hence also the first two) are name-aligned -/
theorem x9_aligned3 : aligned ([x9a, x9b, x9c].map (·.params)) := by
  refine ⟨?_, ?_⟩
  · have h : ∀ s ∈ [x9a, x9b, x9c].map (·.params), ∀ t ∈ [x9a, x9b, x9c].map (·.params),
        ∀ x ∈ allNames s, x ∈ allNames t → kindOf s x = kindOf t x ∧ posIndex s x = posIndex t x := by
      decide
    exact fun s hs t ht x hx hy => h s hs t ht x hx hy
  · have h : ∀ s ∈ [x9a, x9b, x9c].map (·.params), ∀ t ∈ [x9a, x9b, x9c].map (·.params),
        ∀ i ∈ List.range (positionals s).length, i < (positionals t).length →
          ((positionals s).map (·.name))[i]? = ((positionals t).map (·.name))[i]? := by
      decide
    exact fun s hs t ht i h1 h2 => h s hs t ht i (List.mem_range.2 h1) h2

theorem x9_aligned2 : aligned [x9a.params, x9b.params] := by
  obtain ⟨h1, h2⟩ := x9_aligned3
  have sub : ∀ s ∈ [x9a.params, x9b.params], s ∈ [x9a, x9b, x9c].map (·.params) := by
    intro s hs; simp only [List.mem_cons, List.not_mem_nil, or_false] at hs
    rcases hs with rfl | rfl <;> simp
  exact ⟨fun s hs t ht => h1 s (sub s hs) t (sub t ht), fun s hs t ht => h2 s (sub s hs) t (sub t ht)⟩

/-- the merge of the pair is `(p, /, q, r=4, *, k)`; the mixed call `(2, [r, k])` is non-colliding,
    accepted by both inputs (`r` goes to `**kw` of the first) and by the result -/
example : ∃ R, merge [x9a, x9b] = .ok R ∧ [3, 5].Nodup ∧
    nonColl R.params [x9a.params, x9b.params] [3, 5] ∧
    accepts x9a.params 2 [3, 5] = true ∧ accepts x9b.params 2 [3, 5] = true ∧
    accepts R.params 2 [3, 5] = true := by
  simp only [x9a, x9b]; merge_eval; unfold nonColl; decide

/-- … `(1, [q, k])` too (a positional and keywords naming a pk and a kwo parameter) -/
example : ∃ R, merge [x9a, x9b] = .ok R ∧
    nonColl R.params [x9a.params, x9b.params] [2, 5] ∧
    accepts x9a.params 1 [2, 5] = true ∧ accepts x9b.params 1 [2, 5] = true ∧
    accepts R.params 1 [2, 5] = true := by
  simp only [x9a, x9b]; merge_eval; unfold nonColl; decide

/-- calls rejected by one input and by the result: four positionals (the second input has three
    positional parameters and no `*args`), and `(1, [k])` (the first input requires `q`) -/
example : ∃ R, merge [x9a, x9b] = .ok R ∧
    nonColl R.params [x9a.params, x9b.params] [5] ∧
    accepts x9a.params 4 [5] = true ∧ accepts x9b.params 4 [5] = false ∧
    accepts R.params 4 [5] = false ∧
    accepts x9a.params 1 [5] = false ∧ accepts x9b.params 1 [5] = true ∧
    accepts R.params 1 [5] = false := by
  simp only [x9a, x9b]; merge_eval; unfold nonColl; decide

/-- three inputs: same result, the call `(2, [r, k, z])` with the foreign keyword `z` is
    non-colliding and rejected (the second input has no `**kwargs`), `(2, [r, k])` is accepted -/
example : ∃ R, merge [x9a, x9b, x9c] = .ok R ∧
    nonColl R.params ([x9a, x9b, x9c].map (·.params)) [3, 5, 9] ∧
    nonColl R.params ([x9a, x9b, x9c].map (·.params)) [3, 5] ∧
    (∀ s ∈ [x9a, x9b, x9c], accepts s.params 2 [3, 5] = true) ∧
    accepts R.params 2 [3, 5] = true ∧
    accepts x9b.params 2 [3, 5, 9] = false ∧ accepts R.params 2 [3, 5, 9] = false := by
  simp only [x9a, x9b, x9c]; merge_eval; unfold nonColl; decide

end SV
