/-
  Props/C05.lean — properties C05 / C06: on the un-nested part of the forwarding grammar the AST
  walker reports exactly the ground truth.

  `visitor_eq_truth_flat`: for every program whose body consists of forwarding calls (in any
  statement context: expression, assignment, `if`/`try`/`with` blocks nested to any depth),
  taints of either star (rebinding, mutation through a method, deletion, handing the object to
  other code), decoy calls and unrelated assignments — any number of statements, any nesting of
  blocks — the forwarding records of `CallListerVisitor` are, in order, the ground-truth calls:
  same callee marker, same written positionals and keywords, and `use_varargs` / `use_varkwargs`
  set exactly when the star is still pristine when the call executes (`hide_*` exactly when it is
  passed but no longer pristine).  In particular a star is reported as forwarded ONLY when it is
  pristine (`taint_sound_flat`).

  Not covered by the theorem (validated on every run by the streams `programs` / `progexec`):
  nested function definitions and lambdas (deferred calls) and `nonlocal` — where finding D19 lives.
-/
import Sigverif.Lemmas.C05FlatSim
namespace SV
open Flat

/-- a visitor state with a single namespace and explicit `has*` flags (the state before
    `process_parameters` has finished) -/
def mkG (names : List (Nat × Entry)) (imm : List Nat) (a b : Bool) : VState :=
  { nss := [{ parent := none, names := names, nonlocals := [], imm := imm }], cur := 0, calls := [],
    revisit := [], hasVa := a, hasVk := b }

theorem assign_mkG (n : List (Nat × Entry)) (i : List Nat) (a b : Bool) (x : Nat) (e : Entry) :
    (mkG n i a b).assign x e = mkG (dset n x e) (i.filter (· ≠ x)) a b := by
  simp [VState.assign, mkG, VState.ns, VState.setNs, dget]

theorem setImm_mkG (n : List (Nat × Entry)) (i : List Nat) (a b : Bool) (x : Nat) :
    (mkG n i a b).setImm x = mkG n (if i.contains x then i else x :: i) a b := by
  simp [VState.setImm, mkG, VState.ns, VState.setNs, dget]

/-- the namespace entries `process_parameters` creates for the ordinary parameters -/
def paramEntries (ps : List Nat) (n : List (Nat × Entry)) : List (Nat × Entry) :=
  ps.foldl (fun n x => dset n x { m := .arg x none }) n

theorem foldl_assign_mkG (ps : List Nat) (n : List (Nat × Entry)) (i : List Nat) (a b : Bool) :
    ps.foldl (fun st x => st.assign x { m := .arg x none }) (mkG n i a b) =
      mkG (paramEntries ps n) (ps.foldl (fun i x => i.filter (· ≠ x)) i) a b := by
  induction ps generalizing n i with
  | nil => rfl
  | cons x t ih =>
    simp only [List.foldl_cons, assign_mkG, paramEntries]
    exact ih _ _

theorem filter_nil_fold (ps : List Nat) : ps.foldl (fun (i : List Nat) x => i.filter (· ≠ x)) [] = [] := by
  induction ps with
  | nil => rfl
  | cons x t ih => simpa using ih

theorem dget_paramEntries (ps : List Nat) (n : List (Nat × Entry)) (x : Nat) :
    dget (paramEntries ps n) x = if x ∈ ps then some { m := .arg x none } else dget n x := by
  unfold paramEntries
  induction ps generalizing n with
  | nil => simp
  | cons y t ih =>
    simp only [List.foldl_cons]
    rw [ih]
    by_cases hx : x ∈ t
    · simp [hx]
    · simp only [hx, if_false, List.mem_cons, or_false]
      rw [dget_dset]
      by_cases hxy : x = y
      · subst hxy; simp
      · simp [hxy]

/-- the state the main pass starts from -/
theorem processParams_main (p : Prog) :
    processParams { nss := [{ parent := none }] } [] p.params [] (some p.va) (some p.vk) true =
      Flat.mk [] [] (dset (dset (paramEntries p.params []) p.va { m := .arg p.va (some .va) }) p.vk { m := .arg p.vk (some .vk) })
        (([p.va] : List Nat).filter (· ≠ p.vk)) [] := by
  have h0 : ({ nss := [{ parent := none }] } : VState) = mkG [] [] false false := rfl
  unfold processParams
  simp only [List.nil_append, List.append_nil, if_true]
  rw [h0, foldl_assign_mkG, filter_nil_fold]
  simp only [assign_mkG, setImm_mkG]
  simp [mkG, Flat.mk]

mutual
  theorem nestedS_flat : (s : Stmt) → flatS s = true → ∀ t, nestedS s t = []
    | .block body, h, t => by simp only [nestedS]; exact nestedSL_flat body (by simpa [flatS] using h) t
    | .nested _, h, _ => by simp [flatS] at h
    | .fwd _ _ _ _ _ _, _, _ => rfl
    | .rebind _, _, _ => rfl
    | .mutate _ _, _, _ => rfl
    | .delete _, _, _ => rfl
    | .handOver _ _, _, _ => rfl
    | .decoy _ _, _, _ => rfl
    | .unrelated _, _, _ => rfl
    | .nonlocalRebind _, _, _ => rfl
  theorem nestedSL_flat : (l : StmtList) → flatSL l = true → ∀ t, nestedSL l t = []
    | .nil, _, _ => rfl
    | .cons s rest, h, t => by
      simp only [flatSL, Bool.and_eq_true] at h
      simp only [nestedSL, nestedS_flat s h.1 t, nestedSL_flat rest h.2 t, List.append_nil]
end

/-- the static hypotheses of the theorem, all decidable from the program text -/
structure FlatProg (p : Prog) : Prop where
  flat : flatSL p.body = true
  ok : okSL [p.va, p.vk] p.body = true
  clean : Clean p (rootsSL p.body) (assignedSL p.body)

theorem initial_inv (p : Prog) (h : FlatProg p) :
    FInv p (rootsSL p.body) false false
      (dset (dset (paramEntries p.params []) p.va { m := .arg p.va (some .va) }) p.vk { m := .arg p.vk (some .vk) })
      (([p.va] : List Nat).filter (· ≠ p.vk)) := by
  have c := h.clean
  have hne := c.ne
  refine ⟨?_, (by intro ht; cases ht), ?_, (by intro ht; cases ht), ?_, ?_, ?_, ?_⟩
  · intro _
    refine ⟨?_, by simp [hne]⟩
    rw [dget_dset]; simp only [hne, if_false]
    rw [dget_dset]; simp
  · intro _; rw [dget_dset]; simp
  · intro x hx
    have x1 : x ≠ p.va := fun e => c.vaPar (e ▸ hx)
    have x2 : x ≠ p.vk := fun e => c.vkPar (e ▸ hx)
    refine ⟨{ m := .arg x none }, ?_, rfl⟩
    rw [dget_dset]; simp only [x2, if_false]
    rw [dget_dset]; simp only [x1, if_false]
    rw [dget_paramEntries]; simp [hx]
  · intro r hr hrp
    have r1 : r ≠ p.va := fun e => c.vaRoot (e ▸ hr)
    have r2 : r ≠ p.vk := fun e => c.vkRoot (e ▸ hr)
    rw [dget_dset]; simp only [r2, if_false]
    rw [dget_dset]; simp only [r1, if_false]
    rw [dget_paramEntries]; simp [hrp, dget]
  · intro x e hx v a
    rw [dget_dset] at hx
    split at hx
    · cases hx; intro hh; cases hh
    · rw [dget_dset] at hx
      split at hx
      · cases hx; intro hh; cases hh
      · rw [dget_paramEntries] at hx
        split at hx
        · cases hx; intro hh; cases hh
        · simp [dget] at hx
  · intro x hx
    simp only [List.contains_iff_mem, List.mem_filter, List.mem_singleton] at hx
    exact hx.1

/-- **visitor = ground truth** on flat programs of the forwarding grammar -/
theorem visitor_eq_truth_flat (p : Prog) (h : FlatProg p) :
    (runVisitor (render p)).map forwarding = .ok ((truth p).map (FwdCall.toRec p)) := by
  obtain ⟨n', i', recs, e, _, hf⟩ := simSL (kids := []) (rev := []) p _ _ h.clean p.body h.flat h.ok (fun x hx => hx) (fun r hr => hr)
    false false _ _ [] (initial_inv p h)
  simp only [render, runVisitor, processParams_main, e, List.nil_append]
  have hloop : revisitLoop ((renderSL p.va p.vk p.body).size + 1) 0 (Flat.mk [] [] n' i' recs) = some (Flat.mk [] [] n' i' recs) := by
    simp [revisitLoop, Flat.mk]
  simp only [hloop, Except.map]
  have hc : (Flat.mk [] [] n' i' recs).calls = recs := rfl
  rw [hc, hf]
  simp only [truth]
  rw [nestedSL_flat p.body h.flat]
  simp

/-- in particular: a star is reported as forwarded only when the ground truth says it is
    pristine at that call -/
theorem taint_sound_flat (p : Prog) (h : FlatProg p) (cs : List CallRec) (hr : runVisitor (render p) = .ok cs) :
    ∀ c ∈ forwarding cs, ∃ f ∈ truth p, c = f.toRec p ∧ c.useVa = f.useVa ∧ c.useVk = f.useVk := by
  have := visitor_eq_truth_flat p h
  rw [hr] at this
  simp only [Except.map, Except.ok.injEq] at this
  intro c hc
  rw [this] at hc
  obtain ⟨f, hf, rfl⟩ := List.mem_map.1 hc
  exact ⟨f, hf, rfl, rfl, rfl⟩

end SV

namespace SV
open Flat

/-! ### non-vacuity: a program satisfying `FlatProg`, and what the theorem says about it

```
def wrapper(a, *args, **kwargs):
    g(*args, **kwargs)                      # both stars pristine
    kwargs = 0                              # taints **kwargs
    r = ns.g(1, *args, x=0, **kwargs)       # *args still pristine, **kwargs hidden
    if c:
        args.count()                        # taints *args
        g(*args, **kwargs)                  # forwards nothing pristine: ignored
``` -/
def exProg : Prog :=
  { params := [1], va := 11, vk := 12,
    body := .cons (.fwd (.name 21 .load) 0 [] true true none)
           (.cons (.rebind .K)
           (.cons (.fwd (.attr (.name 22 .load) 3) 1 [5] true true (some 31))
           (.cons (.block (.cons (.mutate .A 7) (.cons (.fwd (.name 21 .load) 0 [] true true none) .nil)))
            .nil))) }

example : FlatProg exProg :=
  ⟨by decide, by decide, ⟨by decide, by decide, by decide, by decide, by decide, by decide⟩⟩

example : (truth exProg).map (fun f => (f.useVa, f.useVk, f.hideA, f.hideK)) =
    [(true, true, false, false), (true, false, false, true)] := by decide

end SV
