/-
  Props/C03.lean — property C03 (mask): ONLY the property theorems and their non-vacuity
  examples.  Helper lemmas live in Sigverif/Lemmas/*.lean.

  C03: mask(sig, n, *names) accepts a non-colliding call exactly when sig accepts that call with n
  extra leading positional arguments and the given names added as keywords, and raises ValueError
  exactly when sig could not be passed those arguments at all.  The result does not depend on the
  order in which the names are listed; mask(sig, 0) is sig and mask(mask(sig, n), m) equals
  mask(sig, n + m).  The hide_* flags only ever remove parameters, and every call the result
  accepts is accepted by sig for some choice of the hidden arguments.
-/
import Sigverif.Lemmas.C03Hide
namespace SV

/-- exactness, flags all off -/
theorem mask_exact (sig R : USig) (n m : Nat) (nms K : List Nat)
    (hwf : WF sig.params) (hn : nms.Nodup) (hK : K.Nodup)
    (hpo : ∀ p ∈ sig.params, p.kind = .po → p.name ∉ nms)
    (hdisj : ∀ k ∈ K, k ∉ nms)
    (hR : mask sig n nms {} = .ok R)
    (hnc : nonColl R.params [sig.params] K) :
    accepts R.params m K = accepts sig.params (n + m) (nms ++ K) := by
  have _ := hpo
  obtain ⟨c, pos, pok, st, hp, hm, hs1, hs2, rfl⟩ := mask_ok hwf hR
  have hs := sortParams_swf hwf
  have hall := sortParams_all hwf
  generalize sortParams sig = s at *
  have hfin : finalVk s {} = s.vk := rfl
  simp only [hfin] at *
  have inv0 := init_inv hs hp rfl
  rcases prelude_ok hp with ⟨ha, _⟩ | ⟨-, hcount, rfl, rfl, rfl⟩
  · cases ha
  have hnd : (nms ++ K).Nodup :=
    List.nodup_append.2 ⟨hn, hK, fun a ha b hb e => hdisj b hb (e ▸ ha)⟩
  simp only [Bool.false_eq_true, if_false] at hm
  have hc := maskNames_ok_consumed nms hm
  have spec := maskNames_spec nms inv0 m K hnd hc
  rw [hm] at spec
  obtain ⟨-, hacc, hsub⟩ := spec
  rw [← hall]
  apply accepts_eq_of_iff hs1.bk hs.bk hK hnd
  rw [hacc]
  have pop := step_pop (kwo := s.kwo) (va := s.va) (vk := s.vk) n m (nms ++ K) hs.nodup_pp
    hs.kwo_disj hcount
  have hKc : ∀ k ∈ nms ++ K, k ∉ names ((s.pos ++ s.pok).take n) := by
    intro k hk
    rcases List.mem_append.1 hk with hk | hk
    · exact hc k hk
    · intro hcon
      obtain ⟨d1, d2⟩ := take_drop_disj hs n k hcon
      rcases hnc k hk with h | h
      · rw [kwNames_all hs1.bk, List.mem_append] at h
        have := (hsub k h).1
        simp only [initState, Bool.false_eq_true, if_false] at this
        rcases this with h | h
        · exact d1 h
        · exact d2 h
      · apply h sig.params (by simp)
        rw [← hall]
        unfold allNames
        rw [names_take] at hcon
        have := List.mem_of_mem_take hcon
        simp only [Sorted.all, names_append, List.mem_append] at this ⊢
        rcases this with h | h
        · exact Or.inl (Or.inl (Or.inl (Or.inl h)))
        · exact Or.inl (Or.inl (Or.inl (Or.inr h)))
  exact ⟨pop.1 hKc, pop.2⟩

/-- every error of mask (any flags, any input) is ValueError -/
theorem mask_err (sig : USig) (n : Nat) (nms : List Nat) (h : HideFlags) (e : Err)
    (he : mask sig n nms h = .error e) : e = .valueError := by
  rw [mask_eq] at he
  cases hp : prelude (sortParams sig) n h with
  | error e' =>
    rw [hp] at he; cases he
    exact (prelude_err hp).1
  | ok t =>
    obtain ⟨c, pos, pok⟩ := t
    rw [hp] at he
    simp only at he
    cases hm : maskNames (sortParams sig).vk (initState (sortParams sig) h c pok)
        (plainNames (if h.kwargs then [] else nms)) with
    | error e' =>
      rw [hm] at he; cases he
      exact maskNames_err _ _ _ _ hm
    | ok st =>
      rw [hm] at he
      simp only [applyParams, bind, Except.bind] at he
      split at he
      · rename_i e' hv
        cases he
        exact validate_err _ _ hv
      · cases he

/-- mask raises exactly when sig could not be passed those arguments at all -/
theorem mask_raises_iff (sig : USig) (n : Nat) (nms : List Nat)
    (hwf : WF sig.params) (hn : nms.Nodup)
    (hpo : ∀ p ∈ sig.params, p.kind = .po → p.name ∉ nms) :
    (∃ e, mask sig n nms {} = .error e) ↔
      ¬ ∃ m K, K.Nodup ∧ (∀ k ∈ K, k ∉ nms) ∧ accepts sig.params (n + m) (nms ++ K) = true := by
  have hs := sortParams_swf hwf
  have hall := sortParams_all hwf
  have hph := mask_phases hwf n nms {}
  generalize sortParams sig = s at *
  have hfin : finalVk s {} = s.vk := rfl
  constructor
  · rintro ⟨e, he⟩ ⟨m, K, hK, hdisj, hacc⟩
    have hnd : (nms ++ K).Nodup :=
      List.nodup_append.2 ⟨hn, hK, fun a ha b hb e => hdisj b hb (e ▸ ha)⟩
    rw [← hall, accepts_iff hs.bk _ hnd] at hacc
    rw [hph] at he
    cases hp : prelude s n {} with
    | error e' =>
      obtain ⟨-, -, h1, h2⟩ := prelude_err hp
      rcases hacc.1 with h | h
      · simp only [List.length_append] at h; omega
      · rw [h2] at h; cases h
    | ok t =>
      obtain ⟨c, pos, pok⟩ := t
      rw [hp] at he
      simp only [Bool.false_eq_true, if_false] at he
      have inv0 := init_inv hs hp rfl
      rcases prelude_ok hp with ⟨ha, _⟩ | ⟨-, hcount, rfl, rfl, rfl⟩
      · cases ha
      have hc : ∀ x ∈ nms, x ∉ names ((s.pos ++ s.pok).take n) := by
        intro x hx hcon
        have hsub : x ∈ names ((s.pos ++ s.pok).take (n + m)) := by
          rw [List.take_add]; simp [hcon]
        rw [List.take_append, names_append, List.mem_append] at hcon
        rcases hcon with h | h
        · rw [names_take] at h
          obtain ⟨p, hp', rfl⟩ := mem_names.1 (List.mem_of_mem_take h)
          refine hpo p ?_ (hs.bk.pos p hp') hx
          rw [← hall]; simp [Sorted.all, hp']
        · rw [names_take] at h
          have hpk := List.mem_of_mem_take h
          exact (hacc.2.1 x (by simp [hx])).1 (Or.inl hpk) hsub
      have spec := maskNames_spec nms inv0 m K hnd hc
      have pop := step_pop (kwo := s.kwo) (va := s.va) (vk := s.vk) n m (nms ++ K) hs.nodup_pp
        hs.kwo_disj hcount
      cases hm : maskNames s.vk (initState s {} (names ((s.pos ++ s.pok).take n))
          (s.pok.drop (n - s.pos.length))) (plainNames nms) with
      | error e' =>
        rw [hm] at spec
        exact spec.2 (pop.2 hacc)
      | ok st =>
        rw [hm] at he
        cases he
  · intro hno
    cases hR : mask sig n nms {} with
    | error e => exact ⟨e, rfl⟩
    | ok R =>
      exfalso; apply hno
      rw [hph] at hR
      cases hp : prelude s n {} with
      | error e' => rw [hp] at hR; cases hR
      | ok t =>
        obtain ⟨c, pos, pok⟩ := t
        rw [hp] at hR
        simp only [Bool.false_eq_true, if_false] at hR
        have inv0 := init_inv hs hp rfl
        rcases prelude_ok hp with ⟨ha, _⟩ | ⟨-, hcount, rfl, rfl, rfl⟩
        · cases ha
        cases hm : maskNames s.vk (initState s {} (names ((s.pos ++ s.pok).take n))
            (s.pok.drop (n - s.pos.length))) (plainNames nms) with
        | error e' => rw [hm] at hR; cases hR
        | ok st =>
          have hc := maskNames_ok_consumed nms hm
          have hs1 := (maskNames_inv nms inv0 hm).swf
          -- the witness call
          have spec0 := maskNames_spec nms inv0 0 [] (by simpa using hn) hc
          rw [hm] at spec0
          obtain ⟨-, -, hsub⟩ := spec0
          have hKd : ∀ k ∈ names st.kwo, k ∉ nms := fun k hk => (hsub k (Or.inr hk)).2
          have hKnd : (names st.kwo).Nodup := hs1.parts.2.2.1
          have hnd : (nms ++ names st.kwo).Nodup :=
            List.nodup_append.2 ⟨hn, hKnd, fun a ha b hb e => hKd b hb (e ▸ ha)⟩
          refine ⟨(s.pos.drop n ++ st.pok).length, names st.kwo, hKnd, hKd, ?_⟩
          have spec := maskNames_spec nms inv0 (s.pos.drop n ++ st.pok).length (names st.kwo) hnd hc
          rw [hm] at spec
          obtain ⟨-, hacc, -⟩ := spec
          have pop := step_pop (kwo := s.kwo) (va := s.va) (vk := s.vk) n
            (s.pos.drop n ++ st.pok).length (nms ++ names st.kwo) hs.nodup_pp hs.kwo_disj hcount
          rw [← hall, accepts_iff hs.bk _ hnd]
          apply pop.1
          · intro k hk
            rcases List.mem_append.1 hk with hk | hk
            · exact hc k hk
            · intro hcon
              obtain ⟨d1, d2⟩ := take_drop_disj hs n k hcon
              have := (hsub k (Or.inr hk)).1
              simp only [initState, Bool.false_eq_true, if_false] at this
              rcases this with h | h
              · exact d1 h
              · exact d2 h
          · exact hacc.1 (accP_full hs1)

/-- the result is well-formed again -/
theorem mask_wf (sig R : USig) (n : Nat) (nms : List Nat) (h : HideFlags)
    (hwf : WF sig.params) (hR : mask sig n nms h = .ok R) : WF R.params := by
  obtain ⟨c, pos, pok, st, -, -, -, hs, rfl⟩ := mask_ok hwf hR
  exact hs.wf

/-- independence of the order of the names (up to the order of keyword-only parameters, which
    `inspect.Signature.__eq__` ignores); provenance and depths are equal outright -/
theorem mask_perm (sig : USig) (n : Nat) (nms nms' : List Nat) (h : HideFlags)
    (hwf : WF sig.params) (hn : nms.Nodup) (hp : nms.Perm nms') :
    match mask sig n nms h, mask sig n nms' h with
    | .ok R, .ok R' => SigEquiv R R' ∧ R.src = R'.src ∧ R.depths = R'.depths
    | .error _, .error _ => True
    | _, _ => False := by
  have hs := sortParams_swf hwf
  rw [mask_phases hwf, mask_phases hwf]
  generalize sortParams sig = s at *
  cases hpre : prelude s n h with
  | error e => trivial
  | ok t =>
    obtain ⟨c, pos, pok⟩ := t
    simp only
    by_cases hk : h.kwargs = true
    · simp only [hk, if_true]
      cases maskNames s.vk (initState s h c pok) (plainNames []) with
      | error e => trivial
      | ok st => exact ⟨SigEquiv.refl _, by simp⟩
    · have hk' : h.kwargs = false := by simpa using hk
      simp only [hk', Bool.false_eq_true, if_false]
      have inv0 := init_inv hs hpre hk'
      have key := maskNames_perm inv0 nms nms' hn hp
      cases hr1 : maskNames s.vk (initState s h c pok) (plainNames nms) with
      | error e1 =>
        cases hr2 : maskNames s.vk (initState s h c pok) (plainNames nms') with
        | error e2 => trivial
        | ok b => rw [hr1, hr2] at key; exact key
      | ok a =>
        cases hr2 : maskNames s.vk (initState s h c pok) (plainNames nms') with
        | error e2 => rw [hr1, hr2] at key; exact key
        | ok b =>
          rw [hr1, hr2] at key
          simp only at key ⊢
          obtain ⟨k1, k2, k3, k4⟩ := key
          have sa := final_swf (maskNames_inv nms inv0 hr1).swf _ (finalVk_cases s h)
          have sb := final_swf (maskNames_inv nms' inv0 hr2).swf _ (finalVk_cases s h)
          refine ⟨sigEquiv_of_states sa.bk sb.bk k1 k2 k3 _ _ _ _ _ _, ?_⟩
          simp only [finalSrc, k4, and_self]

theorem mask_zero (sig : USig) (hwf : WF sig.params) : mask sig 0 [] {} = .ok sig := by
  rw [mask_phases hwf, prelude_eq]
  simp only [Bool.false_eq_true, if_false, Nat.not_lt_zero, false_and, List.take_zero, names_nil,
    List.drop_zero, Nat.zero_sub, plainNames, List.map_nil, maskNames]
  have ha := sortParams_all hwf
  have hs := (sortParams_src sig).1
  simp only [sOf, initState, finalVk, finalSrc, removeFromSrc, List.foldl_nil, Bool.or_self,
    Bool.false_eq_true, if_false, hs]
  cases sig
  simp only [Sorted.all] at ha
  simp_all [Sorted.all]

theorem mask_add (sig : USig) (n m : Nat) (hwf : WF sig.params) :
    (mask sig n [] {} >>= fun r => mask r m [] {}) = mask sig (n + m) [] {} := by
  rw [mask_nil hwf, mask_nil hwf]
  have hs := sortParams_swf hwf
  generalize sortParams sig = s at *
  unfold maskNil
  by_cases h1 : s.pos.length + s.pok.length < n ∧ s.va = none
  · rw [if_pos h1, if_pos ⟨by omega, h1.2⟩]; rfl
  · rw [if_neg h1]
    simp only [bind, Except.bind]
    have hs' := popped_swf hs n
    rw [mask_nil hs'.wf]
    have hsp : ∀ (src : Srcs) (d : Depths) (r : Option Nat) (u : UAnn),
        sortParams { params := (popped s n).all, src := src, depths := d, ret := r, uret := u } =
        { popped s n with src := src, depths := d } := by
      intro src d r u
      unfold sortParams
      simp only [copyDepths_zero]
      exact sortGo_of_all hs' _ _
    rw [hsp]
    unfold maskNil
    simp only [popped, List.length_drop]
    by_cases h2 : s.pos.length + s.pok.length < n + m ∧ s.va = none
    · rw [if_pos h2, if_pos]
      refine ⟨?_, h2.2⟩
      have : ¬ s.pos.length + s.pok.length < n := fun h => h1 ⟨h, h2.2⟩
      omega
    · rw [if_neg h2, if_neg]
      · simp only [removeFromSrc_append, List.drop_drop, Sorted.all]
        have e1 : n - s.pos.length + (m - (s.pos.length - n)) = n + m - s.pos.length := by omega
        have e2 : names (List.take n (s.pos ++ s.pok)) ++
            names (List.take m (List.drop n s.pos ++ List.drop (n - s.pos.length) s.pok)) =
            names (List.take (n + m) (s.pos ++ s.pok)) := by
          rw [← names_append, ← List.drop_append, ← List.take_add]
        rw [e1, e2]
      · rintro ⟨a, b⟩
        exact h2 ⟨by omega, b⟩

/-- hide flags only ever remove parameters: every parameter of the result is a parameter of sig
    (possibly converted from positional-or-keyword to keyword-only), and each flag removes what it
    says -/
theorem mask_hide_removes (sig R : USig) (n : Nat) (nms : List Nat) (h : HideFlags)
    (hwf : WF sig.params) (hR : mask sig n nms h = .ok R) :
    (∀ p ∈ R.params, ∃ q ∈ sig.params, q.name = p.name ∧ q.dflt = p.dflt ∧ q.ann = p.ann ∧
        (q.kind = p.kind ∨ (q.kind = .pk ∧ p.kind = .ko))) ∧
    (h.args = true → ∀ p ∈ R.params, p.kind ≠ .po ∧ p.kind ≠ .pk ∧ p.kind ≠ .vp) ∧
    (h.kwargs = true → ∀ p ∈ R.params, p.kind ≠ .pk ∧ p.kind ≠ .ko ∧ p.kind ≠ .vk) ∧
    (h.varargs = true → ∀ p ∈ R.params, p.kind ≠ .vp) ∧
    (h.varkwargs = true → ∀ p ∈ R.params, p.kind ≠ .vk) := by
  obtain ⟨c, pos, pok, st, hp, cl, hs2, rfl⟩ := mask_ok_closed hwf hR
  have hs := sortParams_swf hwf
  have hall := sortParams_all hwf
  generalize sortParams sig = s at *
  have bk := hs2.bk
  obtain ⟨X, hX⟩ : ∃ X, X = (if h.kwargs then [] else nms) := ⟨_, rfl⟩
  rw [← hX] at cl
  have hpos : ∀ p ∈ pos, p ∈ s.pos := by
    rcases prelude_ok hp with ⟨-, -, rfl, -⟩ | ⟨-, -, -, rfl, -⟩
    · simp
    · exact fun p hp => List.mem_of_mem_drop hp
  have hpok : ∀ p ∈ pok, p ∈ s.pok := by
    rcases prelude_ok hp with ⟨-, -, -, rfl⟩ | ⟨-, -, -, -, rfl⟩
    · simp
    · exact fun p hp => List.mem_of_mem_drop hp
  have h0pok : ∀ p ∈ (initState s h c pok).pok, p ∈ s.pok := by
    intro p hp'
    simp only [initState] at hp'
    split at hp'
    · cases hp'
    · exact hpok p hp'
  have h0kwo : ∀ p ∈ (initState s h c pok).kwo, p ∈ s.kwo := by
    intro p hp'
    simp only [initState] at hp'
    split at hp'
    · cases hp'
    · exact hp'
  have h0va : ∀ p, (initState s h c pok).va = some p → s.va = some p := by
    intro p hp'
    simp only [initState] at hp'
    split at hp'
    · cases hp'
    · exact hp'
  have hstpok : ∀ p ∈ st.pok, p ∈ s.pok := by
    intro p hp'
    rw [cl.pok] at hp'
    exact h0pok p (mem_takeWhile hp').2
  have hstva : ∀ p, st.va = some p → s.va = some p := by
    intro p hp'
    rw [cl.va] at hp'
    by_cases hc : (initState s h c pok).pok.all (notin X) = true
    · rw [if_pos hc] at hp'; exact h0va p hp'
    · rw [if_neg hc] at hp'; cases hp'
  have hstkwo : ∀ p ∈ st.kwo, p ∈ s.kwo ∨ ∃ r ∈ s.pok, p = r.withKind .ko := by
    intro p hp'
    rw [cl.kwo.mem_iff, List.mem_filter, List.mem_append, List.mem_map] at hp'
    rcases hp'.1 with h1 | ⟨r, hr, rfl⟩
    · exact Or.inl (h0kwo p h1)
    · exact Or.inr ⟨r, h0pok r (mem_of_mem_dropWhile hr), rfl⟩
  have hfvk : ∀ p, finalVk s h = some p → s.vk = some p := by
    intro p hp'
    rcases finalVk_cases s h with e | e
    · rw [e] at hp'; cases hp'
    · rw [← e]; exact hp'
  have mem_s : ∀ q, (q ∈ s.pos ∨ q ∈ s.pok ∨ s.va = some q ∨ q ∈ s.kwo ∨ s.vk = some q) →
      q ∈ sig.params := by
    intro q hq
    rw [← hall]
    simp only [Sorted.all, List.mem_append, Option.mem_toList]
    rcases hq with h | h | h | h | h <;> simp [h]
  refine ⟨?_, ?_, ?_, ?_, ?_⟩
  · intro p hp'
    rcases mem_sOf_all.1 hp' with h1 | h1 | h1 | h1 | h1
    · exact ⟨p, mem_s p (Or.inl (hpos p h1)), rfl, rfl, rfl, Or.inl rfl⟩
    · exact ⟨p, mem_s p (Or.inr (Or.inl (hstpok p h1))), rfl, rfl, rfl, Or.inl rfl⟩
    · exact ⟨p, mem_s p (Or.inr (Or.inr (Or.inl (hstva p h1)))), rfl, rfl, rfl, Or.inl rfl⟩
    · rcases hstkwo p h1 with h2 | ⟨r, hr, rfl⟩
      · exact ⟨p, mem_s p (Or.inr (Or.inr (Or.inr (Or.inl h2)))), rfl, rfl, rfl, Or.inl rfl⟩
      · exact ⟨r, mem_s r (Or.inr (Or.inl hr)), rfl, rfl, rfl, Or.inr ⟨hs.bk.pok r hr, rfl⟩⟩
    · exact ⟨p, mem_s p (Or.inr (Or.inr (Or.inr (Or.inr (hfvk p h1))))), rfl, rfl, rfl, Or.inl rfl⟩
  · intro ha p hp'
    have e1 : pos = [] := by
      rcases prelude_ok hp with ⟨-, -, rfl, -⟩ | ⟨hf, -⟩
      · rfl
      · rw [ha] at hf; cases hf
    have e2 : st.pok = [] := by
      rw [cl.pok]
      have : (initState s h c pok).pok = [] := by
        rcases prelude_ok hp with ⟨-, -, -, rfl⟩ | ⟨hf, -⟩
        · simp [initState]
        · rw [ha] at hf; cases hf
      rw [this]; rfl
    have e3 : st.va = none := by
      rw [cl.va]
      have : (initState s h c pok).va = none := by simp [initState, ha]
      rw [this]; simp
    rcases mem_sOf_all.1 hp' with h1 | h1 | h1 | h1 | h1
    · rw [e1] at h1; cases h1
    · rw [e2] at h1; cases h1
    · rw [e3] at h1; cases h1
    · have := bk.kwo p h1; rw [this]; decide
    · have := bk.vk p h1; rw [this]; decide
  · intro hk p hp'
    simp only [hk, if_true] at hX
    subst hX
    have e2 : st.pok = [] := by
      rw [cl.pok]; simp [initState, hk]
    have e3 : st.kwo = [] := by
      have := cl.kwo
      simp only [initState, hk, if_true] at this
      simpa using this
    have e4 : finalVk s h = none := by simp [finalVk, hk]
    rcases mem_sOf_all.1 hp' with h1 | h1 | h1 | h1 | h1
    · have := bk.pos p h1; rw [this]; decide
    · rw [e2] at h1; cases h1
    · have := bk.va p h1; rw [this]; decide
    · rw [e3] at h1; cases h1
    · rw [e4] at h1; cases h1
  · intro hv p hp' hkind
    have e3 : st.va = none := by
      rw [cl.va]
      have : (initState s h c pok).va = none := by simp [initState, hv]
      rw [this]; simp
    rcases mem_sOf_all.1 hp' with h1 | h1 | h1 | h1 | h1
    · have := bk.pos p h1; rw [this] at hkind; cases hkind
    · have := bk.pok p h1; rw [this] at hkind; cases hkind
    · rw [e3] at h1; cases h1
    · have := bk.kwo p h1; rw [this] at hkind; cases hkind
    · have := bk.vk p h1; rw [this] at hkind; cases hkind
  · intro hv p hp' hkind
    have e4 : finalVk s h = none := by simp [finalVk, hv]
    rcases mem_sOf_all.1 hp' with h1 | h1 | h1 | h1 | h1
    · have := bk.pos p h1; rw [this] at hkind; cases hkind
    · have := bk.pok p h1; rw [this] at hkind; cases hkind
    · have := bk.va p h1; rw [this] at hkind; cases hkind
    · have := bk.kwo p h1; rw [this] at hkind; cases hkind
    · rw [e4] at h1; cases h1

/-- soundness with hide flags: a call accepted by the result is accepted by sig for some choice of
    the hidden arguments.  hide_args hides all positional arguments of the forwarding call (n
    included), hide_kwargs all its keyword arguments (the given names included). -/
theorem mask_hide_sound (sig R : USig) (n m : Nat) (nms K : List Nat) (h : HideFlags)
    (hwf : WF sig.params) (hn : nms.Nodup) (hK : K.Nodup)
    (hpo : ∀ p ∈ sig.params, p.kind = .po → p.name ∉ nms)
    (hdisj : ∀ k ∈ K, k ∉ nms)
    (hR : mask sig n nms h = .ok R)
    (hnc : nonColl R.params [sig.params] K)
    (hacc : accepts R.params m K = true) :
    ∃ (tot : Nat) (H : List Nat),
      (h.args = false → tot = n + m) ∧ (h.kwargs = false → H = []) ∧
      accepts sig.params tot ((if h.kwargs then [] else nms) ++ K ++ H) = true := by
  have _ := hpo
  obtain ⟨c, pos, pok, st, hp, hm, hs1, hs2, rfl⟩ := mask_ok hwf hR
  have hs := sortParams_swf hwf
  have hall := sortParams_all hwf
  generalize sortParams sig = s at *
  obtain ⟨n', hn', hcount, rfl, rfl, rfl⟩ := prelude_ok' hp
  rw [accepts_iff hs2.bk _ hK] at hacc
  simp only at hacc hnc
  by_cases hk : h.kwargs = true
  · -- hide_kwargs: the result has no keyword parameter at all
    simp only [hk, if_true, plainNames, List.map_nil, maskNames] at hm
    cases hm
    have hfv : finalVk s h = none := by simp [finalVk, hk]
    obtain ⟨c1, c2, c3⟩ := hacc
    simp only [sOf, initState, hk, if_true, hfv, names_nil, List.not_mem_nil, or_self,
      not_false_eq_true, Option.isSome_none, Bool.false_eq_true, forall_const, false_imp_iff,
      imp_false, List.append_nil, and_false, false_or] at c1 c2 c3
    have hKnil : K = [] := List.eq_nil_iff_forall_not_mem.2 c2
    subst hKnil
    refine ⟨n' + m, names (s.pok.drop (n' + m - s.pos.length)) ++ names s.kwo,
      (fun hf => by rw [hn' hf]), (fun hf => by rw [hk] at hf; cases hf), ?_⟩
    simp only [hk, if_true, List.nil_append]
    obtain ⟨-, p2, p3, -, -, p6⟩ := hs.parts
    have hHnd : (names (s.pok.drop (n' + m - s.pos.length)) ++ names s.kwo).Nodup := by
      refine List.nodup_append.2 ⟨?_, p3, ?_⟩
      · rw [names_drop]; exact p2.sublist (List.drop_sublist _ _)
      · intro a ha b hb e
        rw [names_drop] at ha
        exact p6 a (List.mem_of_mem_drop ha) (e ▸ hb)
    rw [← hall, accepts_iff hs.bk _ hHnd]
    have hdj := take_drop_disj hs (n' + m)
    refine ⟨?_, ?_, ?_⟩
    · -- enough positional slots
      rcases c1 with c1 | c1
      · simp only [List.length_drop] at c1
        by_cases hm0 : m = 0
        · subst hm0; exact hcount
        · left; simp only [List.length_append]; omega
      · right
        split at c1
        · cases c1
        · exact c1
    · intro k hk'
      refine ⟨fun _ hT => ?_, fun hneg => ?_⟩
      · rcases List.mem_append.1 hk' with h1 | h1
        · exact (hdj k hT).1 h1
        · exact (hdj k hT).2 h1
      · exfalso; apply hneg
        rcases List.mem_append.1 hk' with h1 | h1
        · left; rw [names_drop] at h1; exact List.mem_of_mem_drop h1
        · exact Or.inr h1
    · intro p hp' hr
      rcases hp' with hp' | hp' | hp'
      · right
        rcases (mem_take_or_drop s.pos n' p).1 hp' with h1 | h1
        · rw [List.take_add]
          apply mem_names_of_mem
          rw [List.take_append]
          simp [h1]
        · have := c3 p (Or.inl h1) hr
          rw [List.take_add, names_append, List.mem_append]
          right
          rw [List.drop_append, List.take_append, names_append, List.mem_append]
          exact Or.inl this
      · rcases (mem_take_or_drop s.pok (n' + m - s.pos.length) p).1 hp' with h1 | h1
        · right
          rw [List.take_append, names_append, List.mem_append]
          exact Or.inr (mem_names_of_mem h1)
        · left
          exact ⟨by simp [mem_names_of_mem h1], Or.inl (mem_names_of_mem hp')⟩
      · left
        exact ⟨by simp [mem_names_of_mem hp'], Or.inr (mem_names_of_mem hp')⟩
  · have hk' : h.kwargs = false := by simpa using hk
    simp only [hk', Bool.false_eq_true, if_false] at hm ⊢
    refine ⟨n' + m, [], (fun hf => by rw [hn' hf]), (fun _ => rfl), ?_⟩
    rw [List.append_nil]
    have inv0 := init_inv hs hp hk'
    have hnd : (nms ++ K).Nodup :=
      List.nodup_append.2 ⟨hn, hK, fun a ha b hb e => hdisj b hb (e ▸ ha)⟩
    have hc := maskNames_ok_consumed nms hm
    have spec := maskNames_spec nms inv0 m K hnd hc
    rw [hm] at spec
    obtain ⟨-, hacc1, hsub⟩ := spec
    -- put `**kwargs` back
    have a1 : AccP (sOf (s.pos.drop n') s.vk st) m K :=
      accP_mono hacc _ rfl rfl rfl (fun x => x) (by
        intro hv
        rcases finalVk_cases s h with e | e
        · simp only [sOf, e] at hv; cases hv
        · simpa [sOf, e] using hv)
    have a2 := hacc1.1 a1
    -- put `*args` back
    have a3 : AccP (popped s n') m (nms ++ K) :=
      accP_mono a2 _ (by simp [popped, sOf]) (by simp [popped, sOf, initState, hk'])
        (by simp [popped, sOf, initState, hk']) (by
          intro hv
          simp only [sOf, initState] at hv
          split at hv
          · cases hv
          · exact hv) (fun x => x)
    have pop := step_pop (kwo := s.kwo) (va := s.va) (vk := s.vk) n' m (nms ++ K) hs.nodup_pp
      hs.kwo_disj hcount
    rw [← hall, accepts_iff hs.bk _ hnd]
    apply pop.1 _ a3
    intro k hk2
    rcases List.mem_append.1 hk2 with hk2 | hk2
    · exact hc k hk2
    · intro hcon
      obtain ⟨d1, d2⟩ := take_drop_disj hs n' k hcon
      rcases hnc k hk2 with h1 | h1
      · rw [kwNames_all hs2.bk, List.mem_append] at h1
        have := (hsub k h1).1
        simp only [initState, hk', Bool.false_eq_true, if_false] at this
        rcases this with h2 | h2
        · exact d1 h2
        · exact d2 h2
      · apply h1 sig.params (by simp)
        rw [← hall]
        unfold allNames
        rw [names_take] at hcon
        have := List.mem_of_mem_take hcon
        simp only [Sorted.all, names_append, List.mem_append] at this ⊢
        rcases this with h2 | h2
        · exact Or.inl (Or.inl (Or.inl (Or.inl h2)))
        · exact Or.inl (Or.inl (Or.inl (Or.inr h2)))

/-! non-vacuity: concrete non-trivial instances of the hypotheses -/
def exSig : USig :=
  { params := [⟨1, .pk, none, none, .empty⟩, ⟨2, .pk, some 1, none, .empty⟩, ⟨11, .vp, none, none, .empty⟩,
               ⟨3, .ko, none, none, .empty⟩, ⟨12, .vk, none, none, .empty⟩],
    src := [(1, [7]), (2, [7]), (11, [7]), (3, [7]), (12, [7])], depths := [(7, 0)] }

example : WF exSig.params := by decide
example : ∃ R, mask exSig 1 [3] {} = .ok R ∧ accepts R.params 1 [9] = true ∧
    accepts exSig.params 2 [3, 9] = true := by
  refine ⟨_, rfl, ?_, ?_⟩ <;> decide

/-- the result of `mask exSig 1 [3]`: `(b=1, *args, **kwargs)` -/
def exR : USig :=
  { params := [⟨2, .pk, some 1, none, .empty⟩, ⟨11, .vp, none, none, .empty⟩, ⟨12, .vk, none, none, .empty⟩],
    src := [(2, [7]), (11, [7]), (12, [7])], depths := [(7, 0)] }

example : mask exSig 1 [3] {} = .ok exR := rfl

/-- all hypotheses of `mask_exact` hold on a non-trivial instance (keyword 2 is a parameter of
    the result, keyword 9 is foreign and goes to `**kwargs`) -/
example : accepts exR.params 1 [9] = accepts exSig.params (1 + 1) ([3] ++ [9]) :=
  mask_exact exSig exR 1 1 [3] [9] (by decide) (by decide) (by decide) (by decide) (by decide)
    rfl (by unfold nonColl; decide)
example : accepts exR.params 0 [2, 9] = accepts exSig.params (1 + 0) ([3] ++ [2, 9]) :=
  mask_exact exSig exR 1 0 [3] [2, 9] (by decide) (by decide) (by decide) (by decide) (by decide)
    rfl (by unfold nonColl; decide)
-- the non-collision hypothesis is needed: keyword 1 names the consumed parameter
example : accepts exR.params 0 [1] = true ∧ accepts exSig.params 1 [3, 1] = false := by decide

/-- a signature with a positional-only parameter and no star parameters: `(a, /, b, *, c=None)` -/
def exSig2 : USig :=
  { params := [⟨1, .po, none, none, .empty⟩, ⟨2, .pk, none, none, .empty⟩, ⟨3, .ko, some 0, none, .empty⟩] }

example : WF exSig2.params := by decide
-- `mask_raises_iff`, both sides true: too many positionals / a consumed name / an unknown name
example : ∃ e, mask exSig2 3 [] {} = .error e := ⟨.valueError, rfl⟩
example : ∃ e, mask exSig2 2 [2] {} = .error e := ⟨.valueError, rfl⟩
example : ∃ e, mask exSig2 1 [5] {} = .error e := ⟨.valueError, rfl⟩
example : ¬ ∃ m K, K.Nodup ∧ (∀ k ∈ K, k ∉ [2]) ∧ accepts exSig2.params (2 + m) ([2] ++ K) = true :=
  (mask_raises_iff exSig2 2 [2] (by decide) (by decide) (by decide)).1 ⟨.valueError, rfl⟩
-- `mask_raises_iff`, both sides false
example : ∃ m K, K.Nodup ∧ (∀ k ∈ K, k ∉ [2]) ∧ accepts exSig2.params (1 + m) ([2] ++ K) = true :=
  ⟨0, [], by decide, by decide, by decide⟩
example : ∃ R, mask exSig2 1 [2] {} = .ok R := ⟨_, rfl⟩
-- the hypothesis on positional-only names in `mask_raises_iff` is needed: `(a, /, **kw)` accepts
-- one positional and the keyword `a`, yet mask(sig, 1, 'a') raises
def exSig4 : USig := { params := [⟨1, .po, none, none, .empty⟩, ⟨12, .vk, none, none, .empty⟩] }
example : (∃ e, mask exSig4 1 [1] {} = .error e) ∧ accepts exSig4.params 1 [1] = true :=
  ⟨⟨.valueError, rfl⟩, by decide⟩

/-- `(a, b, c, d, e)`: naming `d` and `b` in the two orders gives the keyword-only parameters in
    different orders (`e, c` vs `c, e`), which is why `mask_perm` is stated up to `SigEquiv` -/
def exSig3 : USig :=
  { params := [⟨1, .pk, none, none, .empty⟩, ⟨2, .pk, none, none, .empty⟩, ⟨3, .pk, none, none, .empty⟩,
               ⟨4, .pk, none, none, .empty⟩, ⟨5, .pk, none, none, .empty⟩] }

example : WF exSig3.params := by decide
example : ∃ R R', mask exSig3 0 [4, 2] {} = .ok R ∧ mask exSig3 0 [2, 4] {} = .ok R' ∧
    R.params ≠ R'.params ∧ names R.params = [1, 5, 3] ∧ names R'.params = [1, 3, 5] :=
  ⟨_, _, rfl, rfl, by decide, by decide, by decide⟩
example : [4, 2].Nodup ∧ [4, 2].Perm [2, 4] := by decide

-- `mask_zero`, `mask_add`, `mask_wf` on exSig
example : mask exSig 0 [] {} = .ok exSig := mask_zero exSig (by decide)
example : (mask exSig 1 [] {} >>= fun r => mask r 2 [] {}) = mask exSig 3 [] {} :=
  mask_add exSig 1 2 (by decide)
example : ∃ R, mask exSig 3 [] {} = .ok R ∧ names R.params = [11, 3, 12] := ⟨_, rfl, by decide⟩
example : WF exR.params := mask_wf exSig exR 1 [3] {} (by decide) rfl

-- hide flags: `mask_hide_removes` / `mask_hide_sound` on non-trivial instances
example : ∃ R, mask exSig 1 [3] { args := true } = .ok R ∧ names R.params = [12] := ⟨_, rfl, by decide⟩
example : ∃ R, mask exSig 1 [3] { kwargs := true } = .ok R ∧ names R.params = [11] := ⟨_, rfl, by decide⟩
example : ∃ R, mask exSig2 1 [] { kwargs := true } = .ok R ∧ R.params = [] ∧
    accepts R.params 0 [] = true ∧ accepts exSig2.params 1 [] = false ∧
    accepts exSig2.params 1 ([] ++ [] ++ [2]) = true :=
  ⟨_, rfl, by decide, by decide, by decide, by decide⟩
example : ∃ (tot : Nat) (H : List Nat), (false = false → tot = 1 + 0) ∧ (true = false → H = []) ∧
    accepts exSig2.params tot ((if true then [] else []) ++ [] ++ H) = true :=
  mask_hide_sound exSig2 { params := [] } 1 0 [] [] { kwargs := true } (by decide) (by decide)
    (by decide) (by decide) (by decide) rfl (by unfold nonColl; decide) (by decide)

end SV
