/-
  Props/C19.lean — property C19 (functools.partial objects get the signature Python enforces):
  `signatures.signature(partial(f, *a, **k))` is `_mask` in partial mode (`maskPartial`).
  ONLY property theorems + non-vacuity examples.
-/
import Sigverif.Lemmas.C19Main
namespace SV

/-- exactness: the reported signature accepts a non-colliding call (m, K) exactly when f accepts
    the bound positionals followed by the call's, and the bound keywords plus the call's (call
    keywords override bound ones) -/
theorem partial_exact (sig R : USig) (n m : Nat) (kw : List (Nat × Nat)) (pobj : Nat) (K : List Nat)
    (hwf : WF sig.params) (hkw : (kw.map (·.1)).Nodup) (hK : K.Nodup)
    (hpo : ∀ p ∈ sig.params, p.kind = .po → p.name ∉ kw.map (·.1))
    (hR : maskPartial sig n kw pobj = .ok R)
    (hnc : nonColl R.params [sig.params] K) :
    accepts R.params m K =
      accepts sig.params (n + m) (K ++ (kw.map (·.1)).filter (fun k => !K.contains k)) := by
  obtain ⟨st, hcount, inv0, hm, hs1, rfl⟩ := partial_ok hwf hR
  have hs := sortParams_swf hwf
  have hall := sortParams_all hwf
  generalize sortParams sig = s at *
  simp only at hnc ⊢
  have hfac := loopP_inv kw inv0.toWInv hm
  obtain ⟨-, hc, hsub, -⟩ := hfac
  have hnd0 : (names (s.pos.drop n ++ (initState s {} (names ((s.pos ++ s.pok).take n))
      (s.pok.drop (n - s.pos.length))).pok ++ (initState s {} (names ((s.pos ++ s.pok).take n))
      (s.pok.drop (n - s.pos.length))).kwo)).Nodup := by
    have := inv0.swf.nd
    simp only [sOf, Sorted.all, names_append, List.nodup_append, List.mem_append] at this ⊢
    grind
  have hxp : ∀ x ∈ kw.map (·.1), x ∉ names (s.pos.drop n) := by
    intro x hx hmem
    obtain ⟨p, hp, rfl⟩ := mem_names.1 hmem
    have hp' := List.mem_of_mem_drop hp
    refine hpo p ?_ (hs.bk.pos p hp') hx
    rw [← hall]; simp [Sorted.all, hp']
  have hacc := loopP_acc kw inv0.toWInv hnd0 hxp hm m K
  have hKnd : (K ++ (kw.map (·.1)).filter (fun k => !K.contains k)).Nodup := by
    refine List.nodup_append.2 ⟨hK, hkw.sublist List.filter_sublist, ?_⟩
    intro a ha b hb e
    subst e
    simp only [List.mem_filter, Bool.not_eq_true', List.contains_eq_mem, decide_eq_false_iff_not] at hb
    exact hb.2 ha
  rw [← hall]
  apply accepts_eq_of_iff hs1.bk hs.bk hK hKnd
  rw [hacc]
  have pop := step_pop (kwo := s.kwo) (va := s.va) (vk := s.vk) n m (bindK (kw.map (·.1)) K)
    hs.nodup_pp hs.kwo_disj hcount
  have hKc : ∀ k ∈ bindK (kw.map (·.1)) K, k ∉ names ((s.pos ++ s.pok).take n) := by
    intro k hk
    rcases mem_bindK.1 hk with hk | hk
    · exact hc k hk
    · intro hcon
      obtain ⟨d1, d2⟩ := take_drop_disj hs n k hcon
      rcases hnc k hk with h1 | h1
      · rw [kwNames_all hs1.bk, List.mem_append] at h1
        have := hsub k h1
        simp only [initState, Bool.false_eq_true, if_false] at this
        rcases this with h2 | h2 | h2
        · exact d1 h2
        · exact d2 h2
        · exact hc k h2 hcon
      · apply h1 sig.params (by simp)
        rw [← hall]
        unfold allNames
        rw [names_take] at hcon
        have := List.mem_of_mem_take hcon
        simp only [Sorted.all, names_append, List.mem_append] at this ⊢
        rcases this with h2 | h2
        · exact Or.inl (Or.inl (Or.inl (Or.inl h2)))
        · exact Or.inl (Or.inl (Or.inl (Or.inr h2)))
  have hcongr : AccP s (n + m) (bindK (kw.map (·.1)) K) ↔
      AccP s (n + m) (K ++ (kw.map (·.1)).filter (fun k => !K.contains k)) := by
    apply accP_congr_K
    intro y
    rw [mem_bindK]
    simp only [List.mem_append, List.mem_filter, Bool.not_eq_true', List.contains_eq_mem,
      decide_eq_false_iff_not]
    by_cases hy : y ∈ K <;> simp [hy]
  rw [← hcongr]
  exact ⟨pop.1 hKc, pop.2⟩

/-- every bound keyword shows up as a keyword-only parameter whose default is the bound value —
    unless it is named like `*args` or `**kwargs` themselves, in which case no parameter list can
    show it (it is absorbed silently, as after `fix:` D51; before, `_mask` raised) -/
theorem partial_bound_keywords (sig R : USig) (n : Nat) (kw : List (Nat × Nat)) (pobj : Nat)
    (hwf : WF sig.params) (hkw : (kw.map (·.1)).Nodup)
    (hR : maskPartial sig n kw pobj = .ok R) :
    ∀ kv ∈ kw, (∀ p ∈ sig.params, (p.kind = .vp ∨ p.kind = .vk) → p.name ≠ kv.1) →
      ∃ p ∈ R.params, p.name = kv.1 ∧ p.kind = .ko ∧ p.dflt = some kv.2 := by
  obtain ⟨st, -, inv0, hm, -, rfl⟩ := partial_ok hwf hR
  have hs := sortParams_swf hwf
  have hall := sortParams_all hwf
  generalize sortParams sig = s at *
  intro kv hkv hstar
  have hns : starNamed (initState s {} (names ((s.pos ++ s.pok).take n))
      (s.pok.drop (n - s.pos.length))).va s.vk kv.1 = false := by
    rw [starNamed_false_iff]
    constructor
    · intro a ha
      simp only [initState, Bool.or_self, Bool.false_eq_true, if_false] at ha
      exact hstar a (by rw [← hall]; simp [Sorted.all, ha]) (Or.inl (hs.bk.va a ha))
    · intro k hk
      exact hstar k (by rw [← hall]; simp [Sorted.all, hk]) (Or.inr (hs.bk.vk k hk))
  obtain ⟨p, hp, h1⟩ := (loopP_inv kw inv0.toWInv hm).2.2.2.2.2.2.2.2 hkw kv hkv hns
  exact ⟨p, mem_sOf_all.2 (Or.inr (Or.inr (Or.inr (Or.inl hp)))), h1⟩

/-- a keyword bound to a positional-or-keyword parameter makes it and all following positional
    parameters keyword-only and removes *args -/
theorem partial_pok_keyword (sig R : USig) (n : Nat) (kw : List (Nat × Nat)) (pobj : Nat)
    (hwf : WF sig.params) (hkw : (kw.map (·.1)).Nodup)
    (hR : maskPartial sig n kw pobj = .ok R)
    (kv : Nat × Nat) (hkv : kv ∈ kw) (q : Param) (hq : q ∈ sig.params) (hqk : q.kind = .pk)
    (hqn : q.name = kv.1) :
    hasVa R.params = false ∧
    ∀ p ∈ sig.params, isPositional p = true →
      (names (positionals sig.params)).idxOf q.name ≤ (names (positionals sig.params)).idxOf p.name →
      ∀ r ∈ R.params, r.name = p.name → r.kind = .ko := by
  have _ := hkw
  obtain ⟨st, -, inv0, hm, hs1, rfl⟩ := partial_ok hwf hR
  have hs := sortParams_swf hwf
  have hall := sortParams_all hwf
  generalize sortParams sig = s at *
  obtain ⟨-, hc, -, hva, hpre, hxn, hpv, -⟩ := loopP_inv kw inv0.toWInv hm
  have hxkw : q.name ∈ kw.map (·.1) := by rw [hqn]; exact List.mem_map.2 ⟨kv, hkv, rfl⟩
  simp only [initState, Bool.false_eq_true, if_false, Bool.or_self] at hc hva hpre hpv
  -- q is a positional-or-keyword parameter that was not consumed
  have hqpok : q ∈ s.pok := by
    rw [← hall] at hq
    rcases mem_all_iff_C19.1 hq with h | h | h | h | h
    · have := hs.bk.pos q h; rw [hqk] at this; cases this
    · exact h
    · have := hs.bk.va q h; rw [hqk] at this; cases this
    · have := hs.bk.kwo q h; rw [hqk] at this; cases this
    · have := hs.bk.vk q h; rw [hqk] at this; cases this
  have hq0 : q ∈ s.pok.drop (n - s.pos.length) := by
    rcases (mem_take_or_drop s.pok (n - s.pos.length) q).1 hqpok with h | h
    · exfalso
      apply hc _ hxkw
      rw [List.take_append, names_append, List.mem_append]
      exact Or.inr (mem_names_of_mem h)
    · exact h
  have hxst : q.name ∉ names st.pok := hxn _ hxkw
  have hvanone : st.va = none := by
    rcases hpv with h | h
    · exfalso; apply hxst; simp only at h; rw [h]; exact mem_names_of_mem hq0
    · exact h
  refine ⟨?_, ?_⟩
  · rw [hasVa_all hs1.bk]; simp [sOf, hvanone]
  · intro p hp hpp hidx r hr hrn
    rw [← hall, positionals_all hs.bk] at hidx
    obtain ⟨A', B', hsplit⟩ := List.append_of_mem hq0
    rw [hsplit] at hpre
    have hqst : q ∉ st.pok := fun h => hxst (mem_names_of_mem h)
    have hpreA := prefix_before hpre hqst
    -- the names of the positional parameters, split at q
    have hpok : s.pok = s.pok.take (n - s.pos.length) ++ A' ++ q :: B' := by
      rw [List.append_assoc, ← hsplit, List.take_append_drop]
    have hN : names (s.pos ++ s.pok) =
        (names s.pos ++ names (s.pok.take (n - s.pos.length)) ++ names A') ++ q.name :: names B' := by
      conv => lhs; rw [hpok]
      simp
    have hnd := hs.nodup_pp
    rw [hN] at hnd hidx
    have hxL : q.name ∉ names s.pos ++ names (s.pok.take (n - s.pos.length)) ++ names A' := by
      intro h
      exact (List.nodup_append.1 hnd).2.2 _ h _ (by simp) rfl
    have key : ∀ y, y ∈ names s.pos ++ names (s.pok.take (n - s.pos.length)) ++ names A' →
        y ≠ p.name := by
      intro y hy e
      have := idxOf_before (B := names B') hxL hy
      rw [e] at this
      omega
    have hppos : p.name ∈ names (s.pos ++ s.pok) := by
      rw [← hall] at hp
      rcases mem_all_iff_C19.1 hp with h | h | h | h | h
      · exact mem_names_of_mem (by simp [h])
      · exact mem_names_of_mem (by simp [h])
      · have := hs.bk.va p h; simp [isPositional, this] at hpp
      · have := hs.bk.kwo p h; simp [isPositional, this] at hpp
      · have := hs.bk.vk p h; simp [isPositional, this] at hpp
    rcases mem_sOf_all.1 hr with h | h | h | h | h
    · exfalso
      apply key r.name _ hrn
      have := mem_names_of_mem (List.mem_of_mem_drop h)
      simp [this]
    · exfalso
      apply key r.name _ hrn
      have := mem_names_of_mem (hpreA.subset h)
      simp [this]
    · rw [hvanone] at h; cases h
    · exact hs1.bk.kwo r h
    · exfalso
      exact (hs.star_names _ hppos).2 r h hrn

/-- bound positionals disappear -/
theorem partial_bound_positionals (sig R : USig) (n : Nat) (kw : List (Nat × Nat)) (pobj : Nat)
    (hwf : WF sig.params) (hR : maskPartial sig n kw pobj = .ok R) :
    ∀ x ∈ (names (positionals sig.params)).take n, x ∉ names R.params := by
  obtain ⟨st, -, inv0, hm, -, rfl⟩ := partial_ok hwf hR
  have hs := sortParams_swf hwf
  have hall := sortParams_all hwf
  generalize sortParams sig = s at *
  obtain ⟨-, hc, hsub, hva, -⟩ := loopP_inv kw inv0.toWInv hm
  intro x hx hmem
  rw [← hall, positionals_all hs.bk, ← names_take] at hx
  obtain ⟨p, hp, rfl⟩ := mem_names.1 hmem
  obtain ⟨d1, d2⟩ := take_drop_disj hs n _ hx
  have hxP : p.name ∈ names (s.pos ++ s.pok) := by
    rw [names_take] at hx; exact List.mem_of_mem_take hx
  obtain ⟨s1, s2⟩ := hs.star_names _ hxP
  rcases mem_sOf_all.1 hp with h | h | h | h | h
  · -- still a positional-only parameter of the result
    have nd := hs.nodup_pp
    rw [← List.take_append_drop n (s.pos ++ s.pok), names_append] at nd
    have h2 : p.name ∈ names ((s.pos ++ s.pok).drop n) := by
      rw [List.drop_append, names_append, List.mem_append]
      exact Or.inl (mem_names_of_mem h)
    exact (List.nodup_append.1 nd).2.2 _ hx _ h2 rfl
  · rcases hsub _ (Or.inl (mem_names_of_mem h)) with c | c | c
    · exact d1 c
    · exact d2 c
    · exact hc _ c hx
  · rcases hva with e | e
    · rw [e] at h; cases h
    · rw [e] at h
      exact s1 p h rfl
  · rcases hsub _ (Or.inr (mem_names_of_mem h)) with c | c | c
    · exact d1 c
    · exact d2 c
    · exact hc _ c hx
  · exact s2 p h rfl

/-- keywords absorbed by **kwargs are sourced to the partial object, which has depth 0; every other
    callable is one level deeper -/
theorem partial_absorbed_sources (sig R : USig) (n : Nat) (kw : List (Nat × Nat)) (pobj : Nat)
    (hwf : WF sig.params) (hkw : (kw.map (·.1)).Nodup)
    (hR : maskPartial sig n kw pobj = .ok R) :
    (∀ kv ∈ kw, kv.1 ∉ names sig.params → dget R.src kv.1 = some [pobj]) ∧
    dget R.depths pobj = some 0 := by
  obtain ⟨st, -, inv0, hm, -, rfl⟩ := partial_ok hwf hR
  have hall := sortParams_all hwf
  generalize sortParams sig = s at *
  refine ⟨?_, dget_dset_self _ _ _⟩
  intro kv hkv hfor
  rw [← hall] at hfor
  simp only [Sorted.all, names_append, List.mem_append, not_or] at hfor
  obtain ⟨⟨⟨⟨f1, f2⟩, f3⟩, f4⟩, f5⟩ := hfor
  apply loopP_src kw inv0.toWInv hkw hm kv hkv
  · intro h
    simp only [initState, Bool.false_eq_true, if_false, names_drop] at h
    exact f2 (List.mem_of_mem_drop h)
  · intro h
    simp only [initState, Bool.false_eq_true, if_false] at h
    exact f4 h
  · intro a ha e
    simp only [initState, Bool.or_self, Bool.false_eq_true, if_false] at ha
    rw [ha] at f3
    simp [e] at f3
  · intro k hk e
    rw [hk] at f5
    simp [e] at f5

private theorem nodup_names_inj {l : List Param} (h : (names l).Nodup) {p q : Param} (hp : p ∈ l) (hq : q ∈ l)
    (e : p.name = q.name) : p = q := by
  induction l with
  | nil => cases hp
  | cons a t ih =>
    simp only [names_cons, List.nodup_cons] at h
    simp only [List.mem_cons] at hp hq
    rcases hp with rfl | hp
    · rcases hq with rfl | hq
      · rfl
      · exact absurd (by rw [e]; exact mem_names_of_mem hq) h.1
    · rcases hq with rfl | hq
      · exact absurd (by rw [← e]; exact mem_names_of_mem hp) h.1
      · exact ih h.2 hp hq

/-- (finding D51, repaired) a keyword named like the signature's own `*args` or `**kwargs` — which only
    `**kwargs` can take and which no parameter list can show — is absorbed silently: retrieval succeeds
    and the parameters are those of f, for every well-formed f that has `**kwargs` -/
theorem partial_star_keyword (sig : USig) (v pobj : Nat) (k : Param) (hwf : WF sig.params)
    (hk : (sortParams sig).va = some k ∨ (sortParams sig).vk = some k)
    (hvk : (sortParams sig).vk.isSome = true) :
    ∃ R, maskPartial sig 0 [(k.name, v)] pobj = .ok R ∧ R.params = sig.params := by
  have hs := sortParams_swf hwf
  have hall := sortParams_all hwf
  have hvalid : validate sig.params = .ok () := by
    have := hwf.1
    unfold validOk at this
    cases h : validate sig.params with
    | ok u => rfl
    | error e => rw [h] at this; cases this
  rw [partial_eq]
  generalize sortParams sig = s at *
  have hnd := hs.nd
  have hkall : k ∈ s.all := by
    rcases hk with h | h <;> simp [Sorted.all, h]
  have hkk : k.kind = .vp ∨ k.kind = .vk := by
    rcases hk with h | h
    · exact Or.inl (hs.bk.va k h)
    · exact Or.inr (hs.bk.vk k h)
  -- the name of a star parameter is not the name of a positional-or-keyword / keyword-only one
  have hp1 : k.name ∉ names s.pok := by
    intro hm
    obtain ⟨q, hq, hqn⟩ := mem_names.1 hm
    have hqk := hs.bk.pok q hq
    have hqall : q ∈ s.all := by simp [Sorted.all, hq]
    have : q = k := nodup_names_inj hnd hqall hkall hqn
    subst this
    rcases hkk with h | h <;> rw [hqk] at h <;> cases h
  have hp2 : k.name ∉ names s.kwo := by
    intro hm
    obtain ⟨q, hq, hqn⟩ := mem_names.1 hm
    have hqk := hs.bk.kwo q hq
    have hqall : q ∈ s.all := by simp [Sorted.all, hq]
    have : q = k := nodup_names_inj hnd hqall hkall hqn
    subst this
    rcases hkk with h | h <;> rw [hqk] at h <;> cases h
  have hstar : starNamed s.va s.vk k.name = true := by
    unfold starNamed
    rcases hk with h | h
    · simp [h]
    · simp [h]
  have hinit : initState s {} [] s.pok =
      { pok := s.pok, va := s.va, kwo := s.kwo, src := s.src, consumed := [], byName := s.pok } := by
    simp [initState, removeFromSrc]
  have hvn : s.vk.isNone = false := by
    cases hv : s.vk with
    | none => rw [hv] at hvk; cases hvk
    | some _ => rfl
  have hstep : maskNames s.vk (initState s {} [] s.pok) (partNames [(k.name, v)] pobj) =
      .ok { pok := s.pok, va := s.va, kwo := s.kwo, src := s.src, consumed := [k.name], byName := s.pok } := by
    rw [hinit]
    simp only [partNames, List.map_cons, List.map_nil, maskNames, bind, Except.bind]
    rw [maskName_part]
    simp only [List.contains_nil, Bool.false_eq_true, if_false, pget_eq_none.2 hp1, pget_eq_none.2 hp2, hvn, hstar,
      if_true, List.nil_append]
  have hpre : prelude s 0 {} = .ok ([], s.pos, s.pok) := by
    simp [prelude, pure, Except.pure]
  rw [hpre]
  simp only
  rw [hstep]
  simp only
  simp only [Sorted.all] at hall
  simp only [applyParams, Sorted.all, bind, Except.bind, pure, Except.pure, hall, hvalid]
  exact ⟨_, rfl, rfl⟩

/-! non-vacuity -/
def exP : USig :=
  { params := [⟨1, .pk, none, none, .empty⟩, ⟨2, .pk, some 1, none, .empty⟩, ⟨11, .vp, none, none, .empty⟩,
               ⟨3, .ko, none, none, .empty⟩, ⟨12, .vk, none, none, .empty⟩],
    src := [(1, [7]), (2, [7]), (11, [7]), (3, [7]), (12, [7])], depths := [(7, 0)] }
example : WF exP.params := by decide

/-- `partial(f, x, c=5, z=6)` for `f(a, b=1, *args, c, **kw)`: `(b=1, *args, c=5, z=6, **kw)` -/
def exPR : USig :=
  { params := [⟨2, .pk, some 1, none, .empty⟩, ⟨11, .vp, none, none, .empty⟩, ⟨3, .ko, some 5, none, .empty⟩,
               ⟨9, .ko, some 6, none, .empty⟩, ⟨12, .vk, none, none, .empty⟩],
    src := [(2, [7]), (11, [7]), (3, [7]), (12, [7]), (9, [8])], depths := [(7, 1), (8, 0)] }

example : maskPartial exP 1 [(3, 5), (9, 6)] 8 = .ok exPR := rfl

-- `partial_exact`: the call overrides the bound keyword 3 and adds a foreign keyword 10
example : accepts exPR.params 1 [3, 10] =
    accepts exP.params (1 + 1) ([3, 10] ++ ([(3, 5), (9, 6)].map (·.1)).filter (fun k => ![3, 10].contains k)) :=
  partial_exact exP exPR 1 1 [(3, 5), (9, 6)] 8 [3, 10] (by decide) (by decide) (by decide) (by decide)
    rfl (by unfold nonColl; decide)
example : accepts exPR.params 1 [3, 10] = true ∧ accepts exP.params 2 [3, 10, 9] = true := by decide
-- a bound keyword naming a parameter consumed positionally makes `_mask` raise (so `hR` excludes it)
example : maskPartial exP 1 [(1, 5)] 8 = .error .valueError := rfl

-- `partial_bound_keywords`, `partial_absorbed_sources`, `partial_bound_positionals` on the same instance
example : ∀ kv ∈ [(3, 5), (9, 6)], ∃ p ∈ exPR.params, p.name = kv.1 ∧ p.kind = .ko ∧ p.dflt = some kv.2 :=
  fun kv hkv => partial_bound_keywords exP exPR 1 [(3, 5), (9, 6)] 8 (by decide) (by decide) rfl kv hkv
    (by revert kv; decide)
example : (∀ kv ∈ [(3, 5), (9, 6)], kv.1 ∉ names exP.params → dget exPR.src kv.1 = some [8]) ∧
    dget exPR.depths 8 = some 0 :=
  partial_absorbed_sources exP exPR 1 [(3, 5), (9, 6)] 8 (by decide) (by decide) rfl
example : (9 : Nat) ∉ names exP.params ∧ dget exPR.src 9 = some [8] := by decide
example : ∀ x ∈ (names (positionals exP.params)).take 1, x ∉ names exPR.params :=
  partial_bound_positionals exP exPR 1 [(3, 5), (9, 6)] 8 (by decide) rfl
example : (names (positionals exP.params)).take 1 = [1] := by decide

/-- `partial(f, a=5)`: `(*, c, b=1, a=5, **kw)` — a, b became keyword-only and `*args` is gone -/
def exPR2 : USig :=
  { params := [⟨3, .ko, none, none, .empty⟩, ⟨2, .ko, some 1, none, .empty⟩, ⟨1, .ko, some 5, none, .empty⟩,
               ⟨12, .vk, none, none, .empty⟩],
    src := [(1, [7]), (2, [7]), (3, [7]), (12, [7])], depths := [(7, 1), (8, 0)] }

example : maskPartial exP 0 [(1, 5)] 8 = .ok exPR2 := rfl
example : hasVa exPR2.params = false ∧
    ∀ p ∈ exP.params, isPositional p = true →
      (names (positionals exP.params)).idxOf 1 ≤ (names (positionals exP.params)).idxOf p.name →
      ∀ r ∈ exPR2.params, r.name = p.name → r.kind = .ko :=
  partial_pok_keyword exP exPR2 0 [(1, 5)] 8 (by decide) (by decide) rfl (1, 5) (by decide)
    ⟨1, .pk, none, none, .empty⟩ (by decide) rfl rfl

-- a keyword named like `*args` (11) or `**kw` (12) while that parameter is still there is absorbed
-- silently: no parameter list can show it (finding D51: `_mask` raised for these before the `fix:`);
-- once a binding of a positional-or-keyword parameter has removed `*args`, the name is free again
example : ∃ R, maskPartial exP 0 [(11, 5), (1, 4)] 8 = .ok R ∧ names R.params = [3, 2, 1, 12] :=
  ⟨_, rfl, by decide⟩
example : ∃ R, maskPartial exP 0 [(1, 4), (11, 5)] 8 = .ok R ∧ names R.params = [3, 2, 1, 11, 12] :=
  ⟨_, rfl, by decide⟩
example : ∃ R, maskPartial exP 0 [(11, 5)] 8 = .ok R ∧ R.params = exP.params := ⟨_, rfl, by decide⟩
example : ∃ R, maskPartial exP 0 [(12, 5)] 8 = .ok R ∧ R.params = exP.params := ⟨_, rfl, by decide⟩
-- `partial_star_keyword` on the same instance (its hypotheses are met: 12 is `**kw` of exP, 11 its `*args`)
example : ∃ R, maskPartial exP 0 [(12, 5)] 8 = .ok R ∧ R.params = exP.params :=
  partial_star_keyword exP 5 8 ⟨12, .vk, none, none, .empty⟩ (by decide) (Or.inr rfl) rfl
example : ∃ R, maskPartial exP 0 [(11, 5)] 8 = .ok R ∧ R.params = exP.params :=
  partial_star_keyword exP 5 8 ⟨11, .vp, none, none, .empty⟩ (by decide) (Or.inl rfl) rfl

end SV
