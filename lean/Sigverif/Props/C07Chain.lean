/-
  Props/C07Chain.lean — C07 / C15: the fallback chain of `forged_signature` (Model/Chain.lean).

  "… sigtools.signature (with and without automatic discovery) and signatures.signature return an
   UpgradedSignature without raising …; where inspect.signature raises, the same exception type is
   raised (only an explicit forwards_to_* declaration that cannot be honoured surfaces, as ValueError)"
  (C07);  "signature retrieval turns such failures [of the algebra] into its fallback" (C15).

  The chain consults a declared forger, then (with `auto`) the autoforwards hint, then (with `auto`)
  `autoforwards`, then `signatures.signature`.  What each of them does is an `COutcome` (see the header of
  Model/Chain.lean for the reading of every value per component); the theorems are about ANY type of
  signatures `σ`.

  * `chain_forger_priority`                     (a) a forger that returns a signature decides
  * `chain_cases`, `chain_ok_iff`               (b) where a result comes from; exactly when
  * `chain_raises_iff`                          (c) exactly when the chain raises, and what
  * `chain_no_auto`, `chain_no_auto_eq`         (d) `auto = False`: hint and autoforwards are not consulted
  * `chain_uf_iff`, `chain_uf_never_escapes_partial`, `chain_uf_never_escapes_refuted`,
    `chain_uf_of_autoforwards_caught`           (e) which UnknownForwards can leave the chain
  * `chain_total_of_plain`, `chain_error_of_plain`   (f) benign discovery: the chain succeeds when the plain
                                                signature exists, and raises only what that raises
  * `chain_discovered` (+ `_method`, `_partial`, `_hint`)   (g) Model/Discovery.lean is this chain;
    `chain_discovery_benign`, `chain_discovered_total`: the modelled discovery meets the hypotheses of (f)
-/
import Sigverif.Props.Defs
import Sigverif.Lemmas.C07CChain
namespace SV

section
variable {σ : Type}

/-! ## vocabulary: what each component can do to the chain -/

/-- the forger lets the chain go on: no forger, or it returned `None` -/
def ForgerSilent (f : Option (COutcome σ)) : Prop := f = none ∨ f = some .noOpinion

/-- the forger raises `e` (nothing is caught around a forger, UnknownForwards included) -/
def ForgerRaises (f : Option (COutcome σ)) (e : Err) : Prop :=
  f = some (.raises e) ∨ (f = some .unknownForwards ∧ e = .unknownForwards)

/-- the hint lets the chain go on: no hint, or it returned `None`, or `autoforwards_ast` raised
    UnknownForwards on what it returned -/
def HintSilent (h : Option (COutcome σ)) : Prop :=
  h = none ∨ h = some .noOpinion ∨ h = some .unknownForwards

/-- an exception leaves the hint block uncaught: `autoforwards_ast` raised something else than
    UnknownForwards, or the hint callable itself raised (anything) -/
def HintRaises (h : Option (COutcome σ)) (e : Err) : Prop := h = some (.raises e)

/-- `autoforwards` lets the chain go on: it raised UnknownForwards (either spelling; `.noOpinion` cannot
    occur and is treated alike) -/
def AutoSilent (a : COutcome σ) : Prop :=
  a = .noOpinion ∨ a = .unknownForwards ∨ a = .raises .unknownForwards

/-- an exception leaves the `autoforwards` block uncaught: anything but UnknownForwards -/
def AutoRaises (a : COutcome σ) (e : Err) : Prop := a = .raises e ∧ e ≠ .unknownForwards

/-! ## (a) a declared forger that returns a signature decides, whatever the rest -/

theorem chain_forger_priority (auto : Bool) (c : ChainInputs σ) (s : σ)
    (h : c.forger = some (.sig s)) : forgedSignature auto c = .ok s := by
  exact c07c_forger_priority auto c s h

/-- non-vacuity: a hint that raises, an `autoforwards` that raises and no plain signature do not matter -/
example : forgedSignature true
    { forger := some (.sig 7), hint := some (.raises .typeError), auto_ := .raises .keyError,
      plain := .error .valueError } = (.ok 7 : Except Err Nat) := rfl

/-! ## (b) every successful result is the forger's, the hint's, autoforwards' or the plain signature -/

theorem chain_cases (auto : Bool) (c : ChainInputs σ) (s : σ)
    (h : forgedSignature auto c = .ok s) :
    c.forger = some (.sig s) ∨ (auto = true ∧ c.hint = some (.sig s))
      ∨ (auto = true ∧ c.auto_ = .sig s) ∨ c.plain = .ok s := by
  rcases (c07c_ok_iff auto c s).mp h with h | ⟨_, ha, h⟩ | ⟨_, ha, _, h⟩ | ⟨_, _, h⟩
  · exact .inl h
  · exact .inr (.inl ⟨ha, h⟩)
  · exact .inr (.inr (.inl ⟨ha, h⟩))
  · exact .inr (.inr (.inr h))

/-- … exactly: each source is used when all the earlier ones let the chain go on -/
theorem chain_ok_iff (auto : Bool) (c : ChainInputs σ) (s : σ) :
    forgedSignature auto c = .ok s ↔
      (c.forger = some (.sig s)
       ∨ (ForgerSilent c.forger ∧ auto = true ∧ c.hint = some (.sig s))
       ∨ (ForgerSilent c.forger ∧ auto = true ∧ HintSilent c.hint ∧ c.auto_ = .sig s)
       ∨ (ForgerSilent c.forger ∧ (auto = true → HintSilent c.hint ∧ AutoSilent c.auto_)
          ∧ c.plain = .ok s)) := by
  exact c07c_ok_iff auto c s

/-- non-vacuity: each of the four sources is used by some input -/
example : forgedSignature true
    { forger := some .noOpinion, hint := some (.sig 2), auto_ := .sig 3, plain := .ok 4 }
    = (.ok 2 : Except Err Nat) := rfl
example : forgedSignature true
    { forger := none, hint := some .unknownForwards, auto_ := .sig 3, plain := .ok 4 }
    = (.ok 3 : Except Err Nat) := rfl
example : forgedSignature true
    { forger := none, hint := some .noOpinion, auto_ := .unknownForwards, plain := .ok 4 }
    = (.ok 4 : Except Err Nat) := rfl
example : forgedSignature false
    { forger := none, hint := some (.sig 2), auto_ := .sig 3, plain := .ok 4 }
    = (.ok 4 : Except Err Nat) := rfl

/-! ## (c) exactly when the chain raises, and what -/

/-- the forger raised `e`; else (with `auto`) an uncaught `e` left the hint block; else (with `auto`)
    `autoforwards` raised `e`, not an UnknownForwards; else nothing produced a signature and
    `signatures.signature` raised `e`.

    Differs from the announced "else hint raised e ≠ UF → e" in one point, on purpose: in the hint slot
    `.raises e` is by definition an exception that is NOT caught (Model/Chain.lean: the `try` is around
    `autoforwards_ast` only, not around the call of the hint), so there is no side condition on `e` there;
    the UnknownForwards that IS caught is the outcome `.unknownForwards` (part of `HintSilent`). -/
theorem chain_raises_iff (auto : Bool) (c : ChainInputs σ) (e : Err) :
    forgedSignature auto c = .error e ↔
      (ForgerRaises c.forger e
       ∨ (ForgerSilent c.forger ∧ auto = true ∧ HintRaises c.hint e)
       ∨ (ForgerSilent c.forger ∧ auto = true ∧ HintSilent c.hint ∧ AutoRaises c.auto_ e)
       ∨ (ForgerSilent c.forger ∧ (auto = true → HintSilent c.hint ∧ AutoSilent c.auto_)
          ∧ c.plain = .error e)) := by
  exact c07c_error_iff auto c e

/-- non-vacuity: each of the four ways to raise -/
example : forgedSignature true
    { forger := some (.raises .valueError), hint := some (.sig 2), auto_ := .sig 3, plain := .ok 4 }
    = (.error .valueError : Except Err Nat) := rfl
example : forgedSignature true
    { forger := none, hint := some (.raises .typeError), auto_ := .sig 3, plain := .ok 4 }
    = (.error .typeError : Except Err Nat) := rfl
example : forgedSignature true
    { forger := none, hint := none, auto_ := .raises .typeError, plain := .ok 4 }
    = (.error .typeError : Except Err Nat) := rfl
example : forgedSignature true
    { forger := none, hint := none, auto_ := .unknownForwards, plain := .error .valueError }
    = (.error .valueError : Except Err Nat) := rfl

/-! ## (d) `auto = False`: the hint and autoforwards are never consulted -/

theorem chain_no_auto (f : Option (COutcome σ)) (h h' : Option (COutcome σ)) (a a' : COutcome σ)
    (p : Except Err σ) :
    forgedSignature false { forger := f, hint := h, auto_ := a, plain := p }
      = forgedSignature false { forger := f, hint := h', auto_ := a', plain := p } := by
  exact c07c_no_auto_indep f h h' a a' p

/-- … the result is the forger's word, else the plain signature -/
theorem chain_no_auto_eq (c : ChainInputs σ) :
    forgedSignature false c = (match forgerStep c.forger with | some r => r | none => c.plain) := by
  exact c07c_no_auto c

/-- non-vacuity: with `auto` the same inputs give something else -/
example : forgedSignature false
    { forger := none, hint := some (.raises .typeError), auto_ := .sig 3, plain := .ok 4 }
    = (.ok 4 : Except Err Nat)
  ∧ forgedSignature true
    { forger := none, hint := some (.raises .typeError), auto_ := .sig 3, plain := .ok 4 }
    = (.error .typeError : Except Err Nat) := ⟨rfl, rfl⟩

/-! ## (e) UnknownForwards never comes out of discovery -/

/-- exactly when the chain raises UnknownForwards: a forger raised it, or the hint CALLABLE raised it
    (not `autoforwards_ast`: that one is caught), or `signatures.signature` raised it.  `autoforwards`
    does not occur: whatever it does, no UnknownForwards comes out of it. -/
theorem chain_uf_iff (auto : Bool) (c : ChainInputs σ) :
    forgedSignature auto c = .error .unknownForwards ↔
      ((c.forger = some (.raises .unknownForwards) ∨ c.forger = some .unknownForwards)
       ∨ (ForgerSilent c.forger ∧ auto = true ∧ c.hint = some (.raises .unknownForwards))
       ∨ (ForgerSilent c.forger ∧ (auto = true → HintSilent c.hint ∧ AutoSilent c.auto_)
          ∧ c.plain = .error .unknownForwards)) := by
  rw [c07c_error_iff]
  simp only [ForgerSilent, HintSilent, AutoSilent, ne_eq, not_true_eq_false, and_false, and_true,
    false_or]

/-- ADDED HYPOTHESES `hh` (the hint callable itself does not raise UnknownForwards — outside the `try`)
    and `hp` (`signatures.signature(obj)` does not raise UnknownForwards — it can only do so through a
    forger behind a `__signature__` descriptor).  Nothing is asked of `c.auto_`, nor of what
    `autoforwards_ast` does in the hint block (`some .unknownForwards` is allowed).
    ORIGINAL STATEMENT (false, see `chain_uf_never_escapes_refuted`):
    theorem chain_uf_never_escapes (auto : Bool) (c : ChainInputs σ)
        (hf : c.forger ≠ some (.raises .unknownForwards) ∧ c.forger ≠ some .unknownForwards) :
        forgedSignature auto c ≠ .error .unknownForwards -/
theorem chain_uf_never_escapes_partial (auto : Bool) (c : ChainInputs σ)
    (hf : c.forger ≠ some (.raises .unknownForwards) ∧ c.forger ≠ some .unknownForwards)
    (hh : c.hint ≠ some (.raises .unknownForwards))
    (hp : c.plain ≠ .error .unknownForwards) :
    forgedSignature auto c ≠ .error .unknownForwards := by
  intro h
  rcases (chain_uf_iff auto c).mp h with (h | h) | ⟨_, _, h⟩ | ⟨_, _, h⟩
  · exact hf.1 h
  · exact hf.2 h
  · exact hh h
  · exact hp h

/-- non-vacuity of the partial statement: every UnknownForwards of discovery is there, none escapes -/
example :
    let c : ChainInputs Nat :=
      { forger := some .noOpinion, hint := some .unknownForwards, auto_ := .raises .unknownForwards,
        plain := .ok 4 }
    (c.forger ≠ some (.raises .unknownForwards) ∧ c.forger ≠ some .unknownForwards)
      ∧ c.hint ≠ some (.raises .unknownForwards) ∧ c.plain ≠ .error .unknownForwards
      ∧ forgedSignature true c = .ok 4 := by
  refine ⟨⟨by simp, by simp⟩, by simp, by simp, rfl⟩

/-- the statement with the hypothesis on the forger alone is false: a hint callable that raises
    UnknownForwards is not caught (no forger at all here; observed on the Python code too), and neither is
    an UnknownForwards of `signatures.signature` -/
theorem chain_uf_never_escapes_refuted :
    ¬ (∀ (auto : Bool) (c : ChainInputs Nat),
        (c.forger ≠ some (.raises .unknownForwards) ∧ c.forger ≠ some .unknownForwards) →
        forgedSignature auto c ≠ .error .unknownForwards) := by
  intro h
  exact h true { forger := none, hint := some (.raises .unknownForwards), auto_ := .sig 3, plain := .ok 4 }
    ⟨by simp, by simp⟩ rfl

theorem chain_uf_never_escapes_refuted_plain :
    ¬ (∀ (auto : Bool) (c : ChainInputs Nat),
        (c.forger ≠ some (.raises .unknownForwards) ∧ c.forger ≠ some .unknownForwards) →
        c.hint ≠ some (.raises .unknownForwards) →
        forgedSignature auto c ≠ .error .unknownForwards) := by
  intro h
  exact h false { forger := none, hint := none, auto_ := .sig 3, plain := .error .unknownForwards }
    ⟨by simp, by simp⟩ (by simp) rfl

/-- what C15 says of discovery: when `autoforwards` (or `autoforwards_ast` on the hint) raises
    UnknownForwards the chain does not raise it — it goes on to the next source -/
theorem chain_uf_of_autoforwards_caught (c : ChainInputs σ)
    (hf : ForgerSilent c.forger) (hh : HintSilent c.hint) (ha : AutoSilent c.auto_) :
    forgedSignature true c = c.plain := by
  rw [c07c_chain_eq]
  refine .inr (.inr (.inr ⟨(c07c_forgerStep_none _).mpr hf, fun _ => ⟨(c07c_hintStep_none _).mpr hh,
    (c07c_autoStep_none _).mpr ha⟩, rfl⟩))

example : forgedSignature true
    { forger := none, hint := some .unknownForwards, auto_ := .unknownForwards, plain := .ok 4 }
    = (.ok 4 : Except Err Nat) := rfl

/-! ## (f) benign discovery: total when the plain signature exists -/

/-- no forger with an opinion; the hint block and `autoforwards` only return signatures, `None` or raise
    UnknownForwards where it is caught: then the chain succeeds whenever `signatures.signature` does, with
    the plain signature or a discovered one -/
theorem chain_total_of_plain (auto : Bool) (c : ChainInputs σ) (p : σ)
    (hf : ForgerSilent c.forger)
    (hh : ∀ e, ¬ HintRaises c.hint e)
    (ha : ∀ e, ¬ AutoRaises c.auto_ e)
    (hp : c.plain = .ok p) :
    ∃ s, forgedSignature auto c = .ok s
      ∧ (s = p ∨ (auto = true ∧ (c.hint = some (.sig s) ∨ c.auto_ = .sig s))) := by
  cases hr : forgedSignature auto c with
  | ok s =>
    refine ⟨s, rfl, ?_⟩
    rcases chain_cases auto c s hr with h | ⟨h1, h2⟩ | ⟨h1, h2⟩ | h
    · rcases hf with hf | hf <;> rw [hf] at h <;> cases h
    · exact .inr ⟨h1, .inl h2⟩
    · exact .inr ⟨h1, .inr h2⟩
    · rw [hp] at h
      cases h
      exact .inl rfl
  | error e =>
    exfalso
    rcases (chain_raises_iff auto c e).mp hr with h | ⟨_, _, h⟩ | ⟨_, _, _, h⟩ | ⟨_, _, h⟩
    · rcases hf with hf | hf <;> rcases h with h | ⟨h, _⟩ <;> rw [hf] at h <;> cases h
    · exact hh e h
    · exact ha e h
    · rw [hp] at h
      cases h

/-- … and under the same hypotheses an exception of the chain is the exception of
    `signatures.signature` ("where inspect.signature raises, the same exception type is raised") -/
theorem chain_error_of_plain (auto : Bool) (c : ChainInputs σ) (e : Err)
    (hf : ForgerSilent c.forger)
    (hh : ∀ e, ¬ HintRaises c.hint e)
    (ha : ∀ e, ¬ AutoRaises c.auto_ e)
    (hr : forgedSignature auto c = .error e) : c.plain = .error e := by
  rcases (chain_raises_iff auto c e).mp hr with h | ⟨_, _, h⟩ | ⟨_, _, _, h⟩ | ⟨_, _, h⟩
  · rcases hf with hf | hf <;> rcases h with h | ⟨h, _⟩ <;> rw [hf] at h <;> cases h
  · exact (hh e h).elim
  · exact (ha e h).elim
  · exact h

/-- non-vacuity: the hypotheses of (f) hold of an input on which both discovery routes give up, and of
    one where `autoforwards` finds a signature; the conclusion is the plain resp. the discovered one -/
example :
    let c : ChainInputs Nat :=
      { forger := some .noOpinion, hint := some .unknownForwards, auto_ := .unknownForwards, plain := .ok 4 }
    ForgerSilent c.forger ∧ (∀ e, ¬ HintRaises c.hint e) ∧ (∀ e, ¬ AutoRaises c.auto_ e)
      ∧ forgedSignature true c = .ok 4 := by
  refine ⟨.inr rfl, ?_, ?_, rfl⟩
  · intro e h; cases h
  · intro e h; cases h.1
example :
    let c : ChainInputs Nat :=
      { forger := none, hint := none, auto_ := .sig 3, plain := .ok 4 }
    ForgerSilent c.forger ∧ (∀ e, ¬ HintRaises c.hint e) ∧ (∀ e, ¬ AutoRaises c.auto_ e)
      ∧ forgedSignature true c = .ok 3 ∧ forgedSignature false c = .ok 4 := by
  refine ⟨.inl rfl, ?_, ?_, rfl, rfl⟩
  · intro e h; cases h
  · intro e h; cases h.1
example :
    let c : ChainInputs Nat :=
      { forger := none, hint := none, auto_ := .raises .unknownForwards, plain := .error .typeError }
    ForgerSilent c.forger ∧ (∀ e, ¬ HintRaises c.hint e) ∧ (∀ e, ¬ AutoRaises c.auto_ e)
      ∧ forgedSignature true c = .error .typeError := by
  refine ⟨.inl rfl, ?_, ?_, rfl⟩
  · intro e h; cases h
  · intro e h
    obtain ⟨h1, h2⟩ := h
    cases h1
    exact h2 rfl

end

/-! ## (g) Model/Discovery.lean is this chain -/

/-- `discovered` = the chain of a plain function: no forger, no hint, `autoforwards` is
    `autoforwards_function` (`autoFn`), the plain signature exists -/
theorem chain_discovered (own : USig) (resolve : RM → RVal) (calls : Option (List CallRec)) :
    discovered own resolve calls
      = forgedSignature true
          { forger := none, hint := none,
            auto_ := COutcome.ofExcept (autoFn own resolve calls), plain := .ok own } := by
  exact c07c_discovered_eq own resolve calls

/-- non-vacuity: a body without forwarding call — discovery gives up (UnknownForwards), the chain
    answers the own signature; on both sides of the equation -/
example :
    let own : USig := { params := [{ name := 1, kind := .pk }, { name := 2, kind := .vp }] }
    autoFn own (fun _ => .other) (some []) = .error .unknownForwards
      ∧ discovered own (fun _ => .other) (some []) = .ok own
      ∧ forgedSignature true
          { forger := none, hint := none,
            auto_ := COutcome.ofExcept (autoFn own (fun _ => .other) (some [])), plain := .ok own }
        = .ok own := ⟨rfl, rfl, rfl⟩

/-- a bound method: `autoforwards` is `autoforwards_method` (`autoMethod`), the plain signature is
    `mask(own, 1)` -/
theorem chain_discovered_method (own : USig) (resolve : RM → RVal) (calls : Option (List CallRec)) :
    discoveredMethod own resolve calls
      = forgedSignature true
          { forger := none, hint := none,
            auto_ := COutcome.ofExcept (autoMethod own resolve calls), plain := mask own 1 [] {} } := by
  exact c07c_discoveredMethod_eq own resolve calls

/-- a `functools.partial` object: `autoforwards` is `autoforwards_partial` (`autoPartial`) -/
theorem chain_discovered_partial (own : USig) (resolve : RM → RVal) (calls : Option (List CallRec))
    (n : Nat) (kw : List (Nat × Nat)) (pobj : Nat) :
    discoveredPartial own resolve calls n kw pobj
      = forgedSignature true
          { forger := none, hint := none,
            auto_ := COutcome.ofExcept (autoPartial own resolve calls n kw pobj),
            plain := maskPartial own n kw pobj } := by
  exact c07c_discoveredPartial_eq own resolve calls n kw pobj

/-- a function behind `modifiers.kwoargs / posoargs / autokwoargs` whose decoration succeeded: the object
    HAS a hint (`hintOutcome`: `None` without source, else `autoforwards_ast` on the rewritten signature),
    and its `autoforwards` is `autoforwards_hint`, which asks the hint again -/
theorem chain_discovered_hint (own : USig) (P W : List Nat) (resolve : RM → RVal)
    (calls : Option (List CallRec)) (ps : List Param) (x : List (Nat × Param))
    (hp : prepare own.params P W = .ok (ps, x)) :
    discoveredHint own P W resolve calls
      = forgedSignature true
          { forger := none, hint := some (hintOutcome { own with params := ps } resolve calls),
            auto_ := COutcome.ofExcept (autoFn { own with params := ps } resolve calls),
            plain := .ok { own with params := ps } } := by
  exact c07c_discoveredHint_eq own P W resolve calls ps x hp

/-- the `autoforwards` of the model is benign in the sense of (f): `autoforwards_function` fails with
    UnknownForwards only (every failure of name resolution, retrieval, `forwards`, `merge` is turned into
    one), so no exception leaves its block -/
theorem chain_discovery_benign (own : USig) (resolve : RM → RVal) (calls : Option (List CallRec)) (e : Err) :
    ¬ AutoRaises (COutcome.ofExcept (autoFn own resolve calls)) e := by
  intro ⟨h1, h2⟩
  cases hx : autoFn own resolve calls with
  | ok s => rw [hx] at h1; cases h1
  | error e' =>
    have := c07c_autoFn_error own resolve calls e' hx
    subst this
    rw [hx] at h1
    cases h1

/-- so what (f) says of the chain holds of `discovered` without any hypothesis (`discovered_total`,
    Props/C06.lean, obtained through the chain): the result is the own signature or the discovered one -/
theorem chain_discovered_total (own : USig) (resolve : RM → RVal) (calls : Option (List CallRec)) :
    ∃ s, discovered own resolve calls = .ok s
      ∧ (s = own ∨ autoFn own resolve calls = .ok s) := by
  rw [chain_discovered]
  obtain ⟨s, hs, h⟩ := chain_total_of_plain true
    { forger := none, hint := none, auto_ := COutcome.ofExcept (autoFn own resolve calls),
      plain := .ok own } own (.inl rfl) (by intro e h; cases h)
    (chain_discovery_benign own resolve calls) rfl
  refine ⟨s, hs, ?_⟩
  rcases h with h | ⟨_, h | h⟩
  · exact .inl h
  · cases h
  · simp only at h
    cases hx : autoFn own resolve calls with
    | ok s' => rw [hx] at h; cases h; exact .inr rfl
    | error e => rw [hx] at h; cases e <;> cases h

end SV
