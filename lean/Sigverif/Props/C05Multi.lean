/-
  Props/C05Multi.lean — property C05, SEVERAL forwarding calls together with KEYWORDS in the call.

  Property text (C05): "For any function whose body forwards its *args/**kwargs — … or several calls
  on different branches — every non-colliding call accepted by sigtools.signature(f) runs without an
  argument-binding TypeError raised by f or by a callee it forwards to, or else the reported
  signature is exactly what plain retrieval reports for f."

  What is here (Props/C05Sound.lean has: any number of calls + all-positional calls, and one
  forwarding call + every non-colliding call):

  * `discovery_sound_roles_needs_roleCons` — finding D23: without role-consistency of the per-call
    signatures the statement is false (`g0(*args, **kwargs); g0(1, *args, **kwargs)`).
  * `discovery_sound_roles_refuted` — FINDING (new, reproduced on the pinned Python code): even WITH
    role-consistent per-call signatures the statement is false when "non-colliding" is read on the
    reported signature R, the wrapper and the callees: a keyword-passable parameter of R that stems
    from ONE callee can carry the name of a parameter of ANOTHER callee which that call site
    already fills by position — the per-call signature of that call no longer has the name (so
    role-consistency says nothing about it), its `**kwargs` swallows the keyword, and the callee
    then gets the argument twice.
  * `discovery_sound_roles_partial` — the statement with exactly one ADDED HYPOTHESIS (`hkeep`).
  * `discovery_sound_roles_percall` — the statement with the two non-collision hypotheses of
    `merge_sound_roles` / `forwards_sound` taken as they are (implies the previous one).
  * `program_sound_roles` — composed with `visitor_eq_truth`: for every program of the forwarding
    grammar, about the calls that really happen (the generator's ground truth).
-/
import Sigverif.Props.C05Sound
import Sigverif.Lemmas.C05MMain
import Sigverif.Lemmas.LawsEval
namespace SV

/-! ## vocabulary -/

/-- `w` is the callee of the call record `c`: what the callee expression resolves to, or — for a
    call `functools.partial(g, …)` — what its first argument resolves to.  (These are exactly the
    signatures `forward_signatures` hands to `forwards` as `inner`.) -/
def IsCallee (resolve : RM → RVal) (c : CallRec) (w : USig) : Prop :=
  resolve c.wrapped = .fn w ∨
    (resolve c.wrapped = .partialCtor ∧ ∃ a0 t, c.args = a0 :: t ∧ resolve a0 = .fn w)

/-- "non-colliding" for a discovered signature, in terms a user can check: every keyword of the
    call is a keyword-passable parameter of the reported signature R, or is not a parameter name of
    the wrapper nor of any callee it forwards to.  (`nonColl R.params (own :: callees) K` of
    Props/Defs.lean, with the callees given by the call records.) -/
def nonCollFwd (own R : USig) (resolve : RM → RVal) (cs : List CallRec) (K : List Nat) : Prop :=
  ∀ k ∈ K, k ∈ kwNames R.params ∨
    (k ∉ allNames own.params ∧ ∀ c ∈ forwarding cs, ∀ w, IsCallee resolve c w → k ∉ allNames w.params)

/-! ## the theorems -/

/-- **discovery is sound: any number of forwarding calls, every non-colliding call,
    role-consistent per-call signatures** — with one added hypothesis.

    ORIGINAL STATEMENT (FALSE, see `discovery_sound_roles_refuted` below):
      theorem discovery_sound_roles (own R) (resolve) (cs) (ss) (m) (K)
          (ho : WF own.params) (hres : ∀ r w, resolve r = .fn w → WF w.params) (hK : K.Nodup)
          (hall : declaredAll own resolve (forwarding cs) = .ok ss)
          (hrc : roleCons (ss.map (·.params)))
          (hd : discovered own resolve (some cs) = .ok R)
          (hnc : nonCollFwd own R resolve cs K)
          (hacc : accepts R.params m K = true) :
          R = own ∨ ∀ c ∈ forwarding cs, ∀ w, PlainFwd resolve c w → (∀ k ∈ K, k ∉ c.kwargs.map (·.1)) →
            wrapperRuns own.params w.params c.args.length (c.kwargs.map (·.1)) c.useVa c.useVk m K = true

    ADDED HYPOTHESIS `hkeep`: a keyword of the call that is a keyword-passable parameter of R and
    names a parameter of the wrapper or of a callee `w` still names a parameter of the per-call
    signature `s = forwards(own, w, …)` of every plain call to `w`.  It fails exactly in the
    situation of the refutation: the name was consumed at the call site (one of the first
    `c.args.length` positionals of `w`), or is the name of a forwarded star parameter, or was dropped
    because the wrapper cannot forward it — then the per-call signature takes the keyword in its
    `**kwargs` although the callee (or wrapper) has a parameter of that name.  `s` is what the public
    `sigtools.signatures.forwards` returns, so the hypothesis can be checked by a user.
    The two disjuncts of `hkeep` and `hnc` are what `forwards_sound` needs of each call
    (`nonColl s.params [own.params, w.params] K`); role-consistency turns "names a parameter of `s`"
    into "keyword-passable in `s`" (`c05m_merge_kw_roles`). -/
theorem discovery_sound_roles_partial (own R : USig) (resolve : RM → RVal) (cs : List CallRec) (ss : List USig)
    (m : Nat) (K : List Nat)
    (ho : WF own.params) (hres : ∀ r w, resolve r = .fn w → WF w.params) (hK : K.Nodup)
    (hall : declaredAll own resolve (forwarding cs) = .ok ss)
    (hrc : roleCons (ss.map (·.params)))
    (hd : discovered own resolve (some cs) = .ok R)
    (hnc : nonCollFwd own R resolve cs K)
    (hkeep : ∀ c ∈ forwarding cs, ∀ w s, PlainFwd resolve c w → declared own resolve c = .ok s →
      ∀ k ∈ K, k ∈ kwNames R.params →
        k ∈ allNames s.params ∨ (k ∉ allNames own.params ∧ k ∉ allNames w.params))
    (hacc : accepts R.params m K = true) :
    R = own ∨ ∀ c ∈ forwarding cs, ∀ w, PlainFwd resolve c w → (∀ k ∈ K, k ∉ c.kwargs.map (·.1)) →
      wrapperRuns own.params w.params c.args.length (c.kwargs.map (·.1)) c.useVa c.useVk m K = true :=
  c05m_sound_partial own R resolve cs ss m K ho hres hK hall hrc hd hnc hkeep hacc

/-- the same with the non-collision hypotheses of `merge_sound_roles` (w.r.t. the per-call
    signatures) and of `forwards_sound` (for each plain call, w.r.t. its per-call signature, the
    wrapper and the callee) as they are; `discovery_sound_roles_partial` is the special case where
    they are derived from `nonCollFwd` and `hkeep` -/
theorem discovery_sound_roles_percall (own R : USig) (resolve : RM → RVal) (cs : List CallRec) (ss : List USig)
    (m : Nat) (K : List Nat)
    (ho : WF own.params) (hres : ∀ r w, resolve r = .fn w → WF w.params) (hK : K.Nodup)
    (hall : declaredAll own resolve (forwarding cs) = .ok ss)
    (hrc : roleCons (ss.map (·.params)))
    (hd : discovered own resolve (some cs) = .ok R)
    (hnc1 : nonColl R.params (ss.map (·.params)) K)
    (hnc2 : ∀ c ∈ forwarding cs, ∀ w s, PlainFwd resolve c w → declared own resolve c = .ok s →
              nonColl s.params [own.params, w.params] K)
    (hacc : accepts R.params m K = true) :
    R = own ∨ ∀ c ∈ forwarding cs, ∀ w, PlainFwd resolve c w → (∀ k ∈ K, k ∉ c.kwargs.map (·.1)) →
      wrapperRuns own.params w.params c.args.length (c.kwargs.map (·.1)) c.useVa c.useVk m K = true :=
  c05m_sound_percall own R resolve cs ss m K ho hres hK hall hrc hd hnc1 hnc2 hacc

/-- for every program of the whole forwarding grammar (nested functions, lambdas, `nonlocal`): what
    retrieval makes of the walker's records is sound — for every non-colliding call, with keywords —
    for the calls that really happen when the program runs (the generator's ground truth), when the
    per-call signatures are role-consistent.  ADDED HYPOTHESIS `hkeep` as in
    `discovery_sound_roles_partial` (without it the statement is false: the program of
    `discovery_sound_roles_refuted` is a program of the grammar). -/
theorem program_sound_roles (p : Prog) (hp : GrammarProg p) (own R : USig) (resolve : RM → RVal)
    (ss : List USig) (m : Nat) (K : List Nat)
    (ho : WF own.params) (hres : ∀ r w, resolve r = .fn w → WF w.params) (hK : K.Nodup)
    (cs : List CallRec) (hv : runVisitor (render p) = .ok cs)
    (hall : declaredAll own resolve (forwarding cs) = .ok ss)
    (hrc : roleCons (ss.map (·.params)))
    (hd : discovered own resolve (some cs) = .ok R)
    (hnc : nonCollFwd own R resolve cs K)
    (hkeep : ∀ c ∈ forwarding cs, ∀ w s, PlainFwd resolve c w → declared own resolve c = .ok s →
      ∀ k ∈ K, k ∈ kwNames R.params →
        k ∈ allNames s.params ∨ (k ∉ allNames own.params ∧ k ∉ allNames w.params))
    (hacc : accepts R.params m K = true) :
    R = own ∨ ∀ f ∈ truth p, ∀ w, PlainFwd resolve (f.toRec p) w →
      (∀ k ∈ K, k ∉ (f.toRec p).kwargs.map (·.1)) →
      wrapperRuns own.params w.params (f.toRec p).args.length ((f.toRec p).kwargs.map (·.1)) f.useVa f.useVk m K = true := by
  have ht := visitor_eq_truth p hp
  rw [hv] at ht
  simp only [Except.map, Except.ok.injEq] at ht
  rcases discovery_sound_roles_partial own R resolve cs ss m K ho hres hK hall hrc hd hnc hkeep hacc with h | h
  · exact .inl h
  · right
    intro f hf w hpw hdisj
    have hc : f.toRec p ∈ forwarding cs := by rw [ht]; exact List.mem_map.2 ⟨f, hf, rfl⟩
    exact h _ hc w hpw hdisj

/-! ## the refutation of the original statement (FINDING, reproduced on the pinned code)

```
def g1_C05M(x, *a, **kw): ...
def g2(*, x): ...
def w(*args, **kwargs):
    g1_C05M(1, *args, **kwargs)      # per-call signature (*a, **kw): `x` is filled at the call site
    g2(*args, **kwargs)         # per-call signature (*, x)
```
`sigtools.specifiers.signature(w)` is `(*, x)`; `w(x=5)` raises
`TypeError: g1_C05M() got multiple values for argument 'x'`.  The per-call signatures share no name,
so they are role-consistent; `x` is a keyword-passable parameter of R, so the call is non-colliding. -/

/-- `(*args, **kwargs)` -/
def mOwn : USig := { params := [⟨11, .vp, none, none, .empty⟩, ⟨12, .vk, none, none, .empty⟩],
                     src := [(11, [1]), (12, [1])], depths := [(1, 0)] }
/-- `g1_C05M(x, *a, **kw)` -/
def mG1 : USig := { params := [⟨2, .pk, none, none, .empty⟩, ⟨13, .vp, none, none, .empty⟩, ⟨14, .vk, none, none, .empty⟩],
                    src := [(2, [2]), (13, [2]), (14, [2])], depths := [(2, 0)] }
/-- `g2(*, x)` -/
def mG2 : USig := { params := [⟨2, .ko, none, none, .empty⟩], src := [(2, [3])], depths := [(3, 0)] }
def mRes : RM → RVal
  | .nm 21 => .fn mG1
  | .nm 22 => .fn mG2
  | _ => .unresolvable
/-- `g1_C05M(1, *args, **kwargs)` -/
def mRec1 : CallRec := { wrapped := .nm 21, args := [.unknown], kwargs := [], varargs := some (.arg 11 (some .va)),
                         varkwargs := some (.arg 12 (some .vk)), useVa := true, useVk := true, hideA := false, hideK := false }
/-- `g2(*args, **kwargs)` -/
def mRec2 : CallRec := { mRec1 with wrapped := .nm 22, args := [] }
/-- per-call signature of the first call: `(*a, **kw)` -/
def mS1 : USig := { params := [⟨13, .vp, none, none, .empty⟩, ⟨14, .vk, none, none, .empty⟩],
                    src := [(13, [2]), (14, [2])], depths := [(1, 0), (2, 1)] }
/-- per-call signature of the second call: `(*, x)` -/
def mS2 : USig := { params := [⟨2, .ko, none, none, .empty⟩], src := [(2, [3])], depths := [(1, 0), (3, 1)] }
/-- the discovered signature: `(*, x)` -/
def mR : USig := { params := [⟨2, .ko, none, none, .empty⟩], src := [(2, [3])], depths := [(1, 0), (2, 1), (3, 1)] }

theorem mRes_wf : ∀ r w, mRes r = .fn w → WF w.params := by
  intro r w h
  unfold mRes at h
  split at h
  · cases h; decide
  · cases h; decide
  · cases h
theorem mD1 : declared mOwn mRes mRec1 = .ok mS1 := by
  simp only [declared, mRec1, mRes, mOwn, mG1, mS1, calleeRetrievable, bindPartialOk]
  sv_eval
  simp [hasVa, hasVk, positionals, isPositional, bindKw]
theorem mD2 : declared mOwn mRes mRec2 = .ok mS2 := by
  simp only [declared, mRec2, mRec1, mRes, mOwn, mG2, mS2, calleeRetrievable, bindPartialOk]
  sv_eval
  simp [hasVa, hasVk]
theorem mAll : declaredAll mOwn mRes (forwarding [mRec1, mRec2]) = .ok [mS1, mS2] := by
  have : forwarding [mRec1, mRec2] = [mRec1, mRec2] := by decide
  rw [this]
  simp only [declaredAll, mD1, mD2, bind, Except.bind, pure, Except.pure]
theorem mMerge : merge [mS1, mS2] = .ok mR := by
  simp only [mS1, mS2, mR]; sv_eval
theorem mDisc : discovered mOwn mRes (some [mRec1, mRec2]) = .ok mR := by
  rw [discovered_eq_declared, mAll]
  simp only [mMerge]
theorem mRoles : roleCons ([mS1, mS2].map (·.params)) := by
  have h : ∀ s ∈ [mS1, mS2].map (·.params), ∀ t ∈ [mS1, mS2].map (·.params),
      ∀ x ∈ allNames s, x ∈ allNames t → kindOf s x = kindOf t x ∧ posIndex s x = posIndex t x := by
    decide
  exact fun s hs t ht x hx hy => h s hs t ht x hx hy
theorem mPlain1 : PlainFwd mRes mRec1 mG1 :=
  ⟨rfl, rfl, rfl, by simp [mRec1], by intro p _ _; simp [mRec1]⟩

/-- every hypothesis of the original statement holds — the wrapper and the callees are valid, the
    per-call signatures are role-consistent, discovery returns `(*, x)` (not the plain signature),
    the call `w(x=…)` is non-colliding (`x` is keyword-passable in R) and accepted by R — and the
    plain forwarding call `g1_C05M(1, *args, **kwargs)` fails to bind it -/
theorem discovery_sound_roles_refuted :
    ∃ (own R : USig) (resolve : RM → RVal) (cs : List CallRec) (ss : List USig) (m : Nat) (K : List Nat),
      WF own.params ∧ (∀ r w, resolve r = .fn w → WF w.params) ∧ K.Nodup ∧
      declaredAll own resolve (forwarding cs) = .ok ss ∧
      roleCons (ss.map (·.params)) ∧
      discovered own resolve (some cs) = .ok R ∧
      nonCollFwd own R resolve cs K ∧
      accepts R.params m K = true ∧
      R ≠ own ∧
      ∃ c ∈ forwarding cs, ∃ w, PlainFwd resolve c w ∧ (∀ k ∈ K, k ∉ c.kwargs.map (·.1)) ∧
        wrapperRuns own.params w.params c.args.length (c.kwargs.map (·.1)) c.useVa c.useVk m K = false := by
  refine ⟨mOwn, mR, mRes, [mRec1, mRec2], [mS1, mS2], 0, [2], by decide, mRes_wf, by decide, mAll, mRoles,
    mDisc, ?_, by decide, by decide, mRec1, by decide, mG1, mPlain1, by decide, by decide⟩
  intro k hk
  simp only [List.mem_singleton] at hk
  subst hk
  exact .inl (by decide)

/-- the original statement, at full strength -/
def discovery_sound_roles_full : Prop :=
  ∀ (own R : USig) (resolve : RM → RVal) (cs : List CallRec) (ss : List USig) (m : Nat) (K : List Nat),
    WF own.params → (∀ r w, resolve r = .fn w → WF w.params) → K.Nodup →
    declaredAll own resolve (forwarding cs) = .ok ss →
    roleCons (ss.map (·.params)) →
    discovered own resolve (some cs) = .ok R →
    nonCollFwd own R resolve cs K →
    accepts R.params m K = true →
    R = own ∨ ∀ c ∈ forwarding cs, ∀ w, PlainFwd resolve c w → (∀ k ∈ K, k ∉ c.kwargs.map (·.1)) →
      wrapperRuns own.params w.params c.args.length (c.kwargs.map (·.1)) c.useVa c.useVk m K = true

theorem discovery_sound_roles_full_refuted : ¬ discovery_sound_roles_full := by
  intro h
  obtain ⟨own, R, resolve, cs, ss, m, K, ho, hres, hK, hall, hrc, hd, hnc, hacc, hne, c, hc, w, hp, hdisj, hrun⟩ :=
    discovery_sound_roles_refuted
  rcases h own R resolve cs ss m K ho hres hK hall hrc hd hnc hacc with h | h
  · exact hne h
  · rw [h c hc w hp hdisj] at hrun
    cases hrun

/-- the added hypothesis `hkeep` fails on the witness (as it must): `x` is keyword-passable in R,
    names a parameter of `g1_C05M`, and the per-call signature `(*a, **kw)` has no parameter `x` -/
example : 2 ∈ kwNames mR.params ∧ 2 ∉ allNames mS1.params ∧ 2 ∈ allNames mG1.params := by decide

/-! ## role-consistency is needed (finding D23)

```
def g(a, b, **kw): ...
def w(*args, **kwargs):
    g(*args, **kwargs)          # per-call signature (a, b, **kw)
    g(1, *args, **kwargs)       # per-call signature (b, **kw): `b` is the FIRST positional here
```
retrieval returns `(a, /, *, b, **kw)`; the call `w(1, b=…)` is accepted, non-colliding, keeps its
names in both per-call signatures — and the second call is `g(1, 1, b=…)`. -/

def nG : USig := { params := [⟨1, .pk, none, none, .empty⟩, ⟨2, .pk, none, none, .empty⟩, ⟨14, .vk, none, none, .empty⟩],
                   src := [(1, [2]), (2, [2]), (14, [2])], depths := [(2, 0)] }
def nRes : RM → RVal
  | .nm 21 => .fn nG
  | _ => .unresolvable
/-- `g(*args, **kwargs)` -/
def nRec0 : CallRec := { mRec1 with args := [] }
/-- `(a, b, **kw)` -/
def nS0 : USig := { params := [⟨1, .pk, none, none, .empty⟩, ⟨2, .pk, none, none, .empty⟩, ⟨14, .vk, none, none, .empty⟩],
                    src := [(1, [2]), (2, [2]), (14, [2])], depths := [(1, 0), (2, 1)] }
/-- `(b, **kw)` -/
def nS1 : USig := { params := [⟨2, .pk, none, none, .empty⟩, ⟨14, .vk, none, none, .empty⟩],
                    src := [(2, [2]), (14, [2])], depths := [(1, 0), (2, 1)] }
/-- `(a, /, *, b, **kw)` -/
def nR : USig := { params := [⟨1, .po, none, none, .empty⟩, ⟨2, .ko, none, none, .empty⟩, ⟨14, .vk, none, none, .empty⟩],
                   src := [(1, [2]), (2, [2]), (14, [2, 2])], depths := [(1, 0), (2, 1)] }

theorem nRes_wf : ∀ r w, nRes r = .fn w → WF w.params := by
  intro r w h
  unfold nRes at h
  split at h
  · cases h; decide
  · cases h
theorem nD0 : declared mOwn nRes nRec0 = .ok nS0 := by
  simp only [declared, nRec0, mRec1, nRes, mOwn, nG, nS0, calleeRetrievable, bindPartialOk]
  sv_eval
  simp [hasVa, hasVk, bindKw]
theorem nD1 : declared mOwn nRes mRec1 = .ok nS1 := by
  simp only [declared, mRec1, nRes, mOwn, nG, nS1, calleeRetrievable, bindPartialOk]
  sv_eval
  simp [hasVa, hasVk, positionals, isPositional, bindKw]
theorem nAll : declaredAll mOwn nRes (forwarding [nRec0, mRec1]) = .ok [nS0, nS1] := by
  have : forwarding [nRec0, mRec1] = [nRec0, mRec1] := by decide
  rw [this]
  simp only [declaredAll, nD0, nD1, bind, Except.bind, pure, Except.pure]
theorem nMerge : merge [nS0, nS1] = .ok nR := by
  simp only [nS0, nS1, nR]; sv_eval
theorem nDisc : discovered mOwn nRes (some [nRec0, mRec1]) = .ok nR := by
  rw [discovered_eq_declared, nAll]
  simp only [nMerge]
theorem nPlain (c : CallRec) (hc : c ∈ [nRec0, mRec1]) (w : USig) (hp : PlainFwd nRes c w) : w = nG := by
  have h := hp.res
  simp only [List.mem_cons, List.not_mem_nil, or_false] at hc
  rcases hc with rfl | rfl <;> (simp only [nRec0, mRec1, nRes] at h; cases h; rfl)

/-- every hypothesis of `discovery_sound_roles_partial` except role-consistency holds (the added
    one included), and the conclusion fails -/
theorem discovery_sound_roles_needs_roleCons :
    ∃ (own R : USig) (resolve : RM → RVal) (cs : List CallRec) (ss : List USig) (m : Nat) (K : List Nat),
      WF own.params ∧ (∀ r w, resolve r = .fn w → WF w.params) ∧ K.Nodup ∧
      declaredAll own resolve (forwarding cs) = .ok ss ∧
      ¬ roleCons (ss.map (·.params)) ∧
      discovered own resolve (some cs) = .ok R ∧
      nonCollFwd own R resolve cs K ∧
      (∀ c ∈ forwarding cs, ∀ w s, PlainFwd resolve c w → declared own resolve c = .ok s →
        ∀ k ∈ K, k ∈ kwNames R.params →
          k ∈ allNames s.params ∨ (k ∉ allNames own.params ∧ k ∉ allNames w.params)) ∧
      accepts R.params m K = true ∧
      R ≠ own ∧
      ∃ c ∈ forwarding cs, ∃ w, PlainFwd resolve c w ∧ (∀ k ∈ K, k ∉ c.kwargs.map (·.1)) ∧
        wrapperRuns own.params w.params c.args.length (c.kwargs.map (·.1)) c.useVa c.useVk m K = false := by
  have hfw : forwarding [nRec0, mRec1] = [nRec0, mRec1] := by decide
  refine ⟨mOwn, nR, nRes, [nRec0, mRec1], [nS0, nS1], 1, [2], by decide, nRes_wf, by decide, nAll, ?_,
    nDisc, ?_, ?_, by decide, by decide, mRec1, by decide, nG,
    ⟨rfl, rfl, rfl, by simp [mRec1], by intro p _ _; simp [mRec1]⟩, by decide, by decide⟩
  · intro h
    have := (h nS0.params (by simp) nS1.params (by simp) 2 (by decide) (by decide)).2
    revert this
    decide
  · intro k hk
    simp only [List.mem_singleton] at hk
    subst hk
    exact .inl (by decide)
  · intro c hc w s _ hdc k hk _
    simp only [List.mem_singleton] at hk
    subst hk
    rw [hfw] at hc
    simp only [List.mem_cons, List.not_mem_nil, or_false] at hc
    rcases hc with rfl | rfl
    · rw [nD0] at hdc; cases hdc; exact .inl (by decide)
    · rw [nD1] at hdc; cases hdc; exact .inl (by decide)

/-! ## non-vacuity: two forwarding calls to two different callees, consistent roles

```
def g1_C05M(x, y=1, **kw): ...
def g2(x, *, z=2, **kw2): ...
def w(*args, **kwargs):
    if c:
        g1_C05M(*args, **kwargs)     # per-call signature (x, y=1, **kw)
    r = g2(*args, **kwargs)     # per-call signature (x, *, z=2, **kw2)
```
retrieval returns `(x, *, y=1, z=2, **kw2)`; the mixed call `w(_, z=…, q=…)` (one positional, the
keyword `z` of `g2` only, and a keyword `q` no signature knows) is accepted, meets all hypotheses,
and both callees bind it. -/

def vG1 : USig := { params := [⟨2, .pk, none, none, .empty⟩, ⟨3, .pk, some 1, none, .empty⟩, ⟨14, .vk, none, none, .empty⟩],
                    src := [(2, [2]), (3, [2]), (14, [2])], depths := [(2, 0)] }
def vG2 : USig := { params := [⟨2, .pk, none, none, .empty⟩, ⟨4, .ko, some 2, none, .empty⟩, ⟨15, .vk, none, none, .empty⟩],
                    src := [(2, [3]), (4, [3]), (15, [3])], depths := [(3, 0)] }
def vRes : RM → RVal
  | .nm 21 => .fn vG1
  | .nm 22 => .fn vG2
  | _ => .unresolvable
def vRec1 : CallRec := { mRec1 with args := [] }
def vRec2 : CallRec := { vRec1 with wrapped := .nm 22 }
def vS1 : USig := { params := [⟨2, .pk, none, none, .empty⟩, ⟨3, .pk, some 1, none, .empty⟩, ⟨14, .vk, none, none, .empty⟩],
                    src := [(2, [2]), (3, [2]), (14, [2])], depths := [(1, 0), (2, 1)] }
def vS2 : USig := { params := [⟨2, .pk, none, none, .empty⟩, ⟨4, .ko, some 2, none, .empty⟩, ⟨15, .vk, none, none, .empty⟩],
                    src := [(2, [3]), (4, [3]), (15, [3])], depths := [(1, 0), (3, 1)] }
def vR : USig := { params := [⟨2, .pk, none, none, .empty⟩, ⟨3, .ko, some 1, none, .empty⟩, ⟨4, .ko, some 2, none, .empty⟩,
                              ⟨15, .vk, none, none, .empty⟩],
                   src := [(2, [2, 3]), (3, [2]), (4, [3]), (15, [3])], depths := [(1, 0), (2, 1), (3, 1)] }
/-- the program above -/
def vProg : Prog :=
  { params := [], va := 11, vk := 12,
    body := .cons (.block (.cons (.fwd (.name 21 .load) 0 [] true true none) .nil))
           (.cons (.fwd (.name 22 .load) 0 [] true true (some 31)) .nil) }

theorem vRes_wf : ∀ r w, vRes r = .fn w → WF w.params := by
  intro r w h
  unfold vRes at h
  split at h
  · cases h; decide
  · cases h; decide
  · cases h
theorem vD1 : declared mOwn vRes vRec1 = .ok vS1 := by
  simp only [declared, vRec1, mRec1, vRes, mOwn, vG1, vS1, calleeRetrievable, bindPartialOk]
  sv_eval
  simp [hasVa, hasVk, bindKw]
theorem vD2 : declared mOwn vRes vRec2 = .ok vS2 := by
  simp only [declared, vRec2, vRec1, mRec1, vRes, mOwn, vG2, vS2, calleeRetrievable, bindPartialOk]
  sv_eval
  simp [hasVa, hasVk, bindKw]
theorem vFwd : forwarding [vRec1, vRec2] = [vRec1, vRec2] := by decide
theorem vAll : declaredAll mOwn vRes [vRec1, vRec2] = .ok [vS1, vS2] := by
  simp only [declaredAll, vD1, vD2, bind, Except.bind, pure, Except.pure]
theorem vMerge : merge [vS1, vS2] = .ok vR := by
  simp only [vS1, vS2, vR]; sv_eval
theorem vRoles : roleCons ([vS1, vS2].map (·.params)) := by
  have h : ∀ s ∈ [vS1, vS2].map (·.params), ∀ t ∈ [vS1, vS2].map (·.params),
      ∀ x ∈ allNames s, x ∈ allNames t → kindOf s x = kindOf t x ∧ posIndex s x = posIndex t x := by
    decide
  exact fun s hs t ht x hx hy => h s hs t ht x hx hy
theorem vPlain1 : PlainFwd vRes vRec1 vG1 :=
  ⟨rfl, rfl, rfl, by simp [vRec1, mRec1], by intro p _ _; simp [vRec1, mRec1]⟩
theorem vPlain2 : PlainFwd vRes vRec2 vG2 :=
  ⟨rfl, rfl, rfl, by simp [vRec2, vRec1, mRec1], by intro p _ _; simp [vRec2, vRec1, mRec1]⟩

/-- all hypotheses of `discovery_sound_roles_partial` (and of `_percall`) hold together for any
    record list whose forwarding calls are the two above; the result is not the plain signature;
    the call `(1, [z, q])` is mixed, accepted, and bound by the wrapper and by both callees -/
theorem vHyps (cs : List CallRec) (hcs : forwarding cs = [vRec1, vRec2]) :
    WF mOwn.params ∧ (∀ r w, vRes r = .fn w → WF w.params) ∧ [4, 9].Nodup ∧
    declaredAll mOwn vRes (forwarding cs) = .ok [vS1, vS2] ∧
    roleCons ([vS1, vS2].map (·.params)) ∧
    discovered mOwn vRes (some cs) = .ok vR ∧
    nonCollFwd mOwn vR vRes cs [4, 9] ∧
    (∀ c ∈ forwarding cs, ∀ w s, PlainFwd vRes c w → declared mOwn vRes c = .ok s →
      ∀ k ∈ [4, 9], k ∈ kwNames vR.params →
        k ∈ allNames s.params ∨ (k ∉ allNames mOwn.params ∧ k ∉ allNames w.params)) ∧
    accepts vR.params 1 [4, 9] = true ∧ vR ≠ mOwn := by
  have hcallee : ∀ c ∈ [vRec1, vRec2], ∀ w, IsCallee vRes c w → w = vG1 ∨ w = vG2 := by
    intro c hc w hw
    simp only [List.mem_cons, List.not_mem_nil, or_false] at hc
    rcases hc with rfl | rfl
    · rcases hw with h | ⟨h, _⟩
      · simp only [vRec1, mRec1, vRes] at h; cases h; exact .inl rfl
      · simp only [vRec1, mRec1, vRes] at h; cases h
    · rcases hw with h | ⟨h, _⟩
      · simp only [vRec2, vRec1, mRec1, vRes] at h; cases h; exact .inr rfl
      · simp only [vRec2, vRec1, mRec1, vRes] at h; cases h
  refine ⟨by decide, vRes_wf, by decide, by rw [hcs]; exact vAll, vRoles, ?_, ?_, ?_, by decide, by decide⟩
  · rw [discovered_eq_declared, hcs, vAll]
    simp only [vMerge]
  · intro k hk
    simp only [List.mem_cons, List.not_mem_nil, or_false] at hk
    rcases hk with rfl | rfl
    · exact .inl (by decide)
    · right
      refine ⟨by decide, ?_⟩
      intro c hc w hw
      rw [hcs] at hc
      rcases hcallee c hc w hw with rfl | rfl <;> decide
  · intro c hc w s hp hdc k hk _
    rw [hcs] at hc
    have hw := hcallee c hc w (.inl hp.res)
    simp only [List.mem_cons, List.not_mem_nil, or_false] at hk
    rcases hk with rfl | rfl
    · simp only [List.mem_cons, List.not_mem_nil, or_false] at hc
      rcases hc with rfl | rfl
      · have h := hp.res
        simp only [vRec1, mRec1, vRes] at h; cases h
        exact .inr (by decide)
      · rw [vD2] at hdc; cases hdc
        exact .inl (by decide)
    · right
      rcases hw with rfl | rfl <;> decide

/-- `discovery_sound_roles_partial` applied: both forwarding calls are plain, their keyword lists
    are disjoint from the call's, and the theorem yields `wrapperRuns` for both -/
example : wrapperRuns mOwn.params vG1.params 0 [] true true 1 [4, 9] = true ∧
    wrapperRuns mOwn.params vG2.params 0 [] true true 1 [4, 9] = true := by
  obtain ⟨ho, hres, hK, hall, hrc, hd, hnc, hkeep, hacc, hne⟩ := vHyps [vRec1, vRec2] vFwd
  rcases discovery_sound_roles_partial mOwn vR vRes [vRec1, vRec2] _ 1 [4, 9] ho hres hK hall hrc hd hnc hkeep hacc with h | h
  · exact absurd h hne
  · exact ⟨h vRec1 (by decide) vG1 vPlain1 (by decide), h vRec2 (by decide) vG2 vPlain2 (by decide)⟩

/-- the conclusion is not trivially true: the same shapes with the keyword `x` added are rejected by
    R, by `g1_C05M` and by `g2` -/
example : accepts vR.params 1 [4, 2] = false ∧
    wrapperRuns mOwn.params vG1.params 0 [] true true 1 [4, 2] = false ∧
    wrapperRuns mOwn.params vG2.params 0 [] true true 1 [4, 2] = false := by decide

/-- the program is in the grammar, its ground truth is the two calls -/
example : GrammarProg vProg :=
  ⟨by decide, ⟨by decide, by decide, by decide, by decide, by decide, by decide⟩⟩
theorem vTruth : (truth vProg).map (FwdCall.toRec vProg) = [vRec1, vRec2] := by decide

/-- `program_sound_roles` applied to the program: the walker succeeds, all hypotheses hold, and
    every ground-truth call binds `(1, [z, q])` -/
example : ∃ cs, runVisitor (render vProg) = .ok cs ∧ discovered mOwn vRes (some cs) = .ok vR ∧
    ∀ f ∈ truth vProg, ∀ w, PlainFwd vRes (f.toRec vProg) w →
      wrapperRuns mOwn.params w.params (f.toRec vProg).args.length ((f.toRec vProg).kwargs.map (·.1))
        f.useVa f.useVk 1 [4, 9] = true := by
  have hg : GrammarProg vProg :=
    ⟨by decide, ⟨by decide, by decide, by decide, by decide, by decide, by decide⟩⟩
  have ht := visitor_eq_truth vProg hg
  cases hv : runVisitor (render vProg) with
  | error e => rw [hv] at ht; cases ht
  | ok cs =>
    rw [hv] at ht
    simp only [Except.map, Except.ok.injEq] at ht
    rw [vTruth] at ht
    obtain ⟨ho, hres, hK, hall, hrc, hd, hnc, hkeep, hacc, hne⟩ := vHyps cs ht
    refine ⟨cs, rfl, hd, ?_⟩
    rcases program_sound_roles vProg hg mOwn vR vRes _ 1 [4, 9] ho hres hK cs hv hall hrc hd hnc hkeep hacc with h | h
    · exact absurd h hne
    · intro f hf w hp
      refine h f hf w hp ?_
      have hm : f.toRec vProg ∈ [vRec1, vRec2] := by rw [← vTruth]; exact List.mem_map.2 ⟨f, hf, rfl⟩
      simp only [List.mem_cons, List.not_mem_nil, or_false] at hm
      rcases hm with e | e <;> rw [e] <;> decide

end SV
