/-
  Props/C08Nary.lean — property C08 (provenance complete, truthful, depth-ordered) for
    (a) `embed` of ANY number of signatures, and
    (b) `forwards(…, partial=True)`.

  (`Props/C08.lean` has `merge` n-ary and `embed` of two signatures; `Props/C08Mask.lean` has `mask` and
  `forwards` without `partial`.)

  (a) `embed uva uvk (s₀ :: ss)` folds `_embed` from the left: the accumulator is the OUTER operand,
      the `j`-th signature is laid in at `depth = j`.  Hypotheses, lifted from the two-signature theorems:
        * every input is a valid signature (`WF`) with well-formed provenance (`ProvWF`);
        * the first input's map has no key twice (`ProvWF1`, as `embed_wfsrc` asks of the outer one);
        * the `+depths` of the later inputs have no key twice (`KeysND`, as `embed_wfsrc` asks of the inner
          one — they are Python dicts).
      NO name-disjointness hypothesis between the inputs is needed: `_embed` itself rejects a clash between
      collected names (`_check_no_dupes`, incl. the star parameters of each intermediate result since the
      repair of D29 — `embed3_homonym_rejected`), and the theorems are about successful runs.  The invariant
      of the fold accumulator is `EmbAcc` (Lemmas/C08NEmbed.lean): exactly one entry per parameter, none
      empty, no key twice, every listed callable has a depth, and the star parameters are named apart from
      the named ones (`StarsApart`, what the last two `_check_no_dupes` of a step establish for the next).
        `embed_nary_wfsrc`        well-formed map; every callable listed for a name is listed for that name by
                                  one of the inputs
        `embed_nary_truthful`     hence only callables that declare the parameter
        `embed_nary_depths`       the `j`-th input's callables sit `j` levels deeper than in that input;
                                  the smallest depth is kept when a callable is reached twice
        `embed_nary_outer_depth0` the outermost callable stays at depth 0
        `embed_nary_depths_nd`    the result's `+depths` has no key twice (so it can be an input again)
        `embed_nary_two`          for two inputs the depth formula is the one of `embed_depths`
        `embedDepth_spec`         what `embedDepth` (defined in Lemmas/C08NEmbed.lean, unfolded by
                                  `embedDepth_cons` / `embedDepth_nil`) means: the least `d + j`
        `embAcc_first` / `embAcc_step`  the accumulator invariant is established and maintained
  (b) `forwards(…, partial=True)` replaces the default of every named inner parameter by `None`, re-validates,
      then proceeds as without `partial`; names, map and `+depths` of the inner signature are not touched, so
      the statements of `forwards_wfsrc` / `forwards_truthful` / `forwards_depths` hold verbatim for
      `partial = true` — stated here for an arbitrary flag `p`.
  Nothing was found false.  A remark on the clause "exactly the input callables declaring it" (not part of
  the two-signature theorems either) is at the end: `embed_nary_shadowed_named`.
  ONLY property theorems + non-vacuity examples.
-/
import Sigverif.Lemmas.C08NEmbed
import Sigverif.Lemmas.C08NForwards
namespace SV

/-! ### (a) embed, any number of signatures -/

/-- **n-ary embed keeps provenance well-formed** (exactly one entry per parameter, none empty, no key
    twice, every listed callable has a depth) and lists for a name only callables that one of the inputs
    lists for that name -/
theorem embed_nary_wfsrc (uva uvk : Bool) (o : USig) (ss : List USig) (R : USig)
    (ho : WF o.params) (po : ProvWF1 o)
    (hss : ∀ s ∈ ss, WF s.params ∧ ProvWF s ∧ KeysND s.depths)
    (h : embed uva uvk (o :: ss) = .ok R) :
    ProvWF1 R ∧ ∀ k f, f ∈ sget R.src k → ∃ s ∈ o :: ss, f ∈ sget s.src k :=
  ⟨(c08n_embed_provWF uva uvk o ss R ho po hss h).1, (c08n_embed_provWF uva uvk o ss R ho po hss h).2.1⟩

theorem embed_nary_truthful (decl : Nat → List Nat) (uva uvk : Bool) (o : USig) (ss : List USig) (R : USig)
    (ho : WF o.params) (po : ProvWF1 o)
    (hss : ∀ s ∈ ss, WF s.params ∧ ProvWF s ∧ KeysND s.depths)
    (ht : ∀ s ∈ o :: ss, Truthful decl s.src)
    (h : embed uva uvk (o :: ss) = .ok R) : Truthful decl R.src := by
  intro k f hf
  obtain ⟨s, hs, hf'⟩ := (embed_nary_wfsrc uva uvk o ss R ho po hss h).2 k f hf
  exact ht s hs k f hf'

/-- **depths strictly increase along forwarding**: in `embed(s₀, s₁, …, sₙ)` a callable of `sⱼ` sits `j`
    levels below where it sits in `sⱼ` (`embedDepth 0 [s₀, …] f = min_j (depth_j f + j)`, the minimum over
    the inputs that know `f`) — the smallest depth is kept when a callable is reached twice -/
theorem embed_nary_depths (uva uvk : Bool) (o : USig) (ss : List USig) (R : USig)
    (ho : WF o.params) (po : ProvWF1 o)
    (hss : ∀ s ∈ ss, WF s.params ∧ ProvWF s ∧ KeysND s.depths)
    (h : embed uva uvk (o :: ss) = .ok R) (f : Nat) :
    dget R.depths f = embedDepth 0 (o :: ss) f :=
  (c08n_embed_provWF uva uvk o ss R ho po hss h).2.2.1 f

/-- the depth formula unfolded: first input as is, the rest one level deeper each -/
theorem embedDepth_cons (i : Nat) (s : USig) (ss : List USig) (f : Nat) :
    embedDepth i (s :: ss) f = minDepth ((dget s.depths f).map (· + i)) (embedDepth (i + 1) ss f) := rfl

theorem embedDepth_nil (i f : Nat) : embedDepth i [] f = none := rfl

/-- for two inputs this is the formula of `embed_depths` -/
theorem embed_nary_two (o i : USig) (f : Nat) :
    embedDepth 0 [o, i] f = minDepth (dget o.depths f) ((dget i.depths f).map (· + 1)) := by
  simp only [embedDepth]
  cases dget o.depths f <;> cases dget i.depths f <;> simp [minDepth]

/-- the outermost callable stays at depth 0 -/
theorem embed_nary_outer_depth0 (uva uvk : Bool) (o : USig) (ss : List USig) (R : USig)
    (ho : WF o.params) (po : ProvWF1 o)
    (hss : ∀ s ∈ ss, WF s.params ∧ ProvWF s ∧ KeysND s.depths)
    (h : embed uva uvk (o :: ss) = .ok R) (f : Nat) (h0 : dget o.depths f = some 0) :
    dget R.depths f = some 0 := by
  rw [embed_nary_depths uva uvk o ss R ho po hss h f, embedDepth_cons, h0]
  cases embedDepth (0 + 1) ss f <;> simp [minDepth]

/-- a callable known to the `j`-th input at depth `d` is at depth `≤ d + j` in the result, and every
    depth in the result is `d + j` for some input `j` knowing the callable at depth `d` -/
theorem embedDepth_spec (ss : List USig) (i f : Nat) :
    (∀ j d, (ss[j]?).bind (fun s => dget s.depths f) = some d →
        ∃ m, embedDepth i ss f = some m ∧ m ≤ d + (i + j)) ∧
    (∀ m, embedDepth i ss f = some m →
        ∃ j d, (ss[j]?).bind (fun s => dget s.depths f) = some d ∧ m = d + (i + j)) :=
  c08n_embedDepth_spec ss i f

/-- the result's `+depths` has no key twice if the first input's has none -/
theorem embed_nary_depths_nd (uva uvk : Bool) (o : USig) (ss : List USig) (R : USig)
    (ho : WF o.params) (po : ProvWF1 o)
    (hss : ∀ s ∈ ss, WF s.params ∧ ProvWF s ∧ KeysND s.depths)
    (hod : KeysND o.depths)
    (h : embed uva uvk (o :: ss) = .ok R) : KeysND R.depths :=
  (c08n_embed_provWF uva uvk o ss R ho po hss h).2.2.2 hod

/-! ### the invariant of the fold accumulator (what makes the n-ary statement go through)

  `EmbAcc A` (Lemmas/C08NEmbed.lean): `A.src` has exactly one entry per parameter of `A`, none empty, no key
  twice; every listed callable has a depth in `A.depths`; the star parameters of `A` are not named like its
  named parameters nor like each other.  It differs from the hypothesis on the inputs in the last clause,
  which for an input follows from `WF` (unique names) and for an intermediate result from the name checks of
  the step that produced it. -/

/-- a well-formed first input establishes the invariant -/
theorem embAcc_first (o : USig) (ho : WF o.params) (po : ProvWF1 o) : EmbAcc (sortParams o) :=
  c08n_sortParams_embAcc o ho po

/-- every successful `_embed` step re-establishes it, lists only what the accumulator or the new input
    listed, and merges the new input's depths in at `d` -/
theorem embAcc_step (A A' : Sorted) (s : USig) (uva uvk : Bool) (d : Nat)
    (hA : EmbAcc A) (hs : WF s.params) (ps : ProvWF s)
    (h : embedStep A (sortParams s) uva uvk d = .ok A') :
    EmbAcc A' ∧ (∀ k f, f ∈ sget A'.src k → f ∈ sget A.src k ∨ f ∈ sget s.src k) ∧
      A'.depths = mergeDepths A.depths (copyDepths s.depths d) :=
  c08n_embedStep_embAcc A A' s uva uvk d hA hs ps h

/-! ### (b) forwards, with or without `partial=True` -/

/-- `forwards(…, partial=p)`, either `p`: the map is well-formed and credits the outer callable or one of
    the inner's -/
theorem forwards_any_wfsrc (p : Bool) (o i R : USig) (n : Nat) (nms : List Nat) (ha hk uva uvk : Bool)
    (ho : WF o.params) (hi : WF i.params) (po : ProvWF1 o) (pi : ProvWF1 i) (hid : KeysND i.depths)
    (hR : forwards o i n nms ha hk uva uvk p = .ok R) :
    ProvWF1 R ∧ (∀ k f, f ∈ sget R.src k → f ∈ sget o.src k ∨ f ∈ sget i.src k) :=
  ⟨(c08n_forwards_wfsrc p o i R n nms ha hk uva uvk ho hi po pi hid hR).1,
   (c08n_forwards_wfsrc p o i R n nms ha hk uva uvk ho hi po pi hid hR).2.1⟩

/-- the instance the task asks for -/
theorem forwards_partial_wfsrc (o i R : USig) (n : Nat) (nms : List Nat) (ha hk uva uvk : Bool)
    (ho : WF o.params) (hi : WF i.params) (po : ProvWF1 o) (pi : ProvWF1 i) (hid : KeysND i.depths)
    (hR : forwards o i n nms ha hk uva uvk true = .ok R) :
    ProvWF1 R ∧ (∀ k f, f ∈ sget R.src k → f ∈ sget o.src k ∨ f ∈ sget i.src k) :=
  forwards_any_wfsrc true o i R n nms ha hk uva uvk ho hi po pi hid hR

theorem forwards_partial_truthful (decl : Nat → List Nat) (o i R : USig) (n : Nat) (nms : List Nat)
    (ha hk uva uvk : Bool)
    (ho : WF o.params) (hi : WF i.params) (po : ProvWF1 o) (pi : ProvWF1 i) (hid : KeysND i.depths)
    (to : Truthful decl o.src) (ti : Truthful decl i.src)
    (hR : forwards o i n nms ha hk uva uvk true = .ok R) : Truthful decl R.src := by
  intro k f hf
  rcases (forwards_partial_wfsrc o i R n nms ha hk uva uvk ho hi po pi hid hR).2 k f hf with h' | h'
  · exact to k f h'
  · exact ti k f h'

/-- depth rule of `forwards(…, partial=True)`: as without `partial` — the outer callables keep their depth,
    the inner ones are one deeper, a callable on both sides keeps the smaller (no `partial` object enters
    `+depths` here: that is `signature(functools.partial(…))`, `partial_absorbed_sources` in Props/C19) -/
theorem forwards_partial_depths (o i R : USig) (n : Nat) (nms : List Nat) (ha hk uva uvk : Bool)
    (ho : WF o.params) (hi : WF i.params) (po : ProvWF1 o) (pi : ProvWF1 i) (hid : KeysND i.depths)
    (hR : forwards o i n nms ha hk uva uvk true = .ok R) (f : Nat) :
    dget R.depths f = minDepth (dget o.depths f) ((dget i.depths f).map (· + 1)) :=
  (c08n_forwards_wfsrc true o i R n nms ha hk uva uvk ho hi po pi hid hR).2.2 f

/-! ### non-vacuity -/

private def nA : Param := { name := 1, kind := .pk }
private def nB : Param := { name := 2, kind := .pk }
private def nC : Param := { name := 3, kind := .pk, dflt := some 7 }
private def nVA : Param := { name := 11, kind := .vp }
private def nVK : Param := { name := 12, kind := .vk }
/-- `def f(a, *args, **kwargs)`, `def g(b, *args, **kwargs)`, `def h(c=7, *args, **kwargs)` with their
    default provenance; `h` also knows about `g` (as if it forwarded to it), one level down -/
private def s0 : USig :=
  { params := [nA, nVA, nVK], src := (defaultSources [nA, nVA, nVK] 100).1, depths := [(100, 0)] }
private def s1 : USig :=
  { params := [nB, nVA, nVK], src := (defaultSources [nB, nVA, nVK] 101).1, depths := [(101, 0)] }
private def s2 : USig :=
  { params := [nC, nVA, nVK], src := (defaultSources [nC, nVA, nVK] 102).1, depths := [(102, 0), (101, 1)] }
/-- `embed(f, g, h)`: `(a, b, c=7, *args, **kwargs)`; the stars are `h`'s; `g` is reached at depth 1 through
    `f` and at depth 1 + 2 through `h`: 1 is kept -/
private def r3 : USig :=
  { params := [nA, nB, nC, nVA, nVK],
    src := [(3, [102]), (11, [102]), (12, [102]), (2, [101]), (1, [100])],
    depths := [(100, 0), (101, 1), (102, 2)] }

private theorem s0_wf : WF s0.params := by decide
private theorem s1_wf : WF s1.params := by decide
private theorem s2_wf : WF s2.params := by decide
private theorem s0_prov : ProvWF1 s0 := (default_provWF [nA, nVA, nVK] 100).1
private theorem s1_prov : ProvWF s1 := (default_provWF [nB, nVA, nVK] 101).1.toProvWF
private theorem s2_prov : ProvWF s2 := by
  have h := (default_provWF [nC, nVA, nVK] 102).1.toProvWF
  refine ⟨h.keys, h.ne, ?_⟩
  intro k f hf
  have := h.dep k f hf
  simp only [dhas, defaultSources, dget] at this
  split at this
  · rename_i e; subst e; decide
  · cases this
private theorem s12_hyp : ∀ s ∈ [s1, s2], WF s.params ∧ ProvWF s ∧ KeysND s.depths := by
  intro s hs
  simp only [List.mem_cons, List.not_mem_nil, or_false] at hs
  rcases hs with rfl | rfl
  · exact ⟨s1_wf, s1_prov, by unfold KeysND; decide⟩
  · exact ⟨s2_wf, s2_prov, by unfold KeysND; decide⟩

/-- the run: three signatures, three callables -/
private theorem embed3_run : embed true true [s0, s1, s2] = .ok r3 := by
  simp only [s0, s1, s2, r3, nA, nB, nC, nVA, nVK, defaultSources]; sv_eval

/-- all hypotheses of the n-ary theorems are met by the run, and the conclusions say something -/
example : ProvWF1 r3 := (embed_nary_wfsrc true true s0 [s1, s2] r3 s0_wf s0_prov s12_hyp embed3_run).1
example : sget r3.src 2 = [101] ∧ sget r3.src 11 = [102] := by decide
example : dget r3.depths 101 = embedDepth 0 [s0, s1, s2] 101 :=
  embed_nary_depths true true s0 [s1, s2] r3 s0_wf s0_prov s12_hyp embed3_run 101
example : embedDepth 0 [s0, s1, s2] 101 = some 1 ∧ embedDepth 0 [s0, s1, s2] 102 = some 2 ∧
    embedDepth 0 [s0, s1, s2] 100 = some 0 ∧ embedDepth 0 [s0, s1, s2] 5 = none := by decide
example : dget r3.depths 100 = some 0 :=
  embed_nary_outer_depth0 true true s0 [s1, s2] r3 s0_wf s0_prov s12_hyp embed3_run 100 (by decide)
example : KeysND r3.depths :=
  embed_nary_depths_nd true true s0 [s1, s2] r3 s0_wf s0_prov s12_hyp (by unfold KeysND; decide) embed3_run

/-- `forwards(outer, inner, 1, partial=True)` with `inner = (b, c=1, *args, **kwargs)`: `b` is consumed, `c`
    gets the default `None` (token 0) -/
private def fO : USig :=
  { params := [nA, nVA, nVK], src := (defaultSources [nA, nVA, nVK] 100).1, depths := [(100, 0)] }
private def fI : USig :=
  { params := [nB, nC, nVA, nVK], src := (defaultSources [nB, nC, nVA, nVK] 101).1, depths := [(101, 0)] }
private def fR : USig :=
  { params := [nA, { nC with dflt := some 0 }, nVA, nVK],
    src := [(3, [101]), (11, [101]), (12, [101]), (1, [100])],
    depths := [(100, 0), (101, 1)] }
private theorem fwd_run : forwards fO fI 1 [] false false true true true = .ok fR := by
  simp only [fO, fI, fR, nA, nB, nC, nVA, nVK, defaultSources]; sv_eval
private theorem fO_wf : WF fO.params := by decide
private theorem fI_wf : WF fI.params := by decide
private theorem fO_prov : ProvWF1 fO := (default_provWF [nA, nVA, nVK] 100).1
private theorem fI_prov : ProvWF1 fI := (default_provWF [nB, nC, nVA, nVK] 101).1

example : ProvWF1 fR :=
  (forwards_partial_wfsrc fO fI fR 1 [] false false true true fO_wf fI_wf fO_prov fI_prov (by unfold KeysND; decide) fwd_run).1
example : dget fR.depths 101 = minDepth (dget fO.depths 101) ((dget fI.depths 101).map (· + 1)) :=
  forwards_partial_depths fO fI fR 1 [] false false true true fO_wf fI_wf fO_prov fI_prov (by unfold KeysND; decide) fwd_run 101
example : dget fR.depths 101 = some 1 ∧ sget fR.src 3 = [101] ∧ sget fR.src 1 = [100] := by decide
/-- without `partial` the same call keeps `c`'s own default -/
example : okAnd (forwards fO fI 1 [] false false true true false)
    (fun R => R.params = [nA, nC, nVA, nVK] ∧ R.src = fR.src ∧ R.depths = fR.depths) = true := by
  simp only [fO, fI, fR, nA, nB, nC, nVA, nVK, okAnd, defaultSources]; sv_eval

/-! ### a remark on "exactly the input callables declaring it"

  The theorems above (like the two-signature ones) give one inclusion: what the result lists for a name is
  listed for it by an input.  The converse needs "consistently named inputs" in earnest once there are three
  signatures: a named parameter that an earlier step DROPPED (an optional one the outer side cannot reach)
  does not block its name, so a later input may bring a parameter of the same name, and the result then
  credits the later callable only.  This is what the code does and what a call does (the dropped parameter
  cannot be passed); it is recorded here so that nobody states the converse without a hypothesis that rules
  it out (e.g. `roleCons`: here the name 5 is positional-only in `g` and keyword-only in `h`). -/

private def tF : USig :=   -- def f(a, **kw)
  { params := [nA, nVK], src := [(1, [100]), (12, [100])], depths := [(100, 0)] }
private def tG : USig :=   -- def g(k=1, /, **kw)
  { params := [{ name := 5, kind := .po, dflt := some 1 }, nVK], src := [(5, [101]), (12, [101])],
    depths := [(101, 0)] }
private def tH : USig :=   -- def h(*, k, **kw)
  { params := [{ name := 5, kind := .ko }, nVK], src := [(5, [102]), (12, [102])], depths := [(102, 0)] }

/-- `embed(f, g, h)` = `(a, *, k, **kw)`: `k` is `h`'s; `g`, which declares a `k` too, is not credited -/
theorem embed_nary_shadowed_named :
    ∃ R, embed true true [tF, tG, tH] = .ok R ∧ names R.params = [1, 5, 12] ∧ sget R.src 5 = [102] ∧
      sget tG.src 5 = [101] := by
  have h : okAnd (embed true true [tF, tG, tH])
      (fun R => names R.params = [1, 5, 12] ∧ sget R.src 5 = [102]) = true := by
    simp only [tF, tG, tH, nA, nVK, okAnd]; sv_eval
  obtain ⟨R, h1, h2⟩ := okAnd_exists h
  simp only [Bool.and_eq_true, decide_eq_true_eq, Bool.decide_and] at h2
  exact ⟨R, h1, h2.1, h2.2, by decide⟩

end SV
