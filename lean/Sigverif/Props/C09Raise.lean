/-
  Props/C09Raise.lean — property C09, first sentence, the RAISES half:
  ONLY property theorems + non-vacuity examples (helper lemmas in Sigverif/Lemmas/C09R*.lean).

  C09: "When the inputs give the same name to their positional parameters position by position and
  shared names keep their role, merge accepts exactly the non-colliding calls that all inputs accept,
  and raises IncompatibleSignatures exactly when no such call exists."

  Reading of "no such call exists": when merge raises there is no result for a keyword to be
  keyword-passable in, so a non-colliding call is one whose keywords are all foreign to every input
  (`foreignTo`, Props/Defs.lean).  Conversely, when merge returns `R`, a non-colliding call
  (`nonColl R …`) that `R` and every input accept exists.
-/
import Sigverif.Props.Defs
import Sigverif.Lemmas.C09RCall
import Sigverif.Lemmas.C09RNary
import Sigverif.Lemmas.C01Eval
import Sigverif.Lemmas.LawsEval
namespace SV

/-- (1) if merge of two aligned inputs raises, it raises IncompatibleSignatures and no call whose
    keywords are foreign to both inputs is accepted by both.  (`K.Nodup` and the second half of
    `aligned` are not needed for the second conjunct; `aligned` is what excludes the ValueError of
    the final `Signature(...)` validation.) -/
theorem merge_raises_aligned_pair (a b : USig) (e : Err)
    (ha : WF a.params) (hb : WF b.params) (hal : aligned [a.params, b.params])
    (hE : merge [a, b] = .error e) :
    e = .incompatible ∧
    ∀ (n : Nat) (K : List Nat), K.Nodup → foreignTo [a.params, b.params] K →
      ¬ (accepts a.params n K = true ∧ accepts b.params n K = true) := by
  exact merge_raises_aligned_pair' a b e ha hb hal hE

/-- (1') the same conclusion for ANY two valid signatures (aligned or not) once the error is known to
    be IncompatibleSignatures: the error points of `_Merger._merge` each exhibit a required
    parameter of one input that the other input cannot receive. -/
theorem merge_incompatible_pair (a b : USig) (ha : WF a.params) (hb : WF b.params)
    (hE : merge [a, b] = .error .incompatible) :
    ∀ (n : Nat) (K : List Nat), foreignTo [a.params, b.params] K →
      ¬ (accepts a.params n K = true ∧ accepts b.params n K = true) := by
  exact merge_incompatible_pair' a b ha hb hE

/-- (2) every valid signature accepts some call that uses only its own keyword-passable names
    (all required positionals positionally, every required keyword-only parameter by name) -/
theorem valid_has_call (ps : List Param) (h : WF ps) :
    ∃ (n : Nat) (K : List Nat), K.Nodup ∧ (∀ k ∈ K, k ∈ kwNames ps) ∧ accepts ps n K = true := by
  exact valid_has_call' ps (WF_validate h)

/-- (3) hence: when merge returns, a non-colliding call accepted by the result and by every input
    exists (any number of role-consistent inputs) -/
theorem merge_ok_common_call (ss : List USig) (R : USig)
    (hwf : ∀ s ∈ ss, WF s.params) (hrc : roleCons (ss.map (·.params))) (hR : merge ss = .ok R) :
    ∃ (n : Nat) (K : List Nat), K.Nodup ∧ nonColl R.params (ss.map (·.params)) K ∧
      accepts R.params n K = true ∧ ∀ s ∈ ss, accepts s.params n K = true := by
  exact merge_ok_common_call' ss R (fun s hs => WF_validate (hwf s hs)) hrc hR

/-- the converse of (1) stated outright: two aligned inputs that have a common call with foreign
    keywords only do merge -/
theorem merge_returns_of_common_call (a b : USig)
    (ha : WF a.params) (hb : WF b.params) (hal : aligned [a.params, b.params])
    (hc : ∃ (n : Nat) (K : List Nat), K.Nodup ∧ foreignTo [a.params, b.params] K ∧
      accepts a.params n K = true ∧ accepts b.params n K = true) :
    ∃ R, merge [a, b] = .ok R := by
  exact merge_returns_of_common_call' a b ha hb hal hc

/-- (1, n-ary) any number of role-consistent valid inputs: when merge raises
    IncompatibleSignatures, no call whose keywords are foreign to every input is accepted by all
    inputs.  Only the role-consistency half of `aligned` is needed.

    The error is a HYPOTHESIS here, not a conclusion: for more than two inputs the statement
    "the final `Signature(...)` validation cannot fail" (`merge_err_roles`, Props/Laws.lean, two
    inputs) is not available; `merge_err` (Props/Laws.lean) gives
    `e = .incompatible ∨ e = .valueError` for any inputs.
    (Brute force on 3.1 million aligned triples of a 452-signature universe in the model found
    neither a ValueError nor a counterexample to this statement.) -/
theorem merge_incompatible_aligned (ss : List USig) (hwf : ∀ s ∈ ss, WF s.params)
    (hrc : roleCons (ss.map (·.params))) (hE : merge ss = .error .incompatible) :
    ∀ (n : Nat) (K : List Nat), foreignTo (ss.map (·.params)) K →
      ¬ ∀ s ∈ ss, accepts s.params n K = true := by
  exact merge_incompatible_nary' ss hwf hrc hE

/-! non-vacuity -/

-- error point `_merge_unbalanced_pos`: `(x, y, /)` against `(x, /)`
def c9r1a : USig := { params := [⟨1, .po, none, none, .empty⟩, ⟨2, .po, none, none, .empty⟩] }
def c9r1b : USig := { params := [⟨1, .po, none, none, .empty⟩] }
example : WF c9r1a.params ∧ WF c9r1b.params ∧ aligned [c9r1a.params, c9r1b.params] := by decide
theorem c9r1_raises : merge [c9r1a, c9r1b] = .error .incompatible := by simp only [c9r1a, c9r1b]; merge_eval
/-- the error is raised in phase P (`_merge_unbalanced_pos`) -/
example : phaseP (sortParams c9r1a) (sortParams c9r1b) (sortParams c9r1a).pos (sortParams c9r1b).pos
    (sortParams c9r1a).pok (sortParams c9r1b).pok (stK (sortParams c9r1a) (sortParams c9r1b)) =
      .error .valueError := by
  simp only [c9r1a, c9r1b, stK, kInit]; sv_eval
/-- each input is callable, with foreign keywords only, but not by a common call -/
example : foreignTo [c9r1a.params, c9r1b.params] [] ∧
    accepts c9r1a.params 2 [] = true ∧ accepts c9r1b.params 1 [] = true ∧
    ∀ (n : Nat) (K : List Nat), K.Nodup → foreignTo [c9r1a.params, c9r1b.params] K →
      ¬ (accepts c9r1a.params n K = true ∧ accepts c9r1b.params n K = true) :=
  ⟨by decide, by decide, by decide,
    (merge_raises_aligned_pair c9r1a c9r1b _ (by decide) (by decide) (by decide) c9r1_raises).2⟩

-- error point `_merge_unbalanced_pok`: `(x, y)` against `(x)`
def c9r2a : USig := { params := [⟨1, .pk, none, none, .empty⟩, ⟨2, .pk, none, none, .empty⟩] }
def c9r2b : USig := { params := [⟨1, .pk, none, none, .empty⟩] }
example : WF c9r2a.params ∧ WF c9r2b.params ∧ aligned [c9r2a.params, c9r2b.params] := by decide
theorem c9r2_raises : merge [c9r2a, c9r2b] = .error .incompatible := by simp only [c9r2a, c9r2b]; merge_eval
/-- phase P returns, the error is raised in phase Q (`_merge_unbalanced_pok`) -/
example :
    (∃ x, phaseP (sortParams c9r2a) (sortParams c9r2b) (sortParams c9r2a).pos (sortParams c9r2b).pos
      (sortParams c9r2a).pok (sortParams c9r2b).pok (stK (sortParams c9r2a) (sortParams c9r2b)) = .ok x) ∧
    (phaseP (sortParams c9r2a) (sortParams c9r2b) (sortParams c9r2a).pos (sortParams c9r2b).pos
      (sortParams c9r2a).pok (sortParams c9r2b).pok (stK (sortParams c9r2a) (sortParams c9r2b)) >>=
      fun x => phaseQ (sortParams c9r2a) (sortParams c9r2b) x.2.1 x.2.2 x.1) = .error .valueError := by
  simp only [c9r2a, c9r2b, stK, kInit]; sv_eval
example : accepts c9r2a.params 2 [] = true ∧ accepts c9r2b.params 1 [] = true ∧
    ∀ (n : Nat) (K : List Nat), K.Nodup → foreignTo [c9r2a.params, c9r2b.params] K →
      ¬ (accepts c9r2a.params n K = true ∧ accepts c9r2b.params n K = true) :=
  ⟨by decide, by decide,
    (merge_raises_aligned_pair c9r2a c9r2b _ (by decide) (by decide) (by decide) c9r2_raises).2⟩

-- error point `_merge_unmatched_kwoargs`: `(x, *, k)` against `(x)`
def c9r3a : USig := { params := [⟨1, .pk, none, none, .empty⟩, ⟨5, .ko, none, none, .empty⟩] }
def c9r3b : USig := { params := [⟨1, .pk, none, none, .empty⟩] }
example : WF c9r3a.params ∧ WF c9r3b.params ∧ aligned [c9r3a.params, c9r3b.params] := by decide
theorem c9r3_raises : merge [c9r3a, c9r3b] = .error .incompatible := by simp only [c9r3a, c9r3b]; merge_eval
/-- phases P and Q return, the error is raised by `_merge_unmatched_kwoargs` for the left operand -/
example :
    (∃ x, (phaseP (sortParams c9r3a) (sortParams c9r3b) (sortParams c9r3a).pos (sortParams c9r3b).pos
      (sortParams c9r3a).pok (sortParams c9r3b).pok (stK (sortParams c9r3a) (sortParams c9r3b)) >>=
      fun x => phaseQ (sortParams c9r3a) (sortParams c9r3b) x.2.1 x.2.2 x.1) = .ok x) ∧
    (phaseP (sortParams c9r3a) (sortParams c9r3b) (sortParams c9r3a).pos (sortParams c9r3b).pos
      (sortParams c9r3a).pok (sortParams c9r3b).pok (stK (sortParams c9r3a) (sortParams c9r3b)) >>=
      fun x => phaseQ (sortParams c9r3a) (sortParams c9r3b) x.2.1 x.2.2 x.1 >>=
      fun st => mergeUnmatched .L (sortParams c9r3a) (sortParams c9r3b) st) = .error .valueError := by
  simp only [c9r3a, c9r3b, stK, kInit]; sv_eval
/-- here the input `(x, *, k)` itself accepts no call with foreign keywords only (`k` is required
    and is not foreign); it does accept the call `(1, k=…)` -/
example : accepts c9r3a.params 1 [5] = true ∧ accepts c9r3b.params 1 [] = true ∧
    ¬ foreignTo [c9r3a.params, c9r3b.params] [5] ∧
    ∀ (n : Nat) (K : List Nat), K.Nodup → foreignTo [c9r3a.params, c9r3b.params] K →
      ¬ (accepts c9r3a.params n K = true ∧ accepts c9r3b.params n K = true) :=
  ⟨by decide, by decide, by decide,
    (merge_raises_aligned_pair c9r3a c9r3b _ (by decide) (by decide) (by decide) c9r3_raises).2⟩

-- (1, n-ary): `(x, y=1)`, `(x, *args)`, `(x, y, z)`: the first two merge (to `(x, y=1, /)`), the
-- third input raises in the second step of the fold
def c9r7a : USig := { params := [⟨1, .pk, none, none, .empty⟩, ⟨2, .pk, some 1, none, .empty⟩] }
def c9r7b : USig := { params := [⟨1, .pk, none, none, .empty⟩, ⟨11, .vp, none, none, .empty⟩] }
def c9r7c : USig := { params := [⟨1, .pk, none, none, .empty⟩, ⟨2, .pk, none, none, .empty⟩,
                                 ⟨3, .pk, none, none, .empty⟩] }
example : (∀ s ∈ [c9r7a, c9r7b, c9r7c], WF s.params) ∧
    aligned ([c9r7a, c9r7b, c9r7c].map (·.params)) := by decide
example : ∃ R, merge [c9r7a, c9r7b] = .ok R := by simp only [c9r7a, c9r7b]; merge_eval
theorem c9r7_raises : merge [c9r7a, c9r7b, c9r7c] = .error .incompatible := by
  simp only [c9r7a, c9r7b, c9r7c]; merge_eval
/-- every two of the three inputs have a common call, all three have none -/
example : accepts c9r7a.params 2 [] = true ∧ accepts c9r7b.params 2 [] = true ∧
    accepts c9r7b.params 3 [] = true ∧ accepts c9r7c.params 3 [] = true ∧
    ∀ (n : Nat) (K : List Nat), foreignTo ([c9r7a, c9r7b, c9r7c].map (·.params)) K →
      ¬ ∀ s ∈ [c9r7a, c9r7b, c9r7c], accepts s.params n K = true :=
  ⟨by decide, by decide, by decide, by decide,
    merge_incompatible_aligned _ (by decide) (by decide) c9r7_raises⟩

-- (1') on a pair that is NOT aligned: `(x, y)` against `(z)`
def c9r5b : USig := { params := [⟨3, .pk, none, none, .empty⟩] }
example : WF c9r5b.params ∧ ¬ aligned [c9r2a.params, c9r5b.params] ∧
    merge [c9r2a, c9r5b] = .error .incompatible := by
  refine ⟨by decide, by decide, ?_⟩
  simp only [c9r2a, c9r5b]; merge_eval

-- a returning pair: `(p, /, q, r=3, *, k, o=1)` and `(p, /, q, *args, **kwargs)`
def c9r4a : USig := { params := [⟨1, .po, none, none, .empty⟩, ⟨2, .pk, none, none, .empty⟩,
                               ⟨3, .pk, some 7, none, .empty⟩, ⟨5, .ko, none, none, .empty⟩,
                               ⟨6, .ko, some 1, none, .empty⟩] }
def c9r4b : USig := { params := [⟨1, .po, none, none, .empty⟩, ⟨2, .pk, none, none, .empty⟩,
                               ⟨11, .vp, none, none, .empty⟩, ⟨12, .vk, none, none, .empty⟩] }
example : WF c9r4a.params ∧ WF c9r4b.params ∧ aligned [c9r4a.params, c9r4b.params] := by decide
theorem c9r4_returns : ∃ R, merge [c9r4a, c9r4b] = .ok R ∧ R.params = c9r4a.params := by
  simp only [c9r4a, c9r4b]; merge_eval
/-- this pair merges although it has NO common call with foreign keywords only (`k` is required
    by `c9r4a`, so e.g. the call with two positionals and the foreign keyword 9 is rejected by it):
    (1) is an implication, its converse `merge_returns_of_common_call` needs such a call … -/
example : foreignTo [c9r4a.params, c9r4b.params] [9] ∧ accepts c9r4a.params 2 [9] = false ∧
    accepts c9r4b.params 2 [9] = true := by decide
/-- … which a pair without required keyword-only parameters has: `(p, /, q, r=3, **kw)` and
    `c9r4b` share the call `(2, [9])`, so they merge -/
def c9r6a : USig := { params := [⟨1, .po, none, none, .empty⟩, ⟨2, .pk, none, none, .empty⟩,
                               ⟨3, .pk, some 7, none, .empty⟩, ⟨12, .vk, none, none, .empty⟩] }
example : ∃ R, merge [c9r6a, c9r4b] = .ok R :=
  merge_returns_of_common_call c9r6a c9r4b (by decide) (by decide) (by decide)
    ⟨2, [9], by decide, by decide, by decide, by decide⟩

/-- the witness call of (2) on a signature with required positional-only, positional-or-keyword
    and keyword-only parameters: `(p, /, q, r=3, *, k, o=1)` is called as `(_, _, k=_)` -/
example : canonN c9r4a.params = 2 ∧ canonK c9r4a.params = [5] ∧
    accepts c9r4a.params 2 [5] = true ∧
    accepts c9r4a.params 1 [5] = false ∧ accepts c9r4a.params 2 [] = false := by decide
example : ∃ (n : Nat) (K : List Nat), K.Nodup ∧ (∀ k ∈ K, k ∈ kwNames c9r4a.params) ∧
    accepts c9r4a.params n K = true := valid_has_call c9r4a.params (by decide)

/-- (3) on the returning pair: the hypotheses hold, and the witness call `(2, [5])` is a
    non-colliding call (5 is keyword-passable in the result, not foreign) accepted by the result and
    both inputs -/
example : ∃ R, merge [c9r4a, c9r4b] = .ok R ∧
    roleCons ([c9r4a, c9r4b].map (·.params)) ∧
    nonColl R.params ([c9r4a, c9r4b].map (·.params)) [5] ∧ ¬ foreignTo ([c9r4a, c9r4b].map (·.params)) [5] ∧
    accepts R.params 2 [5] = true ∧ ∀ s ∈ [c9r4a, c9r4b], accepts s.params 2 [5] = true := by
  obtain ⟨R, hR, hp⟩ := c9r4_returns
  refine ⟨R, hR, by decide, ?_, by decide, ?_, by decide⟩
  · rw [hp]; decide
  · rw [hp]; decide
example : ∃ (n : Nat) (K : List Nat), K.Nodup ∧
    (∃ R, merge [c9r4a, c9r4b] = .ok R ∧ nonColl R.params ([c9r4a, c9r4b].map (·.params)) K ∧
      accepts R.params n K = true) ∧ ∀ s ∈ [c9r4a, c9r4b], accepts s.params n K = true := by
  obtain ⟨R, hR, -⟩ := c9r4_returns
  obtain ⟨n, K, hK, hnc, hacc, hall⟩ :=
    merge_ok_common_call [c9r4a, c9r4b] R (by decide) (by decide) hR
  exact ⟨n, K, hK, ⟨R, hR, hnc, hacc⟩, hall⟩

end SV
