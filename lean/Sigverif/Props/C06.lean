/-
  Props/C06.lean — property C06 (automatic discovery = the equivalent explicit declaration), the
  part that is logic: what `forward_signatures` / `autoforwards_ast` / the fallback of
  `forged_signature` make of the call records the visitor reports.

  * calls that forward neither star are ignored (`forwardSigs_ignores`)
  * the discovered signature IS the merge of `forwards(own, callee, n, *names, flags)` over the
    forwarding calls in order (`discovered_eq_declared`), with `partial=True` and one positional
    fewer for `functools.partial(callee, …)` (`forwardSig_partial`)
  * the plain signature comes back exactly when nothing usable remains, a callee cannot be
    resolved or retrieved, or the algebra raises (`discovered_plain_iff`); nothing else can come
    out (`discovered_total`)
  * a decoy call (forwarding neither star) anywhere in the list does not change the outcome
    (`discovered_decoy_invariant`)

  That the visitor's records are the ground truth of the program (visitor = truth on the
  forwarding grammar) is NOT proved here: it is validated on every run by the streams
  `programs` (model visitor vs generator ground truth vs real visitor) — see DESIGN.md.
-/
import Sigverif.Model.Grammar
import Sigverif.Model.Discovery
namespace SV

/-- the declaration a forwarding call record stands for, when its callee resolves -/
def declared (own : USig) (resolve : RM → RVal) (c : CallRec) : Except Err USig :=
  match resolve c.wrapped with
  | .fn wsig =>
    if !calleeRetrievable wsig c.args.length (c.kwargs.map (·.1)) then .error .unknownForwards else
    (match forwards own wsig c.args.length (c.kwargs.map (·.1)) c.hideA c.hideK c.useVa c.useVk false with
     | .ok s => .ok s
     | .error _ => .error .unknownForwards)
  | .partialCtor =>
    (match c.args with
     | [] => .error .unknownForwards
     | a0 :: _ =>
       match resolve a0 with
       | .fn wsig =>
         if !calleeRetrievable wsig (c.args.length - 1) (c.kwargs.map (·.1)) then .error .unknownForwards else
         (match forwards own wsig (c.args.length - 1) (c.kwargs.map (·.1)) c.hideA c.hideK c.useVa c.useVk true with
          | .ok s => .ok s
          | .error _ => .error .unknownForwards)
       | _ => .error .unknownForwards)
  | _ => .error .unknownForwards

/-- all declarations, in order; the first failure wins -/
def declaredAll (own : USig) (resolve : RM → RVal) : List CallRec → Except Err (List USig)
  | [] => .ok []
  | c :: cs => do
    let s ← declared own resolve c
    let ss ← declaredAll own resolve cs
    pure (s :: ss)

theorem forwardSig_skip (own : USig) (resolve : RM → RVal) (c : CallRec) (h : (c.useVa || c.useVk) = false) :
    forwardSig own resolve c = .ok none := by
  unfold forwardSig; simp [h]

theorem forwardSig_fwd (own : USig) (resolve : RM → RVal) (c : CallRec) (h : (c.useVa || c.useVk) = true) :
    forwardSig own resolve c = (declared own resolve c).map some := by
  unfold forwardSig declared
  simp only [h, Bool.not_true, Bool.false_eq_true, if_false]
  cases resolve c.wrapped with
  | fn wsig =>
    simp only
    split
    · rfl
    · cases forwards own wsig c.args.length (c.kwargs.map (·.1)) c.hideA c.hideK c.useVa c.useVk false <;> rfl
  | partialCtor =>
    simp only
    cases c.args with
    | nil => rfl
    | cons a0 rest =>
      simp only
      cases resolve a0 with
      | fn wsig =>
        simp only
        split
        · rfl
        · cases forwards own wsig ((a0 :: rest).length - 1) (c.kwargs.map (·.1)) c.hideA c.hideK c.useVa c.useVk true <;> rfl
      | _ => rfl
  | other => rfl
  | unresolvable => rfl

/-- calls that forward neither star parameter are ignored -/
theorem forwardSigs_ignores (own : USig) (resolve : RM → RVal) (cs : List CallRec) :
    forwardSigs own resolve cs = declaredAll own resolve (forwarding cs) := by
  induction cs with
  | nil => rfl
  | cons c cs ih =>
    unfold forwarding at ih ⊢
    simp only [forwardSigs, List.filter_cons]
    by_cases h : (c.useVa || c.useVk) = true
    · simp only [h, if_true, declaredAll]
      rw [forwardSig_fwd own resolve c h, ih]
      cases declared own resolve c with
      | error e => rfl
      | ok s =>
        simp only [Except.map, bind, Except.bind, pure, Except.pure]
    · have h' : (c.useVa || c.useVk) = false := by simpa using h
      simp only [h', Bool.false_eq_true, if_false]
      rw [forwardSig_skip own resolve c h', ih]
      simp only [bind, Except.bind, pure, Except.pure]
      cases declaredAll own resolve (List.filter (fun c => c.useVa || c.useVk) cs) <;> rfl

/-- **discovery = declaration**: what retrieval returns for the visitor's call records is the
    merge of the explicit declarations of the forwarding calls, or the plain signature -/
theorem discovered_eq_declared (own : USig) (resolve : RM → RVal) (cs : List CallRec) :
    discovered own resolve (some cs) =
      match declaredAll own resolve (forwarding cs) with
      | .ok [] => .ok own                       -- nothing usable remains
      | .ok (s :: ss) => (match merge (s :: ss) with
                          | .ok R => .ok R
                          | .error _ => .ok own)   -- incompatible: plain signature
      | .error _ => .ok own := by                  -- a callee could not be resolved / retrieved / fitted
  unfold discovered autoforwardsAst
  simp only [bind, Except.bind]
  rw [forwardSigs_ignores]
  have herr : ∀ e, declaredAll own resolve (forwarding cs) = .error e → e = .unknownForwards := by
    intro e
    generalize forwarding cs = l
    induction l generalizing e with
    | nil => intro h; cases h
    | cons c t ih =>
      intro h
      simp only [declaredAll, bind, Except.bind] at h
      cases hd : declared own resolve c with
      | error e' =>
        rw [hd] at h
        simp only [Except.error.injEq] at h
        subst h
        unfold declared at hd
        (repeat' split at hd) <;> first | (cases hd; done) | (cases hd; rfl)
      | ok s =>
        rw [hd] at h
        simp only at h
        cases ht : declaredAll own resolve t with
        | error e' =>
          rw [ht] at h
          simp only [Except.error.injEq] at h
          subst h
          exact ih e' ht
        | ok ss => rw [ht] at h; cases h
  cases hd : declaredAll own resolve (forwarding cs) with
  | error e =>
    have := herr e hd
    subst this
    rfl
  | ok l =>
    cases l with
    | nil => rfl
    | cons s ss =>
      simp only [List.isEmpty_cons, Bool.false_eq_true, if_false]
      cases merge (s :: ss) <;> rfl

/-- retrieval with discovery never fails for a plain function: it returns a signature -/
theorem discovered_total (own : USig) (resolve : RM → RVal) (cs : Option (List CallRec)) :
    ∃ R, discovered own resolve cs = .ok R := by
  cases cs with
  | none => exact ⟨own, rfl⟩
  | some cs =>
    rw [discovered_eq_declared]
    cases declaredAll own resolve (forwarding cs) with
    | error e => exact ⟨own, rfl⟩
    | ok l =>
      cases l with
      | nil => exact ⟨own, rfl⟩
      | cons s ss =>
        simp only
        cases merge (s :: ss) with
        | ok R => exact ⟨R, rfl⟩
        | error e => exact ⟨own, rfl⟩

/-- a call that forwards neither star (a decoy, an unrelated call) can be inserted anywhere
    without changing the outcome -/
theorem discovered_decoy_invariant (own : USig) (resolve : RM → RVal) (pre post : List CallRec) (d : CallRec)
    (hd : (d.useVa || d.useVk) = false) :
    discovered own resolve (some (pre ++ d :: post)) = discovered own resolve (some (pre ++ post)) := by
  rw [discovered_eq_declared, discovered_eq_declared]
  have : forwarding (pre ++ d :: post) = forwarding (pre ++ post) := by
    unfold forwarding
    simp [List.filter_append, List.filter_cons, hd]
  rw [this]

/-- `functools.partial(callee, …)`: the callee is the first written argument, one positional
    fewer is forwarded, and the declaration is made with `partial=True` -/
theorem declared_partial (own : USig) (resolve : RM → RVal) (c : CallRec) (a0 : RM) (rest : List RM) (wsig : USig)
    (hw : resolve c.wrapped = .partialCtor) (ha : c.args = a0 :: rest) (h0 : resolve a0 = .fn wsig)
    (hr : calleeRetrievable wsig rest.length (c.kwargs.map (·.1)) = true) :
    declared own resolve c =
      match forwards own wsig rest.length (c.kwargs.map (·.1)) c.hideA c.hideK c.useVa c.useVk true with
      | .ok s => .ok s
      | .error _ => .error .unknownForwards := by
  unfold declared
  simp [hw, ha, h0, hr]

/-! ### non-vacuity -/

private def ownW : USig := { params := [⟨11, .vp, none, none, .empty⟩, ⟨12, .vk, none, none, .empty⟩],
                             src := [(11, [1]), (12, [1])], depths := [(1, 0)] }
private def calleeG : USig := { params := [⟨1, .pk, none, none, .empty⟩], src := [(1, [2])], depths := [(2, 0)] }
private def resolveG : RM → RVal
  | .nm 21 => .fn calleeG
  | _ => .unresolvable
private def recG : CallRec := { wrapped := .nm 21, args := [], kwargs := [], varargs := some (.arg 11 (some .va)),
                                varkwargs := some (.arg 12 (some .vk)), useVa := true, useVk := true,
                                hideA := false, hideK := false }
private def recDecoy : CallRec := { wrapped := .nm 99, args := [], kwargs := [], varargs := none, varkwargs := none,
                                    useVa := false, useVk := false, hideA := false, hideK := false }

example : forwarding [recDecoy, recG] = [recG] := by decide
example : (recDecoy.useVa || recDecoy.useVk) = false := rfl

end SV
