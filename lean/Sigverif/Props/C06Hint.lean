/-
  Props/C06Hint.lean — C06 (the hint protocol): a function wrapped by a keyword/positional modifier
  is analysed with its REWRITTEN signature.

  * `discoveredHint_ok`        when the selection is admissible, retrieval = discovery started from
                               the parameters the modifier advertises (so every theorem about
                               `discovered` applies with `own := the advertised signature`)
  * `discoveredHint_err`       otherwise the decoration itself fails with ValueError (never later)
  * `discoveredHint_total`     an admissible selection always yields a signature
  * `discoveredHint_narrows_pos` and what it yields only accepts all-positional calls the advertised
                               signature accepts
-/
import Sigverif.Props.C07
import Sigverif.Props.C12
namespace SV

theorem discoveredHint_ok (own : USig) (P W : List Nat) (resolve : RM → RVal) (cs : Option (List CallRec))
    (ps : List Param) (kp : List (Nat × Param)) (h : prepare own.params P W = .ok (ps, kp)) :
    discoveredHint own P W resolve cs = discovered { own with params := ps } resolve cs := by
  unfold discoveredHint
  rw [h]

theorem discoveredHint_err (own : USig) (P W : List Nat) (resolve : RM → RVal) (cs : Option (List CallRec))
    (e : Err) (h : prepare own.params P W = .error e) :
    discoveredHint own P W resolve cs = .error e := by
  unfold discoveredHint
  rw [h]

theorem discoveredHint_total (own : USig) (P W : List Nat) (resolve : RM → RVal) (cs : Option (List CallRec))
    (ps : List Param) (kp : List (Nat × Param)) (h : prepare own.params P W = .ok (ps, kp)) :
    ∃ R, discoveredHint own P W resolve cs = .ok R := by
  rw [discoveredHint_ok own P W resolve cs ps kp h]
  exact discovered_total _ resolve cs

theorem discoveredHint_narrows_pos (own R : USig) (P W : List Nat) (resolve : RM → RVal) (cs : Option (List CallRec))
    (ps : List Param) (kp : List (Nat × Param)) (m : Nat)
    (h : prepare own.params P W = .ok (ps, kp)) (hown : WF own.params)
    (hres : ∀ r w, resolve r = .fn w → WF w.params)
    (hd : discoveredHint own P W resolve cs = .ok R) (hacc : accepts R.params m [] = true) :
    accepts ps m [] = true := by
  rw [discoveredHint_ok own P W resolve cs ps kp h] at hd
  exact discovered_narrows_pos { own with params := ps } R resolve cs m (prepare_wf own.params ps P W kp hown h) hres hd hacc

end SV
