/-
  Props/C07Examine.lean — property C07 (retrieval is total), the part D88 was about: discovery over
  functions that forward to each other TERMINATES, whatever the shape of the call graph — cycles of
  any length, any mix of plain and `modifiers`-decorated functions —, and never nests deeper than
  the number of functions.

  * `forged_total` / `examine_total`: in a graph of `n` functions closed under `succ`, the
    retrieval of any function returns (the fuel `2·n + 2` is never exhausted), from any reachable
    guard stack.
  * `stack_room`: a guard stack never holds more functions than the graph has (what bounds the nesting).
  * `old_self_loop_diverges`: on the code before D88 a decorated function that forwards to itself
    has no finite examination — for every amount of fuel the model runs out of it (on the real code:
    RecursionError at every level, each level then starting over; stream probe `self_forwarding_hint`).
  * non-vacuity: the new code answers on that very graph, with 12 guard events.
-/
import Sigverif.Model.Examine
import Batteries.Data.List.Perm
namespace SV

theorem stack_room (n : Nat) (stack : List Nat) (f : Nat) (hnd : stack.Nodup) (hlt : ∀ x ∈ stack, x < n)
    (hf : f < n) (hnot : f ∉ stack) : stack.length + 1 ≤ n := by
  have hnd' : (f :: stack).Nodup := List.nodup_cons.2 ⟨hnot, hnd⟩
  have hsub : (f :: stack) ⊆ List.range n := by
    intro x hx
    rcases List.mem_cons.1 hx with rfl | hx
    · exact List.mem_range.2 hf
    · exact List.mem_range.2 (hlt x hx)
  have := (List.subperm_of_subset hnd' hsub).length_le
  simpa using this

theorem guardedF_mem (g : FGraph) (b : Nat) (stack : List Nat) (f : Nat) (h : f ∈ stack) :
    guardedF g (b + 1) stack f = some ([.enter (some f) stack.length, .uf (some f)], none) := by
  rw [guardedF]; simp [h]

structure ClosedGraph (g : FGraph) (n : Nat) : Prop where
  succ_lt : ∀ f c, f < n → g.succ f = some c → c < n

/-- both functions return whenever the fuel covers twice the room left on the stack -/
theorem total_aux (g : FGraph) (n : Nat) (hc : ClosedGraph g n) :
    ∀ (k : Nat) (stack : List Nat), stack.Nodup → (∀ x ∈ stack, x < n) → n - stack.length ≤ k →
      (∀ (f b : Nat), f < n → 2 * k + 1 ≤ b → ∃ r, guardedF g b stack f = some r) ∧
      (∀ (c : Option Nat) (b : Nat), (∀ f, c = some f → f < n) → 2 * k + 2 ≤ b → ∃ r, forgedF g b stack c = some r) := by
  intro k
  induction k with
  | zero =>
    intro stack hnd hlt hk
    have hA : ∀ (f b : Nat), f < n → 2 * 0 + 1 ≤ b → ∃ r, guardedF g b stack f = some r := by
      intro f b hf hb
      obtain ⟨b', rfl⟩ : ∃ b', b = b' + 1 := ⟨b - 1, by omega⟩
      by_cases hmem : f ∈ stack
      · exact ⟨_, guardedF_mem g b' stack f hmem⟩
      · have := stack_room n stack f hnd hlt hf hmem
        omega
    refine ⟨hA, ?_⟩
    intro c b hcn hb
    obtain ⟨b', rfl⟩ : ∃ b', b = b' + 1 := ⟨b - 1, by omega⟩
    cases c with
    | none => exact ⟨_, by rw [forgedF]⟩
    | some f =>
      obtain ⟨r, hr⟩ := hA f b' (hcn f rfl) (by omega)
      obtain ⟨t1, res⟩ := r
      rw [forgedF, hr]
      cases res with
      | some names => exact ⟨_, rfl⟩
      | none =>
        simp only []
        split
        · exact ⟨_, rfl⟩
        · exact ⟨_, rfl⟩
  | succ k ih =>
    intro stack hnd hlt hk
    have hA : ∀ (f b : Nat), f < n → 2 * (k + 1) + 1 ≤ b → ∃ r, guardedF g b stack f = some r := by
      intro f b hf hb
      obtain ⟨b', rfl⟩ : ∃ b', b = b' + 1 := ⟨b - 1, by omega⟩
      by_cases hmem : f ∈ stack
      · exact ⟨_, guardedF_mem g b' stack f hmem⟩
      · have hroom := stack_room n stack f hnd hlt hf hmem
        have hnd' : (f :: stack).Nodup := List.nodup_cons.2 ⟨hmem, hnd⟩
        have hlt' : ∀ x ∈ f :: stack, x < n := by
          intro x hx
          rcases List.mem_cons.1 hx with rfl | hx
          · exact hf
          · exact hlt x hx
        obtain ⟨r, hr⟩ := (ih (f :: stack) hnd' hlt' (by simp only [List.length_cons]; omega)).2 (g.succ f) b'
          (fun c hc' => hc.succ_lt f c hf hc') (by omega)
        obtain ⟨t, names⟩ := r
        rw [guardedF]
        simp only [List.contains_iff_mem, hmem, if_false, hr]
        split
        · exact ⟨_, rfl⟩
        · exact ⟨_, rfl⟩
    refine ⟨hA, ?_⟩
    intro c b hcn hb
    obtain ⟨b', rfl⟩ : ∃ b', b = b' + 1 := ⟨b - 1, by omega⟩
    cases c with
    | none => exact ⟨_, by rw [forgedF]⟩
    | some f =>
      obtain ⟨r, hr⟩ := hA f b' (hcn f rfl) (by omega)
      obtain ⟨t1, res⟩ := r
      rw [forgedF, hr]
      cases res with
      | some names => exact ⟨_, rfl⟩
      | none =>
        simp only []
        split
        · exact ⟨_, rfl⟩
        · exact ⟨_, rfl⟩

/-- **discovery returns** from any reachable guard stack -/
theorem forged_total (g : FGraph) (n : Nat) (hc : ClosedGraph g n) (stack : List Nat) (hnd : stack.Nodup)
    (hlt : ∀ x ∈ stack, x < n) (c : Option Nat) (hcn : ∀ f, c = some f → f < n) :
    ∃ r, forgedF g (2 * n + 2) stack c = some r :=
  (total_aux g n hc n stack hnd hlt (by omega)).2 c _ hcn (by omega)

/-- **the retrieval of any function of any closed call graph returns** -/
theorem examine_total (g : FGraph) (n f : Nat) (hc : ClosedGraph g n) (hf : f < n) :
    ∃ t, examineTrace g n f = some t := by
  obtain ⟨r, hr⟩ := forged_total g n hc [] List.nodup_nil (by simp) (some f) (by intro f' h; cases h; exact hf)
  exact ⟨r.1, by simp [examineTrace, hr]⟩

/-! ### the code before D88 -/

def selfLoop : FGraph := { succ := fun _ => some 0, hinted := fun _ => true }

/-- a decorated function that forwards to itself: no amount of fuel suffices on the old code -/
theorem old_self_loop_diverges : ∀ (b : Nat) (stack : List Nat),
    forgedOldF selfLoop b stack (some 0) = none ∧ hintedOldF selfLoop b stack 0 = none
  | 0, stack => ⟨by rw [forgedOldF], by rw [hintedOldF]⟩
  | b + 1, stack => by
    have ih := old_self_loop_diverges b stack
    constructor
    · rw [forgedOldF]; simp [selfLoop] at ih ⊢; simp [ih.2]
    · rw [hintedOldF]; simp [selfLoop] at ih ⊢; simp [ih.1]

example : ClosedGraph selfLoop 1 := ⟨by intro f c hf h; simp [selfLoop] at h; omega⟩

/-- the repaired code answers on the same graph: six guard entries, each followed by its outcome -/
example : (examineTrace selfLoop 1 0).map List.length = some 12 := by decide



/-! ### nesting depth -/

def Ev.depthLe (n : Nat) : Ev → Prop
  | .enter _ d => d ≤ n
  | _ => True

def DepthsLe (n : Nat) (t : List Ev) : Prop := ∀ e ∈ t, e.depthLe n

theorem stack_len_le (n : Nat) (stack : List Nat) (hnd : stack.Nodup) (hlt : ∀ x ∈ stack, x < n) :
    stack.length ≤ n := by
  have hsub : stack ⊆ List.range n := fun x hx => List.mem_range.2 (hlt x hx)
  have := (List.subperm_of_subset hnd hsub).length_le
  simpa using this

theorem DepthsLe.append {n : Nat} {a b : List Ev} (ha : DepthsLe n a) (hb : DepthsLe n b) : DepthsLe n (a ++ b) := by
  intro e he
  rcases List.mem_append.1 he with h | h
  · exact ha e h
  · exact hb e h

/-- **no guard event is ever recorded deeper than the number of functions**: the nesting of
    examinations is bounded by the size of the call graph, whatever its shape -/
theorem depth_bounded (g : FGraph) (n : Nat) (hc : ClosedGraph g n) :
    ∀ (b : Nat),
      (∀ (stack : List Nat) (c : Option Nat) (r : List Ev × List Nat), stack.Nodup → (∀ x ∈ stack, x < n) →
        (∀ f, c = some f → f < n) → forgedF g b stack c = some r → DepthsLe n r.1) ∧
      (∀ (stack : List Nat) (f : Nat) (r : List Ev × Option (List Nat)), stack.Nodup → (∀ x ∈ stack, x < n) →
        f < n → guardedF g b stack f = some r → DepthsLe n r.1) := by
  intro b
  induction b with
  | zero =>
    constructor
    · intro stack c r _ _ _ h; rw [forgedF] at h; cases h
    · intro stack f r _ _ _ h; rw [guardedF] at h; cases h
  | succ b ih =>
    have hG : ∀ (stack : List Nat) (f : Nat) (r : List Ev × Option (List Nat)), stack.Nodup → (∀ x ∈ stack, x < n) →
        f < n → guardedF g (b + 1) stack f = some r → DepthsLe n r.1 := by
      intro stack f r hnd hlt hf h
      have hlen := stack_len_le n stack hnd hlt
      rw [guardedF] at h
      by_cases hmem : f ∈ stack
      · simp only [List.contains_iff_mem, hmem, if_true, Option.some.injEq] at h
        subst h
        intro e he
        simp only [List.mem_cons, List.mem_nil_iff, or_false] at he
        rcases he with rfl | rfl
        · exact hlen
        · trivial
      · simp only [List.contains_iff_mem, hmem, if_false] at h
        have hnd' : (f :: stack).Nodup := List.nodup_cons.2 ⟨hmem, hnd⟩
        have hlt' : ∀ x ∈ f :: stack, x < n := by
          intro x hx
          rcases List.mem_cons.1 hx with rfl | hx
          · exact hf
          · exact hlt x hx
        cases hfo : forgedF g b (f :: stack) (g.succ f) with
        | none => rw [hfo] at h; cases h
        | some res =>
          obtain ⟨t, names⟩ := res
          have ht := ih.1 (f :: stack) (g.succ f) (t, names) hnd' hlt' (fun c hc' => hc.succ_lt f c hf hc') hfo
          rw [hfo] at h
          simp only [] at h
          have hbody : ∀ (last : Ev), last.depthLe n → DepthsLe n (Ev.enter (some f) stack.length :: t ++ [last]) := by
            intro last hl e he
            simp only [List.mem_cons, List.mem_append, List.mem_nil_iff, or_false] at he
            rcases he with (rfl | he) | rfl
            · exact hlen
            · exact ht e he
            · exact hl
          split at h
          · cases h; exact hbody _ trivial
          · cases h; exact hbody _ trivial
    refine ⟨?_, hG⟩
    intro stack c r hnd hlt hcn h
    cases c with
    | none =>
      rw [forgedF] at h
      cases h
      intro e he
      simp only [List.mem_cons, List.mem_nil_iff, or_false] at he
      rcases he with rfl | rfl
      · exact stack_len_le n stack hnd hlt
      · trivial
    | some f =>
      have hf := hcn f rfl
      rw [forgedF] at h
      cases hg1 : guardedF g b stack f with
      | none => rw [hg1] at h; cases h
      | some r1 =>
        obtain ⟨t1, res1⟩ := r1
        have h1 := ih.2 stack f (t1, res1) hnd hlt hf hg1
        rw [hg1] at h
        cases res1 with
        | some names => cases h; exact h1
        | none =>
          simp only [] at h
          split at h
          · -- the second route: the same call again
            cases h
            exact DepthsLe.append h1 h1
          · cases h; exact h1

/-- in particular for a top-level retrieval -/
theorem examine_depth_bounded (g : FGraph) (n f : Nat) (hc : ClosedGraph g n) (hf : f < n) (t : List Ev)
    (h : examineTrace g n f = some t) : DepthsLe n t := by
  simp only [examineTrace, Option.map_eq_some_iff] at h
  obtain ⟨r, hr, rfl⟩ := h
  exact (depth_bounded g n hc _).1 [] (some f) r List.nodup_nil (by simp) (by intro f' h; cases h; exact hf) hr

/-! ### the answer does not depend on the fuel -/

/-- more fuel changes nothing once the examination has returned: `examineTrace` is the behaviour of
    the procedure, not an artefact of the bound `2·n + 2` -/
theorem fuel_mono (g : FGraph) : ∀ (b : Nat),
    (∀ (stack : List Nat) (c : Option Nat) (r : List Ev × List Nat),
      forgedF g b stack c = some r → forgedF g (b + 1) stack c = some r) ∧
    (∀ (stack : List Nat) (f : Nat) (r : List Ev × Option (List Nat)),
      guardedF g b stack f = some r → guardedF g (b + 1) stack f = some r) := by
  intro b
  induction b with
  | zero =>
    constructor
    · intro stack c r h; rw [forgedF] at h; cases h
    · intro stack f r h; rw [guardedF] at h; cases h
  | succ b ih =>
    constructor
    · intro stack c r h
      cases c with
      | none => rw [forgedF] at h ⊢; exact h
      | some f =>
        rw [forgedF] at h
        cases hg : guardedF g b stack f with
        | none => rw [hg] at h; cases h
        | some r1 =>
          have hg' := ih.2 stack f r1 hg
          rw [forgedF, hg']
          rw [hg] at h
          exact h
    · intro stack f r h
      rw [guardedF] at h
      rw [guardedF]
      by_cases hmem : stack.contains f = true
      · simp only [hmem, if_true] at h ⊢; exact h
      · simp only [hmem] at h ⊢
        cases hf : forgedF g b (f :: stack) (g.succ f) with
        | none => rw [hf] at h; cases h
        | some r1 =>
          have hf' := ih.1 (f :: stack) (g.succ f) r1 hf
          rw [hf'] 
          rw [hf] at h
          exact h

theorem forgedF_fuel_le (g : FGraph) (b b' : Nat) (hle : b ≤ b') (stack : List Nat) (c : Option Nat)
    (r : List Ev × List Nat) (h : forgedF g b stack c = some r) : forgedF g b' stack c = some r := by
  induction hle with
  | refl => exact h
  | step _ ih => exact (fuel_mono g _).1 stack c r ih

end SV
