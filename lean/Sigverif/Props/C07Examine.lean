/-
  Props/C07Examine.lean — property C07 (retrieval is total), the part D88 was about: discovery over
  functions that forward to each other TERMINATES, whatever the shape of the call graph — cycles of
  any length, any mix of plain and `modifiers`-decorated functions —, and never nests deeper than
  the number of functions.

  * `forged_total` / `examine_total`: in a graph of `n` functions closed under `succ`, the
    retrieval of any function returns (the fuel `2·n + 2` is never exhausted), from any reachable
    guard stack.
  * `stack_room`: a guard stack never holds more functions than the graph has (what bounds the nesting).
  * `old_self_loop_diverges`: on the code before D88 a decorated function that forwards to itself
    has no finite examination — for every amount of fuel the model runs out of it (on the real code:
    RecursionError at every level, each level then starting over; stream probe `self_forwarding_hint`).
  * non-vacuity: the new code answers on that very graph, with 12 guard events.
-/
import Sigverif.Model.Examine
import Batteries.Data.List.Perm
namespace SV

theorem stack_room (n : Nat) (stack : List Nat) (f : Nat) (hnd : stack.Nodup) (hlt : ∀ x ∈ stack, x < n)
    (hf : f < n) (hnot : f ∉ stack) : stack.length + 1 ≤ n := by
  have hnd' : (f :: stack).Nodup := List.nodup_cons.2 ⟨hnot, hnd⟩
  have hsub : (f :: stack) ⊆ List.range n := by
    intro x hx
    rcases List.mem_cons.1 hx with rfl | hx
    · exact List.mem_range.2 hf
    · exact List.mem_range.2 (hlt x hx)
  have := (List.subperm_of_subset hnd' hsub).length_le
  simpa using this

theorem guardedF_mem (g : FGraph) (b : Nat) (stack : List Nat) (f : Nat) (h : f ∈ stack) :
    guardedF g (b + 1) stack f = some ([.enter (some f) stack.length, .uf (some f)], none) := by
  rw [guardedF]; simp [h]

structure ClosedGraph (g : FGraph) (n : Nat) : Prop where
  succ_lt : ∀ f c, f < n → g.succ f = some c → c < n

/-- both functions return whenever the fuel covers twice the room left on the stack -/
theorem total_aux (g : FGraph) (n : Nat) (hc : ClosedGraph g n) :
    ∀ (k : Nat) (stack : List Nat), stack.Nodup → (∀ x ∈ stack, x < n) → n - stack.length ≤ k →
      (∀ (f b : Nat), f < n → 2 * k + 1 ≤ b → ∃ r, guardedF g b stack f = some r) ∧
      (∀ (c : Option Nat) (b : Nat), (∀ f, c = some f → f < n) → 2 * k + 2 ≤ b → ∃ r, forgedF g b stack c = some r) := by
  intro k
  induction k with
  | zero =>
    intro stack hnd hlt hk
    have hA : ∀ (f b : Nat), f < n → 2 * 0 + 1 ≤ b → ∃ r, guardedF g b stack f = some r := by
      intro f b hf hb
      obtain ⟨b', rfl⟩ : ∃ b', b = b' + 1 := ⟨b - 1, by omega⟩
      by_cases hmem : f ∈ stack
      · exact ⟨_, guardedF_mem g b' stack f hmem⟩
      · have := stack_room n stack f hnd hlt hf hmem
        omega
    refine ⟨hA, ?_⟩
    intro c b hcn hb
    obtain ⟨b', rfl⟩ : ∃ b', b = b' + 1 := ⟨b - 1, by omega⟩
    cases c with
    | none => exact ⟨_, by rw [forgedF]⟩
    | some f =>
      obtain ⟨r, hr⟩ := hA f b' (hcn f rfl) (by omega)
      obtain ⟨t1, res⟩ := r
      rw [forgedF, hr]
      cases res with
      | some names => exact ⟨_, rfl⟩
      | none =>
        simp only []
        split
        · exact ⟨_, rfl⟩
        · exact ⟨_, rfl⟩
  | succ k ih =>
    intro stack hnd hlt hk
    have hA : ∀ (f b : Nat), f < n → 2 * (k + 1) + 1 ≤ b → ∃ r, guardedF g b stack f = some r := by
      intro f b hf hb
      obtain ⟨b', rfl⟩ : ∃ b', b = b' + 1 := ⟨b - 1, by omega⟩
      by_cases hmem : f ∈ stack
      · exact ⟨_, guardedF_mem g b' stack f hmem⟩
      · have hroom := stack_room n stack f hnd hlt hf hmem
        have hnd' : (f :: stack).Nodup := List.nodup_cons.2 ⟨hmem, hnd⟩
        have hlt' : ∀ x ∈ f :: stack, x < n := by
          intro x hx
          rcases List.mem_cons.1 hx with rfl | hx
          · exact hf
          · exact hlt x hx
        obtain ⟨r, hr⟩ := (ih (f :: stack) hnd' hlt' (by simp only [List.length_cons]; omega)).2 (g.succ f) b'
          (fun c hc' => hc.succ_lt f c hf hc') (by omega)
        obtain ⟨t, names⟩ := r
        rw [guardedF]
        simp only [List.contains_iff_mem, hmem, if_false, hr]
        split
        · exact ⟨_, rfl⟩
        · exact ⟨_, rfl⟩
    refine ⟨hA, ?_⟩
    intro c b hcn hb
    obtain ⟨b', rfl⟩ : ∃ b', b = b' + 1 := ⟨b - 1, by omega⟩
    cases c with
    | none => exact ⟨_, by rw [forgedF]⟩
    | some f =>
      obtain ⟨r, hr⟩ := hA f b' (hcn f rfl) (by omega)
      obtain ⟨t1, res⟩ := r
      rw [forgedF, hr]
      cases res with
      | some names => exact ⟨_, rfl⟩
      | none =>
        simp only []
        split
        · exact ⟨_, rfl⟩
        · exact ⟨_, rfl⟩

/-- **discovery returns** from any reachable guard stack -/
theorem forged_total (g : FGraph) (n : Nat) (hc : ClosedGraph g n) (stack : List Nat) (hnd : stack.Nodup)
    (hlt : ∀ x ∈ stack, x < n) (c : Option Nat) (hcn : ∀ f, c = some f → f < n) :
    ∃ r, forgedF g (2 * n + 2) stack c = some r :=
  (total_aux g n hc n stack hnd hlt (by omega)).2 c _ hcn (by omega)

/-- **the retrieval of any function of any closed call graph returns** -/
theorem examine_total (g : FGraph) (n f : Nat) (hc : ClosedGraph g n) (hf : f < n) :
    ∃ t, examineTrace g n f = some t := by
  obtain ⟨r, hr⟩ := forged_total g n hc [] List.nodup_nil (by simp) (some f) (by intro f' h; cases h; exact hf)
  exact ⟨r.1, by simp [examineTrace, hr]⟩

/-! ### the code before D88 -/

def selfLoop : FGraph := { succ := fun _ => some 0, hinted := fun _ => true }

/-- a decorated function that forwards to itself: no amount of fuel suffices on the old code -/
theorem old_self_loop_diverges : ∀ (b : Nat) (stack : List Nat),
    forgedOldF selfLoop b stack (some 0) = none ∧ hintedOldF selfLoop b stack 0 = none
  | 0, stack => ⟨by rw [forgedOldF], by rw [hintedOldF]⟩
  | b + 1, stack => by
    have ih := old_self_loop_diverges b stack
    constructor
    · rw [forgedOldF]; simp [selfLoop] at ih ⊢; simp [ih.2]
    · rw [hintedOldF]; simp [selfLoop] at ih ⊢; simp [ih.1]

example : ClosedGraph selfLoop 1 := ⟨by intro f c hf h; simp [selfLoop] at h; omega⟩

/-- the repaired code answers on the same graph: six guard entries, each followed by its outcome -/
example : (examineTrace selfLoop 1 0).map List.length = some 12 := by decide

end SV
