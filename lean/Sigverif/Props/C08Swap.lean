/-
  Props/C08Swap.lean — property C08, last clause: "Wrapper objects created by modifiers replace the
  function they wrap consistently in both maps".

  `_PokTranslator._prepare` ends with
      sig.replace(parameters=params, sources=copy_sources(sig.sources, {self.func: self}))
  (`Model/Sort.lean`: `swapSrcs`, `swapDepths`; `Model/Modifiers.lean`: `prepareSig`).  For every
  provenance (any lists, any depth map with distinct keys) in which the wrapper object is new:
    * the lists keep their keys and order and are the old lists with the function replaced (`swap_lists`)
    * the function is nowhere any more — in no list and not in `+depths` (`swap_function_gone`)
    * the wrapper object has the depth the function had; every other callable keeps its depth (`swap_depths`)
    * every callable listed still has a depth (`swap_listed_have_depth`)
  ONLY property theorems + non-vacuity examples; the helper lemmas are private to this file.
-/
import Sigverif.Model.Modifiers
import Sigverif.Lemmas.C08ND
namespace SV

private theorem dget_map_swap (a b : Nat) (s : Srcs) (k : Nat) :
    dget (swapSrcs a b s) k = (dget s k).map (fun l => l.map (swapFn a b)) := by
  induction s with
  | nil => rfl
  | cons e t ih =>
    obtain ⟨k', l⟩ := e
    simp only [swapSrcs, List.map_cons, dget] at ih ⊢
    by_cases h : k' = k
    · simp [h]
    · simp only [h, if_false]
      exact ih

/-- the lists: same keys, same order of entries, each list = the old one with the function replaced -/
theorem swap_lists (f self : Nat) (src : Srcs) :
    dkeys (swapSrcs f self src) = dkeys src ∧
    ∀ k, sget (swapSrcs f self src) k = (sget src k).map (swapFn f self) := by
  constructor
  · simp [swapSrcs, dkeys, List.map_map, Function.comp_def]
  · intro k
    unfold sget
    rw [dget_map_swap]
    cases dget src k <;> rfl

private theorem foldl_dset_fresh {α : Type} (g : Nat → Nat) (d acc : List (Nat × α))
    (hnd : ((dkeys acc) ++ (dkeys d).map g).Nodup) :
    d.foldl (fun acc e => dset acc (g e.1) e.2) acc = acc ++ d.map (fun e => (g e.1, e.2)) := by
  induction d generalizing acc with
  | nil => simp
  | cons e t ih =>
    obtain ⟨k, v⟩ := e
    simp only [List.foldl_cons, List.map_cons]
    have hk : dhas acc (g k) = false := by
      cases h : dhas acc (g k) with
      | false => rfl
      | true =>
        exfalso
        have hm := (mem_dkeys_iff acc (g k)).2 h
        simp only [dkeys, List.map_cons, List.nodup_append, List.mem_cons] at hnd
        exact hnd.2.2 _ hm _ (Or.inl rfl) rfl
    have hset : dset acc (g k) v = acc ++ [(g k, v)] := by
      clear ih hnd
      induction acc with
      | nil => rfl
      | cons e' t' ih' =>
        obtain ⟨k', v'⟩ := e'
        simp only [dhas, dget] at hk
        by_cases h : k' = g k
        · simp [h] at hk
        · simp only [h, if_false] at hk
          simp only [dset, h, if_false, List.cons_append, List.cons.injEq, true_and]
          exact ih' hk
    rw [hset, ih]
    · simp
    · simp only [dkeys, List.map_append, List.map_cons, List.map_nil] at hnd ⊢
      simpa [List.append_assoc] using hnd

private theorem dget_map_inj {α : Type} (g : Nat → Nat) (d : List (Nat × α)) (c : Nat)
    (hinj : ∀ x ∈ dkeys d, g x = g c → x = c) :
    dget (d.map (fun e => (g e.1, e.2))) (g c) = dget d c := by
  induction d with
  | nil => rfl
  | cons e t ih =>
    obtain ⟨k, v⟩ := e
    simp only [List.map_cons, dget]
    by_cases h : k = c
    · simp [h]
    · have : g k ≠ g c := fun e' => h (hinj k (by simp [dkeys]) e')
      simp only [this, h, if_false]
      exact ih (fun x hx => hinj x (by simp only [dkeys, List.map_cons, List.mem_cons] at hx ⊢; exact Or.inr hx))

private theorem dget_map_none {α : Type} (g : Nat → Nat) (d : List (Nat × α)) (c : Nat)
    (h : ∀ x ∈ dkeys d, g x ≠ c) : dget (d.map (fun e => (g e.1, e.2))) c = none := by
  induction d with
  | nil => rfl
  | cons e t ih =>
    obtain ⟨k, v⟩ := e
    simp only [List.map_cons, dget]
    have : g k ≠ c := h k (by simp [dkeys])
    simp only [this, if_false]
    exact ih (fun x hx => h x (by simp only [dkeys, List.map_cons, List.mem_cons] at hx ⊢; exact Or.inr hx))

private theorem swapFn_inj_on (f self : Nat) (d : Depths) (hfresh : dhas d self = false) :
    ∀ x ∈ dkeys d, ∀ y ∈ dkeys d, swapFn f self x = swapFn f self y → x = y := by
  intro x hx y hy e
  have hxs : x ≠ self := fun h => by
    rw [h] at hx; rw [(mem_dkeys_iff d self).1 hx] at hfresh; cases hfresh
  have hys : y ≠ self := fun h => by
    rw [h] at hy; rw [(mem_dkeys_iff d self).1 hy] at hfresh; cases hfresh
  unfold swapFn at e
  by_cases h1 : x = f <;> by_cases h2 : y = f <;> simp [h1, h2] at e
  · rw [h1, h2]
  · exact absurd e.symm hys
  · exact absurd e hxs
  · exact e

private theorem nodup_map_inj_on {l : List Nat} (g : Nat → Nat) (hnd : l.Nodup)
    (hinj : ∀ x ∈ l, ∀ y ∈ l, g x = g y → x = y) : (l.map g).Nodup := by
  induction l with
  | nil => simp
  | cons a t ih =>
    simp only [List.nodup_cons, List.map_cons, List.mem_map, not_exists, not_and] at hnd ⊢
    refine ⟨?_, ih hnd.2 (fun x hx y hy e => hinj x (by simp [hx]) y (by simp [hy]) e)⟩
    intro x hx e
    have := hinj x (by simp [hx]) a (by simp) e
    subst this
    exact hnd.1 hx

private theorem swapDepths_eq (f self : Nat) (d : Depths) (hnd : KeysND d) (hfresh : dhas d self = false) :
    swapDepths f self d = d.map (fun e => (swapFn f self e.1, e.2)) := by
  unfold swapDepths
  rw [foldl_dset_fresh (swapFn f self) d []]
  · simp
  · simp only [dkeys, List.map_nil, List.nil_append]
    unfold KeysND at hnd
    exact nodup_map_inj_on (swapFn f self) hnd (fun x hx y hy e => swapFn_inj_on f self d hfresh x hx y hy e)

/-- `+depths`: the wrapper object takes the function's depth, every other callable keeps its own -/
theorem swap_depths (f self : Nat) (d : Depths) (hnd : KeysND d) (hfresh : dhas d self = false) (hne : self ≠ f) :
    dget (swapDepths f self d) self = dget d f ∧
    ∀ c, c ≠ f → c ≠ self → dget (swapDepths f self d) c = dget d c := by
  rw [swapDepths_eq f self d hnd hfresh]
  constructor
  · have h1 : swapFn f self f = self := by simp [swapFn]
    by_cases hf : f ∈ dkeys d
    · have := dget_map_inj (swapFn f self) d f (fun x hx e => swapFn_inj_on f self d hfresh x hx f hf e)
      rw [h1] at this
      exact this
    · have hn : dget d f = none := by
        cases h : dget d f with
        | none => rfl
        | some v => exact absurd ((mem_dkeys_iff d f).2 (by simp [dhas, h])) hf
      rw [hn]
      apply dget_map_none
      intro x hx
      unfold swapFn
      by_cases hxf : x = f
      · exact absurd (hxf ▸ hx) hf
      · simp only [hxf, if_false]
        intro e
        rw [e] at hx
        rw [(mem_dkeys_iff d self).1 hx] at hfresh
        cases hfresh
  · intro c hcf hcs
    have h1 : swapFn f self c = c := by simp [swapFn, hcf]
    by_cases hc : c ∈ dkeys d
    · have := dget_map_inj (swapFn f self) d c (fun x hx e => swapFn_inj_on f self d hfresh x hx c hc e)
      rw [h1] at this
      exact this
    · have hn : dget d c = none := by
        cases h : dget d c with
        | none => rfl
        | some v => exact absurd ((mem_dkeys_iff d c).2 (by simp [dhas, h])) hc
      rw [hn]
      apply dget_map_none
      intro x hx
      unfold swapFn
      by_cases hxf : x = f
      · simp only [hxf, if_true]; exact fun e => hcs e.symm
      · simp only [hxf, if_false]
        intro e
        exact hc (e ▸ hx)

/-- the function the wrapper object stands for is gone from both maps -/
theorem swap_function_gone (f self : Nat) (src : Srcs) (d : Depths) (hnd : KeysND d)
    (hfresh : dhas d self = false) (hne : self ≠ f) :
    (∀ k, f ∉ sget (swapSrcs f self src) k) ∧ dhas (swapDepths f self d) f = false := by
  constructor
  · intro k hm
    rw [(swap_lists f self src).2 k, List.mem_map] at hm
    obtain ⟨g, -, hg⟩ := hm
    unfold swapFn at hg
    by_cases h : g = f
    · simp only [h, if_true] at hg; exact hne hg
    · simp only [h, if_false] at hg; try exact h hg
  · rw [swapDepths_eq f self d hnd hfresh]
    unfold dhas
    rw [dget_map_none]
    · rfl
    · intro x hx
      unfold swapFn
      by_cases h : x = f
      · simp only [h, if_true]; try exact hne
      · simp only [h, if_false]; try exact h

/-- consistency of the two maps: a callable listed for a parameter still has a depth -/
theorem swap_listed_have_depth (f self : Nat) (src : Srcs) (d : Depths) (hnd : KeysND d)
    (hfresh : dhas d self = false) (hne : self ≠ f)
    (hdep : ∀ k c, c ∈ sget src k → dhas d c = true) :
    ∀ k c, c ∈ sget (swapSrcs f self src) k → dhas (swapDepths f self d) c = true := by
  intro k c hc
  rw [(swap_lists f self src).2 k, List.mem_map] at hc
  obtain ⟨g, hg, rfl⟩ := hc
  have hgd := hdep k g hg
  obtain ⟨h1, h2⟩ := swap_depths f self d hnd hfresh hne
  unfold dhas at hgd ⊢
  by_cases h : g = f
  · subst h
    have : swapFn g self g = self := by simp [swapFn]
    rw [this, h1]; exact hgd
  · have hs : g ≠ self := by
      intro e
      rw [e] at hgd
      unfold dhas at hfresh
      rw [hfresh] at hgd
      cases hgd
    have : swapFn f self g = g := by simp [swapFn, h]
    rw [this, h2 g h hs]; exact hgd

/-- what `_prepare` hands out carries exactly these maps -/
theorem prepareSig_maps (sig R : USig) (f self : Nat) (P W : List Nat)
    (h : prepareSig sig f self P W = .ok R) :
    R.src = swapSrcs f self sig.src ∧ R.depths = swapDepths f self sig.depths := by
  unfold prepareSig at h
  simp only [bind, Except.bind] at h
  split at h
  · cases h
  · simp only [pure, Except.pure, Except.ok.injEq] at h
    subst h
    exact ⟨rfl, rfl⟩

/-! non-vacuity: `@kwoargs('b') def f(a, b=1)` — function 1, wrapper object 7 -/
private def exF : USig :=
  { params := [⟨1, .pk, none, none, .empty⟩, ⟨2, .pk, some 1, none, .empty⟩],
    src := [(1, [1]), (2, [1])], depths := [(1, 0)] }
example : ∃ R, prepareSig exF 1 7 [] [2] = .ok R ∧ R.src = [(1, [7]), (2, [7])] ∧ R.depths = [(7, 0)] ∧
    R.params.map (·.kind) = [.pk, .ko] := ⟨_, rfl, rfl, rfl, rfl⟩
example : KeysND exF.depths ∧ dhas exF.depths 7 = false ∧ (7 : Nat) ≠ 1 := by
  refine ⟨by unfold KeysND; decide, rfl, by decide⟩
-- a forwarding wrapper: inner callable 2 at depth 1 keeps its depth, the wrapper object takes depth 0
example : swapDepths 1 7 [(1, 0), (2, 1)] = [(7, 0), (2, 1)] ∧
    swapSrcs 1 7 [(1, [1]), (5, [1, 2]), (6, [2])] = [(1, [7]), (5, [7, 2]), (6, [2])] := ⟨rfl, rfl⟩

end SV
