/-
  Props/SM.lean — the small state machines: C14 (comparison/hash laws), C16 (attribute
  save/restore with a crash at every outside call; the as_forged guard), C17 (the same machine under
  arbitrary interleavings of any number of threads), C18 (the descriptor cache: no retention).
  ONLY property theorems + non-vacuity examples; helper lemmas in Sigverif/Lemmas/SM*.lean.
-/
import Sigverif.Model.Eq
import Sigverif.Model.Cleanup
import Sigverif.Model.Cache
import Sigverif.Lemmas.SMEq
import Sigverif.Lemmas.SMCleanup
namespace SV

/-! ## C14 -/

/-- comparing with == against any object returns a bool without raising -/
theorem eq_total (a b : Obj) : ∃ r, pyEq a b = .ok r := ⟨_, pyEq_spec a b⟩
theorem ne_total (a b : Obj) : ∃ r, pyNe a b = .ok r ∧ pyEq a b = .ok (!r) := by
  refine ⟨!eqSpec a b, ?_, ?_⟩ <;> simp [pyNe, pyEq_spec, Except.map]
theorem eq_refl (a : Obj) : pyEq a a = .ok true := by
  rw [pyEq_spec]; cases a <;> simp [eqSpec, Obj.id]
/-- symmetric, also against plain inspect objects -/
theorem eq_symm (a b : Obj) : pyEq a b = pyEq b a := by
  rw [pyEq_spec, pyEq_spec, eqSpec_symm]
/-- an upgraded object equals the plain object carrying the same data, both ways round -/
theorem eq_plain_same_data (i j d u : Nat) :
    pyEq (.usig i d u) (.psig j d) = .ok true ∧ pyEq (.psig j d) (.usig i d u) = .ok true ∧
    pyEq (.uparam i d u) (.pparam j d) = .ok true ∧ pyEq (.pparam j d) (.uparam i d u) = .ok true := by
  simp [pyEq_spec, eqSpec]
/-- consistent with hash (objects are identified by their id: same id ⇒ same object) -/
theorem eq_hash (a b : Obj) (hid : a.id = b.id → a = b) (h : pyEq a b = .ok true) :
    pyHash a = pyHash b := by
  rw [pyEq_spec] at h
  rcases a with ⟨i,d,u⟩|⟨i,d⟩|⟨i,d,u⟩|⟨i,d⟩|⟨i⟩ <;> rcases b with ⟨j,e,w⟩|⟨j,e⟩|⟨j,e,w⟩|⟨j,e⟩|⟨j⟩ <;>
    simp only [eqSpec, Obj.id, pyHash, Except.ok.injEq, decide_eq_true_eq, Bool.decide_and,
      Bool.decide_or, Bool.and_eq_true, Bool.or_eq_true, Obj.usig.injEq, Obj.psig.injEq,
      Obj.uparam.injEq, Obj.pparam.injEq, Obj.other.injEq, reduceCtorEq] at * <;> grind
/-- hashable whenever the plain counterpart is, with the same hash -/
theorem hash_like_plain (i j d u : Nat) :
    pyHash (.usig i d u) = pyHash (.psig j d) ∧ pyHash (.uparam i d u) = pyHash (.pparam j d) ∧
    (pyHash (.usig i d u)).isSome := by
  simp [pyHash]
/-- replace() returns the upgraded type and keeps the upgraded annotation unless overridden -/
theorem replace_keeps (i j d u : Nat) (nd nu : Option Nat) :
    replaceSig (.usig i d u) j nd nu = .usig j (nd.getD d) (nu.getD u) ∧
    replaceSig (.uparam i d u) j nd nu = .uparam j (nd.getD d) (nu.getD u) := by
  simp [replaceSig]

/-! ## C16 -/

/-- whatever outside call raises (or none), the object has exactly the attributes it had before -/
theorem cleanup_restores (fault : Option Nat) (s : Store) : (cleanupRun fault s).store = s := by
  rcases s with ⟨_ | iw, _ | is, _ | cw, _ | cs⟩ <;>
  rcases fault_cases fault with h | h | h | h | ⟨k, h⟩ <;> subst h <;>
  simp [cleanupRun, cleanupEnter, cleanupExit, crashes, Store.get, Store.inst, Store.cls, Store.setInst]
/-- an exception escapes exactly when the injected fault hit one of the calls that were made -/
theorem cleanup_raises_iff (fault : Option Nat) (s : Store) :
    (cleanupRun fault s).raised = true ↔ ∃ k, fault = some k ∧ k < (cleanupRun fault s).calls := by
  rcases s with ⟨_ | iw, _ | is, _ | cw, _ | cs⟩ <;>
  rcases fault_cases fault with h | h | h | h | ⟨k, h⟩ <;> subst h <;>
  simp [cleanupRun, cleanupEnter, cleanupExit, crashes, Store.get, Store.inst, Store.cls, Store.setInst]
/-- there are at most three crash points (two getattr, one body) and the fault-free run makes all three -/
theorem cleanup_calls (fault : Option Nat) (s : Store) :
    (cleanupRun fault s).calls ≤ 3 ∧ (cleanupRun none s).calls = 3 := by
  rcases s with ⟨_ | iw, _ | is, _ | cw, _ | cs⟩ <;>
  rcases fault_cases fault with h | h | h | h | ⟨k, h⟩ <;> subst h <;>
  simp [cleanupRun, cleanupEnter, cleanupExit, crashes, Store.get, Store.inst, Store.cls, Store.setInst]
/-- the recursion guard is left as it was found, crash or no crash; in particular empty stays empty -/
theorem asForged_guard_restored (fault : Option Nat) (guard : List Nat) (obj : Nat) :
    (asForgedGet fault guard obj).1 = guard ∧ (asForgedGet fault [] obj).1 = [] := by
  constructor
  · unfold asForgedGet
    split
    · rfl
    · rename_i h
      simp only [List.contains_eq_mem, decide_eq_true_eq] at h
      simp only [List.filter_cons, ne_eq, not_true_eq_false, decide_false]
      simp only [Bool.false_eq_true, ↓reduceIte, List.filter_eq_self, decide_eq_true_eq]
      intro a ha hne
      exact h (hne ▸ ha)
  · simp [asForgedGet]

/-! ## C17 -/

/-- No interleaving leaves the function permanently without its attributes: for ANY number of
    threads and ANY schedule, once every thread has finished, the store is the initial one.

    ORIGINAL STATEMENT (FALSE, see `restored_at_quiescence_original_refuted` below):
      theorem restored_at_quiescence (s : Store) (n : Nat) (schedule : List Nat)
          (hq : ((World.init s n).run schedule).quiescent) :
          ((World.init s n).run schedule).store = s
    ADDED HYPOTHESIS `hcoh`: there is at most one thread, or no attribute is present BOTH on the
    instance and on the class with two different values.  The hypothesis is exactly what is needed:
    `restored_at_quiescence_hyp_necessary` shows that whenever it fails for two threads there is a
    schedule after which the store differs from the initial one. -/
theorem restored_at_quiescence_partial (s : Store) (n : Nat) (schedule : List Nat)
    (hcoh : n ≤ 1 ∨ ∀ a v c, s.inst a = some v → s.cls a = some c → c = v)
    (hq : ((World.init s n).run schedule).quiescent) :
    ((World.init s n).run schedule).store = s :=
  restored_of_WInv s n schedule hcoh hq

/-- the property's clause at full strength (any store, any number of threads, any schedule) -/
def restored_at_quiescence_full : Prop :=
  ∀ (s : Store) (n : Nat) (schedule : List Nat),
    ((World.init s n).run schedule).quiescent → ((World.init s n).run schedule).store = s

/-- FINDING (new): the original statement is false.  `__wrapped__` is present on the instance
    (value 1) and on the class (value 2).  Thread 0 reads 1 and deletes the instance attribute;
    thread 1 now reads the CLASS value 2; thread 0 finishes and restores 1; thread 1's `delattr`
    succeeds (the instance attribute is back), it records the stale value 2 as "saved" and finally
    "restores" 2: the instance attribute is permanently overwritten with the class value. -/
theorem restored_at_quiescence_original_refuted :
    ∃ (s : Store) (schedule : List Nat),
      ((World.init s 2).run schedule).quiescent ∧ ((World.init s 2).run schedule).store ≠ s ∧
      ((World.init s 2).run schedule).store.instW = some 2 := by
  refine ⟨{ instW := some 1, clsW := some 2 }, [0,0,1,0,0,0,0,0,0,1,1,1,1,1,1,1], ?_⟩
  unfold World.quiescent
  decide

/-- the full-strength clause is false -/
theorem restored_at_quiescence_full_refuted : ¬ restored_at_quiescence_full := by
  intro h
  obtain ⟨s, schedule, hq, hne, _⟩ := restored_at_quiescence_original_refuted
  exact hne (h s 2 schedule hq)

/-- the added hypothesis of `restored_at_quiescence` cannot be weakened: if some attribute is present
    on the instance and on the class with different values, two threads suffice to lose it -/
theorem restored_at_quiescence_hyp_necessary (s : Store)
    (h : ¬ ∀ a v c, s.inst a = some v → s.cls a = some c → c = v) :
    ∃ schedule : List Nat,
      ((World.init s 2).run schedule).quiescent ∧ ((World.init s 2).run schedule).store ≠ s := by
  simp only [Classical.not_forall] at h
  obtain ⟨a, v, c, h1, h2, hne⟩ := h
  rcases s with ⟨iw, is, cw, cs⟩
  cases a
  · simp only [Store.inst, Store.cls] at h1 h2
    subst h1 h2
    refine ⟨[0,0,1,0,0,0,0,0,0,1,1,1,1,1,1,1], ?_⟩
    cases is <;> cases cs <;>
    simp [World.quiescent, World.init, World.run, World.step, stepThread, Store.get, Store.inst,
      Store.cls, Store.setInst, hne]
  · simp only [Store.inst, Store.cls] at h1 h2
    subst h1 h2
    cases iw <;> cases cw
    · refine ⟨[0,0,0, 1,1, 0,0,0,0, 1,1,1,1,1], ?_⟩
      simp [World.quiescent, World.init, World.run, World.step, stepThread, Store.get, Store.inst,
        Store.cls, Store.setInst, hne]
    · refine ⟨[0,0,0,0, 1,1,1, 0,0,0,0, 1,1,1,1,1], ?_⟩
      simp [World.quiescent, World.init, World.run, World.step, stepThread, Store.get, Store.inst,
        Store.cls, Store.setInst, hne]
    · refine ⟨[0,0,0,0, 1,1, 0,0,0,0, 1,1,1,1,1], ?_⟩
      simp [World.quiescent, World.init, World.run, World.step, stepThread, Store.get, Store.inst,
        Store.cls, Store.setInst, hne]
    · refine ⟨[0,0,0,0, 1,1,1, 0,0,0,0, 1,1,1,1,1], ?_⟩
      simp [World.quiescent, World.init, World.run, World.step, stepThread, Store.get, Store.inst,
        Store.cls, Store.setInst, hne]

/-- a thread running alone computes the function's own signature (it does not see `__wrapped__`) -/
theorem alone_answer (v : Nat) (cls : Option Nat) :
    let w := (World.init { instW := some v, clsS := cls } 1).run [0, 0, 0, 0, 0, 0, 0, 0]
    w.quiescent ∧ (w.threads.map (·.sawWrapped)) = [some false] := by
  cases cls <;>
  simp [World.quiescent, World.init, World.run, World.step, stepThread, Store.get, Store.inst,
    Store.cls, Store.setInst]

/-- D6 (known finding): "every call returns what it returns when run alone" is FALSE — there is a
    schedule of two threads in which one thread's body sees `__wrapped__` -/
theorem sequential_answers_refuted :
    ∃ (s : Store) (schedule : List Nat),
      let w := (World.init s 2).run schedule
      w.quiescent ∧ w.store = s ∧ (∃ t ∈ w.threads, t.sawWrapped = some true) := by
  refine ⟨{ instW := some 1 }, [0,0,1,0,0,0,0,1,1,1,1], ?_⟩
  unfold World.quiescent
  decide

/-! ## C18 -/

/-- once the caller has dropped every reference to instance i and to what it obtained from it, and
    the collector has run, i is unreachable — for every history -/
theorem no_retention (ops : List COp) (i : Nat)
    (h1 : i ∉ (crun .weakValue ops).heldInst) (h2 : i ∉ (crun .weakValue ops).heldWrap) :
    i ∉ ((crun .weakValue ops).collect .weakValue).alive .weakValue := by
  simp [CState.alive, CState.collect, h1, h2]

/-- D7 (repaired): with the weak-key dictionary of the pinned code the instance is retained -/
theorem retention_weakKey_refuted :
    ∃ (ops : List COp) (i : Nat),
      i ∉ (crun .weakKey ops).heldInst ∧ i ∉ (crun .weakKey ops).heldWrap ∧
      i ∈ ((crun .weakKey ops).collect .weakKey).alive .weakKey := by
  refine ⟨[.newInst 0, .call 0, .dropInst 0, .gc], 0, ?_⟩
  decide

/-- D91 (repaired): a getter that hands the bound method back as it is, stored under itself in the
    weak-value dictionary (`insts[bm] = bm`), is retained for good — and the instance with it -/
theorem retention_selfEntry_refuted :
    ∃ (ops : List COp) (i : Nat),
      i ∉ (crun .selfEntry ops).heldInst ∧ i ∉ (crun .selfEntry ops).heldWrap ∧
      i ∈ ((crun .selfEntry ops).collect .selfEntry).alive .selfEntry := by
  refine ⟨[.newInst 0, .get 0, .dropWrapper 0, .dropInst 0, .gc], 0, ?_⟩
  decide

/-- as after D91 (such a result is not stored): nothing is retained, for every history -/
theorem no_retention_noStore (ops : List COp) (i : Nat)
    (h1 : i ∉ (crun .noStore ops).heldInst) (h2 : i ∉ (crun .noStore ops).heldWrap) :
    i ∉ ((crun .noStore ops).collect .noStore).alive .noStore := by
  simp [CState.alive, CState.collect, h1, h2]

theorem cstep_noStore_entries (s : CState) (op : COp) (h : s.entries = []) :
    (cstep .noStore s op).entries = [] := by
  cases op <;> simp [cstep, CState.collect, h] <;> split <;> simp [h]

/-- … because the dictionary stays empty throughout -/
theorem noStore_entries_empty (ops : List COp) : (crun .noStore ops).entries = [] := by
  unfold crun
  suffices ∀ (s : CState), s.entries = [] → (ops.foldl (cstep .noStore) s).entries = [] from this {} rfl
  induction ops with
  | nil => intro s h; simpa using h
  | cons op ops ih => intro s h; exact ih _ (cstep_noStore_entries s op h)

/-- while the caller still holds the instance or its wrapper, the instance is alive (no premature reclaim) -/
theorem no_premature_reclaim (k : DictKind) (ops : List COp) (i : Nat)
    (h : i ∈ (crun k ops).heldInst ∨ i ∈ (crun k ops).heldWrap) :
    i ∈ ((crun k ops).collect k).alive k := by
  cases k <;> simp [CState.alive, CState.collect] <;> grind

/-! ## non-vacuity -/

-- eq_hash: hypotheses satisfiable on distinct objects (upgraded vs plain, same data)
example : ((Obj.usig 1 5 7).id = (Obj.psig 2 5).id → Obj.usig 1 5 7 = Obj.psig 2 5) ∧
    pyEq (.usig 1 5 7) (.psig 2 5) = .ok true ∧ pyHash (.usig 1 5 7) = some 10 :=
  ⟨by decide, rfl, rfl⟩
-- two upgraded signatures with the same base data but different upgraded annotations differ
example : pyEq (.usig 1 5 7) (.usig 2 5 8) = .ok false ∧ pyNe (.usig 1 5 7) (.usig 2 5 8) = .ok true :=
  ⟨rfl, rfl⟩
-- cleanup: both attributes really get deleted and restored, also when the body raises
example : cleanupRun (some 2) { instW := some 1, instS := some 2, clsW := some 3 } =
    { store := { instW := some 1, instS := some 2, clsW := some 3 }, raised := true, calls := 3 } := by
  decide
example : asForgedGet (some 0) [4, 5] 6 = ([4, 5], true) ∧ asForgedGet none [4, 5] 5 = ([4, 5], true) := by
  decide
-- restored_at_quiescence: hypotheses satisfiable with two really interleaved threads, both
-- attributes on the instance, `__wrapped__` also on the class (same value)
example :
    let s : Store := { instW := some 1, instS := some 2, clsW := some 1 }
    let sched := [0, 1, 0, 1, 1, 0, 0, 1, 1, 0, 0, 1, 1, 0, 0, 1]
    (2 ≤ 1 ∨ ∀ a v c, s.inst a = some v → s.cls a = some c → c = v) ∧
    ((World.init s 2).run sched).quiescent ∧ ((World.init s 2).run sched).store = s := by
  refine ⟨Or.inr ?_, ?_, ?_⟩
  · intro a v c h1 h2
    cases a <;> simp_all [Store.inst, Store.cls]
  · unfold World.quiescent; decide
  · decide
-- no_retention: the instance had an entry before the collection
example : (0 : Nat) ∉ (crun .weakValue [.newInst 0, .get 0, .dropWrapper 0, .dropInst 0]).heldInst ∧
    0 ∉ (crun .weakValue [.newInst 0, .get 0, .dropWrapper 0, .dropInst 0]).heldWrap ∧
    0 ∈ (crun .weakValue [.newInst 0, .get 0, .dropWrapper 0, .dropInst 0]).alive .weakValue := by
  decide
-- no_premature_reclaim: the wrapper is still held although the instance was dropped and gc ran
example : (0 : Nat) ∈ (crun .weakValue [.newInst 0, .get 0, .dropInst 0, .gc]).heldWrap ∧
    0 ∉ (crun .weakValue [.newInst 0, .get 0, .dropInst 0, .gc]).heldInst := by
  decide

end SV
