/-
  Props/Bind.lean — the bridge between the two models of CPython's argument binding:
  the value-level `bindCall` (Model/Call.lean) accepts a call exactly when the shape-level
  `accepts` (Model/Bind.lean) accepts its shape `(number of positionals, keyword names)`.
  ONLY the property theorem + counterexample + non-vacuity examples; helper lemmas in
  Sigverif/Lemmas/BindCall.lean.
-/
import Sigverif.Props.Defs
import Sigverif.Model.Call
import Sigverif.Lemmas.BindCall
import Sigverif.Lemmas.C20
namespace SV

/- ORIGINAL STATEMENT (false without `WF s`, see the counterexample below):
theorem bindCall_isSome_iff_accepts (s : List Param) (args : List Nat) (kwargs : List (Nat × Nat))
    (hk : (kwargs.map (·.1)).Nodup) :
    (bindCall s args kwargs).isSome = accepts s args.length (kwargs.map (·.1))
-/

/-- counterexample to the statement without `WF s`: two keyword-only parameters with the SAME name,
    the first defaulted, the second required (not a valid signature: duplicate name).  `fillDefaults`
    binds the name once through the first parameter's default and is then satisfied for the second,
    whereas `accepts` checks every required parameter against the names bound by the call. -/
example :
    let s : List Param := [⟨1, .ko, some 4, none, .empty⟩, ⟨1, .ko, none, none, .empty⟩]
    (([] : List (Nat × Nat)).map (·.1)).Nodup ∧
    (bindCall s [] []).isSome = true ∧ accepts s ([] : List Nat).length (([] : List (Nat × Nat)).map (·.1)) = false ∧
    ¬ WF s := by decide

set_option linter.unusedVariables false in
/-- `bindCall` accepts a call iff `accepts` accepts its shape.
    ADDED HYPOTHESIS: `WF s` (only the uniqueness of the names of the named parameters is used, see
    `bindCall_isSome_eq_accepts_of_nodup`; `hk` is not needed). -/
theorem bindCall_isSome_iff_accepts (s : List Param) (args : List Nat) (kwargs : List (Nat × Nat))
    (hwf : WF s) (hk : (kwargs.map (·.1)).Nodup) :
    (bindCall s args kwargs).isSome = accepts s args.length (kwargs.map (·.1)) := by
  apply bindCall_isSome_eq_accepts_of_nodup
  exact (List.filter_sublist.map _).nodup hwf.nodup

/-! non-vacuity -/
def exB : List Param := [⟨1, .po, none, none, .empty⟩, ⟨2, .pk, some 4, none, .empty⟩, ⟨11, .vp, none, none, .empty⟩,
                         ⟨3, .ko, none, none, .empty⟩, ⟨12, .vk, none, none, .empty⟩]
example : WF exB := by decide
example : (bindCall exB [5, 6, 7] [(3, 8), (9, 10)]).isSome = true ∧
    accepts exB 3 [3, 9] = true := by decide
example : (bindCall exB [5] [(2, 8)]).isSome = false ∧ accepts exB 1 [2] = false := by decide

end SV
