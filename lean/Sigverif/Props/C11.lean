/-
  Props/C11.lean — property C11 (postponed annotations resolve in their defining context).

  The algebra never looks inside an annotation: every parameter of a result carries the
  (annotation, upgraded annotation) pair of an input parameter — or none at all.  An upgraded
  annotation `post raw fn` names the function whose globals evaluate it, so "evaluated in the
  defining globals" is the statement that this pair is never re-assembled
  (`*_uann_preserved`, any number of inputs, merge / embed / mask / partial / forwards /
  modifiers).  `annotate` stores pre-evaluated wrappers: values are reported verbatim.

  Twin invariance (postponed vs eager compilation) is REFUTED at full strength on the code as it
  stands (finding D10: conciliation compares spellings) and proved for one conciliation under
  faithfulness of spellings (`concile_twin_partial`).
-/
import Sigverif.Lemmas.Forall
import Sigverif.Lemmas.LawsEval
import Sigverif.Props.C12
import Sigverif.Props.C10
namespace SV

/-- `p` carries the annotation pair of one of `ins`, or no annotation -/
def AnnFrom (ins : List Param) (p : Param) : Prop :=
  (p.ann = none ∧ p.uann = .empty) ∨ ∃ q ∈ ins, p.ann = q.ann ∧ p.uann = q.uann

theorem annFrom_closed (ins : List Param) : ClosedP (AnnFrom ins) where
  concile := by
    intro a b ha hb
    have e1 := concile_annotation a b
    have e2 := concile_uann a b
    unfold AnnFrom at ha hb ⊢
    cases haa : a.ann <;> cases hba : b.ann <;> simp only [haa, hba] at e1 e2
    · exact .inl ⟨e1, e2⟩
    · rcases hb with ⟨h1, _⟩ | ⟨q, hq, h1, h2⟩
      · rw [hba] at h1; cases h1
      · exact .inr ⟨q, hq, by rw [e1, ← h1, hba], by rw [e2, h2]⟩
    · rcases ha with ⟨h1, _⟩ | ⟨q, hq, h1, h2⟩
      · rw [haa] at h1; cases h1
      · exact .inr ⟨q, hq, by rw [e1, ← h1, haa], by rw [e2, h2]⟩
    · split at e1
      · rename_i hab
        simp only [hab, if_true] at e2
        rcases ha with ⟨h1, _⟩ | ⟨q, hq, h1, h2⟩
        · rw [haa] at h1; cases h1
        · exact .inr ⟨q, hq, by rw [e1, ← h1, haa], by rw [e2, h2]⟩
      · rename_i hab
        simp only [hab, if_false] at e2
        exact .inl ⟨e1, e2⟩
  kind := by intro a k h; exact h
  dflt := by intro a d h; exact h

theorem annFrom_fresh (ins : List Param) (n v : Nat) :
    AnnFrom ins { name := n, kind := .ko, dflt := some v } := .inl ⟨rfl, rfl⟩

theorem annFrom_self (ins : List Param) : AllP (AnnFrom ins) ins :=
  fun p hp => .inr ⟨p, hp, rfl, rfl⟩

theorem annFrom_mono {a b : List Param} (h : ∀ p ∈ a, p ∈ b) (p : Param) (hp : AnnFrom a p) : AnnFrom b p := by
  rcases hp with h0 | ⟨q, hq, h1, h2⟩
  · exact .inl h0
  · exact .inr ⟨q, h q hq, h1, h2⟩

/-- all parameters of all inputs -/
def allParams (ss : List USig) : List Param := (ss.map (·.params)).flatten

theorem inputs_annFrom (ss : List USig) : ∀ s ∈ ss, AllP (AnnFrom (allParams ss)) s.params := by
  intro s hs p hp
  refine .inr ⟨p, ?_, rfl, rfl⟩
  simp only [allParams, List.mem_flatten, List.mem_map]
  exact ⟨s.params, ⟨s, hs, rfl⟩, hp⟩

/-- **merge, any number of inputs**: every parameter of the result carries the annotation pair of
    an input parameter (or none) -/
theorem merge_uann_preserved (ss : List USig) (R : USig) (h : merge ss = .ok R) :
    ∀ p ∈ R.params, AnnFrom (allParams ss) p :=
  merge_all (annFrom_closed _) ss R (inputs_annFrom ss) h

/-- **embed, any number of inputs** -/
theorem embed_uann_preserved (uva uvk : Bool) (ss : List USig) (R : USig) (h : embed uva uvk ss = .ok R) :
    ∀ p ∈ R.params, AnnFrom (allParams ss) p :=
  embed_all (annFrom_closed _) uva uvk ss R (inputs_annFrom ss) h

theorem mask_uann_preserved (sig R : USig) (n : Nat) (nms : List Nat) (hf : HideFlags)
    (h : mask sig n nms hf = .ok R) : ∀ p ∈ R.params, AnnFrom sig.params p :=
  mask_all (annFrom_closed _) (annFrom_fresh _) sig R n nms hf (annFrom_self _) h

/-- `signatures.signature(functools.partial(...))` -/
theorem partial_uann_preserved (sig R : USig) (n : Nat) (kw : List (Nat × Nat)) (pobj : Nat)
    (h : maskPartial sig n kw pobj = .ok R) : ∀ p ∈ R.params, AnnFrom sig.params p :=
  maskPartial_all (annFrom_closed _) (annFrom_fresh _) sig R n kw pobj (annFrom_self _) h

theorem forwards_uann_preserved (outer inner R : USig) (n : Nat) (nms : List Nat) (ha hk uva uvk part : Bool)
    (h : forwards outer inner n nms ha hk uva uvk part = .ok R) :
    ∀ p ∈ R.params, AnnFrom (outer.params ++ inner.params) p :=
  forwards_all (annFrom_closed _) (annFrom_fresh _) outer inner R n nms ha hk uva uvk part
    (fun p hp => .inr ⟨p, by simp [hp], rfl, rfl⟩) (fun p hp => .inr ⟨p, by simp [hp], rfl, rfl⟩) h

/-- what `source_value()` denotes: a postponed annotation is evaluated in the globals of the
    function recorded *in the wrapper* -/
def sourceValue (env : Nat → Nat → Nat) : UAnn → Option Nat
  | .empty => none
  | .pre v => some v
  | .post raw fn => some (env fn raw)

/-- hence: the value of every annotation of a merged signature is the value of an input
    parameter's annotation, computed in that parameter's own function's globals -/
theorem merge_source_value (env : Nat → Nat → Nat) (ss : List USig) (R : USig) (h : merge ss = .ok R)
    (p : Param) (hp : p ∈ R.params) (v : Nat) (hv : sourceValue env p.uann = some v) :
    ∃ s ∈ ss, ∃ q ∈ s.params, sourceValue env q.uann = some v ∧ q.uann = p.uann := by
  rcases merge_uann_preserved ss R h p hp with ⟨_, h2⟩ | ⟨q, hq, _, h2⟩
  · rw [h2] at hv; cases hv
  · simp only [allParams, List.mem_flatten, List.mem_map] at hq
    obtain ⟨_, ⟨s, hs, rfl⟩, hq⟩ := hq
    exact ⟨s, hs, q, hq, by rw [← h2]; exact hv, h2.symm⟩

/-! ### modifiers -/

/-- `annotate`: the given values are reported verbatim (pre-evaluated wrappers), everything else
    is untouched -/
theorem annotate_verbatim (F F' : List Param) (anns : List (Nat × Nat)) (h : annotate F anns = .ok F') :
    F'.length = F.length ∧ ∀ (i : Nat) (p p' : Param), F[i]? = some p → F'[i]? = some p' →
      p'.name = p.name ∧ p'.kind = p.kind ∧ p'.dflt = p.dflt ∧
      (match dget anns p.name with
       | some a => p'.ann = some a ∧ p'.uann = .pre a
       | none => p'.ann = p.ann ∧ p'.uann = p.uann) := by
  unfold annotate at h
  split at h
  · cases h
  · simp only [Except.ok.injEq] at h
    subst h
    refine ⟨by simp, ?_⟩
    intro i p p' hp hp'
    simp only [List.getElem?_map, hp, Option.map_some, Option.some.injEq] at hp'
    subst hp'
    cases hd : dget anns p.name <;> simp

/-- kwoargs / posoargs / autokwoargs (`_prepare`): every parameter of the advertised signature is
    a parameter of the function with at most its kind changed — annotation pair included -/
theorem prepare_uann_preserved (F A : List Param) (P W : List Nat) (kp : List (Nat × Param))
    (hwf : WF F) (h : prepare F P W = .ok (A, kp)) :
    ∀ p ∈ A, ∃ q ∈ F, p.name = q.name ∧ p.dflt = q.dflt ∧ p.ann = q.ann ∧ p.uann = q.uann := by
  rw [prepare_spec F A P W kp hwf h]
  intro p hp
  unfold pokSpec at hp
  simp only [List.mem_append, List.mem_map, List.mem_filter] at hp
  rcases hp with (((⟨q, ⟨hq, _⟩, rfl⟩ | ⟨hq, _⟩) | ⟨hq, _⟩) | ⟨q, ⟨hq, _⟩, rfl⟩) | ⟨hq, _⟩
  · refine ⟨q, hq, ?_⟩
    split <;> exact ⟨rfl, rfl, rfl, rfl⟩
  · exact ⟨p, hq, rfl, rfl, rfl, rfl⟩
  · exact ⟨p, hq, rfl, rfl, rfl, rfl⟩
  · exact ⟨q, hq, rfl, rfl, rfl, rfl⟩
  · exact ⟨p, hq, rfl, rfl, rfl, rfl⟩

/-! ### twins: the same function compiled with and without `from __future__ import annotations` -/

/-- the eagerly compiled twin of a parameter: its annotation is the evaluated object -/
def twin (env : Nat → Nat → Nat) (p : Param) : Param :=
  match sourceValue env p.uann with
  | some v => { p with ann := some v, uann := .pre v }
  | none => { p with ann := none, uann := .empty }

/-- `evaluated()` of a parameter -/
def evaluated (env : Nat → Nat → Nat) (p : Param) : Option Nat := sourceValue env p.uann

/-- spellings are faithful for two parameters: they are spelled alike exactly when they denote
    the same object, and a parameter is annotated exactly when its wrapper is non-empty -/
def Faithful (env : Nat → Nat → Nat) (l r : Param) : Prop :=
  (l.ann.isSome = (sourceValue env l.uann).isSome) ∧ (r.ann.isSome = (sourceValue env r.uann).isSome) ∧
  (∀ a b, l.ann = some a → r.ann = some b → (a = b ↔ sourceValue env l.uann = sourceValue env r.uann))

/-- one conciliation commutes with eager compilation when spellings are faithful -/
theorem twin_ann (env : Nat → Nat → Nat) (p : Param) : (twin env p).ann = sourceValue env p.uann := by
  unfold twin; cases sourceValue env p.uann <;> rfl

theorem twin_value (env : Nat → Nat → Nat) (p : Param) :
    sourceValue env (twin env p).uann = sourceValue env p.uann := by
  unfold twin; cases h : sourceValue env p.uann <;> simp [sourceValue]

theorem concile_twin_partial (env : Nat → Nat → Nat) (l r : Param) (hf : Faithful env l r) :
    evaluated env (concile l r) = evaluated env (concile (twin env l) (twin env r)) := by
  obtain ⟨h1, h2, h3⟩ := hf
  unfold evaluated
  rw [concile_uann l r, concile_uann (twin env l) (twin env r), twin_ann, twin_ann]
  cases hla : l.ann <;> cases hra : r.ann <;>
    cases hlu : sourceValue env l.uann <;> cases hru : sourceValue env r.uann <;>
    simp only [hla, hra, hlu, hru, Option.isSome_none, Option.isSome_some] at h1 h2 <;>
    (try (cases h1; done)) <;> (try (cases h2; done)) <;> simp only []
  · rw [twin_value, hru]
  · rw [twin_value, hlu]
  · rename_i a b u v
    have := h3 a b hla hra
    rw [hlu, hru] at this
    by_cases hab : a = b
    · have huv : u = v := by simpa using this.1 hab
      subst huv
      simp only [hab, if_true, twin_value, hlu]
    · have huv : ¬ u = v := fun e => hab (this.2 (by rw [e]))
      simp only [hab, huv, if_false]

/-- finding D10: the same spelling `T` (token 7) bound to different objects in the two modules
    (function 1: object 41, function 2: object 42): the postponed merge keeps the left
    annotation, the eager twins drop it -/
def d10L : USig := { params := [⟨1, .pk, none, some 7, .post 7 1⟩] }
def d10R : USig := { params := [⟨1, .pk, none, some 7, .post 7 2⟩] }
def d10env : Nat → Nat → Nat := fun fn _ => 40 + fn

theorem twin_invariance_refuted :
    (merge [d10L, d10R]).toOption.map (fun R => R.params.map (evaluated d10env)) = some [some 41] ∧
    (merge [{ d10L with params := d10L.params.map (twin d10env) },
            { d10R with params := d10R.params.map (twin d10env) }]).toOption.map
        (fun R => R.params.map (evaluated d10env)) = some [none] := by
  constructor
  · simp only [d10L, d10R]; sv_eval; simp [evaluated, sourceValue, d10env, Except.toOption]
  · simp only [d10L, d10R, twin, sourceValue, d10env, List.map_cons, List.map_nil]; sv_eval
    simp [evaluated, sourceValue, Except.toOption]

/-- non-vacuity: `Faithful` holds for parameters of one module -/
example : Faithful d10env ⟨1, .pk, none, some 7, .post 7 1⟩ ⟨1, .pk, none, some 7, .post 7 1⟩ := by
  refine ⟨rfl, rfl, ?_⟩
  intro a b ha hb
  simp only [Option.some.injEq] at ha hb
  subst ha hb
  simp

end SV
