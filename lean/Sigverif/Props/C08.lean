/-
  Props/C08.lean — property C08 (parameter provenance is complete, truthful, depth-ordered).

  `ProvWF u`  : exactly one entry per parameter (`keys`), no entry empty (`ne`), every listed
                callable has a depth (`dep`);  `ProvWF1` adds that no key is listed twice.
  Truthfulness is stated without a declaration table: every callable listed for a name in a
  result is listed *for that same name* by one of the inputs — so if the inputs' maps only name
  callables that declare the parameter, so does the result's (`*_truthful` corollaries).

  Proved for all inputs: `merge` of any number of signatures, `embed` of two (what `forwards`
  is built from), default sources, the depth rules (`merge_depths` keeps the minimum, `embed`
  adds one per level).
  REFUTED on the code as it stands, with the `_partial` statements that remain true:
    * duplicate-freedom of the lists (finding D15): `merge_nodup_refuted`
  D29 (an n-ary `embed` whose intermediate result had a star parameter named like a named one lost
  that parameter's entry) was found while proving `embedStep_src` and is repaired:
  `embed3_homonym_rejected`.
-/
import Sigverif.Lemmas.C08EmbedFold
import Sigverif.Lemmas.LawsEval
namespace SV

/-- a provenance map only names callables that declare a parameter of that name -/
def Truthful (decl : Nat → List Nat) (src : Srcs) : Prop := ∀ k f, f ∈ sget src k → k ∈ decl f

/-- `e` succeeded with a result satisfying the (decidable) predicate `p` -/
def okAnd (e : Except Err USig) (p : USig → Bool) : Bool :=
  match e with
  | .ok R => p R
  | .error _ => false

theorem okAnd_exists {e : Except Err USig} {p : USig → Bool} (h : okAnd e p = true) :
    ∃ R, e = .ok R ∧ p R = true := by
  cases e with
  | ok R => exact ⟨R, rfl, h⟩
  | error _ => cases h

theorem dget_mem_C08 {α : Type} (d : List (Nat × α)) (x : Nat) (v : α) (h : dget d x = some v) : (x, v) ∈ d := by
  induction d with
  | nil => cases h
  | cons e t ih =>
    simp only [dget] at h
    split at h
    · rename_i he
      cases h
      obtain ⟨a, b⟩ := e
      simp only at he
      subst he
      simp
    · exact List.mem_cons_of_mem _ (ih h)

/-! ### default sources -/

theorem dhas_defaultSources (ps : List Param) (f k : Nat) (acc : Srcs) :
    dhas (ps.foldl (fun acc p => dset acc p.name [f]) acc) k = (decide (k ∈ names ps) || dhas acc k) := by
  induction ps generalizing acc with
  | nil => simp [names]
  | cons p t ih =>
    simp only [List.foldl_cons]
    rw [ih, dhas_dset]
    simp only [names, List.map_cons, List.mem_cons]
    by_cases h1 : k = p.name <;> by_cases h2 : k ∈ List.map (fun x => x.name) t <;> simp [h1, h2]

theorem sget_defaultSources (ps : List Param) (f k : Nat) (acc : Srcs)
    (hacc : ∀ k, sget acc k = [] ∨ sget acc k = [f]) :
    sget (ps.foldl (fun acc p => dset acc p.name [f]) acc) k = [] ∨
      sget (ps.foldl (fun acc p => dset acc p.name [f]) acc) k = [f] := by
  induction ps generalizing acc with
  | nil => exact hacc k
  | cons p t ih =>
    simp only [List.foldl_cons]
    apply ih
    intro k'
    rw [sget_dset]
    split
    · exact .inr rfl
    · exact hacc k'

/-- `default_sources(sig, f)`: one entry `[f]` per parameter, `f` at depth 0 -/
theorem default_provWF (ps : List Param) (f : Nat) :
    ProvWF1 { params := ps, src := (defaultSources ps f).1, depths := (defaultSources ps f).2 } ∧
      ∀ k, k ∈ names ps → sget (defaultSources ps f).1 k = [f] := by
  have hk : ∀ k, dhas (defaultSources ps f).1 k = true ↔ k ∈ names ps := by
    intro k
    simp only [defaultSources]
    rw [dhas_defaultSources]
    simp [dhas, dget]
  have hv : ∀ k, k ∈ names ps → sget (defaultSources ps f).1 k = [f] := by
    intro k hkn
    have := sget_defaultSources ps f k [] (fun k => .inl rfl)
    rcases this with h | h
    · have hd := (hk k).2 hkn
      simp only [dhas, defaultSources] at hd
      simp only [sget, defaultSources] at h
      cases hg : dget (List.foldl (fun acc p => dset acc p.name [f]) [] ps) k with
      | none => rw [hg] at hd; cases hd
      | some v =>
        -- the entry is `[f]`, never `[]`: it was written by `dset _ _ [f]`
        exfalso
        rw [hg] at h
        simp only [Option.getD_some] at h
        subst h
        -- every value in the fold is `[f]`
        have : ∀ (qs : List Param) (acc : Srcs), (∀ e ∈ acc, e.2 = [f]) →
            ∀ e ∈ qs.foldl (fun acc p => dset acc p.name [f]) acc, e.2 = [f] := by
          intro qs
          induction qs with
          | nil => intro acc h; exact h
          | cons q t ih =>
            intro acc hacc
            simp only [List.foldl_cons]
            apply ih
            intro e he
            clear ih
            induction acc with
            | nil => simp [dset] at he; rw [he]
            | cons x xs ihx =>
              simp only [dset] at he
              split at he
              · simp only [List.mem_cons] at he
                rcases he with rfl | he
                · rfl
                · exact hacc e (by simp [he])
              · simp only [List.mem_cons] at he
                rcases he with rfl | he
                · exact hacc _ (by simp)
                · exact ihx (fun e he => hacc e (by simp [he])) he
        have hm := dget_mem_C08 _ _ _ hg
        have := this ps [] (by simp) _ hm
        simp at this
    · exact h
  refine ⟨⟨⟨hk, ?_, ?_⟩, ?_⟩, hv⟩
  · intro k hkn; rw [hv k hkn]; simp
  · intro k g hg
    have hd := dhas_of_mem_sget _ _ _ hg
    rw [hv k ((hk k).1 hd)] at hg
    simp only [List.mem_singleton] at hg
    subst hg
    simp [defaultSources, dhas, dget]
  · simp only [defaultSources]
    have : ∀ (qs : List Param) (acc : Srcs), KeysND acc →
        KeysND (qs.foldl (fun acc p => dset acc p.name [f]) acc) := by
      intro qs
      induction qs with
      | nil => intro acc h; exact h
      | cons q t ih => intro acc h; simp only [List.foldl_cons]; exact ih _ (h.dset _ _)
    exact this ps [] KeysND.nil

/-! ### merge, any number of inputs -/

/-- **merge keeps provenance well-formed** (one entry per parameter, none empty, every
    callable has a depth) and only lists, for a name, callables that an input lists for it -/
theorem merge_wfsrc (ss : List USig) (R : USig) (hss : ∀ s ∈ ss, WF s.params ∧ ProvWF s)
    (h : merge ss = .ok R) :
    ProvWF R ∧ ∀ k f, f ∈ sget R.src k → ∃ s ∈ ss, f ∈ sget s.src k :=
  merge_provWF ss R hss h

theorem merge_truthful (decl : Nat → List Nat) (ss : List USig) (R : USig)
    (hss : ∀ s ∈ ss, WF s.params ∧ ProvWF s) (ht : ∀ s ∈ ss, Truthful decl s.src)
    (h : merge ss = .ok R) : Truthful decl R.src := by
  intro k f hf
  obtain ⟨s, hs, hf'⟩ := (merge_wfsrc ss R hss h).2 k f hf
  exact ht s hs k f hf'

/-- no parameter name is listed twice in the map of a merge result -/
theorem merge_keys_nodup (ss : List USig) (R : USig) (hn : 2 ≤ ss.length) (h : merge ss = .ok R) :
    KeysND R.src := by
  match ss, hn with
  | s :: t :: rest, _ =>
    simp only [merge, bind, Except.bind] at h
    split at h
    · cases h
    · rename_i r hfold
      obtain ⟨_, e2, _⟩ := applyParams_ok_C08 h
      rw [e2]
      -- the accumulator after at least one step is a `mergeStep` result
      have : ∀ (ss : List USig) (acc r : Sorted), KeysND acc.src → mergeFold acc ss = .ok r → KeysND r.src := by
        intro ss
        induction ss with
        | nil => intro acc r ha h; simp only [mergeFold, Except.ok.injEq] at h; subst h; exact ha
        | cons x xs ih =>
          intro acc r _ h
          simp only [mergeFold] at h
          split at h
          · rename_i acc' hstep
            exact ih acc' r (mergeStep_nd _ _ _ hstep) h
          · cases h
      simp only [mergeFold] at hfold
      split at hfold
      · rename_i acc' hstep
        exact this rest acc' r (mergeStep_nd _ _ _ hstep) hfold
      · cases hfold

/-- depths of a merge: every input callable keeps the smallest depth it has in any input -/
theorem mergeDepths_min (l r : Depths) (f : Nat) :
    dget (mergeDepths l r) f =
      r.foldl (fun acc e => if e.1 = f then minDepth acc (some e.2) else acc) (dget l f) :=
  dget_mergeDepths l r f

/-! ### embed of two signatures (and hence forwards) -/

theorem embed_wfsrc (o i R : USig) (uva uvk : Bool)
    (ho : WF o.params) (hi : WF i.params) (po : ProvWF1 o) (pi : ProvWF i) (hid : KeysND i.depths)
    (h : embed uva uvk [o, i] = .ok R) :
    ProvWF1 R ∧ (∀ k f, f ∈ sget R.src k → f ∈ sget o.src k ∨ f ∈ sget i.src k) :=
  ⟨(embed2_provWF o i R uva uvk ho hi po pi hid h).1, (embed2_provWF o i R uva uvk ho hi po pi hid h).2.1⟩

theorem embed_truthful (decl : Nat → List Nat) (o i R : USig) (uva uvk : Bool)
    (ho : WF o.params) (hi : WF i.params) (po : ProvWF1 o) (pi : ProvWF i) (hid : KeysND i.depths)
    (to : Truthful decl o.src) (ti : Truthful decl i.src)
    (h : embed uva uvk [o, i] = .ok R) : Truthful decl R.src := by
  intro k f hf
  rcases (embed_wfsrc o i R uva uvk ho hi po pi hid h).2 k f hf with h' | h'
  · exact to k f h'
  · exact ti k f h'

/-- **depths strictly increase along forwarding**: in `embed(outer, inner)` every callable of
    the inner signature sits one level below where it sits in `inner`, the outer ones keep
    their depth, and a callable reached both ways keeps the smaller one -/
theorem embed_depths (o i R : USig) (uva uvk : Bool)
    (ho : WF o.params) (hi : WF i.params) (po : ProvWF1 o) (pi : ProvWF i) (hid : KeysND i.depths)
    (h : embed uva uvk [o, i] = .ok R) (f : Nat) :
    dget R.depths f = minDepth (dget o.depths f) ((dget i.depths f).map (· + 1)) :=
  (embed2_provWF o i R uva uvk ho hi po pi hid h).2.2 f

/-- the outermost callable stays at depth 0 -/
theorem embed_outer_depth0 (o i R : USig) (uva uvk : Bool)
    (ho : WF o.params) (hi : WF i.params) (po : ProvWF1 o) (pi : ProvWF i) (hid : KeysND i.depths)
    (h : embed uva uvk [o, i] = .ok R) (f : Nat) (h0 : dget o.depths f = some 0) :
    dget R.depths f = some 0 := by
  rw [embed_depths o i R uva uvk ho hi po pi hid h f, h0]
  cases dget i.depths f <;> simp [minDepth]

/-! ### non-vacuity: concrete signatures satisfying the hypotheses -/

private def pA : Param := { name := 1, kind := .pk }
private def pB : Param := { name := 2, kind := .pk }
private def pVA : Param := { name := 11, kind := .vp }
private def pVK : Param := { name := 12, kind := .vk }
private def sigO : USig :=
  { params := [pA, pVA, pVK], src := (defaultSources [pA, pVA, pVK] 100).1, depths := [(100, 0)] }
private def sigI : USig :=
  { params := [pB, pVA, pVK], src := (defaultSources [pB, pVA, pVK] 101).1, depths := [(101, 0)] }

example : WF sigO.params ∧ WF sigI.params := by decide
example : okAnd (embed true true [sigO, sigI]) (fun R => R.params = [pA, pB, pVA, pVK] ∧
    sget R.src 11 = [101] ∧ R.depths = [(100, 0), (101, 1)]) = true := by
  simp only [sigO, sigI, pA, pB, pVA, pVK, okAnd, defaultSources]; sv_eval
example : okAnd (merge [sigO, sigI]) (fun R => sget R.src 11 = [100, 101]) = true := by
  simp only [sigO, sigI, pA, pB, pVA, pVK, okAnd, defaultSources]; sv_eval

/-! ### refutations on the code as it stands -/

/-- finding D15: `merge(s, s)` lists the same callable twice -/
theorem merge_nodup_refuted :
    ∃ R, merge [sigO, sigO] = .ok R ∧ sget R.src 1 = [100, 100] := by
  have h : okAnd (merge [sigO, sigO]) (fun R => sget R.src 1 = [100, 100]) = true := by
    simp only [sigO, pA, pVA, pVK, okAnd, defaultSources]; sv_eval
  obtain ⟨R, h1, h2⟩ := okAnd_exists h
  exact ⟨R, h1, by simpa using h2⟩

private def sigF : USig :=    -- def f(args, *a, **k)
  { params := [{ name := 11, kind := .pk }, { name := 21, kind := .vp }, { name := 22, kind := .vk }],
    src := [(11, [100]), (21, [100]), (22, [100])], depths := [(100, 0)] }
private def sigG : USig :=    -- def g(*args, **k2)
  { params := [{ name := 11, kind := .vp }, { name := 23, kind := .vk }],
    src := [(11, [101]), (23, [101])], depths := [(101, 0)] }
private def sigH : USig :=    -- def h(x)
  { params := [{ name := 3, kind := .pk }], src := [(3, [102])], depths := [(102, 0)] }

/-- D29 (repaired by a `fix:` commit): `embed(f, g, h)` with `f(args, *a, **k)`, `g(*args, **k2)`,
    `h(x)` used to return `(args, x)` whose map had no entry for `args` — the intermediate result
    held a named and a star parameter both called `args`, the map is keyed by name, and dropping the
    forwarded star dropped the named parameter's entry.  `_embed` now rejects the intermediate
    result, exactly as `embed(embed(f, g), h)` always did. -/
theorem embed3_homonym_rejected : embed true true [sigF, sigG, sigH] = .error .incompatible := by
  simp only [sigF, sigG, sigH]; sv_eval

end SV
