/-
  Props/C05Full.lean — properties C05 / C06: **the AST walker reports exactly the ground truth on
  the whole forwarding grammar** — nested function definitions and lambdas (whose calls are
  analysed after the whole body, against the final state of the stars) and `nonlocal` rebinding
  included.

  `visitor_eq_truth`: for every program of the grammar — forwarding calls in any statement context
  (expression, assignment, `if`/`try`/`with` blocks to any depth), taints of either star (rebinding,
  mutation through a method, deletion, handing the object to other code, `nonlocal` rebinding from
  a nested function), decoy calls, unrelated assignments, nested functions/lambdas containing
  forwarding calls, decoys, assignments and blocks; any number of statements — the forwarding
  records of `CallListerVisitor` are, in order, the ground-truth calls of the program: the
  top-level ones in execution order judged by the taints that precede them, then those of the
  nested functions judged by ALL taints of the body (the documented conservative rule).

  Hypotheses (`GrammarProg`, decidable from the program text): the star names differ from each
  other, from the ordinary parameters, from the callee roots and helper names; assignment targets
  (nested ones included) are none of these.
-/
import Sigverif.Props.C05
import Sigverif.Lemmas.C05Nest
namespace SV
open Flat

structure GrammarProg (p : Prog) : Prop where
  ok : okSL [p.va, p.vk] p.body = true
  clean : Clean p (rootsAllSL p.body) (assignedAllSL p.body)

theorem initial_inv' (p : Prog) (roots A : List Nat) (c : Clean p roots A) :
    FInv p roots false false
      (dset (dset (paramEntries p.params []) p.va { m := .arg p.va (some .va) }) p.vk { m := .arg p.vk (some .vk) })
      (([p.va] : List Nat).filter (· ≠ p.vk)) := by
  have hne := c.ne
  refine ⟨?_, (by intro ht; cases ht), ?_, (by intro ht; cases ht), ?_, ?_, ?_, ?_⟩
  · intro _
    refine ⟨?_, by simp [hne]⟩
    rw [dget_dset]; simp only [hne, if_false]
    rw [dget_dset]; simp
  · intro _; rw [dget_dset]; simp
  · intro x hx
    have x1 : x ≠ p.va := fun e => c.vaPar (e ▸ hx)
    have x2 : x ≠ p.vk := fun e => c.vkPar (e ▸ hx)
    refine ⟨{ m := .arg x none }, ?_, rfl⟩
    rw [dget_dset]; simp only [x2, if_false]
    rw [dget_dset]; simp only [x1, if_false]
    rw [dget_paramEntries]; simp [hx]
  · intro r hr hrp
    have r1 : r ≠ p.va := fun e => c.vaRoot (e ▸ hr)
    have r2 : r ≠ p.vk := fun e => c.vkRoot (e ▸ hr)
    rw [dget_dset]; simp only [r2, if_false]
    rw [dget_dset]; simp only [r1, if_false]
    rw [dget_paramEntries]; simp [hrp, dget]
  · intro x e hx v a
    rw [dget_dset] at hx
    split at hx
    · cases hx; intro hh; cases hh
    · rw [dget_dset] at hx
      split at hx
      · cases hx; intro hh; cases hh
      · rw [dget_paramEntries] at hx
        split at hx
        · cases hx; intro hh; cases hh
        · simp [dget] at hx
  · intro x hx
    simp only [List.contains_iff_mem, List.mem_filter, List.mem_singleton] at hx
    exact hx.1

/-- **visitor = ground truth** on the whole forwarding grammar -/
theorem visitor_eq_truth (p : Prog) (h : GrammarProg p) :
    (runVisitor (render p)).map forwarding = .ok ((truth p).map (FwdCall.toRec p)) := by
  have c := h.clean
  obtain ⟨n', i', recs, e, hf, hr⟩ := nsimSL p _ _ c p.body h.ok (fun x hx => hx) (fun r hr => hr)
    [] [] false false _ _ [] (initial_inv' p _ _ c)
  simp only [List.nil_append, List.length_nil, Nat.zero_add] at e
  rw [deferSL_eq] at e
  -- the deferred calls
  have hplaced := itemsSL_placed p _ _ c p.body h.ok (fun x hx => hx) (fun r hr => hr) 1
  have hall : ∀ x ∈ itemsSL 1 p.body, ItemOk (rootsAllSL p.body) x.1 ∧
      PlainChild (kidsSL p.va p.vk p.body) x.2 (rootsAllSL p.body ++ [p.va, p.vk]) := by
    intro x hx
    obtain ⟨ok, off, child, e1, hk, h1, h2, h3⟩ := hplaced x hx
    exact ⟨ok, off, child, by omega, hk, h1, h2, h3⟩
  obtain ⟨n2, cur2, recs2, e2, hf2, hr2⟩ := revisit_items p _ _ c (kidsSL p.va p.vk p.body)
    (truthSL p.body (false, false)).2.1 (truthSL p.body (false, false)).2.2 i'
    (itemsSL 1 p.body) [] 0 n' recs ((renderSL p.va p.vk p.body).size + 1) hf hall
    (Nat.le_succ_of_le (itemsSL_size p.va p.vk 1 p.body))
  simp only [List.nil_append, List.length_nil] at e2
  simp only [render, runVisitor, processParams_main, e]
  rw [mk_eq_mkAt] at *
  rw [e2]
  simp only [Except.map]
  have hc : (mkAt cur2 (kidsSL p.va p.vk p.body) (List.map (treeOf p.va p.vk) (itemsSL 1 p.body)) n2 i' (recs ++ recs2)).calls =
      recs ++ recs2 := rfl
  rw [hc, forwarding_append, hr, hr2]
  simp only [truth]
  rw [nestedSL_items _ 1 p.body]
  simp

/-- in particular: a star is reported as forwarded only when the ground truth says it is pristine
    at that call — nested functions included -/
theorem taint_sound (p : Prog) (h : GrammarProg p) (cs : List CallRec) (hr : runVisitor (render p) = .ok cs) :
    ∀ c ∈ forwarding cs, ∃ f ∈ truth p, c = f.toRec p ∧ c.useVa = f.useVa ∧ c.useVk = f.useVk := by
  have := visitor_eq_truth p h
  rw [hr] at this
  simp only [Except.map, Except.ok.injEq] at this
  intro c hc
  rw [this] at hc
  obtain ⟨f, hf, rfl⟩ := List.mem_map.1 hc
  exact ⟨f, hf, rfl, rfl, rfl⟩

/-! ### non-vacuity: a program with nested functions satisfying `GrammarProg`

```
def wrapper(a, *args, **kwargs):
    g(*args, **kwargs)                      # both stars pristine
    def sub():
        r = ns.g(1, *args, x=0, **kwargs)   # judged at the end: **kwargs rebound below
        h(0)
    def sub2():
        nonlocal kwargs
        kwargs = 0                          # taints **kwargs in the main namespace, at once
    g(*args, **kwargs)                      # *args pristine, **kwargs hidden
``` -/
def exProgN : Prog :=
  { params := [1], va := 11, vk := 12,
    body := .cons (.fwd (.name 21 .load) 0 [] true true none)
           (.cons (.nested (.cons (.fwd (.attr (.name 22 .load) 3) 1 [5] true true (some 31))
                           (.cons (.decoy 41 1) .nil)))
           (.cons (.nonlocalRebind .K)
           (.cons (.fwd (.name 21 .load) 0 [] true true none)
            .nil))) }

example : GrammarProg exProgN :=
  ⟨by decide, ⟨by decide, by decide, by decide, by decide, by decide, by decide⟩⟩

example : (truth exProgN).map (fun f => (f.useVa, f.useVk, f.hideA, f.hideK)) =
    [(true, true, false, false), (true, false, false, true), (true, false, false, true)] := by decide

end SV
