/-
  Props/C12.lean — property C12 (kwoargs / posoargs / autokwoargs: advertised signature equals
  call behaviour) and the modifier half of C18 (order independence of stacking).
  ONLY property theorems + non-vacuity examples; helper lemmas in Sigverif/Lemmas/C12*.lean.
-/
import Sigverif.Props.Defs
import Sigverif.Model.Modifiers
import Sigverif.Lemmas.C12Spec
import Sigverif.Lemmas.C12Ext
import Sigverif.Lemmas.C12Names
import Sigverif.Lemmas.C12Main
namespace SV

/-- the advertised signature per the property text: exactly the parameters named in `W` made
    keyword-only (moved after *args, before **kwargs, relative order kept), those in `P` made
    positional-only, defaults and annotations untouched -/
def pokSpec (F : List Param) (P W : List Nat) : List Param :=
  (F.filter (fun p => (p.kind = .po || p.kind = .pk) && !W.contains p.name)).map
      (fun p => if P.contains p.name then p.withKind .po else p)
  ++ F.filter (fun p => p.kind = .vp)
  ++ F.filter (fun p => p.kind = .ko)
  ++ (F.filter (fun p => p.kind = .pk && W.contains p.name)).map (·.withKind .ko)
  ++ F.filter (fun p => p.kind = .vk)

/-- admissible selections -/
def admissible (F : List Param) (P W : List Nat) : Prop :=
  (∀ x ∈ P, x ∉ W) ∧
  (∀ x ∈ P, ∃ p ∈ F, p.name = x ∧ (p.kind = .po ∨ p.kind = .pk)) ∧
  (∀ x ∈ W, ∃ p ∈ F, p.name = x ∧ (p.kind = .pk ∨ p.kind = .ko)) ∧
  (∀ (i j : Nat) (p q : Param), i < j → F[i]? = some p → F[j]? = some q →
      p.kind = .pk → p.name ∉ P → p.name ∉ W → q.kind = .pk → q.name ∉ P)

/-- a keyword names a positional-only parameter of the advertised signature next to **kwargs
    (version-dependent semantics, excluded by the property) -/
def versionDependent (A : List Param) (kwargs : List (Nat × Nat)) : Prop :=
  hasVk A = true ∧ ∃ kv ∈ kwargs, ∃ p ∈ A, p.kind = .po ∧ p.name = kv.1

theorem prepare_spec (F A : List Param) (P W : List Nat) (kp : List (Nat × Param))
    (hwf : WF F) (h : prepare F P W = .ok (A, kp)) : A = pokSpec F P W := by
  have hadm := admissible_of_prepare F P W hwf _ h
  rw [prepare_of_admissible F P W hwf hadm] at h
  cases h; rfl

theorem prepare_err (F : List Param) (P W : List Nat) (e : Err)
    (hwf : WF F) (h : prepare F P W = .error e) : e = .valueError :=
  prepare_error F P W hwf e h

/-- inadmissible selections raise ValueError at decoration time, admissible ones do not -/
theorem prepare_ok_iff (F : List Param) (P W : List Nat) (hwf : WF F) :
    (∃ r, prepare F P W = .ok r) ↔ admissible F P W := by
  constructor
  · rintro ⟨r, h⟩; exact admissible_of_prepare F P W hwf r h
  · intro h; exact ⟨_, prepare_of_admissible F P W hwf h⟩

/-- the advertised signature is itself a valid one -/
theorem prepare_wf (F A : List Param) (P W : List Nat) (kp : List (Nat × Param))
    (hwf : WF F) (h : prepare F P W = .ok (A, kp)) : WF A := by
  have hadm := admissible_of_prepare F P W hwf _ h
  rw [prepare_of_admissible F P W hwf hadm] at h
  cases h
  obtain ⟨hs, hn, hdf⟩ := validOk_iff_C12.1 hwf.1
  exact (pokSpec'_valid F P W hwf ((admissible_iff F hn hadm.1).2 hadm).1.2.1).2

/-- THE central statement: the decorated callable accepts exactly the calls the advertised
    signature accepts and delivers every argument and default to the same parameter -/
theorem call_exact (F A : List Param) (P W : List Nat) (kp : List (Nat × Param))
    (args : List Nat) (kwargs : List (Nat × Nat))
    (hwf : WF F) (h : prepare F P W = .ok (A, kp))
    (hk : (kwargs.map (·.1)).Nodup) (hvd : ¬ versionDependent A kwargs) :
    match decoratedCall F P kp args kwargs, bindCall A args kwargs with
    | some b1, some b2 => b1.equiv b2
    | none, none => True
    | _, _ => False := by
  have hadm := admissible_of_prepare F P W hwf _ h
  rw [prepare_of_admissible F P W hwf hadm] at h
  cases h
  exact call_exact_main F P W args kwargs hwf hadm hk hvd

/-- C18 (modifier half): the result depends only on the *sets* of names, so any two orders of
    stacking the same modifiers (each stacking step unions the name sets) give the same
    advertised signature and the same translation table -/
theorem prepare_set_ext (F : List Param) (P P' W W' : List Nat)
    (hP : ∀ x, x ∈ P ↔ x ∈ P') (hW : ∀ x, x ∈ W ↔ x ∈ W') :
    prepare F P W = prepare F P' W' :=
  prepare_ext F P P' W W' hP hW

/-- the convenience forms select what the documentation says -/
theorem startNames_spec (F : List Param) (start : Nat) (w : List Nat) (hwf : WF F)
    (h : startNames F start [] = .ok w) :
    ∃ pre post, (F.filter (fun p => p.kind = .pk)).map (·.name) = pre ++ start :: post ∧
      start ∉ pre ∧ w = start :: post :=
  startNames_nil_spec F start w hwf h

theorem endNames_spec (F : List Param) (end_ : Nat) (w : List Nat) (hwf : WF F)
    (h : endNames F end_ [] = .ok w) :
    ∃ pre post, (F.filter (fun p => p.kind = .pk)).map (·.name) = pre ++ end_ :: post ∧
      end_ ∉ pre ∧ w = pre ++ [end_] :=
  endNames_nil_spec F end_ w hwf h

theorem autoNames_spec (F : List Param) (w : List Nat) (h : autoNames F [] = .ok w) :
    w = (F.filter (fun p => p.kind = .pk && p.dflt.isSome)).map (·.name) := by
  rw [autoNames_nil] at h
  cases h; rfl

/-! non-vacuity -/
def exF : List Param := [⟨1, .pk, none, none, .empty⟩, ⟨2, .pk, none, none, .empty⟩, ⟨3, .pk, some 9, none, .empty⟩,
                         ⟨11, .vp, none, none, .empty⟩]
example : WF exF := by decide
/-- the advertised signature of `exF` with 1 positional-only and 3 keyword-only -/
def exA_C12 : List Param := [⟨1, .po, none, none, .empty⟩, ⟨2, .pk, none, none, .empty⟩,
                         ⟨11, .vp, none, none, .empty⟩, ⟨3, .ko, some 9, none, .empty⟩]
example : prepare exF [1] [3] = .ok (exA_C12, [(2, ⟨3, .pk, some 9, none, .empty⟩)]) := by rfl
example : exA_C12 = pokSpec exF [1] [3] := by decide
example : WF exA_C12 := by decide
example : ∃ A kp, prepare exF [1] [3] = .ok (A, kp) ∧
    decoratedCall exF [1] kp [5, 6, 7] [(3, 8)] = bindCall A [5, 6, 7] [(3, 8)] ∧
    (bindCall A [5, 6, 7] [(3, 8)]).isSome :=
  ⟨exA_C12, [(2, ⟨3, .pk, some 9, none, .empty⟩)], by rfl, by decide, by decide⟩
/- the keyword-only value is re-inserted at its original positional index -/
example : decoratedCall exF [1] [(2, ⟨3, .pk, some 9, none, .empty⟩)] [5, 6, 7] [(3, 8)] =
    some { named := [(1, 5), (2, 6), (3, 8)], va := some [7], vk := none } := by decide
/- errors at decoration time (prepare_err, prepare_ok_iff) -/
example : prepare exF [1] [1] = .error .valueError := by rfl
example : prepare exF [3] [] = .error .valueError := by rfl      -- positional-only after a kept pk
example : prepare exF [] [11] = .error .valueError := by rfl     -- *args cannot be keyword-only
example : prepare exF [] [77] = .error .valueError := by rfl     -- unknown name
example : admissible exF [1] [3] := (prepare_ok_iff exF [1] [3] (by decide)).1 ⟨(exA_C12, _), by rfl⟩
example : ¬ admissible exF [3] [] := fun h => by
  obtain ⟨r, hr⟩ := (prepare_ok_iff exF [3] [] (by decide)).2 h
  have : prepare exF [3] [] = .error .valueError := by rfl
  rw [this] at hr; cases hr
/- call_exact with **kwargs: the hypotheses are satisfiable on a call that uses them -/
def exG : List Param := [⟨1, .pk, none, none, .empty⟩, ⟨2, .pk, some 9, none, .empty⟩,
                         ⟨12, .vk, none, none, .empty⟩]
def exGA : List Param := [⟨1, .po, none, none, .empty⟩, ⟨2, .ko, some 9, none, .empty⟩,
                          ⟨12, .vk, none, none, .empty⟩]
example : WF exG := by decide
example : prepare exG [1] [2] = .ok (exGA, [(1, ⟨2, .pk, some 9, none, .empty⟩)]) := by rfl
example : (([(2, 8), (7, 9)] : List (Nat × Nat)).map (·.1)).Nodup := by decide
example : ¬ versionDependent exGA [(2, 8), (7, 9)] := by
  unfold versionDependent; decide
example : versionDependent exGA [(1, 8)] := by
  unfold versionDependent; decide
example : decoratedCall exG [1] [(1, ⟨2, .pk, some 9, none, .empty⟩)] [5] [(2, 8), (7, 9)] =
    some { named := [(1, 5), (2, 8)], va := none, vk := some [(7, 9)] } := by decide
example : bindCall exGA [5] [(2, 8), (7, 9)] =
    some { named := [(1, 5), (2, 8)], va := none, vk := some [(7, 9)] } := by decide
/- a rejected call is rejected on both sides (missing keyword-only argument without default) -/
def exH : List Param := [⟨1, .pk, none, none, .empty⟩, ⟨2, .pk, none, none, .empty⟩]
example : prepare exH [] [2] = .ok ([⟨1, .pk, none, none, .empty⟩, ⟨2, .ko, none, none, .empty⟩],
    [(1, ⟨2, .pk, none, none, .empty⟩)]) := by rfl
example : decoratedCall exH [] [(1, ⟨2, .pk, none, none, .empty⟩)] [5, 6] [] = none := by decide
example : bindCall [⟨1, .pk, none, none, .empty⟩, ⟨2, .ko, none, none, .empty⟩] [5, 6] [] = none := by
  decide
/- the convenience forms -/
example : startNames exF 2 [] = .ok [2, 3] := by rfl
example : endNames exF 2 [] = .ok [1, 2] := by rfl
example : autoNames exF [] = .ok [3] := by rfl
/- prepare_set_ext: hypotheses satisfiable with genuinely different lists -/
example : prepare exF [1, 2] [3] = prepare exF [2, 1, 1] [3, 3] :=
  prepare_set_ext exF [1, 2] [2, 1, 1] [3] [3, 3] (by simp; omega) (by simp)

end SV
