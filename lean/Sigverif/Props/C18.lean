/-
  Props/C18.lean — property C18, the order-independence part that is logic:

  * stacking keyword/positional modifiers = one translator with the unions of the name sets:
    `prepare_set_ext` (Props/C12.lean)
  * `annotate` commutes with the keyword/positional modifiers: applying `annotate` after a
    modifier (which re-prepares the translator on the re-annotated function) advertises exactly
    what applying the modifier after `annotate` advertises, and an inadmissible selection stays
    inadmissible: `annotate_prepare_commute`
  * the descriptor cache: `no_retention`, `no_premature_reclaim` (Props/SM.lean)
-/
import Sigverif.Props.C12
import Sigverif.Props.C11
namespace SV

/-- what `annotate(**anns)` does to one parameter -/
def annMap (anns : List (Nat × Nat)) (p : Param) : Param :=
  match dget anns p.name with
  | some a => { p with ann := some a, uann := .pre a }
  | none => p

@[simp] theorem annMap_name (anns : List (Nat × Nat)) (p : Param) : (annMap anns p).name = p.name := by
  unfold annMap; split <;> rfl
@[simp] theorem annMap_kind (anns : List (Nat × Nat)) (p : Param) : (annMap anns p).kind = p.kind := by
  unfold annMap; split <;> rfl
@[simp] theorem annMap_dflt (anns : List (Nat × Nat)) (p : Param) : (annMap anns p).dflt = p.dflt := by
  unfold annMap; split <;> rfl
theorem annMap_withKind (anns : List (Nat × Nat)) (p : Param) (k : Kind) :
    annMap anns (p.withKind k) = (annMap anns p).withKind k := by
  unfold annMap Param.withKind; simp only; split <;> rfl

theorem annotate_eq_map (F F' : List Param) (anns : List (Nat × Nat)) (h : annotate F anns = .ok F') :
    F' = F.map (annMap anns) := by
  unfold annotate at h
  split at h
  · cases h
  · simp only [Except.ok.injEq] at h
    subst h
    rfl

theorem validateGo_map (anns : List (Nat × Nat)) (ps : List Param) (top : Nat) (sd : Bool) (seen : List Nat) :
    validateGo top sd seen (ps.map (annMap anns)) = validateGo top sd seen ps := by
  induction ps generalizing top sd seen with
  | nil => rfl
  | cons p ps ih =>
    simp only [List.map_cons, validateGo, annMap_kind, annMap_dflt, annMap_name]
    split
    · rfl
    · split
      · rfl
      · split
        · rfl
        · exact ih _ _ _

theorem filter_map_annMap (anns : List (Nat × Nat)) (F : List Param) (c : Param → Bool)
    (hc : ∀ p, c (annMap anns p) = c p) :
    (F.map (annMap anns)).filter c = (F.filter c).map (annMap anns) := by
  rw [List.filter_map]
  congr 1
  apply List.filter_congr
  intro p _
  exact hc p

theorem WF_map_annMap (anns : List (Nat × Nat)) (F : List Param) (h : WF F) : WF (F.map (annMap anns)) := by
  obtain ⟨h1, h2, h3⟩ := h
  refine ⟨?_, ?_, ?_⟩
  · rw [validOk_iff_Laws] at h1 ⊢
    unfold validate at h1 ⊢
    rw [validateGo_map]; exact h1
  · rw [filter_map_annMap anns F _ (by intro p; simp), List.length_map]; exact h2
  · rw [filter_map_annMap anns F _ (by intro p; simp), List.length_map]; exact h3

theorem pokSpec_map (anns : List (Nat × Nat)) (F : List Param) (P W : List Nat) :
    pokSpec (F.map (annMap anns)) P W = (pokSpec F P W).map (annMap anns) := by
  unfold pokSpec
  simp only [List.map_append, List.map_map]
  rw [filter_map_annMap anns F _ (by intro p; simp), filter_map_annMap anns F _ (by intro p; simp),
    filter_map_annMap anns F _ (by intro p; simp), filter_map_annMap anns F _ (by intro p; simp),
    filter_map_annMap anns F _ (by intro p; simp)]
  simp only [List.map_map]
  congr 1
  · congr 1
    · congr 1
      · congr 1
        apply List.map_congr_left
        intro p _
        simp only [Function.comp, annMap_name]
        split
        · exact (annMap_withKind anns p .po).symm
        · rfl
    · apply List.map_congr_left
      intro p _
      simp only [Function.comp]
      exact (annMap_withKind anns p .ko).symm

theorem admissible_map (anns : List (Nat × Nat)) (F : List Param) (P W : List Nat) :
    admissible (F.map (annMap anns)) P W ↔ admissible F P W := by
  unfold admissible
  constructor
  · rintro ⟨h1, h2, h3, h4⟩
    refine ⟨h1, ?_, ?_, ?_⟩
    · intro x hx
      obtain ⟨p, hp, hn, hk⟩ := h2 x hx
      obtain ⟨q, hq, rfl⟩ := List.mem_map.1 hp
      exact ⟨q, hq, by simpa using hn, by simpa using hk⟩
    · intro x hx
      obtain ⟨p, hp, hn, hk⟩ := h3 x hx
      obtain ⟨q, hq, rfl⟩ := List.mem_map.1 hp
      exact ⟨q, hq, by simpa using hn, by simpa using hk⟩
    · intro i j p q hij hp hq hk hnP hnW hqk
      have := h4 i j (annMap anns p) (annMap anns q) hij (by simp [hp]) (by simp [hq])
        (by simpa using hk) (by simpa using hnP) (by simpa using hnW) (by simpa using hqk)
      simpa using this
  · rintro ⟨h1, h2, h3, h4⟩
    refine ⟨h1, ?_, ?_, ?_⟩
    · intro x hx
      obtain ⟨p, hp, hn, hk⟩ := h2 x hx
      exact ⟨annMap anns p, List.mem_map.2 ⟨p, hp, rfl⟩, by simpa using hn, by simpa using hk⟩
    · intro x hx
      obtain ⟨p, hp, hn, hk⟩ := h3 x hx
      exact ⟨annMap anns p, List.mem_map.2 ⟨p, hp, rfl⟩, by simpa using hn, by simpa using hk⟩
    · intro i j p q hij hp hq hk hnP hnW hqk
      simp only [List.getElem?_map] at hp hq
      cases hpi : F[i]? with
      | none => rw [hpi] at hp; cases hp
      | some p0 =>
        cases hqj : F[j]? with
        | none => rw [hqj] at hq; cases hq
        | some q0 =>
          rw [hpi] at hp; rw [hqj] at hq
          simp only [Option.map_some, Option.some.injEq] at hp hq
          subst hp hq
          have := h4 i j p0 q0 hij hpi hqj (by simpa using hk) (by simpa using hnP) (by simpa using hnW)
            (by simpa using hqk)
          simpa using this

/-- **annotate commutes with the keyword/positional modifiers**: the signature advertised by a
    modifier applied to the re-annotated function is the re-annotated advertised signature, and the
    one raises ValueError exactly when the other does -/
theorem annotate_prepare_commute (F F' : List Param) (anns : List (Nat × Nat)) (P W : List Nat)
    (hwf : WF F) (hF' : annotate F anns = .ok F') :
    (prepare F' P W).map (·.1) = (prepare F P W).map (fun r => r.1.map (annMap anns)) := by
  have e := annotate_eq_map F F' anns hF'
  subst e
  have hwf' := WF_map_annMap anns F hwf
  cases h1 : prepare F P W with
  | ok r =>
    obtain ⟨A, kp⟩ := r
    have hA := prepare_spec F A P W kp hwf h1
    have hadm := (prepare_ok_iff F P W hwf).1 ⟨_, h1⟩
    have hadm' := (admissible_map anns F P W).2 hadm
    obtain ⟨r', h2⟩ := (prepare_ok_iff _ P W hwf').2 hadm'
    obtain ⟨A', kp'⟩ := r'
    have hA' := prepare_spec _ A' P W kp' hwf' h2
    rw [h2]
    simp only [Except.map]
    rw [hA', hA, pokSpec_map]
  | error e =>
    have he := prepare_err F P W e hwf h1
    cases h2 : prepare (F.map (annMap anns)) P W with
    | ok r' =>
      exfalso
      have hadm' := (prepare_ok_iff _ P W hwf').1 ⟨_, h2⟩
      have hadm := (admissible_map anns F P W).1 hadm'
      obtain ⟨r, hr⟩ := (prepare_ok_iff F P W hwf).2 hadm
      rw [hr] at h1; cases h1
    | error e' =>
      have he' := prepare_err _ P W e' hwf' h2
      subst he he'
      rfl

end SV
