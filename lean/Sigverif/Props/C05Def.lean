/-
  Props/C05Def.lean — properties C05 / C06: `visitor_eq_truth` for programs whose nested function
  definitions are NAMED, which is how Python writes them (`def sub(): …`) and how the real visitor
  sees them since repair D85 (`visit_FunctionDef` first treats the name as stored).

  The ground truth of a `def` statement is that of its two halves — `sub = <function object>`,
  then the anonymous function whose calls are judged later — (`dsProg`); so

  * `visitor_eq_truth_named`: on the tree with named definitions (`renderNamed sub p`, the tree
    the correspondence check compares with `ast.parse` of the program text on every run) the
    walker's forwarding records are exactly the ground-truth calls of `dsProg sub p`;
  * `truth_named_fresh`: when `sub` is not the name of a star parameter the `def` statements
    change nothing: the ground truth is that of `p`;
  * when `sub` IS the name of a star parameter (`def kwargs(): …` — the defect D85 on the code
    before the repair) the definition is a rebinding of that star, and the example at the end
    shows the call after it judged accordingly.

  `GrammarProg (dsProg sub p)` asks of `sub` what `GrammarProg` asks of every assignment target
  (not a parameter, not a callee root, not a helper) unless it is a star name.
-/
import Sigverif.Props.C05Full
import Sigverif.Lemmas.C05Def
namespace SV

/-- **visitor = ground truth, nested definitions named** -/
theorem visitor_eq_truth_named (sub : Nat) (p : Prog) (h : GrammarProg (dsProg sub p)) :
    (runVisitor (renderNamed sub p)).map forwarding =
      .ok ((truth (dsProg sub p)).map (FwdCall.toRec p)) := by
  rw [runVisitor_renderNamed]
  exact visitor_eq_truth (dsProg sub p) h

theorem truthS_nameStmt_fresh (sub va vk : Nat) (h1 : sub ≠ va) (h2 : sub ≠ vk) (t : Bool × Bool) :
    truthS (nameStmt sub va vk) t = ([], t) := by
  obtain ⟨tA, tK⟩ := t
  simp [nameStmt, h1, h2, truthS, taintsNow]

mutual
  theorem truthSL_ds (sub va vk : Nat) (h1 : sub ≠ va) (h2 : sub ≠ vk) :
      ∀ (l : StmtList) (t : Bool × Bool), truthSL (dsSL sub va vk l) t = truthSL l t
    | .nil, t => by simp [dsSL]
    | .cons (.nested body) rest, t => by
      simp only [dsSL, truthSL, truthS_nameStmt_fresh sub va vk h1 h2, List.nil_append]
      rw [truthSL_ds sub va vk h1 h2 rest]
    | .cons (.nonlocalRebind s) rest, t => by
      simp only [dsSL, truthSL, truthS_nameStmt_fresh sub va vk h1 h2, List.nil_append]
      rw [truthSL_ds sub va vk h1 h2 rest]
    | .cons (.block body) rest, t => by
      simp only [dsSL, truthSL, truthS]
      rw [truthSL_ds sub va vk h1 h2 body, truthSL_ds sub va vk h1 h2 rest]
    | .cons (.fwd callee npos kws uva uvk target) rest, t => by
      simp only [dsSL, truthSL]; rw [truthSL_ds sub va vk h1 h2 rest]
    | .cons (.rebind s) rest, t => by simp only [dsSL, truthSL]; rw [truthSL_ds sub va vk h1 h2 rest]
    | .cons (.mutate s m) rest, t => by simp only [dsSL, truthSL]; rw [truthSL_ds sub va vk h1 h2 rest]
    | .cons (.delete s) rest, t => by simp only [dsSL, truthSL]; rw [truthSL_ds sub va vk h1 h2 rest]
    | .cons (.handOver s h) rest, t => by simp only [dsSL, truthSL]; rw [truthSL_ds sub va vk h1 h2 rest]
    | .cons (.decoy h n) rest, t => by simp only [dsSL, truthSL]; rw [truthSL_ds sub va vk h1 h2 rest]
    | .cons (.unrelated x) rest, t => by simp only [dsSL, truthSL]; rw [truthSL_ds sub va vk h1 h2 rest]
end

theorem nestedS_nameStmt (sub va vk : Nat) (t : Bool × Bool) : nestedS (nameStmt sub va vk) t = [] := by
  unfold nameStmt; split
  · simp [nestedS]
  · split <;> simp [nestedS]

mutual
  theorem nestedSL_ds (sub va vk : Nat) :
      ∀ (l : StmtList) (t : Bool × Bool), nestedSL (dsSL sub va vk l) t = nestedSL l t
    | .nil, t => by simp [dsSL]
    | .cons (.nested body) rest, t => by
      simp only [dsSL, nestedSL, nestedS_nameStmt, List.nil_append]
      rw [nestedSL_ds sub va vk rest]
    | .cons (.nonlocalRebind s) rest, t => by
      simp only [dsSL, nestedSL, nestedS_nameStmt, List.nil_append]
      rw [nestedSL_ds sub va vk rest]
    | .cons (.block body) rest, t => by
      simp only [dsSL, nestedSL, nestedS]
      rw [nestedSL_ds sub va vk body, nestedSL_ds sub va vk rest]
    | .cons (.fwd callee npos kws uva uvk target) rest, t => by
      simp only [dsSL, nestedSL]; rw [nestedSL_ds sub va vk rest]
    | .cons (.rebind s) rest, t => by simp only [dsSL, nestedSL]; rw [nestedSL_ds sub va vk rest]
    | .cons (.mutate s m) rest, t => by simp only [dsSL, nestedSL]; rw [nestedSL_ds sub va vk rest]
    | .cons (.delete s) rest, t => by simp only [dsSL, nestedSL]; rw [nestedSL_ds sub va vk rest]
    | .cons (.handOver s h) rest, t => by simp only [dsSL, nestedSL]; rw [nestedSL_ds sub va vk rest]
    | .cons (.decoy h n) rest, t => by simp only [dsSL, nestedSL]; rw [nestedSL_ds sub va vk rest]
    | .cons (.unrelated x) rest, t => by simp only [dsSL, nestedSL]; rw [nestedSL_ds sub va vk rest]
end

/-- a `def` whose name is not a star parameter changes nothing in the ground truth -/
theorem truth_named_fresh (sub : Nat) (p : Prog) (h1 : sub ≠ p.va) (h2 : sub ≠ p.vk) :
    truth (dsProg sub p) = truth p := by
  simp only [truth, dsProg]
  rw [truthSL_ds sub p.va p.vk h1 h2, nestedSL_ds]

/-- the two composed: with a fresh name for the nested definitions the walker reports the ground
    truth of the program itself -/
theorem visitor_eq_truth_named_fresh (sub : Nat) (p : Prog) (h : GrammarProg (dsProg sub p))
    (h1 : sub ≠ p.va) (h2 : sub ≠ p.vk) :
    (runVisitor (renderNamed sub p)).map forwarding = .ok ((truth p).map (FwdCall.toRec p)) := by
  rw [visitor_eq_truth_named sub p h, truth_named_fresh sub p h1 h2]

/-- a nested definition called like `**kwargs` taints `**kwargs` from that statement on … -/
theorem truthS_nameStmt_vk (va vk : Nat) (h : vk ≠ va) (tA tK : Bool) :
    truthS (nameStmt vk va vk) (tA, tK) = ([], (tA, true)) := by
  simp [nameStmt, h, truthS, taintsNow]

/-- … and one called like `*args` taints `*args` -/
theorem truthS_nameStmt_va (va vk : Nat) (tA tK : Bool) :
    truthS (nameStmt va va vk) (tA, tK) = ([], (true, tK)) := by
  simp [nameStmt, truthS, taintsNow]

/-- hence a forwarding call that follows `def kwargs(): …` does not forward `**kwargs`: whatever the
    rest of the body, the first ground-truth call of `def kwargs(): body` ; `callee(*args, **kwargs)`
    uses `*args` only and hides `**kwargs` (the defect D85 was exactly the walker not seeing this) -/
theorem call_after_def_named_kwargs (va vk : Nat) (h : vk ≠ va) (callee : Tree) (nb : NStmtList) (rest : StmtList) :
    (truthSL (dsSL vk va vk (.cons (.nested nb) (.cons (.fwd callee 0 [] true true none) rest))) (false, false)).1.head? =
      some { callee := callee, npos := 0, kws := [], useVa := true, useVk := false, hideA := false, hideK := true } := by
  simp [dsSL, truthSL, truthS_nameStmt_vk va vk h, truthS, taintsNow, mkFwd]

/-! ### non-vacuity

`exProgN` of `Props/C05Full` with its nested definitions called `sub` (= 50): the hypotheses
hold and the records are those of the program.

```
def wrapper(a, *args, **kwargs):          # D85: the nested definition is called like **kwargs
    def kwargs(): h(0)
    g(*args, **kwargs)                    # *args pristine, **kwargs is now a function
``` -/
example : GrammarProg (dsProg 50 exProgN) :=
  ⟨by decide, ⟨by decide, by decide, by decide, by decide, by decide, by decide⟩⟩

def exProgD : Prog :=
  { params := [1], va := 11, vk := 12,
    body := .cons (.nested (.cons (.decoy 41 1) .nil))
           (.cons (.fwd (.name 21 .load) 0 [] true true none) .nil) }

example : GrammarProg (dsProg 12 exProgD) :=
  ⟨by decide, ⟨by decide, by decide, by decide, by decide, by decide, by decide⟩⟩

example : (truth (dsProg 12 exProgD)).map (fun f => (f.useVa, f.useVk, f.hideA, f.hideK)) =
    [(true, false, false, true)] := by decide

example : (truth exProgD).map (fun f => (f.useVa, f.useVk, f.hideA, f.hideK)) =
    [(true, true, false, false)] := by decide

end SV
