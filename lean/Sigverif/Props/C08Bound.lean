/-
  Props/C08Bound.lean — property C08, "exactly one entry per parameter … nothing refers to a parameter that is not in
  the signature", for what `signatures.signature` returns for a BOUND METHOD (or a class) whose function carries a stored
  signature with provenance (`modifiers.annotate`, `f.__signature__ = sigtools.signature(g)`): inspect removes the receiver
  from the parameters and carries the maps over untouched; `signatures.signature` then drops the entries of the parameters
  that are gone (finding D56, repaired; `Model/Mask.lean`: `dropReceiver`, `pruneSrc`, `retrieveBound`).

  * `retrieveBound_provWF`   — well-formed provenance stays well-formed, for every signature
  * `retrieveBound_entries`  — the remaining parameters keep exactly their entries; `+depths` is untouched
  * `dropReceiver_refuted`   — without the pruning (the pinned code) the result is NOT well-formed: a witness
-/
import Sigverif.Model.Mask
import Sigverif.Lemmas.C08Fold
namespace SV

private theorem dget_filter_key {α : Type} (d : List (Nat × α)) (p : Nat → Bool) (k : Nat) :
    dget (d.filter (fun e => p e.1)) k = if p k then dget d k else none := by
  induction d with
  | nil => simp [dget]
  | cons e t ih =>
    obtain ⟨k', v⟩ := e
    by_cases hp : p k' = true
    · simp only [List.filter_cons, hp, if_true, dget]
      by_cases hk : k' = k
      · subst hk; simp [hp]
      · simp only [hk, if_false]; exact ih
    · simp only [List.filter_cons, hp, Bool.false_eq_true, if_false, dget]
      by_cases hk : k' = k
      · subst hk; simp only [if_true]; rw [ih]; simp [hp]
      · simp only [hk, if_false]; exact ih

private theorem mem_tail_names {ps : List Param} {k : Nat} (h : k ∈ names ps.tail) : k ∈ names ps := by
  cases ps with
  | nil => exact h
  | cons p t => simp only [List.tail_cons] at h; simp [names, h] at *; exact Or.inr h

/-- the remaining parameters keep exactly their entries, the entries of the others are gone, `+depths` is untouched -/
theorem retrieveBound_entries (sig : USig) :
    (retrieveBound sig).params = sig.params.tail ∧ (retrieveBound sig).depths = sig.depths ∧
    ∀ k, dget (retrieveBound sig).src k = if k ∈ names sig.params.tail then dget sig.src k else none := by
  refine ⟨rfl, rfl, ?_⟩
  intro k
  unfold retrieveBound pruneSrc dropReceiver
  simp only
  rw [dget_filter_key sig.src (fun n => (names sig.params.tail).contains n) k]
  simp

/-- provenance that is well-formed for the function is well-formed for its bound method -/
theorem retrieveBound_provWF (sig : USig) (h : ProvWF sig) : ProvWF (retrieveBound sig) := by
  obtain ⟨hp, hd, hg⟩ := retrieveBound_entries sig
  refine ⟨?_, ?_, ?_⟩
  · intro k
    unfold dhas
    rw [hg k, hp]
    by_cases hk : k ∈ names sig.params.tail
    · simp only [hk, if_true]
      have := (h.keys k).2 (mem_tail_names hk)
      unfold dhas at this
      simp [this]
    · simp [hk]
  · intro k hk
    rw [hp] at hk
    unfold sget
    rw [hg k]
    simp only [hk, if_true]
    exact h.ne k (mem_tail_names hk)
  · intro k f hf
    rw [hd]
    unfold sget at hf
    rw [hg k] at hf
    by_cases hk : k ∈ names sig.params.tail
    · simp only [hk, if_true] at hf
      exact h.dep k f hf
    · simp [hk] at hf

/-- the pinned code stopped at `dropReceiver`: the entry of the receiver stays although the parameter is gone -/
theorem dropReceiver_refuted :
    ∃ sig : USig, ProvWF sig ∧ ¬ ProvWF (dropReceiver sig) := by
  refine ⟨{ params := [⟨1, .pk, none, none, .empty⟩, ⟨2, .pk, none, none, .empty⟩],
            src := [(1, [7]), (2, [7])], depths := [(7, 0)] }, ?_, ?_⟩
  · refine ⟨?_, ?_, ?_⟩
    · intro k
      simp only [dhas, dget, names, List.map_cons, List.map_nil, List.mem_cons, List.not_mem_nil, or_false]
      by_cases h1 : 1 = k
      · subst h1; simp
      · by_cases h2 : 2 = k
        · subst h2; simp
        · have : ¬ k = 1 := fun e => h1 e.symm
          have : ¬ k = 2 := fun e => h2 e.symm
          simp [*]
    · intro k hk
      simp only [names, List.map_cons, List.map_nil, List.mem_cons, List.not_mem_nil, or_false] at hk
      rcases hk with rfl | rfl <;> simp [sget, dget]
    · intro k f hf
      simp only [sget, dget] at hf
      by_cases h1 : 1 = k
      · subst h1; simp at hf; subst hf; rfl
      · by_cases h2 : 2 = k
        · subst h2; simp at hf; subst hf; rfl
        · simp [h1, h2] at hf
  · intro h
    have := (h.keys 1).1 (by simp [dropReceiver, dhas, dget])
    simp [dropReceiver, names] at this

/-! non-vacuity: `@annotate(a=int) def m(self, a)` — receiver 1, parameter 2, function 7 -/
example : retrieveBound { params := [⟨1, .pk, none, none, .empty⟩, ⟨2, .pk, none, none, .empty⟩],
                           src := [(1, [7]), (2, [7])], depths := [(7, 0)] } =
    { params := [⟨2, .pk, none, none, .empty⟩], src := [(2, [7])], depths := [(7, 0)] } := rfl

end SV
