/-
  Props/C20Text.lean — C20, the string layer: `s(text)` reproduces a signature from its string form.

  ONLY property theorems + non-vacuity examples; helper lemmas in Sigverif/Lemmas/C20Text*.lean.

  Model: Model/ReadSig.lean (`readSig` = support.read_sig after the comma split and the regular expression,
  `parseDef` = CPython reading the generated `def`, the decorators = Model/Modifiers.lean).  `pieces s` is the text
  `str(s)[1:-1]` piece by piece (tied to `str(inspect.Signature)` by stream `readsig`, request `pieces`).
  What a `def` can express about a parameter is everything but the upgraded annotation: `Param.bare`.
-/
import Sigverif.Lemmas.C20Text
import Sigverif.Lemmas.C20Mod
import Sigverif.Lemmas.C20Pipe
import Sigverif.Lemmas.C20Ann
import Sigverif.Lemmas.C20Plain
namespace SV

/-- star parameters carry no default (`inspect.Parameter` refuses one) -/
def starsBare (s : List Param) : Prop := ∀ p ∈ s, (p.kind = .vp ∨ p.kind = .vk) → p.dflt = none

/-- **native spelling, always**: for every well-formed signature, the `def` that `s(str(sig)[1:-1])` compiles has exactly
    its parameters — names, kinds, defaults, annotations, in order — and no decorator is asked for. -/
theorem s_native (s : List Param) (hwf : WF s) (hstar : starsBare s) :
    sParams false false false (pieces s) = .ok (s.map Param.bare) := by
  obtain ⟨a, b, c, d⟩ := readSig_native (pieces s) (piecesAux_chevFree s none)
  have hp := parseDef_pieces' s ((validOk_iff s).1 hwf.1) hwf.2.1 hwf.2.2 hstar
  simp only [sParams, a, b, c, d, hp, bind, Except.bind, List.isEmpty_nil, if_true, pure, Except.pure]

/-- the text of a signature is read back by the model of the `def` grammar (the part of `s_native` that does not
    involve `read_sig`) -/
theorem parseDef_pieces (s : List Param) (hwf : WF s) (hstar : starsBare s) :
    parseDef ((pieces s).map Piece.toItem) = .ok (s.map Param.bare) :=
  parseDef_pieces' s ((validOk_iff s).1 hwf.1) hwf.2.1 hwf.2.2 hstar

/-- `read_sig` on a text without chevrons, no option set: the pieces unchanged, no decorator -/
theorem read_sig_native (ps : List Piece) (h : ∀ p ∈ ps, p.chevFree = true) :
    (readSig false false false ps).params = ps.map Piece.toItem ∧
    (readSig false false false ps).poso = [] ∧ (readSig false false false ps).kwo = [] ∧
    (readSig false false false ps).anns = [] :=
  readSig_native ps h

/-- **`read_sig` with `use_modifiers_kwoargs`** (any setting of the two other options), on the text `str(sig)[1:-1]` of a
    signature `pk ++ *va ++ ko ++ **vk` without positional-only parameters, whatever the number of parameters: the generated
    `def` lists the required parameters (positional-or-keyword first, then the keyword-only ones, each group in its order),
    then the defaulted ones likewise, then `*va` and `**vk`; `kwoarg_n` names exactly the keyword-only parameters in order;
    `posoarg_n` is empty; with `use_modifiers_annotate` the annotations are collected for the decorator in the order of the
    text and the `def` carries none.  (This is the index bookkeeping of `read_sig`: `default_index`, `params.insert(-1, …)`.) -/
theorem read_sig_kwoargs (ua upo : Bool) (pk ko : List Param) (va vk : Option Param)
    (hpk : ∀ p ∈ pk, p.kind = .pk) (hko : ∀ p ∈ ko, p.kind = .ko)
    (hva : ∀ p ∈ va, p.kind = .vp) (hvk : ∀ p ∈ vk, p.kind = .vk)
    (hsorted : pk = reqs pk ++ dfls pk) (hvad : ∀ v ∈ va, v.dflt = none) (hvkd : ∀ v ∈ vk, v.dflt = none) :
    let r := readSig ua upo true (pieces (pk ++ va.toList ++ ko ++ vk.toList))
    r.params = ((reqs pk ++ reqs ko).map (itemU ua 0)) ++ ((dfls pk ++ dfls ko).map (itemU ua 0))
                ++ (va.toList.map (itemU ua 1)) ++ (vk.toList.map (itemU ua 2)) ∧
    r.kwo = ko.map (·.name) ∧ r.poso = [] ∧
    r.anns = (pk ++ va.toList ++ ko ++ vk.toList).foldl (annUpd ua) [] := by
  intro r
  have e : r = readSig ua upo true (pk.map plainP ++ (midPieces va ko ++ (ko.map plainP ++ vkPieces vk))) := by
    show readSig ua upo true _ = _
    rw [pieces_buckets pk ko va vk hpk hko hva hvk]
    simp only [List.append_assoc]
  rw [e]
  exact readSig_kwo ua upo pk ko va vk hsorted hvad hvkd

/-- **the spellings without `use_modifiers_kwoargs`** — native, `posoargs`, `annotate`, `annotate` + `posoargs` — for every
    well-formed signature without positional-only parameters: `s(str(sig)[1:-1], …)` has exactly its parameters, in order
    (`use_modifiers_posoargs` has nothing to do on such a text; with `use_modifiers_annotate` the `def` is written without
    annotations and `modifiers.annotate` puts each one back). -/
theorem s_no_kwoargs (ua upo : Bool) (s : List Param) (hwf : WF s) (hstar : starsBare s) (hnpo : ∀ p ∈ s, p.kind ≠ .po) :
    ∃ r, sParams ua upo false (pieces s) = .ok r ∧ r.map Param.bare = s.map Param.bare :=
  sParams_plain ua upo s ((validOk_iff s).1 hwf.1) hwf.2.1 hwf.2.2 hstar hnpo

/-- **the `kwoargs` spelling** (`use_modifiers_kwoargs`, with or without `use_modifiers_posoargs`; annotations written
    natively): for every signature `pk ++ *va ++ ko ++ **vk` without positional-only parameters — any number of parameters
    — `s(str(sig)[1:-1], …)` compiles the rearranged `def`, applies `modifiers.kwoargs(*kwoarg_n)` and ends with the
    parameters of the signature: names, kinds, defaults, annotations; the keyword-only ones in the order
    required-then-defaulted. -/
theorem s_kwoargs (upo : Bool) (pk ko : List Param) (va vk : Option Param)
    (hpk : ∀ p ∈ pk, p.kind = .pk) (hko : ∀ p ∈ ko, p.kind = .ko)
    (hva : ∀ p ∈ va, p.kind = .vp) (hvk : ∀ p ∈ vk, p.kind = .vk)
    (hsorted : pk = reqs pk ++ dfls pk) (hvad : ∀ v ∈ va, v.dflt = none) (hvkd : ∀ v ∈ vk, v.dflt = none)
    (hn : ((pk ++ ko ++ va.toList ++ vk.toList).map (·.name)).Pairwise (· ≠ ·)) :
    sParams false upo true (pieces (pk ++ va.toList ++ ko ++ vk.toList)) =
      .ok ((pk ++ va.toList ++ (reqs ko ++ dfls ko) ++ vk.toList).map Param.bare) :=
  sParams_kwo upo pk ko va vk hpk hko hva hvk hsorted hvad hvkd hn

/-- **the `annotate` + `kwoargs` spelling** (`use_modifiers_annotate` and `use_modifiers_kwoargs`, with or without
    `use_modifiers_posoargs`): the `def` is written without annotations, `modifiers.annotate(**annotations)` gives every
    parameter its own annotation back (the translator is prepared again on the annotated function), and the result has the
    parameters of the signature — names, kinds, defaults, annotations — the keyword-only ones required-then-defaulted.
    (`Param.bare` forgets the upgraded annotation, which `annotate` sets to the pre-evaluated value.) -/
theorem s_annotate_kwoargs (upo : Bool) (pk ko : List Param) (va vk : Option Param)
    (hpk : ∀ p ∈ pk, p.kind = .pk) (hko : ∀ p ∈ ko, p.kind = .ko)
    (hva : ∀ p ∈ va, p.kind = .vp) (hvk : ∀ p ∈ vk, p.kind = .vk)
    (hsorted : pk = reqs pk ++ dfls pk) (hvad : ∀ v ∈ va, v.dflt = none) (hvkd : ∀ v ∈ vk, v.dflt = none)
    (hn : ((pk ++ ko ++ va.toList ++ vk.toList).map (·.name)).Pairwise (· ≠ ·)) :
    ∃ r, sParams true upo true (pieces (pk ++ va.toList ++ ko ++ vk.toList)) = .ok r ∧
      r.map Param.bare = (pk ++ va.toList ++ (reqs ko ++ dfls ko) ++ vk.toList).map Param.bare :=
  sParams_kwo_ann upo pk ko va vk hpk hko hva hvk hsorted hvad hvkd hn

/-- … which is the signature itself **up to the order of keyword-only parameters**: the same parameters (a permutation),
    and exactly the same list once the keyword-only ones are left out -/
theorem s_kwoargs_up_to_kwo_order (pk ko : List Param) (va vk : Option Param)
    (hpk : ∀ p ∈ pk, p.kind = .pk) (hko : ∀ p ∈ ko, p.kind = .ko)
    (hva : ∀ p ∈ va, p.kind = .vp) (hvk : ∀ p ∈ vk, p.kind = .vk) :
    let r := (pk ++ va.toList ++ (reqs ko ++ dfls ko) ++ vk.toList).map Param.bare
    let s := (pk ++ va.toList ++ ko ++ vk.toList).map Param.bare
    r.Perm s ∧ r.filter (fun p => p.kind ≠ .ko) = s.filter (fun p => p.kind ≠ .ko) := by
  intro r s
  have h2 : (reqs ko ++ dfls ko).Perm ko := by
    unfold reqs dfls
    have := List.filter_append_perm (fun p : Param => p.dflt.isNone) ko
    simpa [Option.not_isNone] using this
  refine ⟨List.Perm.map _ (List.Perm.append_right _ (List.Perm.append_left _ h2)), ?_⟩
  have hnone : ∀ L : List Param, (∀ p ∈ L, p.kind = .ko) → (L.map Param.bare).filter (fun p => p.kind ≠ .ko) = [] := by
    intro L hL
    rw [List.filter_eq_nil_iff]
    intro a ha
    simp only [List.mem_map] at ha
    obtain ⟨p, hp, rfl⟩ := ha
    simp [Param.bare, hL p hp]
  have hk1 : ∀ p ∈ reqs ko ++ dfls ko, p.kind = .ko := by
    intro p hp
    simp only [reqs, dfls, List.mem_append, List.mem_filter] at hp
    rcases hp with ⟨h, _⟩ | ⟨h, _⟩ <;> exact hko p h
  have hk2 : ∀ p ∈ reqs ko, p.kind = .ko := fun p hp => hk1 p (List.mem_append_left _ hp)
  have hk3 : ∀ p ∈ dfls ko, p.kind = .ko := fun p hp => hk1 p (List.mem_append_right _ hp)
  simp only [r, s, List.map_append, List.filter_append, hnone _ hk2, hnone _ hk3, hnone _ hko, List.append_nil]

/-! non-vacuity: `(a, /, b: 40 = 3, *args, c, d=4, **kwargs)` -/
def exT : List Param :=
  [⟨1, .po, none, none, .empty⟩, ⟨2, .pk, some 3, some 40, .empty⟩, ⟨11, .vp, none, none, .empty⟩,
   ⟨3, .ko, none, none, .empty⟩, ⟨4, .ko, some 4, none, .empty⟩, ⟨12, .vk, none, none, .empty⟩]
example : WF exT ∧ starsBare exT := by
  refine ⟨by decide, ?_⟩
  intro p hp hk
  simp only [exT, List.mem_cons, List.mem_nil_iff, or_false] at hp
  rcases hp with rfl | rfl | rfl | rfl | rfl | rfl <;> simp_all
example : pieces exT = [.plain 1 none none, .slash, .plain 2 (some 40) (some 3), .star false 11 none none,
    .plain 3 none none, .plain 4 none (some 4), .star true 12 none none] := by decide
example : sParams false false false (pieces exT) = .ok exT := by rfl
/-- a text the reader must refuse: a bare `*` with nothing after it -/
example : sParams false false false [.plain 1 none none, .bare] = .error .syntaxError := by rfl

/-! non-vacuity of `read_sig_kwoargs`: `(a, b=3, *args, c=4, d, **kwargs)` — a required keyword-only parameter after a
    defaulted one -/
def exK : List Param := [⟨1, .pk, none, none, .empty⟩, ⟨2, .pk, some 3, some 40, .empty⟩]
def exKo : List Param := [⟨3, .ko, some 4, none, .empty⟩, ⟨4, .ko, none, some 41, .empty⟩]
example : exK = reqs exK ++ dfls exK := by decide
example : (readSig false false true (pieces (exK ++ (some (⟨11, .vp, none, none, .empty⟩ : Param)).toList ++ exKo ++
    (some (⟨12, .vk, none, none, .empty⟩ : Param)).toList))).params =
    [.par 0 1 none none, .par 0 4 (some 41) none, .par 0 2 (some 40) (some 3), .par 0 3 none (some 4),
     .par 1 11 none none, .par 2 12 none none] := by decide

example : sParams false true true (pieces (exK ++ (some (⟨11, .vp, none, none, .empty⟩ : Param)).toList ++ exKo ++
    (some (⟨12, .vk, none, none, .empty⟩ : Param)).toList)) =
    .ok [⟨1, .pk, none, none, .empty⟩, ⟨2, .pk, some 3, some 40, .empty⟩, ⟨11, .vp, none, none, .empty⟩,
         ⟨4, .ko, none, some 41, .empty⟩, ⟨3, .ko, some 4, none, .empty⟩, ⟨12, .vk, none, none, .empty⟩] := by rfl

example : (sParams true false true (pieces (exK ++ (some (⟨11, .vp, none, none, .empty⟩ : Param)).toList ++ exKo ++
    (some (⟨12, .vk, none, none, .empty⟩ : Param)).toList))).map (·.map Param.bare) =
    .ok [⟨1, .pk, none, none, .empty⟩, ⟨2, .pk, some 3, some 40, .empty⟩, ⟨11, .vp, none, none, .empty⟩,
         ⟨4, .ko, none, some 41, .empty⟩, ⟨3, .ko, some 4, none, .empty⟩, ⟨12, .vk, none, none, .empty⟩] := by rfl

example : (sParams true true false (pieces (exK ++ (some (⟨11, .vp, none, none, .empty⟩ : Param)).toList ++ exKo ++
    (some (⟨12, .vk, none, none, .empty⟩ : Param)).toList))).map (·.map Param.bare) =
    .ok (exK ++ [⟨11, .vp, none, none, .empty⟩] ++ exKo ++ [⟨12, .vk, none, none, .empty⟩]) := by rfl

end SV
