/-
  Props/Defs.lean — the shared vocabulary of the property statements.

  Everything here is *specification* (read it before trusting a theorem):
  what a valid signature is, what a call shape is, what "non-colliding" means,
  what "role-consistent" and "name-aligned" inputs are.
-/
import Sigverif.Model.Mask
import Sigverif.Model.Bind
namespace SV

/-- A valid signature: what `inspect.Signature(...)` accepts (kinds in order, no required
    positional after a defaulted one, unique names) and at most one `*` and one `**`
    parameter (true of every signature that comes from a `def`). -/
def validOk (ps : List Param) : Bool :=
  match validate ps with | .ok _ => true | .error _ => false

def WF (ps : List Param) : Prop :=
  validOk ps = true ∧
  (ps.filter (fun p => p.kind = .vp)).length ≤ 1 ∧
  (ps.filter (fun p => p.kind = .vk)).length ≤ 1

instance (ps : List Param) : Decidable (WF ps) := by unfold WF; exact inferInstance

/-- names of *all* parameters (star parameters included) -/
def allNames (ps : List Param) : List Nat := names ps

/-- "every keyword the call uses is either a keyword-passable parameter of the result or is
    not a parameter name of any input" -/
def nonColl (R : List Param) (inputs : List (List Param)) (K : List Nat) : Prop :=
  ∀ k ∈ K, k ∈ kwNames R ∨ ∀ s ∈ inputs, k ∉ allNames s

/-- the reading of non-colliding when the operation raised (there is no result) -/
def foreignTo (inputs : List (List Param)) (K : List Nat) : Prop :=
  ∀ k ∈ K, ∀ s ∈ inputs, k ∉ allNames s

/-- a call passes its arguments all positionally or all by keyword -/
def pureCall (n : Nat) (K : List Nat) : Prop := n = 0 ∨ K = []

/-- positional index of a name among the positional parameters -/
def posIndex (ps : List Param) (x : Nat) : Option Nat :=
  (names (positionals ps)).idxOf? x

/-- kind class of a named parameter for role purposes -/
def kindOf (ps : List Param) (x : Nat) : Option Kind := (ps.find? (fun p => p.name = x)).map (·.kind)

/-- "every name shared between inputs denotes the same kind of parameter at the same positional
    index in each of them" -/
def roleCons (inputs : List (List Param)) : Prop :=
  ∀ s ∈ inputs, ∀ t ∈ inputs, ∀ x, x ∈ allNames s → x ∈ allNames t →
    kindOf s x = kindOf t x ∧ posIndex s x = posIndex t x

/-- "the inputs give the same name to their positional parameters position by position and shared
    names keep their role" -/
def aligned (inputs : List (List Param)) : Prop :=
  roleCons inputs ∧
  ∀ s ∈ inputs, ∀ t ∈ inputs, ∀ i : Nat, i < (positionals s).length → i < (positionals t).length →
    ((positionals s).map (·.name))[i]? = ((positionals t).map (·.name))[i]?

/-- optional positional parameters form a suffix (true of every valid signature) -/
def defaultsSuffix (ps : List Param) : Prop :=
  ∀ i j : Nat, i < j → ∀ p q : Param, ps[i]? = some p → ps[j]? = some q → p.dflt.isSome → q.dflt.isSome

/-- every bucket only holds parameters of its kind -/
structure BucketKinds (s : Sorted) : Prop where
  pos : ∀ p ∈ s.pos, p.kind = .po
  pok : ∀ p ∈ s.pok, p.kind = .pk
  va  : ∀ p, s.va = some p → p.kind = .vp
  kwo : ∀ p ∈ s.kwo, p.kind = .ko
  vk  : ∀ p, s.vk = some p → p.kind = .vk

/-- equality of signatures as `inspect.Signature.__eq__` sees parameters: the order of
    keyword-only parameters is not significant, everything else is. -/
def SigEquiv (a b : USig) : Prop :=
  a.params.filter (fun p => p.kind ≠ .ko) = b.params.filter (fun p => p.kind ≠ .ko) ∧
  (a.params.filter (fun p => p.kind = .ko)).Perm (b.params.filter (fun p => p.kind = .ko)) ∧
  a.ret = b.ret ∧ a.uret = b.uret

end SV
