/-
  Props/C05Total.lean — property C07: the AST walker is total.
  `visitor_total` (statement identical to the one in Props/C05.lean) + non-vacuity examples;
  helper lemmas in Sigverif/Lemmas/C05Total*.lean.
-/
import Sigverif.Model.Grammar
import Sigverif.Model.Discovery
import Sigverif.Lemmas.C05TotalLoop
namespace SV

/-- the walker never fails on a function definition, whatever the body contains -/
theorem visitor_total (po args kwo : List Nat) (va vk : Option Nat) (body : TreeList) :
    ∃ cs, runVisitor (.fdef po args kwo va vk body) = .ok cs := by
  rw [runVisitor]
  obtain ⟨new, hnew, hsz⟩ := C05T.visitList_ext body
    (processParams { nss := [{ parent := none }] } po args kwo va vk true)
  obtain ⟨st', hst'⟩ := C05T.revisitLoop_some (body.size + 1) 0
    (visitList body (processParams { nss := [{ parent := none }] } po args kwo va vk true))
    (by
      rw [hnew, C05T.processParams_revisit]
      simp only [List.nil_append, List.drop_zero]
      omega)
  simp only [hst']
  exact ⟨_, rfl⟩

/-! ### non-vacuity

`def g(a, *args, **kwargs): (lambda x: f(h(*args), k=o.m(**kwargs)))` — the outer call `f(…)` is
queued by the main pass (1 entry); processing it queues the two calls nested in its arguments, so
the queue GROWS to 3 entries while the loop runs: 2 iterations do not suffice, 3 do, and the fuel
`body.size + 1 = 11` given by `runVisitor` is enough.  All three calls are reported. -/
def exNested : TreeList :=
  .cons (.fdef [] [5] [] none none
    (.cons (.call (.name 21 .load)
        (.plain (.call (.name 22 .load) (.starred (.name 11 .load) .nil) .nil) .nil)
        (.kw 7 (.call (.attr (.name 23 .load) 3) .nil (.dstar (.name 12 .load) .nil)) .nil))
      .nil)) .nil

def exNestedSt0 : VState :=
  visitList exNested (processParams { nss := [{ parent := none }] } [] [1] [] (some 11) (some 12) true)

example : exNested.size = 10 := by decide
example : exNestedSt0.revisit.length = 1 := by decide
example : (revisitLoop 2 0 exNestedSt0).isSome = false := by decide
example : (revisitLoop 3 0 exNestedSt0).map (·.revisit.length) = some 3 := by decide
example : (runVisitor (.fdef [] [1] [] (some 11) (some 12) exNested)).toOption.map List.length
    = some 3 := by decide
example : (runVisitor (.fdef [] [1] [] (some 11) (some 12) exNested)).toOption.map
    (·.map (fun c => (c.wrapped, c.useVa, c.useVk)))
    = some [(.nm 21, false, false), (.nm 22, true, false), (.attr (.nm 23) 3, false, true)] := by
  decide
/-- a root that is not a function definition is the only way to fail -/
example : runVisitor (.other exNested) = .error .attributeError := rfl

end SV
