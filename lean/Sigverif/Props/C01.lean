/-
  Props/C01.lean — property C01 (merge soundness): ONLY property theorems + non-vacuity examples.

  C01: For any signatures s1..sn, every call that merge(s1..sn) accepts and that passes its
  arguments all positionally or all by keyword is accepted by each si.  If in addition every name
  shared between inputs denotes the same kind of parameter at the same positional index in each of
  them, the same holds for every non-colliding call.  This holds for any number of inputs.
-/
import Sigverif.Props.Defs
import Sigverif.Lemmas.C01Sound
import Sigverif.Lemmas.C01Eval
import Sigverif.Lemmas.C01RFinal
namespace SV

/-- all-positional calls -/
theorem merge_sound_pos (ss : List USig) (R : USig) (n : Nat)
    (hwf : ∀ s ∈ ss, WF s.params) (hR : merge ss = .ok R)
    (hacc : accepts R.params n [] = true) :
    ∀ s ∈ ss, accepts s.params n [] = true := by
  obtain ⟨s0, ss', res, rfl, hf, hv, hp⟩ := merge_inv hR
  have hv0 := WF_validate (hwf s0 List.mem_cons_self)
  have S0 := sortParams_facts s0 hv0
  obtain ⟨bk, _, hpos, _⟩ := mergeFold_sound ss' _ res S0.bk S0.nd
    (fun t ht => WF_validate (hwf t (List.mem_cons_of_mem _ ht))) hf
  rw [hp] at hacc
  obtain ⟨h0, hrest⟩ := hpos n (result_pos bk hv hacc)
  intro s hs
  rcases List.mem_cons.1 hs with rfl | hs
  · exact input_pos _ hv0 h0
  · exact input_pos s (WF_validate (hwf s (List.mem_cons_of_mem _ hs))) (hrest s hs)

/-- all-keyword calls -/
theorem merge_sound_kw (ss : List USig) (R : USig) (K : List Nat)
    (hwf : ∀ s ∈ ss, WF s.params) (hK : K.Nodup) (hR : merge ss = .ok R)
    (hacc : accepts R.params 0 K = true) :
    ∀ s ∈ ss, accepts s.params 0 K = true := by
  obtain ⟨s0, ss', res, rfl, hf, hv, hp⟩ := merge_inv hR
  have hv0 := WF_validate (hwf s0 List.mem_cons_self)
  have S0 := sortParams_facts s0 hv0
  obtain ⟨bk, _, _, hkw⟩ := mergeFold_sound ss' _ res S0.bk S0.nd
    (fun t ht => WF_validate (hwf t (List.mem_cons_of_mem _ ht))) hf
  rw [hp] at hacc
  obtain ⟨h0, hrest⟩ := hkw K (result_kw bk hv hacc)
  intro s hs
  rcases List.mem_cons.1 hs with rfl | hs
  · exact input_kw _ hv0 hK h0
  · exact input_kw s (WF_validate (hwf s (List.mem_cons_of_mem _ hs))) hK (hrest s hs)

/-- the headline statement for pure calls -/
theorem merge_sound_pure (ss : List USig) (R : USig) (n : Nat) (K : List Nat)
    (hwf : ∀ s ∈ ss, WF s.params) (hK : K.Nodup) (hp : pureCall n K) (hR : merge ss = .ok R)
    (hacc : accepts R.params n K = true) :
    ∀ s ∈ ss, accepts s.params n K = true := by
  rcases hp with rfl | rfl
  · exact merge_sound_kw ss R K hwf hK hR hacc
  · exact merge_sound_pos ss R n hwf hR hacc

/-- role-consistent inputs: every non-colliding call (STRETCH GOAL; prove after the pure ones) -/
theorem merge_sound_roles (ss : List USig) (R : USig) (n : Nat) (K : List Nat)
    (hwf : ∀ s ∈ ss, WF s.params) (hK : K.Nodup)
    (hrc : roleCons (ss.map (·.params)))
    (hR : merge ss = .ok R)
    (hnc : nonColl R.params (ss.map (·.params)) K)
    (hacc : accepts R.params n K = true) :
    ∀ s ∈ ss, accepts s.params n K = true :=
  merge_sound_roles_core ss R n K (fun s hs => WF_validate (hwf s hs)) hK hrc hR hnc hacc

/-! non-vacuity -/
def d1a : USig := { params := [⟨2, .pk, some 1, none, .empty⟩, ⟨3, .pk, some 1, none, .empty⟩], src := [(2,[1]),(3,[1])], depths := [(1,0)] }
def d1b : USig := { params := [⟨1, .pk, none, none, .empty⟩, ⟨3, .pk, none, none, .empty⟩, ⟨11, .vp, none, none, .empty⟩], src := [(1,[2]),(3,[2]),(11,[2])], depths := [(2,0)] }
def d1c : USig := { params := [⟨12, .vk, none, none, .empty⟩], src := [(12,[3])], depths := [(3,0)] }
def d1d : USig := { params := [⟨11, .vp, none, none, .empty⟩, ⟨12, .vk, none, none, .empty⟩], src := [(11,[3]),(12,[3])], depths := [(3,0)] }
example : ∀ s ∈ [d1a, d1b, d1c, d1d], WF s.params := by decide
/- The example of the skeleton
     `∃ R, merge [d1a, d1b, d1c] = .ok R ∧ accepts R.params 2 [] = true ∧ accepts R.params 0 [3] = false`
   is FALSE in the model: `merge [d1a, d1b]` is `(b, /, c)` with both parameters required, and a
   required positional-only parameter cannot be merged with `(**kwargs)`. -/
example : merge [d1a, d1b, d1c] = .error .incompatible := by
  simp only [d1a, d1b, d1c]; merge_eval
/-- the D1 witness with `(*args, **kwargs)` as third signature merges (to `(b, /, c)`), the
    hypotheses of the three theorems are satisfiable and the conclusion is not trivial -/
example : ∃ R, merge [d1a, d1b, d1d] = .ok R ∧ accepts R.params 2 [] = true ∧
    accepts R.params 0 [3] = false ∧ accepts R.params 3 [] = false := by
  simp only [d1a, d1b, d1d]; merge_eval; decide
/-- an accepted all-keyword call of a three-way merge -/
def kwa : USig := { params := [⟨1, .pk, none, none, .empty⟩, ⟨5, .ko, some 7, none, .empty⟩, ⟨12, .vk, none, none, .empty⟩] }
def kwb : USig := { params := [⟨1, .pk, some 4, none, .empty⟩, ⟨6, .ko, none, none, .empty⟩, ⟨12, .vk, none, none, .empty⟩] }
def kwc : USig := { params := [⟨1, .pk, none, none, .empty⟩, ⟨11, .vp, none, none, .empty⟩, ⟨12, .vk, none, none, .empty⟩] }
example : ∀ s ∈ [kwa, kwb, kwc], WF s.params := by decide
example : [1, 6, 9].Nodup ∧ pureCall 0 [1, 6, 9] := ⟨by decide, Or.inl rfl⟩
example : ∃ R, merge [kwa, kwb, kwc] = .ok R ∧ accepts R.params 0 [1, 6, 9] = true ∧
    accepts R.params 0 [1] = false ∧ accepts R.params 1 [] = false := by
  simp only [kwa, kwb, kwc]; merge_eval; decide

/-- `merge_sound_roles`: the three signatures above are role-consistent, and the merged signature
    accepts the mixed, non-colliding call `(1, [6, 9])` (9 is foreign, 6 is keyword-only) -/
example : roleCons ([kwa, kwb, kwc].map (·.params)) := by
  have h : ∀ s ∈ [kwa, kwb, kwc].map (·.params), ∀ t ∈ [kwa, kwb, kwc].map (·.params),
      ∀ x ∈ allNames s, x ∈ allNames t → kindOf s x = kindOf t x ∧ posIndex s x = posIndex t x := by
    decide
  exact fun s hs t ht x hx hy => h s hs t ht x hx hy
example : ∃ R, merge [kwa, kwb, kwc] = .ok R ∧
    nonColl R.params ([kwa, kwb, kwc].map (·.params)) [6, 9] ∧
    accepts R.params 1 [6, 9] = true ∧ accepts R.params 1 [9] = false ∧
    accepts R.params 1 [1, 6] = false := by
  simp only [kwa, kwb, kwc]; merge_eval; unfold nonColl; decide

end SV
