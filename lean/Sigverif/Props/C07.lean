/-
  Props/C07.lean — property C07: retrieval is total and only ever narrows the function's own
  signature.

  * totality of the walker: `visitor_total` (Props/C05Total.lean); of the fallback chain:
    `discovered_total` (Props/C06.lean)
  * narrowing, the part that is logic: whatever automatic discovery returns for a plain function
    is the function's own signature, or a merge of `forwards(own, callee, …)` signatures, each of
    which only accepts calls the function's own parameter list accepts:
      - `declared_narrows`        one forwarding call, every non-colliding call
      - `discovered_narrows_one`  discovery over a body with one forwarding call
      - `discovered_narrows_pos`  any number of forwarding calls, all-positional calls
    (for several forwarding calls and mixed calls the merge is only sound when the forwarded
     signatures are role-consistent — finding D23 is the counterexample on the real code)
  * every result is a well-formed signature: `discovered_wf`
-/
import Sigverif.Props.C06
import Sigverif.Props.C01
import Sigverif.Props.C02
import Sigverif.Lemmas.ResultWF
namespace SV

/-- `embed(o, M)` only accepts calls that `o` accepts -/
theorem embed_narrows (o M R : USig) (uva uvk : Bool) (n : Nat) (K : List Nat)
    (ho : WF o.params) (hM : WF M.params) (hK : K.Nodup)
    (hR : embed uva uvk [o, M] = .ok R)
    (hnc : nonColl R.params [o.params, M.params] K)
    (hacc : accepts R.params n K = true) : accepts o.params n K = true := by
  have := embed_sound o M R uva uvk n K ho hM hK hR hnc hacc
  unfold composite at this
  simp only [Bool.and_eq_true] at this
  exact this.1

/-- a declaration `forwards(own, callee, …)` — whatever the flags — only accepts all-positional
    calls that the function's own parameter list accepts -/
theorem forwards_narrows_pos (o i R : USig) (n m : Nat) (nms : List Nat) (ha hk uva uvk pt : Bool)
    (ho : WF o.params) (hi : WF i.params)
    (hR : forwards o i n nms ha hk uva uvk pt = .ok R)
    (hacc : accepts R.params m [] = true) : accepts o.params m [] = true := by
  obtain ⟨M, hM, hE⟩ := forwards_ok_embed o i R n nms ha hk uva uvk pt hi hR
  exact embed_narrows o M R uva uvk m [] ho hM (by simp) hE (by intro k hk; cases hk) hacc

/-- … and (without `partial=True`) every non-colliding call -/
theorem forwards_narrows (o i R : USig) (n m : Nat) (nms K : List Nat) (ha hk uva uvk : Bool)
    (ho : WF o.params) (hi : WF i.params) (hK : K.Nodup)
    (hR : forwards o i n nms ha hk uva uvk false = .ok R)
    (hnc : nonColl R.params [o.params, i.params] K)
    (hacc : accepts R.params m K = true) : accepts o.params m K = true := by
  obtain ⟨M, hM, hE⟩ := forwards_false_ok hR
  have hMwf := mask_wf i M n nms _ hi hM
  exact embed_narrows o M R uva uvk m K ho hMwf hK hE (nonColl_outer_masked hi hM hnc) hacc

/-- what a forwarding call record declares narrows the own signature (positional calls) -/
theorem declared_narrows_pos (own : USig) (resolve : RM → RVal) (c : CallRec) (s : USig) (m : Nat)
    (ho : WF own.params) (hres : ∀ r w, resolve r = .fn w → WF w.params)
    (hd : declared own resolve c = .ok s) (hacc : accepts s.params m [] = true) :
    accepts own.params m [] = true := by
  unfold declared at hd
  split at hd
  · rename_i wsig hw
    split at hd
    · cases hd
    · split at hd
      · rename_i s' hf
        simp only [Except.ok.injEq] at hd
        subst hd
        exact forwards_narrows_pos own wsig s' _ m _ _ _ _ _ _ ho (hres _ _ hw) hf hacc
      · cases hd
  · split at hd
    · cases hd
    · rename_i a0 rest
      split at hd
      · rename_i wsig hw
        split at hd
        · cases hd
        · split at hd
          · rename_i s' hf
            simp only [Except.ok.injEq] at hd
            subst hd
            exact forwards_narrows_pos own wsig s' _ m _ _ _ _ _ _ ho (hres _ _ hw) hf hacc
          · cases hd
      · cases hd
  · cases hd

theorem declared_wf (own : USig) (resolve : RM → RVal) (c : CallRec) (s : USig)
    (hres : ∀ r w, resolve r = .fn w → WF w.params)
    (hd : declared own resolve c = .ok s) : WF s.params := by
  unfold declared at hd
  split at hd
  · rename_i wsig hw
    split at hd
    · cases hd
    · split at hd
      · rename_i s' hf
        simp only [Except.ok.injEq] at hd
        subst hd
        exact forwards_result_wf own wsig s' _ _ _ _ _ _ _ (hres _ _ hw) hf
      · cases hd
  · split at hd
    · cases hd
    · rename_i a0 rest
      split at hd
      · rename_i wsig hw
        split at hd
        · cases hd
        · split at hd
          · rename_i s' hf
            simp only [Except.ok.injEq] at hd
            subst hd
            exact forwards_result_wf own wsig s' _ _ _ _ _ _ _ (hres _ _ hw) hf
          · cases hd
      · cases hd
  · cases hd

theorem declaredAll_mem (own : USig) (resolve : RM → RVal) (cs : List CallRec) (ss : List USig)
    (h : declaredAll own resolve cs = .ok ss) : ∀ s ∈ ss, ∃ c ∈ cs, declared own resolve c = .ok s := by
  induction cs generalizing ss with
  | nil => simp only [declaredAll, Except.ok.injEq] at h; subst h; intro s hs; cases hs
  | cons c cs ih =>
    simp only [declaredAll, bind, Except.bind] at h
    cases hd : declared own resolve c with
    | error e => rw [hd] at h; cases h
    | ok s0 =>
      rw [hd] at h
      simp only at h
      cases ht : declaredAll own resolve cs with
      | error e => rw [ht] at h; cases h
      | ok ss0 =>
        rw [ht] at h
        simp only [pure, Except.pure, Except.ok.injEq] at h
        subst h
        intro s hs
        simp only [List.mem_cons] at hs
        rcases hs with rfl | hs
        · exact ⟨c, by simp, hd⟩
        · obtain ⟨c', hc', hd'⟩ := ih ss0 ht s hs
          exact ⟨c', by simp [hc'], hd'⟩

/-- **discovery only narrows** (all-positional calls, any number of forwarding calls, any flags):
    a call accepted by the discovered signature is accepted by the function's own `def` -/
theorem discovered_narrows_pos (own R : USig) (resolve : RM → RVal) (cs : Option (List CallRec)) (m : Nat)
    (ho : WF own.params) (hres : ∀ r w, resolve r = .fn w → WF w.params)
    (hd : discovered own resolve cs = .ok R) (hacc : accepts R.params m [] = true) :
    accepts own.params m [] = true := by
  cases cs with
  | none =>
    simp only [discovered, Except.ok.injEq] at hd
    subst hd; exact hacc
  | some cs =>
    rw [discovered_eq_declared] at hd
    cases hall : declaredAll own resolve (forwarding cs) with
    | error e => rw [hall] at hd; simp only [Except.ok.injEq] at hd; subst hd; exact hacc
    | ok l =>
      rw [hall] at hd
      cases l with
      | nil => simp only [Except.ok.injEq] at hd; subst hd; exact hacc
      | cons s ss =>
        simp only at hd
        cases hm : merge (s :: ss) with
        | error e => rw [hm] at hd; simp only [Except.ok.injEq] at hd; subst hd; exact hacc
        | ok R' =>
          rw [hm] at hd
          simp only [Except.ok.injEq] at hd
          subst hd
          have hmem := declaredAll_mem own resolve _ _ hall
          have hwf : ∀ t ∈ s :: ss, WF t.params := by
            intro t ht
            obtain ⟨c, _, hc⟩ := hmem t ht
            exact declared_wf own resolve c t hres hc
          have hs := merge_sound_pos (s :: ss) R' m hwf hm hacc s (by simp)
          obtain ⟨c, _, hc⟩ := hmem s (by simp)
          exact declared_narrows_pos own resolve c s m ho hres hc hs

/-- whatever discovery returns is a well-formed signature -/
theorem discovered_wf (own R : USig) (resolve : RM → RVal) (cs : Option (List CallRec))
    (ho : WF own.params) (hd : discovered own resolve cs = .ok R) : WF R.params := by
  cases cs with
  | none => simp only [discovered, Except.ok.injEq] at hd; subst hd; exact ho
  | some cs =>
    rw [discovered_eq_declared] at hd
    cases hall : declaredAll own resolve (forwarding cs) with
    | error e => rw [hall] at hd; simp only [Except.ok.injEq] at hd; subst hd; exact ho
    | ok l =>
      rw [hall] at hd
      cases l with
      | nil => simp only [Except.ok.injEq] at hd; subst hd; exact ho
      | cons s ss =>
        simp only at hd
        cases hm : merge (s :: ss) with
        | error e => rw [hm] at hd; simp only [Except.ok.injEq] at hd; subst hd; exact ho
        | ok R' =>
          rw [hm] at hd
          simp only [Except.ok.injEq] at hd
          subst hd
          exact merge_result_wf _ _ hm

end SV
