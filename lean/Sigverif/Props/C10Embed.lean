/-
  Props/C10Embed.lean — property C10 for `embed` (and hence `forwards` = `embed [outer, mask inner]`):
  where the parameters of the two signatures end up, which kinds change, and when defaults go.

  With `I` = the inner signature as it is after forwarding the outer stars into it
  (`mergeStep inner {stars}` — what is left of the inner signature to show):

  * `embed_positionals`     the positional parameters of the result are the outer ones, then `I`'s
  * `embed_outer_first`     in names: outer positionals first, in their own order, then the inner ones
  * `embed_outer_kinds`     outer positional-or-keyword parameters become positional-only exactly when
                            a positional-only inner parameter follows them — nothing else changes kind
  * `embed_defaults_dropped_iff`  the outer positionals lose their defaults exactly when the first
                            inner positional is required; otherwise they are kept verbatim
  * `forwards_outer_first`   the same for `forwards` (without `partial=True`), whose inner operand is
                            the masked inner signature
  (keyword-only parameters: outer ones first as well — `pupdate (pupdate [] O.kwo) I.kwo` in
   `embedStep_ok`; not restated as a theorem of its own.)
-/
import Sigverif.Props.C08
import Sigverif.Lemmas.ResultWF
import Sigverif.Lemmas.C02View
import Sigverif.Lemmas.C04
namespace SV

/-- inversion of a two-signature `embed` down to the buckets -/
theorem embed2_layout (o i R : USig) (uva uvk : Bool) (h : embed uva uvk [o, i] = .ok R) :
    ∃ I, mergeStep (sortParams i) { va := if uva then (sortParams o).va else none,
                                    vk := if uvk then (sortParams o).vk else none } = .ok I ∧
      positionals R.params = ePosC (sortParams o) I ++ ePokC (sortParams o) I := by
  simp only [embed, embedFold, bind, Except.bind] at h
  split at h
  · cases h
  · rename_i r hfold
    split at hfold
    · rename_i acc hstep
      simp only [Except.ok.injEq] at hfold
      subst hfold
      obtain ⟨e1, -, -⟩ := applyParams_ok_C08 h
      obtain ⟨I, hI, hacc⟩ := embedStep_ok _ _ _ _ _ _ hstep
      refine ⟨I, hI, ?_⟩
      have bk : BucketKinds acc := embedFold_kinds uva uvk _ _ 1 [i] (sortParams_bucketKinds o)
        (by simp [embedFold, hstep])
      rw [e1, positionals_all_C02 acc bk, hacc]
    · cases hfold

theorem names_clearDefaults_C10 (l : List Param) : names (clearDefaults l) = names l := by
  simp [names, clearDefaults, List.map_map, Function.comp_def, Param.withDflt]

theorem names_cdIf_C10 (b : Bool) (l : List Param) : names (cdIf b l) = names l := by
  cases b <;> simp [cdIf, names_clearDefaults_C10]

theorem names_mapKind_C10 (k : Kind) (l : List Param) : names (l.map (·.withKind k)) = names l := by
  simp [names, List.map_map, Function.comp_def, Param.withKind]

/-- **outer first**: the names of the positional parameters of the result are those of the outer
    signature, in order, followed by those the inner one still shows -/
theorem embed_outer_first (o i R : USig) (uva uvk : Bool) (ho : WF o.params) (h : embed uva uvk [o, i] = .ok R) :
    ∃ I, mergeStep (sortParams i) { va := if uva then (sortParams o).va else none,
                                    vk := if uvk then (sortParams o).vk else none } = .ok I ∧
      names (positionals R.params) = names (positionals o.params) ++ names (I.pos ++ I.pok) := by
  obtain ⟨I, hI, hl⟩ := embed2_layout o i R uva uvk h
  refine ⟨I, hI, ?_⟩
  have hop : positionals o.params = (sortParams o).pos ++ (sortParams o).pok := by
    rw [← sortParams_all_Laws o ho]
    exact positionals_all_C02 _ (sortParams_bucketKinds o)
  rw [hl, hop]
  unfold ePosC ePokC
  by_cases he : I.pos.isEmpty = true
  · have : I.pos = [] := List.isEmpty_iff.1 he
    simp [he, this, names_append_C02, names_cdIf_C10]
  · simp [he, names_append_C02, names_cdIf_C10, names_mapKind_C10, List.append_assoc]

/-- **defaults**: the outer positionals keep their defaults verbatim unless the first positional the
    inner signature contributes is required — then all of them lose theirs -/
theorem embed_defaults_dropped_iff (o i R : USig) (uva uvk : Bool) (h : embed uva uvk [o, i] = .ok R) :
    ∃ I, mergeStep (sortParams i) { va := if uva then (sortParams o).va else none,
                                    vk := if uvk then (sortParams o).vk else none } = .ok I ∧
      ((innerFirstRequired I = false ∧
          positionals R.params = (if I.pos.isEmpty then (sortParams o).pos ++ (sortParams o).pok
                                  else (sortParams o).pos ++ (sortParams o).pok.map (·.withKind .po)) ++ (I.pos ++ I.pok)) ∨
       (innerFirstRequired I = true ∧
          positionals R.params = clearDefaults (if I.pos.isEmpty then (sortParams o).pos ++ (sortParams o).pok
                                  else (sortParams o).pos ++ (sortParams o).pok.map (·.withKind .po)) ++ (I.pos ++ I.pok))) := by
  obtain ⟨I, hI, hl⟩ := embed2_layout o i R uva uvk h
  refine ⟨I, hI, ?_⟩
  rw [hl]
  unfold ePosC ePokC
  cases hb : innerFirstRequired I <;> by_cases he : I.pos.isEmpty = true
  · have : I.pos = [] := List.isEmpty_iff.1 he
    left; simp [he, this, cdIf]
  · left; simp [he, cdIf, List.append_assoc]
  · have : I.pos = [] := List.isEmpty_iff.1 he
    right; simp [he, this, cdIf, clearDefaults]
  · right; simp [he, cdIf, clearDefaults, List.append_assoc]

/-- **kinds**: the only kind change `embed` makes to an outer parameter is positional-or-keyword to
    positional-only, and it makes it exactly when the inner signature contributes a positional-only
    parameter (which must come after every outer positional) -/
theorem embed_outer_kinds (o i R : USig) (uva uvk : Bool) (h : embed uva uvk [o, i] = .ok R) :
    ∃ I, mergeStep (sortParams i) { va := if uva then (sortParams o).va else none,
                                    vk := if uvk then (sortParams o).vk else none } = .ok I ∧
      (positionals R.params).map (·.kind) =
        ((sortParams o).pos.map (·.kind)) ++
        ((sortParams o).pok.map (fun p => if I.pos.isEmpty then p.kind else .po)) ++ (I.pos ++ I.pok).map (·.kind) := by
  obtain ⟨I, hI, hl⟩ := embed2_layout o i R uva uvk h
  refine ⟨I, hI, ?_⟩
  rw [hl]
  unfold ePosC ePokC
  by_cases he : I.pos.isEmpty = true
  · have : I.pos = [] := List.isEmpty_iff.1 he
    cases innerFirstRequired I <;>
      simp [he, this, cdIf, clearDefaults, List.map_map, Function.comp_def, Param.withDflt]
  · cases innerFirstRequired I <;>
      simp [he, cdIf, clearDefaults, List.map_map, Function.comp_def, Param.withDflt, Param.withKind, List.append_assoc]

/-- `forwards`: the wrapper's own positionals come first, then what the masked callee still shows -/
theorem forwards_outer_first (o i R : USig) (n : Nat) (nms : List Nat) (ha hk uva uvk : Bool) (ho : WF o.params)
    (h : forwards o i n nms ha hk uva uvk false = .ok R) :
    ∃ M I, mask i n nms { args := ha, kwargs := hk } = .ok M ∧
      mergeStep (sortParams M) { va := if uva then (sortParams o).va else none,
                                 vk := if uvk then (sortParams o).vk else none } = .ok I ∧
      names (positionals R.params) = names (positionals o.params) ++ names (I.pos ++ I.pok) := by
  obtain ⟨M, hM, hE⟩ := forwards_false_ok h
  obtain ⟨I, hI, hn⟩ := embed_outer_first o M R uva uvk ho hE
  exact ⟨M, I, hM, hI, hn⟩

end SV
