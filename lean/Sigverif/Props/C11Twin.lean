/-
  Props/C11Twin.lean — the algebra commutes with any map on parameter METADATA:
  twin invariance (C11, second sentence) and plain-input invariance (C15, last sentence).
  ONLY property theorems + non-vacuity examples; proofs are in Lemmas/C11T*.lean.

  C11: "Computing on functions compiled with `from __future__ import annotations` and then calling
        evaluated() gives the same result as computing on eagerly annotated twins."
  C15: "Passing plain inspect.Signature objects yields the same parameters as passing upgraded ones."

  The control flow of merge / embed / mask / forwards only looks at names, kinds and defaults of
  parameters; annotations are touched only inside `_concile_meta` (`concile`).  Hence for any map
  `f : Param → Param` that keeps name, kind and default (`MetaMap f`) and commutes with `concile` on
  the parameters that can occur, every operation commutes with mapping `f` over the parameters of the
  inputs — results AND errors, provenance (`src`, `depths`) included, any number of inputs.
  `mask` never conciliates: it commutes with every metadata map unconditionally.

  Vocabulary (defined in Lemmas/C11TBasic.lean, C11TMerge.lean, C11TMask.lean, C11TRet.lean,
  C11TTwin.lean because the lemma files need it; pinned below by `rfl` examples):
    MetaMap f        f keeps name / kind / default and commutes with replace(kind=…) / replace(default=…)
    mapSig f s       map f over the parameters of s; src, depths, ret, uret untouched
    mapRet g s       apply g to the pair (ret, uret) of s; nothing else changes
    ConcComm f P     ∀ a b, P a → P b → f (concile a b) = concile (f a) (f b)
    FreshFix f       f fixes the fresh keyword-only parameter `name=value` that partial mode creates
    twinSig env s    the eagerly compiled twin of s: `twin env` (Props/C11.lean) on every parameter and
                     the same on the return annotation
    eraseSig s       the plain `inspect.Signature` under s: every upgraded annotation (parameters and
                     return) is `EmptyAnnotation`; names, kinds, defaults, raw annotations are kept
    FaithfulSet env ps   `Faithful env l r` (Props/C11.lean) for all l, r ∈ ps

  The signature-level return annotation is copied verbatim from the first (merge / embed / mask) or
  outer (forwards) input: `*_ret_commute`.  The twin / plain corollaries map both components.

  Twin invariance is REFUTED at full strength for merge / embed / forwards (finding D10: conciliation
  compares spellings; `*_twin_invariant_refuted`) and PROVED under faithful spellings
  (`*_twin_invariant_partial`); for mask it holds unconditionally.  Plain-input invariance holds
  unconditionally for all four operations.
-/
import Sigverif.Lemmas.C11TEval
import Sigverif.Props.C11
namespace SV
set_option linter.unusedVariables false

/-! ## the vocabulary, pinned -/

example (f : Param → Param) : MetaMap f ↔
    ((∀ p, (f p).name = p.name) ∧ (∀ p, (f p).kind = p.kind) ∧ (∀ p, (f p).dflt = p.dflt) ∧
     (∀ p k, f (p.withKind k) = (f p).withKind k) ∧ (∀ p d, f (p.withDflt d) = (f p).withDflt d)) :=
  ⟨fun h => ⟨h.name, h.kind, h.dflt, h.withKind, h.withDflt⟩, fun ⟨a, b, c, d, e⟩ => ⟨a, b, c, d, e⟩⟩
example (f : Param → Param) (s : USig) : mapSig f s = { s with params := s.params.map f } := rfl
example (g : RetMap) (s : USig) :
    mapRet g s = { s with ret := (g (s.ret, s.uret)).1, uret := (g (s.ret, s.uret)).2 } := rfl
example (f : Param → Param) (P : Param → Prop) :
    ConcComm f P ↔ ∀ a b, P a → P b → f (concile a b) = concile (f a) (f b) := Iff.rfl
example (f : Param → Param) :
    FreshFix f ↔ ∀ n v, f { name := n, kind := .ko, dflt := some v } = { name := n, kind := .ko, dflt := some v } :=
  Iff.rfl
example (p : Param) : erase p = { p with uann := .empty } := rfl
example (s : USig) : eraseSig s = { s with params := s.params.map erase, uret := .empty } := rfl
example (env : Nat → Nat → Nat) (s : USig) :
    (twinSig env s).params = s.params.map (twin env) ∧
    (twinSig env s).ret = sourceValue env s.uret ∧
    sourceValue env (twinSig env s).uret = sourceValue env s.uret ∧
    (twinSig env s).src = s.src ∧ (twinSig env s).depths = s.depths := by
  refine ⟨rfl, ?_, ?_, rfl, rfl⟩ <;>
    (simp only [twinSig, mapRet, mapSig, twinRet]; cases sourceValue env s.uret <;> rfl)
example (env : Nat → Nat → Nat) (ps : List Param) :
    FaithfulSet env ps ↔ ∀ l ∈ ps, ∀ r ∈ ps, Faithful env l r := Iff.rfl

/-! ## GENERIC: every operation commutes with a metadata map -/

/-- **merge**, any number of inputs, results and errors: if `P` is an invariant of the algebra
    (`ClosedP P`), holds of all input parameters, and `f` commutes with `concile` on `P`-parameters,
    then merging the `f`-mapped inputs gives the `f`-mapped result (same provenance, same error). -/
theorem merge_map_commute (f : Param → Param) (hf : MetaMap f) (P : Param → Prop) (hc : ClosedP P)
    (hcomm : ∀ a b, P a → P b → f (concile a b) = concile (f a) (f b))
    (ss : List USig) (hin : ∀ s ∈ ss, AllP P s.params) :
    merge (ss.map (mapSig f)) = (merge ss).map (mapSig f) := by
  exact x11_merge_map hf hc hcomm ss hin

/-- **embed**, any number of inputs, both flags -/
theorem embed_map_commute (f : Param → Param) (hf : MetaMap f) (P : Param → Prop) (hc : ClosedP P)
    (hcomm : ∀ a b, P a → P b → f (concile a b) = concile (f a) (f b))
    (uva uvk : Bool) (ss : List USig) (hin : ∀ s ∈ ss, AllP P s.params) :
    embed uva uvk (ss.map (mapSig f)) = (embed uva uvk ss).map (mapSig f) := by
  exact x11_embed_map hf hc hcomm uva uvk ss hin

/-- **mask** (plain mode) never conciliates: it commutes with EVERY metadata map, for every input
    signature (valid or not), every count, every list of names, all flags.  (`_mask` finds a parameter
    by `list.index`, i.e. by equality of parameters, which `f` need not reflect; but the parameter
    looked for is always the first of its name among those not consumed, and `f` keeps names.) -/
theorem mask_map_commute (f : Param → Param) (hf : MetaMap f)
    (sig : USig) (n : Nat) (nms : List Nat) (flags : HideFlags) :
    mask (mapSig f sig) n nms flags = (mask sig n nms flags).map (mapSig f) := by
  exact x11_mask_map hf sig n nms flags

/-- **mask in partial mode** (`signatures.signature(functools.partial(...))`): a keyword that only
    `**kwargs` accepts becomes a fresh keyword-only parameter without annotation, which `f` must fix. -/
theorem maskPartial_map_commute (f : Param → Param) (hf : MetaMap f) (hfresh : FreshFix f)
    (sig : USig) (n : Nat) (kw : List (Nat × Nat)) (pobj : Nat) :
    maskPartial (mapSig f sig) n kw pobj = (maskPartial sig n kw pobj).map (mapSig f) := by
  exact x11_maskPartial_map hf hfresh sig n kw pobj

/-- **forwards**, all flags (including `partial=True`, which re-validates the inner signature) -/
theorem forwards_map_commute (f : Param → Param) (hf : MetaMap f) (P : Param → Prop) (hc : ClosedP P)
    (hcomm : ∀ a b, P a → P b → f (concile a b) = concile (f a) (f b))
    (outer inner : USig) (n : Nat) (nms : List Nat) (hideArgs hideKwargs uva uvk partial_ : Bool)
    (ho : AllP P outer.params) (hi : AllP P inner.params) :
    forwards (mapSig f outer) (mapSig f inner) n nms hideArgs hideKwargs uva uvk partial_ =
      (forwards outer inner n nms hideArgs hideKwargs uva uvk partial_).map (mapSig f) := by
  exact x11_forwards_map hf hc hcomm outer inner n nms hideArgs hideKwargs uva uvk partial_ ho hi

/-! ### the signature-level return annotation is carried over verbatim -/

theorem merge_ret_commute (g : RetMap) (ss : List USig) :
    merge (ss.map (mapRet g)) = (merge ss).map (mapRet g) := by
  exact x11_merge_ret g ss

theorem embed_ret_commute (g : RetMap) (uva uvk : Bool) (ss : List USig) :
    embed uva uvk (ss.map (mapRet g)) = (embed uva uvk ss).map (mapRet g) := by
  exact x11_embed_ret g uva uvk ss

theorem mask_ret_commute (g : RetMap) (sig : USig) (n : Nat) (nms : List Nat) (flags : HideFlags) :
    mask (mapRet g sig) n nms flags = (mask sig n nms flags).map (mapRet g) := by
  exact x11_mask_ret g sig n nms flags

theorem maskPartial_ret_commute (g : RetMap) (sig : USig) (n : Nat) (kw : List (Nat × Nat)) (pobj : Nat) :
    maskPartial (mapRet g sig) n kw pobj = (maskPartial sig n kw pobj).map (mapRet g) := by
  exact x11_maskPartial_ret g sig n kw pobj

/-- the result of `forwards` has the return annotation of the OUTER signature; the inner one is
    dropped (so it may be changed arbitrarily: `g'`) -/
theorem forwards_ret_commute (g g' : RetMap) (outer inner : USig) (n : Nat) (nms : List Nat)
    (hideArgs hideKwargs uva uvk partial_ : Bool) :
    forwards (mapRet g outer) (mapRet g' inner) n nms hideArgs hideKwargs uva uvk partial_ =
      (forwards outer inner n nms hideArgs hideKwargs uva uvk partial_).map (mapRet g) := by
  exact x11_forwards_ret g g' outer inner n nms hideArgs hideKwargs uva uvk partial_

/-! ## C11: twin invariance -/

/-- `twin env` is a metadata map that fixes fresh parameters -/
theorem twin_is_metaMap (env : Nat → Nat → Nat) : MetaMap (twin env) ∧ FreshFix (twin env) := by
  exact ⟨twin_metaMap env, twin_fresh env⟩

/-- one conciliation commutes with eager compilation under `Faithful` — as an equality of
    PARAMETERS (strengthens `concile_twin_partial` of Props/C11.lean, which compares `evaluated`) -/
theorem concile_twin_param (env : Nat → Nat → Nat) (l r : Param) (hf : Faithful env l r) :
    twin env (concile l r) = concile (twin env l) (twin env r) := by
  exact twin_concile env l r hf

/-- REFUTATION of twin invariance at full strength (finding D10), stated on whole signatures:
    ORIGINAL STATEMENT
      theorem merge_twin_invariant (env) (ss) : merge (ss.map (twinSig env)) = (merge ss).map (twinSig env)
    fails on `def f(x: T)` in module 1 and `def g(x: T)` in module 2 where `T` is bound to different
    objects (41 / 42): the postponed merge keeps the left annotation, the eager twins drop it. -/
theorem merge_twin_invariant_refuted :
    merge ([d10L, d10R].map (twinSig d10env)) ≠ (merge [d10L, d10R]).map (twinSig d10env) := by
  exact d10_merge_twin_ne

/-- **merge, twin invariance under faithful spellings**, any number of inputs.
    ADDED HYPOTHESIS `hfaith`: the parameters of the inputs are pairwise `Faithful` w.r.t. `env`
    (they are spelled alike exactly when they denote the same object, and annotated exactly when their
    wrapper is non-empty).  Computing on the eagerly compiled twins then gives the twin of the
    result — equal parameters (not only equal `evaluated()`), equal provenance, equal return
    annotation, and the same error when the inputs are incompatible.
    ORIGINAL STATEMENT: see `merge_twin_invariant_refuted`. -/
theorem merge_twin_invariant_partial (env : Nat → Nat → Nat) (ss : List USig)
    (hfaith : ∀ l ∈ allParams ss, ∀ r ∈ allParams ss, Faithful env l r) :
    merge (ss.map (twinSig env)) = (merge ss).map (twinSig env) := by
  exact x11_merge_both (twinRet env) (twin_metaMap env) (annFrom_closed _)
    (twin_concComm env _ hfaith) ss (inputs_annFrom ss)

/-- … in the words of the property: "calling evaluated() gives the same result" -/
theorem merge_twin_evaluated_partial (env : Nat → Nat → Nat) (ss : List USig)
    (hfaith : ∀ l ∈ allParams ss, ∀ r ∈ allParams ss, Faithful env l r) :
    (merge (ss.map (twinSig env))).map (fun R => R.params.map (evaluated env)) =
      (merge ss).map (fun R => R.params.map (evaluated env)) := by
  rw [merge_twin_invariant_partial env ss hfaith]
  cases merge ss with
  | error e => rfl
  | ok R => exact congrArg Except.ok (evaluated_twinSig env R)

/-- REFUTATION for embed: `def outer(*args: T)` (module 1) forwarding to `def inner(*args: T)`
    (module 2), `T` bound to different objects -/
theorem embed_twin_invariant_refuted :
    embed true true ([d10O, d10I].map (twinSig d10env)) ≠ (embed true true [d10O, d10I]).map (twinSig d10env) := by
  exact d10_embed_twin_ne

/-- **embed, twin invariance under faithful spellings** (ADDED HYPOTHESIS `hfaith`, as for merge) -/
theorem embed_twin_invariant_partial (env : Nat → Nat → Nat) (uva uvk : Bool) (ss : List USig)
    (hfaith : ∀ l ∈ allParams ss, ∀ r ∈ allParams ss, Faithful env l r) :
    embed uva uvk (ss.map (twinSig env)) = (embed uva uvk ss).map (twinSig env) := by
  exact x11_embed_both (twinRet env) (twin_metaMap env) (annFrom_closed _)
    (twin_concComm env _ hfaith) uva uvk ss (inputs_annFrom ss)

/-- **mask, twin invariance**: unconditional (full strength) -/
theorem mask_twin_invariant (env : Nat → Nat → Nat) (sig : USig) (n : Nat) (nms : List Nat) (flags : HideFlags) :
    mask (twinSig env sig) n nms flags = (mask sig n nms flags).map (twinSig env) := by
  exact x11_mask_both (twinRet env) (twin_metaMap env) sig n nms flags

/-- **`functools.partial`, twin invariance**: unconditional (full strength) -/
theorem maskPartial_twin_invariant (env : Nat → Nat → Nat) (sig : USig) (n : Nat) (kw : List (Nat × Nat))
    (pobj : Nat) :
    maskPartial (twinSig env sig) n kw pobj = (maskPartial sig n kw pobj).map (twinSig env) := by
  exact x11_maskPartial_both (twinRet env) (twin_metaMap env) (twin_fresh env) sig n kw pobj

/-- REFUTATION for forwards (same pair as for embed) -/
theorem forwards_twin_invariant_refuted :
    forwards (twinSig d10env d10O) (twinSig d10env d10I) 0 [] false false true true false ≠
      (forwards d10O d10I 0 [] false false true true false).map (twinSig d10env) := by
  exact d10_forwards_twin_ne

/-- **forwards, twin invariance under faithful spellings**, all flags.
    ADDED HYPOTHESIS `hfaith`: the parameters of outer and inner are pairwise `Faithful`. -/
theorem forwards_twin_invariant_partial (env : Nat → Nat → Nat) (outer inner : USig) (n : Nat) (nms : List Nat)
    (hideArgs hideKwargs uva uvk partial_ : Bool)
    (hfaith : ∀ l ∈ outer.params ++ inner.params, ∀ r ∈ outer.params ++ inner.params, Faithful env l r) :
    forwards (twinSig env outer) (twinSig env inner) n nms hideArgs hideKwargs uva uvk partial_ =
      (forwards outer inner n nms hideArgs hideKwargs uva uvk partial_).map (twinSig env) := by
  exact x11_forwards_both (twinRet env) (twin_metaMap env) (annFrom_closed _)
    (twin_concComm env _ hfaith) outer inner n nms hideArgs hideKwargs uva uvk partial_
    (fun p hp => .inr ⟨p, by simp [hp], rfl, rfl⟩) (fun p hp => .inr ⟨p, by simp [hp], rfl, rfl⟩)

/-! ## C15: plain inputs yield the same parameters as upgraded ones -/

/-- `erase` is a metadata map that commutes with `concile` on ALL parameters -/
theorem erase_is_metaMap : MetaMap erase ∧ FreshFix erase ∧ ∀ a b, erase (concile a b) = concile (erase a) (erase b) := by
  exact ⟨erase_metaMap, erase_fresh, fun a b => erase_concComm a b trivial trivial⟩

/-- **merge on plain signatures**: erasing the upgraded annotations of the inputs erases them in the
    result and changes nothing else (names, kinds, defaults, raw annotations, provenance, errors) —
    unconditional, any number of inputs -/
theorem merge_erase_commute (ss : List USig) :
    merge (ss.map eraseSig) = (merge ss).map eraseSig := by
  exact x11_merge_both eraseRet erase_metaMap true_closed erase_concComm ss (fun _ _ => allTrue _)

theorem embed_erase_commute (uva uvk : Bool) (ss : List USig) :
    embed uva uvk (ss.map eraseSig) = (embed uva uvk ss).map eraseSig := by
  exact x11_embed_both eraseRet erase_metaMap true_closed erase_concComm uva uvk ss (fun _ _ => allTrue _)

theorem mask_erase_commute (sig : USig) (n : Nat) (nms : List Nat) (flags : HideFlags) :
    mask (eraseSig sig) n nms flags = (mask sig n nms flags).map eraseSig := by
  exact x11_mask_both eraseRet erase_metaMap sig n nms flags

theorem maskPartial_erase_commute (sig : USig) (n : Nat) (kw : List (Nat × Nat)) (pobj : Nat) :
    maskPartial (eraseSig sig) n kw pobj = (maskPartial sig n kw pobj).map eraseSig := by
  exact x11_maskPartial_both eraseRet erase_metaMap erase_fresh sig n kw pobj

theorem forwards_erase_commute (outer inner : USig) (n : Nat) (nms : List Nat)
    (hideArgs hideKwargs uva uvk partial_ : Bool) :
    forwards (eraseSig outer) (eraseSig inner) n nms hideArgs hideKwargs uva uvk partial_ =
      (forwards outer inner n nms hideArgs hideKwargs uva uvk partial_).map eraseSig := by
  exact x11_forwards_both eraseRet erase_metaMap true_closed erase_concComm outer inner n nms
    hideArgs hideKwargs uva uvk partial_ (allTrue _) (allTrue _)

/-- in the words of the property: the plain inputs yield the same parameters up to the upgraded
    annotation — same names, kinds, defaults and raw annotations, in the same order -/
theorem merge_plain_same_parameters (ss : List USig) (R : USig) (h : merge ss = .ok R) :
    ∃ R', merge (ss.map eraseSig) = .ok R' ∧
      R'.params.map (fun p => (p.name, p.kind, p.dflt, p.ann)) =
        R.params.map (fun p => (p.name, p.kind, p.dflt, p.ann)) ∧
      R'.src = R.src ∧ R'.depths = R.depths ∧ R'.ret = R.ret := by
  refine ⟨eraseSig R, by rw [merge_erase_commute, h]; rfl, ?_, rfl, rfl, rfl⟩
  show (R.params.map erase).map _ = _
  rw [List.map_map]; rfl

/-! ## non-vacuity -/

/-- two signatures from different modules (`def f(x: T, z: S)` in module 1, `def g(x: T, z: R)` in
    module 2, `T` the same object in both): the hypothesis of `merge_twin_invariant_partial` holds … -/
example : ∀ l ∈ allParams [nvA, nvB], ∀ r ∈ allParams [nvA, nvB], Faithful nvEnv l r := nv_faithful

/-- … the merge succeeds and `x` keeps its (postponed, module 1) annotation while the differently
    spelled annotation of `z` is dropped … -/
example : merge [nvA, nvB] =
    .ok { params := [⟨1, .pk, none, some 7, .post 7 1⟩, ⟨2, .pk, none, none, .empty⟩],
          src := [(1, []), (2, [])] } := nv_merge

/-- … so the merge of the eager twins is the twin of that: `x` annotated with the object 40 -/
example : merge ([nvA, nvB].map (twinSig nvEnv)) =
    .ok { params := [⟨1, .pk, none, some 40, .pre 40⟩, ⟨2, .pk, none, none, .empty⟩],
          src := [(1, []), (2, [])] } := by
  rw [merge_twin_invariant_partial nvEnv [nvA, nvB] nv_faithful, nv_merge]
  rfl

/-- the D10 pair does NOT meet the hypothesis -/
example : ¬ (∀ l ∈ allParams [d10L, d10R], ∀ r ∈ allParams [d10L, d10R], Faithful d10env l r) :=
  d10_not_faithful

/-- the generic theorem has instances: `erase` with the trivial invariant -/
example : merge ([nvA, nvB].map (mapSig erase)) = (merge [nvA, nvB]).map (mapSig erase) :=
  merge_map_commute erase erase_metaMap (fun _ => True) true_closed (fun a b _ _ => erase_concComm a b trivial trivial)
    [nvA, nvB] (fun _ _ => allTrue _)

/-- plain inputs, concretely -/
example : merge ([nvA, nvB].map eraseSig) =
    .ok { params := [⟨1, .pk, none, some 7, .empty⟩, ⟨2, .pk, none, none, .empty⟩],
          src := [(1, []), (2, [])] } := by
  rw [merge_erase_commute, nv_merge]
  rfl

/-- mask / forwards: a successful run on the twin side -/
example : mask (twinSig nvEnv nvA) 1 [] {} = .ok { params := [⟨2, .pk, none, some 50, .pre 50⟩] } := by
  rw [mask_twin_invariant]
  simp only [nvA]; sv_eval
  simp [Except.map, twinSig, mapRet, mapSig, twinRet, twin, sourceValue, nvEnv]

/-- `functools.partial` with a keyword only `**kw` accepts: the fresh parameter is its own twin -/
example : maskPartial (twinSig nvEnv nvK) 0 [(5, 99)] 77 =
    .ok { params := [⟨1, .pk, none, some 40, .pre 40⟩, ⟨5, .ko, some 99, none, .empty⟩,
                     ⟨3, .vk, none, some 50, .pre 50⟩],
          src := [(5, [77])], depths := [(77, 0)] } := by
  rw [maskPartial_twin_invariant, nv_partial]
  rfl

/-- forwards: `def outer(*args: T)` (module 1) forwarding to `def inner(z: S, *args: T)` (module 2)
    meets the hypothesis of `forwards_twin_invariant_partial`; the two `*args: T` are conciled, the
    annotation survives, and the twins give the twin -/
example : (∀ l ∈ d10O.params ++ nvI.params, ∀ r ∈ d10O.params ++ nvI.params, Faithful nvEnv l r) ∧
    forwards d10O nvI 0 [] false false true true false =
      .ok { params := [⟨2, .po, none, some 8, .post 8 2⟩, ⟨1, .vp, none, some 7, .post 7 2⟩],
            src := [(2, []), (1, [])] } ∧
    forwards (twinSig nvEnv d10O) (twinSig nvEnv nvI) 0 [] false false true true false =
      .ok { params := [⟨2, .po, none, some 50, .pre 50⟩, ⟨1, .vp, none, some 40, .pre 40⟩],
            src := [(2, []), (1, [])] } := by
  refine ⟨nv_fwd_faithful, nv_forwards, ?_⟩
  rw [forwards_twin_invariant_partial nvEnv d10O nvI 0 [] false false true true false nv_fwd_faithful,
    nv_forwards]
  rfl

end SV
