/-
  Props/C20.lean — property C20 (support helpers): bind_callsig agrees with CPython's binding,
  sort_callsigs partitions accordingly, make_up_callsigs is complete up to its bounds.
  ONLY property theorems + non-vacuity examples; helper lemmas in Sigverif/Lemmas/C20*.lean.
-/
import Sigverif.Props.Defs
import Sigverif.Model.Support
import Sigverif.Lemmas.C20
namespace SV

/-- a keyword names a positional-only parameter next to **kwargs (excluded: version-dependent) -/
def vdep (s : List Param) (kwargs : List (Nat × Nat)) : Prop :=
  hasVk s = true ∧ ∃ kv ∈ kwargs, ∃ p ∈ s, p.kind = .po ∧ p.name = kv.1

instance (s : List Param) (kwargs : List (Nat × Nat)) : Decidable (vdep s kwargs) := by
  unfold vdep; exact inferInstance

set_option linter.unusedVariables false in
/-- bind_callsig accepts a call exactly when CPython accepts it and returns the same mapping
    (`hk` is not used by the proof: the two keyword loops agree on duplicated keywords too) -/
theorem bind_callsig_eq (s : List Param) (args : List Nat) (kwargs : List (Nat × Nat))
    (hwf : WF s) (hk : (kwargs.map (·.1)).Nodup) (hvd : ¬ vdep s kwargs) :
    bindCallsig s args kwargs = bindCall s args kwargs := by
  have hs := hwf.rankSorted
  have hn := hwf.nodup
  have hvd' : hasVk s = true → ∀ kv ∈ kwargs, ∀ p ∈ s, p.kind = .po → p.name ≠ kv.1 := by
    intro h kv hkv p hp hpk hpn
    exact hvd ⟨h, kv, hkv, p, hp, hpk, hpn⟩
  unfold bindCallsig bindCall
  simp only [bcsPos_eq s hs, hasVk_eq_find]
  generalize bindPos (positionals s) args [] = r
  obtain ⟨named, surplus⟩ := r
  simp only []
  by_cases hsur : surplus = []
  · subst hsur
    simp only [if_true]
    rw [bcsKw_eq s hn none (by simp) kwargs hvd']
    simp
    cases bindKws s (hasVk s) kwargs named [] with
    | none => rfl
    | some r =>
      obtain ⟨a, e⟩ := r
      simp only []
      cases fillDefaults (List.filter isNamed s) a <;> rfl
  · simp only [hsur, if_false]
    cases hf : s.find? (fun p => p.kind = .vp) with
    | none =>
      have : hasVa s = false := by
        rw [Bool.eq_false_iff]
        intro h
        obtain ⟨q, hq, hqk⟩ := List.any_eq_true.1 h
        exact absurd hqk (by simpa using List.find?_eq_none.1 hf q hq)
      simp [this, hsur]
    | some p =>
      have hps : p ∈ s := List.mem_of_find?_eq_some hf
      have hpk : p.kind = .vp := by simpa using List.find?_some hf
      have : hasVa s = true := List.any_eq_true.2 ⟨p, hps, by simpa using hpk⟩
      simp only []
      rw [bcsKw_eq s hn _ (by rintro x ⟨rfl⟩; exact ⟨p, hps, hpk, rfl⟩) kwargs hvd']
      simp [this]
      cases bindKws s (hasVk s) kwargs named [] with
      | none => rfl
      | some r =>
        obtain ⟨a, e⟩ := r
        simp only []
        cases fillDefaults (List.filter isNamed s) a <;> rfl

/-- sort_callsigs partitions the call signatures according to bind_callsig -/
theorem sort_callsigs_partition (s : List Param) (cs : List (List Nat × List (Nat × Nat))) :
    (∀ c ∈ cs, (∃ b, (c.1, c.2, b) ∈ (sortCallsigs s cs).1 ∧ bindCallsig s c.1 c.2 = some b) ∨
               (c ∈ (sortCallsigs s cs).2 ∧ bindCallsig s c.1 c.2 = none)) ∧
    ((sortCallsigs s cs).1.length + (sortCallsigs s cs).2.length = cs.length) := by
  rw [sortCallsigs_eq]
  refine ⟨?_, ?_⟩
  rotate_left
  · have := filterMap_filter_length
      (fun c : List Nat × List (Nat × Nat) => (bindCallsig s c.1 c.2).map (fun b => (c.1, c.2, b))) cs
    simpa using this
  intro c hc
  cases h : bindCallsig s c.1 c.2 with
  | none =>
    right
    exact ⟨List.mem_filter.2 ⟨hc, by simp [h]⟩, rfl⟩
  | some b =>
    left
    exact ⟨b, List.mem_filterMap.2 ⟨c, hc, by simp [h]⟩, rfl⟩

/-- the names make_up_callsigs draws positional prefixes from -/
def muNames (s : List Param) (extras : List Nat) : List Nat :=
  (s.filter (fun p => p.kind = .po)).map (·.name) ++ (s.filter (fun p => p.kind = .pk)).map (·.name)
    ++ (s.filter (fun p => p.kind = .ko)).map (·.name) ++ extras

/-- make_up_callsigs contains every positional prefix combined with every keyword subset -/
theorem make_up_complete (s : List Param) (extras : List Nat) (i : Nat) (K : List Nat)
    (hi : i ≤ (muNames s extras).length)
    (hK : K.Sublist (muNames s extras ++ (s.filter (fun p => p.kind = .vp)).map (·.name)
                       ++ (s.filter (fun p => p.kind = .vk)).map (·.name))) :
    ((muNames s extras).take i, K) ∈ makeUpCallsigs s extras := by
  unfold makeUpCallsigs
  simp only [filter_isNamed_po]
  unfold muNames at hi hK ⊢
  simp only [List.mem_flatMap, List.mem_map, List.mem_range]
  exact ⟨_, ⟨i, by omega, rfl⟩, K, mem_sublists.2 hK, rfl⟩

/-! non-vacuity -/
def exS : List Param := [⟨1, .po, none, none, .empty⟩, ⟨2, .pk, some 4, none, .empty⟩, ⟨11, .vp, none, none, .empty⟩,
                         ⟨3, .ko, none, none, .empty⟩, ⟨12, .vk, none, none, .empty⟩]
example : WF exS := by decide
example : bindCallsig exS [5, 6, 7] [(3, 8), (9, 10)] = bindCall exS [5, 6, 7] [(3, 8), (9, 10)] ∧
    (bindCall exS [5, 6, 7] [(3, 8), (9, 10)]).isSome := by decide
/-- all hypotheses of `bind_callsig_eq` hold on that call -/
example : WF exS ∧ (([(3, 8), (9, 10)] : List (Nat × Nat)).map (·.1)).Nodup ∧ ¬ vdep exS [(3, 8), (9, 10)] := by
  decide
/-- the concrete common result -/
example : bindCallsig exS [5, 6, 7] [(3, 8), (9, 10)]
    = some { named := [(1, 5), (2, 6), (3, 8)], va := some [7], vk := some [(9, 10)] } := by decide
/-- a rejected call: both sides reject (keyword-only 3 is missing) -/
example : bindCallsig exS [5] [(2, 6)] = none ∧ bindCall exS [5] [(2, 6)] = none ∧ ¬ vdep exS [(2, 6)] := by
  decide
/-- the excluded case is a real difference: a keyword naming a (defaulted) positional-only parameter
    next to **kwargs is accepted by CPython ≥ 3.8 (it lands in **kwargs) and rejected by bind_callsig -/
example :
    let s : List Param := [⟨1, .po, some 4, none, .empty⟩, ⟨12, .vk, none, none, .empty⟩]
    WF s ∧ vdep s [(1, 5)] ∧ bindCallsig s [] [(1, 5)] = none ∧
    bindCall s [] [(1, 5)] = some { named := [(1, 4)], va := none, vk := some [(1, 5)] } := by decide
/-- `WF` matters: on an ill-ordered parameter list the two positional loops differ -/
example :
    let s : List Param := [⟨11, .vp, none, none, .empty⟩, ⟨1, .pk, none, none, .empty⟩]
    ¬ WF s ∧ bindCallsig s [5] [] = none ∧ (bindCall s [5] []).isSome = true := by decide

/-- sort_callsigs on a valid and an invalid call -/
example : sortCallsigs exS [([5], [(3, 8)]), ([], [])]
    = ([([5], [(3, 8)], { named := [(1, 5), (3, 8), (2, 4)], va := some [], vk := some [] })], [([], [])]) := by
  decide
/-- make_up_callsigs: the hypotheses of `make_up_complete` are satisfiable with a proper prefix and a
    keyword subset that uses a star name and an extra -/
example : muNames exS [7] = [1, 2, 3, 7] := by decide
example : (2 : Nat) ≤ (muNames exS [7]).length ∧
    ([2, 7, 12] : List Nat).Sublist (muNames exS [7] ++ (exS.filter (fun p => p.kind = .vp)).map (·.name)
                       ++ (exS.filter (fun p => p.kind = .vk)).map (·.name)) := by decide
example : ([1, 2], [2, 7, 12]) ∈ makeUpCallsigs exS [7] :=
  make_up_complete exS [7] 2 [2, 7, 12] (by decide) (by decide)

end SV
