/-
  Props/C04.lean — property C04 (declared forwarding): forwards = embed ∘ mask, and the reported
  signature is safe to call for a wrapper whose body is
      inner(<n positionals>, *args, <names>=…, **kwargs)
  ONLY property theorems + non-vacuity examples.
-/
import Sigverif.Props.C02
import Sigverif.Props.C03
import Sigverif.Lemmas.C04
import Sigverif.Lemmas.C04Partial
import Sigverif.Lemmas.C04Eval
namespace SV

/-- forwards(outer, inner, n, *names, flags) equals embed(outer, mask(inner, n, *names, …)) —
    parameters and provenance, errors included (partial=False) -/
theorem forwards_def (o i : USig) (n : Nat) (nms : List Nat) (ha hk uva uvk : Bool) :
    forwards o i n nms ha hk uva uvk false =
      (mask i n nms { args := ha, kwargs := hk } >>= fun m => embed uva uvk [o, m]) :=
  forwards_false_eq o i n nms ha hk uva uvk

/-- execution model of the wrapper: the wrapper binds the call (m, K); inner is then called with
    the n written positionals followed by the surplus positionals the wrapper collected in *args
    (when forwarded), and with the written names plus the surplus keywords collected in **kwargs -/
def wrapperRuns (o i : List Param) (n : Nat) (nms : List Nat) (uva uvk : Bool) (m : Nat) (K : List Nat) : Bool :=
  accepts o m K &&
  accepts i (n + (if uva then m - (positionals o).length else 0))
            (nms ++ (if uvk then K.filter (fun k => !(kwNames o).contains k) else []))

/-- every non-colliding call the reported signature accepts runs without an argument-binding
    TypeError in wrapper or inner (no hide flag, no partial) -/
theorem forwards_sound (o i R : USig) (n m : Nat) (nms K : List Nat) (uva uvk : Bool)
    (ho : WF o.params) (hi : WF i.params) (hn : nms.Nodup) (hK : K.Nodup)
    (hpo : ∀ p ∈ i.params, p.kind = .po → p.name ∉ nms)
    (hdisj : ∀ k ∈ K, k ∉ nms)
    (hR : forwards o i n nms false false uva uvk false = .ok R)
    (hnc : nonColl R.params [o.params, i.params] K)
    (hacc : accepts R.params m K = true) :
    wrapperRuns o.params i.params n nms uva uvk m K = true := by
  obtain ⟨M, hM, hE⟩ := forwards_false_ok hR
  have hMwf := mask_wf i M n nms _ hi hM
  have hs := embed_sound o M R uva uvk m K ho hMwf hK hE (nonColl_outer_masked hi hM hnc) hacc
  rw [composite_masked m ho hi hn hK hpo hdisj hM hE hnc] at hs
  exact hs

/-- when the wrapper has no defaulted positional parameter, every non-colliding call it rejects
    does raise one -/
theorem forwards_exact (o i R : USig) (n m : Nat) (nms K : List Nat) (uva uvk : Bool)
    (ho : WF o.params) (hi : WF i.params) (hn : nms.Nodup) (hK : K.Nodup)
    (hpo : ∀ p ∈ i.params, p.kind = .po → p.name ∉ nms)
    (hdisj : ∀ k ∈ K, k ∉ nms)
    (hnd : ∀ p ∈ positionals o.params, p.dflt = none)
    (hR : forwards o i n nms false false uva uvk false = .ok R)
    (hnc : nonColl R.params [o.params, i.params] K) :
    accepts R.params m K = wrapperRuns o.params i.params n nms uva uvk m K := by
  obtain ⟨M, hM, hE⟩ := forwards_false_ok hR
  have hMwf := mask_wf i M n nms _ hi hM
  have hex : ¬ defaultedOuterBeforeInner o.params M.params R.params := by
    rintro ⟨⟨p, hp, hpd⟩, -⟩
    rw [hnd p hp] at hpd
    cases hpd
  have he := embed_exact o M R uva uvk m K ho hMwf hK hE (nonColl_outer_masked hi hM hnc) hex
  rw [composite_masked m ho hi hn hK hpo hdisj hM hE hnc] at he
  exact he

/-- with partial=True every parameter of the result that comes from inner is optional -/
theorem forwards_partial_optional (o i R : USig) (n : Nat) (nms : List Nat) (ha hk uva uvk : Bool)
    (ho : WF o.params) (hi : WF i.params)
    (hdisj : ∀ x ∈ names o.params, x ∉ names i.params)
    (hR : forwards o i n nms ha hk uva uvk true = .ok R) :
    ∀ p ∈ R.params, p.name ∈ names i.params → (p.kind = .po ∨ p.kind = .pk ∨ p.kind = .ko) →
      p.dflt.isSome := by
  obtain ⟨hv, M, hM, hE⟩ := forwards_true_ok hR
  have hi' : WF (partialParams i.params) := partialParams_WF hi hv
  have hMwf := mask_wf _ M n nms _ hi' hM
  intro p hp hname hkind
  have hnamed : isNamed p = true := by
    simp only [isNamed, Bool.or_eq_true, decide_eq_true_eq]
    rcases hkind with h | h | h
    · exact .inl (.inl h)
    · exact .inl (.inr h)
    · exact .inr h
  have hno : p.name ∉ names o.params := fun h => hdisj _ h hname
  obtain ⟨q, hq, hqn, -, hqd⟩ := embed_named_from_inner ho hMwf hE p hp hnamed hno
  obtain ⟨q', hq', -, hq'd, -, hq'k⟩ := (mask_hide_removes _ M n nms _ hi' hM).1 q hq
  have hq'n : isNamed q' = true := by
    simp only [isNamed, Bool.or_eq_true, decide_eq_true_eq] at hqn ⊢
    rcases hq'k with h | ⟨h, -⟩
    · rw [h]; exact hqn
    · exact .inl (.inr h)
  rw [← hqd, ← hq'd]
  exact partialParams_named_dflt hq' hq'n

/-- the signature of a bound method is mask(sig, 1): it accepts (m, K) exactly when the function
    accepts one more leading positional (corollary of mask_exact, stated for reference) -/
theorem bound_is_mask1 (sig R : USig) (m : Nat) (K : List Nat)
    (hwf : WF sig.params) (hK : K.Nodup) (hR : mask sig 1 [] {} = .ok R)
    (hnc : nonColl R.params [sig.params] K) :
    accepts R.params m K = accepts sig.params (1 + m) K := by
  have := mask_exact sig R 1 m [] K hwf List.nodup_nil hK (fun _ _ _ h => by cases h)
    (fun _ _ h => by cases h) hR hnc
  simpa using this

/-! ## non-vacuity -/

/-- wrapper `(a, *args, **kwargs)` -/
def fwO : USig :=
  { params := [⟨1, .pk, none, none, .empty⟩, ⟨11, .vp, none, none, .empty⟩, ⟨12, .vk, none, none, .empty⟩],
    src := [(1, [7]), (11, [7]), (12, [7])], depths := [(7, 0)] }
/-- inner `(x, y, *, z, w=1)` -/
def fwI : USig :=
  { params := [⟨2, .pk, none, none, .empty⟩, ⟨3, .pk, none, none, .empty⟩,
               ⟨4, .ko, none, none, .empty⟩, ⟨5, .ko, some 1, none, .empty⟩],
    src := [(2, [8]), (3, [8]), (4, [8]), (5, [8])], depths := [(8, 0)] }
/-- `forwards(fwO, fwI, 1, 'z')` is `(a, y, *, w=1)` -/
def fwRps : List Param :=
  [⟨1, .pk, none, none, .empty⟩, ⟨3, .pk, none, none, .empty⟩, ⟨5, .ko, some 1, none, .empty⟩]

example : WF fwO.params ∧ WF fwI.params := by decide

/-- `forwards_def`: both sides are the same successful computation on a non-trivial input -/
example : ∃ R, (mask fwI 1 [4] {} >>= fun m => embed true true [fwO, m]) = .ok R ∧ R.params = fwRps := by
  obtain ⟨R, h, hp⟩ :=
    (forwards_false_ok_of (o := fwO) (i := fwI) (n := 1) (nms := [4])
      (ha := false) (hk := false) (uva := true) (uvk := true) (M := _) (ps := fwRps) (by rfl) (by rfl))
  exact ⟨R, by rw [← forwards_def]; exact h, hp⟩

/-- all hypotheses of `forwards_sound` / `forwards_exact` hold together on a non-trivial input:
    the call `f(_, _, w=…)` is accepted by the reported signature, the wrapper binds it and calls
    `inner(_, _, z=…, w=…)` -/
example : ∃ R, forwards fwO fwI 1 [4] false false true true false = .ok R ∧
    [4].Nodup ∧ [5].Nodup ∧ (∀ p ∈ fwI.params, p.kind = .po → p.name ∉ [4]) ∧ (∀ k ∈ [5], k ∉ [4]) ∧
    (∀ p ∈ positionals fwO.params, p.dflt = none) ∧
    nonColl R.params [fwO.params, fwI.params] [5] ∧ accepts R.params 2 [5] = true ∧
    wrapperRuns fwO.params fwI.params 1 [4] true true 2 [5] = true := by
  obtain ⟨R, h, hp⟩ :=
    (forwards_false_ok_of (o := fwO) (i := fwI) (n := 1) (nms := [4])
      (ha := false) (hk := false) (uva := true) (uvk := true) (M := _) (ps := fwRps) (by rfl) (by rfl))
  refine ⟨R, h, by decide, by decide, by decide, by decide, by decide, ?_, ?_, by decide⟩
  · rw [hp]; unfold nonColl; decide
  · rw [hp]; decide

/-- `forwards_exact` also on a rejected call: `f(_)` lacks `y` -/
example : ∃ R, forwards fwO fwI 1 [4] false false true true false = .ok R ∧
    accepts R.params 1 [] = false ∧ wrapperRuns fwO.params fwI.params 1 [4] true true 1 [] = false := by
  obtain ⟨R, h, hp⟩ :=
    (forwards_false_ok_of (o := fwO) (i := fwI) (n := 1) (nms := [4])
      (ha := false) (hk := false) (uva := true) (uvk := true) (M := _) (ps := fwRps) (by rfl) (by rfl))
  exact ⟨R, h, by rw [hp]; decide, by decide⟩

/-- the non-collision hypothesis is needed: wrapper `(a, *args, **kwargs)` around inner
    `(x, y, **kw)` with one written positional reports `(a, y, **kw)`; the call `f(_, y=…, x=…)` is
    accepted by it (x goes to `**kw`) but inner then receives `x` twice.  Keyword `x` is a parameter
    name of inner and not a keyword-passable parameter of the result. -/
def ncI : USig :=
  { params := [⟨2, .pk, none, none, .empty⟩, ⟨3, .pk, none, none, .empty⟩, ⟨22, .vk, none, none, .empty⟩] }
example : ∃ R, forwards fwO ncI 1 [] false false true true false = .ok R ∧
    accepts R.params 1 [3, 2] = true ∧ wrapperRuns fwO.params ncI.params 1 [] true true 1 [3, 2] = false ∧
    ¬ nonColl R.params [fwO.params, ncI.params] [3, 2] := by
  obtain ⟨R, h, hp⟩ := forwards_false_ok_of (o := fwO) (i := ncI) (n := 1) (nms := [])
    (ha := false) (hk := false) (uva := true) (uvk := true) (M := _)
    (ps := [⟨1, .pk, none, none, .empty⟩, ⟨3, .pk, none, none, .empty⟩, ⟨22, .vk, none, none, .empty⟩])
    (by rfl) (by rfl)
  refine ⟨R, h, by rw [hp]; decide, by decide, ?_⟩
  rw [hp]; unfold nonColl; decide

/-- the hypothesis of `forwards_exact` on the wrapper's defaults is needed: wrapper
    `(a=1, *args, **kwargs)` around inner `(x, y)` with one written positional reports `(a, y)` (the
    default of `a` is cleared); `f(y=…)` runs fine but the reported signature rejects it. -/
def dfI2 : USig :=
  { params := [⟨2, .pk, none, none, .empty⟩, ⟨3, .pk, none, none, .empty⟩] }
example : ∃ R, forwards dfO dfI2 1 [] false false true true false = .ok R ∧
    nonColl R.params [dfO.params, dfI2.params] [3] ∧
    accepts R.params 0 [3] = false ∧ wrapperRuns dfO.params dfI2.params 1 [] true true 0 [3] = true := by
  obtain ⟨R, h, hp⟩ := forwards_false_ok_of (o := dfO) (i := dfI2) (n := 1) (nms := [])
    (ha := false) (hk := false) (uva := true) (uvk := true) (M := _)
    (ps := [⟨1, .pk, none, none, .empty⟩, ⟨3, .pk, none, none, .empty⟩])
    (by rfl) (by rfl)
  refine ⟨R, h, ?_, by rw [hp]; decide, by decide⟩
  rw [hp]; unfold nonColl; decide

/-- `forwards_partial_optional`: `forwards(fwO, fwI, 1, partial=True)` is
    `(a, y=None, *, z=None, w=None)`; the hypotheses hold and `a` (from the wrapper) stays required -/
example : ∃ R, forwards fwO fwI 1 [] false false true true true = .ok R ∧
    (∀ x ∈ names fwO.params, x ∉ names fwI.params) ∧
    R.params = [⟨1, .pk, none, none, .empty⟩, ⟨3, .pk, some 0, none, .empty⟩,
                ⟨4, .ko, some 0, none, .empty⟩, ⟨5, .ko, some 0, none, .empty⟩] := by
  obtain ⟨R, h, hp⟩ := forwards_true_ok_of (o := fwO) (i := fwI) (n := 1) (nms := [])
    (ha := false) (hk := false) (uva := true) (uvk := true) (M := _)
    (ps := [⟨1, .pk, none, none, .empty⟩, ⟨3, .pk, some 0, none, .empty⟩,
            ⟨4, .ko, some 0, none, .empty⟩, ⟨5, .ko, some 0, none, .empty⟩])
    (by rfl) (by rfl) (by rfl)
  exact ⟨R, h, by decide, hp⟩

/-- the name-disjointness hypothesis of `forwards_partial_optional` is needed: wrapper
    `(x, *args, **kwargs)` around inner `(x, y)` with one written positional and partial=True
    reports `(x, y=None)`; `x` is a parameter name of inner and stays required. -/
def pdO : USig :=
  { params := [⟨2, .pk, none, none, .empty⟩, ⟨11, .vp, none, none, .empty⟩, ⟨12, .vk, none, none, .empty⟩] }
example : ∃ R, forwards pdO dfI2 1 [] false false true true true = .ok R ∧
    R.params = [⟨2, .pk, none, none, .empty⟩, ⟨3, .pk, some 0, none, .empty⟩] :=
  forwards_true_ok_of (o := pdO) (i := dfI2) (M := _) (by rfl) (by rfl) (by rfl)

/-- `bound_is_mask1`: method `(self, b=1, *args, c, **kwargs)` bound: `(b=1, *args, c, **kwargs)` -/
example : ∃ R, mask exSig 1 [] {} = .ok R ∧ [3, 9].Nodup ∧ nonColl R.params [exSig.params] [3, 9] ∧
    accepts R.params 1 [3, 9] = true ∧ accepts exSig.params (1 + 1) [3, 9] = true := by
  refine ⟨_, rfl, by decide, ?_, by decide, by decide⟩
  unfold nonColl; decide

/-- the theorems applied to the concrete instances above -/
example : wrapperRuns fwO.params fwI.params 1 [4] true true 2 [5] = true := by
  obtain ⟨R, h, hp⟩ :=
    (forwards_false_ok_of (o := fwO) (i := fwI) (n := 1) (nms := [4])
      (ha := false) (hk := false) (uva := true) (uvk := true) (M := _) (ps := fwRps) (by rfl) (by rfl))
  exact forwards_sound fwO fwI R 1 2 [4] [5] true true (by decide) (by decide) (by decide) (by decide)
    (by decide) (by decide) h (by rw [hp]; unfold nonColl; decide) (by rw [hp]; decide)
example : ∃ R, forwards fwO fwI 1 [4] false false true true false = .ok R ∧
    accepts R.params 3 [5] = wrapperRuns fwO.params fwI.params 1 [4] true true 3 [5] := by
  obtain ⟨R, h, hp⟩ :=
    (forwards_false_ok_of (o := fwO) (i := fwI) (n := 1) (nms := [4])
      (ha := false) (hk := false) (uva := true) (uvk := true) (M := _) (ps := fwRps) (by rfl) (by rfl))
  exact ⟨R, h, forwards_exact fwO fwI R 1 3 [4] [5] true true (by decide) (by decide) (by decide)
    (by decide) (by decide) (by decide) (by decide) h (by rw [hp]; unfold nonColl; decide)⟩

end SV
