/-
  Props/C20Final.lean — C20, first sentence, from the TEXT: "for every valid signature, s(text) reproduces it from its string
  form — with the native spelling always, and with the modifiers-based spellings for signatures without positional-only
  parameters up to the order of keyword-only parameters".

  `textOf dec ws (pieces s)` is the string form `str(sig)[1:-1]` (tokens written by `dec`, `ws` after each comma);
  `sParamsText` is the whole pipeline from that text: `split(',')`, `re_paramname`, the classification of the argument
  tokens, the loop of `read_sig`, CPython reading the generated `def` (model `parseDef`), the decorators of `modifiers`.

  ONLY property theorems; helper lemmas in Sigverif/Lemmas/C20*.lean.
-/
import Sigverif.Props.C20Text
import Sigverif.Props.C20Chars
import Sigverif.Lemmas.C20TextOf
namespace SV

/-- **native spelling, every well-formed signature** -/
theorem s_text_native (enc : List Char → Nat) (dec : Nat → List Char) (g : GoodNames enc dec) (ws : List Char)
    (hws : ∀ c ∈ ws, isWs c = true) (s : List Param) (hs : s ≠ []) (hwf : WF s) (hstar : starsBare s) :
    sParamsText enc false false false (textOf dec ws (pieces s)) = some (.ok (s.map Param.bare)) := by
  unfold sParamsText
  rw [piecesOfText_textOf enc dec g ws hws (pieces s) (pieces_ne_nil s hs) (piecesAux_chevFree s none)]
  simp only [Option.map_some, s_native s hwf hstar]

/-- **the four spellings without `use_modifiers_kwoargs`, every well-formed signature without positional-only parameters** -/
theorem s_text_no_kwoargs (enc : List Char → Nat) (dec : Nat → List Char) (g : GoodNames enc dec) (ws : List Char)
    (hws : ∀ c ∈ ws, isWs c = true) (ua upo : Bool) (s : List Param) (hs : s ≠ []) (hwf : WF s) (hstar : starsBare s)
    (hnpo : ∀ p ∈ s, p.kind ≠ .po) :
    ∃ r, sParamsText enc ua upo false (textOf dec ws (pieces s)) = some (.ok r) ∧ r.map Param.bare = s.map Param.bare := by
  obtain ⟨r, h1, h2⟩ := s_no_kwoargs ua upo s hwf hstar hnpo
  refine ⟨r, ?_, h2⟩
  unfold sParamsText
  rw [piecesOfText_textOf enc dec g ws hws (pieces s) (pieces_ne_nil s hs) (piecesAux_chevFree s none)]
  simp only [Option.map_some, h1]

/-- **the four spellings with `use_modifiers_kwoargs`**, for `pk ++ *va ++ ko ++ **vk`: the parameters of the signature, the
    keyword-only ones required-then-defaulted (a permutation of the signature: `s_kwoargs_up_to_kwo_order`) -/
theorem s_text_kwoargs (enc : List Char → Nat) (dec : Nat → List Char) (g : GoodNames enc dec) (ws : List Char)
    (hws : ∀ c ∈ ws, isWs c = true) (ua upo : Bool) (pk ko : List Param) (va vk : Option Param)
    (hne : pk ++ va.toList ++ ko ++ vk.toList ≠ [])
    (hpk : ∀ p ∈ pk, p.kind = .pk) (hko : ∀ p ∈ ko, p.kind = .ko)
    (hva : ∀ p ∈ va, p.kind = .vp) (hvk : ∀ p ∈ vk, p.kind = .vk)
    (hsorted : pk = reqs pk ++ dfls pk) (hvad : ∀ v ∈ va, v.dflt = none) (hvkd : ∀ v ∈ vk, v.dflt = none)
    (hn : ((pk ++ ko ++ va.toList ++ vk.toList).map (·.name)).Pairwise (· ≠ ·)) :
    ∃ r, sParamsText enc ua upo true (textOf dec ws (pieces (pk ++ va.toList ++ ko ++ vk.toList))) = some (.ok r) ∧
      r.map Param.bare = (pk ++ va.toList ++ (reqs ko ++ dfls ko) ++ vk.toList).map Param.bare := by
  have hpieces := piecesOfText_textOf enc dec g ws hws (pieces (pk ++ va.toList ++ ko ++ vk.toList))
    (pieces_ne_nil _ hne) (piecesAux_chevFree _ none)
  cases ua with
  | false =>
    refine ⟨(pk ++ va.toList ++ (reqs ko ++ dfls ko) ++ vk.toList).map Param.bare, ?_, by rw [List.map_map]; rfl⟩
    unfold sParamsText
    rw [hpieces]
    simp only [Option.map_some, s_kwoargs upo pk ko va vk hpk hko hva hvk hsorted hvad hvkd hn]
  | true =>
    obtain ⟨r, h1, h2⟩ := s_annotate_kwoargs upo pk ko va vk hpk hko hva hvk hsorted hvad hvkd hn
    refine ⟨r, ?_, h2⟩
    unfold sParamsText
    rw [hpieces]
    simp only [Option.map_some, h1]

/-! non-vacuity: a way of writing tokens that meets `GoodNames` — token `n` is written as `n + 1` letters `a` — and one text -/
def decA (n : Nat) : List Char := List.replicate (n + 1) 'a'
def encA (t : List Char) : Nat := t.length - 1
theorem goodA : GoodNames encA decA where
  tok n := ⟨by simp [decA], by
    intro c hc
    simp only [decA, List.mem_replicate] at hc
    rw [hc.2]; decide⟩
  nostar n := by simp [decA, List.replicate_succ]
  nochev n := by simp [decA, List.replicate_succ]
  noslash n := by simp [decA, List.replicate_succ]
  back n := by simp [encA, decA]
example : textOf decA [' '] (pieces [⟨0, .pk, none, none, .empty⟩, ⟨1, .vp, none, none, .empty⟩, ⟨2, .ko, some 0, some 1, .empty⟩])
    = " a, *aa, aaa:aa=a".toList := by decide
example : sParamsText encA false false true " a, *aa, aaa:aa=a".toList
    = some (.ok [⟨0, .pk, none, none, .empty⟩, ⟨1, .vp, none, none, .empty⟩, ⟨2, .ko, some 0, some 1, .empty⟩]) := by rfl

end SV
