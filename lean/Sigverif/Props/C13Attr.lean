/-
  Props/C13Attr.lean — C13, `wrappers.wrappers(obj)` lists the wrapping functions outermost first,
  once each — also when ordinary `functools.wraps` decorators sit between the levels.

  * `wrappers_exact`        for every stack of sigtools levels and functools.wraps levels in any
                            order: the walk yields exactly the wrapper functions of the sigtools
                            levels, outermost first
  * `wrappers_old_refuted`  the pinned code (finding D43) lists a wrapper twice for
                            `d1 / functools.wraps / d2`
-/
import Sigverif.Model.WrappersAttr
namespace SV

theorem buildW_ne_nil (ls : List WLevel) : buildW ls ≠ [] := by
  cases ls with
  | nil => simp [buildW]
  | cons l rest => cases l <;> simp [buildW]

/-- tuple identities are smaller than the number of levels at and below the object -/
theorem buildW_id_lt (ls : List WLevel) : ∀ a ∈ buildW ls, ∀ id w, a = some (id, w) → id < ls.length := by
  induction ls with
  | nil => intro a ha id w h; simp [buildW] at ha; subst ha; cases h
  | cons l rest ih =>
    intro a ha id w h
    cases l with
    | sig w' =>
      simp only [buildW, List.mem_cons] at ha
      rcases ha with rfl | ha
      · simp only [Option.some.injEq, Prod.mk.injEq] at h; simp [h.1.symm]
      · have := ih a ha id w h; simp; omega
    | wraps =>
      simp only [buildW, List.mem_cons] at ha
      rcases ha with rfl | ha
      · have hm : (buildW rest).head?.getD none ∈ buildW rest := by
          cases hb : buildW rest with
          | nil => exact absurd hb (buildW_ne_nil rest)
          | cons x t => simp
        have := ih _ hm id w h; simp; omega
      · have := ih a ha id w h; simp; omega

/-- the outermost object lacks the attribute exactly when there is no sigtools level at all -/
theorem head_none_iff (ls : List WLevel) : (buildW ls).head?.getD none = none ↔ ls.filterMap sigOf = [] := by
  induction ls with
  | nil => simp [buildW]
  | cons l rest ih =>
    cases l with
    | sig w => simp [buildW, sigOf]
    | wraps => simpa [buildW, sigOf] using ih

/-- **`wrappers()` lists exactly the wrapping functions, outermost first, once each** -/
theorem wrappers_exact (ls : List WLevel) : wrappersNew (buildW ls) = ls.filterMap sigOf := by
  induction ls with
  | nil => simp [buildW, wrappersNew]
  | cons l rest ih =>
    cases l with
    | sig w =>
      simp only [buildW, wrappersNew, List.filterMap_cons, sigOf]
      have hne : ((buildW rest).head?.getD none).map (·.1) ≠ some rest.length := by
        intro h
        cases hb : (buildW rest).head?.getD none with
        | none => rw [hb] at h; cases h
        | some a =>
          obtain ⟨id, w'⟩ := a
          rw [hb] at h
          simp only [Option.map_some, Option.some.injEq] at h
          have hm : (buildW rest).head?.getD none ∈ buildW rest := by
            cases hb' : buildW rest with
            | nil => exact absurd hb' (buildW_ne_nil rest)
            | cons x t => simp
          have := buildW_id_lt rest _ hm id w' hb
          omega
      simp [hne, ih]
    | wraps =>
      simp only [buildW, List.filterMap_cons, sigOf]
      cases hb : (buildW rest).head?.getD none with
      | none =>
        simp only [wrappersNew]
        exact ((head_none_iff rest).1 hb).symm
      | some a =>
        obtain ⟨id, w⟩ := a
        simp only [wrappersNew, hb, Option.map_some, if_true, List.nil_append]
        exact ih

/-- finding D43 on the pinned code: `d1 / functools.wraps / d2` is listed as `[d1, d2, d2]` -/
theorem wrappers_old_refuted :
    wrappersOld (buildW [.sig 1, .wraps, .sig 2]) = [1, 2, 2] ∧
    wrappersNew (buildW [.sig 1, .wraps, .sig 2]) = [1, 2] := by decide

end SV
