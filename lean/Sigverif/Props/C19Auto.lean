/-
  Props/C19Auto.lean — C19 (discovery branch) and C07: `functools.partial` objects and bound
  methods whose function forwards its star parameters.

  * `autoFn_err`               discovery can only give up with UnknownForwards
  * `discoveredPartial_cases`  the result is the discovered signature with the bound arguments taken
                               out in partial mode, or else exactly the plain signature of the
                               partial object (never anything else, never another exception)
  * `discoveredPartial_total`  it returns whenever plain retrieval (inspect's rule) returns
  * `partial_looked_through`   when the bound arguments fit: the partial accepts (m, K) exactly when
                               the discovered signature of the function accepts the bound
                               positionals followed by m more and K over the bound keywords
  * the same three for bound methods (`discoveredMethod_*`, `method_looked_through`)
-/
import Sigverif.Props.C19
import Sigverif.Props.C07
import Sigverif.Props.C04
namespace SV

theorem forwardSigs_err (own : USig) (resolve : RM → RVal) (cs : List CallRec) (e : Err)
    (h : forwardSigs own resolve cs = .error e) : e = .unknownForwards := by
  rw [forwardSigs_ignores] at h
  generalize forwarding cs = l at h
  induction l generalizing e with
  | nil => cases h
  | cons c t ih =>
    simp only [declaredAll, bind, Except.bind] at h
    cases hd : declared own resolve c with
    | error e' =>
      rw [hd] at h
      simp only [Except.error.injEq] at h
      subst h
      unfold declared at hd
      (repeat' split at hd) <;> first | (cases hd; done) | (cases hd; rfl)
    | ok s =>
      rw [hd] at h
      simp only at h
      cases ht : declaredAll own resolve t with
      | error e' =>
        rw [ht] at h
        simp only [Except.error.injEq] at h
        subst h
        exact ih e' ht
      | ok ss => rw [ht] at h; cases h

theorem autoforwardsAst_err (own : USig) (resolve : RM → RVal) (cs : List CallRec) (e : Err)
    (h : autoforwardsAst own resolve cs = .error e) : e = .unknownForwards := by
  unfold autoforwardsAst at h
  simp only [bind, Except.bind] at h
  cases hf : forwardSigs own resolve cs with
  | error e' =>
    rw [hf] at h
    simp only [Except.error.injEq] at h
    subst h
    exact forwardSigs_err own resolve cs _ hf
  | ok l =>
    rw [hf] at h
    simp only at h
    split at h
    · simp only [Except.error.injEq] at h; exact h.symm
    · split at h
      · cases h
      · simp only [Except.error.injEq] at h; exact h.symm

/-- discovery can only give up with UnknownForwards -/
theorem autoFn_err (own : USig) (resolve : RM → RVal) (cs : Option (List CallRec)) (e : Err)
    (h : autoFn own resolve cs = .error e) : e = .unknownForwards := by
  cases cs with
  | none => simp only [autoFn, Except.error.injEq] at h; exact h.symm
  | some cs => exact autoforwardsAst_err own resolve cs e h

/-- what discovery returns is a merge of declarations: a well-formed signature -/
theorem autoFn_wf (own s : USig) (resolve : RM → RVal) (cs : Option (List CallRec))
    (h : autoFn own resolve cs = .ok s) : WF s.params := by
  cases cs with
  | none => cases h
  | some cs =>
    simp only [autoFn, autoforwardsAst, bind, Except.bind] at h
    cases hf : forwardSigs own resolve cs with
    | error e => rw [hf] at h; cases h
    | ok l =>
      rw [hf] at h
      simp only at h
      split at h
      · cases h
      · split at h
        · rename_i R hm
          simp only [Except.ok.injEq] at h
          subst h
          exact merge_result_wf _ _ hm
        · cases h

/-! ### functools.partial -/

/-- the outcome of retrieval for a partial object is one of exactly two things -/
theorem discoveredPartial_cases (own : USig) (resolve : RM → RVal) (cs : Option (List CallRec))
    (n : Nat) (kw : List (Nat × Nat)) (pobj : Nat) :
    (∃ s R, autoFn own resolve cs = .ok s ∧ maskPartial s n kw pobj = .ok R ∧
            discoveredPartial own resolve cs n kw pobj = .ok R) ∨
    discoveredPartial own resolve cs n kw pobj = maskPartial own n kw pobj := by
  unfold discoveredPartial
  cases ha : autoFn own resolve cs with
  | error e =>
    have := autoFn_err own resolve cs e ha
    subst this
    exact .inr rfl
  | ok s =>
    simp only
    cases hm : maskPartial s n kw pobj with
    | error e => exact .inr rfl
    | ok R => exact .inl ⟨s, R, rfl, hm, rfl⟩

/-- retrieval returns whenever the plain rule (inspect's) returns; it raises only what the plain
    rule raises -/
theorem discoveredPartial_total (own : USig) (resolve : RM → RVal) (cs : Option (List CallRec))
    (n : Nat) (kw : List (Nat × Nat)) (pobj : Nat) (e : Err)
    (h : discoveredPartial own resolve cs n kw pobj = .error e) : maskPartial own n kw pobj = .error e := by
  rcases discoveredPartial_cases own resolve cs n kw pobj with ⟨s, R, _, _, hR⟩ | hp
  · rw [hR] at h; cases h
  · rw [← hp]; exact h

/-- **looked through, exactly**: when the bound arguments fit the discovered signature `s` of the
    function, `partial(f, <n positionals>, **kw)` accepts a non-colliding call (m, K) exactly when
    `s` accepts the n bound positionals followed by m more, and K over the bound keywords -/
theorem partial_looked_through (own s R : USig) (resolve : RM → RVal) (cs : Option (List CallRec))
    (n m : Nat) (kw : List (Nat × Nat)) (pobj : Nat) (K : List Nat)
    (hkw : (kw.map (·.1)).Nodup) (hK : K.Nodup)
    (ha : autoFn own resolve cs = .ok s)
    (hpo : ∀ p ∈ s.params, p.kind = .po → p.name ∉ kw.map (·.1))
    (hm : maskPartial s n kw pobj = .ok R)
    (hnc : nonColl R.params [s.params] K) :
    discoveredPartial own resolve cs n kw pobj = .ok R ∧
    accepts R.params m K = accepts s.params (n + m) (K ++ (kw.map (·.1)).filter (fun k => !K.contains k)) := by
  refine ⟨?_, partial_exact s R n m kw pobj K (autoFn_wf own s resolve cs ha) hkw hK hpo hm hnc⟩
  unfold discoveredPartial
  rw [ha]
  simp only [hm]

/-! ### bound methods -/

theorem discoveredMethod_cases (own : USig) (resolve : RM → RVal) (cs : Option (List CallRec)) :
    (∃ s R, autoFn own resolve cs = .ok s ∧ mask s 1 [] {} = .ok R ∧ discoveredMethod own resolve cs = .ok R) ∨
    discoveredMethod own resolve cs = mask own 1 [] {} := by
  unfold discoveredMethod
  cases ha : autoFn own resolve cs with
  | error e =>
    have := autoFn_err own resolve cs e ha
    subst this
    exact .inr rfl
  | ok s =>
    simp only
    cases hm : mask s 1 [] {} with
    | error e => exact .inr rfl
    | ok R => exact .inl ⟨s, R, rfl, hm, rfl⟩

theorem discoveredMethod_total (own : USig) (resolve : RM → RVal) (cs : Option (List CallRec)) (e : Err)
    (h : discoveredMethod own resolve cs = .error e) : mask own 1 [] {} = .error e := by
  rcases discoveredMethod_cases own resolve cs with ⟨s, R, _, _, hR⟩ | hp
  · rw [hR] at h; cases h
  · rw [← hp]; exact h

/-- binding removes exactly the first positional of what was discovered for the function -/
theorem method_looked_through (own s R : USig) (resolve : RM → RVal) (cs : Option (List CallRec))
    (m : Nat) (K : List Nat) (hK : K.Nodup)
    (ha : autoFn own resolve cs = .ok s) (hm : mask s 1 [] {} = .ok R)
    (hnc : nonColl R.params [s.params] K) :
    discoveredMethod own resolve cs = .ok R ∧ accepts R.params m K = accepts s.params (1 + m) K := by
  refine ⟨?_, bound_is_mask1 s R m K (autoFn_wf own s resolve cs ha) hK hm hnc⟩
  unfold discoveredMethod
  rw [ha]
  simp only [hm]

end SV
