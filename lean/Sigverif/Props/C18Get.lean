/-
  Props/C18Get.lean — property C18, the clause "each bound to the right instance":
  ONLY property theorems + non-vacuity examples (lemmas in Sigverif/Lemmas/C18G*.lean).

  C18: Retrieving a signature repeatedly, binding the same method repeatedly or on different
  instances and owners, and interleaving retrievals with calls all give equal results, each bound to
  the right instance.

  Model: Model/CacheId.lean — `OverrideableDataDesc.__get__` with its `WeakValueDictionary` keyed by
  the bound method, over histories of caller operations (`IOp`): instances have an identity `id`
  and a value `eqClass` (two instances may be EQUAL without being the same object), wrappers have an
  identity `wid` and the id of the instance they are bound to.  `KeyMode.identity` is the real code
  (bound methods compare by `__self__ is`), `KeyMode.equality` a cache keyed by the instance value.
  Props/SM.lean (`no_retention`, `no_premature_reclaim`) treats the same dictionary with
  `wrapperFor = id` ASSUMED; here it is proved.
-/
import Sigverif.Model.CacheId
import Sigverif.Lemmas.C18GProps
namespace SV

/-! ## (a) the right instance -/

/-- the clause, for a key-comparison mode: in every history, every wrapper answered by a lookup
    `get i` / `call i` is bound to instance i -/
def right_instance (m : KeyMode) : Prop :=
  ∀ ops : List IOp, ∀ p ∈ itrace m ops, ∀ i, (p.1 = .get i ∨ p.1 = .call i) →
    ∀ w b, p.2 = .wrapper w b → b = i

/-- identity keys (the real code): for every history, of any length, every `get i` / `call i`
    answers with a wrapper bound to instance i -/
theorem get_right_instance : right_instance .identity :=
  fun ops => trace_right_instance ops

/-- ... and it does answer with a wrapper whenever the caller holds instance i (so the statement
    above is not about an empty set of answers); `get` and `call` see the same wrapper -/
theorem get_right_instance_held (ops : List IOp) (i : Nat) (hi : i ∈ (irun .identity ops).heldInst) :
    ∃ w, (istep .identity (irun .identity ops) (.get i)).2 = some (.wrapper w i) ∧
         (istep .identity (irun .identity ops) (.call i)).2 = some (.wrapper w i) :=
  c18g_right_instance_held ops i hi

/-- a lookup on an id the caller holds no instance of answers `noInst` (protocol token `X`) -/
theorem get_no_instance (m : KeyMode) (ops : List IOp) (i : Nat) (hi : i ∉ (irun m ops).heldInst) :
    (istep m (irun m ops) (.get i)).2 = some .noInst :=
  get_noInst m _ i hi

/-- a recorded lookup and its answer are one step of the machine from the state reached before it -/
theorem trace_snoc (m : KeyMode) (ops : List IOp) (op : IOp) :
    itrace m (ops ++ [op]) = itrace m ops ++
      (match (istep m (irun m ops) op).2 with | some a => [(op, a)] | none => []) :=
  itrace_snoc m ops op

/-! ## (b) stability -/

/-- two `get i` with the wrapper held in between (no `dropWrapper i` in `mid`; anything else may
    happen: other lookups, collections, other instances coming and going) return the SAME wrapper —
    same identity `wid`, same binding; a `call i` at that point uses it too.  Both key modes. -/
theorem get_stable (m : KeyMode) (pre mid : List IOp) (i : Nat) (a : IAns)
    (h1 : (istep m (irun m pre) (.get i)).2 = some a) (ha : a ≠ .noInst)
    (hmid : IOp.dropWrapper i ∉ mid)
    (hheld : i ∈ (irun m (pre ++ .get i :: mid)).heldInst) :
    (istep m (irun m (pre ++ .get i :: mid)) (.get i)).2 = some a ∧
    (istep m (irun m (pre ++ .get i :: mid)) (.call i)).2 = some a :=
  c18g_stable m pre mid i a h1 ha hmid hheld

/-- after the wrapper was dropped and collected, `get i` creates a NEW wrapper (its identity differs
    from that of every wrapper answered before), again bound to i -/
theorem get_fresh_after_collect (pre : List IOp) (i : Nat)
    (hi : i ∈ (irun .identity pre).heldInst) :
    (istep .identity (irun .identity (pre ++ [.dropWrapper i, .gc])) (.get i)).2 =
      some (.wrapper (irun .identity (pre ++ [.dropWrapper i, .gc])).nextWid i) ∧
    ∀ p ∈ itrace .identity (pre ++ [.dropWrapper i, .gc]), ∀ w b, p.2 = .wrapper w b →
      w < (irun .identity (pre ++ [.dropWrapper i, .gc])).nextWid :=
  c18g_fresh pre i hi

/-! ## (c) a cache keyed by the instance VALUE answers with the wrong instance -/

/-- two equal instances 1 and 2 (same eqClass 7): the wrapper cached for 1 is answered for 2 -/
theorem get_right_instance_equality_refuted :
    ∃ (ops : List IOp) (i w b : Nat), (IOp.get i, IAns.wrapper w b) ∈ itrace .equality ops ∧ b ≠ i :=
  ⟨[.newInst 1 7, .newInst 2 7, .get 1, .get 2], 2, 0, 1, by decide, by decide⟩

theorem right_instance_equality_refuted : ¬ right_instance .equality := by
  intro h
  exact absurd (h [.newInst 1 7, .newInst 2 7, .get 1, .get 2] (.get 2, .wrapper 0 1) (by decide) 2
    (Or.inl rfl) 0 1 rfl) (by decide)

/-- the same with a CALL: `inst2.method(...)` runs on instance 1 -/
theorem call_right_instance_equality_refuted :
    (IOp.call 2, IAns.wrapper 0 1) ∈
      itrace .equality [.newInst 1 7, .newInst 2 7, .get 1, .call 2] := by decide

/-! ## (d) reachability, class access, owners -/

/-- identity keys, any history: once the caller dropped instance i and the wrappers it obtained
    through it, and the collector ran, instance i is unreachable (entries hold only their key's
    instance) -/
theorem no_retention_id (ops : List IOp) (i : Nat)
    (h1 : i ∉ (irun .identity ops).heldInst) (h2 : ∀ w, (i, w) ∉ (irun .identity ops).heldWrap) :
    i ∉ (irun .identity ops).collect.alive :=
  not_alive_after_collect _ (IInv_run .identity ops) i h1 h2

/-- equality keys: instance 1 is retained by a wrapper the caller obtained through instance 2 -/
theorem retention_equality_refuted :
    ∃ (ops : List IOp) (i : Nat),
      i ∉ (irun .equality ops).heldInst ∧ (∀ w, (i, w) ∉ (irun .equality ops).heldWrap) ∧
      i ∈ (irun .equality ops).collect.alive := by
  refine ⟨[.newInst 1 7, .newInst 2 7, .get 1, .get 2, .dropWrapper 1, .dropInst 1, .gc], 1,
    by decide, ?_, by decide⟩
  intro w hw
  have : (irun .equality [.newInst 1 7, .newInst 2 7, .get 1, .get 2, .dropWrapper 1, .dropInst 1,
    .gc]).heldWrap = [(2, 0)] := by decide
  rw [this] at hw
  simp at hw

/-- no premature reclaim: what the caller holds (the instance; with identity keys also a wrapper
    obtained through it) keeps the instance reachable through a collection -/
theorem no_premature_reclaim_id (m : KeyMode) (ops : List IOp) (i : Nat)
    (h : i ∈ (irun m ops).heldInst ∨ (m = .identity ∧ ∃ w, (i, w) ∈ (irun m ops).heldWrap)) :
    i ∈ (irun m ops).collect.alive :=
  alive_of_held m _ (IInv_run m ops) i h

/-- a wrapper the caller holds is never collected: its entry exists (weak VALUE dictionary) -/
theorem held_wrapper_has_entry (m : KeyMode) (ops : List IOp) (h : Nat × Nat)
    (hh : h ∈ (irun m ops).heldWrap) : ∃ e ∈ (irun m ops).collect.entries, e.wid = h.2 :=
  (IInv_collect (IInv_run m ops)).hasE h hh

/-- access through the class answers the descriptor itself, creates no per-instance entry, and
    changes no later answer -/
theorem cls_access (m : KeyMode) (pre post : List IOp) :
    (istep m (irun m pre) .cls).2 = some .desc ∧
    (istep m (irun m pre) .cls).1.entries = (irun m pre).entries ∧
    itrace m (pre ++ .cls :: post) =
      itrace m pre ++ (.cls, .desc) :: (irunFrom m (irun m pre) post).2 :=
  ⟨rfl, rfl, cls_transparent m pre post⟩

/-- the owner (the class or any subclass of it) does not matter -/
theorem owner_irrelevant (m : KeyMode) (s : IState) (inst : Option Inst) (o o' : Nat)
    (keep : Option Nat) : descGet m s inst o keep = descGet m s inst o' keep := by
  cases inst <;> rfl

/-! ## non-vacuity -/

-- get_right_instance: a history with two EQUAL instances, repeated lookups, calls, a class access,
-- a lookup on a dropped instance; every wrapper is bound to the instance asked
example : itrace .identity [.newInst 1 7, .newInst 2 7, .get 1, .get 2, .call 1, .cls, .get 1,
      .dropInst 2, .get 2] =
    [(.get 1, .wrapper 0 1), (.get 2, .wrapper 1 2), (.call 1, .wrapper 0 1), (.cls, .desc),
     (.get 1, .wrapper 0 1), (.get 2, .noInst)] := by decide
-- the same history with equality keys: instance 2 gets the wrapper of instance 1
example : itrace .equality [.newInst 1 7, .newInst 2 7, .get 1, .get 2, .call 1, .cls, .get 1,
      .dropInst 2, .get 2] =
    [(.get 1, .wrapper 0 1), (.get 2, .wrapper 0 1), (.call 1, .wrapper 0 1), (.cls, .desc),
     (.get 1, .wrapper 0 1), (.get 2, .noInst)] := by decide
-- get_right_instance_held: hypothesis met
example : (2 : Nat) ∈ (irun .identity [.newInst 1 7, .newInst 2 7, .get 1]).heldInst := by decide
-- get_stable: all hypotheses met by a history with other lookups, a collection and the instance
-- dropped and re-acquired in between; the answer is a wrapper
example :
    let pre : List IOp := [.newInst 1 7, .newInst 2 7]
    let mid : List IOp := [.get 2, .gc, .dropInst 1, .call 2, .dropWrapper 2, .gc, .newInst 1 7]
    (istep .identity (irun .identity pre) (.get 1)).2 = some (.wrapper 0 1) ∧
    IAns.wrapper 0 1 ≠ .noInst ∧ IOp.dropWrapper 1 ∉ mid ∧
    1 ∈ (irun .identity (pre ++ .get 1 :: mid)).heldInst ∧
    (istep .identity (irun .identity (pre ++ .get 1 :: mid)) (.get 1)).2 = some (.wrapper 0 1) := by
  decide
-- without the hypothesis `hmid` the conclusion fails: dropped and collected, the wrapper is another one
example : (istep .identity (irun .identity [.newInst 1 7, .get 1, .dropWrapper 1, .gc]) (.get 1)).2 =
    some (.wrapper 1 1) := by decide
-- get_fresh_after_collect: hypothesis met, and a wrapper had been answered before (identity 0)
example : (1 : Nat) ∈ (irun .identity [.newInst 1 7, .get 1]).heldInst ∧
    itrace .identity ([.newInst 1 7, .get 1] ++ [.dropWrapper 1, .gc]) = [(.get 1, .wrapper 0 1)] ∧
    (irun .identity ([.newInst 1 7, .get 1] ++ [.dropWrapper 1, .gc])).nextWid = 1 := by decide
-- no_retention_id: the instance had an entry before the collection
example : (1 : Nat) ∉ (irun .identity [.newInst 1 7, .get 1, .dropWrapper 1, .dropInst 1]).heldInst ∧
    (irun .identity [.newInst 1 7, .get 1, .dropWrapper 1, .dropInst 1]).heldWrap = [] ∧
    1 ∈ (irun .identity [.newInst 1 7, .get 1, .dropWrapper 1, .dropInst 1]).alive := by decide
-- no_premature_reclaim_id: the wrapper is held although the instance was dropped and gc ran
example : (1, 0) ∈ (irun .identity [.newInst 1 7, .get 1, .dropInst 1, .gc]).heldWrap ∧
    1 ∉ (irun .identity [.newInst 1 7, .get 1, .dropInst 1, .gc]).heldInst := by decide

end SV
