/-
  Props/C05Sound.lean — property C05 end to end, on the model: *what discovery reports can be
  honoured*.

  `discovery_sound_pos`  : for any list of call records (in particular: the visitor's records of a
      program), any number of forwarding calls — if retrieval returns R, then R is the plain
      signature, or every all-positional call R accepts is bound by the wrapper's own parameter
      list AND by every callee it forwards to (with the positionals written in the call followed
      by the surplus the wrapper collected in *args): `wrapperRuns`.
  `discovery_sound_single`: one forwarding call: the same for every non-colliding call, with
      keywords.
  `flat_program_sound_pos` / `program_sound_pos`: composed with `visitor_eq_truth(_flat)`: for every
      program of the forwarding grammar (the second: nested functions, lambdas and `nonlocal`
      included) the conclusion holds for the *ground-truth* calls of the program — i.e. the real
      forwarding that happens when the program runs — not for what the walker says.

  Restrictions (each is where a known finding or a weaker clause of the property lives):
  several forwarding calls + keywords needs role-consistency (finding D23); calls with a `hide_*`
  flag (a tainted star passed anyway) and `functools.partial` calls only get the narrowing
  statement of Props/C07.
-/
import Sigverif.Props.C05
import Sigverif.Props.C05Full
import Sigverif.Props.C07kw
import Sigverif.Props.C04
import Sigverif.Lemmas.LawsSort
namespace SV

/-- a forwarding call whose soundness statement is `wrapperRuns`: resolved to a function, no
    `hide_*` flag, duplicate-free keywords none of which names a positional-only callee parameter -/
structure PlainFwd (resolve : RM → RVal) (c : CallRec) (w : USig) : Prop where
  res : resolve c.wrapped = .fn w
  hideA : c.hideA = false
  hideK : c.hideK = false
  nd : (c.kwargs.map (·.1)).Nodup
  po : ∀ p ∈ w.params, p.kind = .po → p.name ∉ c.kwargs.map (·.1)

theorem declared_plain (own : USig) (resolve : RM → RVal) (c : CallRec) (w s : USig) (h : PlainFwd resolve c w)
    (hd : declared own resolve c = .ok s) :
    forwards own w c.args.length (c.kwargs.map (·.1)) false false c.useVa c.useVk false = .ok s := by
  unfold declared at hd
  rw [h.res] at hd
  simp only at hd
  split at hd
  · cases hd
  · split at hd
    · rename_i s' hf
      simp only [Except.ok.injEq] at hd
      subst hd
      rw [h.hideA, h.hideK] at hf
      exact hf
    · cases hd

theorem declaredAll_all (own : USig) (resolve : RM → RVal) (cs : List CallRec) (ss : List USig)
    (h : declaredAll own resolve cs = .ok ss) : ∀ c ∈ cs, ∃ s ∈ ss, declared own resolve c = .ok s := by
  induction cs generalizing ss with
  | nil => intro c hc; cases hc
  | cons c0 cs ih =>
    simp only [declaredAll, bind, Except.bind] at h
    cases hd : declared own resolve c0 with
    | error e => rw [hd] at h; cases h
    | ok s0 =>
      rw [hd] at h
      simp only at h
      cases ht : declaredAll own resolve cs with
      | error e => rw [ht] at h; cases h
      | ok ss0 =>
        rw [ht] at h
        simp only [pure, Except.pure, Except.ok.injEq] at h
        subst h
        intro c hc
        rcases List.mem_cons.1 hc with rfl | hc
        · exact ⟨s0, by simp, hd⟩
        · obtain ⟨s, hs, hds⟩ := ih ss0 ht c hc
          exact ⟨s, by simp [hs], hds⟩

/-- **discovery is sound, all-positional calls, any number of forwarding calls** -/
theorem discovery_sound_pos (own R : USig) (resolve : RM → RVal) (cs : List CallRec) (m : Nat)
    (ho : WF own.params) (hres : ∀ r w, resolve r = .fn w → WF w.params)
    (hd : discovered own resolve (some cs) = .ok R) (hacc : accepts R.params m [] = true) :
    R = own ∨ ∀ c ∈ forwarding cs, ∀ w, PlainFwd resolve c w →
      wrapperRuns own.params w.params c.args.length (c.kwargs.map (·.1)) c.useVa c.useVk m [] = true := by
  rw [discovered_eq_declared] at hd
  cases hall : declaredAll own resolve (forwarding cs) with
  | error e => rw [hall] at hd; simp only [Except.ok.injEq] at hd; exact .inl hd.symm
  | ok l =>
    rw [hall] at hd
    cases l with
    | nil => simp only [Except.ok.injEq] at hd; exact .inl hd.symm
    | cons s ss =>
      simp only at hd
      cases hm : merge (s :: ss) with
      | error e => rw [hm] at hd; simp only [Except.ok.injEq] at hd; exact .inl hd.symm
      | ok R' =>
        rw [hm] at hd
        simp only [Except.ok.injEq] at hd
        subst hd
        right
        intro c hc w hp
        have hmem := declaredAll_mem own resolve _ _ hall
        have hwf : ∀ t ∈ s :: ss, WF t.params := by
          intro t ht
          obtain ⟨c', _, hc'⟩ := hmem t ht
          exact declared_wf own resolve c' t hres hc'
        obtain ⟨sc, hsc, hdc⟩ := declaredAll_all own resolve _ _ hall c hc
        have hs := merge_sound_pos (s :: ss) R' m hwf hm hacc sc hsc
        have hf := declared_plain own resolve c w sc hp hdc
        exact forwards_sound own w sc _ m _ [] _ _ ho (hres _ _ hp.res) hp.nd (by simp) hp.po
          (by intro k hk; cases hk) hf (by intro k hk; cases hk) hs

/-- **discovery is sound, one forwarding call, every non-colliding call** -/
theorem discovery_sound_single (own R w : USig) (resolve : RM → RVal) (cs : List CallRec) (c : CallRec) (m : Nat) (K : List Nat)
    (ho : WF own.params) (hw : WF w.params) (hK : K.Nodup)
    (hone : forwarding cs = [c]) (hp : PlainFwd resolve c w)
    (hdisj : ∀ k ∈ K, k ∉ c.kwargs.map (·.1))
    (hd : discovered own resolve (some cs) = .ok R)
    (hnc : nonColl R.params [own.params, w.params] K)
    (hacc : accepts R.params m K = true) :
    R = own ∨ wrapperRuns own.params w.params c.args.length (c.kwargs.map (·.1)) c.useVa c.useVk m K = true := by
  rw [discovered_eq_declared, hone] at hd
  simp only [declaredAll, bind, Except.bind] at hd
  cases hdc : declared own resolve c with
  | error e => rw [hdc] at hd; simp only [Except.ok.injEq] at hd; exact .inl hd.symm
  | ok s =>
    rw [hdc] at hd
    simp only [pure, Except.pure] at hd
    have hf := declared_plain own resolve c w s hp hdc
    have hswf : WF s.params := forwards_result_wf own w s _ _ _ _ _ _ _ hw hf
    rw [merge_single' s hswf] at hd
    simp only [Except.ok.injEq] at hd
    right
    have hps : R.params = s.params := by rw [← hd]
    rw [hps] at hnc hacc
    exact forwards_sound own w s _ m _ K _ _ ho hw hp.nd hK hp.po hdisj hf hnc hacc

/-- for every flat program of the forwarding grammar: what retrieval makes of the walker's records
    is sound for the calls that really happen when the program runs (the generator's ground truth) -/
theorem flat_program_sound_pos (p : Prog) (hflat : FlatProg p) (own R : USig) (resolve : RM → RVal) (m : Nat)
    (ho : WF own.params) (hres : ∀ r w, resolve r = .fn w → WF w.params)
    (cs : List CallRec) (hv : runVisitor (render p) = .ok cs)
    (hd : discovered own resolve (some cs) = .ok R) (hacc : accepts R.params m [] = true) :
    R = own ∨ ∀ f ∈ truth p, ∀ w, PlainFwd resolve (f.toRec p) w →
      wrapperRuns own.params w.params (f.toRec p).args.length ((f.toRec p).kwargs.map (·.1)) f.useVa f.useVk m [] = true := by
  have ht := visitor_eq_truth_flat p hflat
  rw [hv] at ht
  simp only [Except.map, Except.ok.injEq] at ht
  rcases discovery_sound_pos own R resolve cs m ho hres hd hacc with h | h
  · exact .inl h
  · right
    intro f hf w hp
    have hc : f.toRec p ∈ forwarding cs := by rw [ht]; exact List.mem_map.2 ⟨f, hf, rfl⟩
    exact h _ hc w hp

/-- the same for every program of the whole grammar (nested functions, lambdas, `nonlocal`) -/
theorem program_sound_pos (p : Prog) (hp : GrammarProg p) (own R : USig) (resolve : RM → RVal) (m : Nat)
    (ho : WF own.params) (hres : ∀ r w, resolve r = .fn w → WF w.params)
    (cs : List CallRec) (hv : runVisitor (render p) = .ok cs)
    (hd : discovered own resolve (some cs) = .ok R) (hacc : accepts R.params m [] = true) :
    R = own ∨ ∀ f ∈ truth p, ∀ w, PlainFwd resolve (f.toRec p) w →
      wrapperRuns own.params w.params (f.toRec p).args.length ((f.toRec p).kwargs.map (·.1)) f.useVa f.useVk m [] = true := by
  have ht := visitor_eq_truth p hp
  rw [hv] at ht
  simp only [Except.map, Except.ok.injEq] at ht
  rcases discovery_sound_pos own R resolve cs m ho hres hd hacc with h | h
  · exact .inl h
  · right
    intro f hf w hpw
    have hc : f.toRec p ∈ forwarding cs := by rw [ht]; exact List.mem_map.2 ⟨f, hf, rfl⟩
    exact h _ hc w hpw

/-! ### non-vacuity: `def w(a, *args, **kwargs): return g(*args, **kwargs)`, `def g(x, y=1)` is a plain forwarding call,
    retrieval returns `(a, x, y=1)`, which is not the plain signature -/
example : PlainFwd resolveK recK calleeK :=
  ⟨rfl, rfl, rfl, by simp [recK], by intro p _ _; simp [recK]⟩

example : forwarding [recK] = [recK] := by decide

end SV
