/-
  Props/C02.lean — property C02 (embed): ONLY property theorems + non-vacuity examples.

  C02: For embed(outer, inner, use_varargs, use_varkwargs), every non-colliding call the result
  accepts is accepted by outer, and the surplus positional and keyword arguments outer would collect
  in the star parameters it forwards are accepted by inner; unless outer has defaulted positional
  parameters that end up followed by inner positional parameters, the result accepts exactly those
  calls.  It raises IncompatibleSignatures only when both declare a same-named parameter or when no
  call at all could succeed; embed(a, b, c) has the same parameters as embed(embed(a, b), c), and
  embedding into a bare (*args, **kwargs) returns the inner parameters unchanged.
-/
import Sigverif.Props.Defs
import Sigverif.Lemmas.C02FoldThm
import Sigverif.Lemmas.C02Bare
import Sigverif.Lemmas.C02Raise
import Sigverif.Lemmas.C02Eval
namespace SV

/-- calling outer, which forwards the surplus it collects in its star parameters to inner -/
def composite (o i : List Param) (uva uvk : Bool) (n : Nat) (K : List Nat) : Bool :=
  accepts o n K &&
  accepts i (if uva then n - (positionals o).length else 0)
            (if uvk then K.filter (fun k => !(kwNames o).contains k) else [])

/-- "outer has defaulted positional parameters that end up followed by inner positional parameters" -/
def defaultedOuterBeforeInner (o i R : List Param) : Prop :=
  (∃ p ∈ positionals o, p.dflt.isSome) ∧
  (∃ p ∈ positionals R, p.name ∈ names (i.filter isNamed) ∧ p.name ∉ names (o.filter isNamed))

/-- both declare a same-named parameter — other than a star parameter of the same kind in both,
    which is the forwarding itself.  (Until `fix:` D29 a star parameter of one side named like a
    named parameter of the other only surfaced as the constructor's plain ValueError, or — three
    signatures deep — as a result whose provenance lacked an entry.) -/
def sharedNamed (o i : List Param) : Prop :=
  ∃ p ∈ o, ∃ q ∈ i, p.name = q.name ∧ ¬ (p.kind = q.kind ∧ (p.kind = .vp ∨ p.kind = .vk))

theorem embed_sound (o i R : USig) (uva uvk : Bool) (n : Nat) (K : List Nat)
    (ho : WF o.params) (hi : WF i.params) (hK : K.Nodup)
    (hR : embed uva uvk [o, i] = .ok R)
    (hnc : nonColl R.params [o.params, i.params] K)
    (hacc : accepts R.params n K = true) :
    composite o.params i.params uva uvk n K = true :=
  embed_sound_aux o i R uva uvk n K ho hi hK hR hnc hacc

theorem embed_exact (o i R : USig) (uva uvk : Bool) (n : Nat) (K : List Nat)
    (ho : WF o.params) (hi : WF i.params) (hK : K.Nodup)
    (hR : embed uva uvk [o, i] = .ok R)
    (hnc : nonColl R.params [o.params, i.params] K)
    (hex : ¬ defaultedOuterBeforeInner o.params i.params R.params) :
    accepts R.params n K = composite o.params i.params uva uvk n K :=
  embed_exact_aux o i R uva uvk n K ho hi hK hR hnc hex

theorem embed_raises_only_if (o i : USig) (uva uvk : Bool)
    (ho : WF o.params) (hi : WF i.params)
    (hR : embed uva uvk [o, i] = .error .incompatible) :
    sharedNamed o.params i.params ∨
      ∀ n K, K.Nodup → composite o.params i.params uva uvk n K = false :=
  embed_raises_only_if_aux o i uva uvk ho hi hR

/-- embed(a, b, c, …) has the same parameters as embed(embed(a, b), c, …) -/
theorem embed_fold_params (a b M : USig) (rest : List USig) (uva uvk : Bool)
    (ha : WF a.params) (hb : WF b.params) (hM : embed uva uvk [a, b] = .ok M) :
    (embed uva uvk (a :: b :: rest)).map (·.params) = (embed uva uvk (M :: rest)).map (·.params) :=
  embed_fold_params_aux a b M rest uva uvk ha hb hM

/- ORIGINAL STATEMENT (false in the model, see the counterexamples below):
theorem embed_bare (o i R : USig) (a k : Param) (hi : WF i.params)
    (ha : a.kind = .vp) (hk : k.kind = .vk) (hb : o.params = [a, k])
    (hann : a.ann = none ∧ k.ann = none)
    (hR : embed true true [o, i] = .ok R) : R.params = i.params
-/
/-- embedding into a bare (*args, **kwargs) returns the inner parameters unchanged.
    ADDED HYPOTHESIS `hstar`: the star parameters of the inner signature carry no default and no
    upgraded annotation without a raw annotation (always true of real `inspect.Parameter`s, but not
    implied by `WF`); `_concile_meta` otherwise normalises them. -/
theorem embed_bare (o i R : USig) (a k : Param) (hi : WF i.params)
    (ha : a.kind = .vp) (hk : k.kind = .vk) (hb : o.params = [a, k])
    (hann : a.ann = none ∧ k.ann = none)
    (hstar : ∀ p ∈ i.params, (p.kind = .vp ∨ p.kind = .vk) →
               p.dflt = none ∧ (p.ann = none → p.uann = .empty))
    (hR : embed true true [o, i] = .ok R) : R.params = i.params :=
  embed_bare_aux o i R a k hi ha hk hb hann hstar hR

/-! counterexamples to the original `embed_bare` (model-level: a `*args` with a default, or with an
    upgraded annotation but no raw annotation — neither can be built with `inspect.Parameter`) -/
def cxO : USig := { params := [⟨11, .vp, none, none, .empty⟩, ⟨12, .vk, none, none, .empty⟩] }
def cxI1 : USig := { params := [⟨1, .vp, some 5, none, .empty⟩] }
def cxI2 : USig := { params := [⟨1, .vp, none, none, .pre 3⟩] }
example : WF cxI1.params ∧ WF cxI2.params := by decide
example : cxO.params = [⟨11, .vp, none, none, .empty⟩, ⟨12, .vk, none, none, .empty⟩] := rfl
/-- `(*a, **k)` around `(*x = 5)` gives `(*x)`: the default is dropped -/
example : ∃ R, embed true true [cxO, cxI1] = .ok R ∧ R.params ≠ cxI1.params := by
  obtain ⟨R, h, hp⟩ := embed_two_ok_of (o := cxO) (i := cxI1) (uva := true) (uvk := true)
    (ps := [⟨1, .vp, none, none, .empty⟩]) (by rfl)
  exact ⟨R, h, by rw [hp]; decide⟩
/-- `(*a, **k)` around `(*x)` with an upgraded but no raw annotation: the upgraded one is dropped -/
example : ∃ R, embed true true [cxO, cxI2] = .ok R ∧ R.params ≠ cxI2.params := by
  obtain ⟨R, h, hp⟩ := embed_two_ok_of (o := cxO) (i := cxI2) (uva := true) (uvk := true)
    (ps := [⟨1, .vp, none, none, .empty⟩]) (by rfl)
  exact ⟨R, h, by rw [hp]; decide⟩

/-! non-vacuity -/
def exO : USig := { params := [⟨1, .pk, none, none, .empty⟩, ⟨11, .vp, none, none, .empty⟩, ⟨12, .vk, none, none, .empty⟩],
                    src := [(1, [7]), (11, [7]), (12, [7])], depths := [(7, 0)] }
def exI : USig := { params := [⟨2, .pk, none, none, .empty⟩, ⟨3, .ko, some 1, none, .empty⟩],
                    src := [(2, [8]), (3, [8])], depths := [(8, 0)] }
example : WF exO.params ∧ WF exI.params := by decide
example : ∃ R, embed true true [exO, exI] = .ok R ∧ accepts R.params 2 [3] = true ∧
    composite exO.params exI.params true true 2 [3] = true := by
  obtain ⟨R, h, hp⟩ := embed_two_ok_of (o := exO) (i := exI) (uva := true) (uvk := true)
    (ps := [⟨1, .pk, none, none, .empty⟩, ⟨2, .pk, none, none, .empty⟩,
            ⟨3, .ko, some 1, none, .empty⟩]) (by rfl)
  exact ⟨R, h, by rw [hp]; decide, by decide⟩

/-- all hypotheses of `embed_sound` / `embed_exact` hold together on a non-trivial input -/
example : ∃ R, embed true true [exO, exI] = .ok R ∧ [3].Nodup ∧
    nonColl R.params [exO.params, exI.params] [3] ∧ accepts R.params 2 [3] = true ∧
    ¬ defaultedOuterBeforeInner exO.params exI.params R.params := by
  obtain ⟨R, h, hp⟩ := embed_two_ok_of (o := exO) (i := exI) (uva := true) (uvk := true)
    (ps := [⟨1, .pk, none, none, .empty⟩, ⟨2, .pk, none, none, .empty⟩,
            ⟨3, .ko, some 1, none, .empty⟩]) (by rfl)
  refine ⟨R, h, by decide, ?_, ?_, ?_⟩
  · rw [hp]; unfold nonColl; decide
  · rw [hp]; decide
  · rw [hp]; unfold defaultedOuterBeforeInner; decide

/-- the exception of `embed_exact` is real: outer `(a=1, *args, **kwargs)` around inner `(b)` gives
    `(a, b)` (the default of `a` is cleared); the call `f(b=…)` is accepted by outer-then-inner but
    not by the result, which requires `a`. -/
def dfO : USig := { params := [⟨1, .pk, some 1, none, .empty⟩, ⟨11, .vp, none, none, .empty⟩, ⟨12, .vk, none, none, .empty⟩] }
def dfI : USig := { params := [⟨2, .pk, none, none, .empty⟩] }
example : ∃ R, embed true true [dfO, dfI] = .ok R ∧
    defaultedOuterBeforeInner dfO.params dfI.params R.params ∧
    accepts R.params 0 [2] = false ∧ composite dfO.params dfI.params true true 0 [2] = true := by
  obtain ⟨R, h, hp⟩ := embed_two_ok_of (o := dfO) (i := dfI) (uva := true) (uvk := true)
    (ps := [⟨1, .pk, none, none, .empty⟩, ⟨2, .pk, none, none, .empty⟩]) (by rfl)
  refine ⟨R, h, ?_, ?_, by decide⟩
  · rw [hp]; unfold defaultedOuterBeforeInner; decide
  · rw [hp]; decide

/-- `embed_raises_only_if`: both disjuncts occur -/
def rsO1 : USig := { params := [⟨1, .pk, none, none, .empty⟩, ⟨11, .vp, none, none, .empty⟩] }
def rsI1 : USig := { params := [⟨1, .pk, none, none, .empty⟩] }
def rsO2 : USig := { params := [⟨1, .pk, none, none, .empty⟩] }
def rsI2 : USig := { params := [⟨2, .pk, none, none, .empty⟩] }
example : WF rsO1.params ∧ WF rsI1.params ∧ embed true true [rsO1, rsI1] = .error .incompatible ∧
    sharedNamed rsO1.params rsI1.params :=
  ⟨by decide, by decide, embed_two_incompatible_of (by rfl),
    ⟨⟨1, .pk, none, none, .empty⟩, by decide, ⟨1, .pk, none, none, .empty⟩, by decide, rfl, by decide⟩⟩
example : WF rsO2.params ∧ WF rsI2.params ∧ embed true true [rsO2, rsI2] = .error .incompatible ∧
    ¬ sharedNamed rsO2.params rsI2.params :=
  ⟨by decide, by decide, embed_two_incompatible_of (by rfl), by unfold sharedNamed; decide⟩

/-- the new disjunct: an outer named parameter called like the inner `*args` (D29) -/
def rsO3 : USig := { params := [⟨11, .pk, none, none, .empty⟩, ⟨21, .vp, none, none, .empty⟩, ⟨22, .vk, none, none, .empty⟩] }
def rsI3 : USig := { params := [⟨11, .vp, none, none, .empty⟩, ⟨23, .vk, none, none, .empty⟩] }
example : WF rsO3.params ∧ WF rsI3.params ∧ embed true true [rsO3, rsI3] = .error .incompatible ∧
    sharedNamed rsO3.params rsI3.params :=
  ⟨by decide, by decide, embed_two_incompatible_of (by rfl),
    ⟨⟨11, .pk, none, none, .empty⟩, by decide, ⟨11, .vp, none, none, .empty⟩, by decide, rfl, by decide⟩⟩

/-- `embed_fold_params`: the hypothesis is satisfiable -/
example : ∃ M, embed true true [exO, exI] = .ok M :=
  let ⟨R, h, _⟩ := embed_two_ok_of (o := exO) (i := exI) (uva := true) (uvk := true)
    (ps := [⟨1, .pk, none, none, .empty⟩, ⟨2, .pk, none, none, .empty⟩,
            ⟨3, .ko, some 1, none, .empty⟩]) (by rfl)
  ⟨R, h⟩

/-- `embed_bare`: the hypotheses (including the added one) hold on an inner signature with stars -/
def brI : USig := { params := [⟨2, .pk, none, none, .empty⟩, ⟨21, .vp, none, some 4, .pre 4⟩,
                               ⟨3, .ko, some 1, none, .empty⟩, ⟨22, .vk, none, none, .empty⟩] }
example : WF brI.params ∧
    (∀ p ∈ brI.params, (p.kind = .vp ∨ p.kind = .vk) →
       p.dflt = none ∧ (p.ann = none → p.uann = .empty)) ∧
    ∃ R, embed true true [cxO, brI] = .ok R := by
  refine ⟨by decide, by decide, ?_⟩
  obtain ⟨R, h, _⟩ := embed_two_ok_of (o := cxO) (i := brI) (uva := true) (uvk := true)
    (ps := brI.params) (by rfl)
  exact ⟨R, h⟩

end SV
