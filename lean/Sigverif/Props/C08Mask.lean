/-
  Props/C08Mask.lean — property C08 for `mask` and `forwards`: exactly one sources entry per
  parameter, every entry the input's, depths as stated.

  * `mask_wfsrc`        the result of `mask` (any flags) has exactly one entry per remaining
                        parameter — the entry the input had —, no entry for anything else, the same
                        `+depths`
  * `mask_truthful`     hence it lists only callables that declare the parameter
  * `forwards_wfsrc` / `forwards_truthful` / `forwards_depths`  (without `partial=True`):
                        `forwards` = `embed [outer, mask inner]`, so its map is well-formed, credits
                        the outer callable or one of the inner's, the outer callables stay at their
                        depth and the inner ones are one level deeper
-/
import Sigverif.Props.C08
import Sigverif.Lemmas.C08Mask
import Sigverif.Props.C04
namespace SV

theorem mask_wfsrc (sig R : USig) (n : Nat) (nms : List Nat) (h : HideFlags)
    (hwf : WF sig.params) (hp : ProvWF1 sig) (hR : mask sig n nms h = .ok R) :
    ProvWF1 R ∧ (∀ k, k ∈ names R.params → sget R.src k = sget sig.src k) ∧ R.depths = sig.depths := by
  obtain ⟨hsrc, hdep⟩ := mask_srcFor hwf (fun k hk => (hp.keys k).1 hk) hR
  have hsub := mask_names_subset hwf hR
  have hval : ∀ k, k ∈ names R.params → sget R.src k = sget sig.src k := by
    intro k hk
    have := hsrc k
    simp only [hk, if_true] at this
    simp only [sget, this]
  refine ⟨⟨⟨?_, ?_, ?_⟩, ?_⟩, hval, hdep⟩
  · intro k
    have := hsrc k
    by_cases hk : k ∈ names R.params
    · simp only [hk, if_true] at this
      have h1 : dhas sig.src k = true := (hp.keys k).2 (hsub k hk)
      simp only [dhas, this] at h1 ⊢
      simp [h1, hk]
    · simp only [hk, if_false] at this
      simp [dhas, this, hk]
  · intro k hk
    rw [hval k hk]
    exact hp.ne k (hsub k hk)
  · intro k f hf
    by_cases hk : k ∈ names R.params
    · rw [hval k hk] at hf
      rw [hdep]
      exact hp.dep k f hf
    · have := hsrc k
      simp only [hk, if_false] at this
      simp [sget, this] at hf
  · obtain ⟨ns, e⟩ := mask_popped hwf hR
    rw [e]
    exact hp.nd.removeFromSrc ns

theorem mask_truthful (decl : Nat → List Nat) (sig R : USig) (n : Nat) (nms : List Nat) (h : HideFlags)
    (hwf : WF sig.params) (hp : ProvWF1 sig) (ht : Truthful decl sig.src)
    (hR : mask sig n nms h = .ok R) : Truthful decl R.src := by
  obtain ⟨pw, hval, -⟩ := mask_wfsrc sig R n nms h hwf hp hR
  intro k f hf
  by_cases hk : k ∈ names R.params
  · rw [hval k hk] at hf
    exact ht k f hf
  · have : dhas R.src k = false := by
      cases hd : dhas R.src k with
      | false => rfl
      | true => exact absurd ((pw.keys k).1 hd) hk
    simp only [dhas] at this
    cases hd : dget R.src k with
    | none => simp [sget, hd] at hf
    | some v => simp [hd] at this

/-! ### forwards (without `partial=True`) -/

theorem forwards_wfsrc (o i R : USig) (n : Nat) (nms : List Nat) (ha hk uva uvk : Bool)
    (ho : WF o.params) (hi : WF i.params) (po : ProvWF1 o) (pi : ProvWF1 i) (hid : KeysND i.depths)
    (hR : forwards o i n nms ha hk uva uvk false = .ok R) :
    ProvWF1 R ∧ (∀ k f, f ∈ sget R.src k → f ∈ sget o.src k ∨ f ∈ sget i.src k) := by
  obtain ⟨M, hM, hE⟩ := forwards_false_ok hR
  obtain ⟨pM, hval, hdep⟩ := mask_wfsrc i M n nms _ hi pi hM
  have hMwf := mask_wf i M n nms _ hi hM
  have hidM : KeysND M.depths := by rw [hdep]; exact hid
  obtain ⟨pR, hfrom⟩ := embed_wfsrc o M R uva uvk ho hMwf po pM.toProvWF hidM hE
  refine ⟨pR, ?_⟩
  intro k f hf
  rcases hfrom k f hf with h' | h'
  · exact .inl h'
  · right
    by_cases hkM : k ∈ names M.params
    · rw [hval k hkM] at h'; exact h'
    · have : dget M.src k = none := by
        cases hd : dget M.src k with
        | none => rfl
        | some v => exact absurd ((pM.keys k).1 (by simp [dhas, hd])) hkM
      simp [sget, this] at h'

theorem forwards_truthful (decl : Nat → List Nat) (o i R : USig) (n : Nat) (nms : List Nat) (ha hk uva uvk : Bool)
    (ho : WF o.params) (hi : WF i.params) (po : ProvWF1 o) (pi : ProvWF1 i) (hid : KeysND i.depths)
    (to : Truthful decl o.src) (ti : Truthful decl i.src)
    (hR : forwards o i n nms ha hk uva uvk false = .ok R) : Truthful decl R.src := by
  intro k f hf
  rcases (forwards_wfsrc o i R n nms ha hk uva uvk ho hi po pi hid hR).2 k f hf with h' | h'
  · exact to k f h'
  · exact ti k f h'

/-- depth rule of `forwards`: the outer callables keep their depth, the inner ones are one deeper,
    a callable on both sides keeps the smaller -/
theorem forwards_depths (o i R : USig) (n : Nat) (nms : List Nat) (ha hk uva uvk : Bool)
    (ho : WF o.params) (hi : WF i.params) (po : ProvWF1 o) (pi : ProvWF1 i) (hid : KeysND i.depths)
    (hR : forwards o i n nms ha hk uva uvk false = .ok R) (f : Nat) :
    dget R.depths f = minDepth (dget o.depths f) ((dget i.depths f).map (· + 1)) := by
  obtain ⟨M, hM, hE⟩ := forwards_false_ok hR
  obtain ⟨pM, hval, hdep⟩ := mask_wfsrc i M n nms _ hi pi hM
  have hMwf := mask_wf i M n nms _ hi hM
  have hidM : KeysND M.depths := by rw [hdep]; exact hid
  rw [embed_depths o M R uva uvk ho hMwf po pM.toProvWF hidM hE f, hdep]

/-! ### non-vacuity -/

private def qA : Param := { name := 1, kind := .pk }
private def qB : Param := { name := 2, kind := .pk }
private def qC : Param := { name := 3, kind := .pk, dflt := some 1 }
private def qVA : Param := { name := 11, kind := .vp }
private def qVK : Param := { name := 12, kind := .vk }
private def sO : USig :=
  { params := [qA, qVA, qVK], src := (defaultSources [qA, qVA, qVK] 100).1, depths := [(100, 0)] }
private def sI : USig :=
  { params := [qB, qC, qVA, qVK], src := (defaultSources [qB, qC, qVA, qVK] 101).1, depths := [(101, 0)] }

example : WF sO.params ∧ WF sI.params := by decide
example : ProvWF1 sI := ⟨(default_provWF [qB, qC, qVA, qVK] 101).1.toProvWF, (default_provWF [qB, qC, qVA, qVK] 101).1.nd⟩
/-- `mask(inner, 1, 'c')`: `b` consumed, `c` named (so `*args` goes too): `(**kwargs)` with one entry -/
example : okAnd (mask sI 1 [3] {}) (fun R => R.params = [qVK] ∧ R.src = [(12, [101])]) = true := by
  simp only [sI, qB, qC, qVA, qVK, okAnd, defaultSources]; sv_eval
/-- `forwards(outer, inner, 1)` -/
example : okAnd (forwards sO sI 1 [] false false true true false)
    (fun R => R.params.map (·.name) = [1, 3, 11, 12] ∧ sget R.src 3 = [101] ∧ sget R.src 1 = [100] ∧
      R.depths = [(100, 0), (101, 1)]) = true := by
  simp only [sO, sI, qA, qB, qC, qVA, qVK, okAnd, defaultSources]; sv_eval

end SV
