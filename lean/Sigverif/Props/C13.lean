/-
  Props/C13.lean — property C13 (wrappers): the introspection side.
  Call transparency itself is definitional in the model and is validated on the real objects.
-/
import Sigverif.Model.Wrappers
import Sigverif.Props.C01
import Sigverif.Props.C04
namespace SV

/-- wrappers.wrappers(obj) lists the wrapping functions outermost first — any stack depth -/
theorem wrappers_order (ws : List Nat) (f : Nat) : wrappersOf (decorate ws f) = ws := by
  induction ws with
  | nil => rfl
  | cons w ws ih => simp [decorate, wrappersOf] at *; exact ih

/-- the reported signature of one level is a `forwards`, hence (C04) every non-colliding call it
    accepts is accepted by the wrapper function with `func` bound and, forwarded, by the inner one -/
theorem stack_level_sound (sigOfWrapper : Nat → USig) (sigOfFunc : Nat → USig) (w : Nat) (inner : WObj)
    (o i R : USig) (m : Nat) (K : List Nat)
    (hi : stackSig sigOfWrapper sigOfFunc inner = .ok i)
    (ho : mask (sigOfWrapper w) 1 [] {} = .ok o)
    (hR : stackSig sigOfWrapper sigOfFunc (.wrapped w inner) = .ok R)
    (hwo : WF o.params) (hwi : WF i.params) (hK : K.Nodup)
    (hnc : nonColl R.params [o.params, i.params] K)
    (hacc : accepts R.params m K = true) :
    wrapperRuns o.params i.params 0 [] true true m K = true := by
  have hR' : forwards o i 0 [] false false true true false = .ok R := by
    simp only [stackSig, hi, ho, bind, Except.bind] at hR
    exact hR
  exact forwards_sound o i R 0 m [] K true true hwo hwi (by simp) hK (by simp) (by simp) hR' hnc hacc

/-- Combination: its signature is the merge of (arg, *args, **kwargs) with the combined functions'
    signatures; for functions using names in consistent roles every non-colliding call it accepts
    is accepted by each of them (instance of merge_sound_roles) -/
theorem combination_sig_sound (self_sig : USig) (fs : List USig) (R : USig) (n : Nat) (K : List Nat)
    (hwf : ∀ s ∈ self_sig :: fs, WF s.params) (hK : K.Nodup)
    (hrc : roleCons ((self_sig :: fs).map (·.params)))
    (hR : merge (self_sig :: fs) = .ok R)
    (hnc : nonColl R.params ((self_sig :: fs).map (·.params)) K)
    (hacc : accepts R.params n K = true) :
    ∀ f ∈ fs, accepts f.params n K = true := by
  intro f hf
  exact merge_sound_roles (self_sig :: fs) R n K hwf hK hrc hR hnc hacc f (by simp [hf])

example : wrappersOf (decorate [3, 4, 5] 9) = [3, 4, 5] := by decide

end SV
