/-
  Props/Laws.lean — C09 (identity / fold laws, round trip) and C15 (error discipline,
  well-formed output): ONLY property theorems + non-vacuity examples.
-/
import Sigverif.Props.Defs
import Sigverif.Lemmas.LawsErr2
import Sigverif.Lemmas.LawsNeutralL
import Sigverif.Lemmas.LawsRoles3
import Sigverif.Lemmas.LawsEval
import Sigverif.Lemmas.LawsCounterexamples
namespace SV
set_option linter.unusedVariables false  -- merge_fold / merge_neutral_l keep hypotheses they do not need

/-! ## C09: apply_params(s, *sort_params(s)) equals s -/
theorem apply_sort (sig : USig) (hwf : WF sig.params) :
    applyParams sig (sortParams sig) = .ok sig := by
  exact apply_sort' sig hwf

/-- for a valid signature the buckets hold what their names say, in order -/
theorem sort_buckets (sig : USig) (hwf : WF sig.params) :
    BucketKinds (sortParams sig) ∧ (sortParams sig).all = sig.params := by
  exact ⟨sortParams_bucketKinds sig, sortParams_all_Laws sig hwf⟩

/-! ## C09: merge(s) = s ; merge(s, s) = s in parameters -/
theorem merge_single (sig : USig) (hwf : WF sig.params) : merge [sig] = .ok sig := by
  exact merge_single' sig hwf

/-- merge(s, s) has the parameters of s (provenance lists double: finding D15 under C08).

    ADDED HYPOTHESIS `hU` (a parameter without annotation has the empty upgraded annotation).
    `_concile_meta` returns `EmptyAnnotation` when both annotations are empty, so the original
    statement fails on a parameter with `ann = none`, `uann ≠ .empty`
    (counterexample `cxIdem` in Lemmas/LawsCounterexamples.lean; not a state sigtools produces).
    ORIGINAL STATEMENT:
    theorem merge_idem (sig : USig) (hwf : WF sig.params) :
        ∃ R, merge [sig, sig] = .ok R ∧ R.params = sig.params ∧ R.ret = sig.ret ∧ R.uret = sig.uret -/
theorem merge_idem (sig : USig) (hwf : WF sig.params)
    (hU : ∀ p ∈ sig.params, p.ann = none → p.uann = .empty) :
    ∃ R, merge [sig, sig] = .ok R ∧ R.params = sig.params ∧ R.ret = sig.ret ∧ R.uret = sig.uret := by
  exact merge_idem' sig hwf hU

/-- a bare (*args, **kwargs) is neutral on the right: same parameters.

    ADDED HYPOTHESIS `hS`: the star parameters of `sig` have no default and, when they have no
    annotation, the empty upgraded annotation.  When `sig` has no positional-only (resp. no
    keyword-only) parameter its `*args` (resp. `**kwargs`) is conciled with the one of `bare`,
    and `_concile_meta` drops a one-sided default and normalises the upgraded annotation
    (counterexamples `cxNr1`, `cxNr2` in Lemmas/LawsCounterexamples.lean; neither is a state that
    `inspect` / sigtools can produce).
    ORIGINAL STATEMENT:
    theorem merge_neutral_r (sig bare : USig) (a k : Param) (hwf : WF sig.params)
        (ha : a.kind = .vp) (hk : k.kind = .vk) (hb : bare.params = [a, k])
        (hann : a.ann = none ∧ k.ann = none) :
        ∃ R, merge [sig, bare] = .ok R ∧ R.params = sig.params -/
theorem merge_neutral_r (sig bare : USig) (a k : Param) (hwf : WF sig.params)
    (ha : a.kind = .vp) (hk : k.kind = .vk) (hb : bare.params = [a, k])
    (hann : a.ann = none ∧ k.ann = none)
    (hS : ∀ p ∈ sig.params, (p.kind = .vp ∨ p.kind = .vk) →
            p.dflt = none ∧ (p.ann = none → p.uann = .empty)) :
    ∃ R, merge [sig, bare] = .ok R ∧ R.params = sig.params := by
  exact merge_neutral_r' sig bare a k hwf ha hk hb hann hS

/-- … and on the left, up to the names (and identity) of the star parameters.

    ADDED HYPOTHESES `hne`, `hna`, `hnk`: the two star parameters of `bare` have different names,
    and a parameter of `sig` that carries the name of the `*args` (resp. `**kwargs`) of `bare`
    is itself the `*args` (resp. `**kwargs`) of `sig`.  The result takes the names of its star
    parameters from the LEFT operand, so `merge((*a, **k), (a, *args))` builds `(a, *a)` and the
    final `Signature(...)` validation raises ValueError (counterexample `cxNl`, reachable from
    real code; `cxBare2`/`cxNl2` for `hne`).  `hann` is not needed.
    ORIGINAL STATEMENT:
    theorem merge_neutral_l (sig bare : USig) (a k : Param) (hwf : WF sig.params)
        (ha : a.kind = .vp) (hk : k.kind = .vk) (hb : bare.params = [a, k])
        (hann : a.ann = none ∧ k.ann = none) :
        ∃ R, merge [bare, sig] = .ok R ∧
          R.params.filter (fun p => p.kind ≠ .vp ∧ p.kind ≠ .vk) =
            sig.params.filter (fun p => p.kind ≠ .vp ∧ p.kind ≠ .vk) ∧
          (hasVa R.params = hasVa sig.params) ∧ (hasVk R.params = hasVk sig.params) -/
theorem merge_neutral_l (sig bare : USig) (a k : Param) (hwf : WF sig.params)
    (ha : a.kind = .vp) (hk : k.kind = .vk) (hb : bare.params = [a, k])
    (hann : a.ann = none ∧ k.ann = none)
    (hne : a.name ≠ k.name)
    (hna : ∀ p ∈ sig.params, p.name = a.name → p.kind = .vp)
    (hnk : ∀ p ∈ sig.params, p.name = k.name → p.kind = .vk) :
    ∃ R, merge [bare, sig] = .ok R ∧
      R.params.filter (fun p => p.kind ≠ .vp ∧ p.kind ≠ .vk) =
        sig.params.filter (fun p => p.kind ≠ .vp ∧ p.kind ≠ .vk) ∧
      (hasVa R.params = hasVa sig.params) ∧ (hasVk R.params = hasVk sig.params) := by
  exact merge_neutral_l' sig bare a k hwf ha hk hb hne hna hnk

/-! ## bucket invariants of one merge step (this is what D1 broke) -/
theorem mergeStep_bucketKinds (l r s : Sorted) (hl : BucketKinds l) (hr : BucketKinds r)
    (h : mergeStep l r = .ok s) : BucketKinds s := by
  exact mergeStep_bucketKinds' l r s hl hr h

/-- merge(a, b, c, …) = merge(merge(a, b), c, …) whenever merge(a, b) returns -/
theorem merge_fold (a b M : USig) (rest : List USig)
    (ha : WF a.params) (hb : WF b.params) (hM : merge [a, b] = .ok M) :
    merge (a :: b :: rest) = merge (M :: rest) := by
  exact merge_fold' a b M rest hM

/-! ## C15: error discipline -/
theorem validate_err_Laws (ps : List Param) (e : Err) (h : validate ps = .error e) : e = .valueError := by
  exact validateGo_err_Laws _ _ _ _ _ h

theorem mergeStep_err (l r : Sorted) (e : Err) (h : mergeStep l r = .error e) : e = .valueError := by
  exact mergeStep_err' l r e h

/-- merge of ≥ 1 signatures fails only with IncompatibleSignatures or ValueError -/
theorem merge_err (ss : List USig) (e : Err) (hne : ss ≠ []) (h : merge ss = .error e) :
    e = .incompatible ∨ e = .valueError := by
  exact merge_err' ss e hne h

theorem embed_err (ss : List USig) (uva uvk : Bool) (e : Err) (hne : ss ≠ [])
    (h : embed uva uvk ss = .error e) : e = .incompatible ∨ e = .valueError := by
  exact embed_err' ss uva uvk e hne h

theorem forwards_err (o i : USig) (n : Nat) (nms : List Nat) (ha hk uva uvk pt : Bool) (e : Err)
    (h : forwards o i n nms ha hk uva uvk pt = .error e) : e = .incompatible ∨ e = .valueError := by
  exact forwards_err' o i n nms ha hk uva uvk pt e h

/-- every result is a valid signature (kind order, unique names, no required positional after an
    optional one) -/
theorem merge_valid (ss : List USig) (R : USig) (h : merge ss = .ok R) : validOk R.params = true := by
  exact merge_valid' ss R h
theorem embed_valid (ss : List USig) (uva uvk : Bool) (R : USig) (h : embed uva uvk ss = .ok R) :
    validOk R.params = true := by
  exact embed_valid' ss uva uvk R h
theorem mask_valid (sig R : USig) (n : Nat) (nms : List Nat) (hf : HideFlags)
    (h : mask sig n nms hf = .ok R) : validOk R.params = true := by
  exact maskCore_valid _ _ _ _ _ R h
theorem forwards_valid (o i R : USig) (n : Nat) (nms : List Nat) (ha hk uva uvk pt : Bool)
    (h : forwards o i n nms ha hk uva uvk pt = .ok R) : validOk R.params = true := by
  exact forwards_valid' o i R n nms ha hk uva uvk pt h

/-- for role-consistent (here: well-formed, pairwise name-disjoint-or-same-role) inputs the only
    error of merge is IncompatibleSignatures: the final validation cannot fail.  Stated for two
    inputs whose parameter names are kept apart except where they play the same role. -/
theorem merge_err_roles (a b : USig) (e : Err) (ha : WF a.params) (hb : WF b.params)
    (hrc : roleCons [a.params, b.params]) (h : merge [a, b] = .error e) : e = .incompatible := by
  exact merge_err_roles' a b e ha hb hrc h

/-! non-vacuity -/
def exA : USig := { params := [⟨1, .pk, none, none, .empty⟩, ⟨11, .vp, none, none, .empty⟩, ⟨12, .vk, none, none, .empty⟩],
                    src := [(1, [7]), (11, [7]), (12, [7])], depths := [(7, 0)] }
def exLawsB : USig := { params := [⟨1, .pk, some 1, none, .empty⟩, ⟨2, .ko, none, none, .empty⟩],
                            src := [(1, [8]), (2, [8])], depths := [(8, 0)] }
example : WF exA.params ∧ WF exLawsB.params := by decide

/-- the merge of the two examples, computed -/
def exM : USig := { params := [⟨1, .pk, none, none, .empty⟩, ⟨2, .ko, none, none, .empty⟩],
                    src := [(1, [7, 8]), (2, [8])], depths := [(7, 0), (8, 0)] }
theorem exM_eq : merge [exA, exLawsB] = .ok exM := by simp only [exA, exLawsB, exM]; sv_eval
example : ∃ M, merge [exA, exLawsB] = .ok M := ⟨_, exM_eq⟩

-- apply_sort / sort_buckets / merge_single on a signature with all five buckets
def exC : USig := { params := [⟨1, .po, none, none, .empty⟩, ⟨2, .pk, some 3, some 4, .pre 4⟩,
                               ⟨11, .vp, none, none, .empty⟩, ⟨5, .ko, none, none, .empty⟩,
                               ⟨12, .vk, none, none, .empty⟩],
                    src := [(1, [7]), (2, [7]), (11, [7]), (5, [7]), (12, [7])], depths := [(7, 0)],
                    ret := some 9, uret := .pre 9 }
example : WF exC.params := by decide
example : applyParams exC (sortParams exC) = .ok exC := apply_sort exC (by decide)
example : (sortParams exC).all = exC.params ∧ (sortParams exC).kwo = [⟨5, .ko, none, none, .empty⟩] :=
  ⟨(sort_buckets exC (by decide)).2, by decide⟩
example : merge [exC] = .ok exC := merge_single exC (by decide)

-- merge_idem: its hypotheses hold for exC, and the provenance lists do double (D15)
example : WF exC.params ∧ ∀ p ∈ exC.params, p.ann = none → p.uann = .empty := by decide
example : ∃ R, merge [exC, exC] = .ok R ∧ R.params = exC.params ∧ R.ret = exC.ret ∧ R.uret = exC.uret :=
  merge_idem exC (by decide) (by decide)
example : ∃ R, merge [exA, exA] = .ok R ∧ R.params = exA.params ∧ R.src = [(1, [7, 7]), (11, [7, 7]), (12, [7, 7])] := by
  refine ⟨{ params := exA.params, src := [(1, [7, 7]), (11, [7, 7]), (12, [7, 7])], depths := [(7, 0)] }, ?_, rfl, rfl⟩
  simp only [exA]; sv_eval

-- merge_neutral_r / merge_neutral_l
def exBare : USig := { params := [⟨21, .vp, none, none, .empty⟩, ⟨22, .vk, none, none, .empty⟩],
                       src := [(21, [9]), (22, [9])], depths := [(9, 0)] }
example : ∃ R, merge [exC, exBare] = .ok R ∧ R.params = exC.params :=
  merge_neutral_r exC exBare ⟨21, .vp, none, none, .empty⟩ ⟨22, .vk, none, none, .empty⟩
    (by decide) rfl rfl rfl ⟨rfl, rfl⟩ (by decide)
example : ∃ R, merge [exBare, exC] = .ok R ∧
      R.params.filter (fun p => p.kind ≠ .vp ∧ p.kind ≠ .vk) =
        exC.params.filter (fun p => p.kind ≠ .vp ∧ p.kind ≠ .vk) ∧
      (hasVa R.params = hasVa exC.params) ∧ (hasVk R.params = hasVk exC.params) :=
  merge_neutral_l exC exBare ⟨21, .vp, none, none, .empty⟩ ⟨22, .vk, none, none, .empty⟩
    (by decide) rfl rfl rfl ⟨rfl, rfl⟩ (by decide) (by decide) (by decide)
-- the usual case: the bare signature uses the very names of the star parameters of `sig`
def exBare' : USig := { params := [⟨11, .vp, none, none, .empty⟩, ⟨12, .vk, none, none, .empty⟩] }
example : ∃ R, merge [exBare', exA] = .ok R ∧
      R.params.filter (fun p => p.kind ≠ .vp ∧ p.kind ≠ .vk) =
        exA.params.filter (fun p => p.kind ≠ .vp ∧ p.kind ≠ .vk) ∧
      (hasVa R.params = hasVa exA.params) ∧ (hasVk R.params = hasVk exA.params) :=
  merge_neutral_l exA exBare' ⟨11, .vp, none, none, .empty⟩ ⟨12, .vk, none, none, .empty⟩
    (by decide) rfl rfl rfl ⟨rfl, rfl⟩ (by decide) (by decide) (by decide)

-- mergeStep_bucketKinds / merge_fold / merge_valid
example : ∃ s, mergeStep (sortParams exA) (sortParams exLawsB) = .ok s ∧ BucketKinds s := by
  have h : ∃ s, mergeStep (sortParams exA) (sortParams exLawsB) = .ok s := by
    simp only [exA, exLawsB]; sv_eval
  obtain ⟨s, hs⟩ := h
  exact ⟨s, hs, mergeStep_bucketKinds _ _ s (sort_buckets exA (by decide)).1
    (sort_buckets exLawsB (by decide)).1 hs⟩
example : merge [exA, exLawsB, exC] = merge [exM, exC] :=
  merge_fold exA exLawsB exM [exC] (by decide) (by decide) exM_eq
example : validOk exM.params = true := merge_valid [exA, exLawsB] exM exM_eq

-- error discipline: each error hypothesis is attained
def exReq : USig := { params := [⟨1, .pk, none, none, .empty⟩] }
def exNone : USig := { params := [] }
example : validate [⟨1, .pk, none, none, .empty⟩, ⟨1, .ko, none, none, .empty⟩] = .error .valueError := by
  rfl
example : mergeStep (sortParams exReq) (sortParams exNone) = .error .valueError := by
  simp only [exReq, exNone]; sv_eval
theorem exInc_eq : merge [exReq, exNone] = .error .incompatible := by
  simp only [exReq, exNone]; sv_eval
example : merge [cxBare, cxNl] = .error .valueError := cxNl_eval
example : embed true true [exReq, exReq] = .error .incompatible := by
  simp only [exReq]; sv_eval
def exD : USig := { params := [⟨3, .pk, none, none, .empty⟩, ⟨2, .ko, some 1, none, .empty⟩],
                    src := [(3, [8]), (2, [8])], depths := [(8, 0)] }
example : ∃ R, embed true true [exA, exD] = .ok R ∧ validOk R.params = true := by
  have h : ∃ R, embed true true [exA, exD] = .ok R := by simp only [exA, exD]; sv_eval
  obtain ⟨R, hR⟩ := h
  exact ⟨R, hR, embed_valid _ _ _ R hR⟩
example : ∃ R, mask exC 1 [5] {} = .ok R ∧ validOk R.params = true := by
  have h : ∃ R, mask exC 1 [5] {} = .ok R := by simp only [exC]; sv_eval
  obtain ⟨R, hR⟩ := h
  exact ⟨R, hR, mask_valid exC R 1 [5] {} hR⟩
example : ∃ R, forwards exA exD 1 [2] false false true true false = .ok R ∧ validOk R.params = true := by
  have h : ∃ R, forwards exA exD 1 [2] false false true true false = .ok R := by
    simp only [exA, exD]; sv_eval
  obtain ⟨R, hR⟩ := h
  exact ⟨R, hR, forwards_valid exA exD R 1 [2] false false true true false hR⟩
example : forwards exA exD 3 [] false false true true false = .error .valueError := by
  simp only [exA, exD]; sv_eval
example : forwards exA exLawsB 0 [] false false true true false = .error .incompatible := by
  simp only [exA, exLawsB]; sv_eval

-- merge_err_roles: role-consistent well-formed inputs; the error is attained (exReq / exNone)
-- and the successful case is covered too (exA / exLawsB share the name 1 in the same role)
theorem roleCons_exAB : roleCons [exA.params, exLawsB.params] := by
  intro s hs t ht x hx hy
  simp only [List.mem_cons, List.not_mem_nil, or_false] at hs ht
  have hx' : x = 1 ∨ x = 2 ∨ x = 11 ∨ x = 12 := by
    rcases hs with rfl | rfl <;> simp [allNames, names, exA, exLawsB] at hx <;> omega
  rcases hs with rfl | rfl <;> rcases ht with rfl | rfl <;>
    rcases hx' with rfl | rfl | rfl | rfl <;> first | decide | (revert hx hy; decide)
example : WF exReq.params ∧ WF exNone.params ∧ roleCons [exReq.params, exNone.params] ∧
    merge [exReq, exNone] = .error .incompatible := by
  refine ⟨by decide, by decide, ?_, exInc_eq⟩
  intro s hs t ht x hx hy
  simp only [List.mem_cons, List.not_mem_nil, or_false] at hs ht
  rcases hs with rfl | rfl <;> rcases ht with rfl | rfl <;>
    simp [allNames, names, exReq, exNone] at hx hy <;> subst hx <;> decide
example : WF exA.params ∧ WF exLawsB.params ∧ roleCons [exA.params, exLawsB.params] :=
  ⟨by decide, by decide, roleCons_exAB⟩

end SV
