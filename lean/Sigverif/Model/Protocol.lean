/-
  Model/Protocol.lean — the line protocol shared with harness/protocol.py.

  Parsing answers `none` on anything malformed; the driver then prints `bad-op`
  (a harness error, never a verdict and never a default value).
-/
import Sigverif.Model.Mask
import Sigverif.Model.Bind
import Sigverif.Model.Modifiers
import Sigverif.Model.Support
import Sigverif.Model.Eq
import Sigverif.Model.Cleanup
import Sigverif.Model.Chain
import Sigverif.Model.CacheId
import Sigverif.Model.Cache
import Sigverif.Model.Visitor
import Sigverif.Model.Grammar
import Sigverif.Model.GrammarDef
import Sigverif.Model.Examine
import Sigverif.Model.Discovery
import Sigverif.Model.WrappersAttr
import Sigverif.Model.ReadSigText
namespace SV.Proto

/-- the name the harness gives every nested definition of a generated program (`def sub():`): `core.NAMES.id("sub")` -/
def subName : Nat := 21

def splitNE (s : String) (sep : String) : List String :=
  if s = "_" then [] else s.splitOn sep

def optNat (s : String) : Option (Option Nat) :=
  if s = "-" then some none else s.toNat?.map some

def parseKind : String → Option Kind
  | "po" => some .po | "pk" => some .pk | "vp" => some .vp
  | "ko" => some .ko | "vk" => some .vk | _ => none

def showKind : Kind → String
  | .po => "po" | .pk => "pk" | .vp => "vp" | .ko => "ko" | .vk => "vk"

def parseUAnn (s : String) : Option UAnn :=
  if s = "e" then some .empty
  else if s.startsWith "p" then (s.drop 1).toNat?.map .pre
  else if s.startsWith "q" then
    match (s.drop 1).toString.splitOn "." with
    | [a, b] => do some (.post (← a.toNat?) (← b.toNat?))
    | _ => none
  else none

def showUAnn : UAnn → String
  | .empty => "e"
  | .pre v => s!"p{v}"
  | .post r f => s!"q{r}.{f}"

def showOpt : Option Nat → String
  | none => "-"
  | some v => toString v

def parseParam (s : String) : Option Param :=
  match s.splitOn ":" with
  | [n, k, d, a, u] => do
    some { name := ← n.toNat?, kind := ← parseKind k, dflt := ← optNat d,
           ann := ← optNat a, uann := ← parseUAnn u }
  | _ => none

def showParam (p : Param) : String :=
  s!"{p.name}:{showKind p.kind}:{showOpt p.dflt}:{showOpt p.ann}:{showUAnn p.uann}"

def parseParams (s : String) : Option (List Param) := (splitNE s ",").mapM parseParam

def showList (xs : List String) (sep : String) : String :=
  if xs.isEmpty then "_" else sep.intercalate xs

def showParams (ps : List Param) : String := showList (ps.map showParam) ","

def parseNats (s : String) (sep : String) : Option (List Nat) :=
  (if s = "_" || s = "" then [] else s.splitOn sep).mapM (·.toNat?)

def parseSrcs (s : String) : Option Srcs :=
  (splitNE s ";").mapM (fun e =>
    match e.splitOn "=" with
    | [k, v] => do some (← k.toNat?, ← parseNats v ".")
    | _ => none)

def showSrcs (s : Srcs) : String :=
  showList (s.map (fun e => s!"{e.1}={".".intercalate (e.2.map toString)}")) ";"

def parsePairs (s : String) (sep : String) : Option (List (Nat × Nat)) :=
  (splitNE s sep).mapM (fun e =>
    match e.splitOn "=" with
    | [k, v] => do some (← k.toNat?, ← v.toNat?)
    | _ => none)

def showPairs (d : List (Nat × Nat)) (sep : String) : String :=
  showList (d.map (fun e => s!"{e.1}={e.2}")) sep

def parseSig : List String → Option (USig × List String)
  | p :: s :: d :: r :: u :: rest => do
    some ({ params := ← parseParams p, src := ← parseSrcs s, depths := ← parsePairs d ";",
            ret := ← optNat r, uret := ← parseUAnn u }, rest)
  | _ => none

def parseSigs : Nat → List String → Option (List USig × List String)
  | 0, rest => some ([], rest)
  | n + 1, toks => do
    let (s, rest) ← parseSig toks
    let (ss, rest) ← parseSigs n rest
    some (s :: ss, rest)

def showSig (s : USig) : String :=
  s!"{showParams s.params} {showSrcs s.src} {showPairs s.depths ";"} {showOpt s.ret} {showUAnn s.uret}"

def showErr : Err → String
  | .valueError => "ValueError" | .incompatible => "IncompatibleSignatures"
  | .typeError => "TypeError" | .keyError => "KeyError" | .attributeError => "AttributeError"
  | .indexError => "IndexError" | .assertion => "AssertionError"
  | .unknownForwards => "UnknownForwards" | .unresolvableName => "UnresolvableName"
  | .notImplemented => "NotImplementedError" | .stopIteration => "StopIteration"

def showRes : Except Err USig → String
  | .ok s => "ok " ++ showSig s
  | .error e => "err " ++ showErr e

def bit (s : String) (i : Nat) : Bool := (s.toList.getD i '0') = '1'

def showOptParam : Option Param → String
  | none => "_"
  | some p => showParam p

def showSorted (s : Sorted) : String :=
  s!"ok {showParams s.pos} {showParams s.pok} {showOptParam s.va} {showParams s.kwo} {showOptParam s.vk} {showSrcs s.src} {showPairs s.depths ";"}"

def sortPairs (l : List (Nat × Nat)) : List (Nat × Nat) :=
  (l.toArray.qsort (fun a b => a.1 < b.1 || (a.1 = b.1 && a.2 < b.2))).toList

def showNatList (l : List Nat) : String := showList (l.map toString) "."

def showBound : Option Bound → String
  | none => "typeerror"
  | some b =>
    let va := match b.va with | none => "-" | some l => showNatList l
    let vk := match b.vk with | none => "-" | some l => showPairs (sortPairs l) "."
    s!"ok {showPairs (sortPairs b.named) "."} {va} {vk}"

def showKwopos (l : List (Nat × Param)) : String :=
  showList (l.map (fun e => s!"{e.1}={e.2.name}")) "."

def showNames : Except Err (List Nat) → String
  | .ok l => "ok " ++ showNatList l
  | .error e => "err " ++ showErr e

def lexLt : List Nat → List Nat → Bool
  | [], [] => false
  | [], _ :: _ => true
  | _ :: _, [] => false
  | a :: as, b :: bs => a < b || (a = b && lexLt as bs)

def parseObj (s : String) : Option Obj :=
  match s.splitOn "." with
  | ["U", i, d, u] => do some (.usig (← i.toNat?) (← d.toNat?) (← u.toNat?))
  | ["S", i, d] => do some (.psig (← i.toNat?) (← d.toNat?))
  | ["u", i, d, u] => do some (.uparam (← i.toNat?) (← d.toNat?) (← u.toNat?))
  | ["p", i, d] => do some (.pparam (← i.toNat?) (← d.toNat?))
  | ["O", i] => do some (.other (← i.toNat?))
  | _ => none

def showBoolRes : Except Err Bool → String
  | .ok b => "ok " ++ toString b
  | .error e => "err " ++ showErr e

def parseStoreOpt (s : String) : Option (Option Nat) := optNat s

def showStore (s : Store) : String :=
  s!"{showOpt s.instW} {showOpt s.instS} {showOpt s.clsW} {showOpt s.clsS}"

def parseCOp (s : String) : Option COp :=
  match s.splitOn ":" with
  | ["get", i] => i.toNat?.map .get
  | ["call", i] => i.toNat?.map .call
  | ["dropw", i] => i.toNat?.map .dropWrapper
  | ["dropi", i] => i.toNat?.map .dropInst
  | ["new", i] => i.toNat?.map .newInst
  | ["gc"] => some .gc
  | _ => none

def sortNats (l : List Nat) : List Nat := (l.toArray.qsort (· < ·)).toList

/-! ### trees: prefix token stream (see harness/treeser.py) -/

def takeNats : Nat → List String → Option (List Nat × List String)
  | 0, toks => some ([], toks)
  | n + 1, t :: toks => do
    let x ← t.toNat?
    let (xs, rest) ← takeNats n toks
    some (x :: xs, rest)
  | _ + 1, [] => none

def parseCtx : String → Option Ctx
  | "l" => some .load | "s" => some .store | "d" => some .del | _ => none

mutual
  def parseTree : Nat → List String → Option (Tree × List String)
    | 0, _ => none
    | fuel + 1, toks =>
      match toks with
      | "N" :: id :: ctx :: rest => do some (.name (← id.toNat?) (← parseCtx ctx), rest)
      | "A" :: rest => do
        let (v, rest) ← parseTree fuel rest
        match rest with
        | a :: rest => some (.attr v (← a.toNat?), rest)
        | [] => none
      | "C" :: rest => do
        let (f, rest) ← parseTree fuel rest
        match rest with
        | n :: rest =>
          let (as, rest) ← parseArgs fuel (← n.toNat?) rest
          match rest with
          | m :: rest =>
            let (ks, rest) ← parseKws fuel (← m.toNat?) rest
            some (.call f as ks, rest)
          | [] => none
        | [] => none
      | "F" :: n1 :: rest => do
        let (po, rest) ← takeNats (← n1.toNat?) rest
        match rest with
        | n2 :: rest =>
          let (args, rest) ← takeNats (← n2.toNat?) rest
          match rest with
          | n3 :: rest =>
            let (kwo, rest) ← takeNats (← n3.toNat?) rest
            match rest with
            | va :: vk :: nb :: rest =>
              let (body, rest) ← parseTrees fuel (← nb.toNat?) rest
              some (.fdef po args kwo (← optNat va) (← optNat vk) body, rest)
            | _ => none
          | [] => none
        | [] => none
      | "G" :: n :: rest => do
        let (ns, rest) ← takeNats (← n.toNat?) rest
        some (.nonloc ns, rest)
      | "O" :: n :: rest => do
        let (ch, rest) ← parseTrees fuel (← n.toNat?) rest
        some (.other ch, rest)
      | _ => none
  def parseTrees : Nat → Nat → List String → Option (TreeList × List String)
    | 0, _, _ => none
    | _ + 1, 0, toks => some (.nil, toks)
    | fuel + 1, n + 1, toks => do
      let (t, rest) ← parseTree fuel toks
      let (ts, rest) ← parseTrees fuel n rest
      some (.cons t ts, rest)
  def parseArgs : Nat → Nat → List String → Option (ArgList × List String)
    | 0, _, _ => none
    | _ + 1, 0, toks => some (.nil, toks)
    | fuel + 1, n + 1, toks =>
      match toks with
      | "P" :: rest => do
        let (t, rest) ← parseTree fuel rest
        let (ts, rest) ← parseArgs fuel n rest
        some (.plain t ts, rest)
      | "S" :: rest => do
        let (t, rest) ← parseTree fuel rest
        let (ts, rest) ← parseArgs fuel n rest
        some (.starred t ts, rest)
      | _ => none
  def parseKws : Nat → Nat → List String → Option (KwList × List String)
    | 0, _, _ => none
    | _ + 1, 0, toks => some (.nil, toks)
    | fuel + 1, n + 1, toks =>
      match toks with
      | "K" :: name :: rest => do
        let (t, rest) ← parseTree fuel rest
        let (ts, rest) ← parseKws fuel n rest
        some (.kw (← name.toNat?) t ts, rest)
      | "D" :: rest => do
        let (t, rest) ← parseTree fuel rest
        let (ts, rest) ← parseKws fuel n rest
        some (.dstar t ts, rest)
      | _ => none
end

def showRM : RM → String
  | .unknown => "U"
  | .arg n _ => s!"R{n}"
  | .nm n => s!"M{n}"
  | .attr v a => s!"A({showRM v}.{a})"

def showOptRM : Option RM → String
  | none => "-"
  | some r => showRM r

def b01 (b : Bool) : String := if b then "1" else "0"

def showCallRec (c : CallRec) : String :=
  let args := showList (c.args.map showRM) ","
  let kws := showList (c.kwargs.map (fun e => s!"{e.1}={showRM e.2}")) ","
  s!"{showRM c.wrapped}|{args}|{kws}|{showOptRM c.varargs}|{showOptRM c.varkwargs}|{b01 c.useVa}{b01 c.useVk}{b01 c.hideA}{b01 c.hideK}"

/-! ### programs of the forwarding grammar -/

def showCtx : Ctx → String | .load => "l" | .store => "s" | .del => "d"

def tlLen : TreeList → Nat
  | .nil => 0
  | .cons _ ts => tlLen ts + 1
def alLen : ArgList → Nat
  | .nil => 0
  | .plain _ r => alLen r + 1
  | .starred _ r => alLen r + 1
def klLen : KwList → Nat
  | .nil => 0
  | .kw _ _ r => klLen r + 1
  | .dstar _ r => klLen r + 1

mutual
  def showTree : Tree → List String
    | .name id ctx => ["N", toString id, showCtx ctx]
    | .attr v a => "A" :: showTree v ++ [toString a]
    | .call f as ks => "C" :: showTree f ++ [toString (alLen as)] ++ showArgs as ++ [toString (klLen ks)] ++ showKws ks
    | .fdef po args kwo va vk body =>
      ["F", toString po.length] ++ po.map toString ++ [toString args.length] ++ args.map toString
        ++ [toString kwo.length] ++ kwo.map toString ++ [showOpt va, showOpt vk, toString (tlLen body)] ++ showTrees body
    | .nonloc ns => ["G", toString ns.length] ++ ns.map toString
    | .other ch => ["O", toString (tlLen ch)] ++ showTrees ch
  def showTrees : TreeList → List String
    | .nil => []
    | .cons t ts => showTree t ++ showTrees ts
  def showArgs : ArgList → List String
    | .nil => []
    | .plain t r => "P" :: showTree t ++ showArgs r
    | .starred t r => "S" :: showTree t ++ showArgs r
  def showKws : KwList → List String
    | .nil => []
    | .kw n v r => ["K", toString n] ++ showTree v ++ showKws r
    | .dstar v r => "D" :: showTree v ++ showKws r
end

def parseStar : String → Option Star | "A" => some .A | "K" => some .K | _ => none
def parseB : String → Option Bool | "1" => some true | "0" => some false | _ => none

mutual
  def parseNStmt : Nat → List String → Option (NStmt × List String)
    | 0, _ => none
    | fuel + 1, toks =>
      match toks with
      | "fwd" :: rest => do
        let (callee, rest) ← parseTree (rest.length + 1) rest
        match rest with
        | npos :: nk :: rest =>
          let (kws, rest) ← takeNats (← nk.toNat?) rest
          match rest with
          | va :: vk :: tg :: rest =>
            some (.fwd callee (← npos.toNat?) kws (← parseB va) (← parseB vk) (← optNat tg), rest)
          | _ => none
        | _ => none
      | "decoy" :: h :: n :: rest => do some (.decoy (← h.toNat?) (← n.toNat?), rest)
      | "unrel" :: x :: rest => do some (.unrelated (← x.toNat?), rest)
      | "block" :: n :: rest => do
        let (b, rest) ← parseNStmts fuel (← n.toNat?) rest
        some (.block b, rest)
      | _ => none
  def parseNStmts : Nat → Nat → List String → Option (NStmtList × List String)
    | 0, _, _ => none
    | _ + 1, 0, toks => some (.nil, toks)
    | fuel + 1, n + 1, toks => do
      let (s, rest) ← parseNStmt fuel toks
      let (ss, rest) ← parseNStmts fuel n rest
      some (.cons s ss, rest)
end

mutual
  def parseStmt : Nat → List String → Option (Stmt × List String)
    | 0, _ => none
    | fuel + 1, toks =>
      match toks with
      | "fwd" :: rest => do
        let (callee, rest) ← parseTree (rest.length + 1) rest
        match rest with
        | npos :: nk :: rest =>
          let (kws, rest) ← takeNats (← nk.toNat?) rest
          match rest with
          | va :: vk :: tg :: rest =>
            some (.fwd callee (← npos.toNat?) kws (← parseB va) (← parseB vk) (← optNat tg), rest)
          | _ => none
        | _ => none
      | "rebind" :: s :: rest => do some (.rebind (← parseStar s), rest)
      | "mutate" :: s :: m :: rest => do some (.mutate (← parseStar s) (← m.toNat?), rest)
      | "delete" :: s :: rest => do some (.delete (← parseStar s), rest)
      | "hand" :: s :: h :: rest => do some (.handOver (← parseStar s) (← h.toNat?), rest)
      | "decoy" :: h :: n :: rest => do some (.decoy (← h.toNat?) (← n.toNat?), rest)
      | "unrel" :: x :: rest => do some (.unrelated (← x.toNat?), rest)
      | "nlr" :: s :: rest => do some (.nonlocalRebind (← parseStar s), rest)
      | "block" :: n :: rest => do
        let (b, rest) ← parseStmts fuel (← n.toNat?) rest
        some (.block b, rest)
      | "nested" :: n :: rest => do
        let (b, rest) ← parseNStmts (rest.length + 1) (← n.toNat?) rest
        some (.nested b, rest)
      | _ => none
  def parseStmts : Nat → Nat → List String → Option (StmtList × List String)
    | 0, _, _ => none
    | _ + 1, 0, toks => some (.nil, toks)
    | fuel + 1, n + 1, toks => do
      let (s, rest) ← parseStmt fuel toks
      let (ss, rest) ← parseStmts fuel n rest
      some (.cons s ss, rest)
end

/-- `<nparams> ids… va vk <nstmts> stmt*` -/
def parseProg (toks : List String) : Option (Prog × List String) :=
  match toks with
  | n :: rest => do
    let (ps, rest) ← takeNats (← n.toNat?) rest
    match rest with
    | va :: vk :: ns :: rest =>
      let (body, rest) ← parseStmts (rest.length + 1) (← ns.toNat?) rest
      some ({ params := ps, va := ← va.toNat?, vk := ← vk.toNat?, body := body }, rest)
    | _ => none
  | [] => none

def showCalls (cs : List CallRec) : String := s!"ok {cs.length} " ++ showList (cs.map showCallRec) ";"

/-- resolution table: `<k> (marker-string SIG)*` -/
def parseResolve : Nat → List String → Option (List (String × USig) × List String)
  | 0, toks => some ([], toks)
  | n + 1, m :: rest => do
    let (s, rest) ← parseSig rest
    let (tbl, rest) ← parseResolve n rest
    some ((m, s) :: tbl, rest)
  | _ + 1, [] => none

def resolveWith (tbl : List (String × USig)) (partialMarker : String) (r : RM) : RVal :=
  let k := showRM r
  if k = partialMarker then .partialCtor else
  match tbl.find? (fun e => e.1 = k) with
  | some e => .fn e.2
  | none => .unresolvable

/-! ### the string layer of `support` (Model/ReadSig.lean): pieces are `S`, `B`, `c:n:ann:dflt`, `s1:…`, `s2:…`, `p:…` -/

def parsePiece (s : String) : Option Piece :=
  match s.splitOn ":" with
  | ["S"] => some .slash
  | ["B"] => some .bare
  | [t, n, a, d] => do
    let n ← n.toNat?
    let a ← optNat a
    let d ← optNat d
    match t with
    | "c" => some (.chev n a d)
    | "s1" => some (.star false n a d)
    | "s2" => some (.star true n a d)
    | "p" => some (.plain n a d)
    | _ => none
  | _ => none

def showItem : Item → String
  | .slash => "/"
  | .bare => "*"
  | .par s n a d => s!"{s}:{n}:{showOpt a}:{showOpt d}"

def showNats (l : List Nat) : String := showList (l.map toString) "."

def showSErr : SErr → String
  | .syntaxError => "SyntaxError" | .valueError => "ValueError"

def readSigOp : List String → Option String
  | ua :: upo :: ukw :: p :: [] => do
    let ps ← (splitNE p ",").mapM parsePiece
    let r := readSig (← parseB ua) (← parseB upo) (← parseB ukw) ps
    some s!"ok {showNats r.names} {showPairs r.anns "."} {showNats r.poso} {showNats r.kwo} {showList (r.params.map showItem) ","}"
  | _ => none

def sTextOp : List String → Option String
  | ua :: upo :: ukw :: p :: [] => do
    let ps ← (splitNE p ",").mapM parsePiece
    some (match sParams (← parseB ua) (← parseB upo) (← parseB ukw) ps with
      | .ok F => "ok " ++ showParams F
      | .error e => "err " ++ showSErr e)
  | _ => none

def piecesOp : List String → Option String
  | p :: [] => do
    let F ← parseParams p
    some ("ok " ++ showList ((pieces F).map (fun
      | .slash => "S" | .bare => "B"
      | .chev n a d => s!"c:{n}:{showOpt a}:{showOpt d}"
      | .star two n a d => (if two then "s2" else "s1") ++ s!":{n}:{showOpt a}:{showOpt d}"
      | .plain n a d => s!"p:{n}:{showOpt a}:{showOpt d}")) ",")
  | _ => none

/-! ### `split(',')` and `re_paramname` on characters (Model/ReadSigText.lean); a text is its code points joined by `.` -/

def parseText (s : String) : Option (List Char) :=
  (if s = "_" then [] else s.splitOn ".").mapM (fun t => t.toNat?.map Char.ofNat)

def showText (cs : List Char) : String :=
  if cs.isEmpty then "e" else ".".intercalate (cs.map (fun c => toString c.toNat))

def showOptText : Option (List Char) → String
  | none => "-"
  | some t => showText t

def reSplitOp : List String → Option String
  | t :: [] => do
    let cs ← parseText t
    let parts := splitParams cs
    let showPart : Option (List Char × Option (List Char) × Option (List Char)) → String := fun
      | none => "N"
      | some (n, a, d) => showText n ++ "|" ++ showOptText a ++ "|" ++ showOptText d
    some ("ok " ++ showList (parts.map showPart) ",")
  | _ => none

def readSigTextOp : List String → Option String
  | ua :: upo :: ukw :: t :: [] => do
    let cs ← parseText t
    some (match readSigTextIdx encText (← parseB ua) (← parseB upo) (← parseB ukw) cs with
      | none => "outside"
      | some r => s!"ok {showNats r.names} {showPairs r.anns "."} {showNats r.poso} {showNats r.kwo} {showList (r.params.map showItem) ","}")
  | _ => none

/-- one request line → one answer line -/
def handle (line : String) : String :=
  let toks := (line.splitOn " ").filter (· ≠ "")
  let r : Option String :=
    match toks with
    | "accepts" :: n :: k :: p :: [] => do
      let ps ← parseParams p
      some (toString (accepts ps (← n.toNat?) (← parseNats k ".")))
    | "validate" :: p :: [] => do
      let ps ← parseParams p
      some (match validate ps with | .ok _ => "ok" | .error e => "err " ++ showErr e)
    | "sort" :: rest => do
      let (s, rest) ← parseSig rest
      if rest ≠ [] then none else some (showSorted (sortParams s))
    | "apply" :: rest => do
      let (s, rest) ← parseSig rest
      if rest ≠ [] then none else some (showRes (applyParams s (sortParams s)))
    | "merge" :: k :: rest => do
      let (ss, rest) ← parseSigs (← k.toNat?) rest
      if rest ≠ [] then none else some (showRes (merge ss))
    | "embed" :: f :: k :: rest => do
      let (ss, rest) ← parseSigs (← k.toNat?) rest
      if rest ≠ [] then none else some (showRes (embed (bit f 0) (bit f 1) ss))
    | "mask" :: n :: nm :: f :: rest => do
      let (s, rest) ← parseSig rest
      if rest ≠ [] then none else
      some (showRes (mask s (← n.toNat?) (← parseNats nm ".")
        { args := bit f 0, kwargs := bit f 1, varargs := bit f 2, varkwargs := bit f 3 }))
    | "maskp" :: n :: kw :: pobj :: rest => do
      let (s, rest) ← parseSig rest
      if rest ≠ [] then none else
      some (showRes (maskPartial s (← n.toNat?) (← parsePairs kw ".") (← pobj.toNat?)))
    | "forwards" :: n :: nm :: f :: rest => do
      let (o, rest) ← parseSig rest
      let (i, rest) ← parseSig rest
      if rest ≠ [] then none else
      some (showRes (forwards o i (← n.toNat?) (← parseNats nm ".")
        (bit f 0) (bit f 1) (bit f 2) (bit f 3) (bit f 4)))
    | "bindcall" :: a :: k :: p :: [] => do
      some (showBound (bindCall (← parseParams p) (← parseNats a ".") (← parsePairs k ".")))
    | "bindcallsig" :: a :: k :: p :: [] => do
      some (showBound (bindCallsig (← parseParams p) (← parseNats a ".") (← parsePairs k ".")))
    | "prepare" :: pp :: ww :: p :: [] => do
      some (match prepare (← parseParams p) (← parseNats pp ".") (← parseNats ww ".") with
        | .ok (ps, kp) => s!"ok {showParams ps} {showKwopos kp}"
        | .error e => "err " ++ showErr e)
    | "retrievebound" :: rest => do
      -- signatures.signature of a bound method whose function carries the given stored signature
      let (s, rest) ← parseSig rest
      if rest ≠ [] then none else some ("ok " ++ showSig (retrieveBound s))
    | "preparesig" :: pp :: ww :: f :: self :: rest => do
      -- the signature a modifier's wrapper object (callable `self`) advertises for function `f`, provenance included
      let (s, rest) ← parseSig rest
      if rest ≠ [] then none else
      some (showRes (prepareSig s (← f.toNat?) (← self.toNat?) (← parseNats pp ".") (← parseNats ww ".")))
    | "deccall" :: pp :: ww :: a :: k :: p :: [] => do
      let F ← parseParams p
      let P ← parseNats pp "."
      let W ← parseNats ww "."
      let args ← parseNats a "."
      let kws ← parsePairs k "."
      some (match prepare F P W with
        | .ok (_, kp) => showBound (decoratedCall F P kp args kws)
        | .error e => "err " ++ showErr e)
    | "deccallend" :: st :: ex :: a :: k :: p :: [] => do
      -- posoargs(end=st, *ex): the names are computed from the function, then the call is translated
      let F ← parseParams p
      let s0 ← st.toNat?
      let e0 ← parseNats ex "."
      let args ← parseNats a "."
      let kws ← parsePairs k "."
      some (match endNames F s0 e0 with
        | .error e => "err " ++ showErr e
        | .ok P => match prepare F P [] with
          | .ok (_, kp) => showBound (decoratedCall F P kp args kws)
          | .error e => "err " ++ showErr e)
    | "deccallend2" :: st :: ww :: a :: k :: p :: [] => do
      -- posoargs(end=st) stacked with kwoargs(*W): one translator with both selections
      let F ← parseParams p
      let s0 ← st.toNat?
      let W ← parseNats ww "."
      let args ← parseNats a "."
      let kws ← parsePairs k "."
      some (match endNames F s0 [] with
        | .error e => "err " ++ showErr e
        | .ok P => match prepare F P W with
          | .ok (_, kp) => showBound (decoratedCall F P kp args kws)
          | .error e => "err " ++ showErr e)
    | "deccallstart2" :: st :: pp :: a :: k :: p :: [] => do
      -- kwoargs(start=st) stacked with posoargs(*P)
      let F ← parseParams p
      let s0 ← st.toNat?
      let P ← parseNats pp "."
      let args ← parseNats a "."
      let kws ← parsePairs k "."
      some (match startNames F s0 [] with
        | .error e => "err " ++ showErr e
        | .ok W => match prepare F P W with
          | .ok (_, kp) => showBound (decoratedCall F P kp args kws)
          | .error e => "err " ++ showErr e)
    | "deccallstart" :: st :: ex :: a :: k :: p :: [] => do
      let F ← parseParams p
      let s0 ← st.toNat?
      let e0 ← parseNats ex "."
      let args ← parseNats a "."
      let kws ← parsePairs k "."
      some (match startNames F s0 e0 with
        | .error e => "err " ++ showErr e
        | .ok W => match prepare F [] W with
          | .ok (_, kp) => showBound (decoratedCall F [] kp args kws)
          | .error e => "err " ++ showErr e)
    | "startnames" :: st :: ex :: p :: [] => do
      let F ← parseParams p
      let s0 ← st.toNat?
      let e0 ← parseNats ex "."
      some (showNames (do let w ← startNames F s0 e0; let _ ← prepare F [] w; pure w))
    | "endnames" :: st :: ex :: p :: [] => do
      let F ← parseParams p
      let s0 ← st.toNat?
      let e0 ← parseNats ex "."
      some (showNames (do let w ← endNames F s0 e0; let _ ← prepare F w []; pure w))
    | "autonames" :: ex :: p :: [] => do
      let F ← parseParams p
      let e0 ← parseNats ex "."
      some (showNames (do let w ← autoNames F e0; let _ ← prepare F [] w; pure w))
    | "annotate" :: an :: p :: [] => do
      some (match annotate (← parseParams p) (← parsePairs an ".") with
        | .ok ps => "ok " ++ showParams ps
        | .error e => "err " ++ showErr e)
    | "pyeq" :: a :: b :: [] => do some (showBoolRes (pyEq (← parseObj a) (← parseObj b)))
    | "pyne" :: a :: b :: [] => do some (showBoolRes (pyNe (← parseObj a) (← parseObj b)))
    | "hasheq" :: a :: b :: [] => do
      some (match pyHash (← parseObj a), pyHash (← parseObj b) with
        | some x, some y => "ok " ++ toString (x == y)
        | _, _ => "unhashable")
    | "cleanup" :: f :: iw :: is_ :: cw :: cs :: [] => do
      let st : Store := { instW := ← optNat iw, instS := ← optNat is_, clsW := ← optNat cw, clsS := ← optNat cs }
      let o := cleanupRun (← optNat f) st
      some s!"ok {showStore o.store} {o.raised} {o.calls}"
    | "threads" :: n :: iw :: is_ :: cw :: cs :: sched :: [] => do
      let st : Store := { instW := ← optNat iw, instS := ← optNat is_, clsW := ← optNat cw, clsS := ← optNat cs }
      let w := (World.init st (← n.toNat?)).run (← parseNats sched ".")
      let saw := w.threads.map (fun t => match t.sawWrapped with | none => "-" | some b => toString b)
      let dn := w.threads.all (fun t => t.pc == .done)
      some s!"ok {showStore w.store} {dn} {",".intercalate saw}"
    | "cache" :: k :: ops :: [] => do
      let kind ← (if k = "weakKey" then some DictKind.weakKey else if k = "weakValue" then some DictKind.weakValue
                   else if k = "selfEntry" then some DictKind.selfEntry else if k = "noStore" then some DictKind.noStore else none)
      let os ← (splitNE ops ",").mapM parseCOp
      let st := (crun kind os).collect kind
      some s!"ok {showNatList (sortNats (st.alive kind).eraseDups)}"
    | "visit" :: rest => do
      let (t, rest') ← parseTree (rest.length + 1) rest
      if rest' ≠ [] then none else
      some (match runVisitor t with
        | .ok cs => s!"ok {cs.length} " ++ showList (cs.map showCallRec) ";"
        | .error e => "err " ++ showErr e)
    | "render" :: rest => do
      let (p, rest') ← parseProg rest
      if rest' ≠ [] then none else some ("ok " ++ " ".intercalate (showTree (renderNamed subName p)))
    | "progok" :: rest => do
      let (p, rest') ← parseProg rest
      if rest' ≠ [] then none else some (toString p.ok)
    | "ptruth" :: rest => do
      let (p, rest') ← parseProg rest
      if rest' ≠ [] then none else some (showCalls ((truth p).map (FwdCall.toRec p)))
    | "pvisit" :: rest => do
      let (p, rest') ← parseProg rest
      if rest' ≠ [] then none else
      some (match runVisitor (renderNamed subName p) with
        | .ok cs => showCalls (forwarding cs)
        | .error e => "err " ++ showErr e)
    | "pauto" :: pm :: k :: rest => do
      let (tbl, rest) ← parseResolve (← k.toNat?) rest
      let (own, rest) ← parseSig rest
      let (p, rest') ← parseProg rest
      if rest' ≠ [] then none else
      some (match runVisitor (renderNamed subName p) with
        | .ok cs => showRes (discovered own (resolveWith tbl pm) (some cs))
        | .error e => "err " ++ showErr e)
    | "pautom" :: pm :: k :: rest => do
      -- the wrapper is a method, retrieved through an instance
      let (tbl, rest) ← parseResolve (← k.toNat?) rest
      let (own, rest) ← parseSig rest
      let (p, rest') ← parseProg rest
      if rest' ≠ [] then none else
      some (match runVisitor (renderNamed subName p) with
        | .ok cs => showRes (discoveredMethod own (resolveWith tbl pm) (some cs))
        | .error e => "err " ++ showErr e)
    | "pautop" :: n :: kw :: pobj :: pm :: k :: rest => do
      -- functools.partial(wrapper, <n positionals>, **kw)
      let (tbl, rest) ← parseResolve (← k.toNat?) rest
      let (own, rest) ← parseSig rest
      let (p, rest') ← parseProg rest
      if rest' ≠ [] then none else
      let kws ← parsePairs kw "."
      let n' ← n.toNat?
      let po ← pobj.toNat?
      some (match runVisitor (renderNamed subName p) with
        | .ok cs => showRes (discoveredPartial own (resolveWith tbl pm) (some cs) n' kws po)
        | .error e => "err " ++ showErr e)
    | "pautoh" :: pp :: ww :: pm :: k :: rest => do
      -- the wrapper is decorated with modifiers.posoargs(*P) / kwoargs(*W): hint route
      let (tbl, rest) ← parseResolve (← k.toNat?) rest
      let (own, rest) ← parseSig rest
      let (p, rest') ← parseProg rest
      if rest' ≠ [] then none else
      let P ← parseNats pp "."
      let W ← parseNats ww "."
      some (match runVisitor (renderNamed subName p) with
        | .ok cs => showRes (discoveredHint own P W (resolveWith tbl pm) (some cs))
        | .error e => "err " ++ showErr e)
    | "wlist" :: lv :: [] => do
      -- wrappers.wrappers over a stack of levels, outermost first: S<w> = sigtools level, W = functools.wraps level
      let toks := if lv = "_" then [] else lv.splitOn "."
      let ls ← toks.mapM (fun t => if t = "W" then some WLevel.wraps
                                    else if t.startsWith "S" then (t.drop 1).toNat?.map WLevel.sig else none)
      some ("ok " ++ showNatList (wrappersNew (buildW ls)))
    | "pdeclared" :: pm :: k :: rest => do
      -- the same from the GROUND TRUTH instead of the visitor (C06's expected value)
      let (tbl, rest) ← parseResolve (← k.toNat?) rest
      let (own, rest) ← parseSig rest
      let (p, rest') ← parseProg rest
      if rest' ≠ [] then none else
      some (showRes (discovered own (resolveWith tbl pm) (some ((truth p).map (FwdCall.toRec p)))))
    | "readsigtext" :: rest => readSigTextOp rest   -- the whole of read_sig from the text
    | "resplit" :: rest => reSplitOp rest       -- str.split(',') + re_paramname.match(...).groups() (Model/ReadSigText.lean)
    | "readsig" :: rest => readSigOp rest       -- support.read_sig on pieces (Model/ReadSig.lean)
    | "stext" :: rest => sTextOp rest           -- the parameters of support.s(text, …)
    | "pieces" :: rest => piecesOp rest         -- the native text of a signature, piece by piece
    | "cacheid" :: rest => SV.cacheIdOp rest   -- which instance a looked-up wrapper is bound to (Model/CacheId.lean)
    | "examine" :: n :: f :: ss :: hh :: [] => do
      -- guard events of the retrieval of f in a functional call graph (Model/Examine.lean)
      let n' ← n.toNat?
      let f' ← f.toNat?
      let succs ← parseNats ss "."
      let hs ← parseNats hh "."
      let g : SV.FGraph := { succ := fun i => match succs[i]? with
                                        | some c => if c < n' then some c else none
                                        | none => none,
                             hinted := fun i => hs[i]? == some 1 }
      let nm : Option Nat → String := fun o => match o with | some x => toString x | none => "t"
      some (match SV.examineTrace g n' f' with
        | some t => "ok " ++ ",".intercalate (t.map (fun e => match e with
            | .enter o d => s!"E{nm o}@{d}"
            | .uf o => s!"U{nm o}"
            | .ok x => s!"K{x}"))
        | none => "err assertion")
    | "chain" :: rest => SV.chainOp rest       -- the fallback chain of forged_signature (Model/Chain.lean)
    | "makeup" :: ex :: p :: [] => do
      let cs := makeUpCallsigs (← parseParams p) (← parseNats ex ".")
      let strs := cs.map (fun c => s!"{showNatList c.1}|{showNatList ((c.2.toArray.qsort (· < ·)).toList)}")
      some (s!"ok {cs.length} " ++ ";".intercalate ((strs.toArray.qsort (· < ·)).toList))
    | _ => none
  r.getD "bad-op"

end SV.Proto
