/-
  Model/Merge.lean — `_Merger._merge` phase by phase, `_concile_meta`, `merge`.

  One Lean definition per Python method, same branch order, one explicit error point
  per Python operation that can raise.  `self.*` of the `_Merger` instance is the
  record `MState`; the two `iter(...pokargs)` iterators are list suffixes.
-/
import Sigverif.Model.Sort
namespace SV

/-- `_Merger._concile_meta(left, right)` = `left.replace(default, annotation, upgraded_annotation)` -/
def concile (l r : Param) : Param :=
  let d : Option Nat :=
    match l.dflt, r.dflt with
    | some a, some b => if a = b then some a else some 0      -- differing defaults → None
    | _, _ => none
  let au : Option Nat × UAnn :=
    match l.ann, r.ann with
    | some a, some b => if a = b then (some a, l.uann) else (none, .empty)
    | some a, none => (some a, l.uann)
    | none, some b => (some b, r.uann)
    | none, none => (none, .empty)
  { l with dflt := d, ann := au.1, uann := au.2 }

/-- `_add_sources(ret_src, name, *from_sources)` -/
def addSources (ret : Srcs) (name : Nat) (frm : List Srcs) : Srcs :=
  dset ret name (sget ret name ++ (frm.map (fun s => sget s name)).flatten)

/-- `_add_all_sources(ret_src, params, from_source)` -/
def addAllSources (ret : Srcs) (ps : List Param) (frm : Srcs) : Srcs :=
  ps.foldl (fun acc p => dset acc p.name (sget acc p.name ++ sget frm p.name)) ret

structure MState where
  pos : List Param := []
  pok : List Param := []
  kwo : List Param := []
  src : Srcs := []
  /-- `varargs_src[0] / [1]` not (yet) set to None by `_exclude_from_seq` -/
  vaL : Bool
  vaR : Bool
  vkL : Bool
  vkR : Bool
  lUn : List Param := []     -- l_unmatched_kwoargs
  rUn : List Param := []     -- r_unmatched_kwoargs
  deriving Repr

/-- which operand an "existing" parameter came from -/
inductive Side where | L | R deriving DecidableEq, Repr

/-- phase K, first loop: matched keyword-only parameters and `l_unmatched_kwoargs` -/
def phaseK1 (l r : Sorted) : List Param → MState → MState
  | [], st => st
  | p :: ps, st =>
    match pget r.kwo p.name with
    | some q =>
      phaseK1 l r ps { st with
        kwo := pset st.kwo (concile p q),
        src := dset st.src p.name (sget l.src p.name ++ sget r.src p.name) }
    | none => phaseK1 l r ps { st with lUn := pset st.lUn p }

/-- phase K, second loop: `r_unmatched_kwoargs` -/
def phaseK2 (l : Sorted) : List Param → MState → MState
  | [], st => st
  | p :: ps, st =>
    if phas l.kwo p.name then phaseK2 l ps st
    else phaseK2 l ps { st with rUn := pset st.rUn p }

/-- `_merge_unbalanced_pos(existing, src, convert_from, o_varargs, o_src)`;
    returns the new state and the advanced `convert_from` iterator. -/
def unbalancedPos (side : Side) (l r : Sorted) (existing : Param)
    (convertFrom : List Param) (st : MState) : Except Err (MState × List Param) :=
  let src := match side with | .L => l.src | .R => r.src
  let oSrc := match side with | .L => r.src | .R => l.src
  let oVa := match side with | .L => r.va | .R => l.va
  match convertFrom with
  | other :: rest =>
    -- the side the parameter is pulled from is credited too when it has the same name
    -- (as after `fix:` D16)
    .ok ({ st with pos := st.pos ++ [concile existing other],
                   src := if existing.name = other.name
                          then addSources st.src existing.name [src, oSrc]
                          else addSources st.src existing.name [src] }, rest)
  | [] =>
    if oVa.isSome then
      let st := { st with pos := st.pos ++ [existing],
                          src := addSources st.src existing.name [src] }
      -- `_exclude_from_seq(self.varargs_src, o_varargs)`
      .ok (match side with | .L => { st with vaR := false } | .R => { st with vaL := false }, [])
    else if existing.dflt.isNone then .error .valueError
    else .ok (st, [])

/-- phase P: `zip_longest(l.posargs, r.posargs)`; threads the two pok iterators. -/
def phaseP (l r : Sorted) :
    List Param → List Param → List Param → List Param → MState →
    Except Err (MState × List Param × List Param)
  | [], [], il, ir, st => .ok (st, il, ir)
  | lp :: ls, rp :: rs, il, ir, st =>
    let st := { st with
      pos := st.pos ++ [concile lp rp],
      src := if lp.name = rp.name then addSources st.src lp.name [l.src, r.src]
             else addSources st.src lp.name [l.src] }
    phaseP l r ls rs il ir st
  | lp :: ls, [], il, ir, st => do
    let (st, ir) ← unbalancedPos .L l r lp ir st
    phaseP l r ls [] il ir st
  | [], rp :: rs, il, ir, st => do
    let (st, il) ← unbalancedPos .R l r rp il st
    phaseP l r [] rs il ir st

/-- `_merge_unbalanced_pok(existing, src, o_varargs, o_varkwargs, o_kwargs_limbo, o_src)` -/
def unbalancedPok (side : Side) (l r : Sorted) (existing : Param) (st : MState) :
    Except Err MState :=
  let src := match side with | .L => l.src | .R => r.src
  let oSrc := match side with | .L => r.src | .R => l.src
  let oVa := match side with | .L => r.va | .R => l.va
  let oVk := match side with | .L => r.vk | .R => l.vk
  let limbo := match side with | .L => st.rUn | .R => st.lUn
  match pget limbo existing.name with
  | some q =>
    let st := { st with
      kwo := pset st.kwo ((concile existing q).withKind .ko),
      src := addSources st.src existing.name [oSrc, src] }
    .ok (match side with
      | .L => { st with rUn := ppop st.rUn existing.name }
      | .R => { st with lUn := ppop st.lUn existing.name })
  | none =>
    if oVa.isSome && oVk.isSome then
      .ok { st with pok := st.pok ++ [existing], src := addSources st.src existing.name [src] }
    else if oVk.isSome then
      .ok { st with kwo := pset st.kwo (existing.withKind .ko),
                    src := addSources st.src existing.name [src] }
    else if oVa.isSome then
      .ok { st with pos := st.pos ++ st.pok.map (·.withKind .po) ++ [existing.withKind .po],
                    pok := [],
                    src := addSources st.src existing.name [src] }
    else if existing.dflt.isNone then .error .valueError
    else .ok st

/-- phase Q: `zip_longest(il_pokargs, ir_pokargs)` over what phase P left. -/
def phaseQ (l r : Sorted) : List Param → List Param → MState → Except Err MState
  | [], [], st => .ok st
  | lp :: ls, rp :: rs, st =>
    if lp.name = rp.name then
      phaseQ l r ls rs { st with
        pok := st.pok ++ [concile lp rp],
        src := addSources st.src lp.name [l.src, r.src] }
    else
      -- name mismatch: everything so far and this one become positional-only and are
      -- flushed to the positional-only bucket (as after `fix:` D1)
      phaseQ l r ls rs { st with
        pos := st.pos ++ st.pok.map (·.withKind .po) ++ [(concile lp rp).withKind .po],
        pok := [],
        src := addSources st.src lp.name [l.src] }
  | lp :: ls, [], st => do
    let st ← unbalancedPok .L l r lp st
    phaseQ l r ls [] st
  | [], rp :: rs, st => do
    let st ← unbalancedPok .R l r rp st
    phaseQ l r [] rs st

/-- `_merge_unmatched_kwoargs(unmatched, o_varkwargs, from_src)` -/
def mergeUnmatched (side : Side) (l r : Sorted) (st : MState) : Except Err MState :=
  let un := match side with | .L => st.lUn | .R => st.rUn
  let oVk := match side with | .L => r.vk | .R => l.vk
  let frm := match side with | .L => l.src | .R => r.src
  if un.isEmpty then .ok st else
  if oVk.isSome then
    let st := { st with kwo := pupdate st.kwo un, src := addAllSources st.src un frm }
    .ok (match side with | .L => { st with vkR := false } | .R => { st with vkL := false })
  else if un.any (·.dflt.isNone) then .error .valueError
  else .ok st

/-- `_add_starargs(which, left, right)` -/
def addStarargs (l r : Sorted) (wL wR : Bool) (left right : Option Param) (src : Srcs) :
    Option Param × Srcs :=
  match left, right with
  | some lp, some rp =>
    if wL && wR then
      let ret := concile lp rp
      (some ret, if lp.name = rp.name then addSources src ret.name [l.src, r.src]
                 else addSources src ret.name [l.src])
    else if wL then (some lp, addSources src lp.name [l.src])
    else (some rp, addSources src rp.name [r.src])
  | _, _ => (none, src)

/-- `_Merger(l, r)._merge()` → the six fields the iterator yields -/
def mergeStep (l r : Sorted) : Except Err Sorted := do
  let st : MState := { vaL := l.va.isSome, vaR := r.va.isSome,
                       vkL := l.vk.isSome, vkR := r.vk.isSome }
  let st := phaseK1 l r l.kwo st
  let st := phaseK2 l r.kwo st
  let (st, il, ir) ← phaseP l r l.pos r.pos l.pok r.pok st
  let st ← phaseQ l r il ir st
  let st ← mergeUnmatched .L l r st
  let st ← mergeUnmatched .R l r st
  let (va, src) := addStarargs l r st.vaL st.vaR l.va r.va st.src
  let (vk, src) := addStarargs l r st.vkL st.vkR l.vk r.vk src
  pure { pos := st.pos, pok := st.pok, va := va, kwo := st.kwo, vk := vk,
         src := src, depths := mergeDepths l.depths r.depths }

/-- the fold of `merge`: any ValueError of a step becomes IncompatibleSignatures -/
def mergeFold : Sorted → List USig → Except Err Sorted
  | acc, [] => .ok acc
  | acc, s :: ss =>
    match mergeStep acc (sortParams s) with
    | .ok acc' => mergeFold acc' ss
    | .error _ => .error .incompatible

/-- `merge(*signatures)`; the `assert signatures` is the `assertion` error point -/
def merge : List USig → Except Err USig
  | [] => .error .assertion
  | s :: ss => do
    let r ← mergeFold (sortParams s) ss
    applyParams s r

end SV
