/-
  Model/Bind.lean — a model of CPython's argument binding (3.8+ rules), on call shapes.

  A call shape is `(n, K)`: `n` positional arguments and the duplicate-free list `K`
  of keyword names.  This is a *model* of the interpreter, validated on every run by
  really calling `def` functions (stream `bind`); CPython itself is not verified.

  Rule that matters for 3.8+: a keyword that names a positional-only parameter is not
  an error by itself — it goes to `**kwargs` when there is one.
-/
import Sigverif.Model.Basic
namespace SV

def isPositional (p : Param) : Bool := p.kind = .po || p.kind = .pk
def kwPassable (p : Param) : Bool := p.kind = .pk || p.kind = .ko
def isNamed (p : Param) : Bool := p.kind = .po || p.kind = .pk || p.kind = .ko

def positionals (s : List Param) : List Param := s.filter isPositional
def hasVa (s : List Param) : Bool := s.any (fun p => p.kind = .vp)
def hasVk (s : List Param) : Bool := s.any (fun p => p.kind = .vk)
def kwNames (s : List Param) : List Nat := (s.filter kwPassable).map (·.name)

/-- keywords are processed left to right against the set of already bound names -/
def bindKw (kwp : List Nat) (vk : Bool) : List Nat → List Nat → Option (List Nat)
  | bound, [] => some bound
  | bound, k :: ks =>
    if kwp.contains k then
      if bound.contains k then none else bindKw kwp vk (k :: bound) ks
    else if vk then bindKw kwp vk bound ks
    else none

def accepts (s : List Param) (n : Nat) (K : List Nat) : Bool :=
  let pos := positionals s
  if n > pos.length && !hasVa s then false else
  match bindKw (kwNames s) (hasVk s) ((pos.take n).map (·.name)) K with
  | none => false
  | some bound => (s.filter isNamed).all (fun p => !p.required || bound.contains p.name)

end SV
