/-
  Model/Visitor.lean — `sigtools._autoforwards.CallListerVisitor` over a generic AST.

  The tree has one constructor per node type the visitor treats specially (Name, Attribute, Call
  with its Starred / ** arguments, FunctionDef/Lambda, Nonlocal); EVERY other Python node type is
  `other` with its AST-valued fields in `ast.iter_fields` order as children — exactly what
  `ast.NodeVisitor.generic_visit` does — so the model covers the whole language, not a subset.
  (A *nested* `async def` has no handler in the class and is therefore an `other` node.)

  Markers: `Arg`, `Name`, `Attribute`, `Unknown`.  Marker objects are only ever compared by
  identity against the two markers created for the main function's `*args` / `**kwargs`, and only
  namespace entries can be tainted later, so an entry carries its `tainted` flag and a `tag`
  telling whether it IS the main function's star marker.
-/
import Sigverif.Model.Basic
namespace SV

inductive Ctx where | load | store | del deriving DecidableEq, Repr, Inhabited

mutual
  inductive Tree where
    | name (id : Nat) (ctx : Ctx)
    | attr (value : Tree) (a : Nat)
    | call (func : Tree) (args : ArgList) (kws : KwList)
    /-- FunctionDef / Lambda: parameter names and the body (defaults, decorators and annotations
        are not visited by the class) -/
    | fdef (po args kwo : List Nat) (va vk : Option Nat) (body : TreeList)
    | nonloc (names : List Nat)
    | other (children : TreeList)
  inductive TreeList where
    | nil
    | cons (t : Tree) (ts : TreeList)
  inductive ArgList where
    | nil
    | plain (t : Tree) (rest : ArgList)
    | starred (t : Tree) (rest : ArgList)
  inductive KwList where
    | nil
    | kw (name : Nat) (v : Tree) (rest : KwList)
    | dstar (v : Tree) (rest : KwList)
end

inductive StarTag where | va | vk deriving DecidableEq, Repr

/-- resolved marker, as stored in a call record -/
inductive RM where
  | arg (n : Nat) (tag : Option StarTag)
  | nm (n : Nat)
  | attr (v : RM) (a : Nat)
  | unknown
  deriving DecidableEq, Repr, Inhabited

/-- a namespace entry: the marker bound to a name -/
structure Entry where
  m : RM
  tainted : Bool := false
  deriving DecidableEq, Repr, Inhabited

structure NS where
  parent : Option Nat
  names : List (Nat × Entry) := []
  nonlocals : List (Nat × Nat) := []     -- name → namespace id
  imm : List Nat := []
  deriving Repr, Inhabited

structure CallRec where
  wrapped : RM
  args : List RM
  kwargs : List (Nat × RM)
  varargs : Option RM
  varkwargs : Option RM
  useVa : Bool
  useVk : Bool
  hideA : Bool
  hideK : Bool
  deriving DecidableEq, Repr, Inhabited

structure VState where
  nss : List NS
  cur : Nat := 0
  calls : List CallRec := []
  revisit : List (Tree × Nat) := []
  hasVa : Bool := false      -- self.varargs is not None
  hasVk : Bool := false

def VState.ns (st : VState) (i : Nat) : NS := st.nss.getD i { parent := none }
def VState.setNs (st : VState) (i : Nat) (n : NS) : VState := { st with nss := st.nss.set i n }

/-- `Namespace.__getitem__` (fuel = number of namespaces bounds the parent chain) -/
def nsLookup (st : VState) : Nat → Nat → Nat → Option (Nat × Entry)
  | 0, _, _ => none
  | fuel + 1, i, name =>
    let n := st.ns i
    let owner := (dget n.nonlocals name).getD i
    match dget (st.ns owner).names name with
    | some e => some (owner, e)
    | none => match n.parent with
      | some p => nsLookup st fuel p name
      | none => none

def VState.lookup (st : VState) (name : Nat) : Option (Nat × Entry) :=
  nsLookup st (st.nss.length + 1) st.cur name

/-- `Namespace.__setitem__` on the current namespace -/
def VState.assign (st : VState) (name : Nat) (e : Entry) : VState :=
  let n := st.ns st.cur
  let owner := (dget n.nonlocals name).getD st.cur
  let o := st.ns owner
  st.setNs owner { o with names := dset o.names name e, imm := o.imm.filter (· ≠ name) }

def VState.isImm (st : VState) (name : Nat) : Bool :=
  let n := st.ns st.cur
  let owner := (dget n.nonlocals name).getD st.cur
  (st.ns owner).imm.contains name

def VState.setImm (st : VState) (name : Nat) : VState :=
  let n := st.ns st.cur
  let owner := (dget n.nonlocals name).getD st.cur
  let o := st.ns owner
  st.setNs owner { o with imm := if o.imm.contains name then o.imm else name :: o.imm }

/-- `Namespace.add_nonlocal` -/
def addNonlocalGo (st : VState) : Nat → Option Nat → Nat → Option Nat
  | 0, _, _ => none
  | _ + 1, none, _ => none
  | fuel + 1, some i, name =>
    if dhas (st.ns i).names name then some i else addNonlocalGo st fuel (st.ns i).parent name

def VState.addNonlocal (st : VState) (name : Nat) : VState :=
  let n := st.ns st.cur
  match addNonlocalGo st (st.nss.length + 1) n.parent name with
  | some owner => st.setNs st.cur { n with nonlocals := dset n.nonlocals name owner }
  | none => st.setNs st.cur { n with names := dset n.names name { m := .nm name } }

/-- `visit_Name` -/
def visitName (st : VState) (id : Nat) (ctx : Ctx) : VState :=
  if st.isImm id && ctx = .load then st else st.assign id { m := .unknown }

/-- `process_parameters(args, main)`; positional-only parameters are registered too
    (as after `fix:` D9) -/
def processParams (st : VState) (po args kwo : List Nat) (va vk : Option Nat) (main : Bool) : VState :=
  let st := (po ++ args ++ kwo).foldl
    (fun st n => st.assign n { m := if main then .arg n none else .unknown }) st
  let st := match va with
    | some n => (st.assign n { m := .arg n (if main then some .va else none) }).setImm n
    | none => st
  let st := match vk with
    | some n => st.assign n { m := .arg n (if main then some .vk else none) }
    | none => st
  if main then { st with hasVa := va.isSome, hasVk := vk.isSome } else st

def isNameNode : Tree → Bool
  | .name _ _ => true
  | _ => false

/-- `ret.get_untainted()` -/
def untaint (r : RM × Bool) : RM := if r.2 then .unknown else r.1

/-- innermost value of an Attribute chain -/
def RM.instance : RM → RM
  | .attr v _ => v.instance
  | r => r

/-- `self.namespace[instance.name].tainted = node` -/
def VState.taint (st : VState) (name : Nat) : VState :=
  match st.lookup name with
  | some (owner, e) =>
    let o := st.ns owner
    st.setNs owner { o with names := dset o.names name { e with tainted := true } }
  | none => st

/-- `has_hide_starargs(found, original)` with `original` = the main function's star marker -/
def hasHide (found : Option RM) (origPresent : Bool) (tag : StarTag) : Bool × Bool :=
  match found with
  | none => (false, false)
  | some r =>
    match r with
    | .arg _ (some t) => if t = tag && origPresent then (true, false) else (false, true)
    | _ => (false, true)

def ArgList.starCount : ArgList → Nat
  | .nil => 0
  | .plain _ rest => rest.starCount
  | .starred _ rest => rest.starCount + 1

def KwList.dstarCount : KwList → Nat
  | .nil => 0
  | .kw _ _ rest => rest.dstarCount
  | .dstar _ rest => rest.dstarCount + 1

mutual
  /-- `self.visit(node)`.  `force` = process a Call now even in a nested namespace (used when
      the deferred calls are revisited). -/
  def visit (force : Bool) : Tree → VState → VState
    | .name id ctx, st => visitName st id ctx
    | .attr _ _, st => st                                   -- visit_Attribute: pass
    | .nonloc names, st => names.foldl VState.addNonlocal st
    | .other ch, st => visitList ch st
    | .fdef po args kwo va vk body, st =>
      let parent := st.cur
      let id := st.nss.length
      let st := { st with nss := st.nss ++ [{ parent := some parent }], cur := id }
      let st := processParams st po args kwo va vk false
      let st := visitList body st
      { st with cur := parent }
    | .call f as ks, st =>
      if !force && (st.ns st.cur).parent.isSome then
        { st with revisit := st.revisit ++ [(.call f as ks, st.cur)] }
      else
        -- process_Call
        let (w, st) := resolveCore f true st                -- resolve_name(func, ro=True, tainted=True)
        let st := if isNameNode f then st else visit false f st
        let wrapped := w.1
        let st := match wrapped with
          | .attr _ _ => match wrapped.instance with
            | .arg n _ => st.taint n
            | _ => st
          | _ => st
        let (args, st) := resolveArgs as st
        let (kwargs, st) := resolveKws ks st
        -- get_starargs / get_kwargs: none → None; exactly one → resolve_name(value, ro=True);
        -- several → Unknown(list), which is never visited
        let (va, st) :=
          if as.starCount = 0 then (none, st)
          else if as.starCount = 1 then resolveOnlyStar as st
          else (some RM.unknown, st)
        let (vk, st) :=
          if ks.dstarCount = 0 then (none, st)
          else if ks.dstarCount = 1 then resolveOnlyDstar ks st
          else (some RM.unknown, st)
        let (uva, ha) := hasHide va st.hasVa .va
        let (uvk, hk) := hasHide vk st.hasVk .vk
        { st with calls := st.calls ++ [{ wrapped := wrapped, args := args, kwargs := kwargs,
                                          varargs := va, varkwargs := vk,
                                          useVa := uva, useVk := uvk, hideA := ha, hideK := hk }] }

  def visitList : TreeList → VState → VState
    | .nil, st => st
    | .cons t ts, st => visitList ts (visit false t st)

  /-- the `try` part of `resolve_name` (result before `get_untainted`, with the tainted flag of
      the entry it came from) including the `finally` visits of the *inner* levels -/
  def resolveCore : Tree → Bool → VState → (RM × Bool) × VState
    | .name id _, _, st =>
      match st.lookup id with
      | some (_, e) => ((e.m, e.tainted), st)
      | none => ((.nm id, false), st)
    | .attr v a, tainted, st =>
      let (rv, st) := resolveCore v tainted st
      let rv' := if tainted then rv.1 else untaint rv
      let st := if isNameNode v then st else visit false v st     -- inner call has ro=True
      ((.attr rv' a, false), st)
    | _, _, st => ((.unknown, false), st)

  /-- `[self.resolve_name(arg) for arg in node.args if not isinstance(arg, Starred)]` -/
  def resolveArgs : ArgList → VState → List RM × VState
    | .nil, st => ([], st)
    | .starred _ rest, st => resolveArgs rest st
    | .plain t rest, st =>
      let (r, st) := resolveCore t false st
      let st := visit false t st                                    -- ro=False: always visited
      let (rs, st) := resolveArgs rest st
      (untaint r :: rs, st)

  def resolveKws : KwList → VState → List (Nat × RM) × VState
    | .nil, st => ([], st)
    | .dstar _ rest, st => resolveKws rest st
    | .kw n v rest, st =>
      let (r, st) := resolveCore v false st
      let st := visit false v st
      let (rs, st) := resolveKws rest st
      ((n, untaint r) :: rs, st)

  /-- the single Starred argument: `resolve_name(value, ro=True)` -/
  def resolveOnlyStar : ArgList → VState → Option RM × VState
    | .nil, st => (none, st)
    | .plain _ rest, st => resolveOnlyStar rest st
    | .starred t _, st =>
      let (r, st) := resolveCore t false st
      let st := if isNameNode t then st else visit false t st
      (some (untaint r), st)

  /-- the single `**` argument -/
  def resolveOnlyDstar : KwList → VState → Option RM × VState
    | .nil, st => (none, st)
    | .kw _ _ rest, st => resolveOnlyDstar rest st
    | .dstar v _, st =>
      let (r, st) := resolveCore v false st
      let st := if isNameNode v then st else visit false v st
      (some (untaint r), st)
end

/-- `for node, ns in self.to_revisit: self.namespace = ns; self.process_Call(node)` — the list
    may grow while it is iterated (Python iterates by index); `fuel` bounds the iterations. -/
def revisitLoop : Nat → Nat → VState → Option VState
  | 0, i, st => if i < st.revisit.length then none else some st
  | fuel + 1, i, st =>
    match st.revisit[i]? with
    | none => some st
    | some (node, ns) =>
      revisitLoop fuel (i + 1) (visit true node { st with cur := ns })

mutual
  def Tree.size : Tree → Nat
    | .name _ _ => 1
    | .attr v _ => v.size + 1
    | .call f as ks => f.size + as.size + ks.size + 1
    | .fdef _ _ _ _ _ body => body.size + 1
    | .nonloc _ => 1
    | .other ch => ch.size + 1
  def TreeList.size : TreeList → Nat
    | .nil => 0
    | .cons t ts => t.size + ts.size
  def ArgList.size : ArgList → Nat
    | .nil => 0
    | .plain t r => t.size + r.size
    | .starred t r => t.size + r.size
  def KwList.size : KwList → Nat
    | .nil => 0
    | .kw _ v r => v.size + r.size
    | .dstar v r => v.size + r.size
end

/-- `CallListerVisitor(func_ast)`: the root must be a function definition (`get_ast` returns
    None otherwise, as after `fix:` D8); anything else is the AttributeError of the pinned code. -/
def runVisitor : Tree → Except Err (List CallRec)
  | .fdef po args kwo va vk body =>
    let st : VState := { nss := [{ parent := none }] }
    let st := processParams st po args kwo va vk true
    let st := visitList body st
    match revisitLoop (body.size + 1) 0 st with
    | some st => .ok st.calls
    | none => .error .assertion        -- out of fuel: proved unreachable (visitor_total)
  | _ => .error .attributeError

end SV
