/-
  Model/Cleanup.lean — `cleanup_functools_wrapper` and the `as_forged` recursion guard as a step
  machine with crash points (C16), and the same machine run by several threads (C17).

  Attribute storage of the inspected object: an attribute can be present on the instance
  (deletable) and/or provided by the class (readable, `delattr` on the instance raises
  AttributeError).  `getattr` is a call into outside code when a descriptor/getter is involved, so
  it is a *crash point*: it may raise an arbitrary exception instead of answering.  So is the body
  of the `with` block (`inspect.signature`).  Plain `delattr`/`setattr` on the instance dict are not.
-/
import Sigverif.Model.Basic
namespace SV

inductive Attr where | wrapped | signature deriving DecidableEq, Repr

structure Store where
  instW : Option Nat := none     -- instance-level __wrapped__
  instS : Option Nat := none     -- instance-level __signature__
  clsW : Option Nat := none      -- class-level (read only through the instance)
  clsS : Option Nat := none
  deriving DecidableEq, Repr, Inhabited

def Store.inst (s : Store) : Attr → Option Nat
  | .wrapped => s.instW | .signature => s.instS
def Store.cls (s : Store) : Attr → Option Nat
  | .wrapped => s.clsW | .signature => s.clsS
/-- `getattr(obj, a)`: instance first, then class; `none` = AttributeError -/
def Store.get (s : Store) (a : Attr) : Option Nat := (s.inst a).orElse (fun _ => s.cls a)
def Store.setInst (s : Store) (a : Attr) (v : Option Nat) : Store :=
  match a with
  | .wrapped => { s with instW := v } | .signature => { s with instS := v }

/-- outcome of one run -/
structure Outcome where
  store : Store
  raised : Bool                  -- did an (injected) exception escape?
  calls : Nat                    -- number of outside calls made (crash points passed)
  deriving DecidableEq, Repr

/-- the k-th outside call raises when `fault = some k` -/
def crashes (fault : Option Nat) (callNo : Nat) : Bool := fault = some callNo

/-- `__exit__`: set every saved attribute back -/
def cleanupExit (s : Store) (saved : List (Attr × Nat)) : Store :=
  saved.foldl (fun st av => st.setInst av.1 (some av.2)) s

/-- the loop of `__enter__` over `attrs`, as after `fix:` D11: an attribute is recorded as saved
    only after it was really deleted.  Returns (store, saved, calls, crashed). -/
def cleanupEnter (fault : Option Nat) : List Attr → Store → List (Attr × Nat) → Nat →
    (Store × List (Attr × Nat) × Nat × Bool)
  | [], s, saved, c => (s, saved, c, false)
  | a :: rest, s, saved, c =>
    -- getattr: outside call number c
    if crashes fault c then (s, saved, c + 1, true) else
    match s.get a with
    | none => cleanupEnter fault rest s saved (c + 1)               -- AttributeError: skip
    | some v =>
      match s.inst a with
      | none => cleanupEnter fault rest s saved (c + 1)              -- delattr fails: skip, nothing saved
      | some _ => cleanupEnter fault rest (s.setInst a none) (saved ++ [(a, v)]) (c + 1)

/-- `with cleanup_functools_wrapper(func): sig = signature(func)` -/
def cleanupRun (fault : Option Nat) (s : Store) : Outcome :=
  let (s1, saved, c, crashed) := cleanupEnter fault [.wrapped, .signature] s [] 0
  if crashed then
    -- `except BaseException: self.__exit__(); raise`
    { store := cleanupExit s1 saved, raised := true, calls := c }
  else
    -- body: one outside call (inspect.signature), then __exit__ in every case
    let bodyCrashes := crashes fault c
    { store := cleanupExit s1 saved, raised := bodyCrashes, calls := c + 1 }

/-! ### the as_forged guard -/

/-- `_AsForged.__get__`: `if obj in computing: raise AttributeError; try: add; signature(obj)
    finally: discard`.  Returns (guard after, raised). -/
def asForgedGet (fault : Option Nat) (guard : List Nat) (obj : Nat) : (List Nat × Bool) :=
  if guard.contains obj then (guard, true) else
  let g := obj :: guard
  let crashed := crashes fault 0          -- the nested retrieval is the outside call
  (g.filter (· ≠ obj), crashed)

/-! ### several threads (C17) -/

/-- program counter of one thread running `cleanupRun` (fault-free) -/
inductive PC where
  | getW | delW (v : Nat) | getS | delS (v : Nat) | body | exitW | exitS | done
  deriving DecidableEq, Repr

structure Thread where
  pc : PC := .getW
  savedW : Option Nat := none
  savedS : Option Nat := none
  /-- what the body saw: was `__wrapped__` visible (then the answer follows the wrapped function
      instead of being the function's own signature) -/
  sawWrapped : Option Bool := none
  deriving DecidableEq, Repr

structure World where
  store : Store
  threads : List Thread
  deriving DecidableEq, Repr

/-- one atomic step of thread `t` -/
def stepThread (s : Store) (t : Thread) : Store × Thread :=
  match t.pc with
  | .getW => match s.get .wrapped with
    | some v => (s, { t with pc := .delW v })
    | none => (s, { t with pc := .getS })
  | .delW v => match s.inst .wrapped with
    | some _ => (s.setInst .wrapped none, { t with pc := .getS, savedW := some v })
    | none => (s, { t with pc := .getS })
  | .getS => match s.get .signature with
    | some v => (s, { t with pc := .delS v })
    | none => (s, { t with pc := .body })
  | .delS v => match s.inst .signature with
    | some _ => (s.setInst .signature none, { t with pc := .body, savedS := some v })
    | none => (s, { t with pc := .body })
  | .body => (s, { t with pc := .exitW, sawWrapped := some (s.get .wrapped).isSome })
  | .exitW => (match t.savedW with | some v => s.setInst .wrapped (some v) | none => s, { t with pc := .exitS })
  | .exitS => (match t.savedS with | some v => s.setInst .signature (some v) | none => s, { t with pc := .done })
  | .done => (s, t)

def World.step (w : World) (i : Nat) : World :=
  match w.threads[i]? with
  | none => w
  | some t =>
    let (s', t') := stepThread w.store t
    { store := s', threads := w.threads.set i t' }

def World.run (w : World) (schedule : List Nat) : World := schedule.foldl World.step w

def World.init (s : Store) (n : Nat) : World := { store := s, threads := List.replicate n {} }

def World.quiescent (w : World) : Prop := ∀ t ∈ w.threads, t.pc = .done

end SV
