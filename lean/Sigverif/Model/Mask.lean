/-
  Model/Mask.lean — `_mask` (plain and partial mode), `mask`, `forwards`,
  `signatures.signature` of a `functools.partial`.
-/
import Sigverif.Model.Embed
namespace SV

structure HideFlags where
  args : Bool := false
  kwargs : Bool := false
  varargs : Bool := false
  varkwargs : Bool := false
  deriving DecidableEq, Repr, Inhabited

/-- `_pop_chain(posargs, pokargs)` consumed `n` times: what is popped and what remains.
    Returns `(consumed names, pos', pok', exhausted)` where `exhausted` means the
    `for … else` clause ran (the chain ended before `consume` reached 0). -/
def popChain : Nat → List Param → List Param → List Nat → (List Nat × List Param × List Param × Bool)
  | 0, pos, pok, acc => (acc, pos, pok, false)
  | n + 1, p :: pos, pok, acc =>
    if n = 0 then (acc ++ [p.name], pos, pok, false) else popChain n pos pok (acc ++ [p.name])
  | n + 1, [], p :: pok, acc =>
    if n = 0 then (acc ++ [p.name], [], pok, false) else popChain n [] pok (acc ++ [p.name])
  | _ + 1, [], [], acc => (acc, [], [], true)

def removeFromSrc (src : Srcs) (ns : List Nat) : Srcs := ns.foldl dpop src

/-- index of the first parameter equal to `p` (`list.index`, which raises ValueError) -/
def indexOf? (ps : List Param) (p : Param) : Option Nat :=
  match ps with
  | [] => none
  | q :: t => if q = p then some 0 else (indexOf? t p).map (· + 1)

structure KState where
  pok : List Param
  va : Option Param
  kwo : List Param
  src : Srcs
  consumed : List Nat
  byName : List Param       -- `pokargs_by_name`
  deriving Repr

/-- `varargs and varargs.name == name or varkwargs.name == name` -/
def starNamed (va vk : Option Param) (name : Nat) : Bool :=
  (match va with | some a => a.name == name | none => false) ||
  (match vk with | some k => k.name == name | none => false)

/-- one iteration of `for kwarg_name in named_args`.  `pv` is `some (value, partial_obj)`
    in partial mode. -/
def maskName (vk : Option Param) (st : KState) (name : Nat) (pv : Option (Nat × Nat)) :
    Except Err KState :=
  if st.consumed.contains name then .error .valueError else
  match pget st.byName name with
  | some bp =>
    match indexOf? st.pok bp with
    | none => .error .valueError           -- `list.index` → ValueError
    | some i =>
      let before := st.pok.take i
      let param := st.pok.getD i bp
      let conv := st.pok.drop (i + 1)
      let kwo := pupdate st.kwo (conv.map (·.withKind .ko))
      let (kwo, src) := match pv with
        | some (v, _) => (pset kwo ((param.withKind .ko).withDflt (some v)), st.src)
        | none => (kwo, dpop st.src name)
      let src := match st.va with | some a => dpop src a.name | none => src
      -- the lookup table is rebuilt from what is still positional-or-keyword
      -- (as after `fix:` D2)
      .ok { pok := before, va := none, kwo := kwo, src := src,
            consumed := st.consumed ++ [name], byName := before }
  | none =>
    match pget st.kwo name with
    | some param =>
      match pv with
      | some (v, _) =>
        .ok { st with kwo := pset st.kwo ((param.withKind .ko).withDflt (some v)),
                      consumed := st.consumed ++ [name] }
      | none =>
        .ok { st with src := dpop st.src name, kwo := ppop st.kwo name,
                      consumed := st.consumed ++ [name] }
    | none =>
      if vk.isNone then .error .valueError else
      match pv with
      | some (v, pobj) =>
        -- a keyword named like a remaining star parameter is absorbed silently (as after `fix:` D51)
        if starNamed st.va vk name then .ok { st with consumed := st.consumed ++ [name] } else
        .ok { st with kwo := pset st.kwo { name := name, kind := .ko, dflt := some v },
                      src := dset st.src name [pobj],
                      consumed := st.consumed ++ [name] }
      | none => .ok { st with consumed := st.consumed ++ [name] }

def maskNames (vk : Option Param) : KState → List (Nat × Option (Nat × Nat)) → Except Err KState
  | st, [] => .ok st
  | st, (n, pv) :: rest => do
    let st ← maskName vk st n pv
    maskNames vk st rest

/-- `_mask(sig, num_args, hide_args, hide_kwargs, hide_varargs, hide_varkwargs,
          named_args, partial_obj)`.
    `named` is the tuple of names (plain mode, `pobj = none`) or the items of the keyword
    dict (partial mode, `pobj = some id`). -/
def maskCore (sig : USig) (n : Nat) (h : HideFlags) (named : List (Nat × Nat))
    (pobj : Option Nat) : Except Err USig := do
  let s := sortParams sig
  let byName := s.pok      -- dict(name → param); names are unique in a valid signature
  let (consumed, pos, pok) ←
    (if h.args then pure (names s.pos ++ names s.pok, [], [])
     else if n ≠ 0 then
       let (c, pos, pok, exhausted) := popChain n s.pos s.pok []
       if exhausted && s.va.isNone then .error .valueError else pure (c, pos, pok)
     else pure ([], s.pos, s.pok) : Except Err (List Nat × List Param × List Param))
  let src := removeFromSrc s.src consumed
  let (va, src) :=
    if h.args || h.varargs then
      (none, match s.va with | some a => dpop src a.name | none => src)
    else (s.va, src)
  let (pok, kwo, src, named) :=
    if h.kwargs then
      ([], [], removeFromSrc (removeFromSrc src (names pok)) (names s.kwo), [])
    else (pok, s.kwo, src, named)
  let st : KState := { pok := pok, va := va, kwo := kwo, src := src,
                       consumed := consumed, byName := byName }
  let st ← maskNames s.vk st (named.map (fun nv => (nv.1, pobj.map (fun o => (nv.2, o)))))
  let (vk, src) :=
    if h.kwargs || h.varkwargs then
      (none, match s.vk with | some k => dpop st.src k.name | none => st.src)
    else (s.vk, st.src)
  let (src, depths) := match pobj with
    | some o => (src, dset (copyDepths s.depths 1) o 0)
    | none => (src, s.depths)
  applyParams sig { pos := pos, pok := st.pok, va := st.va, kwo := st.kwo, vk := vk,
                    src := src, depths := depths }

/-- `mask(sig, num_args, *named_args, hide_*)` -/
def mask (sig : USig) (n : Nat) (nms : List Nat) (h : HideFlags) : Except Err USig :=
  maskCore sig n h (nms.map (fun x => (x, 0))) none

/-- `signatures.signature(partial(f, *a, **k))` given `set_default_sources(sig f, f)`:
    `_mask(sig, len(a), False × 4, k, partial_obj)` -/
def maskPartial (sig : USig) (n : Nat) (kw : List (Nat × Nat)) (pobj : Nat) : Except Err USig :=
  maskCore sig n {} kw (some pobj)

/-- `forwards(outer, inner, num_args, *named_args, hide_args, hide_kwargs,
             use_varargs, use_varkwargs, partial)` -/
def forwards (outer inner : USig) (n : Nat) (nms : List Nat)
    (hideArgs hideKwargs uva uvk partial_ : Bool) : Except Err USig := do
  let inner ←
    (if partial_ then do
      let ps := inner.params.map (fun p =>
        if p.kind = .vp || p.kind = .vk then p else p.withDflt (some 0))
      validate ps         -- `inner.replace(parameters=params)` re-validates
      pure { inner with params := ps }
    else pure inner : Except Err USig)
  let m ← mask inner n nms { args := hideArgs, kwargs := hideKwargs }
  embed uva uvk [outer, m]

/-! ### retrieval of a bound method / a class from a function that carries a stored signature -/

/-- what `inspect.signature` does with a stored `__signature__` for a bound method or a class: the receiver is removed
    from the parameters; what it does not know about (the provenance maps) is carried over by `replace(parameters=…)` -/
def dropReceiver (sig : USig) : USig := { sig with params := sig.params.tail }

/-- the tail of `signatures.signature` (as after `fix:` D56): entries of parameters that are gone are dropped -/
def pruneSrc (sig : USig) : USig :=
  { sig with src := sig.src.filter (fun e => (names sig.params).contains e.1) }

def retrieveBound (sig : USig) : USig := pruneSrc (dropReceiver sig)

end SV
