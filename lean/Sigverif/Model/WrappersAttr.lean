/-
  Model/WrappersAttr.lean — `wrappers.wrappers(obj)` at the level of the attributes it reads.

  A stack is a list of levels, outermost first, over a plain function:
    * `sig w`  : a `wrappers.decorator` / `wrapper_decorator` object made with wrapper function `w`:
                 `update_wrapper` copies the `__dict__` of what it wraps, then `_sigtools__wrappers`
                 is set to a NEW tuple `(w,)`
    * `wraps`  : an ordinary `functools.wraps` wrapper: `update_wrapper` copies the `__dict__` of what
                 it wraps — including `_sigtools__wrappers`, the very same tuple object
  Every object has `__wrapped__` = the next one.  A tuple is identified by the level that made it.
-/
import Sigverif.Model.Basic
namespace SV

inductive WLevel where
  | sig (w : Nat)
  | wraps
  deriving DecidableEq, Repr

/-- the `_sigtools__wrappers` attribute of an object: `(identity of the tuple, wrapper function)` -/
abbrev WAttr := Option (Nat × Nat)

/-- the attribute of every object of the stack, outermost first; the last entry is the plain function -/
def buildW : List WLevel → List WAttr
  | [] => [none]
  | .sig w :: rest => some (rest.length, w) :: buildW rest
  | .wraps :: rest => ((buildW rest).head?.getD none) :: buildW rest

/-- `wrappers.wrappers` as after `fix:` D43: a level whose attribute is the tuple of the object it
    wraps is skipped; the walk ends at the first object without the attribute -/
def wrappersNew : List WAttr → List Nat
  | [] => []
  | none :: _ => []
  | some (id, w) :: rest =>
    (if ((rest.head?.getD none).map (·.1)) = some id then [] else [w]) ++ wrappersNew rest

/-- the pinned code: every object that has the attribute yields it -/
def wrappersOld : List WAttr → List Nat
  | [] => []
  | none :: _ => []
  | some (_, w) :: rest => w :: wrappersOld rest

def sigOf : WLevel → Option Nat
  | .sig w => some w
  | .wraps => none

end SV
