/-
  Model/Basic.lean — data types shared by the whole model.

  Import-free (Lean core only) so that the driver can be compiled as a `lean_exe`.

  Correspondence with sigtools (sigtools/_signatures.py):
    Param   ↔ UpgradedParameter (name, kind, default, annotation, upgraded_annotation)
    USig    ↔ UpgradedSignature (parameters, return_annotation,
                                  upgraded_return_annotation, sources incl. '+depths')
    Sorted  ↔ SortedParameters(posargs, pokargs, varargs, kwoargs, varkwargs, sources)
    Err     ↔ the exception classes that can leave the algebra

  Names, default values, annotation values and callables are natural-number tokens;
  the harness owns the table token ↔ Python object.  Default token 0 is Python's
  `None` (the only default value the algebra itself ever introduces).
-/
namespace SV

inductive Kind where
  | po | pk | vp | ko | vk
  deriving DecidableEq, Repr, Inhabited

/-- `inspect._ParameterKind` is an IntEnum; the Signature constructor compares kinds. -/
def Kind.rank : Kind → Nat
  | .po => 0 | .pk => 1 | .vp => 2 | .ko => 3 | .vk => 4

/-- UpgradedAnnotation: `EmptyAnnotation`, `_PreEvaluatedAnnotation v`,
    `_PostponedAnnotation raw fn`. -/
inductive UAnn where
  | empty
  | pre (v : Nat)
  | post (raw : Nat) (fn : Nat)
  deriving DecidableEq, Repr, Inhabited

structure Param where
  name : Nat
  kind : Kind
  dflt : Option Nat := none
  ann  : Option Nat := none
  uann : UAnn := .empty
  deriving DecidableEq, Repr, Inhabited

/-- Python dict `name -> [callables]` (the `sources` map without its '+depths' entry),
    in insertion order. -/
abbrev Srcs := List (Nat × List Nat)
/-- The '+depths' entry: callable -> depth, in insertion order. -/
abbrev Depths := List (Nat × Nat)

structure USig where
  params : List Param
  src    : Srcs := []
  depths : Depths := []
  ret    : Option Nat := none
  uret   : UAnn := .empty
  deriving DecidableEq, Repr, Inhabited

structure Sorted where
  pos : List Param := []
  pok : List Param := []
  va  : Option Param := none
  kwo : List Param := []        -- OrderedDict keyed by `name`
  vk  : Option Param := none
  src : Srcs := []
  depths : Depths := []
  deriving DecidableEq, Repr, Inhabited

/-- Exception classes.  `incompatible` is `IncompatibleSignatures` (a ValueError subclass). -/
inductive Err where
  | valueError | incompatible | typeError | keyError | attributeError | indexError
  | assertion | unknownForwards | unresolvableName | notImplemented | stopIteration
  deriving DecidableEq, Repr, Inhabited

def Err.isValueError : Err → Bool
  | .valueError | .incompatible | .unknownForwards | .unresolvableName => true
  | _ => false

/-! ### Python dict operations on association lists (insertion ordered) -/

section Dict
variable {α : Type}

def dget (d : List (Nat × α)) (k : Nat) : Option α :=
  match d with
  | [] => none
  | (k', v) :: t => if k' = k then some v else dget t k

def dhas (d : List (Nat × α)) (k : Nat) : Bool := (dget d k).isSome

/-- `d[k] = v` : replace in place when present, append otherwise. -/
def dset (d : List (Nat × α)) (k : Nat) (v : α) : List (Nat × α) :=
  match d with
  | [] => [(k, v)]
  | (k', v') :: t => if k' = k then (k, v) :: t else (k', v') :: dset t k v

/-- `d.pop(k, None)` -/
def dpop (d : List (Nat × α)) (k : Nat) : List (Nat × α) :=
  d.filter (fun e => e.1 ≠ k)

/-- `d.update(e)` / `dict(d, **e)` -/
def dupdate (d e : List (Nat × α)) : List (Nat × α) :=
  e.foldl (fun acc kv => dset acc kv.1 kv.2) d

def dkeys (d : List (Nat × α)) : List Nat := d.map (·.1)

end Dict

/-- `src.get(name, ())` -/
def sget (s : Srcs) (k : Nat) : List Nat := (dget s k).getD []

/-! ### OrderedDict of parameters keyed by their own name -/

def pget (d : List Param) (k : Nat) : Option Param := d.find? (fun p => p.name = k)
def phas (d : List Param) (k : Nat) : Bool := d.any (fun p => p.name = k)

/-- `d[p.name] = p` -/
def pset (d : List Param) (p : Param) : List Param :=
  match d with
  | [] => [p]
  | q :: t => if q.name = p.name then p :: t else q :: pset t p

def ppop (d : List Param) (k : Nat) : List Param := d.filter (fun p => p.name ≠ k)

/-- `d.update(e)` where `e` is keyed by name too -/
def pupdate (d e : List Param) : List Param := e.foldl pset d

def names (ps : List Param) : List Nat := ps.map (·.name)

def Param.required (p : Param) : Bool := p.dflt.isNone

def Param.withKind (p : Param) (k : Kind) : Param := { p with kind := k }
def Param.withDflt (p : Param) (d : Option Nat) : Param := { p with dflt := d }

/-- all parameters of a signature in `apply_params` order -/
def Sorted.all (s : Sorted) : List Param :=
  s.pos ++ s.pok ++ s.va.toList ++ s.kwo ++ s.vk.toList

end SV
