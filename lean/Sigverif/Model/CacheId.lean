/-
  Model/CacheId.lean — `OverrideableDataDesc.__get__` (sigtools/_util.py) with the IDENTITY of the
  cached wrappers made explicit (C18: "... each bound to the right instance").

  Model/Cache.lean studies the same dictionary as a reachability problem and ASSUMES that a lookup
  on instance i returns the wrapper of instance i (`wrapperFor _ i = i`).  Here that assumption is
  what is modelled:

      def __get__(self, instance, owner):
          func = type(self.func).__get__(self.func, instance, owner)   # bound method, or self.func
          try: return self.insts[func]                                 # WeakValueDictionary
          except KeyError: pass
          ret = self if func is self.func else self.custom_getter(func, original=self)
          self.insts[func] = ret
          return ret

  The dictionary key is the BOUND METHOD `func`.  Python compares bound methods by
  `m1.__self__ is m2.__self__ and m1.__func__ == m2.__func__` and hashes them with `id(m.__self__)`:
  the dictionary is keyed by the IDENTITY of the instance, also when the class overrides `__eq__` /
  `__hash__` so that two different instances are equal as values.  `KeyMode.identity` is that
  behaviour; `KeyMode.equality` is what a dictionary keyed by the instance itself (or by
  `(instance, owner)`) would do: keys match when the instances are EQUAL.

  Objects:
    instances  `Inst` = (id, eqClass): `id` is the object identity (one id = one object for the whole
               history), `eqClass` the value `__eq__`/`__hash__` look at;
    wrappers   a serial number `wid` (the object identity of the wrapper) and `wrapperInst`, the id of
               the instance the wrapper's bound method is bound to (`wrapper.func.__self__`);
    entries    `func ↦ wrapper`: `key` is the instance of the bound method used as key (held
               strongly), the wrapper is held weakly: the entry dies (at the next `gc`) when the
               caller holds no reference to the wrapper.
  Access through the class (`__get__(None, owner)`): `func is self.func`, the descriptor itself is
  returned and stored under the plain function (`selfEntry`); no bound method ever equals the plain
  function, so this entry never takes part in a lookup on an instance.  `owner` is only passed on to
  `function.__get__`, which ignores it when `instance` is not None.

  Core Lean only (compiled into the driver).
-/
import Sigverif.Model.Cache
namespace SV

structure Inst where
  id : Nat
  eqClass : Nat
  deriving DecidableEq, Repr

inductive KeyMode where
  | identity    -- keys match iff same object (the real code: bound-method keys)
  | equality    -- keys match iff equal as values (instance-keyed dictionary)
  deriving DecidableEq, Repr

def KeyMode.matches : KeyMode → Inst → Inst → Bool
  | .identity, a, b => a.id == b.id
  | .equality, a, b => a.eqClass == b.eqClass

structure IEntry where
  key : Inst            -- `func.__self__` of the bound method used as dictionary key
  wrapperInst : Nat     -- id of the instance the cached wrapper is bound to
  wid : Nat             -- identity of the wrapper object
  deriving DecidableEq, Repr

inductive IOp where
  | get (i : Nat)            -- `w = inst_i.method`: the caller keeps the wrapper (in slot i)
  | call (i : Nat)           -- `inst_i.method(...)`: obtains the wrapper, calls it, drops it at once
  | dropWrapper (i : Nat)    -- the caller drops every wrapper it obtained THROUGH instance i
  | dropInst (i : Nat)       -- the caller drops its references to instance i
  | newInst (i : Nat) (c : Nat)  -- creates instance i with eqClass c (re-acquires it when i exists)
  | gc
  | cls                      -- `Class.method`: `__get__(None, owner)`
  deriving DecidableEq, Repr

/-- what a lookup answers -/
inductive IAns where
  | wrapper (wid : Nat) (boundTo : Nat)   -- the wrapper object `wid`, bound to instance `boundTo`
  | desc                                  -- the descriptor itself (class access)
  | noInst                                -- the caller holds no such instance: nothing to look up on
  deriving DecidableEq, Repr

structure IState where
  known : List Inst := []            -- every instance created so far (id ↦ eqClass)
  heldInst : List Nat := []          -- ids of the instances the caller references directly
  entries : List IEntry := []        -- the dictionary `insts` (per-instance entries)
  heldWrap : List (Nat × Nat) := []  -- (slot i, wid): wrappers the caller holds, obtained through instance i
  nextWid : Nat := 0                 -- identity of the next wrapper object to be created
  selfEntry : Bool := false          -- `insts[self.func] = self` exists (after a class access)
  deriving DecidableEq, Repr

def IState.instOf (s : IState) (i : Nat) : Option Inst := s.known.find? (fun k => k.id == i)

/-- `self.insts[func]` for the bound method of instance `k` -/
def IState.find (m : KeyMode) (s : IState) (k : Inst) : Option IEntry :=
  s.entries.find? (fun e => m.matches e.key k)

def addPair (l : List (Nat × Nat)) (p : Nat × Nat) : List (Nat × Nat) :=
  if l.contains p then l else p :: l

/-- `desc.__get__(instance, owner)`; `keep`: the caller keeps the result in slot `slot`.
    `owner` is not used: `function.__get__(instance, owner)` binds to `instance` whatever the owner
    (a subclass as owner makes no difference); with `instance = None` the function itself comes back
    and the descriptor is returned. -/
def descGet (m : KeyMode) (s : IState) (inst : Option Inst) (_owner : Nat) (keep : Option Nat) :
    IState × IAns :=
  match inst with
  | none => ({ s with selfEntry := true }, .desc)
  | some k =>
    match s.find m k with
    | some e =>
      ((match keep with
        | some slot => { s with heldWrap := addPair s.heldWrap (slot, e.wid) }
        | none => s), .wrapper e.wid e.wrapperInst)
    | none =>
      let e : IEntry := { key := k, wrapperInst := k.id, wid := s.nextWid }
      let s' := { s with entries := e :: s.entries, nextWid := s.nextWid + 1 }
      ((match keep with
        | some slot => { s' with heldWrap := addPair s'.heldWrap (slot, e.wid) }
        | none => s'), .wrapper e.wid k.id)

/-- the instance behind id `i`, if the caller holds it -/
def IState.heldInstOf (s : IState) (i : Nat) : Option Inst :=
  if s.heldInst.contains i then s.instOf i else none

/-- weak values: an entry disappears when the caller holds no reference to its wrapper -/
def IState.collect (s : IState) : IState :=
  { s with entries := s.entries.filter (fun e => s.heldWrap.any (fun h => h.2 == e.wid)) }

/-- one operation; the answer of a lookup (`get` / `call` / `cls`), `none` for the others -/
def istep (m : KeyMode) (s : IState) : IOp → IState × Option IAns
  | .get i =>
    match s.heldInstOf i with
    | none => (s, some .noInst)
    | some k => let r := descGet m s (some k) 0 (some i); (r.1, some r.2)
  | .call i =>
    match s.heldInstOf i with
    | none => (s, some .noInst)
    | some k => let r := descGet m s (some k) 0 none; (r.1, some r.2)
  | .cls => let r := descGet m s none 0 none; (r.1, some r.2)
  | .dropWrapper i => ({ s with heldWrap := s.heldWrap.filter (fun h => h.1 ≠ i) }, none)
  | .dropInst i => ({ s with heldInst := s.heldInst.filter (· ≠ i) }, none)
  | .newInst i c =>
    ({ s with known := (match s.instOf i with | some _ => s.known | none => ⟨i, c⟩ :: s.known),
              heldInst := addOnce s.heldInst i }, none)
  | .gc => (s.collect, none)

/-- run a history from state `s`: final state and the lookups made, each with its answer, in order -/
def irunFrom (m : KeyMode) : IState → List IOp → IState × List (IOp × IAns)
  | s, [] => (s, [])
  | s, op :: ops =>
    let r := istep m s op
    let rest := irunFrom m r.1 ops
    (rest.1, (match r.2 with | some a => [(op, a)] | none => []) ++ rest.2)

def irun (m : KeyMode) (ops : List IOp) : IState := (irunFrom m {} ops).1
def itrace (m : KeyMode) (ops : List IOp) : List (IOp × IAns) := (irunFrom m {} ops).2

/-- instances that are strongly reachable: held by the caller, key of an entry (the dictionary holds
    the bound method strongly) or `__self__` of a wrapper in the dictionary.  (A wrapper the caller
    holds always has its entry: the entry only goes when the wrapper is unreferenced.) -/
def IState.alive (s : IState) : List Nat :=
  s.heldInst ++ s.entries.map (·.key.id) ++ s.entries.map (·.wrapperInst)

/-! ### line protocol hook -/

def parseKeyMode : String → Option KeyMode
  | "identity" => some .identity
  | "equality" => some .equality
  | _ => none

def parseIOp (s : String) : Option IOp :=
  match s.splitOn ":" with
  | ["new", i, c] => do some (.newInst (← i.toNat?) (← c.toNat?))
  | ["get", i] => i.toNat?.map .get
  | ["call", i] => i.toNat?.map .call
  | ["dropw", i] => i.toNat?.map .dropWrapper
  | ["dropi", i] => i.toNat?.map .dropInst
  | ["gc"] => some .gc
  | ["cls"] => some .cls
  | _ => none

def showIAns : IAns → String
  | .wrapper _ b => toString b
  | .desc => "D"
  | .noInst => "X"

/-- an id denotes ONE object for the whole history: `new:<id>:<c>` twice with different `c` is a
    malformed request (a harness error), not something the model gives a meaning to -/
def consistentNews : List Inst → List IOp → Bool
  | _, [] => true
  | seen, .newInst i c :: ops =>
    (match seen.find? (fun k => k.id == i) with
     | some k => k.eqClass == c && consistentNews seen ops
     | none => consistentNews (⟨i, c⟩ :: seen) ops)
  | seen, _ :: ops => consistentNews seen ops

/-- request tokens: `<identity|equality> <ops>`; `<ops>` = `_` (empty history) or a comma-separated
    list of `new:<id>:<eqClass>` `get:<id>` `call:<id>` `dropw:<id>` `dropi:<id>` `gc` `cls`.
    Answer: one token per `get`/`call`/`cls`, joined by `.`: the id of the instance the returned
    wrapper is bound to, `D` (the descriptor, class access), `X` (the caller holds no instance <id>);
    `_` when the history makes no lookup.  `none` on a parse failure. -/
def cacheIdOp (toks : List String) : Option String :=
  match toks with
  | [ms, os] => do
    let m ← parseKeyMode ms
    let ops ← (if os = "_" then some [] else (os.splitOn ",").mapM parseIOp)
    if !consistentNews [] ops then none else
    let out := (itrace m ops).map (fun p => showIAns p.2)
    some (if out.isEmpty then "_" else ".".intercalate out)
  | _ => none

end SV
