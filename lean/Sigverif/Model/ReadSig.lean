/-
  Model/ReadSig.lean — sigtools.support: the string layer `read_sig` / `func_code` / `s`.

  `read_sig(sig_str, ret, use_modifiers_annotate, use_modifiers_posoargs, use_modifiers_kwoargs)` splits the
  text at commas, takes every piece apart with `re_paramname` and builds
      (names, return_annotation, annotations, posoarg_n, kwoarg_n, ', '.join(params), use_modifiers_annotate)
  from which `func_code` writes a `def` statement preceded by `@modifiers.annotate / posoargs / kwoargs` lines.

  The model starts AFTER the split and the regular expression: a `Piece` is what one comma-separated item
  denotes (`/`, a bare `*`, `<name>`, `*name`, `**name`, `name`, each with an optional annotation text and an
  optional default text; names and texts are tokens).  The loop of `read_sig` is mirrored statement by statement
  (`rsStep`), including the index bookkeeping (`chevron_index`, `default_index`, `params.insert(-1, …)`).
  `parseDef` is a MODEL of how CPython reads the parameter list of the generated `def` (validated against the
  real compiler by stream `stext`); the decorators are the model of `modifiers` (`prepare`, `annotate`).
-/
import Sigverif.Model.Modifiers
namespace SV

/-- one comma-separated item of the text -/
inductive Piece where
  | slash                                                   -- `/`
  | bare                                                    -- `*`
  | chev  (n : Nat) (ann dflt : Option Nat)                 -- `<n>`      (old spelling of a positional-only parameter)
  | star  (two : Bool) (n : Nat) (ann dflt : Option Nat)    -- `*n` / `**n`
  | plain (n : Nat) (ann dflt : Option Nat)                 -- `n`
  deriving DecidableEq, Repr, Inhabited

/-- one element of the list `params` (an item of the generated `def`'s parameter list) -/
inductive Item where
  | slash
  | bare
  | par (stars : Nat) (n : Nat) (ann dflt : Option Nat)
  deriving DecidableEq, Repr, Inhabited

/-- `params[-1].startswith('*')` -/
def Item.isStar : Item → Bool
  | .bare => true
  | .par s _ _ _ => decide (0 < s)
  | .slash => false

/-- `list.insert(i, x)` for `i ≥ 0` (an index past the end appends) -/
def insertAt (l : List Item) (i : Nat) (x : Item) : List Item := l.take i ++ x :: l.drop i

/-- `list.insert(-1, x)` on a non-empty list -/
def insertBeforeLast (l : List Item) (x : Item) : List Item := l.dropLast ++ x :: l.getLast?.toList

/-- the local variables of `read_sig` -/
structure RS where
  names : List Nat := []
  anns : List (Nat × Nat) := []          -- `annotations` (a dict)
  poso : List Nat := []                  -- `posoarg_n`
  kwo : List Nat := []                   -- `kwoarg_n`
  params : List Item := []
  foundStar : Bool := false
  va : Option Nat := none
  vk : Option Nat := none
  chev : Option Nat := none              -- `chevron_index`
  dfltIdx : Option Nat := none           -- `default_index`
  deriving DecidableEq, Repr, Inhabited

/-- the annotation and default handling shared by every named piece:
    `annotations[name] = annotation` or `insert += ": annotation"`; `default_index`; `insert += "=default"` -/
def rsMeta (ua : Bool) (st : RS) (i : Nat) (stars n : Nat) (ann dflt : Option Nat) : RS × Item :=
  let st := match ann with
    | some a => if ua then { st with anns := dset st.anns n a } else st
    | none => st
  let st := if dflt.isSome && st.dfltIdx.isNone
            then { st with dfltIdx := some (if st.foundStar then i - 1 else i) } else st
  (st, .par stars n (if ua then none else ann) dflt)

/-- `if chevron_index is not None and not use_modifiers_posoargs: params.insert(chevron_index + 1, "/")` -/
def rsChevFix (upo : Bool) (st : RS) : RS :=
  match st.chev with
  | some c => if upo then st else { st with params := insertAt st.params (c + 1) .slash, chev := none }
  | none => st

/-- the branch for an ordinary (non-star, non-slash) argument -/
def rsNamed (ukw : Bool) (st : RS) (n : Nat) (it : Item) (hasDflt : Bool) : RS :=
  if st.foundStar then
    if !ukw then { st with params := st.params ++ [it], names := st.names ++ [n] }
    else
      let st := { st with kwo := st.kwo ++ [n], names := st.names ++ [n] }
      match st.dfltIdx with
      | some d =>
        if !hasDflt then { st with params := insertAt st.params d it, dfltIdx := some (d + 1) }
        else if st.params.getLast?.any Item.isStar then { st with params := insertBeforeLast st.params it }
        else { st with params := st.params ++ [it] }
      | none =>
        if st.params.getLast?.any Item.isStar then { st with params := insertBeforeLast st.params it }
        else { st with params := st.params ++ [it] }
  else { st with params := st.params ++ [it], names := st.names ++ [n] }

/-- one iteration of `for i, param in enumerate(sig_str.split(','))` -/
def rsStep (ua upo ukw : Bool) (st : RS) (i : Nat) : Piece → RS
  | .slash =>
    if upo then { st with poso := st.poso ++ st.names }
    else { st with params := st.params ++ [.slash], chev := none }
  | .bare =>
    let st := rsChevFix upo { st with foundStar := true }
    if !ukw then { st with params := st.params ++ [.bare] } else st
  | .star two n ann dflt =>
    let (st, it) := rsMeta ua st i (if two then 2 else 1) n ann dflt
    let st := rsChevFix upo { st with foundStar := true }
    let st := { st with params := st.params ++ [it] }
    if two then { st with vk := some n } else { st with va := some n }
  | .chev n ann dflt =>
    let st := if upo then { st with poso := st.poso ++ [n] } else { st with chev := some i }
    let (st, it) := rsMeta ua st i 0 n ann dflt
    rsNamed ukw st n it dflt.isSome
  | .plain n ann dflt =>
    let (st, it) := rsMeta ua st i 0 n ann dflt
    rsNamed ukw st n it dflt.isSome

def rsLoop (ua upo ukw : Bool) : RS → Nat → List Piece → RS
  | st, _, [] => st
  | st, i, p :: ps => rsLoop ua upo ukw (rsStep ua upo ukw st i p) (i + 1) ps

/-- `read_sig` -/
def readSig (ua upo ukw : Bool) (ps : List Piece) : RS :=
  let st := rsLoop ua upo ukw {} 0 ps
  let st := rsChevFix upo st
  { st with names := st.names ++ st.va.toList ++ st.vk.toList }

/-! ### the generated `def`: a model of CPython's parameter-list grammar -/

inductive SErr where
  | syntaxError | valueError
  deriving DecidableEq, Repr, Inhabited

structure DefSt where
  out : List Param := []
  phase : Nat := 0          -- 0 before `/`; 1 after `/`; 2 after `*` or `*args`; 3 after `**kwargs`
  seenDflt : Bool := false
  needKw : Bool := false    -- a bare `*` must be followed by a named parameter
  deriving Repr

def defStep (st : DefSt) : Item → Except SErr DefSt
  | .slash =>
    if st.phase ≠ 0 || st.out.isEmpty then .error .syntaxError
    else .ok { st with out := st.out.map (·.withKind .po), phase := 1 }
  | .bare =>
    if st.phase ≤ 1 then .ok { st with phase := 2, needKw := true } else .error .syntaxError
  | .par 0 n ann dflt =>
    if st.phase ≤ 1 then
      if dflt.isNone && st.seenDflt then .error .syntaxError
      else .ok { st with out := st.out ++ [⟨n, .pk, dflt, ann, .empty⟩], seenDflt := st.seenDflt || dflt.isSome }
    else if st.phase = 2 then .ok { st with out := st.out ++ [⟨n, .ko, dflt, ann, .empty⟩], needKw := false }
    else .error .syntaxError
  | .par 1 n ann dflt =>
    if dflt.isSome || 1 < st.phase then .error .syntaxError
    else .ok { st with out := st.out ++ [⟨n, .vp, none, ann, .empty⟩], phase := 2 }
  | .par 2 n ann dflt =>
    if dflt.isSome || st.phase = 3 || st.needKw then .error .syntaxError
    else .ok { st with out := st.out ++ [⟨n, .vk, none, ann, .empty⟩], phase := 3 }
  | .par _ _ _ _ => .error .syntaxError

def defLoop : DefSt → List Item → Except SErr DefSt
  | st, [] => .ok st
  | st, it :: its => do
    let st ← defStep st it
    defLoop st its

def nodupNat : List Nat → Bool
  | [] => true
  | x :: xs => !xs.contains x && nodupNat xs

/-- the parameters of `def func(<items>)`, or SyntaxError -/
def parseDef (its : List Item) : Except SErr (List Param) := do
  let st ← defLoop {} its
  if st.needKw then .error .syntaxError
  if !nodupNat (st.out.map (·.name)) then .error .syntaxError
  pure st.out

def liftV {α : Type} : Except Err α → Except SErr α
  | .ok a => .ok a
  | .error _ => .error .valueError

/-- the parameters of `s(text, …)`: the `def` is compiled, then `kwoargs`, `posoargs` (one translator with both
    selections once stacked) and `annotate` are applied, innermost first -/
def sParams (ua upo ukw : Bool) (ps : List Piece) : Except SErr (List Param) := do
  let r := readSig ua upo ukw ps
  let F ← parseDef r.params
  let F ← (if r.kwo.isEmpty then pure F else do
            let q ← liftV (prepare F [] r.kwo)
            pure q.1 : Except SErr (List Param))
  -- posoargs over a translator: `_merge_other` makes ONE translator over the function with both selections
  let F0 ← parseDef r.params
  let F ← (if r.poso.isEmpty then pure F else do
            let q ← liftV (prepare F0 r.poso r.kwo)
            pure q.1 : Except SErr (List Param))
  if r.anns.isEmpty then pure F
  else do
    -- annotate re-reads the function below the translators and re-prepares them
    let A ← liftV (annotate F0 r.anns)
    if r.kwo.isEmpty && r.poso.isEmpty then pure A
    else do
      let q ← liftV (prepare A r.poso r.kwo)
      pure q.1

/-! ### the text of a signature (what `str(sig)[1:-1]` denotes, piece by piece) -/

/-- the pieces of the native spelling: `/` after the last positional-only parameter, a bare `*` before the
    first keyword-only parameter when there is no `*args` -/
def piecesAux : Option Kind → List Param → List Piece
  | prev, [] => if prev = some .po then [.slash] else []
  | prev, p :: ps =>
    (if prev = some .po && p.kind ≠ .po then [.slash] else []) ++
    (if p.kind = .ko && prev ≠ some .vp && prev ≠ some .ko then [.bare] else []) ++
    (match p.kind with
      | .vp => Piece.star false p.name p.ann p.dflt
      | .vk => Piece.star true p.name p.ann p.dflt
      | _ => Piece.plain p.name p.ann p.dflt) :: piecesAux (some p.kind) ps

def pieces (s : List Param) : List Piece := piecesAux none s

end SV
