/-
  Model/Discovery.lean — from the visitor's call records to a signature:
  `forward_signatures`, `autoforwards_ast`, and the fallback of `forged_signature`.

  Name resolution at run time (`resolve_name`: closure cells, globals, bound arguments, getattr)
  is outside code; it appears as the parameter `resolve`, which says what a marker evaluates to.
-/
import Sigverif.Model.Mask
import Sigverif.Model.Bind
import Sigverif.Model.Visitor
import Sigverif.Model.Modifiers
namespace SV

/-- what a marker evaluates to at run time -/
inductive RVal where
  | fn (sig : USig)          -- a callable whose (forged) signature is `sig`
  | partialCtor              -- `functools.partial` itself
  | other                    -- some other value
  | unresolvable             -- UnresolvableName

/-- `sig.bind_partial(*args, **kwargs)` succeeds (shape level; a missing argument is fine) -/
def bindPartialOk (s : List Param) (n : Nat) (K : List Nat) : Bool :=
  let pos := positionals s
  if n > pos.length && !hasVa s then false else
  (bindKw (kwNames s) (hasVk s) ((pos.take n).map (·.name)) K).isSome

/-- retrieving the callee's signature with the written arguments bound
    (`forged_signature(wrapped_func, args=…, kwargs=…)`): when the callee itself has star parameters
    (and source), its own discovery starts with `sig.bind_partial(*args, **kwargs)`, whose
    TypeError makes the whole discovery give up -/
def calleeRetrievable (wsig : USig) (n : Nat) (K : List Nat) : Bool :=
  !(hasVa wsig.params || hasVk wsig.params) || bindPartialOk wsig.params n K

/-- `forward_signatures(func, calls, args, kwargs, sig)` for one call record.
    `none` = the call is skipped (`if not (use_varargs or use_varkwargs): continue`). -/
def forwardSig (sig : USig) (resolve : RM → RVal) (c : CallRec) : Except Err (Option USig) :=
  if !(c.useVa || c.useVk) then .ok none else
  match resolve c.wrapped with
  | .unresolvable => .error .unknownForwards            -- rn(wrapped, unknown=False) raised
  | .other => .error .unknownForwards                   -- forged_signature(non-callable): TypeError/ValueError
  | .fn wsig =>
    if !calleeRetrievable wsig c.args.length (c.kwargs.map (·.1)) then .error .unknownForwards else
    match forwards sig wsig c.args.length (c.kwargs.map (·.1)) c.hideA c.hideK c.useVa c.useVk false with
    | .ok s => .ok (some s)
    | .error _ => .error .unknownForwards
  | .partialCtor =>
    -- wrapped_func = fwdargsvals.pop(0)
    match c.args with
    | [] => .error .unknownForwards                       -- nothing to pop (as after `fix:` D21)
    | a0 :: _ =>
      match resolve a0 with
      | .fn wsig =>
        if !calleeRetrievable wsig (c.args.length - 1) (c.kwargs.map (·.1)) then .error .unknownForwards else
        match forwards sig wsig (c.args.length - 1) (c.kwargs.map (·.1)) c.hideA c.hideK c.useVa c.useVk true with
        | .ok s => .ok (some s)
        | .error _ => .error .unknownForwards
      | _ => .error .unknownForwards

def forwardSigs (sig : USig) (resolve : RM → RVal) : List CallRec → Except Err (List USig)
  | [] => .ok []
  | c :: cs => do
    let r ← forwardSig sig resolve c
    let rs ← forwardSigs sig resolve cs
    pure (match r with | some s => s :: rs | none => rs)

/-- `autoforwards_ast(func, func_ast, sig, args, kwargs)` (as after `fix:` D20 the merge failure is
    an UnknownForwards too) -/
def autoforwardsAst (sig : USig) (resolve : RM → RVal) (calls : List CallRec) : Except Err USig := do
  let sigs ← forwardSigs sig resolve calls
  if sigs.isEmpty then .error .unknownForwards else
  match merge sigs with
  | .ok s => .ok s
  | .error _ => .error .unknownForwards

/-- the automatic part of `forged_signature(obj, auto=True)` for a plain function: discovery, or
    the plain signature when discovery gives up.  `calls = none`: no source / no star parameter. -/
def discovered (own : USig) (resolve : RM → RVal) (calls : Option (List CallRec)) : Except Err USig :=
  match calls with
  | none => .ok own
  | some cs =>
    match autoforwardsAst own resolve cs with
    | .ok s => .ok s
    | .error .unknownForwards => .ok own
    | .error e => .error e

/-- `autoforwards_function(func, args, kwargs)`: a signature, or UnknownForwards -/
def autoFn (own : USig) (resolve : RM → RVal) (calls : Option (List CallRec)) : Except Err USig :=
  match calls with
  | none => .error .unknownForwards
  | some cs => autoforwardsAst own resolve cs

/-- `forged_signature(bound method)`: `autoforwards_method` — the function is examined with the
    instance bound to its first parameter (that is inside `resolve`), and the result loses one
    positional; when that is impossible (as after `fix:` D38) or discovery gives up, the plain
    signature of the bound method, `mask(own, 1)` -/
def discoveredMethod (own : USig) (resolve : RM → RVal) (calls : Option (List CallRec)) : Except Err USig :=
  let plain := mask own 1 [] {}
  match autoFn own resolve calls with
  | .ok s => (match mask s 1 [] {} with
              | .ok r => .ok r
              | .error _ => plain)
  | .error .unknownForwards => plain
  | .error e => .error e

/-- `forged_signature(functools.partial(f, *n positionals, **kw))`: `autoforwards_partial` — `f` is
    examined with the bound positionals known (inside `resolve`), and the bound arguments are then
    taken out of the discovered signature in partial mode; when they do not fit it (as after `fix:`
    D35) or discovery gives up, the plain signature of the partial object -/
def discoveredPartial (own : USig) (resolve : RM → RVal) (calls : Option (List CallRec))
    (n : Nat) (kw : List (Nat × Nat)) (pobj : Nat) : Except Err USig :=
  let plain := maskPartial own n kw pobj
  match autoFn own resolve calls with
  | .ok s => (match maskPartial s n kw pobj with
              | .ok r => .ok r
              | .error _ => plain)
  | .error .unknownForwards => plain
  | .error e => .error e

/-- the hint route: a function wrapped by `modifiers.kwoargs / posoargs / autokwoargs` is analysed
    with its REWRITTEN signature — `_sigtools__autoforwards_hint` hands `(func, ast, self.__signature__)`
    to `autoforwards_ast`: the walker runs on the function's own source, discovery starts from the
    parameters `_prepare` advertises (provenance: the translator stands for the function) -/
def discoveredHint (own : USig) (P W : List Nat) (resolve : RM → RVal) (calls : Option (List CallRec)) :
    Except Err USig :=
  match prepare own.params P W with
  | .ok (ps, _) => discovered { own with params := ps } resolve calls
  | .error e => .error e          -- the decoration itself fails (ValueError at decoration time)

end SV
