/-
  Model/Grammar.lean — the forwarding grammar of C05/C06: programs `Prog`, how they are written
  down as an AST (`render`), and their GROUND TRUTH (`truth`): which calls forward the function's
  `*args` / `**kwargs`, and for each whether the star is still pristine when the call executes.

  `truth` is specification: it is defined from the meaning of the statements (straight-line
  code without loops: a star is pristine at a call iff no statement that may rebind, mutate,
  delete or hand over that star comes textually before it — statements inside `if`/`try`/`with`
  blocks count, since they may have run), NOT from the visitor.  It is itself validated against
  really executing the rendered programs (stream `program`).  For calls inside nested functions
  the documented conservative rule applies: any taint anywhere in the enclosing body counts.

  The rendering is the generic-tree image of ordinary Python statements (checked on every run:
  `serialise(ast.parse(source text)) = render p`).
-/
import Sigverif.Model.Visitor
namespace SV

inductive Star where | A | K deriving DecidableEq, Repr

mutual
  /-- top-level statements of the wrapper body -/
  inductive Stmt where
    /-- `[target =] callee(c₁,…,c_npos, *args?, k₁=c,…, **kwargs?)`; `callee` is a Name/Attribute tree -/
    | fwd (callee : Tree) (npos : Nat) (kws : List Nat) (va vk : Bool) (target : Option Nat)
    /-- `s = const` -/
    | rebind (s : Star)
    /-- `s.method()` -/
    | mutate (s : Star) (method : Nat)
    /-- `del s` -/
    | delete (s : Star)
    /-- `h(s)` — the star object itself handed to other code -/
    | handOver (s : Star) (h : Nat)
    /-- `h(c₁,…,c_n)` — a call that has nothing to do with the stars -/
    | decoy (h : Nat) (n : Nat)
    /-- `x = const` -/
    | unrelated (x : Nat)
    /-- `if c: body` / `try: body` / `with c: body` — a compound statement without a loop -/
    | block (body : StmtList)
    /-- `def sub(): body` / `lambda: expr` — calls inside are analysed after the whole body -/
    | nested (body : NStmtList)
    /-- `def sub(): nonlocal s; s = const` -/
    | nonlocalRebind (s : Star)
  inductive StmtList where
    | nil
    | cons (s : Stmt) (rest : StmtList)
  /-- statements inside a nested function -/
  inductive NStmt where
    | fwd (callee : Tree) (npos : Nat) (kws : List Nat) (va vk : Bool) (target : Option Nat)
    | decoy (h : Nat) (n : Nat)
    | unrelated (x : Nat)
    | block (body : NStmtList)
  inductive NStmtList where
    | nil
    | cons (s : NStmt) (rest : NStmtList)
end

structure Prog where
  params : List Nat          -- ordinary parameters
  va : Nat                   -- name of *args
  vk : Nat                   -- name of **kwargs
  body : StmtList

def Prog.star (p : Prog) : Star → Nat
  | .A => p.va | .K => p.vk

/-! ### rendering -/

/-- a constant expression: no AST-valued fields -/
def constT : Tree := .other .nil

def plainConsts : Nat → ArgList → ArgList
  | 0, rest => rest
  | n + 1, rest => .plain constT (plainConsts n rest)

def kwConsts : List Nat → KwList → KwList
  | [], rest => rest
  | k :: ks, rest => .kw k constT (kwConsts ks rest)

def callTree (va vk : Nat) (callee : Tree) (npos : Nat) (kws : List Nat) (uva uvk : Bool) : Tree :=
  .call callee
    (plainConsts npos (if uva then .starred (.name va .load) .nil else .nil))
    (kwConsts kws (if uvk then .dstar (.name vk .load) .nil else .nil))

/-- a statement holding an expression, optionally assigning it (`Assign(targets, value)`) -/
def stmtOf (target : Option Nat) (e : Tree) : Tree :=
  match target with
  | none => .other (.cons e .nil)
  | some x => .other (.cons (.name x .store) (.cons e .nil))

mutual
  def renderN (va vk : Nat) : NStmt → Tree
    | .fwd callee npos kws uva uvk target => stmtOf target (callTree va vk callee npos kws uva uvk)
    | .decoy h n => stmtOf none (.call (.name h .load) (plainConsts n .nil) .nil)
    | .unrelated x => stmtOf (some x) constT
    | .block body => .other (.cons constT (renderNL va vk body))
  def renderNL (va vk : Nat) : NStmtList → TreeList
    | .nil => .nil
    | .cons s rest => .cons (renderN va vk s) (renderNL va vk rest)
end

mutual
  def renderS (va vk : Nat) : Stmt → Tree
    | .fwd callee npos kws uva uvk target => stmtOf target (callTree va vk callee npos kws uva uvk)
    | .rebind s => stmtOf (some (match s with | .A => va | .K => vk)) constT
    | .mutate s m =>
      stmtOf none (.call (.attr (.name (match s with | .A => va | .K => vk) .load) m) .nil .nil)
    | .delete s => .other (.cons (.name (match s with | .A => va | .K => vk) .del) .nil)
    | .handOver s h =>
      stmtOf none (.call (.name h .load)
        (.plain (.name (match s with | .A => va | .K => vk) .load) .nil) .nil)
    | .decoy h n => stmtOf none (.call (.name h .load) (plainConsts n .nil) .nil)
    | .unrelated x => stmtOf (some x) constT
    | .block body => .other (.cons constT (renderSL va vk body))
    | .nested body => .fdef [] [] [] none none (renderNL va vk body)
    | .nonlocalRebind s =>
      let n := match s with | .A => va | .K => vk
      .fdef [] [] [] none none (.cons (.nonloc [n]) (.cons (stmtOf (some n) constT) .nil))
  def renderSL (va vk : Nat) : StmtList → TreeList
    | .nil => .nil
    | .cons s rest => .cons (renderS va vk s) (renderSL va vk rest)
end

def render (p : Prog) : Tree :=
  .fdef [] p.params [] (some p.va) (some p.vk) (renderSL p.va p.vk p.body)

/-! ### ground truth -/

/-- what one forwarding call does, as far as signature discovery is concerned -/
structure FwdCall where
  callee : Tree
  npos : Nat
  kws : List Nat
  useVa : Bool       -- forwards the pristine *args
  useVk : Bool
  hideA : Bool       -- passes *something* as *args that is not (or no longer) the pristine one
  hideK : Bool


/-- does the statement (possibly) taint star `s`?  `args` is a tuple: handing it over cannot
    change it, so only `**kwargs` is tainted by being handed to other code. -/
def taintsNow (s : Star) : Stmt → Bool
  | .rebind t => t = s
  | .mutate t _ => t = s
  | .delete t => t = s
  | .handOver t _ => t = s && s = .K
  | .nonlocalRebind t => t = s
  | _ => false

def mkFwd (callee : Tree) (npos : Nat) (kws : List Nat) (va vk tA tK : Bool) : List FwdCall :=
  let useVa := va && !tA
  let useVk := vk && !tK
  if useVa || useVk then
    [{ callee := callee, npos := npos, kws := kws, useVa := useVa, useVk := useVk,
       hideA := va && tA, hideK := vk && tK }]
  else []      -- forwards neither star: ignored

mutual
  /-- top-level pass in execution (= textual) order, threading the taint flags;
      returns the top-level forwarding calls and the final flags -/
  def truthS : Stmt → Bool × Bool → List FwdCall × (Bool × Bool)
    | .fwd callee npos kws va vk _, (tA, tK) => (mkFwd callee npos kws va vk tA tK, (tA, tK))
    | .block body, t => truthSL body t
    | s, (tA, tK) => ([], (tA || taintsNow .A s, tK || taintsNow .K s))
  def truthSL : StmtList → Bool × Bool → List FwdCall × (Bool × Bool)
    | .nil, t => ([], t)
    | .cons s rest, t =>
      let (c1, t1) := truthS s t
      let (c2, t2) := truthSL rest t1
      (c1 ++ c2, t2)
end

mutual
  /-- forwarding calls inside nested functions, judged with the FINAL taint flags -/
  def nestedN : NStmt → Bool × Bool → List FwdCall
    | .fwd callee npos kws va vk _, (tA, tK) => mkFwd callee npos kws va vk tA tK
    | .block body, t => nestedNL body t
    | _, _ => []
  def nestedNL : NStmtList → Bool × Bool → List FwdCall
    | .nil, _ => []
    | .cons s rest, t => nestedN s t ++ nestedNL rest t
end

mutual
  def nestedS : Stmt → Bool × Bool → List FwdCall
    | .nested body, t => nestedNL body t
    | .block body, t => nestedSL body t
    | _, _ => []
  def nestedSL : StmtList → Bool × Bool → List FwdCall
    | .nil, _ => []
    | .cons s rest, t => nestedS s t ++ nestedSL rest t
end

/-- the forwarding calls of a program: top-level ones in order, then the nested ones -/
def truth (p : Prog) : List FwdCall :=
  let (top, fin) := truthSL p.body (false, false)
  top ++ nestedSL p.body fin

/-! ### what the visitor reports, in the same vocabulary -/

/-- the calls `forward_signatures` looks at (`if not (use_varargs or use_varkwargs): continue`) -/
def forwarding (cs : List CallRec) : List CallRec := cs.filter (fun c => c.useVa || c.useVk)

/-- the marker a callee expression resolves to when none of its names is bound in the function
    (a global / closure name or an attribute chain on one) or is an ordinary parameter -/
def calleeMarker (params : List Nat) : Tree → RM
  | .name id _ => if params.contains id then .arg id none else .nm id
  | .attr v a => .attr (calleeMarker params v) a
  | _ => .unknown

/-- the visitor's record expected for a ground-truth forwarding call -/
def FwdCall.toRec (p : Prog) (f : FwdCall) : CallRec :=
  { wrapped := calleeMarker p.params f.callee,
    args := List.replicate f.npos .unknown,
    kwargs := f.kws.map (fun k => (k, RM.unknown)),
    varargs := if f.useVa then some (.arg p.va (some .va)) else if f.hideA then some .unknown else none,
    varkwargs := if f.useVk then some (.arg p.vk (some .vk)) else if f.hideK then some .unknown else none,
    useVa := f.useVa, useVk := f.useVk, hideA := f.hideA, hideK := f.hideK }

/-! ### well-formed programs: the names a program uses are kept apart -/

def isCalleeTree : Tree → Bool
  | .name _ .load => true
  | .attr v _ => isCalleeTree v
  | _ => false

def calleeRoot : Tree → Option Nat
  | .name id _ => some id
  | .attr v _ => calleeRoot v
  | _ => none

mutual
  def okN (reserved : List Nat) : NStmt → Bool
    | .fwd callee _ _ _ _ target =>
      isCalleeTree callee && (calleeRoot callee).all (fun r => !reserved.contains r) &&
      target.all (fun x => !reserved.contains x)
    | .decoy h _ => !reserved.contains h
    | .unrelated x => !reserved.contains x
    | .block body => okNL reserved body
  def okNL (reserved : List Nat) : NStmtList → Bool
    | .nil => true
    | .cons s rest => okN reserved s && okNL reserved rest
end

mutual
  def okS (reserved : List Nat) : Stmt → Bool
    | .fwd callee _ _ _ _ target =>
      isCalleeTree callee && (calleeRoot callee).all (fun r => !reserved.contains r) &&
      target.all (fun x => !reserved.contains x)
    | .handOver _ h => !reserved.contains h
    | .decoy h _ => !reserved.contains h
    | .unrelated x => !reserved.contains x
    | .block body => okSL reserved body
    | .nested body => okNL reserved body
    | _ => true
  def okSL (reserved : List Nat) : StmtList → Bool
    | .nil => true
    | .cons s rest => okS reserved s && okSL reserved rest
end

/-- the star names differ from each other and from the ordinary parameters; callee roots,
    helper functions and assignment targets are names other than the two stars; assignment
    targets and helper functions are not parameters either (callee roots MAY be parameters:
    "callee passed as a parameter" is one of the resolution routes) -/
def Prog.ok (p : Prog) : Bool :=
  p.va ≠ p.vk && !p.params.contains p.va && !p.params.contains p.vk && p.params.Nodup &&
  okSL [p.va, p.vk] p.body

end SV
